import Flowjaxv.Proofs.Families
import Flowjaxv.Proofs.FamiliesMvn
import Flowjaxv.Proofs.FamiliesLaw
import Flowjaxv.Proofs.FamiliesEF
import Flowjaxv.Proofs.FamiliesMix
import Flowjaxv.Proofs.FamiliesGen
/-!
# C05 — the provided parametric families compute their textbook log-densities

Every theorem is about `Families.*` (`Model/Families.lean`): the GENERATED standard log-densities
(`Gen/Dist.lean`, through the `jax.scipy.stats` specs of `Prelude/Stats.lean`) under the GENERATED
`AbstractTransformed._log_prob` with the bijection the constructor builds (generated
`Affine`/`Scale`/`Exp`/`Chain`, scale through the generated `SoftPlus` reparameterisation).
The textbook density is written out in each statement.  Over `ℝ` there is no `−∞`/NaN: the `ℝ`
statements are on the support; "−∞ outside the support, never NaN" is proved for the SAME definitions
instantiated at `EF` (reals + `±∞` + NaN with IEEE special-value rules, `Proofs/EF.lean`) together with the
last line of the public `log_prob` (`Families.publicLp`); the `Float` instantiation is run against the
real code by `tools/props/c05.py`.

`MultivariateNormal(loc, covariance)`: the Cholesky factorisation is a numerical primitive; the model takes
`L = linalg.cholesky(covariance)` (`MvnPf.CholFactor n L`: square, lower triangular, positive diagonal) and
goes through the hand model of `TriangularAffine`'s constructor (SoftPlus-reparameterised diagonal).

Sample laws: every `_Standard…._sample` is one `jax.random` primitive (trusted to have the standard law,
which is the base measure in each statement); everything the flowjax code does after that is proved.
-/
open Gen Families ProbabilityTheory MeasureTheory

namespace C05

/-! ### one-element log-densities -/

/-- Normal(μ, σ), σ > 0, every x -/
theorem normal_log_prob (μ σ x : ℝ) (h : 0 < σ) :
    (normal μ σ).logProb x () = -(x - μ) ^ 2 / (2 * σ ^ 2) - Real.log (σ * Real.sqrt (2 * Real.pi)) :=
  FamiliesPf.normal_lp μ σ x h

/-- … which is the logarithm of Mathlib's Gaussian density with mean μ and variance σ² -/
theorem normal_log_prob_mathlib (μ σ x : ℝ) (h : 0 < σ) :
    (normal μ σ).logProb x () = Real.log (gaussianPDFReal μ (NNReal.mk (σ ^ 2) (sq_nonneg σ)) x) :=
  FamiliesPf.normal_eq_log_gaussianPDF μ σ x h

/-- LogNormal(μ, σ), σ > 0, x > 0 -/
theorem lognormal_log_prob (μ σ x : ℝ) (h : 0 < σ) (hx : 0 < x) :
    (logNormal μ σ).logProb x ()
      = -(Real.log x - μ) ^ 2 / (2 * σ ^ 2) - Real.log (x * σ * Real.sqrt (2 * Real.pi)) :=
  FamiliesPf.logNormal_lp μ σ x h hx

/-- Uniform(a, b), a < b, on the closed support a ≤ x ≤ b (both edges included) -/
theorem uniform_log_prob (a b x : ℝ) (h : a < b) (hx1 : a ≤ x) (hx2 : x ≤ b) :
    (uniform a b).logProb x () = -Real.log (b - a) :=
  FamiliesPf.uniform_lp a b x h hx1 hx2

/-- Gumbel(μ, β), β > 0: `−(z + e^{−z}) − log β`, `z = (x − μ)/β` -/
theorem gumbel_log_prob (μ β x : ℝ) (h : 0 < β) :
    (gumbel μ β).logProb x () = -((x - μ) / β + Real.exp (-((x - μ) / β))) - Real.log β :=
  FamiliesPf.gumbel_lp μ β x h

/-- Cauchy(x₀, γ), γ > 0 -/
theorem cauchy_log_prob (x₀ γ x : ℝ) (h : 0 < γ) :
    (cauchy x₀ γ).logProb x () = -Real.log (Real.pi * γ * (1 + ((x - x₀) / γ) ^ 2)) :=
  FamiliesPf.cauchy_lp x₀ γ x h

/-- … which is the logarithm of Mathlib's Cauchy density -/
theorem cauchy_log_prob_mathlib (x₀ γ x : ℝ) (h : 0 < γ) :
    (cauchy x₀ γ).logProb x () = Real.log (cauchyPDFReal x₀ (NNReal.mk γ h.le) x) :=
  FamiliesPf.cauchy_eq_log_cauchyPDF x₀ γ x h

/-- Laplace(μ, b), b > 0 -/
theorem laplace_log_prob (μ b x : ℝ) (h : 0 < b) :
    (laplace μ b).logProb x () = -|x - μ| / b - Real.log (2 * b) :=
  FamiliesPf.laplace_lp μ b x h

/-- Exponential(λ), λ > 0, x ≥ 0 (the edge 0 included) -/
theorem exponential_log_prob (lam x : ℝ) (h : 0 < lam) (hx : 0 ≤ x) :
    (exponential lam).logProb x () = Real.log lam - lam * x :=
  FamiliesPf.exponential_lp lam x h hx

/-- … which is the logarithm of Mathlib's exponential density -/
theorem exponential_log_prob_mathlib (lam x : ℝ) (h : 0 < lam) (hx : 0 ≤ x) :
    (exponential lam).logProb x () = Real.log (exponentialPDFReal lam x) :=
  FamiliesPf.exponential_eq_log_exponentialPDF lam x h hx

/-- Logistic(μ, s), s > 0: `−z − 2 log(1 + e^{−z}) − log s`, `z = (x − μ)/s` -/
theorem logistic_log_prob (μ s x : ℝ) (h : 0 < s) :
    (logistic μ s).logProb x ()
      = -((x - μ) / s) - 2 * Real.log (1 + Real.exp (-((x - μ) / s))) - Real.log s :=
  FamiliesPf.logistic_lp μ s x h

/-- StudentT(ν, μ, σ), ν > 0, σ > 0 (ν through its softplus reparameterisation) -/
theorem studentT_log_prob (ν μ σ x : ℝ) (hν : 0 < ν) (h : 0 < σ) :
    (studentT ν μ σ).logProb x ()
      = Real.log (Real.Gamma ((ν + 1) / 2)) - Real.log (Real.Gamma (ν / 2))
        - Real.log (ν * Real.pi) / 2 - Real.log σ
        - (ν + 1) / 2 * Real.log (1 + ((x - μ) / σ) ^ 2 / ν) :=
  FamiliesPf.studentT_lp ν μ σ x hν h

/-! ### outside the support: the `log 0` branch

`ℝ` has no `−∞` (`Real.log 0 = 0`), so "log-prob = −∞" cannot be an equation over `ℝ`.  What can be
proved is which branch the generated code takes: outside the support it evaluates `Transc.log 0`
(`−∞` in IEEE arithmetic) plus finite terms.  That the Float value is then exactly `−inf` — and that
LogNormal at `x ≤ 0`, where the private value is NaN, is mapped to `−inf` by the public `log_prob` —
is checked against the real code on every run. -/

theorem uniform_outside_branch (a b x : ℝ) (h : a < b) (hx : x < a ∨ b < x) :
    (uniform a b).logProb x () = Transc.log (0 : ℝ) - Real.log (b - a) :=
  FamiliesPf.uniform_outside a b x h hx

theorem exponential_outside_branch (lam x : ℝ) (h : 0 < lam) (hx : x < 0) :
    (exponential lam).logProb x () = -(lam * x) + Transc.log (0 : ℝ) + Real.log lam :=
  FamiliesPf.exponential_outside lam x h hx

/-! ### accessors return the constructor's values -/

theorem accessor_roundtrip_loc (loc scale : ℝ) : accLoc loc scale = loc := rfl

theorem accessor_roundtrip_scale (loc scale : ℝ) (h : 0 < scale) : accScale loc scale = scale :=
  FamiliesPf.affine_scale_eq loc scale h

theorem accessor_roundtrip_df (df : ℝ) (h : 0 < df) : accDf df = df := FamiliesPf.studentDf_eq df h

theorem accessor_roundtrip_rate (rate : ℝ) (h : 0 < rate) : accRate rate = rate := by
  unfold accRate
  rw [FamiliesPf.scale_scale_eq (1 / rate) (by positivity)]
  field_simp

theorem accessor_roundtrip_minval (a b : ℝ) : accMinval a b = a := rfl

theorem accessor_roundtrip_maxval (a b : ℝ) (h : a < b) : accMaxval a b = b := by
  unfold accMaxval
  rw [FamiliesPf.affine_scale_eq a (b - a) (sub_pos.mpr h), FamiliesPf.affine_loc_eq]
  ring

/-! ### independent dimensions add up -/

/-- For every number of dimensions: the log-prob of the lifted distribution (standard base of
shape `(n,)` whose `_log_prob` sums over the elements, under the elementwise bijection) is the sum
of the one-element log-probs. -/
theorem family_sum_dims (comps : List (Comp ℝ)) (xs : List ℝ) :
    (lifted comps).logProb xs ()
      = (List.zipWith (fun p x => (oneDim p).logProb x ()) comps xs).sum :=
  FamiliesPf.lifted_logProb comps xs

/-- e.g. a Normal with per-dimension parameters `(μᵢ, σᵢ)`, all `σᵢ > 0`: the sum of the textbook terms -/
theorem normal_sum_dims (ps : List (ℝ × ℝ)) (h : ∀ p ∈ ps, 0 < p.2) (xs : List ℝ) :
    (lifted (ps.map (fun p => normalComp p.1 p.2))).logProb xs ()
      = (List.zipWith (fun p x => -(x - p.1) ^ 2 / (2 * p.2 ^ 2)
            - Real.log (p.2 * Real.sqrt (2 * Real.pi))) ps xs).sum := by
  rw [family_sum_dims, List.zipWith_map_left]
  congr 1
  induction ps generalizing xs with
  | nil => simp
  | cons p ps ih =>
    cases xs with
    | nil => simp
    | cons x xs =>
      simp only [List.zipWith_cons_cons]
      rw [ih (fun q hq => h q (List.mem_cons_of_mem _ hq)) xs]
      congr 1
      exact normal_log_prob p.1 p.2 x (h p (List.mem_cons_self ..))

/-! ### mixtures -/

/-- the max-shifted `logsumexp` the driver runs is `log Σ exp xᵢ` (any length) -/
theorem logsumexp_spec (xs : List ℝ) : logsumexp xs = Real.log ((xs.map Real.exp).sum) :=
  FamiliesPf.logsumexp_eq xs

/-- `log_softmax v = v − log Σ exp vᵢ` -/
theorem log_softmax_spec (v : List ℝ) :
    logSoftmax v = v.map (fun x => x - Real.log ((v.map Real.exp).sum)) :=
  FamiliesPf.logSoftmax_eq v

/-- For every number of components, all weights positive (not necessarily normalised): the mixture
log-prob is the log of the weight-normalised sum of the component densities `exp lpᵢ`. -/
theorem mixture_density (ws : List ℝ) (h : ∀ w ∈ ws, 0 < w) (lps : List ℝ) :
    mixtureLogProb lps ws
      = Real.log ((List.zipWith (fun w lp => w / ws.sum * Real.exp lp) ws lps).sum) :=
  FamiliesPf.mixture_density h lps

/-- rescaling all weights by any `c > 0` does not change the mixture log-prob -/
theorem mixture_weight_scale_invariant (ws : List ℝ) (h : ∀ w ∈ ws, 0 < w) (lps : List ℝ)
    (c : ℝ) (hc : 0 < c) :
    mixtureLogProb lps (ws.map (fun w => c * w)) = mixtureLogProb lps ws :=
  FamiliesPf.mixture_scale_invariant h lps hc

/-- the normalised weights `exp(log_softmax v)` sum to one (at least one component) -/
theorem mixture_weights_normalised (v : List ℝ) (h : v ≠ []) :
    ((logSoftmax v).map Real.exp).sum = 1 :=
  FamiliesPf.logSoftmax_normalised h

/-- … in particular the stored `log_normalized_weights` of positive weights are `log (wᵢ / Σ w)` -/
theorem mixture_log_normalized_weights (ws : List ℝ) (h : ∀ w ∈ ws, 0 < w) :
    logNormWeights ws = ws.map (fun w => Real.log w - Real.log ws.sum) :=
  FamiliesPf.logNormWeights_eq h

/-! ### samplers (the model's key is the base sample) -/

/-- location–scale families: the sample is `scale · z + loc` of the base sample `z` -/
theorem locscale_sample (lp : ℝ → ℝ) (loc scale z : ℝ) (h : 0 < scale) :
    (locScale lp loc scale).sample z () = scale * z + loc :=
  FamiliesPf.locScale_sample lp loc scale z h

/-- … and the log-prob returned with a sample is `log_prob` at that sample, for any standard base
(Normal, Uniform, Gumbel, Cauchy, Laplace, Logistic, StudentT are all of this form) -/
theorem locscale_sample_and_log_prob_consistent (lp : ℝ → ℝ) (loc scale : ℝ) (h : 0 < scale) :
    (locScale lp loc scale).Consistent :=
  FamiliesPf.locScale_consistent lp loc scale h

theorem lognormal_sample (μ σ z : ℝ) (h : 0 < σ) :
    (logNormal μ σ).sample z () = Real.exp (σ * z + μ) :=
  FamiliesPf.logNormal_sample μ σ z h

theorem lognormal_sample_and_log_prob_consistent (μ σ : ℝ) (h : 0 < σ) : (logNormal μ σ).Consistent :=
  FamiliesPf.logNormal_consistent μ σ h

theorem exponential_sample (lam z : ℝ) (h : 0 < lam) : (exponential lam).sample z () = z / lam :=
  FamiliesPf.exponential_sample lam z h

theorem exponential_sample_and_log_prob_consistent (lam : ℝ) (h : 0 < lam) :
    (exponential lam).Consistent :=
  FamiliesPf.exponential_consistent lam h

/-- samples follow the density (Normal): the law of the model's sampler applied to a standard
Gaussian base sample is Mathlib's Gaussian measure with mean μ and variance σ² -/
theorem normal_sample_law (μ σ : ℝ) (h : 0 < σ) :
    (gaussianReal 0 1).map (fun z => (normal μ σ).sample z ())
      = gaussianReal μ (NNReal.mk (σ ^ 2) (sq_nonneg σ)) :=
  FamiliesPf.normal_sample_law μ σ h


/-! ### MultivariateNormal -/

/-- the constructor path `TriangularAffine(loc, cholesky(covariance))`: for a Cholesky factor `L` (what
`linalg.cholesky` returns) and `loc` of `n` entries the constructor accepts, and the unwrapped distribution
is `Transformed(StandardNormal((n,)), TriangularAffine{triangular = L, loc, lower})` with the stored
(SoftPlus-reparameterised) matrix EXACTLY `L` -/
theorem mvn_constructor {n : ℕ} {L : List (List ℝ)} (h : MvnPf.CholFactor n L) {loc : List ℝ}
    (hl : loc.length = n) : mvn loc L = some (MvnPf.mvnDist n loc L) :=
  MvnPf.mvn_eq h hl

/-- a one-entry `loc` (scalar) is broadcast to every dimension -/
theorem mvn_constructor_scalar_loc {n : ℕ} {L : List (List ℝ)} (h : MvnPf.CholFactor n L) (l : ℝ) :
    mvn [l] L = some (MvnPf.mvnDist n (List.replicate n l) L) := by
  simp only [mvn, MvnPf.mvnBijection_chol_scalar h, Option.map_some, h.sq.1, MvnPf.mvnDist]

/-- **mvn_log_prob**, with the modelled triangular solve: for every dimension `n`, `loc`, Cholesky factor `L`
and point `x`:  `log_prob x = −(n/2)·log(2π) − Σᵢ log Lᵢᵢ − ½‖L⁻¹(x − loc)‖²`, `L⁻¹(·)` being the forward
substitution `solve_triangular` performs -/
theorem mvn_log_prob {n : ℕ} {L : List (List ℝ)} (h : MvnPf.CholFactor n L) {loc x : List ℝ}
    (hl : loc.length = n) (hx : x.length = n) :
    ∃ d, mvn loc L = some d ∧
      d.logProb x ()
        = -(n : ℝ) / 2 * Real.log (2 * Real.pi) - ∑ i : Fin n, Real.log (TriPf.toMat n L i i)
          - 1 / 2 * ((Tri.solveLower L (List.zipWith (fun a b => a - b) x loc)).map (fun t => t ^ 2)).sum :=
  ⟨_, MvnPf.mvn_eq h hl, MvnPf.mvnDist_logProb h hl hx⟩

/-- … and the forward substitution really solves `L z = x − loc` (so `z = L⁻¹(x − loc)`) -/
theorem mvn_solve_spec {n : ℕ} {L : List (List ℝ)} (h : MvnPf.CholFactor n L) (r : Fin n → ℝ) :
    Matrix.mulVec (TriPf.toMat n L) (VecLd.toVec n (Tri.solveLower L (List.ofFn r))) = r :=
  MvnPf.mulVec_solveLower h r

/-- **the textbook multivariate normal log-density**: with `Σ = L Lᵀ` (Mathlib matrices),
`log_prob x = −(n/2)·log(2π) − ½·log det Σ − ½·(x − μ)ᵀ Σ⁻¹ (x − μ)` -/
theorem mvn_log_prob_textbook {n : ℕ} {L : List (List ℝ)} (h : MvnPf.CholFactor n L) (μ x : Fin n → ℝ)
    (S : Matrix (Fin n) (Fin n) ℝ) (hS : TriPf.toMat n L * (TriPf.toMat n L).transpose = S) :
    ∃ d, mvn (List.ofFn μ) L = some d ∧
      d.logProb (List.ofFn x) ()
        = -(n : ℝ) / 2 * Real.log (2 * Real.pi) - 1 / 2 * Real.log S.det
          - 1 / 2 * (dotProduct (x - μ) (Matrix.mulVec S⁻¹ (x - μ))) := by
  subst hS
  exact ⟨_, MvnPf.mvn_eq h (by simp), MvnPf.mvnDist_logProb_matrix h μ x⟩

/-- **every parameter value reachable by training**: for any raw (trainable) diagonal `raw`, any stored square
array `arr` and any `loc`, the unwrapped object `Transformed(StandardNormal((n,)), TriangularAffine{triangular =
_to_triangular(softplus raw, arr), loc})` is the multivariate normal with Cholesky factor `L' = _to_triangular(…)`
(lower triangular, diagonal `softplus rawᵢ > 0`): the textbook log-density with `Σ = L' L'ᵀ` -/
theorem mvn_trained_log_prob {n : ℕ} (raw : List ℝ) (arr : List (List ℝ)) (hsq : TriPf.Square n arr)
    (hr : raw.length = n) (μ x : Fin n → ℝ) :
    MvnPf.CholFactor n (Params.triangularOfRaw true raw arr) ∧
    (Transformed.mk (stdNormalVec n)
        ((Tri.ofRaw true raw arr (List.ofFn μ)).toBij : Bij (List ℝ) Unit ℝ)).toDist.logProb (List.ofFn x) ()
      = -(n : ℝ) / 2 * Real.log (2 * Real.pi)
        - 1 / 2 * Real.log ((TriPf.toMat n (Params.triangularOfRaw true raw arr)
            * (TriPf.toMat n (Params.triangularOfRaw true raw arr)).transpose).det)
        - 1 / 2 * (dotProduct (x - μ) (Matrix.mulVec (TriPf.toMat n (Params.triangularOfRaw true raw arr)
            * (TriPf.toMat n (Params.triangularOfRaw true raw arr)).transpose)⁻¹ (x - μ))) :=
  ⟨MvnPf.cholFactor_ofRaw raw arr hsq hr,
   MvnPf.mvnDist_logProb_matrix (MvnPf.cholFactor_ofRaw raw arr hsq hr) μ x⟩

/-- `.loc` returns the constructor's (broadcast) vector -/
theorem mvn_accessor_loc {n : ℕ} {L : List (List ℝ)} (h : MvnPf.CholFactor n L) {loc : List ℝ}
    (hl : loc.length = n) : mvnLoc loc L = some loc := by
  simp only [mvnLoc, MvnPf.mvnBijection_chol h hl, Option.map_some]

/-- `.covariance` (`cholesky @ cholesky.T` of the unwrapped triangular matrix) reproduces `Σ = L Lᵀ` -/
theorem mvn_accessor_covariance {n : ℕ} {L : List (List ℝ)} (h : MvnPf.CholFactor n L) {loc : List ℝ}
    (hl : loc.length = n) (S : Matrix (Fin n) (Fin n) ℝ)
    (hS : TriPf.toMat n L * (TriPf.toMat n L).transpose = S) :
    ∃ cov, mvnCovariance loc L = some cov ∧ TriPf.Square n cov ∧ TriPf.toMat n cov = S := by
  refine ⟨matMulT L, ?_, MvnPf.matMulT_square h.sq, ?_⟩
  · simp only [mvnCovariance, MvnPf.mvnBijection_chol h hl, Option.map_some]
  · rw [MvnPf.toMat_matMulT h.sq, hS]

/-- the sampler: `L z + loc` of the base sample `z` -/
theorem mvn_sample {n : ℕ} (loc : List ℝ) (L : List (List ℝ)) (z : List ℝ) :
    (MvnPf.mvnDist n loc L).sample z () = List.zipWith (fun a b => a + b) (Tri.matVec L z) loc := rfl

theorem mvn_sample_and_log_prob_consistent {n : ℕ} {L : List (List ℝ)} (h : MvnPf.CholFactor n L)
    {loc : List ℝ} (hl : loc.length = n) {z : List ℝ} (hz : z.length = n) :
    (MvnPf.mvnDist n loc L).sampleLp z ()
      = ((MvnPf.mvnDist n loc L).sample z (),
         (MvnPf.mvnDist n loc L).logProb ((MvnPf.mvnDist n loc L).sample z ()) ()) :=
  MvnPf.mvnDist_consistent h hl hz

/-- samples follow the density: a standard normal base sample on `ℝⁿ` (density
`exp ∘ StandardNormal((n,))._log_prob`) is mapped to the law with density `exp ∘ log_prob` -/
theorem mvn_sample_law {n : ℕ} {L : List (List ℝ)} (h : MvnPf.CholFactor n L) (μ : Fin n → ℝ) :
    Measure.map (fun z : Fin n → ℝ =>
        VecLd.toVec n ((MvnPf.mvnDist n (List.ofFn μ) L).sample (List.ofFn z) ()))
        (volume.withDensity fun z => ENNReal.ofReal (Real.exp ((stdNormalVec n).logProb (List.ofFn z) ())))
      = volume.withDensity fun x =>
          ENNReal.ofReal (Real.exp ((MvnPf.mvnDist n (List.ofFn μ) L).logProb (List.ofFn x) ())) :=
  MvnPf.mvn_sample_law h μ

/-- the standard normal of shape `(n,)`: `−(n/2)·log(2π) − ½ Σ zᵢ²` -/
theorem standard_normal_vec_log_prob {n : ℕ} {z : List ℝ} (h : z.length = n) :
    (stdNormalVec n).logProb z ()
      = -(n : ℝ) / 2 * Real.log (2 * Real.pi) - 1 / 2 * (z.map (fun t => t ^ 2)).sum :=
  MvnPf.stdNormalVec_logProb h

/-! ### samples follow the density

Base measures are the laws of the `jax.random` primitives (trusted); the theorems push them through the code's
bijection.  `exp ∘ log_prob` on the right-hand side is the textbook density by the theorems above. -/

/-- **generic location–scale law**: base density `p` ⇒ the sampler `scale·z + loc` has density
`p((x − loc)/scale)/scale` -/
theorem locscale_sample_law (lp : ℝ → ℝ) (loc scale : ℝ) (h : 0 < scale) (p : ℝ → ℝ) :
    Measure.map (fun z => (locScale lp loc scale).sample z ())
        (volume.withDensity fun z => ENNReal.ofReal (p z))
      = volume.withDensity fun x => ENNReal.ofReal (p ((x - loc) / scale) / scale) :=
  FamiliesLaw.locScale_law lp loc scale h p

/-- … so a base with density `exp ∘ lp` gives density `exp ∘ log_prob` -/
theorem locscale_sample_law_exp (lp : ℝ → ℝ) (loc scale : ℝ) (h : 0 < scale) :
    Measure.map (fun z => (locScale lp loc scale).sample z ())
        (volume.withDensity fun z => ENNReal.ofReal (Real.exp (lp z)))
      = volume.withDensity fun x => ENNReal.ofReal (Real.exp ((locScale lp loc scale).logProb x ())) :=
  FamiliesLaw.locScale_law_exp lp loc scale h

/-- the `Exp` push-forward used by LogNormal -/
theorem exp_sample_law (p : ℝ → ℝ) :
    Measure.map Real.exp (volume.withDensity fun z => ENNReal.ofReal (p z))
      = volume.withDensity fun y => if 0 < y then ENNReal.ofReal (p (Real.log y) / y) else 0 :=
  FamiliesLaw.exp_law p

theorem gumbel_sample_law (μ β : ℝ) (h : 0 < β) :
    Measure.map (fun z => (gumbel μ β).sample z ())
        (volume.withDensity fun z => ENNReal.ofReal (Real.exp (-(z + Real.exp (-z)))))
      = volume.withDensity fun x => ENNReal.ofReal (Real.exp ((gumbel μ β).logProb x ())) :=
  FamiliesLaw.gumbel_law μ β h

theorem cauchy_sample_law (x₀ γ : ℝ) (h : 0 < γ) :
    Measure.map (fun z => (cauchy x₀ γ).sample z ()) (cauchyMeasure 0 1)
      = cauchyMeasure x₀ (NNReal.mk γ h.le) :=
  FamiliesLaw.cauchy_law_mathlib x₀ γ h

theorem cauchy_sample_law_density (x₀ γ : ℝ) (h : 0 < γ) :
    Measure.map (fun z => (cauchy x₀ γ).sample z ())
        (volume.withDensity fun z => ENNReal.ofReal (Real.exp (-Real.log Real.pi - Real.log (1 + z * z))))
      = volume.withDensity fun x => ENNReal.ofReal (Real.exp ((cauchy x₀ γ).logProb x ())) :=
  FamiliesLaw.cauchy_law x₀ γ h

theorem laplace_sample_law (μ b : ℝ) (h : 0 < b) :
    Measure.map (fun z => (laplace μ b).sample z ())
        (volume.withDensity fun z => ENNReal.ofReal (Real.exp (-|z| - Real.log 2)))
      = volume.withDensity fun x => ENNReal.ofReal (Real.exp ((laplace μ b).logProb x ())) :=
  FamiliesLaw.laplace_law μ b h

theorem logistic_sample_law (μ s : ℝ) (h : 0 < s) :
    Measure.map (fun z => (logistic μ s).sample z ())
        (volume.withDensity fun z => ENNReal.ofReal (Real.exp (-z - 2 * Real.log (1 + Real.exp (-z)))))
      = volume.withDensity fun x => ENNReal.ofReal (Real.exp ((logistic μ s).logProb x ())) :=
  FamiliesLaw.logistic_law μ s h

theorem studentT_sample_law (ν μ σ : ℝ) (hν : 0 < ν) (h : 0 < σ) :
    Measure.map (fun z => (studentT ν μ σ).sample z ())
        (volume.withDensity fun z => ENNReal.ofReal (Real.exp
          (Real.log (Real.Gamma ((ν + 1) / 2)) - Real.log (Real.Gamma (ν / 2)) - Real.log (ν * Real.pi) / 2
            - (ν + 1) / 2 * Real.log (1 + z * z / ν))))
      = volume.withDensity fun x => ENNReal.ofReal (Real.exp ((studentT ν μ σ).logProb x ())) :=
  FamiliesLaw.studentT_law ν μ σ hν h

/-- Normal once more, against Lebesgue densities (`normal_sample_law` above is the Mathlib-Gaussian form) -/
theorem normal_sample_law_density (μ σ : ℝ) (h : 0 < σ) :
    Measure.map (fun z => (normal μ σ).sample z ())
        (volume.withDensity fun z => ENNReal.ofReal (Real.exp (-(z * z) / 2 - Real.log (Real.sqrt (2 * Real.pi)))))
      = volume.withDensity fun x => ENNReal.ofReal (Real.exp ((normal μ σ).logProb x ())) :=
  FamiliesLaw.normal_law μ σ h

/-- Uniform: base uniform on `[0, 1]`; density `exp ∘ log_prob = 1/(b − a)` on `[a, b]`, `0` outside -/
theorem uniform_sample_law (a b : ℝ) (h : a < b) :
    Measure.map (fun z => (uniform a b).sample z ()) (volume.restrict (Set.Icc 0 1))
      = volume.withDensity fun x =>
          if a ≤ x ∧ x ≤ b then ENNReal.ofReal (Real.exp ((uniform a b).logProb x ())) else 0 :=
  FamiliesLaw.uniform_law a b h

/-- Exponential: `Scale(1/λ)` maps Mathlib's `expMeasure 1` to `expMeasure λ` … -/
theorem exponential_sample_law (lam : ℝ) (h : 0 < lam) :
    Measure.map (fun z => (exponential lam).sample z ()) (expMeasure 1) = expMeasure lam :=
  FamiliesLaw.exponential_law lam h

/-- … whose density is `exp ∘ log_prob` on `[0, ∞)` and `0` on the negative half-line -/
theorem exponential_sample_law_density (lam : ℝ) (h : 0 < lam) :
    Measure.map (fun z => (exponential lam).sample z ()) (expMeasure 1)
      = volume.withDensity fun x =>
          if 0 ≤ x then ENNReal.ofReal (Real.exp ((exponential lam).logProb x ())) else 0 :=
  FamiliesLaw.exponential_law_density lam h

/-- LogNormal: `exp(σz + μ)` of a standard Gaussian `z`; density `exp ∘ log_prob` on `(0, ∞)`, `0` elsewhere -/
theorem lognormal_sample_law (μ σ : ℝ) (h : 0 < σ) :
    Measure.map (fun z => (logNormal μ σ).sample z ()) (gaussianReal 0 1)
      = volume.withDensity fun x =>
          if 0 < x then ENNReal.ofReal (Real.exp ((logNormal μ σ).logProb x ())) else 0 :=
  FamiliesLaw.logNormal_law μ σ h

/-! ### minus infinity outside the support, never NaN (extended reals `EF`) -/

/-- **never NaN**: the public `log_prob` (`jnp.where(isnan(lps), -inf, lps)`) of ANY private value -/
theorem public_log_prob_never_nan (v : EF) : ¬ EF.isNaN (publicLp v) := EF.publicLp_not_nan v

/-- … and the public value differs from the private one only when that is NaN (then it is `−∞`) -/
theorem public_log_prob_spec (v : EF) :
    (¬ EF.isNaN v → publicLp v = v) ∧ (EF.isNaN v → publicLp v = EF.ninf) := by
  refine ⟨EF.publicLp_of_not_nan, ?_⟩
  cases v <;> simp [EF.isNaN]

/-- Uniform(a, b) at EVERY real point: `−log(b − a)` on `[a, b]`, exactly `−∞` outside (private value; no NaN
arises, so the public value is the same) -/
theorem uniform_log_prob_ext (a b x : ℝ) (h : a < b) :
    (uniform (EF.fin a) (EF.fin b)).logProb (EF.fin x) ()
      = if a ≤ x ∧ x ≤ b then EF.fin (-Real.log (b - a)) else EF.ninf :=
  FamiliesEF.uniform_logProb a b x h

theorem uniform_public_outside (a b x : ℝ) (h : a < b) (hx : x < a ∨ b < x) :
    publicLp ((uniform (EF.fin a) (EF.fin b)).logProb (EF.fin x) ()) = EF.ninf := by
  rw [uniform_log_prob_ext a b x h, if_neg (by rintro ⟨h1, h2⟩; rcases hx with hx | hx <;> linarith)]
  exact EF.publicLp_ninf

theorem uniform_log_prob_at_infinity (a b : ℝ) (h : a < b) :
    (uniform (EF.fin a) (EF.fin b)).logProb EF.pinf () = EF.ninf ∧
    (uniform (EF.fin a) (EF.fin b)).logProb EF.ninf () = EF.ninf :=
  FamiliesEF.uniform_logProb_inf a b h

/-- observation (a NaN input is not a point of the sample space, so outside the property): Uniform alone returns the
finite in-support value for a NaN input — the real `Uniform(0, 2).log_prob(nan)` is `−log 2`; every other family gives `−∞` -/
theorem uniform_nan_input_observation (a b : ℝ) (h : a < b) :
    (uniform (EF.fin a) (EF.fin b)).logProb EF.nan () = EF.fin (-Real.log (b - a)) :=
  FamiliesEF.uniform_logProb_nan a b h

/-- Exponential(λ) at every real point: `log λ − λx` on `[0, ∞)`, exactly `−∞` for `x < 0` -/
theorem exponential_log_prob_ext (lam x : ℝ) (h : 0 < lam) :
    (exponential (EF.fin lam)).logProb (EF.fin x) ()
      = if 0 ≤ x then EF.fin (Real.log lam - lam * x) else EF.ninf :=
  FamiliesEF.exponential_logProb lam x h

theorem exponential_public_outside (lam x : ℝ) (h : 0 < lam) (hx : x < 0) :
    publicLp ((exponential (EF.fin lam)).logProb (EF.fin x) ()) = EF.ninf := by
  rw [exponential_log_prob_ext lam x h, if_neg (not_le.mpr hx)]
  exact EF.publicLp_ninf

/-- at `+∞`: `−∞`; at `−∞` the private value is NaN (`∞ − ∞`), the public one `−∞` -/
theorem exponential_log_prob_at_infinity (lam : ℝ) (h : 0 < lam) :
    (exponential (EF.fin lam)).logProb EF.pinf () = EF.ninf ∧
    publicLp ((exponential (EF.fin lam)).logProb EF.ninf ()) = EF.ninf :=
  FamiliesEF.exponential_logProb_inf lam h

/-- LogNormal on its support `x > 0`: finite, the value of `lognormal_log_prob` -/
theorem lognormal_log_prob_ext (μ σ x : ℝ) (h : 0 < σ) (hx : 0 < x) :
    (logNormal (EF.fin μ) (EF.fin σ)).logProb (EF.fin x) () = EF.fin ((logNormal μ σ).logProb x ()) :=
  FamiliesEF.logNormal_logProb_pos μ σ x h hx

/-- **LogNormal at `x ≤ 0`**: the private `_log_prob` is NaN (log of a negative number; at `0`: `−∞ + ∞`) and
the public `log_prob` is `−∞` -/
theorem lognormal_public_outside (μ σ x : ℝ) (h : 0 < σ) (hx : x ≤ 0) :
    (logNormal (EF.fin μ) (EF.fin σ)).logProb (EF.fin x) () = EF.nan ∧
    publicLp ((logNormal (EF.fin μ) (EF.fin σ)).logProb (EF.fin x) ()) = EF.ninf :=
  FamiliesEF.logNormal_logProb_nonpos μ σ x h hx

theorem lognormal_log_prob_at_infinity (μ σ : ℝ) (h : 0 < σ) :
    (logNormal (EF.fin μ) (EF.fin σ)).logProb EF.pinf () = EF.ninf ∧
    publicLp ((logNormal (EF.fin μ) (EF.fin σ)).logProb EF.ninf ()) = EF.ninf :=
  FamiliesEF.logNormal_logProb_inf μ σ h

/-- the full-support location–scale families: whenever the standard log-density maps every real to a real
(value `lpR`), the family's private `_log_prob` at every real point is finite and equals the real-number model's
value — no `±∞`, no NaN -/
theorem locscale_log_prob_ext (lp : EF → EF) (lpR : ℝ → ℝ) (hlp : ∀ t, lp (EF.fin t) = EF.fin (lpR t))
    (l s x : ℝ) (h : 0 < s) :
    (locScale lp (EF.fin l) (EF.fin s)).logProb (EF.fin x) () = EF.fin ((locScale lpR l s).logProb x ()) :=
  FamiliesEF.locScale_fin lp lpR hlp l s x h

theorem normal_log_prob_ext (μ σ x : ℝ) (h : 0 < σ) :
    (normal (EF.fin μ) (EF.fin σ)).logProb (EF.fin x) () = EF.fin ((normal μ σ).logProb x ()) :=
  FamiliesEF.locScale_fin _ _ FamiliesEF.normLp_fin μ σ x h

theorem gumbel_log_prob_ext (μ β x : ℝ) (h : 0 < β) :
    (gumbel (EF.fin μ) (EF.fin β)).logProb (EF.fin x) () = EF.fin ((gumbel μ β).logProb x ()) :=
  FamiliesEF.locScale_fin _ _ FamiliesEF.gumbelLp_fin μ β x h

theorem cauchy_log_prob_ext (x₀ γ x : ℝ) (h : 0 < γ) :
    (cauchy (EF.fin x₀) (EF.fin γ)).logProb (EF.fin x) () = EF.fin ((cauchy x₀ γ).logProb x ()) :=
  FamiliesEF.locScale_fin _ _ FamiliesEF.cauchyLp_fin x₀ γ x h

theorem laplace_log_prob_ext (μ b x : ℝ) (h : 0 < b) :
    (laplace (EF.fin μ) (EF.fin b)).logProb (EF.fin x) () = EF.fin ((laplace μ b).logProb x ()) :=
  FamiliesEF.locScale_fin _ _ FamiliesEF.laplaceLp_fin μ b x h

theorem logistic_log_prob_ext (μ s x : ℝ) (h : 0 < s) :
    (logistic (EF.fin μ) (EF.fin s)).logProb (EF.fin x) () = EF.fin ((logistic μ s).logProb x ()) :=
  FamiliesEF.locScale_fin _ _ FamiliesEF.logisticLp_fin μ s x h

theorem studentT_log_prob_ext (ν μ σ x : ℝ) (hν : 0 < ν) (h : 0 < σ) :
    (studentT (EF.fin ν) (EF.fin μ) (EF.fin σ)).logProb (EF.fin x) () = EF.fin ((studentT ν μ σ).logProb x ()) := by
  unfold studentT
  rw [FamiliesEF.studentDf_fin ν hν, FamiliesPf.studentDf_eq ν hν]
  exact FamiliesEF.locScale_fin _ _ (FamiliesEF.studentLp_fin ν hν) μ σ x h

/-! ### VmapMixture: the sampling side -/

/-- the `leaf[component]` selection: an in-range categorical draw selects exactly that component -/
theorem mixture_take_in_range {β : Type} (comps : List β) {i : ℕ} (h : i < comps.length) :
    mixtureTake comps i = some comps[i] := MixPf.mixtureTake_lt comps h

/-- with at least one component the selection is always defined (an out-of-range traced index is clamped to the last
component by JAX), so the `default` of `vmapMixture`'s sampler is never returned -/
theorem mixture_take_defined {β : Type} (comps : List β) (hne : comps ≠ []) (i : ℕ) :
    ∃ b ∈ comps, mixtureTake comps i = some b := by
  rcases Nat.lt_or_ge i comps.length with h | h
  · exact ⟨_, List.getElem_mem h, MixPf.mixtureTake_lt comps h⟩
  · exact ⟨_, List.getElem_mem _, MixPf.mixtureTake_ge comps h hne⟩

/-- `_sample(key)` is the selected component's `_sample(key2)` -/
theorem mixture_sample_is_component_sample {X C K : Type} [Inhabited X] (comps : List (Distn X C K ℝ))
    (ws : List ℝ) {i : ℕ} (h : i < comps.length) (key2 : K) (c : C) :
    (vmapMixture comps ws).sample (i, key2) c = comps[i].sample key2 c :=
  MixPf.vmapMixture_sample comps ws h key2 c

/-- `_log_prob` of the whole object is the mixture formula of `mixture_density` over the components' values -/
theorem mixture_object_log_prob {X C K : Type} [Inhabited X] (comps : List (Distn X C K ℝ)) (ws : List ℝ)
    (h : ∀ w ∈ ws, 0 < w) (x : X) (c : C) :
    (vmapMixture comps ws).logProb x c
      = Real.log ((List.zipWith (fun w lp => w / ws.sum * Real.exp lp) ws
          (comps.map (fun d => d.logProb x c))).sum) := by
  rw [MixPf.vmapMixture_logProb, mixture_density ws h]

/-- the inherited `_sample_and_log_prob`: the returned log-prob is `_log_prob` at the returned sample -/
theorem mixture_sample_and_log_prob_consistent {X C K : Type} [Inhabited X] (comps : List (Distn X C K ℝ))
    (ws : List ℝ) : (vmapMixture comps ws).Consistent := MixPf.vmapMixture_consistent comps ws

/-- the categorical law `P(i) = wᵢ/Σw` (what `jr.categorical(key1, log_normalized_weights)` draws: trusted) is
a probability law -/
theorem categorical_law_normalised {ws : List ℝ} (hw : ∀ w ∈ ws, 0 < w) (hne : ws ≠ []) :
    MixPf.catLaw ws Set.univ = 1 := MixPf.catLaw_univ hw hne

/-- **mixture samples follow the mixture density**: categorical draw ~ `catLaw ws`, second key ~ any `κ`
independently; every component's sampler has density `exp ∘ _log_prob` w.r.t. `μ` ⇒ so has the mixture's,
for any number of components, any positive unnormalised weights, any point type -/
theorem mixture_sample_law {X K : Type} [MeasurableSpace X] [MeasurableSpace K] [Inhabited X]
    (μ : Measure X) (κ : Measure K) [SFinite κ]
    (comps : List (Distn X Unit K ℝ)) (ws : List ℝ) (hlen : comps.length = ws.length) (hne : ws ≠ [])
    (hw : ∀ w ∈ ws, 0 < w)
    (hs : ∀ d ∈ comps, Measurable fun k => d.sample k ())
    (hlp : ∀ d ∈ comps, Measurable fun x => d.logProb x ())
    (hlaw : ∀ d ∈ comps, Measure.map (fun k => d.sample k ()) κ
      = μ.withDensity fun x => ENNReal.ofReal (Real.exp (d.logProb x ()))) :
    Measure.map (fun key : ℕ × K => (vmapMixture comps ws).sample key ()) ((MixPf.catLaw ws).prod κ)
      = μ.withDensity fun x => ENNReal.ofReal (Real.exp ((vmapMixture comps ws).logProb x ())) :=
  MixPf.mixture_sample_law μ κ comps ws hlen hne hw hs hlp hlaw

/-! ### non-vacuity instances -/

theorem normal_instance :
    (normal 1 2).logProb 3 () = -(1 / 2) - Real.log (2 * Real.sqrt (2 * Real.pi)) := by
  rw [normal_log_prob 1 2 3 (by norm_num)]; norm_num

theorem uniform_edge_instance : (uniform (-1) 3).logProb 3 () = -Real.log 4 := by
  rw [uniform_log_prob (-1) 3 3 (by norm_num) (by norm_num) le_rfl]; norm_num

theorem exponential_edge_instance : (exponential 2).logProb 0 () = Real.log 2 := by
  rw [exponential_log_prob 2 0 (by norm_num) le_rfl]; norm_num

theorem mixture_instance : mixtureLogProb [0, 0] [1, (3 : ℝ)] = 0 := by
  rw [mixture_density [1, 3] (by simp) [0, 0]]; norm_num

theorem mixture_weight_scale_instance (lps : List ℝ) :
    mixtureLogProb lps [2, 6] = mixtureLogProb lps [1, 3] := by
  have := mixture_weight_scale_invariant [1, 3] (by simp) lps 2 (by norm_num)
  norm_num at this
  exact this

/-! ### non-vacuity instances for MultivariateNormal, the extended-real statements and the mixture law -/

theorem cholFactor_instance : MvnPf.CholFactor 2 [[2, 0], [1, 3]] := by
  refine ⟨⟨rfl, by simp⟩, ?_, ?_⟩
  · intro i j hij hj
    have : i = 0 ∧ j = 1 := by omega
    obtain ⟨rfl, rfl⟩ := this
    simp [TriPf.entry]
  · intro i hi
    interval_cases i <;> simp [TriPf.entry]

/-- `MultivariateNormal([1, −1], [[4, 2], [2, 10]])` (Cholesky factor `[[2, 0], [1, 3]]`) at its mean -/
theorem mvn_instance :
    ∃ d, mvn [1, -1] [[2, 0], [1, 3]] = some d ∧
      d.logProb [1, -1] () = -Real.log (2 * Real.pi) - Real.log 2 - Real.log 3 := by
  obtain ⟨d, hd, hlp⟩ := mvn_log_prob cholFactor_instance (loc := [1, -1]) (x := [1, -1]) rfl rfl
  refine ⟨d, hd, ?_⟩
  rw [hlp, Fin.sum_univ_two]
  simp [TriPf.toMat, TriPf.entry, TriPf.solveLower_cons, TriPf.solveLower_nil]
  ring

theorem mvn_covariance_instance :
    TriPf.toMat 2 [[2, 0], [1, 3]] * (TriPf.toMat 2 [[2, 0], [1, 3]]).transpose = !![4, 2; 2, 10] := by
  ext i j
  fin_cases i <;> fin_cases j <;> simp [Matrix.mul_apply, Fin.sum_univ_two, TriPf.toMat, TriPf.entry] <;> norm_num

theorem uniform_outside_instance :
    publicLp ((uniform (EF.fin 0) (EF.fin 1)).logProb (EF.fin 2) ()) = EF.ninf :=
  uniform_public_outside 0 1 2 one_pos (Or.inr (by norm_num))

theorem lognormal_outside_instance :
    publicLp ((logNormal (EF.fin 0) (EF.fin 1)).logProb (EF.fin (-1)) ()) = EF.ninf :=
  (lognormal_public_outside 0 1 (-1) one_pos (by norm_num)).2

theorem normal_logProb_measurable (μ σ : ℝ) (h : 0 < σ) : Measurable fun x => (normal μ σ).logProb x () := by
  have : (fun x => (normal μ σ).logProb x ())
      = fun x => -(x - μ) ^ 2 / (2 * σ ^ 2) - Real.log (σ * Real.sqrt (2 * Real.pi)) := by
    funext x; exact normal_log_prob μ σ x h
  rw [this]; fun_prop

/-- a two-component Normal mixture satisfies every hypothesis of `mixture_sample_law` -/
theorem mixture_sample_law_instance :
    Measure.map (fun key : ℕ × ℝ => (vmapMixture [normal 0 1, normal 3 2] [1, 3]).sample key ())
        ((MixPf.catLaw [1, 3]).prod (volume.withDensity fun z =>
          ENNReal.ofReal (Real.exp (-(z * z) / 2 - Real.log (Real.sqrt (2 * Real.pi))))))
      = volume.withDensity fun x =>
          ENNReal.ofReal (Real.exp ((vmapMixture [normal 0 1, normal 3 2] [1, 3]).logProb x ())) := by
  apply mixture_sample_law volume _ _ _ rfl (by simp) (by simp)
  · intro d hd
    simp only [List.mem_cons, List.not_mem_nil, or_false] at hd
    rcases hd with rfl | rfl
    · have : (fun k : ℝ => (normal (0 : ℝ) 1).sample k ()) = fun k => 1 * k + 0 := by
        funext k; exact locscale_sample _ 0 1 k one_pos
      rw [this]; fun_prop
    · have : (fun k : ℝ => (normal (3 : ℝ) 2).sample k ()) = fun k => 2 * k + 3 := by
        funext k; exact locscale_sample _ 3 2 k two_pos
      rw [this]; fun_prop
  · intro d hd
    simp only [List.mem_cons, List.not_mem_nil, or_false] at hd
    rcases hd with rfl | rfl
    · exact normal_logProb_measurable 0 1 one_pos
    · exact normal_logProb_measurable 3 2 two_pos
  · intro d hd
    simp only [List.mem_cons, List.not_mem_nil, or_false] at hd
    rcases hd with rfl | rfl
    · exact normal_sample_law_density 0 1 one_pos
    · exact normal_sample_law_density 3 2 two_pos

/-! ### The REGENERATED constructors and accessors (`Gen/FamiliesGen.lean`: every `__init__` / accessor property of the families,
`Affine`, `Scale`, `Loc`, `_StandardStudentT`, translated statement by statement by `py2meth.py`)

`gen_…_eq_model`: for every parameter array and every broadcastable pair / triple of shapes, the object the generated constructor
returns — read through the generated `unwrap` and the generated elementwise kernels (`Model/FamiliesGenSem.lean`) — is the hand
wiring of `Model/Families.lean` lifted over the broadcast parameters, so every theorem above is about the generated constructor.
`gen_…_log_prob`: the textbook log-density on the generated constructor + generated `_log_prob` (scalar parameters; `…_dims`: any
shape).  `gen_…_accessor`: the generated accessor on the generated constructor's object returns the (broadcast) argument. -/
section FamiliesGen
open Fw FamGenPf Vec

theorem gen_normal_eq_model (loc scale : NArr ℝ) {s : List ℕ} (h : bcast2 loc.shape scale.shape = some s) :
    (GenFam.Normal.init loc scale).map locScaleDist
      = some (lifted (List.zipWith normalComp (broadcastTo loc s).data (broadcastTo scale s).data)) :=
  FamGenPf.gen_normal_eq_model loc scale h

theorem gen_gumbel_eq_model (loc scale : NArr ℝ) {s : List ℕ} (h : bcast2 loc.shape scale.shape = some s) :
    (GenFam.Gumbel.init loc scale).map locScaleDist
      = some (lifted (List.zipWith gumbelComp (broadcastTo loc s).data (broadcastTo scale s).data)) :=
  FamGenPf.gen_gumbel_eq_model loc scale h

theorem gen_cauchy_eq_model (loc scale : NArr ℝ) {s : List ℕ} (h : bcast2 loc.shape scale.shape = some s) :
    (GenFam.Cauchy.init loc scale).map locScaleDist
      = some (lifted (List.zipWith cauchyComp (broadcastTo loc s).data (broadcastTo scale s).data)) :=
  FamGenPf.gen_cauchy_eq_model loc scale h

theorem gen_laplace_eq_model (loc scale : NArr ℝ) {s : List ℕ} (h : bcast2 loc.shape scale.shape = some s) :
    (GenFam.Laplace.init loc scale).map locScaleDist
      = some (lifted (List.zipWith laplaceComp (broadcastTo loc s).data (broadcastTo scale s).data)) :=
  FamGenPf.gen_laplace_eq_model loc scale h

theorem gen_logistic_eq_model (loc scale : NArr ℝ) {s : List ℕ} (h : bcast2 loc.shape scale.shape = some s) :
    (GenFam.Logistic.init loc scale).map locScaleDist
      = some (lifted (List.zipWith logisticComp (broadcastTo loc s).data (broadcastTo scale s).data)) :=
  FamGenPf.gen_logistic_eq_model loc scale h

/-- `Chain([Affine(loc, scale), Exp(shape)])` over `StandardNormal(shape)`: the array-level chain is the per-entry chain -/
theorem gen_lognormal_eq_model (loc scale : NArr ℝ) {s : List ℕ} (h : bcast2 loc.shape scale.shape = some s) :
    (GenFam.LogNormal.init loc scale).map logNormalDist
      = some (lifted (List.zipWith logNormalComp (broadcastTo loc s).data (broadcastTo scale s).data)) :=
  FamGenPf.gen_lognormal_eq_model loc scale h

/-- `Affine(loc=minval, scale=maxval - minval)` over `_StandardUniform(shape)`, when no entry has `maxval ≤ minval` -/
theorem gen_uniform_eq_model (minval maxval : NArr ℝ) {s : List ℕ} (h : bcast2 minval.shape maxval.shape = some s)
    (hv : ∀ p ∈ List.zip (broadcastTo maxval s).data (broadcastTo minval s).data, ¬ p.1 ≤ p.2) :
    (GenFam.Uniform.init minval maxval).map locScaleDist
      = some (lifted (List.zipWith uniformComp (broadcastTo minval s).data (broadcastTo maxval s).data)) :=
  FamGenPf.gen_uniform_eq_model minval maxval h hv

/-- `Scale(1 / rate)` over `_StandardExponential(jnp.shape(rate))` -/
theorem gen_exponential_eq_model (rate : NArr ℝ) (hw : rate.WF) :
    exponentialDist (GenFam.Exponential.init rate) = lifted (rate.data.map exponentialComp) :=
  FamGenPf.gen_exponential_eq_model rate hw

/-- `broadcast_arrays(df, loc, scale)`, `_StandardStudentT(df)` (SoftPlus-reparameterised `df`), `Affine(loc, scale)` -/
theorem gen_studentT_eq_model (df loc scale : NArr ℝ) {s : List ℕ}
    (h : Vec.broadcastShapes [df.shape, loc.shape, scale.shape] = some s) (hpos : ∀ d ∈ (broadcastTo df s).data, 0 < d) :
    (GenFam.StudentT.init df loc scale).map studentTDist
      = some (lifted (List.zipWith3 studentTComp (broadcastTo df s).data (broadcastTo loc s).data (broadcastTo scale s).data)) :=
  FamGenPf.gen_studentT_eq_model df loc scale h hpos

/-- `TriangularAffine(loc, cholesky(covariance))` then `StandardNormal(bijection.shape)`: the hand model `Families.mvn` (so
`mvn_log_prob`, `mvn_log_prob_textbook`, `mvn_sample_law` are about the generated constructor) -/
theorem gen_mvn_eq_model (cholesky : List (List ℝ) → List (List ℝ)) (loc : List ℝ) (cov : List (List ℝ)) {n : ℕ}
    (h : MvnPf.CholFactor n (cholesky cov)) (hl : loc.length = n) :
    (GenFam.MultivariateNormal.init cholesky loc cov).map mvnDist = Families.mvn loc (cholesky cov) :=
  FamGenPf.gen_mvn_eq_model cholesky loc cov h hl

/-- the constructors raise exactly when the shapes do not broadcast (here `Normal`; every family starts with the same call) -/
theorem gen_normal_rejects_iff (loc scale : NArr ℝ) :
    GenFam.Normal.init loc scale = none ↔ bcast2 loc.shape scale.shape = none := by
  constructor
  · intro h
    cases hb : bcast2 loc.shape scale.shape with
    | none => rfl
    | some s =>
      have := FamGenPf.gen_normal_eq_model loc scale hb
      rw [h] at this; cases this
  · exact FamGenPf.gen_normal_none loc scale

/-! #### textbook log-densities on the generated constructor + generated `_log_prob` -/

/-- independent dimensions: on any shape, the generated object's log-prob is the sum of the one-element log-probs -/
theorem gen_normal_log_prob_dims (loc scale : NArr ℝ) {s : List ℕ} (h : bcast2 loc.shape scale.shape = some s) (xs : List ℝ) :
    ∃ d, GenFam.Normal.init loc scale = some d ∧
      (locScaleDist d).logProb xs ()
        = (List.zipWith (fun p x => (oneDim p).logProb x ())
            (List.zipWith normalComp (broadcastTo loc s).data (broadcastTo scale s).data) xs).sum := by
  obtain ⟨d, hd, he⟩ := Option.map_eq_some_iff.1 (FamGenPf.gen_normal_eq_model loc scale h)
  exact ⟨d, hd, by rw [he, family_sum_dims]⟩

theorem gen_normal_log_prob (μ σ x : ℝ) (h : 0 < σ) :
    ∃ d, GenFam.Normal.init (NArr.scalar μ) (NArr.scalar σ) = some d ∧
      (locScaleDist d).logProb [x] () = -(x - μ) ^ 2 / (2 * σ ^ 2) - Real.log (σ * Real.sqrt (2 * Real.pi)) := by
  obtain ⟨d, hd, he⟩ := Option.map_eq_some_iff.1 (FamGenPf.gen_normal_eq_model (NArr.scalar μ) (NArr.scalar σ) (bcast2_self []))
  refine ⟨d, hd, ?_⟩
  rw [he, broadcastTo_scalar, broadcastTo_scalar, List.zipWith_cons_cons, List.zipWith_nil_left, scalar_logProb]
  exact normal_log_prob μ σ x h

theorem gen_lognormal_log_prob (μ σ x : ℝ) (h : 0 < σ) (hx : 0 < x) :
    ∃ d, GenFam.LogNormal.init (NArr.scalar μ) (NArr.scalar σ) = some d ∧
      (logNormalDist d).logProb [x] () = -(Real.log x - μ) ^ 2 / (2 * σ ^ 2) - Real.log (x * σ * Real.sqrt (2 * Real.pi)) := by
  obtain ⟨d, hd, he⟩ := Option.map_eq_some_iff.1 (FamGenPf.gen_lognormal_eq_model (NArr.scalar μ) (NArr.scalar σ) (bcast2_self []))
  refine ⟨d, hd, ?_⟩
  rw [he, broadcastTo_scalar, broadcastTo_scalar, List.zipWith_cons_cons, List.zipWith_nil_left, scalar_logProb]
  exact lognormal_log_prob μ σ x h hx

/-- on the closed support, both edges included -/
theorem gen_uniform_log_prob (a b x : ℝ) (h : a < b) (hx1 : a ≤ x) (hx2 : x ≤ b) :
    ∃ d, GenFam.Uniform.init (NArr.scalar a) (NArr.scalar b) = some d ∧ (locScaleDist d).logProb [x] () = -Real.log (b - a) := by
  obtain ⟨d, hd, he⟩ := Option.map_eq_some_iff.1 (FamGenPf.gen_uniform_eq_model (NArr.scalar a) (NArr.scalar b) (bcast2_self [])
    (by intro p hp; rw [broadcastTo_scalar, broadcastTo_scalar] at hp; simp at hp; subst hp; simpa using h))
  refine ⟨d, hd, ?_⟩
  rw [he, broadcastTo_scalar, broadcastTo_scalar, List.zipWith_cons_cons, List.zipWith_nil_left, scalar_logProb]
  exact uniform_log_prob a b x h hx1 hx2

theorem gen_gumbel_log_prob (μ β x : ℝ) (h : 0 < β) :
    ∃ d, GenFam.Gumbel.init (NArr.scalar μ) (NArr.scalar β) = some d ∧
      (locScaleDist d).logProb [x] () = -((x - μ) / β + Real.exp (-((x - μ) / β))) - Real.log β := by
  obtain ⟨d, hd, he⟩ := Option.map_eq_some_iff.1 (FamGenPf.gen_gumbel_eq_model (NArr.scalar μ) (NArr.scalar β) (bcast2_self []))
  refine ⟨d, hd, ?_⟩
  rw [he, broadcastTo_scalar, broadcastTo_scalar, List.zipWith_cons_cons, List.zipWith_nil_left, scalar_logProb]
  exact gumbel_log_prob μ β x h

theorem gen_cauchy_log_prob (x₀ γ x : ℝ) (h : 0 < γ) :
    ∃ d, GenFam.Cauchy.init (NArr.scalar x₀) (NArr.scalar γ) = some d ∧
      (locScaleDist d).logProb [x] () = -Real.log (Real.pi * γ * (1 + ((x - x₀) / γ) ^ 2)) := by
  obtain ⟨d, hd, he⟩ := Option.map_eq_some_iff.1 (FamGenPf.gen_cauchy_eq_model (NArr.scalar x₀) (NArr.scalar γ) (bcast2_self []))
  refine ⟨d, hd, ?_⟩
  rw [he, broadcastTo_scalar, broadcastTo_scalar, List.zipWith_cons_cons, List.zipWith_nil_left, scalar_logProb]
  exact cauchy_log_prob x₀ γ x h

theorem gen_laplace_log_prob (μ b x : ℝ) (h : 0 < b) :
    ∃ d, GenFam.Laplace.init (NArr.scalar μ) (NArr.scalar b) = some d ∧
      (locScaleDist d).logProb [x] () = -|x - μ| / b - Real.log (2 * b) := by
  obtain ⟨d, hd, he⟩ := Option.map_eq_some_iff.1 (FamGenPf.gen_laplace_eq_model (NArr.scalar μ) (NArr.scalar b) (bcast2_self []))
  refine ⟨d, hd, ?_⟩
  rw [he, broadcastTo_scalar, broadcastTo_scalar, List.zipWith_cons_cons, List.zipWith_nil_left, scalar_logProb]
  exact laplace_log_prob μ b x h

theorem gen_logistic_log_prob (μ s x : ℝ) (h : 0 < s) :
    ∃ d, GenFam.Logistic.init (NArr.scalar μ) (NArr.scalar s) = some d ∧
      (locScaleDist d).logProb [x] () = -((x - μ) / s) - 2 * Real.log (1 + Real.exp (-((x - μ) / s))) - Real.log s := by
  obtain ⟨d, hd, he⟩ := Option.map_eq_some_iff.1 (FamGenPf.gen_logistic_eq_model (NArr.scalar μ) (NArr.scalar s) (bcast2_self []))
  refine ⟨d, hd, ?_⟩
  rw [he, broadcastTo_scalar, broadcastTo_scalar, List.zipWith_cons_cons, List.zipWith_nil_left, scalar_logProb]
  exact logistic_log_prob μ s x h

/-- the edge `x = 0` included -/
theorem gen_exponential_log_prob (lam x : ℝ) (h : 0 < lam) (hx : 0 ≤ x) :
    (exponentialDist (GenFam.Exponential.init (NArr.scalar lam))).logProb [x] () = Real.log lam - lam * x := by
  rw [FamGenPf.gen_exponential_eq_model (NArr.scalar lam) rfl]
  show (lifted [exponentialComp lam]).logProb [x] () = _
  rw [scalar_logProb]
  exact exponential_log_prob lam x h hx

theorem gen_studentT_log_prob (ν μ σ x : ℝ) (hν : 0 < ν) (h : 0 < σ) :
    ∃ d, GenFam.StudentT.init (NArr.scalar ν) (NArr.scalar μ) (NArr.scalar σ) = some d ∧
      (studentTDist d).logProb [x] ()
        = Real.log (Real.Gamma ((ν + 1) / 2)) - Real.log (Real.Gamma (ν / 2))
          - Real.log (ν * Real.pi) / 2 - Real.log σ
          - (ν + 1) / 2 * Real.log (1 + ((x - μ) / σ) ^ 2 / ν) := by
  obtain ⟨d, hd, he⟩ := Option.map_eq_some_iff.1 (FamGenPf.gen_studentT_eq_model (NArr.scalar ν) (NArr.scalar μ) (NArr.scalar σ)
    (s := []) rfl (by intro d hd; rw [broadcastTo_scalar] at hd; simp at hd; subst hd; exact hν))
  refine ⟨d, hd, ?_⟩
  rw [he, broadcastTo_scalar, broadcastTo_scalar, broadcastTo_scalar]
  show (lifted [studentTComp ν μ σ]).logProb [x] () = _
  rw [scalar_logProb]
  exact studentT_log_prob ν μ σ x hν h

/-- `MultivariateNormal` on the generated constructor: the log-density of `mvn_log_prob` -/
theorem gen_mvn_log_prob (cholesky : List (List ℝ) → List (List ℝ)) (cov : List (List ℝ)) {n : ℕ}
    (h : MvnPf.CholFactor n (cholesky cov)) {loc x : List ℝ} (hl : loc.length = n) (hx : x.length = n) :
    ∃ d, GenFam.MultivariateNormal.init cholesky loc cov = some d ∧
      (mvnDist d).logProb x ()
        = -(n : ℝ) / 2 * Real.log (2 * Real.pi) - ∑ i : Fin n, Real.log (TriPf.toMat n (cholesky cov) i i)
          - 1 / 2 * ((Tri.solveLower (cholesky cov) (List.zipWith (fun a b => a - b) x loc)).map (fun t => t ^ 2)).sum := by
  obtain ⟨d', hd', he'⟩ := mvn_log_prob h hl hx
  have hg := FamGenPf.gen_mvn_eq_model cholesky loc cov h hl
  rw [hd'] at hg
  obtain ⟨d, hd, he⟩ := Option.map_eq_some_iff.1 hg
  exact ⟨d, hd, by rw [he]; exact he'⟩

/-! #### accessor round trips on the generated accessors + generated constructors (any shapes) -/

/-- `Normal(loc, scale).loc / .scale`: the broadcast arguments; the stored raw leaf is `softplus⁻¹ scale` -/
theorem gen_normal_accessor (loc scale : NArr ℝ) {s : List ℕ} (h : bcast2 loc.shape scale.shape = some s)
    (hpos : ∀ σ ∈ (broadcastTo scale s).data, 0 < σ) :
    ∃ d, GenFam.Normal.init loc scale = some d ∧ d.base_dist = ⟨.normal, s⟩ ∧ d.bijection.shape = s ∧
      GenFam.locScaleLoc d = broadcastTo loc s ∧ GenFam.locScaleScale d = broadcastTo scale s ∧
      Reparam.raw d.bijection.scale = (broadcastTo scale s).data.map Ctors.softplusRaw :=
  locscale_accessor .normal loc scale h hpos

theorem gen_gumbel_accessor (loc scale : NArr ℝ) {s : List ℕ} (h : bcast2 loc.shape scale.shape = some s)
    (hpos : ∀ σ ∈ (broadcastTo scale s).data, 0 < σ) :
    ∃ d, GenFam.Gumbel.init loc scale = some d ∧ d.base_dist = ⟨.gumbel, s⟩ ∧ d.bijection.shape = s ∧
      GenFam.locScaleLoc d = broadcastTo loc s ∧ GenFam.locScaleScale d = broadcastTo scale s ∧
      Reparam.raw d.bijection.scale = (broadcastTo scale s).data.map Ctors.softplusRaw :=
  locscale_accessor .gumbel loc scale h hpos

theorem gen_cauchy_accessor (loc scale : NArr ℝ) {s : List ℕ} (h : bcast2 loc.shape scale.shape = some s)
    (hpos : ∀ σ ∈ (broadcastTo scale s).data, 0 < σ) :
    ∃ d, GenFam.Cauchy.init loc scale = some d ∧ d.base_dist = ⟨.cauchy, s⟩ ∧ d.bijection.shape = s ∧
      GenFam.locScaleLoc d = broadcastTo loc s ∧ GenFam.locScaleScale d = broadcastTo scale s ∧
      Reparam.raw d.bijection.scale = (broadcastTo scale s).data.map Ctors.softplusRaw :=
  locscale_accessor .cauchy loc scale h hpos

theorem gen_laplace_accessor (loc scale : NArr ℝ) {s : List ℕ} (h : bcast2 loc.shape scale.shape = some s)
    (hpos : ∀ σ ∈ (broadcastTo scale s).data, 0 < σ) :
    ∃ d, GenFam.Laplace.init loc scale = some d ∧ d.base_dist = ⟨.laplace, s⟩ ∧ d.bijection.shape = s ∧
      GenFam.locScaleLoc d = broadcastTo loc s ∧ GenFam.locScaleScale d = broadcastTo scale s ∧
      Reparam.raw d.bijection.scale = (broadcastTo scale s).data.map Ctors.softplusRaw :=
  locscale_accessor .laplace loc scale h hpos

theorem gen_logistic_accessor (loc scale : NArr ℝ) {s : List ℕ} (h : bcast2 loc.shape scale.shape = some s)
    (hpos : ∀ σ ∈ (broadcastTo scale s).data, 0 < σ) :
    ∃ d, GenFam.Logistic.init loc scale = some d ∧ d.base_dist = ⟨.logistic, s⟩ ∧ d.bijection.shape = s ∧
      GenFam.locScaleLoc d = broadcastTo loc s ∧ GenFam.locScaleScale d = broadcastTo scale s ∧
      Reparam.raw d.bijection.scale = (broadcastTo scale s).data.map Ctors.softplusRaw :=
  locscale_accessor .logistic loc scale h hpos

/-- `Uniform(minval, maxval).minval / .maxval` (`bijection.loc + unwrap(bijection.scale)`) -/
theorem gen_uniform_accessor (minval maxval : NArr ℝ) {s : List ℕ} (h : bcast2 minval.shape maxval.shape = some s)
    (hv : ∀ p ∈ List.zip (broadcastTo maxval s).data (broadcastTo minval s).data, ¬ p.1 ≤ p.2) :
    ∃ d, GenFam.Uniform.init minval maxval = some d ∧ d.base_dist = ⟨.uniform, s⟩ ∧
      GenFam.uniformMinval d = broadcastTo minval s ∧ GenFam.uniformMaxval d = some (broadcastTo maxval s) :=
  uniform_accessor minval maxval h hv

/-- `StudentT(df, loc, scale).df` (`unwrap(base_dist.df)`) -/
theorem gen_studentT_accessor (df loc scale : NArr ℝ) {s : List ℕ}
    (h : Vec.broadcastShapes [df.shape, loc.shape, scale.shape] = some s) (hpos : ∀ d ∈ (broadcastTo df s).data, 0 < d) :
    ∃ d, GenFam.StudentT.init df loc scale = some d ∧ d.base_dist.shape = s ∧ GenFam.studentTDf d = broadcastTo df s ∧
      GenFam.locScaleLoc d = broadcastTo loc s ∧ Reparam.raw d.base_dist.df = (broadcastTo df s).data.map Ctors.softplusRaw :=
  studentT_accessor df loc scale h hpos

/-- `Exponential(rate).rate` (`1 / unwrap(bijection.scale)`) -/
theorem gen_exponential_accessor (rate : NArr ℝ) (hpos : ∀ r ∈ rate.data, 0 < r) :
    GenFam.exponentialRate (GenFam.Exponential.init rate) = rate ∧
      (GenFam.Exponential.init rate).base_dist = ⟨.exponential, rate.shape⟩ ∧
      Reparam.raw (GenFam.Exponential.init rate).bijection.scale = rate.data.map (fun r => Ctors.softplusRaw (1 / r)) :=
  exponential_accessor rate hpos

/-- `MultivariateNormal(loc, covariance).loc / .covariance`: the generated accessors are the hand model's (`mvn_accessor_*`) -/
theorem gen_mvn_accessor (cholesky : List (List ℝ) → List (List ℝ)) (loc : List ℝ) (cov : List (List ℝ)) {n : ℕ}
    (h : MvnPf.CholFactor n (cholesky cov)) (hl : loc.length = n) :
    ∃ d, GenFam.MultivariateNormal.init cholesky loc cov = some d ∧ GenFam.mvnLoc d = loc ∧
      some (GenFam.mvnCovariance d) = Families.mvnCovariance loc (cholesky cov) ∧ d.base_dist = ⟨.normal, [n]⟩ := by
  refine ⟨{ base_dist := ⟨.normal, [n]⟩, bijection := { triangular := cholesky cov, loc := loc, lower := true } }, ?_, rfl, ?_, rfl⟩
  · simp only [GenFam.MultivariateNormal.init, triangularAffine, MvnPf.mvnBijection_chol h hl, Option.bind_some, triShape, h.sq.1]
  · simp only [GenFam.mvnCovariance, triUnwrapTriangular, Families.mvnCovariance, MvnPf.mvnBijection_chol h hl, Option.map_some,
      matmul_transpose_eq h.sq]

/-! #### `VmapMixture`: generated `__init__`, `_log_prob`, `_sample` -/

/-- the generated constructor on positive (unnormalised) weights, any number of components: declared shapes, stored raw leaf
`log weights`, and the unwrapped `log_normalized_weights = log (wᵢ / Σ w)`; it raises iff some weight is `≤ 0` -/
theorem gen_mixture_ctor {X K : Type} (dist : VDist X K ℝ) (w : NArr ℝ) :
    ((∀ x ∈ w.data, 0 < x) →
      ∃ m, GenFam.VmapMixture.init dist w = some m ∧ m.shape = dist.shape ∧ m.cond_shape = dist.cond_shape ∧ m.dist = dist ∧
        m.log_normalized_weights.args = w.data.map Real.log ∧
        m.unwrap.log_normalized_weights = w.data.map (fun x => Real.log x - Real.log w.data.sum)) ∧
    (GenFam.VmapMixture.init dist w = none ↔ ∃ x ∈ w.data, x ≤ 0) := by
  refine ⟨fun hpos => ?_, mixture_init_none_iff dist w⟩
  obtain ⟨m, h1, h2, h3, h4, h5, h6⟩ := mixture_init_eq dist w hpos
  exact ⟨m, h1, h2, h3, h4, h5, by rw [h6, mixture_log_normalized_weights _ hpos]⟩

/-- **mixture density on the generated constructor + generated `_log_prob`**: the log of the weight-normalised sum of the component
densities, for every number of components and all positive weights -/
theorem gen_mixture_log_prob {X K : Type} (dist : VDist X K ℝ) (w : NArr ℝ) (hpos : ∀ x ∈ w.data, 0 < x) (x : X) :
    ∃ m, GenFam.VmapMixture.init dist w = some m ∧
      GenFam.mixtureLogProb m.unwrap x none
        = Real.log ((List.zipWith (fun wi lp => wi / w.data.sum * Real.exp lp) w.data (dist.comps.map (fun d => d.logProb x ()))).sum) := by
  obtain ⟨m, h1, _, _, h4, _, h6⟩ := mixture_init_eq dist w hpos
  refine ⟨m, h1, ?_⟩
  rw [mixture_logProb_eq m.unwrap w.data h6, mixture_density _ hpos]
  show Real.log ((List.zipWith _ w.data (m.dist.comps.map _)).sum) = _
  rw [h4]

/-- the generated `_log_prob` / `_sample` are the hand model `Families.vmapMixture`'s (so `mixture_sample_law`,
`mixture_sample_is_component_sample`, `mixture_weight_scale_invariant` are about them) -/
theorem gen_mixture_eq_model {X K : Type} [Inhabited X] (m : MixtureU X K ℝ) (ws : List ℝ)
    (h : m.log_normalized_weights = logNormWeights ws) (x : X) (key : ℕ × K) :
    GenFam.mixtureLogProb m x none = (vmapMixture m.dist.comps ws).logProb x () ∧
    GenFam.mixtureSample m key none = mixtureSample m.dist.comps key () ∧
    (m.dist.comps ≠ [] → GenFam.mixtureSample m key none = some ((vmapMixture m.dist.comps ws).sample key ())) := by
  refine ⟨mixture_logProb_eq m ws h x none, mixture_sample_eq m key none, fun hne => ?_⟩
  rw [mixture_sample_eq]
  obtain ⟨d, _, hd⟩ := mixture_take_defined m.dist.comps hne key.1
  simp [mixtureSample, vmapMixture, DistCore.toDist, hd]

/-! #### non-vacuity: concrete instances (a broadcasting pair of shapes `(3,)` × `(2, 1)`; scalars) -/

theorem gen_broadcast_instance :
    bcast2 [3] [2, 1] = some [2, 3] ∧
      (broadcastTo (⟨[3], [10, 20, 30]⟩ : NArr ℝ) [2, 3]).data = [10, 20, 30, 10, 20, 30] ∧
      (broadcastTo (⟨[2, 1], [1, 2]⟩ : NArr ℝ) [2, 3]).data = [1, 1, 1, 2, 2, 2] := by
  refine ⟨by decide, ?_, ?_⟩ <;> rfl

theorem gen_normal_instance :
    ∃ d, GenFam.Normal.init (NArr.scalar 1) (NArr.scalar (2 : ℝ)) = some d ∧
      (locScaleDist d).logProb [1] () = -Real.log (2 * Real.sqrt (2 * Real.pi)) := by
  obtain ⟨d, hd, he⟩ := gen_normal_log_prob 1 2 1 (by norm_num)
  exact ⟨d, hd, by rw [he]; norm_num⟩

theorem gen_uniform_edge_instance :
    ∃ d, GenFam.Uniform.init (NArr.scalar (-1)) (NArr.scalar (3 : ℝ)) = some d ∧ (locScaleDist d).logProb [3] () = -Real.log 4 := by
  obtain ⟨d, hd, he⟩ := gen_uniform_log_prob (-1) 3 3 (by norm_num) (by norm_num) le_rfl
  exact ⟨d, hd, by rw [he]; norm_num⟩

theorem gen_exponential_edge_instance :
    (exponentialDist (GenFam.Exponential.init (NArr.scalar (2 : ℝ)))).logProb [0] () = Real.log 2 := by
  rw [gen_exponential_log_prob 2 0 (by norm_num) le_rfl]; norm_num

end FamiliesGen

/-! ## Audit: instances / witnesses added by the g27 review -/
section Audit
open EF Fw FamGenPf Vec

theorem ef_aux_sub_self_ninf : (ninf - ninf : EF) = nan := rfl
theorem ef_aux_nan_le (x : EF) : ¬ (nan ≤ x) := by
  show ¬ EF.le nan x = true; cases x <;> simp [EF.le]
theorem ef_aux_exp_ninf : (Transc.exp ninf : EF) = fin 0 := rfl
theorem ef_aux_fin_le (a b : ℝ) : (fin a ≤ fin b) ↔ a ≤ b := by
  show EF.le (fin a) (fin b) = true ↔ _; simp [EF.le]

/-- every component outside its support (component log-probs `−∞`), any finite log-weights: the mixture's private
`_log_prob` is exactly `−∞` — the max-shift falls back to `0`, no `∞ − ∞` NaN reaches the result -/
theorem mixture_all_outside_ext (a b : ℝ) :
    logsumexp [EF.ninf + EF.fin a, EF.ninf + EF.fin b] = EF.ninf := by
  simp [logsumexp, listMax, Jnp.maximum, Jnp.sum, ef_aux_sub_self_ninf, ef_aux_nan_le, ef_aux_exp_ninf]

/-- one component outside (`−∞`), one inside with log-prob `l`: finite, `l + log-weight` -/
theorem mixture_one_outside_ext (a l b : ℝ) :
    logsumexp [EF.ninf + EF.fin a, EF.fin l + EF.fin b] = EF.fin (l + b) := by
  simp [logsumexp, listMax, Jnp.maximum, Jnp.sum, ef_aux_exp_ninf, ef_aux_fin_le, tlog_fin]




theorem logNormWeights_pair_ext (w1 w2 : ℝ) (h1 : 0 < w1) (h2 : 0 < w2) :
    logNormWeights [EF.fin w1, EF.fin w2] = (logNormWeights [w1, w2] : List ℝ).map EF.fin := by
  have e1 := tlog_fin h1
  have e2 := tlog_fin h2
  by_cases h : Real.log w1 < Real.log w2
  · simp [logNormWeights, logSoftmax, logsumexp, listMax, Jnp.maximum, Jnp.sum, e1, e2, h, ef_aux_fin_le]
    rw [tlog_fin (by positivity : (0 : ℝ) < Real.exp (Real.log w1 - Real.log w2) + 1)]
    simp
  · simp [logNormWeights, logSoftmax, logsumexp, listMax, Jnp.maximum, Jnp.sum, e1, e2, h, ef_aux_fin_le]
    rw [tlog_fin (by positivity : (0 : ℝ) < 1 + Real.exp (Real.log w2 - Real.log w1))]
    simp

/-- **a mixture of two components evaluated outside BOTH supports** (component `_log_prob`s `−∞`, e.g. two Uniforms), any positive
unnormalised weights: private `_log_prob` is exactly `−∞` (not NaN), and so is the public value -/
theorem mixture_outside_ext (w1 w2 : ℝ) (h1 : 0 < w1) (h2 : 0 < w2) :
    mixtureLogProb [EF.ninf, EF.ninf] [EF.fin w1, EF.fin w2] = EF.ninf ∧
    publicLp (mixtureLogProb [EF.ninf, EF.ninf] [EF.fin w1, EF.fin w2]) = EF.ninf := by
  have h : mixtureLogProb [EF.ninf, EF.ninf] [EF.fin w1, EF.fin w2] = EF.ninf := by
    unfold mixtureLogProb
    rw [logNormWeights_pair_ext w1 w2 h1 h2]
    obtain ⟨a, b, hab⟩ : ∃ a b : ℝ, (logNormWeights [w1, w2] : List ℝ) = [a, b] :=
      ⟨_, _, by simp only [logNormWeights, logSoftmax, List.map_cons, List.map_nil]; rfl⟩
    rw [hab]
    exact mixture_all_outside_ext a b
  exact ⟨h, by rw [h]; exact EF.publicLp_ninf⟩

/-- two independent dimensions over `EF`: `Uniform([0,0],[1,3])` at `(1/2, 5)` — second coordinate outside — is exactly `−∞` -/
theorem uniform_2d_outside_ext :
    (lifted [uniformComp (EF.fin 0) (EF.fin 1), uniformComp (EF.fin 0) (EF.fin 3)]).logProb [EF.fin (1 / 2), EF.fin 5] () = EF.ninf := by
  have a1 := FamiliesEF.affine_invLd 0 (1 - 0) (by norm_num) (EF.fin (1 / 2))
  have a2 := FamiliesEF.affine_invLd 0 (3 - 0) (by norm_num) (EF.fin 5)
  simp only [lifted, uniformComp, stdVec, Transformed.toDist, Transformed.logProb, DistCore.toDist, Bij.elementwise,
    List.map_cons, List.map_nil, fin_sub]
  simp only [List.zipWith_cons_cons, List.zipWith_nil_left, a1, a2, FamiliesEF.affInv, FamiliesEF.uniformLp_fin, Jnp.sum,
    List.foldl_cons, List.foldl_nil]
  norm_num
  simp

/-- WITNESS of a totalised guard: with THREE components and ONE weight the model's `zipWith` truncates and the mixture log-prob is
the FIRST component's alone, while `mixture_object_log_prob` / `gen_mixture_log_prob` (no length hypothesis) still "apply".
The real `VmapMixture(3 Normals, weights=[1.0])` is accepted and BROADCASTS the weight instead (total mass 3.0). -/
theorem mixture_length_mismatch_audit_witness (l0 l1 l2 w : ℝ) (hw : 0 < w) :
    mixtureLogProb [l0, l1, l2] [w] = l0 := by
  rw [mixture_density [w] (by simpa using hw) [l0, l1, l2]]
  simp [div_self hw.ne']

/-- `mvn_trained_log_prob`: hypotheses satisfiable (n = 2, raw diagonal of both signs, non-zero strictly-lower entry) -/
theorem mvn_trained_audit_instance : MvnPf.CholFactor 2 (Params.triangularOfRaw true [-1, 2] [[0, 0], [5, 0]]) :=
  (mvn_trained_log_prob [-1, 2] [[0, 0], [5, 0]]
    ⟨rfl, by intro r hr; simp at hr; rcases hr with rfl | rfl <;> rfl⟩ rfl (fun _ => 0) (fun _ => 0)).1

/-- the generated `Normal` constructor + accessors on the genuinely broadcasting pair of shapes `(3,)` × `(2, 1)` -/
theorem gen_normal_broadcast_audit_instance :
    ∃ d, GenFam.Normal.init (⟨[3], [10, 20, 30]⟩ : NArr ℝ) ⟨[2, 1], [1, 2]⟩ = some d ∧
      (GenFam.locScaleLoc d).data = [10, 20, 30, 10, 20, 30] ∧ (GenFam.locScaleScale d).data = [1, 1, 1, 2, 2, 2] := by
  obtain ⟨d, hd, _, _, h1, h2, _⟩ := gen_normal_accessor (⟨[3], [10, 20, 30]⟩ : NArr ℝ) ⟨[2, 1], [1, 2]⟩ (s := [2, 3])
    gen_broadcast_instance.1 (by
      intro σ hσ
      rw [gen_broadcast_instance.2.2] at hσ
      simp at hσ
      rcases hσ with rfl | rfl <;> norm_num)
  exact ⟨d, hd, by rw [h1]; exact gen_broadcast_instance.2.1, by rw [h2]; exact gen_broadcast_instance.2.2⟩

/-- over `ℝ` the model's Uniform log-prob OUTSIDE the support is the in-support value (`Real.log 0 = 0`): the `ℝ` statements say
nothing outside the support; only the `EF` statements do -/
theorem uniform_real_outside_audit_witness (a b x : ℝ) (h : a < b) (hx : x < a ∨ b < x) :
    (uniform a b).logProb x () = -Real.log (b - a) := by
  rw [uniform_outside_branch a b x h hx]
  show Real.log 0 - Real.log (b - a) = _
  simp

/-- the covariance round trip stated with the trusted Cholesky specification as an explicit hypothesis: if
`chol(Σ)·chol(Σ)ᵀ = Σ` then `.covariance` returns `Σ` -/
theorem mvn_covariance_roundtrip_audit (cholesky : List (List ℝ) → List (List ℝ)) (loc : List ℝ) (cov : List (List ℝ)) {n : ℕ}
    (h : MvnPf.CholFactor n (cholesky cov)) (hl : loc.length = n)
    (hspec : TriPf.toMat n (cholesky cov) * (TriPf.toMat n (cholesky cov)).transpose = TriPf.toMat n cov) :
    ∃ c, Families.mvnCovariance loc (cholesky cov) = some c ∧ TriPf.toMat n c = TriPf.toMat n cov := by
  obtain ⟨c, h1, _, h3⟩ := mvn_accessor_covariance h hl _ hspec
  exact ⟨c, h1, h3⟩

theorem mvn_covariance_roundtrip_audit_instance :
    ∃ c, Families.mvnCovariance [1, -1] [[2, 0], [1, 3]] = some c ∧ TriPf.toMat 2 c = TriPf.toMat 2 [[4, 2], [2, 10]] := by
  refine mvn_covariance_roundtrip_audit (fun _ => [[2, 0], [1, 3]]) [1, -1] [[4, 2], [2, 10]] cholFactor_instance rfl ?_
  rw [mvn_covariance_instance]
  ext i j
  fin_cases i <;> fin_cases j <;> simp [TriPf.toMat, TriPf.entry]

end Audit

end C05
