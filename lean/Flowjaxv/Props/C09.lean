import Flowjaxv.Proofs.Masks
import Flowjaxv.Proofs.MasksGen
import Flowjaxv.Proofs.BnafGen
import Flowjaxv.Proofs.NetGen
import Flowjaxv.Proofs.BnafInitGen
/-!
# C09 — autoregressive, coupling and block structure holds for all weights

Property theorems only (helper lemmas live in `Proofs/Masks.lean`, `Proofs/MasksGen.lean`).  The statements of the first
sections are about the hand-written executable model `Model/Masks.lean`; the last section (`gen_…`) proves that the mask
helpers, the rank assignment and the per-layer masks GENERATED from `/repo/flowjax/masks.py` and
`/repo/flowjax/bijections/masked_autoregressive.py` on every run (`Gen/MasksGen.lean`) are equal to that model for every size,
and restates the specifications on the generated definitions.  Both are also run against the real code by
`tools/props/c09.py`.  Real-valued statements are instantiated at `ℝ`.
Arrays are lists; `l[i]?` is `none` past the end, so an equation `u[i]? = v[i]?` between two outputs of the same
length says "coordinate `i` is the same".  All sizes (dim, cond_dim, width, depth, parameters per dimension, block
shape, number of blocks, offset `k`) and all raw weights / biases / scales / activations are universally quantified.
-/
open Masks MasksPf

namespace C09

/-! ## the mask helpers return exactly the documented patterns -/

/-- `rank_based_mask(in_ranks, out_ranks, eq)` has shape `(len out, len in)` and entry `(r, c)` is true iff
`out_ranks[r] ≥ in_ranks[c]` (`eq`) resp. `>` (not `eq`) — every pair of rank vectors. -/
theorem rank_mask_spec (inR outR : List Int) (eq : Bool) :
    HasShape (rankBasedMask inR outR eq) outR.length inR.length ∧
    ∀ r c (hr : r < outR.length) (hc : c < inR.length),
      (entry (rankBasedMask inR outR eq) r c = true ↔ if eq = true then inR[c] ≤ outR[r] else inR[c] < outR[r]) := by
  refine ⟨rankBasedMask_shape inR outR eq, fun r c hr hc => ?_⟩
  rw [entry_rankBasedMask inR outR eq hr hc]
  cases eq <;> simp

/-- `block_diag_mask((b0, b1), n)` has shape `(b0 n, b1 n)` and entry `(r, c)` is true iff row block `r / b0`
equals column block `c / b1` — every block shape and number of blocks. -/
theorem block_diag_spec (b0 b1 n : Nat) :
    HasShape (blockDiagMask b0 b1 n) (b0 * n) (b1 * n) ∧
    ∀ r c, r < b0 * n → c < b1 * n → (entry (blockDiagMask b0 b1 n) r c = true ↔ r / b0 = c / b1) := by
  refine ⟨blockDiagMask_shape b0 b1 n, fun r c hr hc => ?_⟩
  rw [entry_blockDiagMask b0 b1 n r c hr hc]; simp

/-- `block_tril_mask((b0, b1), n, k)` — the Python `for` loop with `.at[row_i:, col_i:col_i+b1].set(True)`, modelled
literally — has shape `(b0 n, b1 n)` and entry `(r, c)` is true iff `c / b1 - k ≤ r / b0` (block column at most
block row plus the offset) — every block shape, number of blocks and offset `k ∈ ℤ`. -/
theorem block_tril_spec (b0 b1 n : Nat) (k : Int) :
    HasShape (blockTrilMask b0 b1 n k) (b0 * n) (b1 * n) ∧
    ∀ r c, r < b0 * n → c < b1 * n →
      (entry (blockTrilMask b0 b1 n k) r c = true ↔ ((c / b1 : Nat) : Int) - k ≤ ((r / b0 : Nat) : Int)) :=
  ⟨blockTrilMask_shape b0 b1 n k, fun r c hr hc => entry_blockTrilMask b0 b1 n k r c hr hc⟩

/-- the `for i, linear in enumerate(mlp.layers)` loop of `masked_autoregressive_mlp` with
`eq = (i != len(layers) - 1)`: `≥`-masks in → hidden → … → hidden, one strict mask at the end (depth `0`: a single
strict mask in → out). -/
theorem mlp_masks_spec (inR hidR outR : List Int) (depth : Nat) :
    mlpMasks inR hidR outR 0 = [rankBasedMask inR outR false] ∧
    mlpMasks inR hidR outR (depth + 1) = rankBasedMask inR hidR true ::
      (List.replicate depth (rankBasedMask hidR hidR true) ++ [rankBasedMask hidR outR false]) :=
  ⟨mlpMasks_zero inR hidR outR, mlpMasks_succ inR hidR outR depth⟩

/-- the rank vectors `MaskedAutoregressive.__init__` builds, entry by entry, both branches — including `dim = 1`
in the unconditional branch, where `% (dim - 1)` is JAX's `x % 0 = 0`. -/
theorem maf_ranks_spec (dim width np : Nat) (cd : Option Nat) :
    (mafInRanks dim cd).length = dim + cd.getD 0 ∧
    (∀ j, j < dim → (mafInRanks dim cd)[j]? = some (j : Int)) ∧
    (∀ c j, cd = some c → dim ≤ j → j < dim + c → (mafInRanks dim cd)[j]? = some (-1 : Int)) ∧
    (mafHiddenRanks dim width cd).length = width ∧
    (∀ u, u < width → cd = none → 2 ≤ dim → (mafHiddenRanks dim width cd)[u]? = some ((u % (dim - 1) : Nat) : Int)) ∧
    (∀ u, u < width → cd = none → dim = 1 → (mafHiddenRanks dim width cd)[u]? = some (0 : Int)) ∧
    (∀ u c, u < width → cd = some c → 1 ≤ dim → (mafHiddenRanks dim width cd)[u]? = some (((u % dim : Nat) : Int) - 1)) ∧
    (mafOutRanks dim np).length = dim * np ∧
    (∀ o, o < dim * np → (mafOutRanks dim np)[o]? = some ((o / np : Nat) : Int)) := by
  refine ⟨mafInRanks_length dim cd, fun j hj => mafInRanks_x dim cd j hj, ?_, mafHiddenRanks_length dim width cd,
    ?_, ?_, ?_, mafOutRanks_length dim np, fun o ho => mafOutRanks_getElem? dim np o ho⟩
  · rintro c j rfl h1 h2; exact mafInRanks_cond dim c j h1 h2
  · rintro u hu rfl hd
    rw [mafHiddenRanks_none dim width u hu]
    have hc : ((dim : Int) - 1) = ((dim - 1 : Nat) : Int) := by omega
    rw [hc, jmod_natCast_pos u (dim - 1) (by omega)]
  · rintro u hu rfl rfl
    rw [mafHiddenRanks_none 1 width u hu]
    simp [jmod]
  · rintro u c hu rfl hd
    rw [mafHiddenRanks_some dim width c u hu, jmod_natCast_pos u dim (by omega)]

/-! ## masks are applied at unwrap, so no update of the raw weights can un-mask -/

/-- for ALL raw weights (any scalar type), the weight a masked layer computes with is `0` wherever the mask is false -/
theorem mask_survives_update {α : Type} [OfNat α 0] (L : MaskedLinear α) (r c : Nat) (hr : r < L.unwrapW.length)
    (hc : c < L.unwrapW[r].length) (h : entry L.mask r c = false) : L.unwrapW[r][c] = 0 :=
  whereMask_false L.mask L.weight r c hr hc h

/-- the block-autoregressive layer, for ALL raw weights and raw scales: after masking, softplus on the diagonal
blocks and weight normalisation the weight is `0` outside the block-lower-triangular mask and strictly positive on
the diagonal blocks. -/
theorem bnaf_mask_survives_update (L : BnafLayer ℝ) (r c : Nat) (hr : r < L.unwrapW.length)
    (hc : c < L.unwrapW[r].length) :
    (entry (blockTrilMask L.b0 L.b1 L.n 0) r c = false → L.unwrapW[r][c] = 0) ∧
    (entry (blockDiagMask L.b0 L.b1 L.n) r c = true → 0 < L.unwrapW[r][c]) :=
  unwrapW_entry L r c hr hc

/-! ## masked MLP -/

/-- For all rank vectors, depth `≥ 0`, raw weights, biases (`depth + 1` of each, ANY shapes) and activation:
output `o` of the masked MLP is unchanged by any change of the inputs whose rank is `≥ rank o`. -/
theorem masked_mlp_dependency (inR hidR outR : List Int) (depth : Nat) (ws : List (List (List ℝ))) (bs : List (List ℝ))
    (hw : ws.length = depth + 1) (hb : bs.length = depth + 1) (act : ℝ → ℝ) (o : Nat) (ho : o < outR.length)
    (x x' : List ℝ) (hlen : x.length = x'.length)
    (hagree : ∀ j (hj : j < x.length) (hj' : j < x'.length) (hr : j < inR.length), inR[j] < outR[o] → x[j] = x'[j]) :
    (mlpForward act (mkLayers (mlpMasks inR hidR outR depth) ws bs) x)[o]? =
      (mlpForward act (mkLayers (mlpMasks inR hidR outR depth) ws bs) x')[o]? :=
  mlp_dependency inR hidR outR depth ws bs hw hb act o ho x x' hlen hagree

/-- the same for an arbitrary rank vector per layer (`RankChain`: `≥`-masks between consecutive vectors, `>` last) -/
theorem masked_mlp_dependency_chain {inR outR : List Int} {Ls : List (MaskedLinear ℝ)} (h : RankChain inR Ls outR)
    (act : ℝ → ℝ) (o : Nat) (ho : o < outR.length) (x x' : List ℝ) (hlen : x.length = x'.length)
    (hagree : ∀ j (hj : j < x.length) (hj' : j < x'.length) (hr : j < inR.length), inR[j] < outR[o] → x[j] = x'[j]) :
    (mlpForward act Ls x)[o]? = (mlpForward act Ls x')[o]? :=
  (rankChain_dep h act o ho ⟨hlen, fun c h1 h2 ⟨hr, hle⟩ => hagree c h1 h2 hr (by omega)⟩).getElem? rfl

/-! ## masked autoregressive layer -/

/-- With the ranks generated by the constructor (both branches), for every well-shaped net, all raw weights, biases,
activation, scalar transformer family `T` and condition: the transformer parameters of coordinate `i` depend only on
`x_j, j < i`; output `i` of `transform` depends only on `x_0 … x_i`.  The condition is unconstrained (rank −1). -/
theorem maf_autoregressive (N : MafNet ℝ) (hN : N.WellShaped) (T : List ℝ → ℝ → ℝ) (x x' cond : List ℝ)
    (hx : x.length = N.dim) (hx' : x'.length = N.dim) (i : Nat) (hi : i < N.dim) :
    ((∀ j (hj : j < x.length) (hj' : j < x'.length), j < i → x[j] = x'[j]) →
        (N.params x cond)[i]? = (N.params x' cond)[i]?) ∧
    ((∀ j (hj : j < x.length) (hj' : j < x'.length), j ≤ i → x[j] = x'[j]) →
        (N.transform T x cond)[i]? = (N.transform T x' cond)[i]?) :=
  ⟨maf_params_dep N hN x x' cond hx hx' i hi, maf_transform_dep N hN T x x' cond hx hx' i hi⟩

/-- `dim = 1` (the special-cased formulas): the transformer parameters do not depend on `x` at all. -/
theorem maf_dim1 (N : MafNet ℝ) (hN : N.WellShaped) (h1 : N.dim = 1) (x x' cond : List ℝ)
    (hx : x.length = 1) (hx' : x'.length = 1) : N.params x cond = N.params x' cond := by
  apply List.ext_getElem?
  intro i
  by_cases hi : i < N.dim
  · exact maf_params_dep N hN x x' cond (by omega) (by omega) i hi (fun j _ _ hji => by omega)
  · rw [List.getElem?_eq_none (by simp [MafNet.params, reshapeRows_length]; omega),
      List.getElem?_eq_none (by simp [MafNet.params, reshapeRows_length]; omega)]

/-- `depth = 0`: a single strict mask input → output; every permitted pair (and every condition input) is connected
directly, whatever the (unused) width. -/
theorem maf_depth0 (dim width np : Nat) (cd : Option Nat) (i k j : Nat) (hi : i < dim) (hk : k < np)
    (hj : j < i ∨ (dim ≤ j ∧ j < dim + cd.getD 0)) :
    mlpMasks (mafInRanks dim cd) (mafHiddenRanks dim width cd) (mafOutRanks dim np) 0
        = [rankBasedMask (mafInRanks dim cd) (mafOutRanks dim np) false] ∧
    entry (rankBasedMask (mafInRanks dim cd) (mafOutRanks dim np) false) (i * np + k) j = true := by
  refine ⟨mlpMasks_zero _ _ _, ?_⟩
  have ho : i * np + k < dim * np := by
    calc i * np + k < i * np + np := by omega
      _ = (i + 1) * np := by ring
      _ ≤ dim * np := Nat.mul_le_mul_right _ hi
  have ho' : i * np + k < (mafOutRanks dim np).length := by rw [mafOutRanks_length]; exact ho
  have hjl : j < (mafInRanks dim cd).length := by rw [mafInRanks_length]; omega
  have hdiv : (i * np + k) / np = i := by
    rw [Nat.mul_comm, Nat.mul_add_div (by omega), Nat.div_eq_of_lt hk]; simp
  have hout : (mafOutRanks dim np)[i * np + k] = (i : Int) := by
    have := mafOutRanks_getElem? dim np _ ho
    rw [hdiv] at this
    exact getElem_of_getElem? this ho'
  rw [entry_rankBasedMask _ _ false ho' hjl, hout]
  simp only [Bool.false_eq_true, if_false, decide_eq_true_eq, gt_iff_lt]
  rcases hj with hji | ⟨hj1, hj2⟩
  · rw [getElem_of_getElem? (mafInRanks_x dim cd j (by omega)) hjl]; exact_mod_cast hji
  · cases cd with
    | none => simp at hj2; omega
    | some c => rw [getElem_of_getElem? (mafInRanks_cond dim c j hj1 (by simpa using hj2)) hjl]; omega

/-- `width ≥ dim` ⇒ no permitted dependency is structurally missing: for every transformer parameter `k` of every
coordinate `i`, every `x_j` with `j < i` and every condition input is joined to it by a path (one unit per layer) on
which every mask entry is true — both rank branches, every depth. -/
theorem maf_complete (dim width depth np : Nat) (cd : Option Nat) (hw : dim ≤ width)
    (i k : Nat) (hi : i < dim) (hk : k < np) (j : Nat) (hj : j < i ∨ (dim ≤ j ∧ j < dim + cd.getD 0)) :
    ∃ path : List Nat, path.head? = some j ∧ path.getLast? = some (i * np + k) ∧ path.length = depth + 2 ∧
      PathOpen (mlpMasks (mafInRanks dim cd) (mafHiddenRanks dim width cd) (mafOutRanks dim np) depth) path :=
  maf_complete_aux dim width depth np cd hw i k hi hk j hj

/-- the Boolean product of the layer masks (what the driver prints as the model's dependency pattern) is true at
every permitted pair when `width ≥ dim` -/
theorem maf_complete_reach (dim width depth np : Nat) (cd : Option Nat) (hw : dim ≤ width)
    (i k : Nat) (hi : i < dim) (hk : k < np) (j : Nat) (hj : j < i ∨ (dim ≤ j ∧ j < dim + cd.getD 0)) :
    entry (reachMask (dim + cd.getD 0)
      (mlpMasks (mafInRanks dim cd) (mafHiddenRanks dim width cd) (mafOutRanks dim np) depth)) (i * np + k) j = true := by
  obtain ⟨path, h1, h2, _, h4⟩ := maf_complete_aux dim width depth np cd hw i k hi hk j hj
  have hjn : j < dim + cd.getD 0 := by omega
  cases depth with
  | zero => rw [mlpMasks_zero] at h4 ⊢; exact (reach_iff_path _ _ _ _ _ hjn).mpr ⟨path, h1, h2, h4⟩
  | succ d => rw [mlpMasks_succ] at h4 ⊢; exact (reach_iff_path _ _ _ _ _ hjn).mpr ⟨path, h1, h2, h4⟩

/-- `cond_dim = 1` (and any other): the condition reaches every transformer parameter as soon as `width ≥ 1`
and `dim ≤ width` is NOT needed for that — unit 0 has rank −1. -/
theorem maf_cond_dim1 (dim width depth np : Nat) (hw : 1 ≤ width) (i k : Nat) (hi : i < dim) (hk : k < np) :
    ∃ path : List Nat, path.head? = some dim ∧ path.getLast? = some (i * np + k) ∧ path.length = depth + 2 ∧
      PathOpen (mlpMasks (mafInRanks dim (some 1)) (mafHiddenRanks dim width (some 1)) (mafOutRanks dim np) depth) path := by
  have ho : i * np + k < dim * np := by
    calc i * np + k < i * np + np := by omega
      _ = (i + 1) * np := by ring
      _ ≤ dim * np := Nat.mul_le_mul_right _ hi
  have ho' : i * np + k < (mafOutRanks dim np).length := by rw [mafOutRanks_length]; exact ho
  have hdiv : (i * np + k) / np = i := by
    rw [Nat.mul_comm, Nat.mul_add_div (by omega), Nat.div_eq_of_lt hk]; simp
  have hout : (mafOutRanks dim np)[i * np + k] = (i : Int) := by
    have := mafOutRanks_getElem? dim np _ ho
    rw [hdiv] at this
    exact getElem_of_getElem? this ho'
  have hjl : dim < (mafInRanks dim (some 1)).length := by rw [mafInRanks_length]; simp
  have hu : 0 < (mafHiddenRanks dim width (some 1)).length := by rw [mafHiddenRanks_length]; omega
  have hin : (mafInRanks dim (some 1))[dim] = (-1 : Int) :=
    getElem_of_getElem? (mafInRanks_cond dim 1 dim (le_refl _) (by omega)) hjl
  have hhid : (mafHiddenRanks dim width (some 1))[0] = (-1 : Int) := by
    have h := mafHiddenRanks_some dim width 1 0 (by omega)
    rw [jmod_natCast_pos 0 dim (by omega)] at h
    have := getElem_of_getElem? h hu
    rw [this]; simp
  exact pathOpen_mlp _ _ _ dim 0 _ hjl hu ho' (by rw [hin, hhid]) (by rw [hhid, hout]; omega) depth

/-! ## coupling layer -/

/-- `Coupling.transform` for an ARBITRARY conditioner function, scalar transformer family and condition:
the output has the input's length, its first block is the input's first block, and every remaining coordinate `i`
is `T ps x_i` where `ps` is row `i - d` of the reshaped conditioner output — a function of the first block and the
condition only. -/
theorem coupling_structure (d : Nat) (cnd : List ℝ → List ℝ) (T : List ℝ → ℝ → ℝ) (x cond : List ℝ) (hd : d ≤ x.length) :
    (couplingTransform d cnd T x cond).length = x.length ∧
    (couplingTransform d cnd T x cond).take d = x.take d ∧
    ∀ i (_ : d ≤ i) (hi : i < x.length),
      ∃ ps, (reshapeRows (x.length - d) (cnd (x.take d ++ cond)))[i - d]? = some ps ∧
        (couplingTransform d cnd T x cond)[i]? = some (T ps x[i]) :=
  ⟨coupling_length d cnd T x cond hd, coupling_take d cnd T x cond,
    fun i hdi hi => coupling_getElem? d cnd T x cond i hdi hi⟩

/-- dependency form: a transformed coordinate is unchanged by any change of the other transformed coordinates -/
theorem coupling_dependency (d : Nat) (cnd : List ℝ → List ℝ) (T : List ℝ → ℝ → ℝ) (x x' cond : List ℝ)
    (hlen : x.length = x'.length) (hblock : x.take d = x'.take d) (i : Nat) (hdi : d ≤ i) (hi : i < x.length)
    (hxi : x[i] = x'[i]'(hlen ▸ hi)) :
    (couplingTransform d cnd T x cond)[i]? = (couplingTransform d cnd T x' cond)[i]? := by
  obtain ⟨ps, h1, h2⟩ := coupling_getElem? d cnd T x cond i hdi hi
  obtain ⟨ps', h1', h2'⟩ := coupling_getElem? d cnd T x' cond i hdi (hlen ▸ hi)
  rw [← hlen, ← hblock, h1] at h1'
  rw [h2, h2', Option.some.inj h1', hxi]

/-! ## block autoregressive network -/

/-- output `i` depends only on `x_0 … x_i` (and the condition): all raw weights, biases, raw scales, activation,
dim, depth, block_dim; no shape hypotheses. -/
theorem bnaf_dependency (act : ℝ → ℝ) (depth bd : Nat) (Ls : List (BnafLayer ℝ))
    (hshapes : Ls.map (fun L => (L.b0, L.b1)) = bnafBlockShapes depth bd)
    (condLinear : Option (List (List ℝ))) (cond : List ℝ) (x x' : List ℝ) (hlen : x.length = x'.length) (i : Nat)
    (hagree : ∀ j (hj : j < x.length) (hj' : j < x'.length), j ≤ i → x[j] = x'[j]) :
    (bnafTransform act Ls condLinear x cond)[i]? = (bnafTransform act Ls condLinear x' cond)[i]? :=
  bnaf_dep act depth bd Ls hshapes condLinear cond x x' hlen i hagree

/-- The Jacobian of `BlockAutoregressiveNetwork.transform` is lower triangular with strictly positive diagonal,
entry by entry: for every activation that is differentiable with positive derivative, all well-shaped raw weights /
biases / raw scales, every depth `≥ 0` and block_dim `≥ 1`, every point `x` and condition —
`∂y_i/∂x_j = 0` for `j > i` (output `i` does not change at all when `x_j` moves) and `∂y_i/∂x_i` exists and is `> 0`
everywhere along the `i`-th coordinate line through `x`. -/
theorem bnaf_jacobian (act : ℝ → ℝ) (hact : ∀ z, DifferentiableAt ℝ act z ∧ 0 < deriv act z)
    (dim depth bd : Nat) (hbd : 0 < bd) (Ls : List (BnafLayer ℝ))
    (hshapes : Ls.map (fun L => (L.b0, L.b1)) = bnafBlockShapes depth bd)
    (hws : ∀ L ∈ Ls, BnafWellShaped L ∧ L.n = dim)
    (condLinear : Option (List (List ℝ))) (cond : List ℝ)
    (hcl : ∀ C ∈ condLinear, ∀ L ∈ Ls.head?, C.length = L.b0 * dim)
    (x : List ℝ) (hx : x.length = dim) (i : Nat) (hi : i < dim) :
    (∀ j, i < j → ∀ t, nth (bnafTransform act Ls condLinear (x.set j t) cond) i
        = nth (bnafTransform act Ls condLinear x cond) i) ∧
    (∀ t0, ∃ d, 0 < d ∧
      HasDerivAt (fun t => nth (bnafTransform act Ls condLinear (x.set i t) cond) i) d t0) :=
  bnaf_partials act hact dim depth bd hbd Ls hshapes hws condLinear cond hcl x hx i hi

/-- derivative-free form of the positive diagonal: for any strictly increasing activation, raising `x_i` strictly
raises output `i` (what makes the coordinate-wise bisection inverse well defined). -/
theorem bnaf_strict_mono (act : ℝ → ℝ) (hact : StrictMono act)
    (dim depth bd : Nat) (hbd : 0 < bd) (Ls : List (BnafLayer ℝ))
    (hshapes : Ls.map (fun L => (L.b0, L.b1)) = bnafBlockShapes depth bd)
    (hws : ∀ L ∈ Ls, BnafWellShaped L ∧ L.n = dim)
    (condLinear : Option (List (List ℝ))) (cond : List ℝ)
    (hcl : ∀ C ∈ condLinear, ∀ L ∈ Ls.head?, C.length = L.b0 * dim)
    (x : List ℝ) (hx : x.length = dim) (i : Nat) (hi : i < dim) (t t' : ℝ) (htt : t < t') :
    nth (bnafTransform act Ls condLinear (x.set i t) cond) i < nth (bnafTransform act Ls condLinear (x.set i t') cond) i :=
  bnaf_strictMono act hact dim depth bd hbd Ls hshapes hws condLinear cond hcl x hx i hi t t' htt

/-- chain-rule factorisation: the product of two block-lower-triangular matrices with entrywise positive diagonal
blocks (rectangular blocks `bo × bm` and `bm × bi`, `n` blocks) is block-lower-triangular with entrywise positive
diagonal blocks, and right-multiplying by a positive diagonal matrix (activation derivatives) preserves both. -/
theorem bnaf_jacobian_product (bo bm bi n p s : Nat) (hbm : 0 < bm) (hbo : 0 < bo) (hp : p ≤ bo * n)
    (A B : Nat → Nat → ℝ) (d : Nat → ℝ) (hd : ∀ c, 0 < d c)
    (hA : BlockLT bo bm A) (hB : BlockLT bm bi B)
    (hAp : BlockDiagPos bo bm p (bm * n) A) (hBp : BlockDiagPos bm bi (bm * n) s B) :
    BlockLT bo bi (matMul (bm * n) (fun r c => A r c * d c) B) ∧
    BlockDiagPos bo bi p s (matMul (bm * n) (fun r c => A r c * d c) B) := by
  obtain ⟨h1, h2⟩ := blockLT_mul_diag bo bm p (bm * n) A d hd hA hAp
  exact ⟨blockLT_matMul bo bm bi (bm * n) _ B h1 hB, blockDiagPos_matMul bo bm bi n p s hbm hp hbo _ B h1 hB h2 hBp⟩

/-! ## the definitions GENERATED from the source equal the model — every size -/

/-- `rank_based_mask` as translated from `masks.py` (`op = operator.ge if eq else operator.gt; op(out[:, None], in)`) is the
model's, for all rank vectors and both values of `eq`. -/
theorem gen_rank_mask_eq_model (inR outR : List Int) (eq : Bool) :
    Gen.rankBasedMask inR outR eq = rankBasedMask inR outR eq := MasksGenPf.gen_rankBasedMask inR outR eq

/-- `block_diag_mask` as translated (`block_diag(*jnp.ones((n_blocks, *block_shape), bool))`) is the model's, every block shape
and number of blocks (zero included). -/
theorem gen_block_diag_eq_model (b0 b1 n : Nat) : Gen.blockDiagMask (b0, b1) n = blockDiagMask b0 b1 n :=
  MasksGenPf.gen_blockDiagMask b0 b1 n

/-- `block_tril_mask` as translated — `jnp.zeros`, the `for i in range(n_blocks)` loop, `row_i = max(0, i - k) * block_shape[0]`,
`col_i = i * block_shape[1]`, the Python slices `row_i:` and `col_i : col_i + block_shape[1]` with Python's bound
normalisation — is the model's, every block shape, number of blocks and offset `k ∈ ℤ`. -/
theorem gen_block_tril_eq_model (b0 b1 n : Nat) (k : Int) : Gen.blockTrilMask (b0, b1) n k = blockTrilMask b0 b1 n k :=
  MasksGenPf.gen_blockTrilMask b0 b1 n k

/-- the rank vectors as translated from `MaskedAutoregressive.__init__` (both branches of `if cond_dim is None`, `jnp.arange`,
`%` with JAX's `x % 0 = 0`, `jnp.hstack`, `-jnp.ones(cond_dim, int)`, `jnp.repeat`) are the model's — every dim (0 and 1
included), width, cond_dim, number of parameters per dimension. -/
theorem gen_maf_ranks_eq_model (np dim width : Nat) (cd : Option Nat) :
    Gen.mafRanks np dim cd width = (mafInRanks dim cd, mafHiddenRanks dim width cd, mafOutRanks dim np) :=
  MasksGenPf.gen_mafRanks np dim width cd

/-- `masked_autoregressive_mlp` as translated (the list `[in_ranks, *[hidden_ranks] * depth, out_ranks]`, the loop over
`enumerate(mlp.layers)`, `rank_based_mask(ranks[i], ranks[i + 1], eq = i != len(mlp.layers) - 1)`, `eqx.tree_at` putting
`Where(mask, linear.weight, 0)` in place of each weight): for every MLP with `depth + 1` layers the `Where.cond`s in layer order
are the model's `mlpMasks`, each `Where.if_true` is the layer's own raw weight, and `depth` is unchanged — all rank vectors,
every depth. -/
theorem gen_maf_layer_masks_eq_model {ω : Type} (mlp : JnpMask.MLP ω) (hlen : mlp.layers.length = mlp.depth + 1)
    (inR hidR outR : List Int) :
    (Gen.maskedAutoregressiveMlp mlp inR hidR outR).layers.map (fun L => L.weight.cond) = mlpMasks inR hidR outR mlp.depth ∧
    (Gen.maskedAutoregressiveMlp mlp inR hidR outR).layers.map (fun L => L.weight.if_true) = mlp.layers.map (fun L => L.weight) ∧
    (Gen.maskedAutoregressiveMlp mlp inR hidR outR).depth = mlp.depth :=
  MasksGenPf.gen_mlp_masks mlp hlen inR hidR outR

/-- the constructor end to end: the masks `MaskedAutoregressive.__init__` installs (generated rank assignment fed to the generated
`masked_autoregressive_mlp`) are exactly `MafNet.masks` — the masks every MAF theorem above (`maf_autoregressive`,
`maf_dim1`, `maf_complete`, …) is about. -/
theorem gen_maf_masks_eq_model {α ω : Type} (N : MafNet α) (mlp : JnpMask.MLP ω) (hd : mlp.depth = N.depth)
    (hlen : mlp.layers.length = mlp.depth + 1) :
    (Gen.maskedAutoregressiveMlp mlp (Gen.mafRanks N.numParams N.dim N.condDim N.width).1
        (Gen.mafRanks N.numParams N.dim N.condDim N.width).2.1
        (Gen.mafRanks N.numParams N.dim N.condDim N.width).2.2).layers.map (fun L => L.weight.cond) = N.masks := by
  rw [gen_maf_ranks_eq_model, (gen_maf_layer_masks_eq_model mlp hlen _ _ _).1, hd]
  rfl

/-- `rank_mask_spec` on the generated definition -/
theorem gen_rank_mask_spec (inR outR : List Int) (eq : Bool) :
    HasShape (Gen.rankBasedMask inR outR eq) outR.length inR.length ∧
    ∀ r c (hr : r < outR.length) (hc : c < inR.length),
      (entry (Gen.rankBasedMask inR outR eq) r c = true ↔ if eq = true then inR[c] ≤ outR[r] else inR[c] < outR[r]) := by
  rw [gen_rank_mask_eq_model]; exact rank_mask_spec inR outR eq

/-- `block_diag_spec` on the generated definition -/
theorem gen_block_diag_spec (b0 b1 n : Nat) :
    HasShape (Gen.blockDiagMask (b0, b1) n) (b0 * n) (b1 * n) ∧
    ∀ r c, r < b0 * n → c < b1 * n → (entry (Gen.blockDiagMask (b0, b1) n) r c = true ↔ r / b0 = c / b1) := by
  rw [gen_block_diag_eq_model]; exact block_diag_spec b0 b1 n

/-- `block_tril_spec` on the generated definition: entry `(r, c)` of the generated loop's result is true iff
`c / b1 - k ≤ r / b0` — every block shape, number of blocks and offset. -/
theorem gen_block_tril_spec (b0 b1 n : Nat) (k : Int) :
    HasShape (Gen.blockTrilMask (b0, b1) n k) (b0 * n) (b1 * n) ∧
    ∀ r c, r < b0 * n → c < b1 * n →
      (entry (Gen.blockTrilMask (b0, b1) n k) r c = true ↔ ((c / b1 : Nat) : Int) - k ≤ ((r / b0 : Nat) : Int)) := by
  rw [gen_block_tril_eq_model]; exact block_tril_spec b0 b1 n k

/-- `maf_ranks_spec` on the generated rank assignment, entry by entry, both branches, `dim = 1` included -/
theorem gen_maf_ranks_spec (dim width np : Nat) (cd : Option Nat) :
    let rk := Gen.mafRanks np dim cd width
    rk.1.length = dim + cd.getD 0 ∧
    (∀ j, j < dim → rk.1[j]? = some (j : Int)) ∧
    (∀ c j, cd = some c → dim ≤ j → j < dim + c → rk.1[j]? = some (-1 : Int)) ∧
    rk.2.1.length = width ∧
    (∀ u, u < width → cd = none → 2 ≤ dim → rk.2.1[u]? = some ((u % (dim - 1) : Nat) : Int)) ∧
    (∀ u, u < width → cd = none → dim = 1 → rk.2.1[u]? = some (0 : Int)) ∧
    (∀ u c, u < width → cd = some c → 1 ≤ dim → rk.2.1[u]? = some (((u % dim : Nat) : Int) - 1)) ∧
    rk.2.2.length = dim * np ∧
    (∀ o, o < dim * np → rk.2.2[o]? = some ((o / np : Nat) : Int)) := by
  intro rk
  have h : rk = _ := gen_maf_ranks_eq_model np dim width cd
  rw [h]
  exact maf_ranks_spec dim width np cd

/-- `mlp_masks_spec` on the generated loop: `≥`-masks between all but the last pair of rank vectors, one strict mask at the
end; depth `0` gives a single strict mask in → out. -/
theorem gen_mlp_masks_spec {ω : Type} (mlp : JnpMask.MLP ω) (hlen : mlp.layers.length = mlp.depth + 1)
    (inR hidR outR : List Int) :
    (mlp.depth = 0 → (Gen.maskedAutoregressiveMlp mlp inR hidR outR).layers.map (fun L => L.weight.cond)
        = [Gen.rankBasedMask inR outR false]) ∧
    (∀ d, mlp.depth = d + 1 → (Gen.maskedAutoregressiveMlp mlp inR hidR outR).layers.map (fun L => L.weight.cond)
        = Gen.rankBasedMask inR hidR true ::
            (List.replicate d (Gen.rankBasedMask hidR hidR true) ++ [Gen.rankBasedMask hidR outR false])) := by
  simp only [gen_rank_mask_eq_model, (gen_maf_layer_masks_eq_model mlp hlen inR hidR outR).1]
  exact ⟨fun h => by rw [h]; exact (mlp_masks_spec inR hidR outR 0).1,
    fun d h => by rw [h]; exact (mlp_masks_spec inR hidR outR d).2⟩

/-- `mask_survives_update` for the `Where` nodes the generated constructor installs: pairing layer `l`'s generated mask with ANY
raw weight, the unwrapped weight is `0` wherever the mask is false. -/
theorem gen_mask_survives_update {α ω : Type} [OfNat α 0] (mlp : JnpMask.MLP ω) (inR hidR outR : List Int) (l : Nat)
    (hl : l < (Gen.maskedAutoregressiveMlp mlp inR hidR outR).layers.length) (w : List (List α)) (bias : List α)
    (r c : Nat) :
    let L : MaskedLinear α := ⟨(Gen.maskedAutoregressiveMlp mlp inR hidR outR).layers[l].weight.cond, w, bias⟩
    ∀ (hr : r < L.unwrapW.length) (hc : c < L.unwrapW[r].length), entry L.mask r c = false → L.unwrapW[r][c] = 0 :=
  fun hr hc h => mask_survives_update _ r c hr hc h

/-! ## non-vacuity: concrete instances -/

/-- the generated definitions evaluated by the kernel: `block_tril_mask((2, 1), 3, -1)`, `block_diag_mask((2, 1), 3)`,
`rank_based_mask`, the rank vectors of `dim = 3, cond_dim = 2, nn_width = 4` with 2 parameters per dimension and of
`dim = 1` unconditional (`% 0`), and the three `Where.cond`s of a depth-2 network on them. -/
theorem gen_masks_instance :
    Gen.blockTrilMask (2, 1) 3 (-1) = [[false, false, false], [false, false, false], [true, false, false],
      [true, false, false], [true, true, false], [true, true, false]] ∧
    Gen.blockDiagMask (2, 1) 3 = [[true, false, false], [true, false, false], [false, true, false], [false, true, false],
      [false, false, true], [false, false, true]] ∧
    Gen.rankBasedMask [0, 1, -1] [0, 1] true = [[true, false, true], [true, true, true]] ∧
    Gen.mafRanks 2 3 (some 2) 4 = ([0, 1, 2, -1, -1], [-1, 0, 1, -1], [0, 0, 1, 1, 2, 2]) ∧
    Gen.mafRanks 2 1 none 3 = ([0], [0, 0, 0], [0, 0]) ∧
    (Gen.maskedAutoregressiveMlp (⟨2, [⟨10⟩, ⟨11⟩, ⟨12⟩]⟩ : JnpMask.MLP Nat) [0, 1, 2, -1, -1] [-1, 0, 1, -1]
        [0, 0, 1, 1, 2, 2]).layers.map (fun L => (L.weight.cond, L.weight.if_true)) =
      [([[false, false, false, true, true], [true, false, false, true, true], [true, true, false, true, true],
         [false, false, false, true, true]], 10),
       ([[true, false, false, true], [true, true, false, true], [true, true, true, true], [true, false, false, true]], 11),
       ([[true, false, false, true], [true, false, false, true], [true, true, false, true], [true, true, false, true],
         [true, true, true, true], [true, true, true, true]], 12)] := by
  refine ⟨?_, ?_, ?_, ?_, ?_, ?_⟩ <;> decide

/-- the masks of `MaskedAutoregressive(dim=3, cond_dim=2, nn_width=4, nn_depth=2, Affine)` (compare the real
`Where.cond` arrays) and of `dim=1` unconditional (last layer fully masked). -/
theorem maf_masks_instance :
    mlpMasks (mafInRanks 3 (some 2)) (mafHiddenRanks 3 4 (some 2)) (mafOutRanks 3 2) 2 =
      [[[false, false, false, true, true], [true, false, false, true, true], [true, true, false, true, true],
        [false, false, false, true, true]],
       [[true, false, false, true], [true, true, false, true], [true, true, true, true], [true, false, false, true]],
       [[true, false, false, true], [true, false, false, true], [true, true, false, true], [true, true, false, true],
        [true, true, true, true], [true, true, true, true]]] ∧
    mlpMasks (mafInRanks 1 none) (mafHiddenRanks 1 3 none) (mafOutRanks 1 2) 1 =
      [[[true], [true], [true]], [[false, false, false], [false, false, false]]] := by
  constructor <;> decide

theorem block_masks_instance :
    blockTrilMask 2 1 3 (-1) = [[false, false, false], [false, false, false], [true, false, false],
      [true, false, false], [true, true, false], [true, true, false]] ∧
    blockDiagMask 2 1 3 = [[true, false, false], [true, false, false], [false, true, false], [false, true, false],
      [false, false, true], [false, false, true]] := by
  constructor <;> decide

/-- a well-shaped MAF net exists (dim 2, width 2, depth 1, one parameter per dimension, all weights 1) and the
general theorem applies to it: parameter 0 does not see `x` at all, parameter 1 does not see `x_1`. -/
theorem maf_instance : mafExample.WellShaped ∧
    ∀ a b b' : ℝ, (mafExample.params [a, b] [])[1]? = (mafExample.params [a, b'] [])[1]? := by
  have hW : mafExample.WellShaped := by
    refine ⟨rfl, rfl, ?_⟩
    intro l hw hb
    have hl : l < 2 := hw
    interval_cases l
    · exact ⟨2, 2, rfl, rfl, ⟨rfl, by intro row hrow; simp [mafExample] at hrow; subst hrow; rfl⟩, rfl⟩
    · exact ⟨2, 2, rfl, rfl, ⟨rfl, by intro row hrow; simp [mafExample] at hrow; subst hrow; rfl⟩, rfl⟩
  refine ⟨hW, fun a b b' => ?_⟩
  refine (maf_autoregressive mafExample hW (fun _ z => z) [a, b] [a, b'] [] rfl rfl 1 (by decide)).1 ?_
  intro j hj hj' hj1
  have : j = 0 := by omega
  subst this; rfl

/-- a well-shaped BNAF stack exists (dim 2, depth 1, block_dim 1, identity-like increasing activation) and the
Jacobian theorem applies to it. -/
theorem bnaf_instance (x0 x1 : ℝ) :
    (∀ t, nth (bnafTransform (fun z => z + z) bnafExample none ([x0, x1].set 1 t) []) 0
        = nth (bnafTransform (fun z => z + z) bnafExample none [x0, x1] []) 0) ∧
    (∀ t0, ∃ d, 0 < d ∧ HasDerivAt (fun t => nth (bnafTransform (fun z => z + z) bnafExample none ([x0, x1].set 1 t) []) 1) d t0) := by
  have hact : ∀ z : ℝ, DifferentiableAt ℝ (fun z : ℝ => z + z) z ∧ 0 < deriv (fun z : ℝ => z + z) z := by
    intro z
    have h : HasDerivAt (fun z : ℝ => z + z) (1 + 1) z := (hasDerivAt_id z).add (hasDerivAt_id z)
    exact ⟨h.differentiableAt, by rw [h.deriv]; norm_num⟩
  have hws : ∀ L ∈ bnafExample, BnafWellShaped L ∧ L.n = 2 := by
    intro L hL
    simp only [bnafExample, List.mem_cons, List.not_mem_nil, or_false] at hL
    rcases hL with rfl | rfl
    · exact ⟨⟨⟨rfl, by intro row hrow; simp at hrow; rcases hrow with rfl | rfl <;> rfl⟩, rfl, rfl⟩, rfl⟩
    · exact ⟨⟨⟨rfl, by intro row hrow; simp at hrow; rcases hrow with rfl | rfl <;> rfl⟩, rfl, rfl⟩, rfl⟩
  have hsh : bnafExample.map (fun L => (L.b0, L.b1)) = bnafBlockShapes 1 1 := by decide
  have h0 := bnaf_jacobian _ hact 2 1 1 (by norm_num) bnafExample hsh hws none [] (by simp) [x0, x1] rfl 0 (by norm_num)
  have h1 := bnaf_jacobian _ hact 2 1 1 (by norm_num) bnafExample hsh hws none [] (by simp) [x0, x1] rfl 1 (by norm_num)
  exact ⟨fun t => h0.1 1 (by norm_num) t, h1.2⟩

/-! ## ===== BEGIN BnafGen (g15): the statements on the `BlockAutoregressiveNetwork` GENERATED from the source =====

`Gen/BnafGen.lean` is re-translated from `/repo/flowjax/bijections/block_autoregressive_network.py` on every run; `Proofs/BnafGen.lean`
proves it equal to the hand model.  `BnafGenPf.netOf A act dim bd Ls ljf condLinear inverter` is `unwrap(self)` of a network with
the layers `Ls`, ANY log-Jacobian closures `ljf` returning `L.logJac` on their own layer, activation methods `act` / `A`, any
inverter; `condition : Option (List ℝ)` is what the method receives (`hc`: a condition is passed exactly when there is a
`cond_linear` — what `_unwrap_check_and_cast` and the constructor guarantee). -/
section BnafGen
open Masks MasksPf BnafGenPf

/-- **`bnaf_dependency` on the GENERATED code**: output `i` of the generated `transform` depends only on `x_0 … x_i` (and the
condition): all raw weights, biases, raw scales, activation, dim, depth, block_dim. -/
theorem gen_bnaf_dependency (A : ℝ → ℝ × ℝ) (act : ℝ → ℝ) (dim depth bd : Nat) (Ls : List (BnafLayer ℝ))
    (hshapes : Ls.map (fun L => (L.b0, L.b1)) = bnafBlockShapes depth bd)
    (ljf : BnafLayer ℝ → Bw.Linear ℝ → Bw.Blocks ℝ) (condLinear : Option (List (List ℝ)))
    (inverter : List ℝ → Option (List ℝ) → List ℝ) (condition : Option (List ℝ)) (hc : condition.isSome = condLinear.isSome)
    (x x' : List ℝ) (hlen : x.length = x'.length) (i : Nat)
    (hagree : ∀ j (hj : j < x.length) (hj' : j < x'.length), j ≤ i → x[j] = x'[j]) :
    (GenBnaf.transform (netOf A act dim bd Ls ljf condLinear inverter) x condition).map (·[i]?)
      = (GenBnaf.transform (netOf A act dim bd Ls ljf condLinear inverter) x' condition).map (·[i]?) := by
  have hne : Ls ≠ [] := by
    intro h; rw [h] at hshapes; unfold bnafBlockShapes at hshapes; split at hshapes <;> simp at hshapes
  rw [BnafGenPf.gen_bnaf_transform_eq_model A act dim bd Ls hne ljf condLinear inverter x condition hc,
    BnafGenPf.gen_bnaf_transform_eq_model A act dim bd Ls hne ljf condLinear inverter x' condition hc]
  simp only [Option.map_some]
  exact congrArg some (bnaf_dependency act depth bd Ls hshapes condLinear (condition.getD []) x x' hlen i hagree)

/-- **`bnaf_jacobian` on the GENERATED code**: the generated `transform` never fails and is a map `F` whose Jacobian is lower
triangular with strictly positive diagonal, entry by entry (`∂F_i/∂x_j = 0` for `j > i`; `∂F_i/∂x_i` exists and is `> 0`). -/
theorem gen_bnaf_jacobian (A : ℝ → ℝ × ℝ) (act : ℝ → ℝ) (hact : ∀ z, DifferentiableAt ℝ act z ∧ 0 < deriv act z)
    (dim depth bd : Nat) (hbd : 0 < bd) (Ls : List (BnafLayer ℝ))
    (hshapes : Ls.map (fun L => (L.b0, L.b1)) = bnafBlockShapes depth bd)
    (hws : ∀ L ∈ Ls, BnafWellShaped L ∧ L.n = dim)
    (ljf : BnafLayer ℝ → Bw.Linear ℝ → Bw.Blocks ℝ) (condLinear : Option (List (List ℝ)))
    (inverter : List ℝ → Option (List ℝ) → List ℝ) (condition : Option (List ℝ)) (hc : condition.isSome = condLinear.isSome)
    (hcl : ∀ C ∈ condLinear, ∀ L ∈ Ls.head?, C.length = L.b0 * dim)
    (x : List ℝ) (hx : x.length = dim) (i : Nat) (hi : i < dim) :
    ∃ F : List ℝ → List ℝ,
      (∀ x, GenBnaf.transform (netOf A act dim bd Ls ljf condLinear inverter) x condition = some (F x)) ∧
      (∀ j, i < j → ∀ t, nth (F (x.set j t)) i = nth (F x) i) ∧
      (∀ t0, ∃ d, 0 < d ∧ HasDerivAt (fun t => nth (F (x.set i t)) i) d t0) := by
  have hne : Ls ≠ [] := by
    intro h; rw [h] at hshapes; unfold bnafBlockShapes at hshapes; split at hshapes <;> simp at hshapes
  obtain ⟨h1, h2⟩ := bnaf_jacobian act hact dim depth bd hbd Ls hshapes hws condLinear (condition.getD []) hcl x hx i hi
  exact ⟨fun x => bnafTransform act Ls condLinear x (condition.getD []), fun x =>
    BnafGenPf.gen_bnaf_transform_eq_model A act dim bd Ls hne ljf condLinear inverter x condition hc, h1, h2⟩

/-- **generated `block_autoregressive_linear` = model**: `unwrap` of the layer it builds — generated masks `block_tril_mask` /
`block_diag_mask`, generated `.unwrap()` bodies of `Where`, `BijectionReparam(…, SoftPlus(), invert_on_init=False)`,
`WeightNormalization`, in the nesting order of the source — is the hand model's masked, softplus-diagonal, weight-normalised
weight `BnafLayer.unwrapW` and bias, for every world (all raw weights / biases / raw scales), key, `n_blocks`, block shape. -/
theorem gen_block_linear_eq_model {K : Type} (W : Bw.World K ℝ) (key : K) (n b0 b1 : Nat) :
    (GenBnaf.blockAutoregressiveLinear W key n (b0, b1)).1.unwrap = linOf (layerOfWorld W key n b0 b1) :=
  BnafGenPf.gen_block_linear_eq_model W key n b0 b1

/-- the generated `_activation_and_log_jacobian_3d` is the model's `actLogJac`: `-inf` off the block diagonals -/
theorem gen_act_logjac_eq_model (N : Bw.Net ℝ) (dim bd : Nat) (hs : N.shape = [dim]) (hb : N.block_dim = bd) (x : List ℝ)
    (hx : x.length = dim * bd) :
    GenBnaf.activationAndLogJacobian3d N x
      = some (x.map (fun z => (N.activation.transform_and_log_det z).1),
          actLogJac dim bd (x.map fun z => (N.activation.transform_and_log_det z).2)) :=
  BnafGenPf.gen_act_logjac_eq_model N dim bd hs hb x hx

/-- kernel evaluation of the generated constructor at `ℚ` sizes: the masks inside the nest `block_autoregressive_linear(n_blocks=2,
block_shape=(2,1))` builds, and the index list of its closure (`jnp.where(block_diag_mask, size=4)`). -/
theorem gen_bnaf_masks_instance :
    Gen.blockTrilMask (2, 1) 2 0 = [[true, false], [true, false], [true, true], [true, true]] ∧
    Gen.blockDiagMask (2, 1) 2 = [[true, false], [true, false], [false, true], [false, true]] ∧
    Bw.whereIdx (Gen.blockDiagMask (2, 1) 2) 4 = [(0, 0), (1, 0), (2, 1), (3, 1)] := by
  decide +kernel

end BnafGen
/-! ## ===== END BnafGen ===== -/
/-! ## generated Coupling / MaskedAutoregressive methods (`Gen/NetGen.lean`, regenerated from coupling.py /
masked_autoregressive.py; see `Props/C01.lean`, section `GeneratedNet`): the dependency structure of the GENERATED
`transform`s, for all weights. -/
section GeneratedNetStructure
open Nw GenNet

/-- **`gen_coupling_structure`** — the generated `Coupling.transform`: the output has the input's length, its first block
is the input's first block, and coordinate `i ≥ d` is `T ps x_i` with `ps` = row `i − d` of the reshaped conditioner
output — a function of the first block and the condition only.  Every conditioner function, transformer family,
`condition=None` or an array, every `x` of the declared length. -/
theorem gen_coupling_structure (self : CouplingObj ℝ) (x : List ℝ) (c : Option (List ℝ)) (hx : x.length = self.dim)
    (hd : self.untransformed_dim ≤ self.dim) :
    (Coupling.transform self x c).length = x.length ∧
    (Coupling.transform self x c).take self.untransformed_dim = x.take self.untransformed_dim ∧
    ∀ i (_ : self.untransformed_dim ≤ i) (hi : i < x.length),
      ∃ ps, (reshapeRows (self.dim - self.untransformed_dim)
          (self.conditioner (x.take self.untransformed_dim ++ c.getD [])))[i - self.untransformed_dim]? = some ps ∧
        (Coupling.transform self x c)[i]? = some ((self.transformer_constructor ps).fwd x[i] ()) := by
  have e : Coupling.transform self x c = couplingTransform self.untransformed_dim self.conditioner
      (fun ps t => (self.transformer_constructor ps).fwd t ()) x (c.getD []) := (NetGenPf.gen_coupling_eq_model self x c hx).1
  rw [e]
  have h := coupling_structure self.untransformed_dim self.conditioner
    (fun ps t => (self.transformer_constructor ps).fwd t ()) x (c.getD []) (by omega)
  rw [← hx]
  exact h

/-- **`gen_maf_autoregressive`** — the generated `MaskedAutoregressive` on the object of any well-shaped masked network
(masks = the generated `mafMasks`, `gen_maf_masks_eq_model`), all raw weights / biases / activation, every transformer family
and condition: the scalar transformer the generated `_flat_params_to_transformer` builds for coordinate `i` depends only on
`x_j, j < i`, and output `i` of the generated `transform` only on `x_0 … x_i`. -/
theorem gen_maf_autoregressive (N : MafNet ℝ) (hN : N.WellShaped) (tf : List ℝ → Bij ℝ Unit ℝ) (x x' : List ℝ)
    (c : Option (List ℝ)) (hx : x.length = N.dim) (hx' : x'.length = N.dim) (i : Nat) (hi : i < N.dim) :
    ((∀ j (hj : j < x.length) (hj' : j < x'.length), j < i → x[j] = x'[j]) →
        (Maf.flatParamsToTransformer (MafObj.ofNet N tf)
            ((MafObj.ofNet N tf).masked_autoregressive_mlp (x ++ c.getD []))).bs[i]?
          = (Maf.flatParamsToTransformer (MafObj.ofNet N tf)
            ((MafObj.ofNet N tf).masked_autoregressive_mlp (x' ++ c.getD []))).bs[i]?) ∧
    ((∀ j (hj : j < x.length) (hj' : j < x'.length), j ≤ i → x[j] = x'[j]) →
        (Maf.transform (MafObj.ofNet N tf) x c)[i]? = (Maf.transform (MafObj.ofNet N tf) x' c)[i]?) := by
  have h := maf_autoregressive N hN (fun ps t => (tf ps).fwd t ()) x x' (c.getD []) hx hx' i hi
  refine ⟨fun hag => ?_, fun hag => ?_⟩
  · rw [NetGenPf.maf_flat_eq, NetGenPf.maf_flat_eq]
    simp only [Nw.Vmap, List.getElem?_map]
    exact congrArg (Option.map tf) (h.1 hag)
  · rw [NetGenPf.gen_maf_transform_eq, NetGenPf.gen_maf_transform_eq]
    exact h.2 hag

/-- non-vacuity by kernel evaluation of the generated definitions at `ℤ`: changing `x₁` does not change output 0 of the
generated MAF transform and changes output 1; changing a transformed coordinate of the generated coupling layer leaves the
other outputs unchanged -/
theorem gen_net_structure_instance :
    Maf.transform (MafObj.ofNet NetGenPf.mafExampleZ NetGenPf.shiftFamilyZ) [3, 4] none = [3, 10] ∧
    Maf.transform (MafObj.ofNet NetGenPf.mafExampleZ NetGenPf.shiftFamilyZ) [3, 9] none = [3, 15] ∧
    Coupling.transform NetGenPf.couplingExampleZ [2, 5, 7] (some [3]) = [2, 9, 12] ∧
    Coupling.transform NetGenPf.couplingExampleZ [2, 6, 7] (some [3]) = [2, 10, 12] := by
  decide

end GeneratedNetStructure

section Audit
/-! ## AUDIT (g27): non-vacuity instances added by the reviewer; no existing declaration changed -/

/-- AUDIT non-vacuity of `RankChain` / `masked_mlp_dependency_chain`: a two-layer chain with different rank vectors per layer,
weights of both signs; output 0 (rank 1) ignores the rank-1 and rank-2 inputs. -/
theorem rankChain_audit_instance :
    RankChain [0, 1, 2] [⟨rankBasedMask [0, 1, 2] [0, 1] true, [[1, -2, 3], [4, 5, -6]], [1, -1]⟩,
      ⟨rankBasedMask [0, 1] [1, 2] false, [[7, -8], [9, 10]], [0, 2]⟩] [1, 2] :=
  RankChain.cons _ _ _ _ _ _ (RankChain.last _ _ _ _)

theorem masked_mlp_chain_audit_instance (a b c b' c' : ℝ) :
    (mlpForward (fun z => z) [⟨rankBasedMask [0, 1, 2] [0, 1] true, [[1, -2, 3], [4, 5, -6]], [1, -1]⟩,
      ⟨rankBasedMask [0, 1] [1, 2] false, [[7, -8], [9, 10]], [0, 2]⟩] [a, b, c])[0]? =
    (mlpForward (fun z => z) [⟨rankBasedMask [0, 1, 2] [0, 1] true, [[1, -2, 3], [4, 5, -6]], [1, -1]⟩,
      ⟨rankBasedMask [0, 1] [1, 2] false, [[7, -8], [9, 10]], [0, 2]⟩] [a, b', c'])[0]? := by
  refine masked_mlp_dependency_chain rankChain_audit_instance _ 0 (by simp) _ _ rfl ?_
  intro j hj hj' hr hlt
  have : j = 0 := by
    simp at hr
    interval_cases j <;> simp_all
  subst this; rfl

/-- AUDIT: `maf_complete` instantiated (dim 3, cond_dim 2, width 3, depth 2, 2 params per dim): x₀ reaches parameter 1 of coordinate 2,
and condition input 4 reaches parameter 0 of coordinate 0. -/
theorem maf_complete_audit_instance :
    (∃ path : List Nat, path.head? = some 0 ∧ path.getLast? = some 5 ∧ path.length = 4 ∧
      PathOpen (mlpMasks (mafInRanks 3 (some 2)) (mafHiddenRanks 3 3 (some 2)) (mafOutRanks 3 2) 2) path) ∧
    (∃ path : List Nat, path.head? = some 4 ∧ path.getLast? = some 0 ∧ path.length = 4 ∧
      PathOpen (mlpMasks (mafInRanks 3 (some 2)) (mafHiddenRanks 3 3 (some 2)) (mafOutRanks 3 2) 2) path) :=
  ⟨maf_complete 3 3 2 2 (some 2) (by norm_num) 2 1 (by norm_num) (by norm_num) 0 (Or.inl (by norm_num)),
   maf_complete 3 3 2 2 (some 2) (by norm_num) 0 0 (by norm_num) (by norm_num) 4 (Or.inr (by simp))⟩

/-- AUDIT: width < dim really loses a permitted dependency (so `dim ≤ width` in `maf_complete` is not decorative):
dim 3, unconditional, width 1, depth 1 — x₁ never reaches the parameters of coordinate 2. -/
theorem maf_incomplete_audit_instance :
    entry (reachMask 3 (mlpMasks (mafInRanks 3 none) (mafHiddenRanks 3 1 none) (mafOutRanks 3 1) 1)) 2 1 = false ∧
    entry (reachMask 3 (mlpMasks (mafInRanks 3 none) (mafHiddenRanks 3 1 none) (mafOutRanks 3 1) 1)) 2 0 = true := by
  constructor <;> decide


/-- AUDIT: the hypotheses of `bnaf_strict_mono` / `bnaf_dependency` are jointly satisfiable WITH a condition (`cond_linear` present) and
with the real activation shape `tanh`: dim 2, depth 1, block_dim 1, weights of both signs. -/
theorem bnaf_cond_tanh_audit_instance (x0 x1 c t t' : ℝ) (htt : t < t') :
    nth (bnafTransform Real.tanh bnafExample (some [[2], [-3]]) ([x0, x1].set 1 t) [c]) 1
      < nth (bnafTransform Real.tanh bnafExample (some [[2], [-3]]) ([x0, x1].set 1 t') [c]) 1 := by
  have hact : StrictMono Real.tanh := fun a b h => Leaves.tanh_lt_tanh.mpr h
  have hws : ∀ L ∈ bnafExample, BnafWellShaped L ∧ L.n = 2 := by
    intro L hL
    simp only [bnafExample, List.mem_cons, List.not_mem_nil, or_false] at hL
    rcases hL with rfl | rfl
    · exact ⟨⟨⟨rfl, by intro row hrow; simp at hrow; rcases hrow with rfl | rfl <;> rfl⟩, rfl, rfl⟩, rfl⟩
    · exact ⟨⟨⟨rfl, by intro row hrow; simp at hrow; rcases hrow with rfl | rfl <;> rfl⟩, rfl, rfl⟩, rfl⟩
  have hsh : bnafExample.map (fun L => (L.b0, L.b1)) = bnafBlockShapes 1 1 := by decide
  exact bnaf_strict_mono _ hact 2 1 1 (by norm_num) bnafExample hsh hws (some [[2], [-3]]) [c]
    (by intro C hC L hL; simp at hC; subst hC; simp [bnafExample] at hL; subst hL; rfl) [x0, x1] rfl 1 (by norm_num) t t' htt

/-- AUDIT: a well-shaped CONDITIONAL MAF net (dim 2, cond_dim 1, width 3, depth 1, two parameters per dimension, weights of both signs):
`maf_autoregressive` applies — the parameters of coordinate 0 ignore x entirely, output 0 of `transform` ignores x₁. -/
def mafCondAudit : MafNet ℝ :=
  { dim := 2, condDim := some 1, width := 3, depth := 1, numParams := 2,
    weights := [[[1, -2, 3], [-1, 2, 5], [4, 0, -1]], [[1, 2, -3], [2, -1, 1], [3, 1, -2], [-4, 1, 1]]],
    biases := [[0, 1, -1], [1, 0, 2, -2]], act := fun z => z * z * z }

theorem mafCond_audit_instance : mafCondAudit.WellShaped ∧
    ∀ a b a' b' c : ℝ, (mafCondAudit.params [a, b] [c])[0]? = (mafCondAudit.params [a', b'] [c])[0]? := by
  have hW : mafCondAudit.WellShaped := by
    refine ⟨rfl, rfl, ?_⟩
    intro l hw hb
    have hl : l < 2 := hw
    interval_cases l
    · exact ⟨3, 3, rfl, rfl, ⟨rfl, by intro row hrow; simp [mafCondAudit] at hrow; rcases hrow with rfl | rfl | rfl <;> rfl⟩, rfl⟩
    · exact ⟨3, 4, rfl, rfl, ⟨rfl, by intro row hrow; simp [mafCondAudit] at hrow; rcases hrow with rfl | rfl | rfl | rfl <;> rfl⟩, rfl⟩
  refine ⟨hW, fun a b a' b' c => ?_⟩
  refine (maf_autoregressive mafCondAudit hW (fun _ z => z) [a, b] [a', b'] [c] rfl rfl 0 (by decide)).1 ?_
  intro j hj hj' hj1
  omega
end Audit
section BnafInitGen
open Masks MasksPf BnafGenPf BnafInitPf

/-- **the GENERATED `BlockAutoregressiveNetwork.__init__` = the hand models** (`Gen/BnafInitGen.lean`, regenerated from the source on
every run).  For EVERY key, `dim`, `cond_dim` (`None` or an int), `depth`, `block_dim`, `activation` argument (`None`, a bijection, a
callable), `inverter` and world (= all allocated array values): if the constructor returns an object `N` then
* `N.layers` are exactly the GENERATED `block_autoregressive_linear(key_i, n_blocks = dim, block_shape = s_i)`, `s` running through
  the hand model's `bnafBlockShapes depth block_dim` (`[(1, 1)]` for `depth = 0`, else `[(bd, 1), (bd, bd) × (depth − 1), (1, bd)]`)
  and `key_i` through `random.split(key', depth + 1)` (`key'` itself for `depth = 0`) — so there are `depth + 1` (resp. 1) of them;
* `N.shape = (dim,)`, `N.cond_shape = None / (cond_dim,)`, `N.depth`, `N.block_dim` are the arguments, there is a `cond_linear`
  exactly when `cond_dim` is given, the activation is the documented selection, the inverter the argument or the default;
* `unwrap(N)` — what the generated methods see — is `netOf` over the hand layers holding the world's arrays, the closures being
  the generated ones: the network every `gen_bnaf_*` theorem is stated for. -/
theorem gen_bnaf_init_eq_model {K : Type} (W : Bw.World K ℝ) (IW : Bw.InitWorld K ℝ) (key : K) (dim : Nat) (cond_dim : Option Nat)
    (depth bd : Nat) (activation : Option (Bw.ActArg ℝ)) (inverter : Option (List ℝ → Option (List ℝ) → List ℝ)) (N : Bw.NetW ℝ)
    (h : GenBnafInit.init W IW key dim cond_dim depth bd activation inverter = .ok N) :
    N.layers = (List.zip (layerKeys IW key depth) (bnafBlockShapes depth bd)).map
        (fun p => GenBnaf.blockAutoregressiveLinear W p.1 dim p.2) ∧
      N.layers.length = (if depth = 0 then 1 else depth + 1) ∧
      N.shape = [dim] ∧ N.cond_shape = cond_dim.map (fun c => [c]) ∧ N.depth = depth ∧ N.block_dim = bd ∧
      N.cond_linear.isSome = cond_dim.isSome ∧ resolveAct activation = .ok N.activation ∧
      N.inverter = inverter.getD IW.defaultInverter ∧
      N.unwrap = netOf N.activation.methods.transform_and_log_det N.activation.methods.transform dim bd
        (handLayers W IW key dim depth bd) (fun L => (GenBnaf.blockAutoregressiveLinear W key L.n (L.b0, L.b1)).2)
        (condWeight W IW key dim cond_dim depth bd) (inverter.getD IW.defaultInverter) := by
  obtain ⟨hact, hN⟩ := gen_init_ok W IW key dim cond_dim depth bd activation inverter N h
  refine ⟨by rw [hN]; rfl, by rw [hN]; exact genLayers_length W IW key dim depth bd, by rw [hN]; rfl, by rw [hN]; rfl,
    by rw [hN]; rfl, by rw [hN]; rfl, by rw [hN]; cases cond_dim <;> rfl, hact, by rw [hN]; rfl, ?_⟩
  conv_lhs => rw [hN]
  exact builtNet_unwrap W IW key dim cond_dim depth bd inverter N.activation

/-- **the guard of the generated constructor**: it raises iff `activation` is an `AbstractBijection` with `shape ≠ ()` or
`cond_shape is not None` — then `ValueError("Bijection must be unconditional with shape ().")` — for every other argument;
in particular `zip(keys, block_shapes, strict=True)` and `layers_and_log_jac_fns[0]` never raise. -/
theorem gen_bnaf_init_guard {K : Type} (W : Bw.World K ℝ) (IW : Bw.InitWorld K ℝ) (key : K) (dim : Nat) (cond_dim : Option Nat)
    (depth bd : Nat) (activation : Option (Bw.ActArg ℝ)) (inverter : Option (List ℝ → Option (List ℝ) → List ℝ)) (e : Bw.PyErr) :
    GenBnafInit.init W IW key dim cond_dim depth bd activation inverter = .error e
      ↔ e = .valueError ∧ ∃ b, activation = some (.bijection b) ∧ (b.shape ≠ [] ∨ b.cond_shape ≠ none) :=
  gen_init_raises_iff W IW key dim cond_dim depth bd activation inverter e

/-- **the hypotheses of the `gen_bnaf_*` theorems hold of every constructed network**: in a world that allocates arrays of the
declared shapes (`WorldShaped`: `eqx.nn.Linear(in, out)` → weight `(out, in)`, bias `(out,)`; one raw weight-norm scale per row),
for every key, `dim`, `depth`, `block_dim ≥ 1`, `cond_dim`: the layers the generated constructor builds satisfy `NetLawful.BnafOK`
(block shapes = `bnafBlockShapes`, every layer well-shaped with `n_blocks = dim`, `cond_linear` has `out_features(layer 0)` rows). -/
theorem gen_bnaf_init_ok {K : Type} (W : Bw.World K ℝ) (IW : Bw.InitWorld K ℝ) (hW : WorldShaped W IW) (key : K) (dim : Nat)
    (cond_dim : Option Nat) (depth bd : Nat) (hbd : 0 < bd) :
    NetLawful.BnafOK dim depth bd (handLayers W IW key dim depth bd) (condWeight W IW key dim cond_dim depth bd) :=
  built_bnafOK W IW hW key dim cond_dim depth bd hbd

/-- **`gen_bnaf_dependency` with the constructor instead of a hypothesis on the block shapes**: output `i` of the generated
`transform` of ANY object the generated `__init__` returns depends only on `x_0 … x_i` (every world, key, `dim`, `depth`,
`block_dim`, activation, condition passed exactly when `cond_dim` was given). -/
theorem gen_bnaf_dependency_constructed {K : Type} (W : Bw.World K ℝ) (IW : Bw.InitWorld K ℝ) (key : K) (dim : Nat)
    (cond_dim : Option Nat) (depth bd : Nat) (activation : Option (Bw.ActArg ℝ))
    (inverter : Option (List ℝ → Option (List ℝ) → List ℝ)) (N : Bw.NetW ℝ)
    (h : GenBnafInit.init W IW key dim cond_dim depth bd activation inverter = .ok N)
    (condition : Option (List ℝ)) (hc : condition.isSome = cond_dim.isSome)
    (x x' : List ℝ) (hlen : x.length = x'.length) (i : Nat)
    (hagree : ∀ j (hj : j < x.length) (hj' : j < x'.length), j ≤ i → x[j] = x'[j]) :
    (GenBnaf.transform N.unwrap x condition).map (·[i]?) = (GenBnaf.transform N.unwrap x' condition).map (·[i]?) := by
  rw [(gen_bnaf_init_eq_model W IW key dim cond_dim depth bd activation inverter N h).2.2.2.2.2.2.2.2.2]
  exact gen_bnaf_dependency _ _ dim depth bd _ (handLayers_shapes W IW key dim depth bd) _ _ _ condition
    (by rw [hc]; cases cond_dim <;> rfl) x x' hlen i hagree

/-- a world allocating constant arrays of the declared shapes (non-vacuity of `WorldShaped`) -/
def constWorld : Bw.World Nat ℝ where
  linearInit := fun _ i o => ⟨List.replicate o (List.replicate i 1), List.replicate o 0⟩
  wnScaleRaw := fun t => List.replicate (rows t) 0

def constInitWorld : Bw.InitWorld Nat ℝ where
  keys := ⟨fun k n i => k * (n + 1) + i⟩
  condLinearInit := fun _ i o => ⟨List.replicate o (List.replicate i 1)⟩
  defaultInverter := fun y _ => y

/-- non-vacuity: `constWorld` satisfies `WorldShaped`; in it the generated constructor with `dim = 2`, `depth = 2`, `block_dim = 3`,
`cond_dim = 1`, default activation returns an object with 3 layers whose hand layers satisfy `BnafOK`; with a bijection of shape
`(2,)` it raises `ValueError`. -/
theorem gen_bnaf_init_instance :
    WorldShaped constWorld constInitWorld ∧
    (∃ N, GenBnafInit.init constWorld constInitWorld 0 2 (some 1) 2 3 none none = .ok N ∧ N.layers.length = 3 ∧
      N.shape = [2] ∧ N.cond_shape = some [1]) ∧
    NetLawful.BnafOK 2 2 3 (handLayers constWorld constInitWorld 0 2 2 3) (condWeight constWorld constInitWorld 0 2 (some 1) 2 3) ∧
    GenBnafInit.init constWorld constInitWorld 0 2 none 2 3 (some (.bijection ⟨[2], none, ⟨id, fun z => (z, 0)⟩⟩)) none
      = .error .valueError := by
  have hW : WorldShaped constWorld constInitWorld :=
    ⟨fun k i o => ⟨by simp [constWorld], by intro row hrow; simp [constWorld] at hrow; rw [hrow.2]; simp⟩,
     fun k i o => by simp [constWorld], fun t => by simp [constWorld], fun k i o => by simp [constInitWorld]⟩
  refine ⟨hW, ?_, gen_bnaf_init_ok _ _ hW 0 2 (some 1) 2 3 (by norm_num), ?_⟩
  · cases hr : GenBnafInit.init constWorld constInitWorld 0 2 (some 1) 2 3 none none with
    | error e =>
      have := (gen_bnaf_init_guard constWorld constInitWorld 0 2 (some 1) 2 3 none none e).1 hr
      obtain ⟨_, b, hb, _⟩ := this
      cases hb
    | ok N =>
      have := gen_bnaf_init_eq_model constWorld constInitWorld 0 2 (some 1) 2 3 none none N hr
      exact ⟨N, rfl, by rw [this.2.1]; rfl, this.2.2.1, this.2.2.2.1⟩
  · cases hr : GenBnafInit.init constWorld constInitWorld 0 2 none 2 3 (some (.bijection ⟨[2], none, ⟨id, fun z => (z, 0)⟩⟩)) none with
    | error e =>
      rw [((gen_bnaf_init_guard constWorld constInitWorld 0 2 none 2 3 _ none e).1 hr).1]
    | ok N =>
      have := (gen_bnaf_init_eq_model constWorld constInitWorld 0 2 none 2 3 _ none N hr).2.2.2.2.2.2.2.1
      simp [resolveAct] at this

end BnafInitGen

end C09
