import Flowjaxv.Proofs.LogDet
import Flowjaxv.Proofs.Rqs
/-!
# C02 — the log-determinant is the log-determinant

"For every bijection, parameter value, condition and input, the log-determinant returned with the
forward map equals log|det dy/dx| of the forward map the bijection actually computes at that input,
the one returned with the inverse map equals minus the forward value at the corresponding point,
and it is a scalar whatever the bijection's shape."

Property theorems only (helpers in `Proofs/LogDet.lean`).  Every statement is about the definitions
*generated from /repo* (`Gen/Leaves.lean`, `Gen/Combinators.lean`) packaged as `Bij` records.
The oracle is Mathlib's derivative of the generated **forward map** (`Bij.fwd`), never the
hand-written log-det formulas:

* `Bij.LdCorrect b D` : `∀ x ∈ D, ∀ c, ∃ d, HasDerivAt (fun x => b.fwd x c) d x ∧ d ≠ 0 ∧ (b.fwdLd x c).2 = Real.log |d|`
* `Bij.LdCorrectWith b D d` : the same with the derivative named (`d x` at `x`); implies `LdCorrect`.
* `Bij.LdAntisym b D` : `∀ x ∈ D, ∀ c, (b.invLd (b.fwd x c) c).2 = -(b.fwdLd x c).2`.

**Scalar log-det.**  "It is a scalar whatever the bijection's shape" is a typing fact of the model:
`Bij.fwdLd : X → C → X × L` returns one `L = ℝ` for every point type `X` (scalars `ℝ`, vectors
`List ℝ` in `Bij.elementwise`, anything under `Chain`/`Invert`), so nothing is left to prove
and no obligation is counted for it.  On the real code the shape `()` is checked by the correspondence and by the oracle search.

Classes with theorems here: Affine, Loc, Scale, Exp, SoftPlus, Tanh, LeakyTanh, Chain, Invert,
elementwise liftings.  RationalQuadraticSpline, TriangularAffine, Planar, Coupling, MAF, BNAF, … are
covered by the autodiff-Jacobian oracle and the correspondence (tools/props/c02.py) only.
-/
open Gen Set

namespace C02

/-! ### Leaves: forward log-det = log |derivative of the generated forward map| -/

/-- Affine(loc, scale), any non-zero scale of either sign: `d = scale`, log-det `= log |scale|`. -/
theorem affine_ld {C : Type} (p : Affine ℝ) (h : p.scale ≠ 0) :
    (p.toBij : Bij ℝ C ℝ).LdCorrectWith univ (fun _ => p.scale) := LogDet.affine_ld p h

theorem loc_ld {C : Type} (p : Loc ℝ) : (p.toBij : Bij ℝ C ℝ).LdCorrectWith univ (fun _ => 1) :=
  LogDet.loc_ld p

theorem scale_ld {C : Type} (p : Scale ℝ) (h : p.scale ≠ 0) :
    (p.toBij : Bij ℝ C ℝ).LdCorrectWith univ (fun _ => p.scale) := LogDet.scale_ld p h

/-- Exp: `d = eˣ`, returned log-det `x`. -/
theorem exp_ld {C : Type} : (Exp.toBij : Bij ℝ C ℝ).LdCorrectWith univ Real.exp := LogDet.exp_ld

/-- SoftPlus: `d = sigmoid x = 1/(1+e⁻ˣ)`; the code returns `-softplus(-x)`. -/
theorem softplus_ld {C : Type} :
    (SoftPlus.toBij : Bij ℝ C ℝ).LdCorrectWith univ (fun x => 1 / (1 + Real.exp (-x))) :=
  LogDet.softplus_ld

/-- Tanh: `d = 1 - tanh² x` (derived from sinh/cosh); the code returns
`tanhLogGrad x = -2 (x + softplus(-2x) - log 2)`. -/
theorem tanh_ld {C : Type} :
    (Tanh.toBij : Bij ℝ C ℝ).LdCorrectWith univ (fun x => 1 - Real.tanh x ^ 2) := LogDet.tanh_ld

/-- The generated constructor matches the slope of the linear tails to tanh's at `max_val`. -/
theorem leaky_linear_grad_eq (m : ℝ) : (LeakyTanh.init m).linear_grad = 1 - Real.tanh m ^ 2 :=
  LogDet.leaky_linear_grad_eq m

/-- LeakyTanh(max_val = m) as built by the generated constructor, any `m > 0`, EVERY real `x`:
both pieces and the switch points `|x| = m`, where the map is differentiable because value and
slope are matched. -/
theorem leakytanh_ld {C : Type} {m : ℝ} (hm : 0 < m) :
    ((LeakyTanh.init m).toBij : Bij ℝ C ℝ).LdCorrectWith univ
      (fun x => if m ≤ |x| then 1 - Real.tanh m ^ 2 else 1 - Real.tanh x ^ 2) :=
  LogDet.leakytanh_ld' hm

/-! ### Leaves: inverse log-det = − forward log-det at the preimage -/

theorem affine_ld_antisym {C : Type} (p : Affine ℝ) : (p.toBij : Bij ℝ C ℝ).LdAntisym univ :=
  LogDet.affine_ld_antisym p
theorem loc_ld_antisym {C : Type} (p : Loc ℝ) : (p.toBij : Bij ℝ C ℝ).LdAntisym univ :=
  LogDet.loc_ld_antisym p
theorem scale_ld_antisym {C : Type} (p : Scale ℝ) : (p.toBij : Bij ℝ C ℝ).LdAntisym univ :=
  LogDet.scale_ld_antisym p
theorem exp_ld_antisym {C : Type} : (Exp.toBij : Bij ℝ C ℝ).LdAntisym univ := LogDet.exp_ld_antisym
theorem softplus_ld_antisym {C : Type} : (SoftPlus.toBij : Bij ℝ C ℝ).LdAntisym univ :=
  LogDet.softplus_ld_antisym
theorem tanh_ld_antisym {C : Type} : (Tanh.toBij : Bij ℝ C ℝ).LdAntisym univ :=
  LogDet.tanh_ld_antisym
theorem leakytanh_ld_antisym {C : Type} {m : ℝ} (hm : 0 < m) :
    ((LeakyTanh.init m).toBij : Bij ℝ C ℝ).LdAntisym univ := LogDet.leakytanh_ld_antisym hm

/-! ### Combinators -/

/-- Chain rule for the generated `Chain`, any length: if the children are typed-composable
(`b₀ : D → M₁`, `b₁ : M₁ → M₂`, …, lawful on their stage) and each child's log-det is correct on
its own stage, the chain's log-det is correct on `D` (`HasDerivAt.comp`,
`log |d₂ d₁| = log |d₁| + log |d₂|`). -/
theorem chain_ld {C : Type} {bs : List (Bij ℝ C ℝ)} {D E : Set ℝ}
    (h : LogDet.ChainAll Bij.LdCorrect bs D E) : (Chain.mk bs).toBij.LdCorrect D :=
  LogDet.chain_ld h

/-- The inverse pass of the generated `Chain` (any point type `X`, any length) returns minus the
forward log-det at the preimage when every child does. -/
theorem chain_ld_antisym {X C : Type} {bs : List (Bij X C ℝ)} {D E : Set X}
    (h : LogDet.ChainAll Bij.LdAntisym bs D E) : (Chain.mk bs).toBij.LdAntisym D :=
  LogDet.chain_ld_antisym h

/-- Invert: with `b : D ↔ E` lawful, `D` open, the log-det the generated `Invert b` returns with
its forward map (= `b.inv`) is `log |derivative of b.inv|` on `E`; the derivative of the inverse
exists by the inverse function theorem (proved here in 1-D, no extra hypothesis). -/
theorem invert_ld {C : Type} {b : Bij ℝ C ℝ} {D E : Set ℝ} (hD : IsOpen D) (hL : b.Lawful D E)
    (hC : b.LdCorrect D) (hA : b.LdAntisym D) : (Invert.mk b).toBij.LdCorrect E :=
  LogDet.invert_ld hD hL hC hA

theorem invert_ld_antisym {X C : Type} {b : Bij X C ℝ} {D E : Set X} (hL : b.Lawful D E)
    (hA : b.LdAntisym D) : (Invert.mk b).toBij.LdAntisym E := LogDet.invert_ld_antisym hL hA

/-- Closure under `Chain` (so the three facts propagate through expression trees of any depth):
children that are lawful, log-det-correct and antisymmetric on their stages give a chain that is. -/
theorem chain_closed {C : Type} {bs : List (Bij ℝ C ℝ)} {D E : Set ℝ}
    (h : LogDet.ChainAll (fun b D => b.LdCorrect D ∧ b.LdAntisym D) bs D E) :
    (Chain.mk bs).toBij.Lawful D E ∧ (Chain.mk bs).toBij.LdCorrect D ∧ (Chain.mk bs).toBij.LdAntisym D :=
  ⟨Gen.chain_lawful h.lawful, LogDet.chain_ld (h.imp fun _ _ hh => hh.1),
    LogDet.chain_ld_antisym (h.imp fun _ _ hh => hh.2)⟩

/-- Closure under `Invert` (domain open). -/
theorem invert_closed {C : Type} {b : Bij ℝ C ℝ} {D E : Set ℝ} (hD : IsOpen D)
    (h : b.Lawful D E ∧ b.LdCorrect D ∧ b.LdAntisym D) :
    (Invert.mk b).toBij.Lawful E D ∧ (Invert.mk b).toBij.LdCorrect E ∧ (Invert.mk b).toBij.LdAntisym E :=
  ⟨Gen.invert_lawful h.1, LogDet.invert_ld hD h.1 h.2.1 h.2.2, LogDet.invert_ld_antisym h.1 h.2.2⟩

/-! ### Elementwise lifting to vectors: diagonal Jacobian -/

/-- `.sum()`: the lifted log-det is the sum of the children's, for any two lists. -/
theorem elementwise_ld_sum {C : Type} (bs : List (Bij ℝ C ℝ)) (xs : List ℝ) (c : C) :
    ((Bij.elementwise bs).fwdLd xs c).2 = (List.zipWith (fun b x => (b.fwdLd x c).2) bs xs).sum :=
  LogDet.elementwise_ld_sum bs xs c

/-- `log |det diag d| = Σ log |dᵢ|` (`Matrix.det_diagonal`). -/
theorem diag_logdet {n : ℕ} (d : Fin n → ℝ) (h : ∀ i, d i ≠ 0) :
    Real.log |(Matrix.diagonal d).det| = ∑ i, Real.log |d i| := LogDet.diag_logdet d h

/-- coordinates of the lifted forward map: output `i` = child `i` applied to input `i`. -/
theorem elementwise_fwd_ofFn {C : Type} {n : ℕ} (fs : Fin n → Bij ℝ C ℝ) (w : Fin n → ℝ) (c : C) :
    (Bij.elementwise (List.ofFn fs)).fwd (List.ofFn w) c = List.ofFn (fun i => (fs i).fwd (w i) c) :=
  LogDet.elementwise_fwd_ofFn fs w c

/-- Any dimension `n`: if child `i`'s log-det is correct at coordinate `v i` (derivative `d i ≠ 0`),
the lifted forward map has Fréchet derivative `J = diag d` at `v`, `det J ≠ 0`, and the returned
log-det is `log |det J|`. -/
theorem elementwise_ld {C : Type} {n : ℕ} (fs : Fin n → Bij ℝ C ℝ) (v : Fin n → ℝ) (c : C)
    (d : Fin n → ℝ) (hd : ∀ i, HasDerivAt (fun t => (fs i).fwd t c) (d i) (v i))
    (hne : ∀ i, d i ≠ 0) (hl : ∀ i, ((fs i).fwdLd (v i) c).2 = Real.log |d i|) :
    ∃ J : (Fin n → ℝ) →L[ℝ] (Fin n → ℝ),
      HasFDerivAt (fun (w : Fin n → ℝ) (i : Fin n) => (fs i).fwd (w i) c) J v ∧
      J = LinearMap.toContinuousLinearMap (Matrix.toLin' (Matrix.diagonal d)) ∧
      J.det ≠ 0 ∧
      ((Bij.elementwise (List.ofFn fs)).fwdLd (List.ofFn v) c).2 = Real.log |J.det| :=
  LogDet.elementwise_ld fs v c d hd hne hl

theorem elementwise_ld_antisym {C : Type} {n : ℕ} (fs : Fin n → Bij ℝ C ℝ) (v : Fin n → ℝ) (c : C)
    (h : ∀ i, ((fs i).invLd ((fs i).fwd (v i) c) c).2 = -((fs i).fwdLd (v i) c).2) :
    ((Bij.elementwise (List.ofFn fs)).invLd ((Bij.elementwise (List.ofFn fs)).fwd (List.ofFn v) c) c).2
      = -((Bij.elementwise (List.ofFn fs)).fwdLd (List.ofFn v) c).2 :=
  LogDet.elementwise_ld_antisym fs v c h

/-! ### Non-vacuity / worked instances -/

/-- Affine with scale −2: the forward map has derivative −2 and the returned log-det is `log 2`. -/
theorem affine_neg_instance {C : Type} (x : ℝ) (c : C) :
    HasDerivAt (fun x => ((Affine.mk 1 (-2) : Affine ℝ).toBij : Bij ℝ C ℝ).fwd x c) (-2) x ∧
      (((Affine.mk 1 (-2) : Affine ℝ).toBij : Bij ℝ C ℝ).fwdLd x c).2 = Real.log 2 := by
  obtain ⟨h1, _, h3⟩ := LogDet.affine_ld (C := C) (Affine.mk 1 (-2)) (by norm_num) x trivial c
  refine ⟨h1, ?_⟩
  rw [h3]; norm_num

/-- LeakyTanh(3) exactly at the switch point `x = 3`: differentiable there with derivative
`1 - tanh² 3`, and the returned log-det is its log. -/
theorem leakytanh_switch_instance {C : Type} (c : C) :
    HasDerivAt (fun x => ((LeakyTanh.init 3 : LeakyTanh ℝ).toBij : Bij ℝ C ℝ).fwd x c)
        (1 - Real.tanh 3 ^ 2) 3 ∧
      (((LeakyTanh.init 3 : LeakyTanh ℝ).toBij : Bij ℝ C ℝ).fwdLd 3 c).2
        = Real.log |1 - Real.tanh 3 ^ 2| := by
  obtain ⟨h1, _, h3⟩ := LogDet.leakytanh_ld' (C := C) (m := 3) (by norm_num) 3 trivial c
  simp only [abs_of_pos (show (0:ℝ) < 3 by norm_num), le_refl, if_true] at h1 h3
  exact ⟨h1, h3⟩

/-- LogNormal's bijection `Chain [Affine(1, −2), Exp]`: correct and antisymmetric log-det on ℝ. -/
theorem lognormal_chain_instance {C : Type} :
    (Chain.mk [((Affine.mk 1 (-2) : Affine ℝ).toBij : Bij ℝ C ℝ), Exp.toBij]).toBij.LdCorrect univ ∧
    (Chain.mk [((Affine.mk 1 (-2) : Affine ℝ).toBij : Bij ℝ C ℝ), Exp.toBij]).toBij.LdAntisym univ :=
  ⟨LogDet.chain_ld (.cons (Leaves.affine_lawful _ (by norm_num))
      (LogDet.affine_ld _ (by norm_num)).ldCorrect
      (.cons Leaves.exp_lawful LogDet.exp_ld.ldCorrect (.nil _))),
   LogDet.chain_ld_antisym (.cons (Leaves.affine_lawful _ (by norm_num)) (LogDet.affine_ld_antisym _)
      (.cons Leaves.exp_lawful LogDet.exp_ld_antisym (.nil _)))⟩

/-- `Invert (Chain [LeakyTanh 3, Affine(1/2, 4)])`: correct log-det on ℝ (nested combinators,
inverse function theorem through the LeakyTanh switch points). -/
theorem invert_chain_instance {C : Type} :
    (Invert.mk (Chain.mk [((LeakyTanh.init 3 : LeakyTanh ℝ).toBij : Bij ℝ C ℝ),
        (Affine.mk (1/2) 4 : Affine ℝ).toBij]).toBij).toBij.LdCorrect univ := by
  have hk := Leaves.leakytanh_lawful (C := C) (Leaves.leaky_init_wf (m := 3) (by norm_num))
  have ha := Leaves.affine_lawful (C := C) (Affine.mk (1/2) 4) (by norm_num)
  exact LogDet.invert_ld isOpen_univ
    (Gen.chain_lawful (.cons hk (.cons ha (.nil _))))
    (LogDet.chain_ld (.cons hk (LogDet.leakytanh_ld (by norm_num)).ldCorrect
      (.cons ha (LogDet.affine_ld _ (by norm_num)).ldCorrect (.nil _))))
    (LogDet.chain_ld_antisym (.cons hk (LogDet.leakytanh_ld_antisym (by norm_num))
      (.cons ha (LogDet.affine_ld_antisym _) (.nil _))))

/-- A 2-vector lifting `[Affine(0, −2), Exp]` at `(v₀, v₁)`: the returned log-det is
`log 2 + v₁ = log |det diag(−2, e^{v₁})|`. -/
theorem elementwise_instance {C : Type} (v : Fin 2 → ℝ) (c : C) :
    ((Bij.elementwise (List.ofFn ![((Affine.mk 0 (-2) : Affine ℝ).toBij : Bij ℝ C ℝ), Exp.toBij])).fwdLd
        (List.ofFn v) c).2
      = Real.log |(Matrix.diagonal ![(-2 : ℝ), Real.exp (v 1)]).det| := by
  obtain ⟨J, _, hJ, _, h⟩ := LogDet.elementwise_ld
    ![((Affine.mk 0 (-2) : Affine ℝ).toBij : Bij ℝ C ℝ), Exp.toBij] v c ![(-2 : ℝ), Real.exp (v 1)]
    (by
      intro i; fin_cases i
      · exact (LogDet.affine_ld (C := C) (Affine.mk 0 (-2)) (by norm_num) (v 0) trivial c).1
      · exact (LogDet.exp_ld (C := C) (v 1) trivial c).1)
    (by intro i; fin_cases i <;> simp [(Real.exp_pos (v 1)).ne'])
    (by
      intro i; fin_cases i
      · exact (LogDet.affine_ld (C := C) (Affine.mk 0 (-2)) (by norm_num) (v 0) trivial c).2.2
      · exact (LogDet.exp_ld (C := C) (v 1) trivial c).2.2)
  rw [h, hJ, LinearMap.det_toContinuousLinearMap, LinearMap.det_toLin']

/-! ### Rational-quadratic spline (every well-formed parameter vector, `Rqs.RqsWF`) -/

/-- inside the interval — bin interiors AND interior knots (the spline is C¹ there) — the reported
log-det is `log |d/dx transform|` of the generated forward map, with a positive derivative -/
theorem rqs_ld_interior {p : Gen.RationalQuadraticSpline ℝ} (h : Rqs.RqsWF p) (x : ℝ)
    (hlo : p.interval.1 < x) (hhi : x < p.interval.2) :
    HasDerivAt p.transform (p.derivative x) x ∧ 0 < p.derivative x ∧
      (p.transform_and_log_det x).2 = Real.log |p.derivative x| := by
  have hd := Rqs.rqs_derivative_pos h x
  refine ⟨Rqs.rqs_hasDerivAt h x hlo hhi, hd, ?_⟩
  simp only [Gen.RationalQuadraticSpline.transform_and_log_det, RealInst.sumElem_eq, RealInst.log_eq]
  rw [abs_of_pos hd]

/-- strictly outside the interval the map is the identity with derivative 1 and log-det 0 -/
theorem rqs_ld_outside {p : Gen.RationalQuadraticSpline ℝ} (h : Rqs.RqsWF p) {x : ℝ}
    (hx : x < p.interval.1 ∨ p.interval.2 < x) :
    HasDerivAt p.transform 1 x ∧ (p.transform_and_log_det x).2 = 0 := by
  have h1 := Rqs.rqs_hasDerivAt_outside h hx
  refine ⟨h1.1, ?_⟩
  simp only [Gen.RationalQuadraticSpline.transform_and_log_det, RealInst.sumElem_eq, RealInst.log_eq, h1.2,
    Real.log_one]

/-- the log-det returned with the inverse is minus the forward one at the preimage — every real input,
interval ends and knots included -/
theorem rqs_ld_antisym {C : Type} {p : Gen.RationalQuadraticSpline ℝ} (h : Rqs.RqsWF p) :
    (p.toBij : Bij ℝ C ℝ).LdAntisym Set.univ := Rqs.rqs_ldAntisym h

/-- the derivative the log-det is built from is positive everywhere (so the log is of a positive number) -/
theorem rqs_derivative_pos {p : Gen.RationalQuadraticSpline ℝ} (h : Rqs.RqsWF p) (x : ℝ) :
    0 < p.derivative x := Rqs.rqs_derivative_pos h x

end C02
