import Flowjaxv.Proofs.LogDet
import Flowjaxv.Proofs.Rqs
import Flowjaxv.Proofs.Planar
import Flowjaxv.Proofs.Triangular
import Flowjaxv.Proofs.NetLogDet
import Flowjaxv.Proofs.BnafLd
import Flowjaxv.Proofs.JaxTransforms
import Flowjaxv.Proofs.BnafGen
import Flowjaxv.Proofs.TriangularGen
import Flowjaxv.Proofs.NetGen
import Flowjaxv.Proofs.BnafInitGen
/-!
# C02 — the log-determinant is the log-determinant

"For every bijection, parameter value, condition and input, the log-determinant returned with the
forward map equals log|det dy/dx| of the forward map the bijection actually computes at that input,
the one returned with the inverse map equals minus the forward value at the corresponding point,
and it is a scalar whatever the bijection's shape."

Property theorems only (helpers in `Proofs/LogDet.lean`).  Every statement is about the definitions
*generated from /repo* (`Gen/Leaves.lean`, `Gen/Combinators.lean`) packaged as `Bij` records.
The oracle is Mathlib's derivative of the generated **forward map** (`Bij.fwd`), never the
hand-written log-det formulas:

* `Bij.LdCorrect b D` : `∀ x ∈ D, ∀ c, ∃ d, HasDerivAt (fun x => b.fwd x c) d x ∧ d ≠ 0 ∧ (b.fwdLd x c).2 = Real.log |d|`
* `Bij.LdCorrectWith b D d` : the same with the derivative named (`d x` at `x`); implies `LdCorrect`.
* `Bij.LdAntisym b D` : `∀ x ∈ D, ∀ c, (b.invLd (b.fwd x c) c).2 = -(b.fwdLd x c).2`.

**Scalar log-det.**  "It is a scalar whatever the bijection's shape" is a typing fact of the model:
`Bij.fwdLd : X → C → X × L` returns one `L = ℝ` for every point type `X` (scalars `ℝ`, vectors
`List ℝ` in `Bij.elementwise`, anything under `Chain`/`Invert`), so nothing is left to prove
and no obligation is counted for it.  On the real code the shape `()` is checked by the correspondence and by the oracle search.

Classes with theorems here: Affine, Loc, Scale, Exp, SoftPlus, Tanh, LeakyTanh, Chain, Invert,
elementwise liftings; the network bijections (Coupling, MAF, BNAF — for BNAF the code's own `logmatmulexp` chain, `bnaf_logdet`)
in the section "network bijections" below.
-/
open Gen Set

namespace C02

/-! ### Leaves: forward log-det = log |derivative of the generated forward map| -/

/-- Affine(loc, scale), any non-zero scale of either sign: `d = scale`, log-det `= log |scale|`. -/
theorem affine_ld {C : Type} (p : Affine ℝ) (h : p.scale ≠ 0) :
    (p.toBij : Bij ℝ C ℝ).LdCorrectWith univ (fun _ => p.scale) := LogDet.affine_ld p h

theorem loc_ld {C : Type} (p : Loc ℝ) : (p.toBij : Bij ℝ C ℝ).LdCorrectWith univ (fun _ => 1) :=
  LogDet.loc_ld p

theorem scale_ld {C : Type} (p : Scale ℝ) (h : p.scale ≠ 0) :
    (p.toBij : Bij ℝ C ℝ).LdCorrectWith univ (fun _ => p.scale) := LogDet.scale_ld p h

/-- Exp: `d = eˣ`, returned log-det `x`. -/
theorem exp_ld {C : Type} : (Exp.toBij : Bij ℝ C ℝ).LdCorrectWith univ Real.exp := LogDet.exp_ld

/-- SoftPlus: `d = sigmoid x = 1/(1+e⁻ˣ)`; the code returns `-softplus(-x)`. -/
theorem softplus_ld {C : Type} :
    (SoftPlus.toBij : Bij ℝ C ℝ).LdCorrectWith univ (fun x => 1 / (1 + Real.exp (-x))) :=
  LogDet.softplus_ld

/-- Tanh: `d = 1 - tanh² x` (derived from sinh/cosh); the code returns
`tanhLogGrad x = -2 (x + softplus(-2x) - log 2)`. -/
theorem tanh_ld {C : Type} :
    (Tanh.toBij : Bij ℝ C ℝ).LdCorrectWith univ (fun x => 1 - Real.tanh x ^ 2) := LogDet.tanh_ld

/-- The generated constructor matches the slope of the linear tails to tanh's at `max_val`. -/
theorem leaky_linear_grad_eq (m : ℝ) : (LeakyTanh.init m).linear_grad = 1 - Real.tanh m ^ 2 :=
  LogDet.leaky_linear_grad_eq m

/-- LeakyTanh(max_val = m) as built by the generated constructor, any `m > 0`, EVERY real `x`:
both pieces and the switch points `|x| = m`, where the map is differentiable because value and
slope are matched. -/
theorem leakytanh_ld {C : Type} {m : ℝ} (hm : 0 < m) :
    ((LeakyTanh.init m).toBij : Bij ℝ C ℝ).LdCorrectWith univ
      (fun x => if m ≤ |x| then 1 - Real.tanh m ^ 2 else 1 - Real.tanh x ^ 2) :=
  LogDet.leakytanh_ld' hm

/-! ### Leaves: inverse log-det = − forward log-det at the preimage -/

theorem affine_ld_antisym {C : Type} (p : Affine ℝ) : (p.toBij : Bij ℝ C ℝ).LdAntisym univ :=
  LogDet.affine_ld_antisym p
theorem loc_ld_antisym {C : Type} (p : Loc ℝ) : (p.toBij : Bij ℝ C ℝ).LdAntisym univ :=
  LogDet.loc_ld_antisym p
theorem scale_ld_antisym {C : Type} (p : Scale ℝ) : (p.toBij : Bij ℝ C ℝ).LdAntisym univ :=
  LogDet.scale_ld_antisym p
theorem exp_ld_antisym {C : Type} : (Exp.toBij : Bij ℝ C ℝ).LdAntisym univ := LogDet.exp_ld_antisym
theorem softplus_ld_antisym {C : Type} : (SoftPlus.toBij : Bij ℝ C ℝ).LdAntisym univ :=
  LogDet.softplus_ld_antisym
theorem tanh_ld_antisym {C : Type} : (Tanh.toBij : Bij ℝ C ℝ).LdAntisym univ :=
  LogDet.tanh_ld_antisym
theorem leakytanh_ld_antisym {C : Type} {m : ℝ} (hm : 0 < m) :
    ((LeakyTanh.init m).toBij : Bij ℝ C ℝ).LdAntisym univ := LogDet.leakytanh_ld_antisym hm

/-! ### Combinators -/

/-- Chain rule for the generated `Chain`, any length: if the children are typed-composable
(`b₀ : D → M₁`, `b₁ : M₁ → M₂`, …, lawful on their stage) and each child's log-det is correct on
its own stage, the chain's log-det is correct on `D` (`HasDerivAt.comp`,
`log |d₂ d₁| = log |d₁| + log |d₂|`). -/
theorem chain_ld {C : Type} {bs : List (Bij ℝ C ℝ)} {D E : Set ℝ}
    (h : LogDet.ChainAll Bij.LdCorrect bs D E) : (Chain.mk bs).toBij.LdCorrect D :=
  LogDet.chain_ld h

/-- The inverse pass of the generated `Chain` (any point type `X`, any length) returns minus the
forward log-det at the preimage when every child does. -/
theorem chain_ld_antisym {X C : Type} {bs : List (Bij X C ℝ)} {D E : Set X}
    (h : LogDet.ChainAll Bij.LdAntisym bs D E) : (Chain.mk bs).toBij.LdAntisym D :=
  LogDet.chain_ld_antisym h

/-- Invert: with `b : D ↔ E` lawful, `D` open, the log-det the generated `Invert b` returns with
its forward map (= `b.inv`) is `log |derivative of b.inv|` on `E`; the derivative of the inverse
exists by the inverse function theorem (proved here in 1-D, no extra hypothesis). -/
theorem invert_ld {C : Type} {b : Bij ℝ C ℝ} {D E : Set ℝ} (hD : IsOpen D) (hL : b.Lawful D E)
    (hC : b.LdCorrect D) (hA : b.LdAntisym D) : (Invert.mk b).toBij.LdCorrect E :=
  LogDet.invert_ld hD hL hC hA

theorem invert_ld_antisym {X C : Type} {b : Bij X C ℝ} {D E : Set X} (hL : b.Lawful D E)
    (hA : b.LdAntisym D) : (Invert.mk b).toBij.LdAntisym E := LogDet.invert_ld_antisym hL hA

/-- Closure under `Chain` (so the three facts propagate through expression trees of any depth):
children that are lawful, log-det-correct and antisymmetric on their stages give a chain that is. -/
theorem chain_closed {C : Type} {bs : List (Bij ℝ C ℝ)} {D E : Set ℝ}
    (h : LogDet.ChainAll (fun b D => b.LdCorrect D ∧ b.LdAntisym D) bs D E) :
    (Chain.mk bs).toBij.Lawful D E ∧ (Chain.mk bs).toBij.LdCorrect D ∧ (Chain.mk bs).toBij.LdAntisym D :=
  ⟨Gen.chain_lawful h.lawful, LogDet.chain_ld (h.imp fun _ _ hh => hh.1),
    LogDet.chain_ld_antisym (h.imp fun _ _ hh => hh.2)⟩

/-- Closure under `Invert` (domain open). -/
theorem invert_closed {C : Type} {b : Bij ℝ C ℝ} {D E : Set ℝ} (hD : IsOpen D)
    (h : b.Lawful D E ∧ b.LdCorrect D ∧ b.LdAntisym D) :
    (Invert.mk b).toBij.Lawful E D ∧ (Invert.mk b).toBij.LdCorrect E ∧ (Invert.mk b).toBij.LdAntisym E :=
  ⟨Gen.invert_lawful h.1, LogDet.invert_ld hD h.1 h.2.1 h.2.2, LogDet.invert_ld_antisym h.1 h.2.2⟩

/-! ### Elementwise lifting to vectors: diagonal Jacobian -/

/-- `.sum()`: the lifted log-det is the sum of the children's, for any two lists. -/
theorem elementwise_ld_sum {C : Type} (bs : List (Bij ℝ C ℝ)) (xs : List ℝ) (c : C) :
    ((Bij.elementwise bs).fwdLd xs c).2 = (List.zipWith (fun b x => (b.fwdLd x c).2) bs xs).sum :=
  LogDet.elementwise_ld_sum bs xs c

/-- `log |det diag d| = Σ log |dᵢ|` (`Matrix.det_diagonal`). -/
theorem diag_logdet {n : ℕ} (d : Fin n → ℝ) (h : ∀ i, d i ≠ 0) :
    Real.log |(Matrix.diagonal d).det| = ∑ i, Real.log |d i| := LogDet.diag_logdet d h

/-- coordinates of the lifted forward map: output `i` = child `i` applied to input `i`. -/
theorem elementwise_fwd_ofFn {C : Type} {n : ℕ} (fs : Fin n → Bij ℝ C ℝ) (w : Fin n → ℝ) (c : C) :
    (Bij.elementwise (List.ofFn fs)).fwd (List.ofFn w) c = List.ofFn (fun i => (fs i).fwd (w i) c) :=
  LogDet.elementwise_fwd_ofFn fs w c

/-- Any dimension `n`: if child `i`'s log-det is correct at coordinate `v i` (derivative `d i ≠ 0`),
the lifted forward map has Fréchet derivative `J = diag d` at `v`, `det J ≠ 0`, and the returned
log-det is `log |det J|`. -/
theorem elementwise_ld {C : Type} {n : ℕ} (fs : Fin n → Bij ℝ C ℝ) (v : Fin n → ℝ) (c : C)
    (d : Fin n → ℝ) (hd : ∀ i, HasDerivAt (fun t => (fs i).fwd t c) (d i) (v i))
    (hne : ∀ i, d i ≠ 0) (hl : ∀ i, ((fs i).fwdLd (v i) c).2 = Real.log |d i|) :
    ∃ J : (Fin n → ℝ) →L[ℝ] (Fin n → ℝ),
      HasFDerivAt (fun (w : Fin n → ℝ) (i : Fin n) => (fs i).fwd (w i) c) J v ∧
      J = LinearMap.toContinuousLinearMap (Matrix.toLin' (Matrix.diagonal d)) ∧
      J.det ≠ 0 ∧
      ((Bij.elementwise (List.ofFn fs)).fwdLd (List.ofFn v) c).2 = Real.log |J.det| :=
  LogDet.elementwise_ld fs v c d hd hne hl

theorem elementwise_ld_antisym {C : Type} {n : ℕ} (fs : Fin n → Bij ℝ C ℝ) (v : Fin n → ℝ) (c : C)
    (h : ∀ i, ((fs i).invLd ((fs i).fwd (v i) c) c).2 = -((fs i).fwdLd (v i) c).2) :
    ((Bij.elementwise (List.ofFn fs)).invLd ((Bij.elementwise (List.ofFn fs)).fwd (List.ofFn v) c) c).2
      = -((Bij.elementwise (List.ofFn fs)).fwdLd (List.ofFn v) c).2 :=
  LogDet.elementwise_ld_antisym fs v c h

/-! ### Non-vacuity / worked instances -/

/-- Affine with scale −2: the forward map has derivative −2 and the returned log-det is `log 2`. -/
theorem affine_neg_instance {C : Type} (x : ℝ) (c : C) :
    HasDerivAt (fun x => ((Affine.mk 1 (-2) : Affine ℝ).toBij : Bij ℝ C ℝ).fwd x c) (-2) x ∧
      (((Affine.mk 1 (-2) : Affine ℝ).toBij : Bij ℝ C ℝ).fwdLd x c).2 = Real.log 2 := by
  obtain ⟨h1, _, h3⟩ := LogDet.affine_ld (C := C) (Affine.mk 1 (-2)) (by norm_num) x trivial c
  refine ⟨h1, ?_⟩
  rw [h3]; norm_num

/-- LeakyTanh(3) exactly at the switch point `x = 3`: differentiable there with derivative
`1 - tanh² 3`, and the returned log-det is its log. -/
theorem leakytanh_switch_instance {C : Type} (c : C) :
    HasDerivAt (fun x => ((LeakyTanh.init 3 : LeakyTanh ℝ).toBij : Bij ℝ C ℝ).fwd x c)
        (1 - Real.tanh 3 ^ 2) 3 ∧
      (((LeakyTanh.init 3 : LeakyTanh ℝ).toBij : Bij ℝ C ℝ).fwdLd 3 c).2
        = Real.log |1 - Real.tanh 3 ^ 2| := by
  obtain ⟨h1, _, h3⟩ := LogDet.leakytanh_ld' (C := C) (m := 3) (by norm_num) 3 trivial c
  simp only [abs_of_pos (show (0:ℝ) < 3 by norm_num), le_refl, if_true] at h1 h3
  exact ⟨h1, h3⟩

/-- LogNormal's bijection `Chain [Affine(1, −2), Exp]`: correct and antisymmetric log-det on ℝ. -/
theorem lognormal_chain_instance {C : Type} :
    (Chain.mk [((Affine.mk 1 (-2) : Affine ℝ).toBij : Bij ℝ C ℝ), Exp.toBij]).toBij.LdCorrect univ ∧
    (Chain.mk [((Affine.mk 1 (-2) : Affine ℝ).toBij : Bij ℝ C ℝ), Exp.toBij]).toBij.LdAntisym univ :=
  ⟨LogDet.chain_ld (.cons (Leaves.affine_lawful _ (by norm_num))
      (LogDet.affine_ld _ (by norm_num)).ldCorrect
      (.cons Leaves.exp_lawful LogDet.exp_ld.ldCorrect (.nil _))),
   LogDet.chain_ld_antisym (.cons (Leaves.affine_lawful _ (by norm_num)) (LogDet.affine_ld_antisym _)
      (.cons Leaves.exp_lawful LogDet.exp_ld_antisym (.nil _)))⟩

/-- `Invert (Chain [LeakyTanh 3, Affine(1/2, 4)])`: correct log-det on ℝ (nested combinators,
inverse function theorem through the LeakyTanh switch points). -/
theorem invert_chain_instance {C : Type} :
    (Invert.mk (Chain.mk [((LeakyTanh.init 3 : LeakyTanh ℝ).toBij : Bij ℝ C ℝ),
        (Affine.mk (1/2) 4 : Affine ℝ).toBij]).toBij).toBij.LdCorrect univ := by
  have hk := Leaves.leakytanh_lawful (C := C) (Leaves.leaky_init_wf (m := 3) (by norm_num))
  have ha := Leaves.affine_lawful (C := C) (Affine.mk (1/2) 4) (by norm_num)
  exact LogDet.invert_ld isOpen_univ
    (Gen.chain_lawful (.cons hk (.cons ha (.nil _))))
    (LogDet.chain_ld (.cons hk (LogDet.leakytanh_ld (by norm_num)).ldCorrect
      (.cons ha (LogDet.affine_ld _ (by norm_num)).ldCorrect (.nil _))))
    (LogDet.chain_ld_antisym (.cons hk (LogDet.leakytanh_ld_antisym (by norm_num))
      (.cons ha (LogDet.affine_ld_antisym _) (.nil _))))

/-- A 2-vector lifting `[Affine(0, −2), Exp]` at `(v₀, v₁)`: the returned log-det is
`log 2 + v₁ = log |det diag(−2, e^{v₁})|`. -/
theorem elementwise_instance {C : Type} (v : Fin 2 → ℝ) (c : C) :
    ((Bij.elementwise (List.ofFn ![((Affine.mk 0 (-2) : Affine ℝ).toBij : Bij ℝ C ℝ), Exp.toBij])).fwdLd
        (List.ofFn v) c).2
      = Real.log |(Matrix.diagonal ![(-2 : ℝ), Real.exp (v 1)]).det| := by
  obtain ⟨J, _, hJ, _, h⟩ := LogDet.elementwise_ld
    ![((Affine.mk 0 (-2) : Affine ℝ).toBij : Bij ℝ C ℝ), Exp.toBij] v c ![(-2 : ℝ), Real.exp (v 1)]
    (by
      intro i; fin_cases i
      · exact (LogDet.affine_ld (C := C) (Affine.mk 0 (-2)) (by norm_num) (v 0) trivial c).1
      · exact (LogDet.exp_ld (C := C) (v 1) trivial c).1)
    (by intro i; fin_cases i <;> simp [(Real.exp_pos (v 1)).ne'])
    (by
      intro i; fin_cases i
      · exact (LogDet.affine_ld (C := C) (Affine.mk 0 (-2)) (by norm_num) (v 0) trivial c).2.2
      · exact (LogDet.exp_ld (C := C) (v 1) trivial c).2.2)
  rw [h, hJ, LinearMap.det_toContinuousLinearMap, LinearMap.det_toLin']

/-! ### Rational-quadratic spline (every well-formed parameter vector, `Rqs.RqsWF`) -/

/-- inside the interval — bin interiors AND interior knots (the spline is C¹ there) — the reported
log-det is `log |d/dx transform|` of the generated forward map, with a positive derivative -/
theorem rqs_ld_interior {p : Gen.RationalQuadraticSpline ℝ} (h : Rqs.RqsWF p) (x : ℝ)
    (hlo : p.interval.1 < x) (hhi : x < p.interval.2) :
    HasDerivAt p.transform (p.derivative x) x ∧ 0 < p.derivative x ∧
      (p.transform_and_log_det x).2 = Real.log |p.derivative x| := by
  have hd := Rqs.rqs_derivative_pos h x
  refine ⟨Rqs.rqs_hasDerivAt h x hlo hhi, hd, ?_⟩
  simp only [Gen.RationalQuadraticSpline.transform_and_log_det, RealInst.sumElem_eq, RealInst.log_eq]
  rw [abs_of_pos hd]

/-- strictly outside the interval the map is the identity with derivative 1 and log-det 0 -/
theorem rqs_ld_outside {p : Gen.RationalQuadraticSpline ℝ} (h : Rqs.RqsWF p) {x : ℝ}
    (hx : x < p.interval.1 ∨ p.interval.2 < x) :
    HasDerivAt p.transform 1 x ∧ (p.transform_and_log_det x).2 = 0 := by
  have h1 := Rqs.rqs_hasDerivAt_outside h hx
  refine ⟨h1.1, ?_⟩
  simp only [Gen.RationalQuadraticSpline.transform_and_log_det, RealInst.sumElem_eq, RealInst.log_eq, h1.2,
    Real.log_one]

/-- the log-det returned with the inverse is minus the forward one at the preimage — every real input,
interval ends and knots included -/
theorem rqs_ld_antisym {C : Type} {p : Gen.RationalQuadraticSpline ℝ} (h : Rqs.RqsWF p) :
    (p.toBij : Bij ℝ C ℝ).LdAntisym Set.univ := Rqs.rqs_ldAntisym h

/-- the derivative the log-det is built from is positive everywhere (so the log is of a positive number) -/
theorem rqs_derivative_pos {p : Gen.RationalQuadraticSpline ℝ} (h : Rqs.RqsWF p) (x : ℝ) :
    0 < p.derivative x := Rqs.rqs_derivative_pos h x


/-! ### Planar and TriangularAffine -/

/-- The n-dimensional form of the oracle (`Proofs/VecLd.lean`): `Bij.LdCorrectVecWith b n D M` says that at every
`v ∈ D` the forward map the bijection computes on lists of length `n`, read in coordinates
(`VecLd.coordMap`), has Fréchet derivative `toLin' (M v)` (Mathlib's `HasFDerivAt`), returns a list of
length `n`, `det (M v) ≠ 0`, and the log-det returned with the forward map is `log |det (M v)|`.

**Planar, leaky relu** (methods GENERATED from `_UnconditionalPlanar`, `activation = "leaky_relu"`): for every
`n`, `w ≠ 0`, `u`, `b`, slope `0 < s ≤ 1`, at every `x` off the kink `w·x + b = 0`, the Jacobian of the generated
forward map is `J = I + û ψᵀ` with `ψ = σ·w`, `σ = s` if `w·x + b < 0` else `1`, and the returned
`log|1 + û·ψ|` is `log |det J|`.  (On the kink the map is not differentiable unless `s = 1`.) -/
theorem planar_ld {C : Type} {n : ℕ} (p : UnconditionalPlanar ℝ) (hw : p.weight.length = n)
    (hu : p._act_scale.length = n) (hne : Jnp.dot p.weight p.weight ≠ 0) {s : ℝ} (hs0 : 0 < s) (hs1 : s ≤ 1) :
    (Planar.lreluBij p s : Bij (List ℝ) C ℝ).LdCorrectVecWith n
      {v | VecLd.toVec n p.weight ⬝ᵥ v + p.bias ≠ 0}
      (fun v => 1 + Matrix.replicateCol Unit (VecLd.toVec n p.get_act_scale) *
        Matrix.replicateRow Unit ((if VecLd.toVec n p.weight ⬝ᵥ v + p.bias < 0 then s else 1) • VecLd.toVec n p.weight)) :=
  PlanarPf.lrelu_ld ⟨hw, hu, hne⟩ hs0 hs1

/-- the determinant in `planar_ld` / `planar_tanh_ld`, by Mathlib's matrix determinant lemma:
`det (I + û ψᵀ) = 1 + ψ·û` -/
theorem planar_jac_det {n : ℕ} (û ψ : Fin n → ℝ) :
    (1 + Matrix.replicateCol Unit û * Matrix.replicateRow Unit ψ).det = 1 + ψ ⬝ᵥ û :=
  PlanarPf.jac_det û ψ

/-- **Planar, tanh** (GENERATED, `activation = "tanh"`; the library implements only the forward methods):
at EVERY `x ∈ ℝⁿ` the generated forward map has Fréchet derivative `J = I + û ψᵀ`, `ψ = (1 − tanh²(w·x+b))·w`,
`det J = 1 + û·ψ > 0`, the returned log-det is `log |det J|`, and the returned point is `transform x`. -/
theorem planar_tanh_ld {n : ℕ} (p : UnconditionalPlanar ℝ) (hw : p.weight.length = n)
    (hu : p._act_scale.length = n) (hne : Jnp.dot p.weight p.weight ≠ 0) (v : Fin n → ℝ) :
    HasFDerivAt (VecLd.coordMap n p.transform_tanh)
      (VecLd.matCLM (1 + Matrix.replicateCol Unit (VecLd.toVec n p.get_act_scale) * Matrix.replicateRow Unit
        ((1 - Real.tanh (VecLd.toVec n p.weight ⬝ᵥ v + p.bias) ^ 2) • VecLd.toVec n p.weight))) v ∧
    (∀ v' : Fin n → ℝ, (p.transform_tanh (List.ofFn v')).length = n) ∧
    0 < (1 + Matrix.replicateCol Unit (VecLd.toVec n p.get_act_scale) * Matrix.replicateRow Unit
        ((1 - Real.tanh (VecLd.toVec n p.weight ⬝ᵥ v + p.bias) ^ 2) • VecLd.toVec n p.weight)).det ∧
    (p.transform_and_log_det_tanh (List.ofFn v)).2 =
      Real.log |(1 + Matrix.replicateCol Unit (VecLd.toVec n p.get_act_scale) * Matrix.replicateRow Unit
        ((1 - Real.tanh (VecLd.toVec n p.weight ⬝ᵥ v + p.bias) ^ 2) • VecLd.toVec n p.weight)).det| ∧
    (p.transform_and_log_det_tanh (List.ofFn v)).1 = p.transform_tanh (List.ofFn v) :=
  PlanarPf.tanh_ld ⟨hw, hu, hne⟩ v

/-- Planar, leaky relu: the log-det returned with the inverse is minus the forward one at the preimage, for
every `x ∈ ℝⁿ` (the kink included: both sides then use slope 1). -/
theorem planar_ld_antisym {C : Type} {n : ℕ} (p : UnconditionalPlanar ℝ) (hw : p.weight.length = n)
    (hu : p._act_scale.length = n) (hne : Jnp.dot p.weight p.weight ≠ 0) {s : ℝ} (hs0 : 0 < s) (hs1 : s ≤ 1) :
    (Planar.lreluBij p s : Bij (List ℝ) C ℝ).LdAntisym {x | x.length = n} :=
  PlanarPf.lrelu_ld_antisym ⟨hw, hu, hne⟩ hs0 hs1

/-- **TriangularAffine** (hand model): for `triangular` lower / upper triangular (as `lower` says) `n × n` with
non-zero diagonal of either sign, the forward map `x ↦ A x + loc` has Fréchet derivative `toLin' A` everywhere,
`det A = ∏ Aᵢᵢ ≠ 0` (Mathlib's `det_of_isLowerTriangular` / `det_of_isUpperTriangular`), and the returned
`Σ log|Aᵢᵢ|` is `log |det A|`. -/
theorem triangular_ld {C : Type} {n : ℕ} {t : Tri.TriAffine ℝ} (h : TriPf.TriWF n t) :
    (t.toBij : Bij (List ℝ) C ℝ).LdCorrectVecWith n Set.univ (fun _ => TriPf.toMat n t.triangular) :=
  TriPf.triangular_ld h

/-- the determinant in `triangular_ld` is the product of the diagonal -/
theorem triangular_det {n : ℕ} {t : Tri.TriAffine ℝ} (h : TriPf.TriWF n t) :
    (TriPf.toMat n t.triangular).det = ∏ i, TriPf.toMat n t.triangular i i ∧
      ∀ i : Fin n, TriPf.toMat n t.triangular i i ≠ 0 := h.det

theorem triangular_ld_antisym {C : Type} (t : Tri.TriAffine ℝ) (D : Set (List ℝ)) :
    (t.toBij : Bij (List ℝ) C ℝ).LdAntisym D := TriPf.triangular_ld_antisym t D

/-- … for the constructor's matrix, every real raw diagonal parameter, either orientation, every dimension -/
theorem triangular_of_raw_ld {C : Type} {n : ℕ} (lower : Bool) (raw : List ℝ) (arr : List (List ℝ))
    (loc : List ℝ) (hsq : TriPf.Square n arr) (hr : raw.length = n) (hl : loc.length = n) :
    ((Tri.ofRaw lower raw arr loc).toBij : Bij (List ℝ) C ℝ).LdCorrectVec n Set.univ :=
  (TriPf.triangular_ld (TriPf.ofRaw_wf lower raw arr loc hsq hr hl)).ldCorrectVec

/-- non-vacuity: the leaky-relu layer `w = (1, 0)`, `u = (0, 3)`, `b = 0`, slope `1/2` at the point `(2, 5)` (off the kink) -/
theorem planar_ld_instance :
    ∃ J : (Fin 2 → ℝ) →L[ℝ] (Fin 2 → ℝ),
      HasFDerivAt (VecLd.coordMap 2 (fun x => (⟨[1, 0], [0, 3], (0 : ℝ)⟩ : UnconditionalPlanar ℝ).transform_lrelu (1 / 2) x)) J ![2, 5] ∧
      J.det ≠ 0 ∧
      ((⟨[1, 0], [0, 3], (0 : ℝ)⟩ : UnconditionalPlanar ℝ).transform_and_log_det_lrelu (1 / 2) (List.ofFn ![2, 5])).2
        = Real.log |J.det| := by
  have h := (planar_ld (C := Unit) (n := 2) ⟨[1, 0], [0, 3], (0 : ℝ)⟩ rfl rfl (by simp [ParamsPf.jdot_eq])
    (s := 1 / 2) (by norm_num) (by norm_num)).ldCorrectVec ![2, 5]
    (by simp [VecLd.toVec, dotProduct, Fin.sum_univ_two]) ()
  obtain ⟨J, h1, _, h3, h4⟩ := h
  exact ⟨J, h1, h3, h4⟩

/-! ## ===== BEGIN network bijections: triangular Jacobians of Coupling, MaskedAutoregressive, BNAF =====

Statements about the hand-written models `Model/Masks.lean` / `Model/NetInverse.lean` at `ℝ` (helpers in
`Proofs/NetLogDet.lean`).  The oracle is Mathlib's `HasFDerivAt` of the model's FORWARD map read in coordinates,
`NetLogDet.coords n F = fun (w : Fin n → ℝ) i => nth (F (List.ofFn w)) i`; the value compared with `log |det J|` is the
second component of the model's `transform_and_log_det`, i.e. the SUM of the per-coordinate transformer log-dets that
`Vmap(...).transform_and_log_det` returns.  Differentiability of the whole forward map at the point is a HYPOTHESIS
(`hJ`): it holds wherever the conditioner network and the transformers are differentiable (everywhere for smooth
activations, off the kinks for `relu`); the per-coordinate scalar facts (`hd`) are exactly C02's leaf statements
(`LdCorrectWith`) for the transformer with the parameters the network computes at that point. -/
section NetworkLogDets
open Masks MasksPf

/-- **the algebraic core**: a map `ℝⁿ → ℝⁿ` that is Fréchet differentiable at `x` and whose output `i` does not
change when input `j > i` moves along the coordinate line through `x` has a LOWER-TRIANGULAR Jacobian matrix at `x`
(entries `J eⱼ i`), the diagonal entries are the own-coordinate partial derivatives, and
`det J = ∏ᵢ ∂fᵢ/∂xᵢ`. -/
theorem det_lowerTriangular_of_dependency {n : ℕ} (f : (Fin n → ℝ) → Fin n → ℝ) (x : Fin n → ℝ)
    (J : (Fin n → ℝ) →L[ℝ] (Fin n → ℝ)) (hJ : HasFDerivAt f J x)
    (hdep : ∀ i j : Fin n, i < j → ∀ t, f (Function.update x j t) i = f x i) :
    (∀ i j : Fin n, i < j → J (Pi.single j 1) i = 0) ∧
    (∀ i, HasDerivAt (fun t => f (Function.update x i t) i) (J (Pi.single i 1) i) (x i)) ∧
    J.det = ∏ i, J (Pi.single i 1) i :=
  NetLogDet.det_lowerTriangular_of_dependency f x J hJ hdep

/-- **`coupling_logdet`** — EVERY conditioner function, first-block size `d ≤ n`, transformer family, condition and
point `v` at which the forward map is differentiable: the Jacobian is block lower triangular `[[I, 0], [*, diag T'ᵢ]]`
(`coupling_dependency`), so `det J = ∏_{i ≥ d} T'ᵢ ≠ 0`, and the log-det the layer returns is `log |det J|`.
`dT i` = derivative at `v i` of the scalar transformer of coordinate `i ≥ d`, taken with the parameter row `i - d`
the conditioner computes from the first block of `v`. -/
theorem coupling_logdet (d n : ℕ) (hdn : d ≤ n) (cnd : List ℝ → List ℝ) (tf : List ℝ → Bij ℝ Unit ℝ) (cond : List ℝ)
    (v : Fin n → ℝ) (J : (Fin n → ℝ) →L[ℝ] (Fin n → ℝ))
    (hJ : HasFDerivAt (NetLogDet.coords n fun x => (couplingBij d cnd tf).fwd x cond) J v)
    (dT : ℕ → ℝ)
    (hd : ∀ (i : Fin n), d ≤ (i : ℕ) → ∀ ps : List ℝ,
      (reshapeRows (n - d) (cnd ((List.ofFn v).take d ++ cond)))[(i : ℕ) - d]? = some ps →
      HasDerivAt (fun t => (tf ps).fwd t ()) (dT i) (v i) ∧ dT i ≠ 0 ∧
        ((tf ps).fwdLd (v i) ()).2 = Real.log |dT i|) :
    J.det = ∏ i : Fin n, (if (i : ℕ) < d then 1 else dT i) ∧ J.det ≠ 0 ∧
      ((couplingBij d cnd tf).fwdLd (List.ofFn v) cond).2 = Real.log |J.det| :=
  NetLogDet.coupling_logdet d n hdn cnd tf cond v J hJ dT hd

/-- **`coupling_affine_logdet`** — `coupling_logdet` with NO Jacobian hypothesis for the affine transformer:
`tf ps = Affine(loc ps, scale ps)` (the GENERATED `Affine`; flowjax: `loc = ps[0]`, `scale = softplus(ps[1])`), any
conditioner function whose location / scale outputs are differentiable in the input (`NetLogDet.CondDiff`), any split
`d ≤ n`, any condition, non-vanishing scale.  At EVERY point `v` the Fréchet derivative `J` of the forward map exists,
`det J = ∏_{i ≥ d} scaleᵢ(v) ≠ 0` and the returned log-det is `log |det J|`. -/
theorem coupling_affine_logdet (d n : ℕ) (hdn : d ≤ n) (cnd : List ℝ → List ℝ) (loc scale : List ℝ → ℝ)
    (hs : ∀ ps, scale ps ≠ 0) (c : List ℝ) (hc : NetLogDet.CondDiff d n cnd loc scale c) (v : Fin n → ℝ) :
    ∃ J : (Fin n → ℝ) →L[ℝ] (Fin n → ℝ),
      HasFDerivAt (NetLogDet.coords n fun x => (couplingBij d cnd (NetLogDet.affineFamily loc scale)).fwd x c) J v ∧
      J.det = ∏ i : Fin n, (if (i : ℕ) < d then 1 else scale (NetLogDet.rowAt d n cnd c v (i - d))) ∧ J.det ≠ 0 ∧
      ((couplingBij d cnd (NetLogDet.affineFamily loc scale)).fwdLd (List.ofFn v) c).2 = Real.log |J.det| :=
  NetLogDet.coupling_affine_logdet d n hdn cnd loc scale hs c hc v

/-- **`maf_logdet`** — every well-shaped masked network (all raw weights, biases, activation, sizes, both rank
branches), transformer family, condition and point `v` at which the forward map is differentiable: the Jacobian is
lower triangular (`maf_autoregressive`) with diagonal `T'ᵢ`, so `det J = ∏ᵢ T'ᵢ ≠ 0`, and the returned log-det is
`log |det J|`.  `d i` = derivative at `v i` of the scalar transformer with parameter row `i` computed at `v`. -/
theorem maf_logdet (N : MafNet ℝ) (hN : N.WellShaped) (tf : List ℝ → Bij ℝ Unit ℝ) (cond : List ℝ)
    (v : Fin N.dim → ℝ) (J : (Fin N.dim → ℝ) →L[ℝ] (Fin N.dim → ℝ))
    (hJ : HasFDerivAt (NetLogDet.coords N.dim fun x => (mafBij N tf).fwd x cond) J v)
    (d : Fin N.dim → ℝ)
    (hd : ∀ (i : Fin N.dim) (ps : List ℝ), (N.params (List.ofFn v) cond)[(i : ℕ)]? = some ps →
      HasDerivAt (fun t => (tf ps).fwd t ()) (d i) (v i) ∧ d i ≠ 0 ∧
        ((tf ps).fwdLd (v i) ()).2 = Real.log |d i|) :
    J.det = ∏ i, d i ∧ J.det ≠ 0 ∧ ((mafBij N tf).fwdLd (List.ofFn v) cond).2 = Real.log |J.det| :=
  NetLogDet.maf_logdet N hN tf cond v J hJ d hd

/-- inverse log-dets: `Coupling.inverse_and_log_det(transform(x))[1] = -transform_and_log_det(x)[1]` whenever every
scalar transformer has that property on `D₁` (C02's `…_ld_antisym` leaf statements) -/
theorem coupling_ld_antisym (d : ℕ) (cnd : List ℝ → List ℝ) (tf : List ℝ → Bij ℝ Unit ℝ) (D₁ : Set ℝ)
    (htf : ∀ ps, (tf ps).LdAntisym D₁) :
    (couplingBij d cnd tf).LdAntisym {x | ∀ t ∈ x.drop d, t ∈ D₁} :=
  NetLogDet.coupling_ld_antisym d cnd tf D₁ htf

/-- `MaskedAutoregressive.inverse_and_log_det` is `x = inverse(y); (x, -transform_and_log_det(x)[1])`: minus the
forward value at the preimage, by the sequential inverse's correctness (C01 `maf_inverse_correct`) -/
theorem maf_ld_antisym (N : MafNet ℝ) (hN : N.WellShaped) (tf : List ℝ → Bij ℝ Unit ℝ) (D₁ E₁ : Set ℝ)
    (htf : ∀ ps, (tf ps).Lawful D₁ E₁) :
    (mafBij N tf).LdAntisym {x | x.length = N.dim ∧ ∀ t ∈ x, t ∈ D₁} :=
  NetLogDet.maf_ld_antisym N hN tf D₁ E₁ htf

/-- `BlockAutoregressiveNetwork.transform` is Fréchet differentiable at EVERY point when the activation is
differentiable — all well-shaped raw weights / biases / raw scales, every depth, block_dim, condition (so the
differentiability hypothesis of the two theorems above is not needed for BNAF). -/
theorem bnaf_differentiable (act : ℝ → ℝ) (hact : ∀ z, DifferentiableAt ℝ act z)
    {dim depth bd : ℕ} {Ls : List (BnafLayer ℝ)} {condLinear : Option (List (List ℝ))}
    (hok : NetLawful.BnafOK dim depth bd Ls condLinear) (cond : List ℝ) (v : Fin dim → ℝ) :
    DifferentiableAt ℝ (NetLogDet.coords dim fun x => bnafTransform act Ls condLinear x cond) v :=
  NetLogDet.bnaf_differentiable act hact hok cond v

/-- **`bnaf_logdet_partial`** — the Jacobian side for `BlockAutoregressiveNetwork`, no analytic hypothesis left:
for an activation differentiable with positive derivative, all well-shaped raw weights / biases / raw scales, every
depth, block_dim, condition and EVERY point `v`, the Fréchet derivative `J` of `transform` exists, its matrix is lower
triangular with the strictly positive diagonal of C09 `bnaf_jacobian`, so `det J = ∏ᵢ ∂yᵢ/∂xᵢ > 0` and
`log |det J| = Σᵢ log (∂yᵢ/∂xᵢ)`.
PARTIAL (kept because it is still true and is used by `bnaf_logdet`): it says nothing about the value
`transform_and_log_det` RETURNS.  The full statement — the code's own computation (per-layer log block-diagonals, the
activation's `full(-inf)` matrices, the `logmatmulexp` chain, `.sum()`) returns exactly `log |det J|` — is `bnaf_logdet` below. -/
theorem bnaf_logdet_partial (act : ℝ → ℝ) (hact : ∀ z, DifferentiableAt ℝ act z ∧ 0 < deriv act z)
    {dim depth bd : ℕ} {Ls : List (BnafLayer ℝ)} {condLinear : Option (List (List ℝ))}
    (hok : NetLawful.BnafOK dim depth bd Ls condLinear) (cond : List ℝ) (v : Fin dim → ℝ) :
    ∃ (J : (Fin dim → ℝ) →L[ℝ] (Fin dim → ℝ)) (d : Fin dim → ℝ),
      HasFDerivAt (NetLogDet.coords dim fun x => bnafTransform act Ls condLinear x cond) J v ∧
      (∀ i, 0 < d i ∧
        HasDerivAt (fun t => nth (bnafTransform act Ls condLinear ((List.ofFn v).set i t) cond) i) (d i) (v i)) ∧
      (∀ i j : Fin dim, i < j → J (Pi.single j 1) i = 0) ∧
      J.det = ∏ i, d i ∧ 0 < J.det ∧ Real.log |J.det| = ∑ i, Real.log (d i) :=
  NetLogDet.bnaf_det' act hact hok cond v

/-! ### `BlockAutoregressiveNetwork.transform_and_log_det`: the value the code computes

`Masks.bnafTransformAndLogDet A dim bd layers condLinear x cond` (`Model/BnafLd.lean`) is the code's own computation:
`log_dets_3ds = [log W₀ᵈⁱᵃᵍ, A₀, log W₁ᵈⁱᵃᵍ, A₁, …, log W_d ᵈⁱᵃᵍ]` (`linear_to_log_block_diagonal` of the unwrapped weights; `A_k` the
`full(-inf)` matrices with the activation's vmapped log-det on the diagonals), folded from the right with the GENERATED
`Gen.logmatmulexp` (batched over the `dim` blocks), then `.sum()`.  Log-domain entries are `Jnp.Ext ℝ = Option ℝ`, `none = -inf`.
`A` is `activation.transform_and_log_det` on a scalar. -/

/-- **key lemma** — over `ℝ` the generated `logmatmulexp x y` (max-subtraction stabilisation included) is entrywise
`log (exp x · exp y)`: for a finite `n × k` matrix `x = log X` (`X > 0`, `k ≥ 1`) and a `k × m` log-domain matrix `y` (entries
may be `-inf`) each of whose columns has a finite entry, entry `(i, j)` is `log Σ_l X i l · exp (y l j)` with `exp(-inf) = 0`.
(An all-`-inf` column is the excluded point: the real code returns `nan` there — `-inf - -inf` — checked by the
correspondence `lmme:excluded`.) -/
theorem logmatmulexp_spec (n k m : ℕ) (hk : 0 < k) (X : ℕ → ℕ → ℝ) (hX : ∀ i l, i < n → l < k → 0 < X i l)
    (fy : ℕ → ℕ → Jnp.Ext ℝ) (hy : ∀ j, j < m → ∃ l, l < k ∧ fy l j ≠ none) :
    Gen.logmatmulexp (BnafLd.mkMat n k fun i l => some (Real.log (X i l))) (BnafLd.mkMat k m fy)
      = BnafLd.mkMat n m fun i j => some (Real.log (∑ l ∈ Finset.range k, X i l * Jnp.Ext.exp (fy l j))) :=
  BnafLd.lme_mk n k m hk X hX fy hy

/-- **`bnaf_logdet`** — the FULL statement for `BlockAutoregressiveNetwork`: for every activation whose
`transform_and_log_det` is `z ↦ (act z, log (act' z))` with `act` differentiable and `act' > 0` everywhere, all well-shaped raw
weights / biases / raw weight-norm scales, every `dim`, `depth`, `block_dim ≥ 1`, (optional) condition and EVERY point `v`:
the Fréchet derivative `J` of the modelled `transform` exists at `v`, `det J > 0`, and the pair the code's
`transform_and_log_det` returns is `(transform v, log |det J|)` — the log-det is finite (`some`), no `-inf`/`nan` can reach it.
Hypotheses the proof forces, and what the real code does outside them (run by `tools/props/bnafld.py` / reported):
`act' > 0` — at a pre-activation where `act' = 0` (e.g. `activation = lambda z: z**3`, bias 0, `x = 0`) `det J = 0`, `log |det J| = -inf`,
but the code returns `nan` (`logmatmulexp`'s `y - amax(y)` is `-inf - -inf` on the all-`-inf` column; the model at `Float` returns `nan` too);
a non-monotone callable (`jnp.sin`, outside the documented "activation should be bijective") is accepted and gives a wrong log-det for `block_dim > 1`;
a decreasing bijection (`act' < 0`) is still correct on the real code (not covered here);
`block_dim ≥ 1` — `block_dim = 0` is accepted by the constructor and `transform_and_log_det` raises `ValueError` (zero-size `amax`) when `depth ≥ 1`. -/
theorem bnaf_logdet (A : ℝ → ℝ × ℝ) (act : ℝ → ℝ) (hfst : ∀ z, (A z).1 = act z)
    (hact : ∀ z, DifferentiableAt ℝ act z ∧ 0 < deriv act z) (hld : ∀ z, (A z).2 = Real.log (deriv act z))
    {dim depth bd : ℕ} {Ls : List (BnafLayer ℝ)} {condLinear : Option (List (List ℝ))}
    (hok : NetLawful.BnafOK dim depth bd Ls condLinear) (cond : List ℝ) (v : Fin dim → ℝ) :
    ∃ J : (Fin dim → ℝ) →L[ℝ] (Fin dim → ℝ),
      HasFDerivAt (NetLogDet.coords dim fun x => bnafTransform act Ls condLinear x cond) J v ∧ 0 < J.det ∧
      bnafTransformAndLogDet A dim bd Ls condLinear (List.ofFn v) cond
        = (bnafTransform act Ls condLinear (List.ofFn v) cond, some (Real.log |J.det|)) :=
  BnafLd.bnaf_logdet A act ⟨hfst, hact, hld⟩ hok cond v

/-- `bnaf_logdet` for the DEFAULT activation `LeakyTanh(max_val)` (any `max_val > 0`; the constructor uses `3`), through the
generated `LeakyTanh.transform_and_log_det` — switch points `|z| = max_val` included — with no hypothesis left on the activation. -/
theorem bnaf_logdet_leakytanh {m : ℝ} (hm : 0 < m)
    {dim depth bd : ℕ} {Ls : List (BnafLayer ℝ)} {condLinear : Option (List (List ℝ))}
    (hok : NetLawful.BnafOK dim depth bd Ls condLinear) (cond : List ℝ) (v : Fin dim → ℝ) :
    ∃ J : (Fin dim → ℝ) →L[ℝ] (Fin dim → ℝ),
      HasFDerivAt (NetLogDet.coords dim fun x => bnafTransform (LeakyTanh.transform (LeakyTanh.init m)) Ls condLinear x cond) J v ∧
      0 < J.det ∧
      bnafTransformAndLogDet (fun z => LeakyTanh.transform_and_log_det (LeakyTanh.init m) z) dim bd Ls condLinear (List.ofFn v) cond
        = (bnafTransform (LeakyTanh.transform (LeakyTanh.init m)) Ls condLinear (List.ofFn v) cond, some (Real.log |J.det|)) :=
  BnafLd.bnaf_logdet _ _ (BnafLd.leakyTanh_actOK hm) hok cond v

/-- `bnaf_logdet` for `activation = fn`, a callable wrapped by `_CallableToBijection`
(`transform_and_log_det z = (fn z, log |grad fn z|)`), differentiable with positive derivative. -/
theorem bnaf_logdet_callable (fn : ℝ → ℝ) (hfn : ∀ z, DifferentiableAt ℝ fn z ∧ 0 < deriv fn z)
    {dim depth bd : ℕ} {Ls : List (BnafLayer ℝ)} {condLinear : Option (List (List ℝ))}
    (hok : NetLawful.BnafOK dim depth bd Ls condLinear) (cond : List ℝ) (v : Fin dim → ℝ) :
    ∃ J : (Fin dim → ℝ) →L[ℝ] (Fin dim → ℝ),
      HasFDerivAt (NetLogDet.coords dim fun x => bnafTransform fn Ls condLinear x cond) J v ∧ 0 < J.det ∧
      bnafTransformAndLogDet (fun z => (fn z, Real.log |deriv fn z|)) dim bd Ls condLinear (List.ofFn v) cond
        = (bnafTransform fn Ls condLinear (List.ofFn v) cond, some (Real.log |J.det|)) :=
  BnafLd.bnaf_logdet _ _ (BnafLd.callable_actOK fn hfn) hok cond v

/-- **`bnaf_inverse_logdet`** — `BlockAutoregressiveNetwork.inverse_and_log_det` has no analytic inverse: it is
`x = inverter(self, y, condition); (x, -transform_and_log_det(x)[1])`.  For EVERY inverter function, whatever point `x = v` it
returns, the returned log-det is minus the forward one there: `-log |det J(x)| = log |det J(x)⁻¹|`, `J(x)` the Fréchet
derivative of `transform` at `x`.  (That `x` approximates the preimage of `y` is C01 / C10's matter — `AutoregressiveBisectionInverter`.) -/
theorem bnaf_inverse_logdet (A : ℝ → ℝ × ℝ) (act : ℝ → ℝ) (hfst : ∀ z, (A z).1 = act z)
    (hact : ∀ z, DifferentiableAt ℝ act z ∧ 0 < deriv act z) (hld : ∀ z, (A z).2 = Real.log (deriv act z))
    {dim depth bd : ℕ} {Ls : List (BnafLayer ℝ)} {condLinear : Option (List (List ℝ))}
    (hok : NetLawful.BnafOK dim depth bd Ls condLinear) (inverter : List ℝ → List ℝ → List ℝ) (y cond : List ℝ)
    (v : Fin dim → ℝ) (hinv : inverter y cond = List.ofFn v) :
    ∃ J : (Fin dim → ℝ) →L[ℝ] (Fin dim → ℝ),
      HasFDerivAt (NetLogDet.coords dim fun x => bnafTransform act Ls condLinear x cond) J v ∧ 0 < J.det ∧
      bnafInverseAndLogDet A dim bd Ls condLinear inverter y cond = (List.ofFn v, some (-(Real.log |J.det|))) ∧
      -(Real.log |J.det|) = Real.log |(J.det)⁻¹| :=
  BnafLd.bnaf_inverse_logdet A act ⟨hfst, hact, hld⟩ hok inverter y cond v hinv

/-! ### non-vacuity -/

/-- a coupling layer on `ℝ²` (`d = 1`) with the NON-LINEAR conditioner `x₀ ↦ x₀² + 1`:
`(x₀, x₁) ↦ (x₀, 2x₁ + x₀² + 1)` is differentiable everywhere, `det J = 2`, returned log-det `= log |det J|`. -/
theorem coupling_logdet_instance (v : Fin 2 → ℝ) :
    ∃ J : (Fin 2 → ℝ) →L[ℝ] (Fin 2 → ℝ),
      HasFDerivAt (NetLogDet.coords 2 fun x =>
        (couplingBij 1 (fun l => l.map fun a => a * a + 1) NetLawful.exampleFamily).fwd x []) J v ∧
      J.det = 2 ∧
      ((couplingBij 1 (fun l => l.map fun a => a * a + 1) NetLawful.exampleFamily).fwdLd (List.ofFn v) []).2
        = Real.log |J.det| := by
  have hF : (NetLogDet.coords 2 fun x => (couplingBij 1 (fun l => l.map fun a => a * a + 1) NetLawful.exampleFamily).fwd x [])
      = fun w => ![w 0, w 1 * 2 + (w 0 * w 0 + 1)] := by
    funext w i
    fin_cases i <;>
      simp [NetLogDet.coords, nth, couplingBij, couplingTransform, NetLawful.exampleFamily, reshapeRows, Affine.toBij,
        Affine.transform, List.ofFn_succ, List.range_succ] <;> ring
  have hdiff : DifferentiableAt ℝ (fun w : Fin 2 → ℝ => ![w 0, w 1 * 2 + (w 0 * w 0 + 1)]) v := by
    rw [differentiableAt_pi]
    intro i
    fin_cases i <;> simp <;> fun_prop
  refine ⟨_, by rw [hF]; exact hdiff.hasFDerivAt, ?_⟩
  obtain ⟨h1, _, h3⟩ := coupling_logdet 1 2 (by norm_num) (fun l => l.map fun a => a * a + 1) NetLawful.exampleFamily [] v _
    (by rw [hF]; exact hdiff.hasFDerivAt) (fun _ => 2) (fun i _ ps _ => NetLogDet.exampleFamily_ld ps (v i))
  refine ⟨?_, h3⟩
  rw [h1]
  simp [Fin.prod_univ_two]

/-- the well-shaped masked net `MasksPf.mafExample` (dim 2, width 2, depth 1; it computes the parameters
`(0, 2x₀)`) with the affine family: `(x₀, x₁) ↦ (2x₀, 2x₁ + 2x₀)`, `det J = 4`, returned log-det `= log |det J|`. -/
theorem maf_logdet_instance (v : Fin 2 → ℝ) :
    ∃ J : (Fin 2 → ℝ) →L[ℝ] (Fin 2 → ℝ),
      HasFDerivAt (NetLogDet.coords 2 fun x => (mafBij mafExample NetLawful.exampleFamily).fwd x []) J v ∧
      J.det = 4 ∧ ((mafBij mafExample NetLawful.exampleFamily).fwdLd (List.ofFn v) []).2 = Real.log |J.det| := by
  have hW : mafExample.WellShaped := by
    refine ⟨rfl, rfl, ?_⟩
    intro l hw hb
    have hl : l < 2 := hw
    interval_cases l
    · exact ⟨2, 2, rfl, rfl, ⟨rfl, by intro row hrow; simp [mafExample] at hrow; subst hrow; rfl⟩, rfl⟩
    · exact ⟨2, 2, rfl, rfl, ⟨rfl, by intro row hrow; simp [mafExample] at hrow; subst hrow; rfl⟩, rfl⟩
  have hm : mafExample.masks = [[[true, false], [true, false]], [[false, false], [true, true]]] := by decide
  have hP : ∀ a b : ℝ, mafExample.params [a, b] [] = [[0], [a + a]] := by
    intro a b
    simp only [MafNet.params, MafNet.flatParams, MafNet.layers, hm]
    simp [mafExample, mkLayers, mlpForward, MaskedLinear.apply, MaskedLinear.unwrapW, whereMask, linearApply,
      Jnp.dot, Jnp.sum, reshapeRows, List.range_succ]
  have hF : (NetLogDet.coords 2 fun x => (mafBij mafExample NetLawful.exampleFamily).fwd x [])
      = fun w => ![w 0 * 2, w 1 * 2 + (w 0 + w 0)] := by
    funext w i
    have e : List.ofFn w = [w 0, w 1] := by simp [List.ofFn_succ]
    simp only [NetLogDet.coords, mafBij, MafNet.transform, e, hP]
    fin_cases i <;> simp [nth, NetLawful.exampleFamily, Affine.toBij, Affine.transform] <;> ring
  have hdiff : DifferentiableAt ℝ (fun w : Fin 2 → ℝ => ![w 0 * 2, w 1 * 2 + (w 0 + w 0)]) v := by
    rw [differentiableAt_pi]
    intro i
    fin_cases i <;> simp <;> fun_prop
  have hJ : HasFDerivAt (NetLogDet.coords mafExample.dim fun x => (mafBij mafExample NetLawful.exampleFamily).fwd x [])
      (fderiv ℝ (fun w : Fin 2 → ℝ => ![w 0 * 2, w 1 * 2 + (w 0 + w 0)]) v) v := by
    show HasFDerivAt (NetLogDet.coords 2 fun x => (mafBij mafExample NetLawful.exampleFamily).fwd x []) _ v
    rw [hF]; exact hdiff.hasFDerivAt
  refine ⟨_, hJ, ?_⟩
  obtain ⟨h1, _, h3⟩ := maf_logdet mafExample hW NetLawful.exampleFamily [] v _ hJ (fun _ => 2)
    (fun i ps _ => NetLogDet.exampleFamily_ld ps (v i))
  refine ⟨h1.trans ?_, h3⟩
  show ∏ i : Fin 2, (2 : ℝ) = 4
  norm_num [Fin.prod_univ_two]

/-- `MasksPf.bnafExample` (dim 2, depth 1, block_dim 1) with the activation `z ↦ z + z` (derivative `2 > 0`)
satisfies every hypothesis of `bnaf_logdet_partial`: at every point the Jacobian exists, is lower triangular, `det J > 0`. -/
theorem bnaf_logdet_instance (v : Fin 2 → ℝ) :
    ∃ (J : (Fin 2 → ℝ) →L[ℝ] (Fin 2 → ℝ)),
      HasFDerivAt (NetLogDet.coords 2 fun x => bnafTransform (fun z => z + z) bnafExample none x []) J v ∧
      J (Pi.single 1 1) 0 = 0 ∧ 0 < J.det := by
  have hact : ∀ z : ℝ, DifferentiableAt ℝ (fun z : ℝ => z + z) z ∧ 0 < deriv (fun z : ℝ => z + z) z := by
    intro z
    have h : HasDerivAt (fun z : ℝ => z + z) (1 + 1) z := (hasDerivAt_id z).add (hasDerivAt_id z)
    exact ⟨h.differentiableAt, by rw [h.deriv]; norm_num⟩
  obtain ⟨J, d, hJ, _, hz, _, hpos, _⟩ := bnaf_logdet_partial _ hact NetLawful.bnafExample_ok [] v
  exact ⟨J, hJ, hz 0 1 (by decide), hpos⟩

/-- non-vacuity of `bnaf_logdet`: `MasksPf.bnafExample` (dim 2, depth 1, block_dim 1, weights of both signs) with the DEFAULT
activation `LeakyTanh(3)` satisfies every hypothesis; at every point the code's `transform_and_log_det` returns `log |det J|`. -/
theorem bnaf_logdet_full_instance (v : Fin 2 → ℝ) :
    ∃ J : (Fin 2 → ℝ) →L[ℝ] (Fin 2 → ℝ),
      HasFDerivAt (NetLogDet.coords 2 fun x => bnafTransform (LeakyTanh.transform (LeakyTanh.init 3)) bnafExample none x []) J v ∧
      0 < J.det ∧
      (bnafTransformAndLogDet (fun z => LeakyTanh.transform_and_log_det (LeakyTanh.init (3 : ℝ)) z) 2 1 bnafExample none
        (List.ofFn v) []).2 = some (Real.log |J.det|) := by
  obtain ⟨J, h1, h2, h3⟩ := bnaf_logdet_leakytanh (m := 3) (by norm_num) NetLawful.bnafExample_ok [] v
  exact ⟨J, h1, h2, by rw [h3]⟩

end NetworkLogDets

/-! ## generated Coupling / MaskedAutoregressive (`Gen/NetGen.lean`, regenerated from coupling.py / masked_autoregressive.py)

The log-det theorems restated on the GENERATED `transform_and_log_det` / `inverse_and_log_det` (see `Props/C01.lean`,
section `GeneratedNet`, for what is generated and the equalities `gen_coupling_eq_model` / `gen_maf_eq_model`).  The oracle
is the Fréchet derivative of the GENERATED `transform`. -/
section GeneratedNetLogDets
open Masks MasksPf Nw GenNet

/-- **`gen_coupling_logdet`** — for the generated `Coupling.transform` / `transform_and_log_det`: at every point `v ∈ ℝ^dim`
where the generated forward map is differentiable, `det J = ∏_{i ≥ d} T'ᵢ ≠ 0` and the returned log-det is `log |det J|`
(every conditioner function, split `d ≤ dim`, transformer family, `condition=None` or an array). -/
theorem gen_coupling_logdet (self : CouplingObj ℝ) (hdn : self.untransformed_dim ≤ self.dim) (c : Option (List ℝ))
    (v : Fin self.dim → ℝ) (J : (Fin self.dim → ℝ) →L[ℝ] (Fin self.dim → ℝ))
    (hJ : HasFDerivAt (NetLogDet.coords self.dim fun x => Coupling.transform self x c) J v)
    (dT : ℕ → ℝ)
    (hd : ∀ (i : Fin self.dim), self.untransformed_dim ≤ (i : ℕ) → ∀ ps : List ℝ,
      (reshapeRows (self.dim - self.untransformed_dim)
        (self.conditioner ((List.ofFn v).take self.untransformed_dim ++ c.getD [])))[(i : ℕ) - self.untransformed_dim]? = some ps →
      HasDerivAt (fun t => (self.transformer_constructor ps).fwd t ()) (dT i) (v i) ∧ dT i ≠ 0 ∧
        ((self.transformer_constructor ps).fwdLd (v i) ()).2 = Real.log |dT i|) :
    J.det = ∏ i : Fin self.dim, (if (i : ℕ) < self.untransformed_dim then 1 else dT i) ∧ J.det ≠ 0 ∧
      (Coupling.transformAndLogDet self (List.ofFn v) c).2 = Real.log |J.det| := by
  have hJ' := hJ
  rw [show (NetLogDet.coords self.dim fun x => Coupling.transform self x c) = _ from NetGenPf.gen_coupling_coords self c] at hJ'
  have h := NetLogDet.coupling_logdet self.untransformed_dim self.dim hdn self.conditioner self.transformer_constructor
    (c.getD []) v J hJ' dT hd
  have e := (NetGenPf.gen_coupling_eq_model self (List.ofFn v) c (by simp)).2.2.1
  exact ⟨h.1, h.2.1, by rw [← h.2.2]; exact congrArg Prod.snd e⟩

/-- **`gen_maf_logdet`** — for the generated `MaskedAutoregressive.transform` / `transform_and_log_det` on the object of
any well-shaped masked network: `det J = ∏ᵢ T'ᵢ ≠ 0` and the returned log-det is `log |det J|`. -/
theorem gen_maf_logdet (N : MafNet ℝ) (hN : N.WellShaped) (tf : List ℝ → Bij ℝ Unit ℝ) (c : Option (List ℝ))
    (v : Fin N.dim → ℝ) (J : (Fin N.dim → ℝ) →L[ℝ] (Fin N.dim → ℝ))
    (hJ : HasFDerivAt (NetLogDet.coords N.dim fun x => Maf.transform (MafObj.ofNet N tf) x c) J v)
    (d : Fin N.dim → ℝ)
    (hd : ∀ (i : Fin N.dim) (ps : List ℝ), (N.params (List.ofFn v) (c.getD []))[(i : ℕ)]? = some ps →
      HasDerivAt (fun t => (tf ps).fwd t ()) (d i) (v i) ∧ d i ≠ 0 ∧
        ((tf ps).fwdLd (v i) ()).2 = Real.log |d i|) :
    J.det = ∏ i, d i ∧ J.det ≠ 0 ∧ (Maf.transformAndLogDet (MafObj.ofNet N tf) (List.ofFn v) c).2 = Real.log |J.det| := by
  have hJ' := hJ
  rw [show (NetLogDet.coords N.dim fun x => Maf.transform (MafObj.ofNet N tf) x c) = _ from NetGenPf.gen_maf_coords N tf c] at hJ'
  have h := NetLogDet.maf_logdet N hN tf (c.getD []) v J hJ' d hd
  have e := (NetGenPf.gen_maf_eq_model N tf (List.ofFn v) c (by simp)).2.2.1
  exact ⟨h.1, h.2.1, by rw [← h.2.2]; exact congrArg Prod.snd e⟩

/-- generated `Coupling.inverse_and_log_det(transform(x))[1] = -transform_and_log_det(x)[1]` -/
theorem gen_coupling_ld_antisym (self : CouplingObj ℝ) (D₁ : Set ℝ)
    (htf : ∀ ps, (self.transformer_constructor ps).LdAntisym D₁) :
    (Coupling.toBij self).LdAntisym {x | x.length = self.dim ∧ ∀ t ∈ x.drop self.untransformed_dim, t ∈ D₁} := by
  intro x hx c
  have e := NetGenPf.gen_coupling_eq_model self x c hx.1
  have hlen : ((couplingBij self.untransformed_dim self.conditioner self.transformer_constructor).fwd x (c.getD [])).length
      = self.dim := (NetLawful.coupling_length' _ _ _ x _).trans hx.1
  have e' := NetGenPf.gen_coupling_eq_model self _ c hlen
  rw [e.1, e'.2.2.2, e.2.2.1]
  exact NetLogDet.coupling_ld_antisym self.untransformed_dim self.conditioner self.transformer_constructor D₁ htf x hx.2 _

/-- generated `MaskedAutoregressive.inverse_and_log_det`: minus the forward value at the preimage -/
theorem gen_maf_ld_antisym (N : MafNet ℝ) (hN : N.WellShaped) (tf : List ℝ → Bij ℝ Unit ℝ) (D₁ E₁ : Set ℝ)
    (htf : ∀ ps, (tf ps).Lawful D₁ E₁) :
    (Maf.toBij (MafObj.ofNet N tf)).LdAntisym {x | x.length = N.dim ∧ ∀ t ∈ x, t ∈ D₁} := by
  intro x hx c
  have e := NetGenPf.gen_maf_eq_model N tf x c hx.1
  have hlen : ((mafBij N tf).fwd x (c.getD [])).length = N.dim := NetLawful.transform_length N _ x _ hx.1
  have e' := NetGenPf.gen_maf_eq_model N tf _ c hlen
  rw [e.1, e'.2.2.2, e.2.2.1]
  exact NetLogDet.maf_ld_antisym N hN tf D₁ E₁ htf x hx _

/-- non-vacuity by kernel evaluation at `ℤ` (shift transformers: log-det 0): the generated `inverse_and_log_det` at the
image returns minus the generated forward log-det, coupling (conditional) and MAF -/
theorem gen_net_logdet_instance :
    (Coupling.inverseAndLogDet NetGenPf.couplingExampleZ (Coupling.transform NetGenPf.couplingExampleZ [2, 5, 7] (some [3])) (some [3])).2
      = -(Coupling.transformAndLogDet NetGenPf.couplingExampleZ [2, 5, 7] (some [3])).2 ∧
    (Maf.inverseAndLogDet (MafObj.ofNet NetGenPf.mafExampleZ NetGenPf.shiftFamilyZ)
        (Maf.transform (MafObj.ofNet NetGenPf.mafExampleZ NetGenPf.shiftFamilyZ) [3, 4] none) none)
      = ([3, 4], -(Maf.transformAndLogDet (MafObj.ofNet NetGenPf.mafExampleZ NetGenPf.shiftFamilyZ) [3, 4] none).2) := by
  decide

end GeneratedNetLogDets
/-! ## ===== END network bijections ===== -/

/-! ## Scan, REGENERATED (`Gen/JaxTransforms.lean`; meanings of `lax.scan` / `eqx.partition` / `eqx.combine`: `Model/JaxTrWorld.lean`) -/
section JaxTransformsGen
open GenJaxTr

/-- **chain rule for the generated `Scan`**: the log-det that the generated `Scan.transform_and_log_det` accumulates in its scan
carry (`log_det + log_det_i.sum()` from the initial `0`) is `log |derivative|` of the generated `Scan.transform`, for any number of
layers each correct on its own stage. -/
theorem gen_scan_ld {C : Type} {s : JaxTr.Scan ℝ C ℝ} {D E : Set ℝ}
    (h : LogDet.ChainAll Bij.LdCorrect s.bijection.layers D E) : s.toBij.LdCorrect D := JaxTrProofs.scan_ld h

/-- the generated `Scan.inverse_and_log_det` (`reverse=True`) returns minus the forward log-det at the preimage whenever every
layer does — any point type, any number of layers. -/
theorem gen_scan_ld_antisym {X C : Type} {s : JaxTr.Scan X C ℝ} {D E : Set X}
    (h : LogDet.ChainAll Bij.LdAntisym s.bijection.layers D E) : s.toBij.LdAntisym D := JaxTrProofs.scan_ld_antisym h

/-- non-vacuity: `Scan` of the stacked layers `Affine(1, −2)`, `Affine(1/2, 4)` -/
theorem gen_scan_ld_instance {C : Type} :
    (JaxTr.scanOfLayers [((Affine.mk 1 (-2) : Affine ℝ).toBij : Bij ℝ C ℝ), (Affine.mk (1/2) 4 : Affine ℝ).toBij]).toBij.LdCorrect univ
    ∧ (JaxTr.scanOfLayers [((Affine.mk 1 (-2) : Affine ℝ).toBij : Bij ℝ C ℝ), (Affine.mk (1/2) 4 : Affine ℝ).toBij]).toBij.LdAntisym univ :=
  ⟨gen_scan_ld (.cons (Leaves.affine_lawful _ (by norm_num)) (LogDet.affine_ld _ (by norm_num)).ldCorrect
      (.cons (Leaves.affine_lawful _ (by norm_num)) (LogDet.affine_ld _ (by norm_num)).ldCorrect (.nil _))),
   gen_scan_ld_antisym (.cons (Leaves.affine_lawful _ (by norm_num)) (LogDet.affine_ld_antisym _)
      (.cons (Leaves.affine_lawful _ (by norm_num)) (LogDet.affine_ld_antisym _) (.nil _)))⟩

/-- **log-det of the generated `Vmap`**: both `…_and_log_det` methods return `jnp.sum` of the per-call log-dets — call `i` being the
child method on (slice `i` of the bijection or the shared one, slice `i` of the input along axis 0, slice `i` of the condition or
the shared one) — i.e. the log-det of the block-diagonal Jacobian; every `in_axes`, `in_axes_condition`, axis size. -/
theorem gen_vmap_ld {κ : Type} [Inhabited κ] (v : JaxTr.Vmap κ ℝ) (x c : Arr κ) :
    (Vmap.transform_and_log_det v x c).2
      = JaxTr.jnpSum (JaxTr.zipWith3 (fun b xi ci => (b.fwdLd xi ci).2) (JaxTr.mapModule v.in_axes.1 v.bijection v.axis_size)
          (JaxTr.unstack x v.axis_size ((v.in_axes.2.1 : Nat) : Int)) (JaxTr.mapArg v.in_axes.2.2 c v.axis_size))
    ∧ (Vmap.inverse_and_log_det v x c).2
      = JaxTr.jnpSum (JaxTr.zipWith3 (fun b xi ci => (b.invLd xi ci).2) (JaxTr.mapModule v.in_axes.1 v.bijection v.axis_size)
          (JaxTr.unstack x v.axis_size ((v.in_axes.2.1 : Nat) : Int)) (JaxTr.mapArg v.in_axes.2.2 c v.axis_size)) := by
  have h := JaxTrProofs.vmap_slicewise v x c
  exact ⟨by rw [h.2.2.1], by rw [h.2.2.2]⟩

end JaxTransformsGen

/-! ## ===== BEGIN BnafGen (g15): the statements on the `BlockAutoregressiveNetwork` GENERATED from the source =====

`Gen/BnafGen.lean` is re-translated from `/repo/flowjax/bijections/block_autoregressive_network.py` on every run; `Proofs/BnafGen.lean`
proves it equal to the hand model.  `BnafGenPf.netOf A act dim bd Ls ljf condLinear inverter` is `unwrap(self)` of a network with
the layers `Ls`, ANY log-Jacobian closures `ljf` returning `L.logJac` on their own layer, activation methods `act` / `A`, any
inverter; `condition : Option (List ℝ)` is what the method receives (`hc`: a condition is passed exactly when there is a
`cond_linear` — what `_unwrap_check_and_cast` and the constructor guarantee). -/
section BnafGen
open Masks MasksPf BnafGenPf

/-- the generated `transform` equals the hand model for every scalar type, size, weight, condition and input -/
theorem gen_bnaf_transform_eq_model (A : ℝ → ℝ × ℝ) (act : ℝ → ℝ) (dim bd : ℕ) (Ls : List (BnafLayer ℝ)) (hne : Ls ≠ [])
    (ljf : BnafLayer ℝ → Bw.Linear ℝ → Bw.Blocks ℝ) (condLinear : Option (List (List ℝ)))
    (inverter : List ℝ → Option (List ℝ) → List ℝ) (x : List ℝ) (condition : Option (List ℝ))
    (hc : condition.isSome = condLinear.isSome) :
    GenBnaf.transform (netOf A act dim bd Ls ljf condLinear inverter) x condition
      = some (bnafTransform act Ls condLinear x (condition.getD [])) :=
  BnafGenPf.gen_bnaf_transform_eq_model A act dim bd Ls hne ljf condLinear inverter x condition hc

/-- the generated `transform_and_log_det` (fold over `enumerate(self.layers[:-1])`, `log_dets_3ds.append`, `reversed(log_dets_3ds[:-1])`
chained through the generated `logmatmulexp`, `.sum()`) equals the hand model `bnafTransformAndLogDet` -/
theorem gen_bnaf_fwdld_eq_model (A : ℝ → ℝ × ℝ) (act : ℝ → ℝ) {dim depth bd : ℕ} {Ls : List (BnafLayer ℝ)}
    {condLinear : Option (List (List ℝ))} (hok : NetLawful.BnafOK dim depth bd Ls condLinear)
    (ljf : BnafLayer ℝ → Bw.Linear ℝ → Bw.Blocks ℝ) (hljf : ∀ L ∈ Ls, ljf L (linOf L) = L.logJac)
    (inverter : List ℝ → Option (List ℝ) → List ℝ) (x : List ℝ) (condition : Option (List ℝ))
    (hc : condition.isSome = condLinear.isSome) :
    GenBnaf.transformAndLogDet (netOf A act dim bd Ls ljf condLinear inverter) x condition
      = some (bnafTransformAndLogDet A dim bd Ls condLinear x (condition.getD [])) :=
  BnafGenPf.gen_bnaf_fwdld_eq_model A act hok ljf hljf inverter x condition hc

/-- **`bnaf_logdet` on the GENERATED code**: the generated `transform` never fails and is a map `F`; at every point `v` the Fréchet
derivative `J` of `F` exists, `det J > 0`, and the generated `transform_and_log_det` returns `(F v, log |det J|)` — every `dim`,
depth, `block_dim ≥ 1`, all well-shaped weights, every condition, any activation with `act' > 0` reporting `log act'`. -/
theorem gen_bnaf_logdet (A : ℝ → ℝ × ℝ) (act : ℝ → ℝ) (hfst : ∀ z, (A z).1 = act z)
    (hact : ∀ z, DifferentiableAt ℝ act z ∧ 0 < deriv act z) (hld : ∀ z, (A z).2 = Real.log (deriv act z))
    {dim depth bd : ℕ} {Ls : List (BnafLayer ℝ)} {condLinear : Option (List (List ℝ))}
    (hok : NetLawful.BnafOK dim depth bd Ls condLinear)
    (ljf : BnafLayer ℝ → Bw.Linear ℝ → Bw.Blocks ℝ) (hljf : ∀ L ∈ Ls, ljf L (linOf L) = L.logJac)
    (inverter : List ℝ → Option (List ℝ) → List ℝ) (condition : Option (List ℝ))
    (hc : condition.isSome = condLinear.isSome) (v : Fin dim → ℝ) :
    ∃ F : List ℝ → List ℝ,
      (∀ x, GenBnaf.transform (netOf A act dim bd Ls ljf condLinear inverter) x condition = some (F x)) ∧
      ∃ J : (Fin dim → ℝ) →L[ℝ] (Fin dim → ℝ),
        HasFDerivAt (NetLogDet.coords dim F) J v ∧ 0 < J.det ∧
        GenBnaf.transformAndLogDet (netOf A act dim bd Ls ljf condLinear inverter) (List.ofFn v) condition
          = some (F (List.ofFn v), some (Real.log |J.det|)) := by
  refine ⟨fun x => bnafTransform act Ls condLinear x (condition.getD []), fun x =>
    BnafGenPf.gen_bnaf_transform_eq_model A act dim bd Ls (bnafOK_ne_nil hok) ljf condLinear inverter x condition hc, ?_⟩
  obtain ⟨J, h1, h2, h3⟩ := bnaf_logdet A act hfst hact hld hok (condition.getD []) v
  exact ⟨J, h1, h2, by rw [BnafGenPf.gen_bnaf_fwdld_eq_model A act hok ljf hljf inverter _ condition hc, h3]⟩

/-- **`bnaf_inverse_logdet` on the GENERATED code**: for EVERY inverter, whatever point `v` it returns, the generated
`inverse_and_log_det` returns `(v, -log |det J(v)|)`, `J` the Fréchet derivative of the generated forward map. -/
theorem gen_bnaf_inverse_logdet (A : ℝ → ℝ × ℝ) (act : ℝ → ℝ) (hfst : ∀ z, (A z).1 = act z)
    (hact : ∀ z, DifferentiableAt ℝ act z ∧ 0 < deriv act z) (hld : ∀ z, (A z).2 = Real.log (deriv act z))
    {dim depth bd : ℕ} {Ls : List (BnafLayer ℝ)} {condLinear : Option (List (List ℝ))}
    (hok : NetLawful.BnafOK dim depth bd Ls condLinear)
    (ljf : BnafLayer ℝ → Bw.Linear ℝ → Bw.Blocks ℝ) (hljf : ∀ L ∈ Ls, ljf L (linOf L) = L.logJac)
    (inverter : List ℝ → Option (List ℝ) → List ℝ) (y : List ℝ) (condition : Option (List ℝ))
    (hc : condition.isSome = condLinear.isSome) (v : Fin dim → ℝ) (hinv : inverter y condition = List.ofFn v) :
    GenBnaf.inverse (netOf A act dim bd Ls ljf condLinear inverter) y condition = List.ofFn v ∧
    ∃ F : List ℝ → List ℝ,
      (∀ x, GenBnaf.transform (netOf A act dim bd Ls ljf condLinear inverter) x condition = some (F x)) ∧
      ∃ J : (Fin dim → ℝ) →L[ℝ] (Fin dim → ℝ),
        HasFDerivAt (NetLogDet.coords dim F) J v ∧ 0 < J.det ∧
        GenBnaf.inverseAndLogDet (netOf A act dim bd Ls ljf condLinear inverter) y condition
          = some (List.ofFn v, some (-(Real.log |J.det|))) := by
  refine ⟨hinv, fun x => bnafTransform act Ls condLinear x (condition.getD []), fun x =>
    BnafGenPf.gen_bnaf_transform_eq_model A act dim bd Ls (bnafOK_ne_nil hok) ljf condLinear inverter x condition hc, ?_⟩
  obtain ⟨J, h1, h2, h3, _⟩ := bnaf_inverse_logdet A act hfst hact hld hok (fun y' _ => inverter y' condition) y
    (condition.getD []) v hinv
  exact ⟨J, h1, h2, by rw [BnafGenPf.gen_bnaf_invld_eq_model A act hok ljf hljf inverter y condition hc, h3]⟩

/-- the closure `linear_to_log_block_diagonal` the generated `block_autoregressive_linear` returns, applied to the unwrapped layer, is
the hand model's `BnafLayer.logJac` (every well-shaped layer, world, key) -/
theorem gen_block_logjac_eq_model {K : Type} (W : Bw.World K ℝ) (key : K) (L : BnafLayer ℝ) (hL : BnafWellShaped L) :
    (GenBnaf.blockAutoregressiveLinear W key L.n (L.b0, L.b1)).2 (linOf L) = L.logJac :=
  BnafGenPf.gen_block_logjac_eq_model W key L hL

/-- **`bnaf_logdet` on a network built ENTIRELY by generated code**: every layer's closure is the one the generated
`block_autoregressive_linear` returns (no hypothesis on closures left), the methods are the generated ones. -/
theorem gen_bnaf_logdet_constructed {K : Type} (W : Bw.World K ℝ) (key : BnafLayer ℝ → K)
    (A : ℝ → ℝ × ℝ) (act : ℝ → ℝ) (hfst : ∀ z, (A z).1 = act z)
    (hact : ∀ z, DifferentiableAt ℝ act z ∧ 0 < deriv act z) (hld : ∀ z, (A z).2 = Real.log (deriv act z))
    {dim depth bd : ℕ} {Ls : List (BnafLayer ℝ)} {condLinear : Option (List (List ℝ))}
    (hok : NetLawful.BnafOK dim depth bd Ls condLinear)
    (inverter : List ℝ → Option (List ℝ) → List ℝ) (condition : Option (List ℝ))
    (hc : condition.isSome = condLinear.isSome) (v : Fin dim → ℝ) :
    let N := netOf A act dim bd Ls (fun L => (GenBnaf.blockAutoregressiveLinear W (key L) L.n (L.b0, L.b1)).2) condLinear inverter
    ∃ F : List ℝ → List ℝ, (∀ x, GenBnaf.transform N x condition = some (F x)) ∧
      ∃ J : (Fin dim → ℝ) →L[ℝ] (Fin dim → ℝ),
        HasFDerivAt (NetLogDet.coords dim F) J v ∧ 0 < J.det ∧
        GenBnaf.transformAndLogDet N (List.ofFn v) condition = some (F (List.ofFn v), some (Real.log |J.det|)) :=
  gen_bnaf_logdet A act hfst hact hld hok _ (BnafGenPf.generated_closures_ok W key hok) inverter condition hc v

/-- the generated `_CallableToBijection.transform_and_log_det` is `(fn z, log |fn' z|)` — the activation record
`bnaf_logdet_callable` is about (the derivative `jax.grad` computes is a parameter of the translation) -/
theorem gen_callable_tald (fn : Bw.DFn ℝ) (z : ℝ) :
    GenBnaf.callableTransformAndLogDet ⟨fn⟩ z = (fn.f z, Real.log |fn.grad z|) ∧ GenBnaf.callableTransform ⟨fn⟩ z = fn.f z :=
  ⟨by simp [GenBnaf.callableTransformAndLogDet, Bw.valueAndGrad, RealInst.jabs_eq, RealInst.log_eq], rfl⟩

/-- non-vacuity: `MasksPf.bnafExample` (dim 2, depth 1, block_dim 1, weights of both signs) as a generated network with the
DEFAULT activation `LeakyTanh(3)` (generated methods) satisfies every hypothesis of `gen_bnaf_logdet` at every point. -/
theorem gen_bnaf_logdet_instance (v : Fin 2 → ℝ) :
    ∃ F : List ℝ → List ℝ, ∃ J : (Fin 2 → ℝ) →L[ℝ] (Fin 2 → ℝ),
      HasFDerivAt (NetLogDet.coords 2 F) J v ∧ 0 < J.det ∧
      GenBnaf.transformAndLogDet (netOf (fun z => LeakyTanh.transform_and_log_det (LeakyTanh.init (3 : ℝ)) z)
          (LeakyTanh.transform (LeakyTanh.init 3)) 2 1 bnafExample (fun L _ => L.logJac) none (fun y _ => y)) (List.ofFn v) none
        = some (F (List.ofFn v), some (Real.log |J.det|)) := by
  have hA := BnafLd.leakyTanh_actOK (m := 3) (by norm_num)
  obtain ⟨F, _, J, h1, h2, h3⟩ := gen_bnaf_logdet _ _ hA.1 hA.2 hA.3 NetLawful.bnafExample_ok (fun L _ => L.logJac)
    (fun _ _ => rfl) (fun y _ => y) none rfl v
  exact ⟨F, J, h1, h2, h3⟩

end BnafGen
/-! ## ===== END BnafGen ===== -/
section TriangularGen
/-! ## TriangularAffine REGENERATED (`Gen/TriangularGen.lean`): the log-determinant of the generated methods -/

/-- `triangular_ld` on the GENERATED `transform_and_log_det` / `inverse_and_log_det`: the forward map is differentiable everywhere
with Jacobian `A`, `det A = ∏ Aᵢᵢ ≠ 0`, and the returned `jnp.log(jnp.abs(jnp.diag(A))).sum()` is `log |det A|` — every `n`, both
orientations, diagonal of either sign. -/
theorem gen_triangular_ld {C : Type} {n : ℕ} {t : TriangularAffine ℝ} (h : TriPf.TriWF n (TriGenPf.toModel t)) :
    (TriGen.toBij t : Bij (List ℝ) C ℝ).LdCorrectVecWith n Set.univ (fun _ => TriPf.toMat n t.triangular) := by
  rw [TriGenPf.gen_toBij_eq]; exact TriPf.triangular_ld h

/-- the determinant is the product of the diagonal the generated log-det reads (`TriPrims.diag` = entries `Aᵢᵢ`) -/
theorem gen_triangular_det {n : ℕ} {t : TriangularAffine ℝ} (h : TriPf.TriWF n (TriGenPf.toModel t)) :
    (TriPf.toMat n t.triangular).det = ∏ i, TriPf.toMat n t.triangular i i ∧
      (∀ i : Fin n, TriPf.toMat n t.triangular i i ≠ 0) ∧
      (t.transform_and_log_det (List.replicate n 0)).2 = ∑ i : Fin n, Real.log |TriPf.toMat n t.triangular i i| := by
  refine ⟨h.det.1, h.det.2, ?_⟩
  rw [TriGenPf.gen_transform_and_log_det_eq]
  exact TriPf.logDet_eq h.sq.1

theorem gen_triangular_ld_antisym {C : Type} (t : TriangularAffine ℝ) (D : Set (List ℝ)) :
    (TriGen.toBij t : Bij (List ℝ) C ℝ).LdAntisym D := by
  rw [TriGenPf.gen_toBij_eq]; exact TriPf.triangular_ld_antisym _ D

/-- every accepted constructor call (generated `__init__`, then `unwrap`): log-det correct on all of `ℝⁿ` -/
theorem gen_triangular_init_ld {C : Type} {n : ℕ} (loc : List ℝ) (m : List (List ℝ)) (lower : Bool)
    (hsq : TriPf.Square n m) {s : TriangularAffineStored ℝ} (h : TriangularAffine.init loc (.mat m) lower = .ok s) :
    (TriGen.toBij (TriGen.unwrap s) : Bij (List ℝ) C ℝ).LdCorrectVec n Set.univ :=
  (gen_triangular_ld (TriGenPf.gen_init_wf loc m lower hsq h)).ldCorrectVec

/-- non-vacuity: `log|det|` of the generated log-det on `[[2, 1], [0, -3]]` (upper) is `log 2 + log 3` -/
theorem gen_triangular_ld_instance :
    (({ triangular := [[2, 1], [0, -3]], loc := [1, 5], lower := false } : TriangularAffine ℝ).transform_and_log_det [0, 0]).2
      = Real.log 2 + Real.log 3 := by
  simp [TriangularAffine.transform_and_log_det, TriPrims.diag, RealInst.jabs_eq, RealInst.log_eq, Jnp.sum]

end TriangularGen

/-! ## Audit (g27): non-vacuity instances for hypothesis sets that had none -/
section Audit
open Masks MasksPf Nw GenNet

/-- `Rqs.RqsWF` hypothesis of the three spline theorems is jointly satisfiable with the interior / outside side conditions:
the 3-bin spline `Rqs.exampleSpline` on `[-2, 2]` (boundary derivatives 2 and 3) at the interior KNOT `x = -1`, and at `x = 5`. -/
theorem rqs_ld_audit_instance :
    (HasDerivAt Rqs.exampleSpline.transform (Rqs.exampleSpline.derivative (-1)) (-1) ∧
      (Rqs.exampleSpline.transform_and_log_det (-1)).2 = Real.log |Rqs.exampleSpline.derivative (-1)|) ∧
    (HasDerivAt Rqs.exampleSpline.transform 1 5 ∧ (Rqs.exampleSpline.transform_and_log_det 5).2 = 0) ∧
    (Rqs.exampleSpline.toBij : Bij ℝ Unit ℝ).LdAntisym Set.univ := by
  have h := Rqs.rqsWF_instance
  obtain ⟨h1, _, h3⟩ := rqs_ld_interior h (-1) (by simp [Rqs.exampleSpline]) (by simp [Rqs.exampleSpline]; norm_num)
  exact ⟨⟨h1, h3⟩, rqs_ld_outside h (Or.inr (by simp [Rqs.exampleSpline]; norm_num)), rqs_ld_antisym h⟩

/-- `planar_tanh_ld` and `planar_ld_antisym`: hypotheses satisfiable with `w·u < 0` (so `get_act_scale` corrects `u`). -/
theorem planar_tanh_audit_instance (v : Fin 2 → ℝ) :
    (0 < (1 + Matrix.replicateCol Unit (VecLd.toVec 2 (⟨[1, -2], [4, 3], (7 : ℝ)⟩ : UnconditionalPlanar ℝ).get_act_scale) *
        Matrix.replicateRow Unit ((1 - Real.tanh (VecLd.toVec 2 [1, -2] ⬝ᵥ v + 7) ^ 2) • VecLd.toVec 2 [1, -2])).det) ∧
    (Planar.lreluBij (⟨[1, -2], [4, 3], (7 : ℝ)⟩ : UnconditionalPlanar ℝ) (1 / 2) : Bij (List ℝ) Unit ℝ).LdAntisym {x | x.length = 2} := by
  have hne : Jnp.dot [1, -2] [1, (-2 : ℝ)] ≠ 0 := by simp [ParamsPf.jdot_eq]; norm_num
  exact ⟨(planar_tanh_ld (n := 2) ⟨[1, -2], [4, 3], (7 : ℝ)⟩ rfl rfl hne v).2.2.1,
    planar_ld_antisym (n := 2) ⟨[1, -2], [4, 3], (7 : ℝ)⟩ rfl rfl hne (by norm_num) (by norm_num)⟩

/-- `triangular_of_raw_ld`, `gen_triangular_init_ld`: satisfiable (`Square 2`, negative raw diagonal parameter, broadcast `loc`). -/
theorem triangular_raw_ld_audit_instance :
    ((Tri.ofRaw true [-1, 2] [[5, 6], [7, 8]] [1, -1]).toBij : Bij (List ℝ) Unit ℝ).LdCorrectVec 2 Set.univ ∧
    ∃ s, TriangularAffine.init [3] (.mat [[1, 2], [3, (-4 : ℝ)]]) false = .ok s ∧
      (TriGen.toBij (TriGen.unwrap s) : Bij (List ℝ) Unit ℝ).LdCorrectVec 2 Set.univ := by
  have hsq : TriPf.Square 2 [[5, 6], [7, (8 : ℝ)]] := by constructor <;> simp
  have hsq' : TriPf.Square 2 [[1, 2], [3, (-4 : ℝ)]] := by constructor <;> simp
  obtain ⟨s, hs⟩ : ∃ s, TriangularAffine.init [3] (.mat [[1, 2], [3, (-4 : ℝ)]]) false = .ok s :=
    (TriGenPf.gen_init_accepts_iff _ _ _).mpr (by simp [TriPrims.NdArr.ndim, TriPrims.NdArr.shapeGet, TriPrims.NdArr.shape])
  exact ⟨triangular_of_raw_ld true _ _ _ hsq rfl rfl, s, hs, gen_triangular_init_ld _ _ _ hsq' hs⟩

/-- `coupling_affine_logdet`: `NetLogDet.CondDiff` is inhabited by a NON-LINEAR conditioner (`a ↦ a² + 1`), scale 2:
at every point the Jacobian exists and the returned log-det is `log |det J|` — no differentiability hypothesis left. -/
theorem coupling_affine_audit_instance (c : List ℝ) (v : Fin 2 → ℝ) :
    ∃ J : (Fin 2 → ℝ) →L[ℝ] (Fin 2 → ℝ),
      HasFDerivAt (NetLogDet.coords 2 fun x => (couplingBij 1 (fun l => l.map fun a => a * a + 1)
        (NetLogDet.affineFamily (fun ps => ps.getD 0 0) (fun _ => 2))).fwd x c) J v ∧ J.det ≠ 0 ∧
      ((couplingBij 1 (fun l => l.map fun a => a * a + 1)
        (NetLogDet.affineFamily (fun ps => ps.getD 0 0) (fun _ => 2))).fwdLd (List.ofFn v) c).2 = Real.log |J.det| := by
  have hc : NetLogDet.CondDiff 1 2 (fun l => l.map fun a => a * a + 1) (fun ps => ps.getD 0 0) (fun _ => 2) c := by
    intro k hk
    have hk0 : k = 0 := by omega
    subst hk0
    refine ⟨?_, differentiable_const _⟩
    have e : (fun w : Fin 2 → ℝ => (NetLogDet.rowAt 1 2 (fun l => l.map fun a => a * a + 1) c w 0).getD 0 0)
        = fun w => w 0 * w 0 + 1 := by
      funext w
      simp [NetLogDet.rowAt, reshapeRows, List.ofFn_succ, List.range_succ]
    rw [e]
    fun_prop
  obtain ⟨J, h1, _, h3, h4⟩ := coupling_affine_logdet 1 2 (by norm_num) _ _ _ (fun _ => by norm_num) c hc v
  exact ⟨J, h1, h3, h4⟩

/-- `logmatmulexp_spec`: hypotheses satisfiable with a `-inf` entry present (`k = 2`, one `none`), and the result is finite. -/
example :
    Gen.logmatmulexp (BnafLd.mkMat 1 2 fun _ _ => some (Real.log 3))
        (BnafLd.mkMat 2 1 fun l _ => if l = 0 then none else some 0)
      = BnafLd.mkMat 1 1 fun _ _ => some (Real.log (∑ l ∈ Finset.range 2, (3 : ℝ) * Jnp.Ext.exp (if l = 0 then none else some 0))) :=
  logmatmulexp_spec 1 2 1 (by norm_num) (fun _ _ => 3) (fun _ _ _ _ => by norm_num) _
    (fun j _ => ⟨1, by norm_num, by simp⟩)

/-- `bnaf_inverse_logdet`: `hinv` is satisfiable for any inverter returning a length-`dim` vector (here the identity). -/
theorem bnaf_inverse_logdet_audit_instance :
    ∃ J : (Fin 2 → ℝ) →L[ℝ] (Fin 2 → ℝ), 0 < J.det ∧
      bnafInverseAndLogDet (fun z => LeakyTanh.transform_and_log_det (LeakyTanh.init (3 : ℝ)) z) 2 1 bnafExample none
        (fun y _ => y) [1, -4] [] = (List.ofFn ![1, -4], some (-(Real.log |J.det|))) := by
  have hA := BnafLd.leakyTanh_actOK (m := 3) (by norm_num)
  obtain ⟨J, _, h2, h3, _⟩ := bnaf_inverse_logdet _ _ hA.1 hA.2 hA.3 NetLawful.bnafExample_ok (fun y _ => y) [1, -4] []
    ![1, -4] (by simp [List.ofFn_succ])
  exact ⟨J, h2, h3⟩

/-- `gen_coupling_logdet` (GENERATED `Coupling.transform` / `transform_and_log_det`) at `ℝ`: the hypotheses `hdn`, `hJ`, `hd` are jointly
satisfiable — conditional object on `ℝ²`, `d = 1`, non-linear conditioner `(a, c) ↦ (a²+1, c²+1)` (only row 0 is read), scale 2; at
every point, `condition = some [c₀]`: `det J = 2` and the generated method returns `log |det J|`. -/
theorem gen_coupling_logdet_audit_instance (v : Fin 2 → ℝ) (c0 : ℝ) :
    ∃ J : (Fin 2 → ℝ) →L[ℝ] (Fin 2 → ℝ),
      HasFDerivAt (NetLogDet.coords 2 fun x =>
        Coupling.transform (CouplingObj.mk' 1 2 (some 1) (fun l => l.map fun a => a * a + 1) NetLawful.exampleFamily) x (some [c0])) J v ∧
      J.det = 2 ∧
      (Coupling.transformAndLogDet (CouplingObj.mk' 1 2 (some 1) (fun l => l.map fun a => a * a + 1) NetLawful.exampleFamily)
        (List.ofFn v) (some [c0])).2 = Real.log |J.det| := by
  set self := CouplingObj.mk' 1 2 (some 1) (fun l : List ℝ => l.map fun a => a * a + 1) NetLawful.exampleFamily with hself
  have hF : (NetLogDet.coords 2 fun x => Coupling.transform self x (some [c0]))
      = fun w => ![w 0, w 1 * 2 + (w 0 * w 0 + 1)] := by
    have e := NetGenPf.gen_coupling_coords self (some [c0])
    have e' : (NetLogDet.coords 2 fun x => Coupling.transform self x (some [c0]))
        = NetLogDet.coords 2 (fun x => (couplingBij 1 (fun l : List ℝ => l.map fun a => a * a + 1) NetLawful.exampleFamily).fwd x [c0]) := e
    rw [e']
    funext w i
    fin_cases i <;>
      simp [NetLogDet.coords, nth, couplingBij, couplingTransform, NetLawful.exampleFamily, reshapeRows, Affine.toBij,
        Affine.transform, List.ofFn_succ, List.range_succ]
  have hdiff : DifferentiableAt ℝ (fun w : Fin 2 → ℝ => ![w 0, w 1 * 2 + (w 0 * w 0 + 1)]) v := by
    rw [differentiableAt_pi]
    intro i
    fin_cases i <;> simp <;> fun_prop
  have hJ : HasFDerivAt (NetLogDet.coords self.dim fun x => Coupling.transform self x (some [c0]))
      (fderiv ℝ (fun w : Fin 2 → ℝ => ![w 0, w 1 * 2 + (w 0 * w 0 + 1)]) v) v := by
    show HasFDerivAt (NetLogDet.coords 2 fun x => Coupling.transform self x (some [c0])) _ v
    rw [hF]; exact hdiff.hasFDerivAt
  obtain ⟨h1, _, h3⟩ := gen_coupling_logdet self (by simp [hself, CouplingObj.mk']) (some [c0]) v _ hJ (fun _ => 2)
    (fun i _ ps _ => NetLogDet.exampleFamily_ld ps (v i))
  refine ⟨_, hJ, h1.trans ?_, h3⟩
  show ∏ i : Fin 2, (if (i : ℕ) < 1 then (1 : ℝ) else 2) = 2
  simp [Fin.prod_univ_two]

end Audit
section BnafInitGen
open Masks MasksPf BnafGenPf BnafInitPf

/-- **`bnaf_logdet` with the GENERATED constructor instead of a hypothesis on the network** (`gen_bnaf_logdet_constructed` needed
`BnafOK` of the layers): let `N` be ANY object the generated `BlockAutoregressiveNetwork.__init__` returns — every key, `dim`,
`cond_dim`, `depth`, `block_dim ≥ 1`, inverter, every world that allocates arrays of the declared shapes (= all weight values) — whose
selected activation has `act' > 0` and reports `log act'`.  Then the generated `transform` of `unwrap(N)` never fails and is a map
`F`; at every `v` its Fréchet derivative `J` exists, `det J > 0`, and the generated `transform_and_log_det` returns
`(F v, log |det J|)`.  The condition is passed exactly when `cond_dim` was given. -/
theorem gen_bnaf_logdet_init {K : Type} (W : Bw.World K ℝ) (IW : Bw.InitWorld K ℝ) (hW : WorldShaped W IW) (key : K) (dim : Nat)
    (cond_dim : Option Nat) (depth bd : Nat) (hbd : 0 < bd) (activation : Option (Bw.ActArg ℝ))
    (inverter : Option (List ℝ → Option (List ℝ) → List ℝ)) (N : Bw.NetW ℝ)
    (h : GenBnafInit.init W IW key dim cond_dim depth bd activation inverter = .ok N)
    (hA : BnafLd.ActOK N.activation.methods.transform_and_log_det N.activation.methods.transform)
    (condition : Option (List ℝ)) (hc : condition.isSome = cond_dim.isSome) (v : Fin dim → ℝ) :
    ∃ F : List ℝ → List ℝ, (∀ x, GenBnaf.transform N.unwrap x condition = some (F x)) ∧
      ∃ J : (Fin dim → ℝ) →L[ℝ] (Fin dim → ℝ),
        HasFDerivAt (NetLogDet.coords dim F) J v ∧ 0 < J.det ∧
        GenBnaf.transformAndLogDet N.unwrap (List.ofFn v) condition = some (F (List.ofFn v), some (Real.log |J.det|)) := by
  obtain ⟨_, hN⟩ := gen_init_ok W IW key dim cond_dim depth bd activation inverter N h
  have hu := builtNet_unwrap W IW key dim cond_dim depth bd inverter N.activation
  rw [← hN] at hu
  rw [hu]
  exact gen_bnaf_logdet_constructed W (fun _ => key) _ _ hA.fst hA.diff hA.ld (built_bnafOK W IW hW key dim cond_dim depth bd hbd)
    _ condition (by rw [hc]; cases cond_dim <;> rfl) v

/-- the same for the DEFAULT arguments `activation=None`: the constructor cannot raise, selects the generated `LeakyTanh(3)`, and the
conclusion of `gen_bnaf_logdet_init` holds with no hypothesis on the activation left. -/
theorem gen_bnaf_logdet_init_default {K : Type} (W : Bw.World K ℝ) (IW : Bw.InitWorld K ℝ) (hW : WorldShaped W IW) (key : K)
    (dim : Nat) (cond_dim : Option Nat) (depth bd : Nat) (hbd : 0 < bd)
    (inverter : Option (List ℝ → Option (List ℝ) → List ℝ))
    (condition : Option (List ℝ)) (hc : condition.isSome = cond_dim.isSome) (v : Fin dim → ℝ) :
    ∃ N, GenBnafInit.init W IW key dim cond_dim depth bd none inverter = .ok N ∧
    ∃ F : List ℝ → List ℝ, (∀ x, GenBnaf.transform N.unwrap x condition = some (F x)) ∧
      ∃ J : (Fin dim → ℝ) →L[ℝ] (Fin dim → ℝ),
        HasFDerivAt (NetLogDet.coords dim F) J v ∧ 0 < J.det ∧
        GenBnaf.transformAndLogDet N.unwrap (List.ofFn v) condition = some (F (List.ofFn v), some (Real.log |J.det|)) := by
  have he := gen_init_eq W IW key dim cond_dim depth bd none inverter
  simp only [resolveAct, Except.map] at he
  refine ⟨_, he, gen_bnaf_logdet_init W IW hW key dim cond_dim depth bd hbd none inverter _ he ?_ condition hc v⟩
  exact BnafLd.leakyTanh_actOK (m := (3.0 : ℝ)) (by norm_num)

/-- non-vacuity: in the constant world of `C09.gen_bnaf_init_instance` shape (arrays of the declared shapes) the hypotheses of
`gen_bnaf_logdet_init_default` hold for `dim = 2`, `depth = 2`, `block_dim = 3`, `cond_dim = 1`. -/
theorem gen_bnaf_logdet_init_instance (v : Fin 2 → ℝ) :
    let W : Bw.World Nat ℝ := ⟨fun _ i o => ⟨List.replicate o (List.replicate i 1), List.replicate o 0⟩, fun t => List.replicate (rows t) 0⟩
    let IW : Bw.InitWorld Nat ℝ := ⟨⟨fun k n i => k * (n + 1) + i⟩, fun _ i o => ⟨List.replicate o (List.replicate i 1)⟩, fun y _ => y⟩
    ∃ N, GenBnafInit.init W IW 0 2 (some 1) 2 3 none none = .ok N ∧
      ∃ F : List ℝ → List ℝ, ∃ J : (Fin 2 → ℝ) →L[ℝ] (Fin 2 → ℝ), HasFDerivAt (NetLogDet.coords 2 F) J v ∧ 0 < J.det ∧
        GenBnaf.transformAndLogDet N.unwrap (List.ofFn v) (some [5]) = some (F (List.ofFn v), some (Real.log |J.det|)) := by
  intro W IW
  have hW : WorldShaped W IW :=
    ⟨fun k i o => ⟨by simp [W], by intro row hrow; simp [W] at hrow; rw [hrow.2]; simp⟩,
     fun k i o => by simp [W], fun t => by simp [W], fun k i o => by simp [IW]⟩
  obtain ⟨N, hN, F, _, J, h1, h2, h3⟩ := gen_bnaf_logdet_init_default W IW hW 0 2 (some 1) 2 3 (by norm_num) none (some [5]) rfl v
  exact ⟨N, hN, F, J, h1, h2, h3⟩

end BnafInitGen

end C02
