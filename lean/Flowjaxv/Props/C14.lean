import Flowjaxv.Proofs.Trace
import Flowjaxv.Gen.Trace
/-!
# C14 — every bijection and distribution method can be traced

"Under `jit` a method returns the same values as eagerly, under `vmap` the same as a Python loop, and
repeated calls with the same arguments return the same result."

JAX runs a method ONCE on abstract tracers (which carry only the static aspect: shape, dtype,
None-ness, pytree structure) and records the primitive operations along the control path taken.  That
is transparent exactly when no Python-level control decision depends on a traced VALUE.
`Model/Trace.lean` abstracts each method to its control-flow skeleton and defines the decidable
discipline `Trace.check`; `Model/TraceSem.lean` gives skeletons a concrete semantics `Trace.exec`
recording the control path; the theorems below (proved in `Proofs/Trace.lean`) are the soundness of
the discipline.  Property theorems only.

`Trace.Rel S Γ σ₁ σ₂ := ∀ v, (Γ v = .static → σ₁ v = σ₂ v) ∧ S.aspect (σ₁ v) = S.aspect (σ₂ v)`.
`Trace.EvOK S Γ` = the two assumptions on the expression evaluator (A1 static expressions are functions
of static data; A2 the static aspect of every expression's value is a function of static data); see
its docstring for what they trust.
`Trace.OutAgree S Γ o₁ o₂` = same constructor; `returned e₁ v₁`/`returned e₂ v₂` additionally
`e₁ = e₂ ∧ aspect v₁ = aspect v₂ ∧ (e₁.stage Γ = .static → v₁ = v₂)`.
-/
open Trace

namespace C14

variable {Val Aspect : Type}

/-- NONINTERFERENCE.  For ANY staging environment `Γ`, any skeleton whose control-flow tests are static
under `Γ` and whose assignments respect `Γ`, and any two stores agreeing on static data: for every
fuel, both runs exhaust the fuel or both finish, and then they took the same control path (branch
decisions, loop iteration counts, forced values, raises), their final stores still agree on static
data, and they ended the same way. -/
theorem noninterference {S : Sem Val Aspect} {Γ : Env} (hev : EvOK S Γ) {prog : List Stmt}
    (hok : okL Γ prog = true) (hcl : closed Γ (assignsL prog) = true)
    {σ₁ σ₂ : Store Val} (h : Rel S Γ σ₁ σ₂) (fuel : Nat) :
    match exec S fuel σ₁ prog, exec S fuel σ₂ prog with
    | some r₁, some r₂ =>
        r₁.path = r₂.path ∧ Rel S Γ r₁.store r₂.store ∧ OutAgree S Γ r₁.out r₂.out
    | none, none => True
    | _, _ => False :=
  Trace.noninterference hev hok hcl h fuel

/-- SOUNDNESS OF THE CHECKER.  If `check tracedParams prog` accepts, two runs from stores that agree on
every variable outside `tracedParams` and have the same static aspect everywhere (i.e. the traced
arguments may differ in value, not in shape/dtype/None-ness) are indistinguishable as above, for the
staging environment the checker computed. -/
theorem check_sound {S : Sem Val Aspect} {tracedParams : List String} {prog : List Stmt}
    (hchk : check tracedParams prog = true) (hev : EvOK S (stageEnv tracedParams prog))
    {σ₁ σ₂ : Store Val} (hval : ∀ v, v ∉ tracedParams → σ₁ v = σ₂ v)
    (hasp : ∀ v, S.aspect (σ₁ v) = S.aspect (σ₂ v)) (fuel : Nat) :
    match exec S fuel σ₁ prog, exec S fuel σ₂ prog with
    | some r₁, some r₂ =>
        r₁.path = r₂.path ∧ Rel S (stageEnv tracedParams prog) r₁.store r₂.store ∧
          OutAgree S (stageEnv tracedParams prog) r₁.out r₂.out
    | none, none => True
    | _, _ => False :=
  Trace.check_sound hchk hev hval hasp fuel

/-- TRACE REPLAY (jit = eager, vmap = loop).  The path recorded by one finished run of a checked
method — in particular the run on tracers — is the path of every run whose arguments have the same
static data; that run finishes with the same fuel, in the same way. -/
theorem trace_replay {S : Sem Val Aspect} {tracedParams : List String} {prog : List Stmt}
    (hchk : check tracedParams prog = true) (hev : EvOK S (stageEnv tracedParams prog))
    {σ₁ σ₂ : Store Val} (hval : ∀ v, v ∉ tracedParams → σ₁ v = σ₂ v)
    (hasp : ∀ v, S.aspect (σ₁ v) = S.aspect (σ₂ v)) {fuel : Nat} {r₁ : Result Val}
    (h₁ : exec S fuel σ₁ prog = some r₁) :
    ∃ r₂, exec S fuel σ₂ prog = some r₂ ∧ r₂.path = r₁.path ∧
      Rel S (stageEnv tracedParams prog) r₁.store r₂.store ∧
      OutAgree S (stageEnv tracedParams prog) r₁.out r₂.out := by
  simp only [check, Bool.and_eq_true] at hchk
  exact Trace.trace_replay hev hchk.2 hchk.1.2 (rel_of_agree_off_traced hchk.1.1 hval hasp) h₁

/-- a checked method never reaches a forbidden (`hazard`) statement -/
theorem checked_never_stuck {S : Sem Val Aspect} {tracedParams : List String} {prog : List Stmt}
    (hchk : check tracedParams prog = true) (fuel : Nat) (σ : Store Val) {r : Result Val}
    (h : exec S fuel σ prog = some r) : r.out.isStuck = false := by
  simp only [check, Bool.and_eq_true] at hchk
  exact Trace.ok_not_stuck hchk.2 fuel σ h

/-- PURITY (repeated calls with the same arguments return the same result): in the model a method is a
function of its store — there is no hidden state. -/
theorem deterministic (S : Sem Val Aspect) (fuel : Nat) {σ₁ σ₂ : Store Val} (prog : List Stmt)
    (h : ∀ v, σ₁ v = σ₂ v) : exec S fuel σ₁ prog = exec S fuel σ₂ prog :=
  Trace.deterministic S fuel prog h

/-- non-vacuity: the toy semantics satisfies A1/A2, a `Chain.transform`-like skeleton passes `check`,
`if x > 0` on a traced `x` fails it, and two stores differing in traced values take the same path
through the former and different paths through the latter -/
theorem noninterference_instance :
    (∀ Γ, EvOK Toy.sem Γ) ∧ check ["x", "condition"] Toy.good = true ∧ check ["x"] Toy.bad = false ∧
      (exec Toy.sem 3 Toy.σa Toy.good).map (·.path) = (exec Toy.sem 3 Toy.σb Toy.good).map (·.path) ∧
      (exec Toy.sem 3 Toy.σa Toy.bad).map (·.path) ≠ (exec Toy.sem 3 Toy.σb Toy.bad).map (·.path) :=
  ⟨Toy.toy_evOK, Toy.good_checks, Toy.bad_rejected, Toy.good_paths.1.trans Toy.good_paths.2.symm,
    Toy.bad_paths_differ⟩

/-! ### the table regenerated from /repo on every run (`Gen/Trace.lean`, tools/py2lean/tracegen.py) -/

/-- every bijection / distribution / wrapper / loss / inverter method of the source passes the discipline:
no Python-level branch, loop bound, assert or `bool()/int()/float()` conversion depends on a traced value;
no `global`/`nonlocal`, no mutation of `self` outside the constructor (the table IS the finite domain) -/
theorem all_methods_traceSafe : GenTrace.methods.all Method.traceSafe = true := by decide +kernel

/-- hence noninterference holds for EVERY method of the source: for any two argument stores that agree
off the traced parameters and on all static aspects, the control path, the static data and the way the
method finishes are the same — the path recorded on tracers is the path of every concrete call -/
theorem every_method_noninterferent {Val Aspect : Type} (S : Sem Val Aspect) (m : Method)
    (hm : m ∈ GenTrace.methods) (hS : EvOK S (stageEnv m.tracedParams m.body))
    {σ₁ σ₂ : Store Val} (hval : ∀ v, v ∉ m.tracedParams → σ₁ v = σ₂ v)
    (hasp : ∀ v, S.aspect (σ₁ v) = S.aspect (σ₂ v)) (fuel : Nat) :
    match exec S fuel σ₁ m.body, exec S fuel σ₂ m.body with
    | some r₁, some r₂ =>
        r₁.path = r₂.path ∧ Rel S (stageEnv m.tracedParams m.body) r₁.store r₂.store ∧
          OutAgree S (stageEnv m.tracedParams m.body) r₁.out r₂.out
    | none, none => True
    | _, _ => False := by
  have h := all_methods_traceSafe
  rw [List.all_eq_true] at h
  exact check_sound (h m hm) hS hval hasp fuel

/-- no field marked `static=True` in the pytree holds an array (otherwise a traced value would sit in
static data, be baked into compiled code and be lost by leaf serialisation) -/
theorem no_array_in_static :
    GenTrace.fields.all (fun f => !(f.markedStatic && f.kind == .array)) = true := by decide +kernel

/-- no constructor in the source stores a lambda / nested function into a field whose body uses an array- or module-valued
constructor argument (or such a field of `self`): all array state of a model is reachable as pytree LEAVES, which is what
flatten/unflatten and `tree_serialise_leaves` transport.  (The quantifier is the finite generated table.) -/
theorem no_state_hidden_in_closures : GenTrace.closureCaptures = [] := by decide

/-- the table is not empty: the four methods of `Affine`, `Chain`, the spline, the bisection loops … -/
theorem table_nonempty : 200 ≤ GenTrace.methods.length ∧
    GenTrace.methods.any (fun m => m.cls == "Chain" && m.name == "transform") = true := by decide +kernel

/-! ## Audit (g27): non-vacuity of the hypothesis sets used above -/
section Audit
/-- the hypothesis set of `every_method_noninterferent` is satisfiable on a GENERATED method with a non-degenerate
semantics, and the conclusion is not the `none, none => True` arm: for `Chain.transform` of the regenerated table under the
toy semantics (A1/A2 hold for it at every staging environment), both runs FINISH with fuel 20. -/
theorem every_method_audit_instance :
    ∃ m ∈ GenTrace.methods, m.cls = "Chain" ∧ m.name = "transform" ∧
      EvOK Toy.sem (stageEnv m.tracedParams m.body) ∧
      (exec Toy.sem 20 Toy.σa m.body).isSome = true ∧ (exec Toy.sem 20 Toy.σb m.body).isSome = true ∧
      (exec Toy.sem 20 Toy.σa m.body).map (·.path) = (exec Toy.sem 20 Toy.σb m.body).map (·.path) := by
  have hf : (GenTrace.methods.find? (fun m => m.cls == "Chain" && m.name == "transform")).isSome = true := by decide +kernel
  obtain ⟨m, hm⟩ := Option.isSome_iff_exists.mp hf
  have hmem := List.mem_of_find?_eq_some hm
  have hp := List.find?_some hm
  simp only [Bool.and_eq_true, beq_iff_eq] at hp
  refine ⟨m, hmem, hp.1, hp.2, Toy.toy_evOK _, ?_⟩
  have key : ∀ m' ∈ GenTrace.methods.find? (fun m => m.cls == "Chain" && m.name == "transform"),
      (exec Toy.sem 20 Toy.σa m'.body).isSome = true ∧ (exec Toy.sem 20 Toy.σb m'.body).isSome = true ∧
      (exec Toy.sem 20 Toy.σa m'.body).map (·.path) = (exec Toy.sem 20 Toy.σb m'.body).map (·.path) := by
    decide +kernel
  exact key m hm
end Audit

end C14
