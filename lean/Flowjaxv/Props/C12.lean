import Flowjaxv.Proofs.Tree
import Flowjaxv.Proofs.WrapGen
import Flowjaxv.Proofs.UnwrapGen
/-!
# C12 — unwrap applies every wrapper exactly once; frozen parameters never move

Property theorems only (lemmas in `Proofs/Tree.lean`), about the hand model `Model/Tree.lean`
(`PyTree.Tree`: `None` / array leaves / non-array leaves / containers / wrapper nodes of the five
`flowjax.wrappers` classes), which `tools/props/c12.py` ties to the real `flowjax.wrappers.unwrap`,
`eqx.partition(…, is_leaf = NonTrainable)`, `get_ravelled_pytree_constructor` and both training
loops.  Every statement is for ALL trees (any size, nesting depth, container width), ALL per-class
`.unwrap()` bodies `f` (subject only to the stated hypothesis), all update sequences, all vectors.

`WrapFree f` (`.unwrap()` bodies return wrapper-free values on wrapper-free arguments) is the one
semantic hypothesis of the first group; it is forced: a `Lambda` whose function *returns* a wrapper
leaves that wrapper in the result of the real `unwrap` too.

The section "generated bodies" instantiates the abstract `f` with the `.unwrap()` bodies GENERATED from
`/repo/flowjax/wrappers.py` on every run (`Gen/Wrappers.lean`, lifted to the model's array leaves in `Model/WrapGen.lean`)
and proves `WrapFree` and `SkUniform` for them, so the hypotheses of the first group are discharged for the real bodies.
-/
open PyTree

namespace C12
variable {α : Type}

/-- the result of `unwrap` contains no wrapper node — any nesting, any containers, any batch shapes -/
theorem unwrap_no_wrappers (f : WrapFn α) (hf : WrapFree f) (t : Tree α) :
    noWrap (unwrap f t) = true := unwrap_noWrap hf t

/-- `unwrap (unwrap t) = unwrap t` -/
theorem unwrap_idempotent (f : WrapFn α) (hf : WrapFree f) (t : Tree α) :
    unwrap f (unwrap f t) = unwrap f t := unwrap_idem hf t

/-- The instrumented run (a log to which each `.unwrap()` call appends its node's tag when it is
applied) returns the same tree as `unwrap` and logs exactly the wrapper nodes of `t` in post-order:
for every wrapper node, all wrappers below it (`wrapTagsL cs`) are logged — applied — before it is. -/
theorem unwrap_each_once (f : WrapFn α) (t : Tree α) (log : List Nat) :
    unwrapM f t log = (unwrap f t, log ++ wrapTags t) ∧
      (∀ k tag b cs, wrapTags (.wrap k tag b cs : Tree α) = wrapTagsL cs ++ [tag]) :=
  ⟨unwrapM_eq f t log, fun _ _ _ _ => by simp [wrapTags]⟩

/-- every tag is applied exactly as many times as there are wrapper nodes carrying it; with distinct
tags: every wrapper node exactly once, and nothing else is applied -/
theorem unwrap_each_once_count (f : WrapFn α) (t : Tree α) (x : Nat) :
    (unwrapCount f t).count x = (wrapTags t).count x ∧
      ((wrapTags t).Nodup → x ∈ wrapTags t → (unwrapCount f t).count x = 1) ∧
      (x ∉ wrapTags t → (unwrapCount f t).count x = 0) := by
  have e : unwrapCount f t = wrapTags t := by simp [unwrapCount, unwrapM_eq]
  rw [e]
  exact ⟨rfl, fun hnd hx => count_eq_one_of_nodup hnd hx, fun hx => List.count_eq_zero.mpr hx⟩

/-- unwrapping an already unwrapped tree applies nothing -/
theorem unwrap_second_pass_applies_nothing (f : WrapFn α) (hf : WrapFree f) (t : Tree α) :
    unwrapCount f (unwrap f t) = [] := by
  simp [unwrapCount, unwrapM_eq, wrapTags_of_noWrap _ (unwrap_noWrap hf t)]

/-- Vmapped construction, any number of levels: for a tree built under nested `eqx.filter_vmap`s of
axis sizes `ns` (outermost first; `WBs`, see `WB`), and every multi-index `is` inside `ns`, the
`is`-slice of the unwrapped batched tree is the unwrapped `is`-th individually built tree. -/
theorem unwrap_vmapped (f : WrapFn α) (ns is : List Nat) (t : Tree α) (hi : IdxLt is ns)
    (h : WBs f ns t) : sliceTs is (unwrap f t) = unwrap f (sliceTs is t) :=
  sliceTs_unwrap f ns is t hi h

/-- The same under one global hypothesis on the `.unwrap()` bodies instead of per-node clauses:
if the skeleton of `f`'s result depends only on the skeleton of its arguments (`SkUniform`, what
tracing guarantees), then for every tree whose arrays carry the batch axes `ns`, whose `_dummy` shapes
start with them, and whose `Where` / `WeightNormalization` nodes are batch-polymorphic (`WBgs`),
slicing commutes with `unwrap` at every multi-index. -/
theorem unwrap_vmapped_uniform (f : WrapFn α) (hf : SkUniform f) (ns is : List Nat) (t : Tree α)
    (hi : IdxLt is ns) (h : WBgs f ns t) : sliceTs is (unwrap f t) = unwrap f (sliceTs is t) :=
  sliceTs_unwrap f ns is t hi (WBs_of_WBgs hf ns t h)

/-- one level, one tree: slice `i` of the batched unwrap = unwrap of slice `i` -/
theorem unwrap_vmapped_slice (f : WrapFn α) (n i : Nat) (hi : i < n) (t : Tree α) (h : WB f n t) :
    sliceT i (unwrap f t) = unwrap f (sliceT i t) := sliceT_unwrap f hi t h

/-- stack form: a `BijectionReparam` / `Lambda` with `_dummy.shape = n :: b` unwraps to the leafwise
`jnp.stack` of the unwrapped values of the `n` individually built wrappers (`_dummy.shape = b`,
children sliced) — whatever is nested inside it -/
theorem unwrap_vmapped_stack (f : WrapFn α) (k : Kind) (hk : k = .reparam ∨ k = .lambda) (tag n : Nat)
    (hn : 0 < n) (b : List Nat) (cs : List (Tree α)) (h : WBL f n cs) :
    unwrap f (.wrap k tag (n :: b) cs) =
      stackF n (fun i => unwrap f (.wrap k tag b (sliceL i cs))) (unwrap f (.wrap k tag b (sliceL 0 cs))) :=
  unwrap_wrap_stack f k hk tag n hn b cs h

/-- `jnp.stack(xs)[i] = xs[i]` leafwise: the stack in `unwrap_vmapped_stack` determines and is
determined by its slices -/
theorem slice_of_stack (n i : Nat) (hi : i < n) (tm : Tree α) (g : Nat → Tree α)
    (h : ∀ m, m < n → Sk tm (g m) = true) : sliceT i (stackF n g tm) = g i :=
  sliceT_stackF hi tm g h

/-- a method defined as `g ∘ unwrap` (every bijection method through `_unwrap_check_and_cast`, every
distribution method through `self = unwrap(self)`, every loss) gives the same result whether or not
the caller unwrapped first -/
theorem method_unwrap_invariant {β : Type} (f : WrapFn α) (hf : WrapFree f) (g : Tree α → β) (t : Tree α) :
    (g ∘ unwrap f) (unwrap f t) = (g ∘ unwrap f) t := by
  simp [Function.comp, unwrap_idem hf t]

/-- `eqx.combine(*eqx.partition(t, is_inexact_array, is_leaf = NonTrainable)) = t` -/
theorem partition_combine (t : Tree α) : combine (partP t) (partS t) = t := combine_part t

/-- The array leaves of the `static` half are exactly the frozen leaves (every array under a
`NonTrainable` node, every non-inexact array); those of the `params` half are exactly the inexact
arrays under no `NonTrainable` node; no non-array leaf is in the `params` half; and the two lists
split the leaves of `t`. -/
theorem frozen_not_in_params (t : Tree α) :
    leaves (partS t) = frozenLeaves t ∧ leaves (partP t) = trainableLeaves t ∧
      (∀ l ∈ leaves (partP t), l.2.1 = true) ∧
      statics (partP t) = [] ∧ statics (partS t) = statics t ∧
      (leaves t).length = (trainableLeaves t).length + (frozenLeaves t).length :=
  ⟨leaves_partS t, leaves_partP t, fun l hl => trainable_inexact t l (leaves_partP t ▸ hl),
    statics_partP t, statics_partS t, leaves_length_split t⟩

/-- Both training loops return `combine (pₖ, static)` where `pₖ` is some iterate of
`p ← apply_updates(p, uᵢ)` started at the `params` half.  For EVERY sequence of update trees `us`
(any loss, data, optimiser, optimiser state, number of steps — `us.length` — and any `add`): if the
updates apply (`= some p'`; otherwise the real loop raises), the trained tree has the same `static`
half as `t` — hence the same frozen leaves, values included, and the same non-array leaves — and its
`params` half is exactly `p'`. -/
theorem frozen_bit_identical (add : Arr α → Arr α → Arr α) (t : Tree α) (us : List (Tree α)) (p' : Tree α)
    (h : train add (partP t) us = some p') :
    partS (combine p' (partS t)) = partS t ∧
      frozenLeaves (combine p' (partS t)) = frozenLeaves t ∧
      statics (combine p' (partS t)) = statics t ∧
      partP (combine p' (partS t)) = p' := by
  have hsk := train_Sk add us _ _ h
  have hS := partS_combine_of_Sk t p' hsk
  refine ⟨hS, ?_, ?_, partP_combine_of_Sk t p' hsk⟩
  · rw [← leaves_partS, hS, leaves_partS]
  · rw [← statics_partS, hS, statics_partS]

/-- `return_best`: the same for the iterate after any number `k` of the steps -/
theorem frozen_bit_identical_any_iterate (add : Arr α → Arr α → Arr α) (t : Tree α) (us : List (Tree α))
    (k : Nat) (p' : Tree α) (h : train add (partP t) (us.take k) = some p') :
    frozenLeaves (combine p' (partS t)) = frozenLeaves t ∧ statics (combine p' (partS t)) = statics t :=
  let r := frozen_bit_identical add t (us.take k) p' h
  ⟨r.2.1, r.2.2.1⟩

/-- `get_ravelled_pytree_constructor(t)`: `num_params` is the total size of the trainable leaves only
(frozen leaves are not parameterised by a coupling / autoregressive conditioner); for every `v` the
constructed tree has the `static` half — all frozen leaves — of `t`, and its parameters are exactly
`v + init`; and `constructor 0 = t` (for an addition with `0 + x = x`). -/
theorem conditioner_excludes_frozen (add : α → α → α) (t : Tree α) :
    numParams t = (flatLeaves (trainableLeaves t)).length ∧
      (∀ v t', constructor add t v = some t' →
        partS t' = partS t ∧ frozenLeaves t' = frozenLeaves t ∧ statics t' = statics t ∧
          ravel (partP t') = List.zipWith add v (ravel (partP t))) ∧
      (∀ v, (constructor add t v).isSome ↔ v.length = numParams t) ∧
      (∀ zero : α, (∀ x, add zero x = x) → constructor add t (List.replicate (numParams t) zero) = some t) := by
  refine ⟨by rw [numParams, ravel_eq_leaves, leaves_partP], ?_, ?_, ?_⟩
  · intro v t' h
    unfold constructor at h
    split at h
    · rename_i hlen
      simp only [Option.some.injEq] at h
      subst h
      have hsk := unravel_Sk (partP t) (List.zipWith add v (ravel (partP t)))
      have hS := partS_combine_of_Sk t _ hsk
      refine ⟨hS, ?_, ?_, ?_⟩
      · rw [← leaves_partS, hS, leaves_partS]
      · rw [← statics_partS, hS, statics_partS]
      · rw [partP_combine_of_Sk t _ hsk, (unravel_spec _ _).1]
        apply List.take_of_length_le
        simp [numParams] at hlen
        simp [hlen]
    · simp at h
  · intro v
    unfold constructor
    split <;> simp [*]
  · intro zero h0
    unfold constructor
    simp only [List.length_replicate, ↓reduceIte, numParams]
    rw [zipWith_zero_left h0]
    have := unravel_ravel (partP t) []
    simp only [List.append_nil] at this
    rw [this, combine_part]

/-! ## generated bodies: the abstract `.unwrap()` bodies instantiated from the source -/

section generated
variable {β : Type} [Add β] [Sub β] [Mul β] [Div β] [Neg β] [LT β] [LE β] [BEq β]
  [OfNat β 0] [OfNat β 1] [OfNat β 2] [OfNat β 4] [OfScientific β]
  [DecidableLT β] [DecidableLE β] [Transc β] [Inhabited β]

/-- `NonTrainable.unwrap` as translated (`eqx.partition(tree, is_array_like)`, `lax.stop_gradient` of the array half,
`eqx.combine`) is the identity on values for every lawful partition / combine pair; the model's own pair is lawful, and the
clause `Model/Tree.lean` uses for `NonTrainable` nodes is that generated body. -/
theorem gen_nontrainable_identity {τ : Type} (P : Wrappers.EqxPartition τ) (hP : P.Lawful) (t : τ)
    (f : WrapFn β) (tag : Nat) (b : List Nat) (c : Tree β) :
    (⟨t⟩ : Gen.Wr.NonTrainable τ).unwrap P = t ∧
    (treePartition : Wrappers.EqxPartition (Tree β)).Lawful ∧
    applyW f .nonTrainable tag b [c] = (⟨c⟩ : Gen.Wr.NonTrainable (Tree β)).unwrap treePartition :=
  ⟨gen_nonTrainable_identity P hP t, treePartition_lawful, applyW_nonTrainable_eq_gen f tag b c⟩

/-- `WrapFree` holds for the generated bodies (`PyTree.genWrapFn`): every bijection table, every scalar type, every `Lambda`
function that itself returns wrapper-free values on wrapper-free arguments. -/
theorem gen_wrapfn_wrapFree (bij : Nat → Bij β Unit β) (lam : Nat → List (Tree β) → Tree β)
    (hl : ∀ tag cs, noWrapL cs = true → noWrap (lam tag cs) = true) : WrapFree (genWrapFn bij lam) :=
  genWrapFn_wrapFree bij lam hl

/-- `SkUniform` holds for the generated bodies: the skeleton of the value depends only on the skeleton of the arguments -/
theorem gen_wrapfn_skUniform (bij : Nat → Bij β Unit β) (lam : Nat → List (Tree β) → Tree β)
    (hl : ∀ tag cs cs', SkL cs cs' = true → Sk (lam tag cs) (lam tag cs') = true) : SkUniform (genWrapFn bij lam) :=
  genWrapFn_skUniform bij lam hl

/-- the bodies are value-level functions of the wrapper's own (already unwrapped) leaves: `Where` over three arrays is the
elementwise generated `Where.unwrap` and keeps the identity of `if_true`; `WeightNormalization` over a weight matrix and a
`(rows, 1)` scale is the generated matrix-level body; `BijectionReparam` is the generated `unwrap` (the bijection's `transform`)
of every element; a `Lambda` is its function of the children. -/
theorem gen_wrapfn_values (bij : Nat → Bij β Unit β) (lam : Nat → List (Tree β) → Tree β) (tag : Nat)
    (i1 i2 i3 : Nat) (x1 x2 x3 : Bool) (c a b : Arr β) (cl al : List β) (v : β) (W S : List (List β)) (cs : List (Tree β)) :
    genWrapFn bij lam .whereK tag [.arr i1 x1 c, .arr i2 x2 a, .arr i3 x3 b] = .arr i2 x2 (whereArr c a b) ∧
    whereArr (.base cl) (.base al) (.base [v])
      = .base (List.zipWith (fun c a => (⟨c != 0, a, v⟩ : Gen.Wr.Where β).unwrap) cl al) ∧
    genWrapFn bij lam .weightNorm tag [.arr i1 x1 (Arr.ofMatrix W), .arr i2 x2 (Arr.ofMatrix S)]
      = .arr i1 x1 (Arr.ofMatrix (Gen.Wr.WeightNormalization.unwrap ⟨W, colOf S⟩)) ∧
    genWrapFn bij lam .reparam tag [.arr i1 x1 a, .static i2]
      = .arr i1 x1 (a.map fun x => (⟨x, bij i2⟩ : Gen.Wr.BijectionReparam β β).unwrap) ∧
    genWrapFn bij lam .lambda tag cs = lam tag cs := by
  refine ⟨rfl, whereArr_base_scalar cl al v, ?_, rfl, rfl⟩
  rw [genWrapFn_weightNorm, wnArr_matrix]

/-- hence the first group of theorems holds for the generated bodies without any hypothesis on them: the result of `unwrap` has no
wrapper node, `unwrap` is idempotent, a second pass applies nothing — every tree, every bijection table, every well-behaved
`Lambda` function. -/
theorem gen_unwrap_no_wrappers (bij : Nat → Bij β Unit β) (lam : Nat → List (Tree β) → Tree β)
    (hl : ∀ tag cs, noWrapL cs = true → noWrap (lam tag cs) = true) (t : Tree β) :
    noWrap (unwrap (genWrapFn bij lam) t) = true ∧
    unwrap (genWrapFn bij lam) (unwrap (genWrapFn bij lam) t) = unwrap (genWrapFn bij lam) t ∧
    unwrapCount (genWrapFn bij lam) (unwrap (genWrapFn bij lam) t) = [] :=
  have hf := genWrapFn_wrapFree bij lam hl
  ⟨unwrap_no_wrappers _ hf t, unwrap_idempotent _ hf t, unwrap_second_pass_applies_nothing _ hf t⟩

/-- and slicing commutes with `unwrap` for the generated bodies under the batch-shape conditions `WBgs` alone -/
theorem gen_unwrap_vmapped (bij : Nat → Bij β Unit β) (lam : Nat → List (Tree β) → Tree β)
    (hl : ∀ tag cs cs', SkL cs cs' = true → Sk (lam tag cs) (lam tag cs') = true)
    (ns is : List Nat) (t : Tree β) (hi : IdxLt is ns) (h : WBgs (genWrapFn bij lam) ns t) :
    sliceTs is (unwrap (genWrapFn bij lam) t) = unwrap (genWrapFn bij lam) (sliceTs is t) :=
  unwrap_vmapped_uniform _ (genWrapFn_skUniform bij lam hl) ns is t hi h

/-- the hypotheses on the `Lambda` function are satisfiable (a `Lambda` returning the tuple of its arguments) -/
theorem gen_wrapfn_instance (bij : Nat → Bij β Unit β) :
    WrapFree (genWrapFn bij fun _ cs => .node cs) ∧ SkUniform (genWrapFn bij fun _ cs => .node cs) :=
  ⟨genWrapFn_wrapFree bij _ (fun _ cs h => by simpa [noWrap] using h),
    genWrapFn_skUniform bij _ (fun _ cs cs' h => by simpa [Sk] using h)⟩

end generated

/-! ## non-vacuity: the wrapper nest of `block_autoregressive_linear` (BNAF), a vmapped nest -/

/-- an `.unwrap()` body for the instances: computing wrappers return a fresh float array named after
the node -/
def symF : WrapFn Int := fun _ tag _ => .arr (1000 + tag) true (.base [])

theorem symF_wrapFree : WrapFree symF := fun _ _ _ _ => by simp [symF, noWrap]

theorem symF_skUniform : SkUniform symF := fun _ _ _ _ _ => by simp [symF, Sk]

/-- `Where(tril_mask, W, 0)` (tag 4; mask id 11 is a bool array, `W` id 12 has 4 entries) -/
def bnafInner : Tree Int :=
  .wrap .whereK 4 [] [.arr 11 false (.base [1, 0, 1, 1]), .arr 12 true (.base [5, -3, 2, 7]), .static 0]

/-- `linear.weight = WeightNormalization(Where(diag_mask, BijectionReparam(Where(tril_mask, W, 0),
SoftPlus()), Where(tril_mask, W, 0)))` with `scale = BijectionReparam(scale_init, SoftPlus())`, inside
an `eqx.nn.Linear` with a bias — as built by `block_autoregressive_linear` -/
def bnafLinear : Tree Int :=
  .node [
    .wrap .weightNorm 1 [] [
      .wrap .whereK 2 [] [.arr 10 false (.base [1, 0, 0, 1]),
        .wrap .reparam 3 [] [bnafInner, .node []],
        bnafInner],
      .wrap .reparam 5 [] [.arr 13 true (.base [1, 1]), .node []]],
    .arr 14 true (.base [0, 0]),
    .static 1]

/-- the instrumented run on the BNAF nest: inner `Where` (twice — it occurs at two positions), then
the reparameterisation, the outer `Where`, the scale's reparameterisation, and weight-norm last;
the result is wrapper-free; the masks are frozen; 4 + 4 + 2 + 2 parameters -/
theorem bnaf_instance :
    unwrapCount symF bnafLinear = [4, 3, 4, 2, 5, 1] ∧
      unwrap symF bnafLinear = .node [.arr 1001 true (.base []), .arr 14 true (.base [0, 0]), .static 1] ∧
      (frozenLeaves bnafLinear).map (·.1) = [10, 11, 11] ∧
      (trainableLeaves bnafLinear).map (·.1) = [12, 12, 13, 14] ∧
      numParams bnafLinear = 12 := by
  refine ⟨?_, ?_, ?_, ?_, ?_⟩ <;> rfl

/-- freezing the whole weight (`NonTrainable(weight)`): only the bias is trained, and whatever the
optimiser does to it, the frozen leaves keep their values -/
def bnafFrozen : Tree Int :=
  .node [.wrap .nonTrainable 9 [] [bnafLinear.child 0], .arr 14 true (.base [0, 0]), .static 1]

theorem bnaf_frozen_instance :
    (trainableLeaves bnafFrozen).map (·.1) = [14] ∧ numParams bnafFrozen = 2 ∧
      train (fun a _ => a) (partP bnafFrozen) [.node [.none, .arr 0 true (.base [3, 4]), .none]] =
        some (.node [.none, .arr 14 true (.base [0, 0]), .none]) ∧
      (wrapTags bnafFrozen) = [4, 3, 4, 2, 5, 1, 9] := by
  refine ⟨?_, ?_, ?_, ?_⟩ <;> rfl

/-- `.unwrap()` bodies that really compute: `Lambda` negates its array argument, `BijectionReparam`
doubles it (a stand-in for `bijection.transform`) -/
def negF : WrapFn Int := fun k tag cs =>
  match k, cs with
  | .lambda, [.arr id ix (.base d)] => .arr id ix (.base (d.map fun x => -x))
  | .reparam, [.arr id ix (.base d), _] => .arr id ix (.base (d.map fun x => 2 * x))
  | _, _ => .arr (1000 + tag) true (.base [])

/-- `BijectionReparam(Lambda(neg, x), b)` built under two nested `filter_vmap`s of sizes 2 and 3 -/
def vmapNest : Tree Int :=
  .wrap .reparam 1 [2, 3] [
    .wrap .lambda 2 [2, 3] [.arr 7 true (.batch [.batch [.base [1], .base [2], .base [3]],
                                                   .batch [.base [4], .base [5], .base [6]]])],
    .node []]

theorem vmap_instance :
    unwrap negF vmapNest = .arr 7 true (.batch [.batch [.base [-2], .base [-4], .base [-6]],
                                                 .batch [.base [-8], .base [-10], .base [-12]]]) ∧
      sliceTs [1, 2] (unwrap negF vmapNest) = .arr 7 true (.base [-12]) ∧
      unwrap negF (sliceTs [1, 2] vmapNest) = .arr 7 true (.base [-12]) := by
  refine ⟨?_, ?_, ?_⟩ <;> rfl

/-- the hypotheses of `unwrap_vmapped` are satisfiable by a nested, two-level vmapped tree -/
theorem vmap_instance_WBs : WBs negF [2, 3] vmapNest ∧ IdxLt [1, 2] [2, 3] := by
  refine ⟨?_, by simp [IdxLt]⟩
  simp only [WBs, vmapNest]
  refine ⟨?_, forall_lt_two ⟨?_, forall_lt_three trivial trivial trivial⟩
    ⟨?_, forall_lt_three trivial trivial trivial⟩⟩
  · simp only [WB, WBL, and_true]
    exact ⟨⟨⟨_, rfl, rfl⟩, _, rfl, forall_lt_two rfl rfl⟩, _, rfl, forall_lt_two rfl rfl⟩
  · simp only [sliceT, sliceL, WB, WBL, and_true, List.tail_cons, Arr.slice, List.getD_cons_zero]
    exact ⟨⟨⟨_, rfl, rfl⟩, _, rfl, forall_lt_three rfl rfl rfl⟩, _, rfl, forall_lt_three rfl rfl rfl⟩
  · simp only [sliceT, sliceL, WB, WBL, and_true, List.tail_cons, Arr.slice]
    exact ⟨⟨⟨_, rfl, rfl⟩, _, rfl, forall_lt_three rfl rfl rfl⟩, _, rfl, forall_lt_three rfl rfl rfl⟩

/-! ## the TRAVERSAL regenerated from the source (`Gen/UnwrapGen.lean`; lemmas in `Proofs/UnwrapGen.lean`)

`unwrap`, `AbstractUnwrappable.recursive_unwrap` (nested `vectorized_unwrap` / `v_unwrap`, the `for dim in reversed(_dummy.shape)` loop of
`eqx.filter_vmap`s), `non_trainable` and the `eqx.partition(…, is_leaf = NonTrainable)` statements of `fit_to_data` /
`fit_to_variational_target` are re-translated from `/repo` on every run (`tools/py2lean/py2meth.py`, sheet `targets_unwrap.py`) over the
library meanings of `Model/UnwrapWorld.lean`; `genUnwrap` ties the recursion `unwrap → recursive_unwrap → unwrap` (`Model/UnwrapKnot.lean`).
The theorems of the first groups are restated on these generated definitions. -/

section UnwrapGen

/-- generated traversal = hand model: for EVERY tree (any nesting depth, container width, number of batch levels), every per-class
`.unwrap()` body `f`: the generated `unwrap` is `PyTree.unwrap`, with every amount of fuel that covers the nesting depth (so the value
is the one the terminating Python recursion computes); the generated `recursive_unwrap` of a wrapper node is the model's clause for it;
and the generated `vectorized_unwrap` of a wrapper whose children are `cs` is `applyW` — for a class with a `_dummy` of shape `b` one
`filter_vmap` level per entry of `b`, outermost axis first (`applyB`). -/
theorem gen_traversal_eq_model (f : WrapFn α) (t : Tree α) :
    genUnwrap f t = unwrap f t ∧
    (∀ n, wdepth t ≤ n → unwrapFuel f n t = genUnwrap f t) ∧
    (∀ k tag b cs, genRecursiveUnwrap f (.wrap k tag b cs) = unwrap f (.wrap k tag b cs)) ∧
    (∀ (W : UnwrapW.World α) k tag b cs,
      GenUnwrap.recursiveUnwrap_vectorizedUnwrap W (.wrap k tag b cs) = applyW W.body k tag b cs) :=
  ⟨genUnwrap_eq f t, fun n h => genUnwrap_fuel_stable f t n h, genRecursiveUnwrap_eq f, vectorizedUnwrap_eq⟩

/-- the result of the GENERATED `unwrap` contains no wrapper node -/
theorem gen_traversal_no_wrappers (f : WrapFn α) (hf : WrapFree f) (t : Tree α) :
    noWrap (genUnwrap f t) = true := by
  rw [genUnwrap_eq]; exact unwrap_noWrap hf t

/-- the GENERATED `unwrap` is idempotent -/
theorem gen_traversal_idempotent (f : WrapFn α) (hf : WrapFree f) (t : Tree α) :
    genUnwrap f (genUnwrap f t) = genUnwrap f t := by
  simp only [genUnwrap_eq]; exact unwrap_idem hf t

/-- the GENERATED `unwrap` returns the tree of the instrumented run that applies every wrapper node of `t` exactly once, children
before parents (the log is `wrapTags t`, post-order; with distinct tags every tag occurs once), and a second generated pass over the
result applies nothing. -/
theorem gen_traversal_each_once (f : WrapFn α) (hf : WrapFree f) (t : Tree α) (log : List Nat) (x : Nat) :
    unwrapM f t log = (genUnwrap f t, log ++ wrapTags t) ∧
      ((wrapTags t).Nodup → x ∈ wrapTags t → (unwrapM f t []).2.count x = 1) ∧
      wrapTags (genUnwrap f t) = [] := by
  refine ⟨by rw [genUnwrap_eq]; exact unwrapM_eq f t log, fun hnd hx => ?_, ?_⟩
  · rw [unwrapM_eq]; simpa using count_eq_one_of_nodup hnd hx
  · rw [genUnwrap_eq]; exact wrapTags_of_noWrap _ (unwrap_noWrap hf t)

/-- vmapped construction, any number of levels, on the GENERATED `unwrap` (whose `vectorized_unwrap` loop builds the nest of
`filter_vmap`s): the `is`-slice of the unwrapped batched tree is the unwrapped `is`-th individually built tree. -/
theorem gen_traversal_vmapped (f : WrapFn α) (ns is : List Nat) (t : Tree α) (hi : IdxLt is ns) (h : WBs f ns t) :
    sliceTs is (genUnwrap f t) = genUnwrap f (sliceTs is t) := by
  simp only [genUnwrap_eq]; exact sliceTs_unwrap f ns is t hi h

/-- generated traversal over the generated per-class bodies (nothing hand-modelled but the library meanings): wrapper-free and
idempotent for every tree, bijection table and well-behaved `Lambda` function; slicing commutes under the batch-shape conditions. -/
theorem gen_traversal_gen_bodies {β : Type} [Add β] [Sub β] [Mul β] [Div β] [Neg β] [LT β] [LE β] [BEq β]
    [OfNat β 0] [OfNat β 1] [OfNat β 2] [OfNat β 4] [OfScientific β] [DecidableLT β] [DecidableLE β] [Transc β] [Inhabited β]
    (bij : Nat → Bij β Unit β) (lam : Nat → List (Tree β) → Tree β)
    (hl : ∀ tag cs, noWrapL cs = true → noWrap (lam tag cs) = true)
    (hs : ∀ tag cs cs', SkL cs cs' = true → Sk (lam tag cs) (lam tag cs') = true) (t : Tree β) :
    noWrap (genUnwrap (genWrapFn bij lam) t) = true ∧
    genUnwrap (genWrapFn bij lam) (genUnwrap (genWrapFn bij lam) t) = genUnwrap (genWrapFn bij lam) t ∧
    (∀ ns is, IdxLt is ns → WBgs (genWrapFn bij lam) ns t →
      sliceTs is (genUnwrap (genWrapFn bij lam) t) = genUnwrap (genWrapFn bij lam) (sliceTs is t)) := by
  have hf := genWrapFn_wrapFree bij lam hl
  refine ⟨gen_traversal_no_wrappers _ hf t, gen_traversal_idempotent _ hf t, fun ns is hi h => ?_⟩
  exact gen_traversal_vmapped _ ns is t hi (WBs_of_WBgs (genWrapFn_skUniform bij lam hs) ns t h)

/-- generated `non_trainable` = the hand model `nonTrainableT` (every inexact array not already under a `NonTrainable` gets its own
`NonTrainable` node); afterwards NO leaf is trainable and every array leaf of `t` is frozen, in the same order. -/
theorem gen_non_trainable_spec (t : Tree α) :
    GenUnwrap.nonTrainable t = nonTrainableT t ∧
    trainableLeaves (GenUnwrap.nonTrainable t) = [] ∧
    frozenLeaves (GenUnwrap.nonTrainable t) = leaves t ∧
    leaves (GenUnwrap.fitToDataPartition (GenUnwrap.nonTrainable t)).1 = [] := by
  refine ⟨genNonTrainable_eq t, ?_, ?_, ?_⟩
  · rw [genNonTrainable_eq]; exact trainable_nonTrainableT t
  · rw [genNonTrainable_eq]; exact frozen_nonTrainableT t
  · rw [(genPartition_eq _).1, genNonTrainable_eq]
    simp only [leaves_partP, trainable_nonTrainableT]

/-- the partition statement of BOTH training loops (and of `get_ravelled_pytree_constructor` at its default filter), as generated: its halves are the model's `partP` / `partS`; the array leaves of
the `static` half are exactly the frozen leaves (everything under a `NonTrainable`, every non-inexact array), those of the `params`
half exactly the inexact arrays under no `NonTrainable`; no frozen leaf and no non-array leaf is in the `params` half; `combine` of the
halves is the tree. -/
theorem gen_partition_frozen_not_in_params (part : Tree α → Tree α × Tree α)
    (hp : part = GenUnwrap.fitToDataPartition ∨ part = GenUnwrap.fitToVariationalTargetPartition ∨
      part = fun t => GenUnwrap.ravelledConstructorPartition t UnwrapW.isInexactArray) (t : Tree α) :
    part t = (partP t, partS t) ∧
    leaves (part t).2 = frozenLeaves t ∧ leaves (part t).1 = trainableLeaves t ∧
      (∀ l ∈ leaves (part t).1, l.2.1 = true) ∧ statics (part t).1 = [] ∧
      (leaves t).length = (leaves (part t).1).length + (leaves (part t).2).length ∧
      combine (part t).1 (part t).2 = t := by
  have e : part t = (partP t, partS t) := by
    rcases hp with rfl | rfl | rfl
    · exact (genPartition_eq t).1
    · exact (genPartition_eq t).2.1
    · exact (genPartition_eq t).2.2
  rw [e]
  refine ⟨rfl, leaves_partS t, leaves_partP t, fun l hl => trainable_inexact t l (leaves_partP t ▸ hl), statics_partP t, ?_,
    combine_part t⟩
  simp only [leaves_partP, leaves_partS]; exact leaves_length_split t

/-- training from the GENERATED partition: for every sequence of update trees applied to the generated `params` half, the tree the loop
returns (`combine (p', static)`) has the frozen leaves of `t` with their values, the same non-array leaves, and re-partitioning it
with the generated statement gives back `p'` and the unchanged `static` half. -/
theorem gen_frozen_bit_identical (part : Tree α → Tree α × Tree α)
    (hp : part = GenUnwrap.fitToDataPartition ∨ part = GenUnwrap.fitToVariationalTargetPartition ∨
      part = fun t => GenUnwrap.ravelledConstructorPartition t UnwrapW.isInexactArray)
    (add : Arr α → Arr α → Arr α) (t : Tree α) (us : List (Tree α)) (p' : Tree α)
    (h : train add (part t).1 us = some p') :
    frozenLeaves (combine p' (part t).2) = frozenLeaves t ∧
      statics (combine p' (part t).2) = statics t ∧
      part (combine p' (part t).2) = (p', (part t).2) := by
  have e : ∀ u, part u = (partP u, partS u) := by
    intro u
    rcases hp with rfl | rfl | rfl
    · exact (genPartition_eq u).1
    · exact (genPartition_eq u).2.1
    · exact (genPartition_eq u).2.2
  rw [e t] at h ⊢
  have r := frozen_bit_identical add t us p' h
  exact ⟨r.2.1, r.2.2.1, by rw [e, r.1, r.2.2.2]⟩

/-- non-vacuity by kernel evaluation of the GENERATED definitions: the two-level vmapped nest `BijectionReparam(Lambda(neg, x), b)`
(`_dummy.shape = (2, 3)`) unwraps to `-2x` leafwise with fuel 2 (its nesting depth) and the slice/unwrap square commutes at index
`[1, 2]`; the BNAF nest unwraps wrapper-free; generated `non_trainable` of the BNAF layer leaves nothing trainable; the generated
partition of the frozen BNAF layer puts only the bias (id 14) in `params`. -/
theorem gen_traversal_instance :
    wdepth vmapNest = 2 ∧
    genUnwrap negF vmapNest = .arr 7 true (.batch [.batch [.base [-2], .base [-4], .base [-6]],
                                                     .batch [.base [-8], .base [-10], .base [-12]]]) ∧
    sliceTs [1, 2] (genUnwrap negF vmapNest) = genUnwrap negF (sliceTs [1, 2] vmapNest) ∧
    genUnwrap symF bnafLinear = .node [.arr 1001 true (.base []), .arr 14 true (.base [0, 0]), .static 1] ∧
    (leaves (GenUnwrap.fitToVariationalTargetPartition bnafFrozen).1).map (·.1) = [14] ∧
    (leaves (GenUnwrap.fitToDataPartition bnafFrozen).2).map (·.1) = [10, 11, 12, 11, 12, 13] ∧
    (leaves (GenUnwrap.fitToDataPartition (GenUnwrap.nonTrainable bnafLinear)).1).map (·.1) = [] := by
  refine ⟨?_, ?_, ?_, ?_, ?_, ?_, ?_⟩ <;> rfl

end UnwrapGen

section Audit
/-! ## AUDIT (g27): non-vacuity instances and evaluations of the generated bodies added by the reviewer; no existing declaration changed -/

/-- AUDIT: a bijection table for the generated bodies at `Rat` (negation as a stand-in for `transform`) -/
def auditBij : Nat → Bij Rat Unit Rat :=
  fun _ => ⟨fun x _ => -x, fun y _ => -y, fun x _ => (-x, 0), fun y _ => (-y, 0)⟩

/-- AUDIT: `BijectionReparam(Where(mask, W, B), b)` built under one `filter_vmap` of size 2 — every array leaf batched, `_dummy.shape = (2,)` -/
def auditVmapWhere : Tree Rat :=
  .wrap .reparam 1 [2] [
    .wrap .whereK 4 [] [.arr 11 false (.batch [.base [1, 0], .base [0, 1]]), .arr 12 true (.batch [.base [5, -3], .base [2, 7]]),
      .arr 13 true (.batch [.base [0, 0], .base [9, 9]])],
    .static 3]

/-- AUDIT non-vacuity of `WBgs` (hypothesis of `unwrap_vmapped_uniform`, `gen_unwrap_vmapped`, `gen_traversal_gen_bodies`; it had NO instance
anywhere) for the GENERATED bodies `genWrapFn`, on a tree that contains a `Where` node — the node kind whose `WBg` clause is itself a
slice/apply commutation — and `gen_unwrap_vmapped` applied to it; the generated bodies are really evaluated (kernel, `Rat`). -/
theorem WBgs_audit_instance :
    WBgs (genWrapFn auditBij fun _ cs => .node cs) [2] auditVmapWhere ∧
    unwrap (genWrapFn auditBij fun _ cs => .node cs) auditVmapWhere
      = .arr 12 true (.batch [.base [-5, 0], .base [-9, -7]]) ∧
    sliceTs [1] (unwrap (genWrapFn auditBij fun _ cs => .node cs) auditVmapWhere)
      = unwrap (genWrapFn auditBij fun _ cs => .node cs) (sliceTs [1] auditVmapWhere) := by
  have hW : WBgs (genWrapFn auditBij fun _ cs => .node cs) [2] auditVmapWhere := by
    simp only [WBgs, auditVmapWhere, WBg, WBgL, and_true]
    refine ⟨⟨⟨⟨⟨_, rfl, rfl⟩, ⟨_, rfl, rfl⟩, ⟨_, rfl, rfl⟩⟩, forall_lt_two rfl rfl⟩, ⟨_, rfl⟩⟩, fun _ _ => trivial⟩
  refine ⟨hW, rfl, ?_⟩
  exact gen_unwrap_vmapped auditBij _ (fun _ cs cs' h => by simpa [Sk] using h) [2] [1] auditVmapWhere (by simp [IdxLt]) hW


/-- AUDIT: elementwise `apply_updates` on array leaves -/
def auditAdd : Arr Int → Arr Int → Arr Int
  | .base x, .base y => .base (List.zipWith (· + ·) x y)
  | a, _ => a

/-- AUDIT: `frozen_bit_identical` APPLIED (the pre-existing `bnaf_frozen_instance` only evaluates `train`, with an `add` that ignores the
update, so the parameters never move): two genuine update steps on the frozen BNAF layer move the bias from `[0,0]` to `[13,-16]`;
the hypothesis `train … = some p'` holds, and the theorem gives the frozen leaves (masks AND the frozen float weight) unchanged. -/
theorem frozen_bit_identical_audit_instance :
    train auditAdd (partP bnafFrozen) [.node [.none, .arr 0 true (.base [3, 4]), .none], .node [.none, .arr 0 true (.base [10, -20]), .none]]
      = some (.node [.none, .arr 14 true (.base [13, -16]), .none]) ∧
    frozenLeaves (combine (.node [.none, .arr 14 true (.base [13, -16]), .none]) (partS bnafFrozen)) = frozenLeaves bnafFrozen ∧
    (frozenLeaves bnafFrozen).map (·.1) = [10, 11, 12, 11, 12, 13] ∧
    partP (combine (.node [.none, .arr 14 true (.base [13, -16]), .none]) (partS bnafFrozen))
      = .node [.none, .arr 14 true (.base [13, -16]), .none] := by
  have h : train auditAdd (partP bnafFrozen) [.node [.none, .arr 0 true (.base [3, 4]), .none], .node [.none, .arr 0 true (.base [10, -20]), .none]]
      = some (.node [.none, .arr 14 true (.base [13, -16]), .none]) := rfl
  have r := frozen_bit_identical auditAdd bnafFrozen _ _ h
  exact ⟨h, r.2.1, rfl, r.2.2.2⟩

/-- AUDIT (encoding trap in the lifting `genWrapFn`, Model/WrapGen.lean): the file's own BNAF instance writes `Where(tril_mask, W, 0)` with the
scalar `if_false` as a NON-array leaf `.static 0` (`bnafInner`).  On that shape the generated-body lifting returns the EMPTY array (all of `W`
is dropped), because `Tree.arrOf (.static _) = .base []`; the scalar must be encoded as the array leaf `.base [0]` to get the masked weight.
`WrapFree` / `SkUniform` (the only properties proved of `genWrapFn` for all inputs) cannot see this; the file's BNAF instances use the symbolic
`symF`, never `genWrapFn`. -/
theorem genWrapFn_static_if_false_audit :
    unwrap (genWrapFn auditBij fun _ cs => .node cs)
      (.wrap .whereK 4 [] [.arr 11 false (.base [1, 0, 1, 1]), .arr 12 true (.base [5, -3, 2, 7]), .static 0])
      = .arr 12 true (.base []) ∧
    unwrap (genWrapFn auditBij fun _ cs => .node cs)
      (.wrap .whereK 4 [] [.arr 11 false (.base [1, 0, 1, 1]), .arr 12 true (.base [5, -3, 2, 7]), .arr 13 true (.base [0])])
      = .arr 12 true (.base [5, 0, 2, 7]) := ⟨rfl, rfl⟩
end Audit

end C12
