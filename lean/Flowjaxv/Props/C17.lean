import Flowjaxv.Proofs.Losses
import Flowjaxv.Proofs.LossesGen
import Flowjaxv.Proofs.ElboAd
/-!
# C17 — the three losses compute their defining formulas

About the hand models of `flowjax/train/losses.py` in `Model/Losses.lean` (tied to the real
`MaximumLikelihoodLoss`, `ElboLoss`, `ContrastiveLoss`, `_get_contrastive_idxs` by the
correspondence in `tools/props/c17.py`).  A batch of size `b` is given by its index functions
(`x i`, `c i`, `key i` for `i < b`); every non-empty list is of that form
(`Losses.exists_index_fn`), so all batch sizes / sample counts are covered.  For `b = 0` the
real value is `0/0 = NaN`; over `ℝ` the formulas read `0/0 = 0` on both sides.

**The gradient clause** ("with stick-the-landing the gradient omits the score-function term") is a statement
about `jax.lax.stop_gradient` under reverse-mode autodiff and has no counterpart in a value-level model
(`stop_gradient p` has the value `p`, which is all `elbo_stl_same_value` uses).  It is proved in the second half
of this file about the reverse-mode calculus of C18 (`Model/Ad.lean`: `Expr.eval`, `Expr.vjp` with JAX's
cotangent rules, among them `Expr.stopGrad`: forward the identity, reverse a symbolic zero — nothing is
propagated), for EVERY expression-level sample `x(θ, ε)` (any number of components, later components may use
earlier ones), EVERY expression `log q_φ(x)` and EVERY parameter-free target (`Model/ElboAd.lean`):
`stop_gradient_vjp` (the substitution lemma), `elbo_stl_gradient_is_path_derivative`,
`elbo_plain_gradient_decomposition`, `elbo_stl_gradient_omits_score`, `elbo_loss_gradient` (the `.mean()` over
the samples) and the numeric instance `elbo_stl_gradient_instance`.  The model is tied to the real code by
`tools/props/c17.py` (driver op `stlgrad`): value and every adjoint of the real
`ElboLoss(target, n, stick_the_landing=True/False)` under `eqx.filter_value_and_grad` for real `Normal`,
`Transformed(Normal, Exp/Tanh/SoftPlus)` and Affine/Tanh/Exp/SoftPlus chains in 1–3 dimensions with the same base
noise, whose expression trees are assembled from the GENERATED kernels of `Gen/LeavesAst.lean`.
-/
open Losses

namespace C17
variable {X C K : Type}

/-- the maximum-likelihood loss is minus the mean log-probability of the batch:
`-(Σ_{i<b} log p(xᵢ | cᵢ)) / b`, for every batch size `b` (conditional; unconditional = `C := Unit`). -/
theorem mle_def (d : Distn X C K ℝ) (b : ℕ) (x : ℕ → X) (c : ℕ → C) :
    mleLoss d ((List.range b).map x) ((List.range b).map c)
      = -((∑ i ∈ Finset.range b, d.logProb (x i) (c i)) / (b : ℝ)) := by
  rw [mleLoss, ← mean_range_map]
  congr 2
  rw [List.zipWith_map, List.zipWith_self]

/-- the same for two arbitrary lists of equal length (what `vmap`/broadcasting of `log_prob` requires) -/
theorem mle_def_lists (d : Distn X C K ℝ) (xs : List X) (cs : List C) (h : cs.length = xs.length) :
    mleLoss d xs cs = -((List.zipWith d.logProb xs cs).sum / (xs.length : ℝ)) := by
  rw [mleLoss, mean_eq, List.length_zipWith, h, Nat.min_self]

/-- the ELBO loss (both settings) is the mean over the samples drawn with the per-sample keys of
`log q(x) − target(x)`: without stick-the-landing `(x, log q(x))` come from `sample_and_log_prob`,
with it `x` comes from `sample` and `log q(x)` from `log_prob`. -/
theorem elbo_def (d : Distn X C K ℝ) (target : X → ℝ) (n : ℕ) (key : ℕ → K) (c : C) :
    elboLoss d target false ((List.range n).map key) c
        = (∑ i ∈ Finset.range n, ((d.sampleLp (key i) c).2 - target (d.sampleLp (key i) c).1)) / (n : ℝ)
    ∧ elboLoss d target true ((List.range n).map key) c
        = (∑ i ∈ Finset.range n, (d.logProb (d.sample (key i) c) c - target (d.sample (key i) c))) / (n : ℝ) := by
  constructor
  · rw [elbo_nonstl, List.map_map, mean_range_map]; rfl
  · rw [elbo_stl, List.map_map, mean_range_map]; rfl

/-- same value with or without stick-the-landing, for every distribution whose
`sample_and_log_prob` agrees with `sample` + `log_prob` (C03: every lawful transformed
distribution), every target, every list of keys. -/
theorem elbo_stl_same_value (d : Distn X C K ℝ) (hd : d.Consistent) (target : X → ℝ)
    (keys : List K) (c : C) :
    elboLoss d target true keys c = elboLoss d target false keys c := by
  rw [elbo_stl, elbo_nonstl]
  congr 1
  apply List.map_congr_left
  intro k _
  rw [hd k c]

/-- every row of `_get_contrastive_idxs(key, b, n)` — for whatever permutations `jr.choice` realises —
has exactly `n` entries, pairwise distinct, none equal to the row's own index, all `< b`;
and there are `b` rows.  Needs `n < b` (the guard of the loss). -/
theorem contrastive_idxs_valid (b n : ℕ) (π : ℕ → List ℕ) (hn : n < b) (hπ : Admissible b π) :
    (contrastiveIdxs b n π).length = b ∧
    ∀ i, i < b → ∃ row, (contrastiveIdxs b n π)[i]? = some row ∧
      row.length = n ∧ row.Nodup ∧ i ∉ row ∧ ∀ j ∈ row, j < b := by
  refine ⟨by simp [contrastiveIdxs], fun i hi => ⟨(π i).take n, ?_, take_valid hπ hn hi⟩⟩
  simp [contrastiveIdxs, hi]

/-- the contrastive loss equals its defining softmax cross-entropy: the mean over rows of
`−log( e^{posᵢ} / (e^{posᵢ} + Σ_{j ∈ idxsᵢ} e^{negᵢⱼ}) )` with `posᵢ = logit(xᵢ, cᵢ)`,
`negᵢⱼ = logit(xⱼ, cᵢ)`, `logit(x, c) = log p(x|c) − log prior(x)`, `idxsᵢ` = row `i` of the indices. -/
theorem contrastive_def (d : Distn X C K ℝ) (prior : X → ℝ) (b n : ℕ) (x : ℕ → X) (c : ℕ → C)
    (π : ℕ → List ℕ) (hn : n < b) (hπ : Admissible b π) :
    contrastiveLoss d prior n ((List.range b).map x) ((List.range b).map c) π
      = some ((∑ i ∈ Finset.range b,
          -Real.log (Real.exp (logit d prior (x i) (c i)) /
            (Real.exp (logit d prior (x i) (c i))
              + (((π i).take n).map fun j => Real.exp (logit d prior (x j) (c i))).sum))) / (b : ℝ)) := by
  rw [contrastive_eval d prior b n x c π hn hπ, mean_range_map]
  simp only [rowTerm_eq, List.map_map]
  rfl

/-- the contrastive loss is never negative: every row term is `≥ 0` (because
`logsumexp(contrastive ++ [pos]) ≥ pos`, for all logits whatsoever), hence so is the mean. -/
theorem contrastive_nonneg (d : Distn X C K ℝ) (prior : X → ℝ) (b n : ℕ) (x : ℕ → X) (c : ℕ → C)
    (π : ℕ → List ℕ) (hn : n < b) (hπ : Admissible b π) :
    (∀ (pos : ℝ) (con : List ℝ), pos ≤ lse (con ++ [pos]) ∧ 0 ≤ rowTerm pos con) ∧
    ∃ v, contrastiveLoss d prior n ((List.range b).map x) ((List.range b).map c) π = some v ∧ 0 ≤ v := by
  refine ⟨fun pos con => ⟨le_lse pos con, rowTerm_nonneg pos con⟩, _, contrastive_eval d prior b n x c π hn hπ, ?_⟩
  rw [mean_range_map]
  apply div_nonneg
  · exact Finset.sum_nonneg fun i _ => rowTerm_nonneg _ _
  · exact Nat.cast_nonneg b

/-- the model raises exactly when the batch is not larger than `n_contrastive` (the explicit
`ValueError`) or the batch sizes of `x` and `condition` differ (`filter_vmap`); for ARBITRARY lists. -/
theorem contrastive_guard (d : Distn X C K ℝ) (prior : X → ℝ) (n : ℕ) (xs : List X) (cs : List C)
    (π : ℕ → List ℕ) (hπ : Admissible xs.length π) :
    contrastiveLoss d prior n xs cs π = none ↔ (xs.length ≤ n ∨ cs.length ≠ xs.length) := by
  constructor
  · intro h
    by_contra hne
    obtain ⟨hn, hl⟩ := not_or.mp hne
    have hn := not_le.mp hn
    have hl := not_not.mp hl
    have hx : xs ≠ [] := by intro h0; simp [h0] at hn
    have hc : cs ≠ [] := by intro h0; rw [h0] at hl; simp at hl; omega
    obtain ⟨x, hxe⟩ := exists_index_fn xs hx
    obtain ⟨c, hce⟩ := exists_index_fn cs hc
    rw [hl] at hce
    have := contrastive_eval d prior xs.length n x c π hn hπ
    rw [← hxe, ← hce, h] at this
    simp at this
  · rintro (h | h)
    · simp [contrastiveLoss, h]
    · simp [contrastiveLoss, h]

/-! ### non-vacuity -/

/-- the identity family `π i = choices b i` is admissible for every `b`, so the hypotheses of the
index/contrastive theorems are satisfiable for every batch size -/
theorem admissible_instance (b : ℕ) : Admissible b (fun i => choices b i) :=
  fun _ _ => List.Perm.refl _

/-- a concrete consistent distribution on `ℝ` (keys are the samples, `log q(x) = −x²`) -/
theorem consistent_instance :
    (⟨fun x _ => -(x * x), fun k _ => k, fun k _ => (k, -(k * k))⟩ : Distn ℝ Unit ℝ ℝ).Consistent :=
  fun _ _ => rfl

/-- a concrete index table: batch 3, `n = 2`, reversed candidate lists -/
theorem idxs_instance :
    contrastiveIdxs 3 2 (fun i => (choices 3 i).reverse) = [[2, 1], [2, 0], [1, 0]] := by
  decide

/-- a concrete value: batch 2, one contrastive sample, all logits `0` → loss `log 2` -/
theorem contrastive_instance :
    contrastiveLoss (⟨fun _ _ => 0, fun k _ => k, fun k _ => (k, 0)⟩ : Distn ℝ Unit ℝ ℝ) (fun _ => 0) 1
        ((List.range 2).map fun _ => (0 : ℝ)) ((List.range 2).map fun _ => ()) (fun i => choices 2 i)
      = some (Real.log 2) := by
  rw [contrastive_def _ _ 2 1 _ _ _ (by norm_num) (admissible_instance 2)]
  have h0 : choices 2 0 = [1] := by decide
  have h1 : choices 2 1 = [0] := by decide
  simp [Finset.sum_range_succ, logit, h0, h1]
  norm_num

/-! ## The losses as REGENERATED from `flowjax/train/losses.py` (`Gen/LossesGen.lean`)

`tools/py2lean/py2meth.py` translates `MaximumLikelihoodLoss.__call__`, `ElboLoss.__init__/__call__` (both
`stick_the_landing` branches), `ContrastiveLoss.__init__/__call__` (guard, the closure `single_x_loss`, `filter_vmap`, `.mean()`)
and `_get_contrastive_idxs` (with its vmapped `_get_idxs`) statement by statement on every run; the library calls get their
meaning from the world `Lw.World` of `Model/LossWorld.lean` (an abstract `eqx.combine` / `unwrap` / distribution methods /
`jr.split` / the permutation behind `jr.choice(replace=False)`).  The `gen_*_eq` theorems: the generated functions equal the hand
model above for EVERY world, scalar type and input; the remaining ones restate the value theorems on the generated definitions.
The one guarantee taken from JAX is `W.ChoiceIsPerm`: `jr.choice(key, a, (n,), replace=False)` is a prefix of a permutation of `a`. -/
section generated
open GenLosses LossesGen
variable {P S D : Type}

/-- generated `MaximumLikelihoodLoss.__call__` = hand model `mleLoss` (every scalar type) -/
theorem gen_mle_eq {α : Type} [Add α] [Sub α] [Div α] [Neg α] [LT α] [DecidableLT α] [OfNat α 0] [OfNat α 1] [Transc α]
    (W : Lw.World X C K P S D α) (params : P) (static : S) (xs : List X) (cs : List C) :
    mleCall W params static xs cs = mleLoss (W.methods (W.unwrap (W.combine params static))) xs cs :=
  mle_eq W params static xs cs

/-- generated `ElboLoss.__call__` = hand model `elboLoss` in BOTH `stick_the_landing` settings, the per-sample keys being
`jr.split(key, num_samples)` -/
theorem gen_elbo_eq {α : Type} [Add α] [Sub α] [Div α] [Neg α] [LT α] [DecidableLT α] [OfNat α 0] [OfNat α 1] [Transc α]
    (W : Lw.World X C K P S D α) (target : X → α) (n : ℕ) (params : P) (static : S) (key : K) :
    elboCall W (ElboLoss.init target n false) params static key
        = elboLoss (W.methods (W.combine params static)) target false (Lw.keys W key n) W.noCond ∧
    elboCall W (ElboLoss.init target n true) params static key
        = elboLoss (W.methods (W.combine params static)) target true (Lw.keys W key n) W.noCond :=
  ⟨elbo_eq W _ params static key, elbo_eq W _ params static key⟩

/-- generated `_get_contrastive_idxs(key, b, n)` = hand model `contrastiveIdxs` (it does not raise) whenever `n < b`, and it
raises for a non-empty batch with `n ≥ b` -/
theorem gen_contrastive_idxs_eq {α : Type} [Add α] [Sub α] [Div α] [Neg α] [LT α] [DecidableLT α] [OfNat α 0] [OfNat α 1]
    [Transc α] (W : Lw.World X C K P S D α) (key : K) (b n : ℕ) :
    (b = 0 ∨ n < b → getContrastiveIdxs W key b n = some (contrastiveIdxs b n (permOf W key b))) ∧
    (0 < b → b ≤ n → getContrastiveIdxs W key b n = none) :=
  ⟨contrastive_idxs_eq W key b n, contrastive_idxs_raises W key b n⟩

/-- generated `ContrastiveLoss.__call__` = hand model `contrastiveLoss` for ALL inputs (accepted and rejected) -/
theorem gen_contrastive_eq {α : Type} [Add α] [Sub α] [Div α] [Neg α] [LT α] [DecidableLT α] [OfNat α 0] [OfNat α 1] [Transc α]
    (W : Lw.World X C K P S D α) (prior : X → α) (n : ℕ) (params : P) (static : S) (xs : List X) (cs : List C) (key : K) :
    contrastiveCall W (ContrastiveLoss.init prior n) params static xs cs key
      = contrastiveLoss (W.methods (W.unwrap (W.combine params static))) prior n xs cs (permOf W key xs.length) :=
  contrastive_eq W _ params static xs cs key

/-- the permutations the world draws are an admissible family as soon as `jr.choice(replace=False)` draws from a permutation -/
theorem gen_perm_admissible (W : Lw.World X C K P S D ℝ) (hW : W.ChoiceIsPerm) (key : K) (b : ℕ) :
    Admissible b (permOf W key b) := fun i _ => hW _ _

/-- `mle_def` on the generated code -/
theorem gen_mle_def (W : Lw.World X C K P S D ℝ) (params : P) (static : S) (b : ℕ) (x : ℕ → X) (c : ℕ → C) :
    mleCall W params static ((List.range b).map x) ((List.range b).map c)
      = -((∑ i ∈ Finset.range b, (W.methods (W.unwrap (W.combine params static))).logProb (x i) (c i)) / (b : ℝ)) := by
  rw [gen_mle_eq, mle_def]

/-- `elbo_def` on the generated code: the mean over the keys `jr.split(key, n)[i]` of `log q(x) − target(x)` -/
theorem gen_elbo_def (W : Lw.World X C K P S D ℝ) (target : X → ℝ) (n : ℕ) (params : P) (static : S) (key : K) :
    elboCall W (ElboLoss.init target n false) params static key
        = (∑ i ∈ Finset.range n, (((W.methods (W.combine params static)).sampleLp (W.split key n i) W.noCond).2
            - target ((W.methods (W.combine params static)).sampleLp (W.split key n i) W.noCond).1)) / (n : ℝ)
    ∧ elboCall W (ElboLoss.init target n true) params static key
        = (∑ i ∈ Finset.range n, ((W.methods (W.combine params static)).logProb
              ((W.methods (W.combine params static)).sample (W.split key n i) W.noCond) W.noCond
            - target ((W.methods (W.combine params static)).sample (W.split key n i) W.noCond))) / (n : ℝ) := by
  rw [(gen_elbo_eq W target n params static key).1, (gen_elbo_eq W target n params static key).2]
  exact elbo_def _ target n (W.split key n) W.noCond

/-- `elbo_stl_same_value` on the generated code -/
theorem gen_elbo_stl_same_value (W : Lw.World X C K P S D ℝ) (target : X → ℝ) (n : ℕ) (params : P) (static : S) (key : K)
    (hd : (W.methods (W.combine params static)).Consistent) :
    elboCall W (ElboLoss.init target n true) params static key
      = elboCall W (ElboLoss.init target n false) params static key := by
  rw [(gen_elbo_eq W target n params static key).1, (gen_elbo_eq W target n params static key).2]
  exact elbo_stl_same_value _ hd target _ _

/-- `contrastive_idxs_valid` on the generated code: for `n < b` the generated `_get_contrastive_idxs` returns `b` rows, each with
exactly `n` pairwise distinct indices, none its own, all `< b` — given only that `jr.choice(replace=False)` draws from a permutation -/
theorem gen_contrastive_idxs_valid (W : Lw.World X C K P S D ℝ) (hW : W.ChoiceIsPerm) (key : K) (b n : ℕ) (hn : n < b) :
    ∃ rows, getContrastiveIdxs W key b n = some rows ∧ rows.length = b ∧
      ∀ i, i < b → ∃ row, rows[i]? = some row ∧ row.length = n ∧ row.Nodup ∧ i ∉ row ∧ ∀ j ∈ row, j < b :=
  ⟨_, (gen_contrastive_idxs_eq W key b n).1 (Or.inr hn),
    contrastive_idxs_valid b n _ hn (gen_perm_admissible W hW key b)⟩

/-- `contrastive_def` on the generated code -/
theorem gen_contrastive_def (W : Lw.World X C K P S D ℝ) (hW : W.ChoiceIsPerm) (prior : X → ℝ) (params : P) (static : S)
    (key : K) (b n : ℕ) (x : ℕ → X) (c : ℕ → C) (hn : n < b) :
    contrastiveCall W (ContrastiveLoss.init prior n) params static ((List.range b).map x) ((List.range b).map c) key
      = some ((∑ i ∈ Finset.range b,
          -Real.log (Real.exp (logit (W.methods (W.unwrap (W.combine params static))) prior (x i) (c i)) /
            (Real.exp (logit (W.methods (W.unwrap (W.combine params static))) prior (x i) (c i))
              + (((permOf W key b i).take n).map fun j =>
                  Real.exp (logit (W.methods (W.unwrap (W.combine params static))) prior (x j) (c i))).sum))) / (b : ℝ)) := by
  rw [gen_contrastive_eq]
  simp only [List.length_map, List.length_range]
  exact contrastive_def _ prior b n x c _ hn (gen_perm_admissible W hW key b)

/-- `contrastive_nonneg` and `contrastive_guard` on the generated code: a value `≥ 0` whenever `n < b`; `none` (the call raises)
exactly when the batch is not larger than `n_contrastive` or the condition batch differs -/
theorem gen_contrastive_nonneg (W : Lw.World X C K P S D ℝ) (hW : W.ChoiceIsPerm) (prior : X → ℝ) (params : P) (static : S)
    (key : K) (n : ℕ) :
    (∀ (b : ℕ) (x : ℕ → X) (c : ℕ → C), n < b →
      ∃ v, contrastiveCall W (ContrastiveLoss.init prior n) params static ((List.range b).map x) ((List.range b).map c) key
        = some v ∧ 0 ≤ v) ∧
    (∀ (xs : List X) (cs : List C),
      contrastiveCall W (ContrastiveLoss.init prior n) params static xs cs key = none ↔ (xs.length ≤ n ∨ cs.length ≠ xs.length)) := by
  constructor
  · intro b x c hn
    rw [gen_contrastive_eq]
    simp only [List.length_map, List.length_range]
    exact (contrastive_nonneg _ prior b n x c _ hn (gen_perm_admissible W hW key b)).2
  · intro xs cs
    rw [gen_contrastive_eq]
    exact contrastive_guard _ prior n xs cs _ (gen_perm_admissible W hW key xs.length)

/-- non-vacuity: a concrete world (keys and points are naturals, `jr.choice` draws the candidates in order) satisfies
`ChoiceIsPerm`, and the generated index function evaluates to the expected table -/
theorem gen_instance :
    let W : Lw.World ℕ Unit ℕ Unit Unit Unit ℝ :=
      ⟨fun _ _ => (), id, fun _ => ⟨fun _ _ => 0, fun k _ => k, fun k _ => (k, 0)⟩, fun k _ i => k + i, (), fun _ a => a,
        fun _ a n => a.take n⟩
    W.ChoiceIsPerm ∧ getContrastiveIdxs W 0 3 2 = some [[1, 2], [0, 2], [0, 1]] := by
  refine ⟨fun _ _ => List.Perm.refl _, ?_⟩
  decide

end generated

/-! ## The gradient clause: stick-the-landing omits the score-function term

Reverse-mode calculus `Ad.Expr` (`eval` = forward pass, `vjp env e ct` = the list of adjoint contributions the
reverse pass produces for the incoming cotangent `ct`; `Grad.total g k` = the adjoint accumulated on key `k`, a
scalar variable or one element of a vector parameter).  `ElboAd.Elbo` = the data of one ELBO term:
trainable leaves `P`, sample bindings `xs`, `lq` = `log q_φ(x)`, `tg` = `target(x)`;
`E.integrand stl` = `let x := x(θ,ε); (if stl then lq[φ := stop_gradient θ] else lq) − tg`;
`E.wf` = no sample variable is a trainable leaf and the target has no differentiable occurrence of one. -/
section gradient
open Ad ElboAd ElboAdT
variable {N : Type} [Num N]

/-- `stop_gradient(params)` does not change any value: `e[φ := stop_gradient θ]` evaluates like `e`
(every number domain, IEEE `Float` included). -/
theorem stop_gradient_value (P : Params) (e : Expr N) (env : Env N) : (sg P e).eval env = e.eval env :=
  sg_eval e P env

/-- THE SUBSTITUTION LEMMA.  The reverse pass of `e[φ := stop_gradient θ]` is the reverse pass of `e` with
exactly the adjoints of the trainable leaves deleted — i.e. `e` differentiated with `φ` an independent,
non-differentiated copy of `θ`; every other adjoint (in the ELBO: the one of the sample `x`) is untouched.
An equality of adjoint LISTS, for every expression, environment, cotangent and number domain. -/
theorem stop_gradient_vjp (P : Params) (e : Expr N) (env : Env N) (ct : N) :
    (sg P e).vjp env ct = (e.vjp env ct).filter (fun kv => !P.has kv.1) :=
  sg_vjp e P env ct

/-- … so a trainable leaf receives the adjoint zero from `e[φ := stop_gradient θ]`, any other key what it
receives from `e`. -/
theorem stop_gradient_total (P : Params) (e : Expr N) (env : Env N) (ct : N) (k : Key) :
    Grad.total ((sg P e).vjp env ct) k = if P.has k then Num.ofInt 0 else Grad.total (e.vjp env ct) k := by
  rw [sg_vjp, total_filter (fun k => !P.has k)]
  cases P.has k <;> rfl

/-- (a) at the level of the differentiated expressions: one ELBO term, and the mean over any number of terms,
has the same value with or without stick-the-landing. -/
theorem elbo_stl_same_value_ad (E : Elbo N) (Es : List (Elbo N)) (env : Env N) :
    (E.integrand true).eval env = (E.integrand false).eval env ∧
    (loss Es true).eval env = (loss Es false).eval env :=
  ⟨integrand_eval E env, loss_eval Es env⟩

/-- the reverse pass of the STL term, as a list: the plain reverse pass in which the adjoints that
`log q_φ(x) − target(x)` sends DIRECTLY to the trainable leaves are deleted before the remaining adjoints go
back through the definition of the sample (`pullAll` = the `let` rule of `vjp`, innermost binding first). -/
theorem elbo_stl_reverse_pass (E : Elbo N) (h : E.wf = true) (env : Env N) (ct : N) :
    (E.integrand true).vjp env ct
      = pullAll env E.xs (((E.body false).vjp (bindEnv env E.xs) ct).filter (fun kv => !E.P.has kv.1)) :=
  stl_vjp E h env ct

/-- (b) WITH STICK-THE-LANDING THE GRADIENT IS THE PATH DERIVATIVE.  For every trainable leaf `k` the adjoint
of the STL term equals the adjoint delivered by `E.pathGrad`: differentiate `log q_φ(x) − target(x)` with
respect to the sample components only (they are free variables there, so `φ` is held fixed; everything that
does not land on a sample component is discarded) and pull those adjoints `x̄` back through `x(θ, ε)`.  No
contribution of the direct dependence of `log q` on its parameters.  Every number domain; second part: for a
single sample component the familiar `x̄ · ∂x/∂θ_k` with `x̄ = ∂[log q_φ(x) − target(x)]/∂x`. -/
theorem elbo_stl_gradient_is_path_derivative (E : Elbo N) (h : E.wf = true) (env : Env N) (ct : N) (k : Key)
    (hk : E.P.has k = true) :
    Grad.total ((E.integrand true).vjp env ct) k = Grad.total (E.pathGrad env ct) k ∧
    ∀ (i : Nat) (x : Expr N), E.xs = [(i, x)] →
      Grad.total ((E.integrand true).vjp env ct) k
        = Grad.total (x.vjp env (Grad.total ((Expr.sub E.lq E.tg).vjp (env.set i (x.eval env)) ct) (Key.s i))) k := by
  refine ⟨stl_total_eq_path E h env ct k hk, fun i x hx => ?_⟩
  have hi : E.P.s i = false := by
    have := wf_sample_not_param h (k := Key.s i) (by rw [hx]; simp [isSample])
    simpa [Params.has] using this
  rw [stl_total_eq_path E h env ct k hk]
  obtain ⟨P, xs, lq, tg⟩ := E
  simp only at hx hi hk ⊢
  subst hx
  exact path_single P i x lq tg env ct k hi hk

/-- the path derivative depends on the body only through the adjoints of the sample components: two
adjoint lists with the same totals on the sample components and on the trainable leaves are pulled back to
the same adjoint of every trainable leaf. -/
theorem path_derivative_depends_on_sample_adjoints (E : Elbo N) (env : Env N) (g₁ g₂ : Grad N)
    (hg : ∀ k, E.P.has k = true ∨ isSample E.xs k = true → Grad.total g₁ k = Grad.total g₂ k)
    (k : Key) (hk : E.P.has k = true) :
    Grad.total (pullAll env E.xs g₁) k = Grad.total (pullAll env E.xs g₂) k :=
  pullAll_congr (fun k => E.P.has k = true) E.xs env g₁ g₂ hg k hk

/-- (c) WITHOUT STICK-THE-LANDING THE GRADIENT IS PATH DERIVATIVE + SCORE TERM.  On every key the adjoint of
the plain term is the adjoint of the STL term plus the score term `E.scoreGrad` = the adjoint of `log q_φ(x)`
with respect to its own parameters at `φ = θ`, the sample held fixed; hence on every trainable leaf
plain = path derivative + score.  Needs only that adjoints add up in a commutative monoid (`AddLawful`: `EF`
with its infinities and NaN, in particular its finite part `ℝ`). -/
theorem elbo_plain_gradient_decomposition [AddLawful N] (E : Elbo N) (h : E.wf = true) (env : Env N) (ct : N)
    (k : Key) :
    Grad.total ((E.integrand false).vjp env ct) k
        = Grad.total ((E.integrand true).vjp env ct) k + Grad.total (E.scoreGrad env ct) k ∧
    (E.P.has k = true →
      Grad.total ((E.integrand false).vjp env ct) k
        = Grad.total (E.pathGrad env ct) k + Grad.total (E.scoreGrad env ct) k) := by
  refine ⟨plain_total_eq_stl_add_score E h env ct k, fun hk => ?_⟩
  rw [plain_total_eq_stl_add_score E h env ct k, stl_total_eq_path E h env ct k hk]

/-- "omits the score-function term", exactly: STL adjoint = plain adjoint − score term, over `EF` wherever
the score term is finite (`EF.fin` = the reals with exact arithmetic). -/
theorem elbo_stl_gradient_omits_score (E : Elbo EF) (h : E.wf = true) (env : Env EF) (ct : EF) (k : Key)
    (s : ℝ) (hs : Grad.total (E.scoreGrad env ct) k = EF.fin s) :
    Grad.total ((E.integrand true).vjp env ct) k
      = Grad.total ((E.integrand false).vjp env ct) k - Grad.total (E.scoreGrad env ct) k := by
  rw [plain_total_eq_stl_add_score E h env ct k, hs, ef_add_sub_cancel]

/-- the whole loss `(log_probs − target).mean()` over any number `n` of samples (each term with its own
noise variables): the reverse pass of `.mean()` hands every term the cotangent `ct / n`; the STL gradient is
the sum of the per-sample path derivatives, the plain gradient exceeds it by the sum of the per-sample score
terms. -/
theorem elbo_loss_gradient [AddLawful N] (Es : List (Elbo N)) (h : ∀ E ∈ Es, E.wf = true) (env : Env N) (ct : N)
    (k : Key) :
    (∀ stl, (loss Es stl).vjp env ct
        = (Es.map fun E => E.integrand stl).flatMap (fun e => e.vjp env (ct / Num.ofInt Es.length))) ∧
    ((∀ E ∈ Es, E.P.has k = true) →
      Grad.total ((loss Es true).vjp env ct) k
        = sumN (Es.map fun E => Grad.total (E.pathGrad env (ct / Num.ofInt Es.length)) k)) ∧
    Grad.total ((loss Es false).vjp env ct) k
      = Grad.total ((loss Es true).vjp env ct) k
        + sumN (Es.map fun E => Grad.total (E.scoreGrad env (ct / Num.ofInt Es.length)) k) := by
  refine ⟨fun stl => ?_, fun hk => loss_stl_total Es h env ct k hk, loss_plain_total Es h env ct k⟩
  rw [loss, meanE_vjp, List.length_map]

/-- non-vacuity, with numbers: q = N(μ, σ) assembled from the GENERATED `Affine` kernels, `x = μ + σ ε`,
`target(x) = −x²/2`, at `μ = 1, σ = 2, ε = 2` (so `x = 5`).  The term is well-formed; the score term is
`(1, 3/2) ≠ 0`; the STL gradient w.r.t. `(μ, σ)` is the path derivative `(4, 8)`, the plain gradient is
`(5, 19/2)` — they differ by exactly the score term. -/
theorem elbo_stl_gradient_instance :
    gaussE.wf = true ∧
    (Grad.total ((gaussE.integrand true).vjp gaussEnv (EF.fin 1)) (Key.s 1) = EF.fin 4 ∧
     Grad.total ((gaussE.integrand true).vjp gaussEnv (EF.fin 1)) (Key.s 2) = EF.fin 8) ∧
    (Grad.total (gaussE.pathGrad gaussEnv (EF.fin 1)) (Key.s 1) = EF.fin 4 ∧
     Grad.total (gaussE.pathGrad gaussEnv (EF.fin 1)) (Key.s 2) = EF.fin 8) ∧
    (Grad.total (gaussE.scoreGrad gaussEnv (EF.fin 1)) (Key.s 1) = EF.fin 1 ∧
     Grad.total (gaussE.scoreGrad gaussEnv (EF.fin 1)) (Key.s 2) = EF.fin (3 / 2)) ∧
    (Grad.total ((gaussE.integrand false).vjp gaussEnv (EF.fin 1)) (Key.s 1) = EF.fin 5 ∧
     Grad.total ((gaussE.integrand false).vjp gaussEnv (EF.fin 1)) (Key.s 2) = EF.fin (19 / 2)) ∧
    Grad.total ((gaussE.integrand true).vjp gaussEnv (EF.fin 1)) (Key.s 1)
      ≠ Grad.total ((gaussE.integrand false).vjp gaussEnv (EF.fin 1)) (Key.s 1) := by
  refine ⟨gauss_wf, gauss_stl, gauss_path, gauss_score, gauss_plain, ?_⟩
  rw [gauss_stl.1, gauss_plain.1]
  intro h
  injection h with h
  norm_num at h

end gradient

/-! ## Audit (g27): non-vacuity of the hypothesis sets used above -/
section Audit
open Losses GenLosses LossesGen

/-- the world of `gen_instance` (non-constant `split`, `choice` = prefix of the candidates) -/
noncomputable def auditW : Lw.World ℕ Unit ℕ Unit Unit Unit ℝ :=
  ⟨fun _ _ => (), id, fun _ => ⟨fun x _ => -(x : ℝ), fun k _ => k + 1, fun k _ => (k + 1, -((k + 1 : ℕ) : ℝ))⟩, fun k _ i => k + i, (),
    fun _ a => a, fun _ a n => a.take n⟩


/-- hypotheses `hd` (`Consistent`) and `hW` (`ChoiceIsPerm`) of the generated-code theorems discharged for a concrete world whose
distribution has a NON-constant log-density (`log q(x) = −x`, sample = key + 1), and the theorems applied: equal ELBO values, 3 valid
index rows for `b = 3, n = 2`, a non-negative contrastive loss. -/
theorem gen_hyps_audit_instance :
    (auditW.methods (auditW.combine () ())).Consistent ∧ auditW.ChoiceIsPerm ∧
    elboCall auditW (ElboLoss.init (fun x => (x : ℝ)) 3 true) () () 5 = elboCall auditW (ElboLoss.init (fun x => (x : ℝ)) 3 false) () () 5 ∧
    (∃ rows, getContrastiveIdxs auditW 0 3 2 = some rows ∧ rows.length = 3) ∧
    ∃ v, contrastiveCall auditW (ContrastiveLoss.init (fun _ => 0) 2) () () ((List.range 3).map id) ((List.range 3).map fun _ => ()) 0
        = some v ∧ 0 ≤ v := by
  have hd : (auditW.methods (auditW.combine () ())).Consistent := fun _ _ => rfl
  have hW : auditW.ChoiceIsPerm := fun _ _ => List.Perm.refl _
  refine ⟨hd, hW, gen_elbo_stl_same_value auditW _ 3 () () 5 hd, ?_, ?_⟩
  · obtain ⟨rows, h1, h2, _⟩ := gen_contrastive_idxs_valid auditW hW 0 3 2 (by omega)
    exact ⟨rows, h1, h2⟩
  · exact (gen_contrastive_nonneg auditW hW (fun _ => 0) () () 0 2).1 3 id (fun _ => ()) (by omega)
end Audit

end C17
