import Flowjaxv.Proofs.Losses
/-!
# C17 — the three losses compute their defining formulas

About the hand models of `flowjax/train/losses.py` in `Model/Losses.lean` (tied to the real
`MaximumLikelihoodLoss`, `ElboLoss`, `ContrastiveLoss`, `_get_contrastive_idxs` by the
correspondence in `tools/props/c17.py`).  A batch of size `b` is given by its index functions
(`x i`, `c i`, `key i` for `i < b`); every non-empty list is of that form
(`Losses.exists_index_fn`), so all batch sizes / sample counts are covered.  For `b = 0` the
real value is `0/0 = NaN`; over `ℝ` the formulas read `0/0 = 0` on both sides.

**Not a theorem here:** "with stick-the-landing the gradient omits the score-function term".
That is a statement about `jax.lax.stop_gradient` under JAX's reverse-mode autodiff, which has no
counterpart in a value-level model (`stop_gradient p` has the value `p`, which is all
`elbo_stl_same_value` can and does use).  It is checked on the real code in
`tools/props/c17.py` (`stl_gradient_check`): the `eqx.filter_grad` of the real STL loss for
q = Normal(μ, σ) and a quadratic target is compared with the closed-form path-derivative
estimator computed from the same base samples, and the plain ELBO gradient is checked to differ
from it by exactly the score term.
-/
open Losses

namespace C17
variable {X C K : Type}

/-- the maximum-likelihood loss is minus the mean log-probability of the batch:
`-(Σ_{i<b} log p(xᵢ | cᵢ)) / b`, for every batch size `b` (conditional; unconditional = `C := Unit`). -/
theorem mle_def (d : Distn X C K ℝ) (b : ℕ) (x : ℕ → X) (c : ℕ → C) :
    mleLoss d ((List.range b).map x) ((List.range b).map c)
      = -((∑ i ∈ Finset.range b, d.logProb (x i) (c i)) / (b : ℝ)) := by
  rw [mleLoss, ← mean_range_map]
  congr 2
  rw [List.zipWith_map, List.zipWith_self]

/-- the same for two arbitrary lists of equal length (what `vmap`/broadcasting of `log_prob` requires) -/
theorem mle_def_lists (d : Distn X C K ℝ) (xs : List X) (cs : List C) (h : cs.length = xs.length) :
    mleLoss d xs cs = -((List.zipWith d.logProb xs cs).sum / (xs.length : ℝ)) := by
  rw [mleLoss, mean_eq, List.length_zipWith, h, Nat.min_self]

/-- the ELBO loss (both settings) is the mean over the samples drawn with the per-sample keys of
`log q(x) − target(x)`: without stick-the-landing `(x, log q(x))` come from `sample_and_log_prob`,
with it `x` comes from `sample` and `log q(x)` from `log_prob`. -/
theorem elbo_def (d : Distn X C K ℝ) (target : X → ℝ) (n : ℕ) (key : ℕ → K) (c : C) :
    elboLoss d target false ((List.range n).map key) c
        = (∑ i ∈ Finset.range n, ((d.sampleLp (key i) c).2 - target (d.sampleLp (key i) c).1)) / (n : ℝ)
    ∧ elboLoss d target true ((List.range n).map key) c
        = (∑ i ∈ Finset.range n, (d.logProb (d.sample (key i) c) c - target (d.sample (key i) c))) / (n : ℝ) := by
  constructor
  · rw [elbo_nonstl, List.map_map, mean_range_map]; rfl
  · rw [elbo_stl, List.map_map, mean_range_map]; rfl

/-- same value with or without stick-the-landing, for every distribution whose
`sample_and_log_prob` agrees with `sample` + `log_prob` (C03: every lawful transformed
distribution), every target, every list of keys. -/
theorem elbo_stl_same_value (d : Distn X C K ℝ) (hd : d.Consistent) (target : X → ℝ)
    (keys : List K) (c : C) :
    elboLoss d target true keys c = elboLoss d target false keys c := by
  rw [elbo_stl, elbo_nonstl]
  congr 1
  apply List.map_congr_left
  intro k _
  rw [hd k c]

/-- every row of `_get_contrastive_idxs(key, b, n)` — for whatever permutations `jr.choice` realises —
has exactly `n` entries, pairwise distinct, none equal to the row's own index, all `< b`;
and there are `b` rows.  Needs `n < b` (the guard of the loss). -/
theorem contrastive_idxs_valid (b n : ℕ) (π : ℕ → List ℕ) (hn : n < b) (hπ : Admissible b π) :
    (contrastiveIdxs b n π).length = b ∧
    ∀ i, i < b → ∃ row, (contrastiveIdxs b n π)[i]? = some row ∧
      row.length = n ∧ row.Nodup ∧ i ∉ row ∧ ∀ j ∈ row, j < b := by
  refine ⟨by simp [contrastiveIdxs], fun i hi => ⟨(π i).take n, ?_, take_valid hπ hn hi⟩⟩
  simp [contrastiveIdxs, hi]

/-- the contrastive loss equals its defining softmax cross-entropy: the mean over rows of
`−log( e^{posᵢ} / (e^{posᵢ} + Σ_{j ∈ idxsᵢ} e^{negᵢⱼ}) )` with `posᵢ = logit(xᵢ, cᵢ)`,
`negᵢⱼ = logit(xⱼ, cᵢ)`, `logit(x, c) = log p(x|c) − log prior(x)`, `idxsᵢ` = row `i` of the indices. -/
theorem contrastive_def (d : Distn X C K ℝ) (prior : X → ℝ) (b n : ℕ) (x : ℕ → X) (c : ℕ → C)
    (π : ℕ → List ℕ) (hn : n < b) (hπ : Admissible b π) :
    contrastiveLoss d prior n ((List.range b).map x) ((List.range b).map c) π
      = some ((∑ i ∈ Finset.range b,
          -Real.log (Real.exp (logit d prior (x i) (c i)) /
            (Real.exp (logit d prior (x i) (c i))
              + (((π i).take n).map fun j => Real.exp (logit d prior (x j) (c i))).sum))) / (b : ℝ)) := by
  rw [contrastive_eval d prior b n x c π hn hπ, mean_range_map]
  simp only [rowTerm_eq, List.map_map]
  rfl

/-- the contrastive loss is never negative: every row term is `≥ 0` (because
`logsumexp(contrastive ++ [pos]) ≥ pos`, for all logits whatsoever), hence so is the mean. -/
theorem contrastive_nonneg (d : Distn X C K ℝ) (prior : X → ℝ) (b n : ℕ) (x : ℕ → X) (c : ℕ → C)
    (π : ℕ → List ℕ) (hn : n < b) (hπ : Admissible b π) :
    (∀ (pos : ℝ) (con : List ℝ), pos ≤ lse (con ++ [pos]) ∧ 0 ≤ rowTerm pos con) ∧
    ∃ v, contrastiveLoss d prior n ((List.range b).map x) ((List.range b).map c) π = some v ∧ 0 ≤ v := by
  refine ⟨fun pos con => ⟨le_lse pos con, rowTerm_nonneg pos con⟩, _, contrastive_eval d prior b n x c π hn hπ, ?_⟩
  rw [mean_range_map]
  apply div_nonneg
  · exact Finset.sum_nonneg fun i _ => rowTerm_nonneg _ _
  · exact Nat.cast_nonneg b

/-- the model raises exactly when the batch is not larger than `n_contrastive` (the explicit
`ValueError`) or the batch sizes of `x` and `condition` differ (`filter_vmap`); for ARBITRARY lists. -/
theorem contrastive_guard (d : Distn X C K ℝ) (prior : X → ℝ) (n : ℕ) (xs : List X) (cs : List C)
    (π : ℕ → List ℕ) (hπ : Admissible xs.length π) :
    contrastiveLoss d prior n xs cs π = none ↔ (xs.length ≤ n ∨ cs.length ≠ xs.length) := by
  constructor
  · intro h
    by_contra hne
    obtain ⟨hn, hl⟩ := not_or.mp hne
    have hn := not_le.mp hn
    have hl := not_not.mp hl
    have hx : xs ≠ [] := by intro h0; simp [h0] at hn
    have hc : cs ≠ [] := by intro h0; rw [h0] at hl; simp at hl; omega
    obtain ⟨x, hxe⟩ := exists_index_fn xs hx
    obtain ⟨c, hce⟩ := exists_index_fn cs hc
    rw [hl] at hce
    have := contrastive_eval d prior xs.length n x c π hn hπ
    rw [← hxe, ← hce, h] at this
    simp at this
  · rintro (h | h)
    · simp [contrastiveLoss, h]
    · simp [contrastiveLoss, h]

/-! ### non-vacuity -/

/-- the identity family `π i = choices b i` is admissible for every `b`, so the hypotheses of the
index/contrastive theorems are satisfiable for every batch size -/
theorem admissible_instance (b : ℕ) : Admissible b (fun i => choices b i) :=
  fun _ _ => List.Perm.refl _

/-- a concrete consistent distribution on `ℝ` (keys are the samples, `log q(x) = −x²`) -/
theorem consistent_instance :
    (⟨fun x _ => -(x * x), fun k _ => k, fun k _ => (k, -(k * k))⟩ : Distn ℝ Unit ℝ ℝ).Consistent :=
  fun _ _ => rfl

/-- a concrete index table: batch 3, `n = 2`, reversed candidate lists -/
theorem idxs_instance :
    contrastiveIdxs 3 2 (fun i => (choices 3 i).reverse) = [[2, 1], [2, 0], [1, 0]] := by
  decide

/-- a concrete value: batch 2, one contrastive sample, all logits `0` → loss `log 2` -/
theorem contrastive_instance :
    contrastiveLoss (⟨fun _ _ => 0, fun k _ => k, fun k _ => (k, 0)⟩ : Distn ℝ Unit ℝ ℝ) (fun _ => 0) 1
        ((List.range 2).map fun _ => (0 : ℝ)) ((List.range 2).map fun _ => ()) (fun i => choices 2 i)
      = some (Real.log 2) := by
  rw [contrastive_def _ _ 2 1 _ _ _ (by norm_num) (admissible_instance 2)]
  have h0 : choices 2 0 = [1] := by decide
  have h1 : choices 2 1 = [0] := by decide
  simp [Finset.sum_range_succ, logit, h0, h1]
  norm_num

end C17
