import Flowjaxv.Proofs.Vectorize
import Flowjaxv.Proofs.VectorizeGen
/-!
# C06 — batching: leading batch dimensions broadcast like NumPy, every element is the unbatched call

About the hand-written model `Model/Vectorize.lean` of `AbstractDistribution.log_prob / sample /
sample_and_log_prob`, `_vectorize` (incl. `_check_shapes`), `_get_sample_keys`, `_get_ufunc_signature`
and of `jnp.vectorize`'s signature parsing / broadcasting.  The model is tied to the real code on
every run by `tools/props/c06.py` (signature strings, output shapes and exception classes, the
element pairing `pair`, key shapes, key distinctness, determinism).

All theorems are for arbitrary ranks and sizes (lists of arbitrary length, arbitrary `Nat` entries).
`split key n j` is the `j`-th of the `n` keys of `jr.split(key, n)`; it is abstract and only assumed
injective in `j` (for `j < n`).  The unbatched methods `_log_prob / _sample / _sample_and_log_prob`
are arbitrary functions.
-/
open Vec

namespace C06

variable {X C K L R : Type}

/-! ## the ufunc signature -/

/-- the text produced by `_get_ufunc_signature`: each shape as `(d1,d2,…)` — no spaces, no trailing
comma for rank 1, `()` for rank 0 — joined by commas, inputs and outputs separated by `->` -/
theorem sig_text (ins outs : List Shape) :
    (ufuncSignature ins outs).toList
      = joinWith [','] (ins.map canon) ++ ['-', '>'] ++ joinWith [','] (outs.map canon) := by
  simp only [ufuncSignature, String.toList_ofList, ufuncSignatureChars, shapesToStr_eq]

/-- Reading the signature back the way `jnp.vectorize` does (`_parse_gufunc_signature`) returns exactly
the given core shapes: same number of arguments and results, same ranks (incl. 0 and 1), and every
numeral names the size it was printed from.  All lists of shapes of every rank and size; both lists
non-empty (see `sig_empty_inputs_rejected`). -/
theorem sig_roundtrip (ins outs : List Shape) (hi : ins ≠ []) (ho : outs ≠ []) :
    parseSignature (ufuncSignature ins outs) = some (ins, outs) :=
  parseSignature_roundtrip ins outs hi ho

/-- the excluded point of `sig_roundtrip`: with no input shape the text is `->…`, which is not a gufunc
signature (JAX raises ValueError).  flowjax always passes at least one input shape. -/
theorem sig_empty_inputs_rejected (outs : List Shape) : parseSignature (ufuncSignature [] outs) = none := by
  have : parseSignatureChars (ufuncSignatureChars [] outs) = none := by
    simp [parseSignatureChars, ufuncSignatureChars, shapesToStr_eq, joinWith, splitArrow, parseArgList, scan]
  simp [parseSignature, ufuncSignature, String.toList_ofList, this]

/-- consequently `jnp.vectorize(f, signature=_get_ufunc_signature(ins, outs))` works with exactly the declared
input core shapes (the shape pipeline through the string = the pipeline on the declared shapes) -/
theorem sig_vectorize_reads_declared_shapes (i : Shape) (is : List Shape) (o : Shape) (os : List Shape)
    (args : List Shape) :
    vectorizeLoopSig (ufuncSignature (i :: is) (o :: os)) args = vectorizeLoop (i :: is) args :=
  vectorizeLoopSig_ufunc i is o os args

/-- non-vacuity: the docstring example, a scalar, and the key/condition signature of `_sample` -/
theorem sig_roundtrip_instance :
    ufuncSignature [[3], [2, 3]] [[]] = "(3),(2,3)->()" ∧
    parseSignature "(3),(2,3)->()" = some ([[3], [2, 3]], [[]]) ∧
    ufuncSignature [[2], []] [[], []] = "(2),()->(),()" ∧
    parseSignature (ufuncSignature [[2], []] [[], []]) = some ([[2], []], [[], []]) := by
  refine ⟨by decide, by decide, by decide, sig_roundtrip _ _ (by simp) (by simp)⟩

/-! ## `_get_sample_keys`: the leading shape of the condition -/

/-- `condition.shape[: -cond_ndim or None] ++ cond_shape = condition.shape`, for every rank of
`cond_shape` — including rank 0, where `-0 or None` is `None` and the slice is the whole shape -/
theorem leading_cond_shape (lead cs : Shape) :
    leadingCondShape (lead ++ cs) cs.length = lead ∧
    leadingCondShape (lead ++ cs) cs.length ++ cs = lead ++ cs := by
  rw [leadingCondShape_append]; exact ⟨rfl, rfl⟩

/-- the `or None` is needed: the plain slice `shape[:-0]` stops at 0 (empty), not at the end -/
theorem leading_cond_shape_needs_or_none (len : Nat) :
    pySliceStop len (some (-((0 : Nat) : Int))) = 0 ∧ pySliceStop len (negOrNone 0) = len := by
  simp [pySliceStop, negOrNone]

theorem leading_cond_shape_instance :
    leadingCondShape [4, 1] 0 = [4, 1] ∧ leadingCondShape [4, 3] 1 = [4] ∧
    leadingCondShape [5, 2, 3] 2 = [5] ∧ leadingCondShape [] 0 = [] := by decide

/-! ## output shapes -/

/-- `log_prob`: batch shape = NumPy broadcast of x's and the condition's leading shapes (no event shape);
ValueError when they do not broadcast -/
theorem out_shape_log_prob (shape cs ss xb cb : Shape) :
    outShape .logProb shape (some cs) ss (xb ++ shape) (some (cb ++ cs)) =
      match bcast2 xb cb with
      | some l => .ok [l]
      | none => .error .valueError :=
  outShape_logProb_cond shape cs ss xb cb

/-- unconditional `log_prob`: the leading shape of x; the (ignored) condition plays no role -/
theorem out_shape_log_prob_unconditional (shape ss xb : Shape) (c : Option Shape) :
    outShape .logProb shape none ss (xb ++ shape) c = .ok [xb] :=
  outShape_logProb_uncond shape ss xb c

/-- `sample`: `sample_shape + condition batch shape + event shape`, for ALL sample shapes and condition
batches (zero-sized ones included, since /repo commit 2d206ec) -/
theorem out_shape_sample (shape cs ss xs cb : Shape) :
    outShape .sample shape (some cs) ss xs (some (cb ++ cs)) = .ok [ss ++ cb ++ shape] :=
  outShape_sample_cond shape cs ss xs cb

/-- `sample_and_log_prob`: samples as for `sample`, log-probs without the event shape -/
theorem out_shape_sample_and_log_prob (shape cs ss xs cb : Shape) :
    outShape .sampleLp shape (some cs) ss xs (some (cb ++ cs)) = .ok [ss ++ cb ++ shape, ss ++ cb] :=
  outShape_sampleLp_cond shape cs ss xs cb

theorem out_shape_sample_unconditional (shape ss xs : Shape) (c : Option Shape) :
    outShape .sample shape none ss xs c = .ok [ss ++ shape] ∧
    outShape .sampleLp shape none ss xs c = .ok [ss ++ shape, ss] :=
  ⟨outShape_sample_uncond shape ss xs c, outShape_sampleLp_uncond shape ss xs c⟩

/-- zero-sized `sample_shape` or condition batch: the samplers succeed with the usual shapes and the
result has no element (no multi-index is in bounds) -/
theorem zero_size_sample_ok (shape cs ss xs cb : Shape) (h : sprod (ss ++ cb) = 0) :
    outShape .sample shape (some cs) ss xs (some (cb ++ cs)) = .ok [ss ++ cb ++ shape] ∧
    outShape .sampleLp shape (some cs) ss xs (some (cb ++ cs)) = .ok [ss ++ cb ++ shape, ss ++ cb] ∧
    (∀ i, ¬ ValidIdx (ss ++ cb) i) ∧ keySize (ss ++ cb) = 0 :=
  ⟨outShape_sample_cond shape cs ss xs cb, outShape_sampleLp_cond shape cs ss xs cb,
   fun i hi => by have := flatIndex_lt hi; omega, h⟩

/-- The repaired defect, kept on record as a model variant: with the previous rule
`key_size = max(1, prod(key_shape))` the reshape in `_get_sample_keys` fails (TypeError) exactly when
`prod(key_shape) = 0`, and otherwise gives the same key array as the current rule. -/
theorem max1_variant_rejects_zero_size (split : K → Nat → Nat → K) (key : K) (ks : Shape) :
    (sampleKeysWith keySizeMax1 split key ks = .error .typeError ↔ sprod ks = 0) ∧
    (sprod ks ≠ 0 → sampleKeysWith keySizeMax1 split key ks = sampleKeys split key ks) ∧
    keySizeMax1 [0] = 1 ∧ keySize [0] = 0 := by
  rw [sampleKeysWith_max1, sampleKeys_eq]
  refine ⟨?_, fun h => by rw [if_pos h], rfl, rfl⟩
  by_cases h : sprod ks ≠ 0
  · rw [if_pos h]; constructor
    · intro e; cases e
    · intro e; exact absurd e h
  · rw [if_neg h]; exact ⟨fun _ => by omega, fun _ => rfl⟩

/-- the shape-only function that the driver prints is the shape of the value-level model, for all
three methods, conditional and unconditional, on all inputs (accepted or rejected) -/
theorem out_shape_is_model_shape (shape cs ss xs : Shape) (lp : X → C → L) (post : L → L)
    (smp : K → C → X) (slp : K → C → X × L) (split : K → Nat → Nat → K) (key : K) (x : Arr X) (c : Arr C)
    (c0 : C) (cshape : Option Shape) :
    outShape .logProb shape (some cs) ss x.shape (some c.shape)
      = (logProbCond shape cs lp post x (some c)).map (fun b => [b.loop]) ∧
    outShape .sample shape (some cs) ss xs (some c.shape)
      = (sampleCond cs smp split key ss (some c)).map (fun b => [b.loop ++ shape]) ∧
    outShape .sampleLp shape (some cs) ss xs (some c.shape)
      = (sampleLpCond cs slp split key ss (some c)).map (fun b => [b.loop ++ shape, b.loop]) ∧
    outShape .logProb shape none ss x.shape cshape
      = (logProbUncond shape lp post x c0).map (fun b => [b.loop]) ∧
    outShape .sample shape none ss xs cshape
      = (sampleUncond smp split key ss c0).map (fun b => [b.loop ++ shape]) ∧
    outShape .sampleLp shape none ss xs cshape
      = (sampleLpUncond slp split key ss c0).map (fun b => [b.loop ++ shape, b.loop]) :=
  ⟨outShape_logProb_cond_link .., outShape_sample_cond_link .., outShape_sampleLp_cond_link ..,
   outShape_logProb_uncond_link .., outShape_sample_uncond_link .., outShape_sampleLp_uncond_link ..⟩

/-- non-vacuity incl. the scalar-event / scalar-condition corners, size-1 axes, zero-sized batches, and both
error classes -/
theorem out_shape_instance :
    outShape .logProb [2] (some [3]) [] [5, 1, 2] (some [4, 3]) = .ok [[5, 4]] ∧
    outShape .logProb [] (some []) [] [5, 1, 1] (some [4, 1]) = .ok [[5, 4, 1]] ∧
    outShape .logProb [] (some []) [] [] (some []) = .ok [[]] ∧
    outShape .sampleLp [] (some []) [2, 3] [] (some [4, 1]) = .ok [[2, 3, 4, 1], [2, 3, 4, 1]] ∧
    outShape .sampleLp [2, 3] (some [2, 3]) [2] [] (some [4, 1, 2, 3]) = .ok [[2, 4, 1, 2, 3], [2, 4, 1]] ∧
    outShape .sample [] none [] [] none = .ok [[]] ∧
    outShape .logProb [2] (some [3]) [] [2, 2] (some [3, 3]) = .error .valueError ∧
    outShape .logProb [2] (some [3]) [] [3] (some [3]) = .error .valueError ∧
    outShape .sample [2] (some [3]) [0] [] (some [4, 3]) = .ok [[0, 4, 2]] ∧
    outShape .sampleLp [] (some []) [2] [] (some [0, 1]) = .ok [[2, 0, 1], [2, 0, 1]] ∧
    outShape .sample [2] (some [3]) [] [] none = .error .typeError := by
  refine ⟨?_, ?_, ?_, ?_, ?_, ?_, ?_, ?_, ?_, ?_, ?_⟩ <;> rfl

/-! ## every element is the unbatched call on the corresponding broadcast slice -/

/-- `log_prob`: if the batched call is accepted then the shapes split as `batch ++ core`, the loop shape
is the broadcast of the two batch shapes, and the output element at every loop index `i` equals the
result of the SAME public method called on the single slices `x[bIndex xb i]`, `condition[bIndex cb i]`
(both in bounds) — the slices that NumPy broadcasting pairs at `i`. -/
theorem batched_eq_elementwise_log_prob (shape cs : Shape) (lp : X → C → L) (post : L → L)
    (x : Arr X) (c : Arr C) (out : Batched L)
    (h : logProbCond shape cs lp post x (some c) = .ok out) :
    ∃ xb cb, x.shape = xb ++ shape ∧ c.shape = cb ++ cs ∧ bcast2 xb cb = some out.loop ∧
      ∀ i, ValidIdx out.loop i →
        ValidIdx xb (bIndex xb i) ∧ ValidIdx cb (bIndex cb i) ∧
        ∃ u, logProbCond shape cs lp post ⟨shape, fun _ => x.slice (bIndex xb i)⟩
                (some ⟨cs, fun _ => c.slice (bIndex cb i)⟩) = .ok u ∧
             u.loop = [] ∧ u.elem [] = out.elem i := by
  obtain ⟨xb, cb, loop, hx, hc, hb⟩ := (logProbCond_ok_iff shape cs lp post x c).1 ⟨out, h⟩
  rw [logProbCond_eq shape cs xb cb lp post x c hx hc, hb] at h
  cases h
  refine ⟨xb, cb, hx, hc, hb, fun i hi => ⟨bIndex_valid_left hb hi, bIndex_valid_right hb hi, ?_⟩⟩
  rw [logProbCond_eq shape cs [] [] lp post _ _ rfl rfl]
  exact ⟨_, rfl, rfl, rfl⟩

/-- unconditional `log_prob`: element `i` is the unbatched call on `x[i]` -/
theorem batched_eq_elementwise_log_prob_unconditional (shape : Shape) (lp : X → C → L) (post : L → L)
    (x : Arr X) (c0 : C) (out : Batched L) (h : logProbUncond shape lp post x c0 = .ok out) :
    x.shape = out.loop ++ shape ∧ ∀ i, ValidIdx out.loop i → out.elem i = post (lp (x.slice i) c0) := by
  simp only [logProbUncond, vectorize1_eq] at h
  cases h1 : leadingShape x.shape shape with
  | none => simp [h1, Except.map] at h
  | some xb =>
    simp only [h1, Except.map, Except.ok.injEq] at h
    subst h
    exact ⟨leadingShape_eq_some.1 h1, fun i hi => by simp only [bIndex_self hi]⟩

/-- x and the condition with the SAME batch shape: element `i` pairs `x[i]` with `condition[i]`, never
with another index -/
theorem paired_same_index (shape cs b : Shape) (lp : X → C → L) (post : L → L) (x : Arr X) (c : Arr C)
    (hx : x.shape = b ++ shape) (hc : c.shape = b ++ cs) :
    ∃ out, logProbCond shape cs lp post x (some c) = .ok out ∧ out.loop = b ∧
      ∀ i, ValidIdx b i → out.elem i = post (lp (x.slice i) (c.slice i)) := by
  rw [logProbCond_eq shape cs b b lp post x c hx hc, bcast2_self]
  exact ⟨_, rfl, rfl, fun i hi => by simp only [bIndex_self hi]⟩

/-- `sample` / `sample_and_log_prob` (any unbatched method `m key condition`): if accepted, the condition's
shape is `cb ++ cond_shape`, the loop shape is `sample_shape ++ cb`, `_get_sample_keys` succeeds with
key shape `sample_shape ++ cb`, and the element at `(s, ci)` is the unbatched method applied to the key
at `(s, ci)` and the condition slice `ci` (whatever `s` is). -/
theorem batched_eq_elementwise_sample (cs ss : Shape) (m : K → C → R) (split : K → Nat → Nat → K) (key : K)
    (c : Arr C) (out : Batched R) (h : sampleWithCond cs m split key ss (some c) = .ok out) :
    ∃ cb keys, c.shape = cb ++ cs ∧ out.loop = ss ++ cb ∧
      sampleKeys split key (keyShape ss (some cs) (some c.shape)) = .ok keys ∧
      keys.shape = ss ++ cb ++ [2] ∧
      ∀ s ci, s.length = ss.length → ValidIdx (ss ++ cb) (s ++ ci) →
        ValidIdx cb ci ∧ out.elem (s ++ ci) = m (keys.slice (s ++ ci)) (c.slice ci) := by
  obtain ⟨cb, hc⟩ := (sampleWithCond_ok_iff cs ss m split key c).1 ⟨out, h⟩
  rw [sampleWithCond_eq cs ss cb m split key c hc] at h
  cases h
  refine ⟨cb, ⟨ss ++ cb ++ [2], fun i => split key (sprod (ss ++ cb)) (flatIndex (ss ++ cb) i)⟩, hc, rfl, ?_, rfl, ?_⟩
  · rw [hc, keyShape_cond, sampleKeys_eq]
  · intro s ci hs hv
    have hci := ((validIdx_append_iff hs).1 hv).2
    refine ⟨hci, ?_⟩
    simp only [bIndex_self hv, bIndex_append hci]

/-- the two public samplers are instances of the previous theorem -/
theorem batched_eq_elementwise_sample_methods (cs ss : Shape) (smp : K → C → X) (slp : K → C → X × L)
    (split : K → Nat → Nat → K) (key : K) (c : Arr C) :
    sampleCond cs smp split key ss (some c) = sampleWithCond cs smp split key ss (some c) ∧
    sampleLpCond cs slp split key ss (some c) = sampleWithCond cs slp split key ss (some c) := ⟨rfl, rfl⟩

/-- unconditional samplers: always accepted, loop shape = `sample_shape`, element `s` uses the key at `s` -/
theorem batched_eq_elementwise_sample_unconditional (ss : Shape) (m : K → C → R) (split : K → Nat → Nat → K)
    (key : K) (c0 : C) :
    ∃ out, sampleWithoutCond m split key ss c0 = .ok out ∧ out.loop = ss ∧
      ∀ s, ValidIdx ss s → out.elem s = m (split key (sprod ss) (flatIndex ss s)) c0 := by
  rw [sampleWithoutCond_eq]
  exact ⟨_, rfl, rfl, fun s hs => by simp only [bIndex_self hs]⟩

/-- the driver op `pair` (used by the correspondence to pick the slices of the real arrays) prints the flat
positions of exactly the multi-indices `bIndex …` that the model's element function reads -/
theorem pair_is_model_pairing (la lb loop : Shape) (k : Nat) (h : bcast2 la lb = some loop) (hk : k < sprod loop) :
    pairFlat [la, lb] k
      = some (loop, [flatIndex la (bIndex la (unflatten loop k)), flatIndex lb (bIndex lb (unflatten loop k))]) ∧
    flatIndex la (bIndex la (unflatten loop k)) < sprod la ∧
    flatIndex lb (bIndex lb (unflatten loop k)) < sprod lb ∧
    unflatten la (flatIndex la (bIndex la (unflatten loop k))) = bIndex la (unflatten loop k) ∧
    unflatten lb (flatIndex lb (bIndex lb (unflatten loop k))) = bIndex lb (unflatten loop k) :=
  pairFlat_two h hk

theorem batched_eq_elementwise_instance :
    ∃ out, logProbCond (X := Nat) (C := Nat) (L := Nat) [] [] (fun x c => 10 * x + c) id
        ⟨[2, 1], fun i => flatIndex [2, 1] i⟩ (some ⟨[3], fun i => 5 + flatIndex [3] i⟩) = .ok out ∧
      out.loop = [2, 3] ∧ out.elem [1, 2] = 17 ∧ out.elem [0, 1] = 6 :=
  ⟨_, rfl, rfl, by decide, by decide⟩

/-! ## keys: one distinct key per output element -/

/-- `_get_sample_keys` always succeeds (every key shape, zero-sized ones included): the array has shape
`key_shape + (2,)`, the number of keys `key_size` equals `prod(key_shape)` (= number of output elements),
the reshape is a bijection between flat key numbers `n < key_size` and multi-indices of `key_shape`
(row-major), and — `split` being injective — keys at different multi-indices are different. -/
theorem keys_distinct (split : K → Nat → Nat → K)
    (hinj : ∀ k n i j, i < n → j < n → split k n i = split k n j → i = j)
    (key : K) (ks : Shape) :
    ∃ keys, sampleKeys split key ks = .ok keys ∧
    keys.shape = ks ++ [2] ∧ keySize ks = sprod ks ∧
    (∀ i, ValidIdx ks i → flatIndex ks i < keySize ks ∧ keys.slice i = split key (keySize ks) (flatIndex ks i)) ∧
    (∀ n, n < keySize ks → ValidIdx ks (unflatten ks n) ∧ flatIndex ks (unflatten ks n) = n ∧
        keys.slice (unflatten ks n) = split key (keySize ks) n) ∧
    (∀ i j, ValidIdx ks i → ValidIdx ks j → keys.slice i = keys.slice j → i = j) := by
  rw [sampleKeys_eq]
  refine ⟨_, rfl, rfl, rfl, ?_, ?_, ?_⟩
  · intro i hi; exact ⟨flatIndex_lt hi, rfl⟩
  · intro n hn
    rw [keySize_eq] at hn
    exact ⟨validIdx_unflatten hn, flatIndex_unflatten hn, by simp only [flatIndex_unflatten hn, keySize_eq]⟩
  · intro i j hi hj he
    exact flatIndex_inj hi hj (hinj key (sprod ks) _ _ (flatIndex_lt hi) (flatIndex_lt hj) he)

/-- no two elements of one batched sample share a key: there is a key assignment, injective on the
output positions, such that each element is the unbatched method at its own key -/
theorem sample_elements_use_distinct_keys (split : K → Nat → Nat → K)
    (hinj : ∀ k n i j, i < n → j < n → split k n i = split k n j → i = j)
    (cs ss : Shape) (m : K → C → R) (key : K) (c : Arr C) (out : Batched R)
    (h : sampleWithCond cs m split key ss (some c) = .ok out) :
    ∃ (keyOf : List Nat → K) (cb : Shape), c.shape = cb ++ cs ∧ out.loop = ss ++ cb ∧
      (∀ i, ValidIdx out.loop i → out.elem i = m (keyOf i) (c.slice (bIndex cb i))) ∧
      (∀ i j, ValidIdx out.loop i → ValidIdx out.loop j → keyOf i = keyOf j → i = j) := by
  obtain ⟨cb, hc⟩ := (sampleWithCond_ok_iff cs ss m split key c).1 ⟨out, h⟩
  rw [sampleWithCond_eq cs ss cb m split key c hc] at h
  cases h
  refine ⟨fun i => split key (sprod (ss ++ cb)) (flatIndex (ss ++ cb) i), cb, hc, rfl, ?_, ?_⟩
  · intro i hi; simp only [bIndex_self hi]
  · intro i j hi hj he
    exact flatIndex_inj hi hj (hinj key _ _ _ (flatIndex_lt hi) (flatIndex_lt hj) he)

theorem keys_distinct_instance :
    ∃ keys, sampleKeys (Key := Nat × Nat × Nat) (fun k n j => (k.1, n, j)) (7, 0, 0) [2, 3] = .ok keys ∧
      keys.shape = [2, 3, 2] ∧ keySize [2, 3] = 6 ∧ keys.slice [1, 2] = (7, 6, 5) ∧
      keySize [] = 1 ∧ keySize [2, 0] = 0 ∧ keyShape [2] (some []) (some [4, 1]) = [2, 4, 1] :=
  ⟨_, rfl, rfl, by decide, by decide, by decide, by decide, by decide⟩

/-! ## the same key gives the same result -/

/-- The batched sample is a function of `(key, sample_shape, condition)` — it is a Lean function — and
moreover depends on the condition only through its shape and its in-bounds slices: two conditions that
agree there give the same loop shape and the same element at every output position. -/
theorem deterministic (cs ss : Shape) (m : K → C → R) (split : K → Nat → Nat → K) (key : K)
    (c c' : Arr C) (hs : c'.shape = c.shape)
    (hv : ∀ cb, c.shape = cb ++ cs → ∀ i, ValidIdx cb i → c'.slice i = c.slice i)
    (out : Batched R) (h : sampleWithCond cs m split key ss (some c) = .ok out) :
    ∃ out', sampleWithCond cs m split key ss (some c') = .ok out' ∧ out'.loop = out.loop ∧
      ∀ i, ValidIdx out.loop i → out'.elem i = out.elem i := by
  obtain ⟨cb, hc⟩ := (sampleWithCond_ok_iff cs ss m split key c).1 ⟨out, h⟩
  rw [sampleWithCond_eq cs ss cb m split key c hc] at h
  cases h
  rw [sampleWithCond_eq cs ss cb m split key c' (hs.trans hc)]
  refine ⟨_, rfl, rfl, fun i hi => ?_⟩
  have := bIndex_valid_right (bcast2_prefix ss cb) hi
  simp only [hv cb hc _ this]

/-- same key, same arguments ⇒ identical result (and likewise for `log_prob`) -/
theorem deterministic_same_key (cs ss : Shape) (m : K → C → R) (split : K → Nat → Nat → K) (k₁ k₂ : K)
    (c : Option (Arr C)) (hk : k₁ = k₂) :
    sampleWithCond cs m split k₁ ss c = sampleWithCond cs m split k₂ ss c := by rw [hk]

/-! ## NumPy broadcasting -/

/-- broadcasting is commutative -/
theorem broadcast_comm (a b : Shape) : bcast2 a b = bcast2 b a := bcast2_comm a b

/-- one axis: the result is defined iff the sizes are equal or one of them is 1, and it is the other one -/
theorem broadcast_axis (x y d : Nat) :
    (bdim x y = some d ↔ (x = y ∧ d = x) ∨ (x = 1 ∧ d = y) ∨ (y = 1 ∧ d = x)) ∧
    (bdim x y = none ↔ x ≠ y ∧ x ≠ 1 ∧ y ≠ 1) := ⟨bdim_eq_some, bdim_eq_none⟩

/-- right alignment: broadcasting proceeds axis by axis from the right; a missing axis counts as absent
(`bcast2 [] s = s`) -/
theorem broadcast_right_aligned (a b : Shape) (x y : Nat) :
    bcast2 (a ++ [x]) (b ++ [y]) =
      (match bcast2 a b, bdim x y with
       | some r, some d => some (r ++ [d])
       | _, _ => none) ∧
    bcast2 [] a = some a ∧ bcast2 a [] = some a :=
  ⟨bcast2_snoc a b x y, bcast2_nil_left a, bcast2_nil_right a⟩

/-- size-1 axes stretch; equal shapes are unchanged; a longer shape absorbs its own suffix -/
theorem broadcast_size_one (a b p : Shape) (d : Nat) :
    bcast2 (a ++ [1]) (b ++ [d]) = (bcast2 a b).map (· ++ [d]) ∧
    bcast2 a a = some a ∧ bcast2 (p ++ a) a = some (p ++ a) ∧
    bcast2 (List.replicate a.length 1) a = some a := by
  refine ⟨?_, bcast2_self a, bcast2_prefix p a, ?_⟩
  · rw [bcast2_snoc, bdim_one_left]; cases bcast2 a b <;> rfl
  · rw [bcast2_comm]
    simp [bcast2, padTo, bzip_ones_right]

/-- the rank of the result is the larger rank -/
theorem broadcast_rank (a b r : Shape) (h : bcast2 a b = some r) : r.length = max a.length b.length :=
  bcast2_length h

/-- the index map of broadcasting: in bounds for both arguments; right-aligned; a size-1 axis is read at 0,
any other axis at the loop index -/
theorem broadcast_index (a b loop : Shape) (i : List Nat) (h : bcast2 a b = some loop) (hi : ValidIdx loop i)
    (lead : Shape) (d k : Nat) (j : List Nat) (hl : lead.length ≤ j.length) :
    ValidIdx a (bIndex a i) ∧ ValidIdx b (bIndex b i) ∧
    bIndex (lead ++ [d]) (j ++ [k]) = bIndex lead j ++ [if d = 1 then 0 else k] ∧
    bIndex [] j = [] :=
  ⟨bIndex_valid_left h hi, bIndex_valid_right h hi, bIndex_snoc lead d j k hl, by simp [bIndex]⟩

/-- row-major flat index ↔ multi-index is a bijection onto `[0, prod shape)` (used by `pair`) -/
theorem flat_index_bijection (s : Shape) :
    (∀ i, ValidIdx s i → flatIndex s i < sprod s ∧ unflatten s (flatIndex s i) = i) ∧
    (∀ k, k < sprod s → ValidIdx s (unflatten s k) ∧ flatIndex s (unflatten s k) = k) :=
  ⟨fun _ hi => ⟨flatIndex_lt hi, unflatten_flatIndex hi⟩,
   fun _ hk => ⟨validIdx_unflatten hk, flatIndex_unflatten hk⟩⟩

theorem broadcast_instance :
    bcast2 [5, 1, 1] [4, 1] = some [5, 4, 1] ∧ bcast2 [2] [3] = none ∧ bcast2 [] [] = some [] ∧
    broadcastShapes [[2, 1], [3], [1, 1, 1]] = some [1, 2, 3] ∧
    bIndex [4, 1] [3, 2, 0] = [2, 0] ∧ pairFlat [[5, 1, 1], [4, 1]] 7 = some ([5, 4, 1], [1, 3]) := by decide

/-! ## `_check_shapes` and acceptance -/

/-- the per-element check accepts iff the element's shape is the declared one; on a full argument shape:
stripping the declared core shape from the right succeeds iff the trailing dimensions match -/
theorem check_shapes_iff (declared elem full : Shape) :
    (checkShapes declared elem = true ↔ elem = declared) ∧
    (∀ l, leadingShape full declared = some l ↔ full = l ++ declared) ∧
    (leadingShape full declared = none ↔ ∀ l, full ≠ l ++ declared) :=
  ⟨checkShapes_iff declared elem, fun _ => leadingShape_eq_some, leadingShape_eq_none⟩

/-- `log_prob` is accepted iff both arguments end in the declared shapes and the leading shapes
broadcast; every rejection (rank too small, trailing mismatch, inconsistent numeral names,
non-broadcastable batch shapes) is a ValueError -/
theorem log_prob_accepts_iff (shape cs : Shape) (lp : X → C → L) (post : L → L) (x : Arr X) (c : Arr C) :
    ((∃ out, logProbCond shape cs lp post x (some c) = .ok out) ↔
      ∃ xb cb loop, x.shape = xb ++ shape ∧ c.shape = cb ++ cs ∧ bcast2 xb cb = some loop) ∧
    (∀ e, logProbCond shape cs lp post x (some c) = .error e → e = .valueError) ∧
    logProbCond shape cs lp post x none = .error .typeError :=
  ⟨logProbCond_ok_iff shape cs lp post x c, fun e h => logProbCond_error shape cs lp post x c e h, rfl⟩

/-- the samplers are accepted iff the condition ends in `cond_shape` (any `sample_shape`, any batch sizes);
every rejection is a ValueError; `condition=None` is a TypeError -/
theorem sample_accepts_iff (cs ss : Shape) (m : K → C → R) (split : K → Nat → Nat → K) (key : K) (c : Arr C) :
    ((∃ out, sampleWithCond cs m split key ss (some c) = .ok out) ↔ ∃ cb, c.shape = cb ++ cs) ∧
    (∀ e, sampleWithCond cs m split key ss (some c) = .error e → e = .valueError) ∧
    sampleWithCond cs m split key ss none = .error .typeError :=
  ⟨sampleWithCond_ok_iff cs ss m split key c, fun e h => sampleWithCond_error cs ss m split key c e h, rfl⟩

theorem check_shapes_instance :
    checkShapes [2, 3] [2, 3] = true ∧ checkShapes [2, 3] [3, 2] = false ∧ checkShapes [] [] = true ∧
    leadingShape [4, 2, 3] [2, 3] = some [4] ∧ leadingShape [4, 2, 3] [3, 3] = none ∧
    leadingShape [3] [2, 3] = none ∧ leadingShape [4, 1] [] = some [4, 1] := by decide

/-! ## The batching layer as REGENERATED from the source (`Gen/DistPublicGen.lean`)

`tools/py2lean/py2meth.py` translates `AbstractDistribution.log_prob / sample / sample_and_log_prob / ndim / cond_ndim /
_vectorize` (the `in_shapes` / `out_shapes` tables, `_check_shapes`' wrapper, the `excluded` set) `/ _get_sample_keys`
(`flowjax/distributions.py`) and `_get_ufunc_signature` (`flowjax/utils.py`) statement by statement on every run; `jnp.vectorize`
(`Pw.jnpVectorize`: signature parse, NumPy broadcasting, per-element application — the hand model above with the signature
string, the excluded set and the checking wrapper as arguments) and `jr.split` stay hand-modelled primitives of
`Model/DistPublicWorld.lean`.  `gen_*_eq`: each generated function equals the hand model's for all shapes, arrays and private
methods; the remaining theorems restate the main statements on the generated definitions.  `self` is any distribution object,
`W.unwrap self` what `unwrap` makes of it; a private method receives `CondVal.elem (one condition slice)` when the condition is
vectorised over and `CondVal.raw (the caller's object)` when it is excluded. -/
section generated
open Pw GenDist VectorizeGen

/-- the generated `_get_ufunc_signature` produces the hand model's signature, which parses back to the declared core shapes -/
theorem gen_ufunc_signature_eq (ins outs : List Shape) :
    getUfuncSignature ins outs = ufuncSignatureChars ins outs ∧
    String.ofList (getUfuncSignature ins outs) = ufuncSignature ins outs ∧
    (ins ≠ [] → outs ≠ [] → parseSig (getUfuncSignature ins outs) = some (ins, outs)) :=
  ⟨ufunc_signature_eq ins outs, ufunc_signature_string_eq ins outs, parseSig_roundtrip ins outs⟩

/-- the generated `ndim` / `cond_ndim` properties -/
theorem gen_ndim_eq (W : World X C K L) (d : DistObj X C K L) :
    ndim W d = d.shape.length ∧ condNdim W d = d.cond_shape.map List.length :=
  ⟨ndim_eq W d, cond_ndim_eq W d⟩

/-- the generated wrapper of `_check_shapes` raises iff the hand model's `checkShapes` fails on some (declared, actual) pair;
with it, `jnp.vectorize`'s shape pipeline is the hand model's `vectorizeLoop` -/
theorem gen_check_shapes_eq (ins : List Shape) (args : List Shaped) (argShapes : List Shape) :
    vectorize_checkShapes_wrapper_raises ins args = !((List.zipWith checkShapes ins (args.map (·.shape))).all id) ∧
    vectorizeLoopWith (vectorize_checkShapes_wrapper_raises ins) ins argShapes = vectorizeLoop ins argShapes :=
  ⟨wrapper_raises_eq ins args, vectorizeLoopWith_eq ins argShapes⟩

/-- the generated `_vectorize(method)`: the selected `in_shapes` / `out_shapes` are `methodShapes`, and the returned callable is the
hand model's `vectorize2` (conditional: nothing excluded) resp. `vectorize1` (unconditional: argument 1 excluded) -/
theorem gen_vectorize_eq {A : Type} (W : World X C K L) (d : DistObj X C K L) (m : BoundMethod A C R)
    (hout : m.outShapes = (methodShapes m.name d.shape d.cond_shape).2) (a : Arr A) :
    (∀ cs, d.cond_shape = some cs →
      (∀ c : Arr C, vectorize W d m a (some c) = vectorize2 (coreOf m.name d.shape) cs (fun a c => m.call a (.elem c)) a c) ∧
      vectorize W d m a none = .error .typeError) ∧
    (d.cond_shape = none →
      ∀ c : Option (Arr C), vectorize W d m a c = vectorize1 (coreOf m.name d.shape) (fun a => m.call a (.raw c)) a) :=
  ⟨fun cs h => vectorize_cond_eq W d m cs h hout a, fun h c => vectorize_uncond_eq W d m h hout a c⟩

/-- the generated `_get_sample_keys` = hand model `sampleKeys` on `keyShape` (`key_size = prod(key_shape)` keys, reshaped row-major) -/
theorem gen_sample_keys_eq (W : World X C K L) (d : DistObj X C K L) (key : K) (ss : Shape) :
    (∀ cs (c : Arr C), d.cond_shape = some cs →
        getSampleKeys W d key ss (some c) = sampleKeys W.split key (keyShape ss (some cs) (some c.shape))) ∧
    (∀ c : Option (Arr C), d.cond_shape = none → getSampleKeys W d key ss c = sampleKeys W.split key (keyShape ss none none)) ∧
    (∀ cs, d.cond_shape = some cs → getSampleKeys W d key ss (none : Option (Arr C)) = .error .typeError) :=
  sample_keys_eq W d key ss

/-- the generated public `log_prob` = hand model (`logProbCond` / `logProbUncond`) with the NaN → −inf line as `post` -/
theorem gen_log_prob_wrapper_eq (W : World X C K L) (self : DistObj X C K L) (x : Arr X) (c : Option (Arr C)) :
    (∀ cs, (W.unwrap self).cond_shape = some cs →
      logProb W self x c
        = logProbCond (W.unwrap self).shape cs (fun x c => (W.unwrap self).logProb x (.elem c)) (post W) x c) ∧
    ((W.unwrap self).cond_shape = none →
      logProb W self x c
        = logProbUncond (W.unwrap self).shape (fun x c => (W.unwrap self).logProb x (.raw c)) (post W) x c) :=
  ⟨fun cs h => log_prob_cond_eq W self cs h x c, fun h => log_prob_uncond_eq W self h x c⟩

/-- the generated public `sample` = hand model (`sampleCond` / `sampleUncond`) -/
theorem gen_sample_wrapper_eq (W : World X C K L) (self : DistObj X C K L) (key : K) (ss : Shape) (c : Option (Arr C)) :
    (∀ cs, (W.unwrap self).cond_shape = some cs →
      GenDist.sample W self key ss c = sampleCond cs (fun k c => (W.unwrap self).sample k (.elem c)) W.split key ss c) ∧
    ((W.unwrap self).cond_shape = none →
      GenDist.sample W self key ss c = sampleUncond (fun k c => (W.unwrap self).sample k (.raw c)) W.split key ss c) :=
  sample_eq W self key ss c

/-- the generated public `sample_and_log_prob` = hand model (`sampleLpCond` / `sampleLpUncond`) -/
theorem gen_sample_and_log_prob_wrapper_eq (W : World X C K L) (self : DistObj X C K L) (key : K) (ss : Shape)
    (c : Option (Arr C)) :
    (∀ cs, (W.unwrap self).cond_shape = some cs →
      sampleAndLogProb W self key ss c
        = sampleLpCond cs (fun k c => (W.unwrap self).sampleLp k (.elem c)) W.split key ss c) ∧
    ((W.unwrap self).cond_shape = none →
      sampleAndLogProb W self key ss c
        = sampleLpUncond (fun k c => (W.unwrap self).sampleLp k (.raw c)) W.split key ss c) :=
  sample_lp_eq W self key ss c

/-- `out_shape_log_prob` on the generated code: batch shape = NumPy broadcast of the two leading shapes, ValueError otherwise;
unconditional: the leading shape of `x` -/
theorem gen_out_shape_log_prob (W : World X C K L) (self : DistObj X C K L) (xb : Shape) (x : Arr X)
    (hx : x.shape = xb ++ (W.unwrap self).shape) :
    (∀ cs cb (c : Arr C), (W.unwrap self).cond_shape = some cs → c.shape = cb ++ cs →
      (logProb W self x (some c)).map (fun b => [b.loop])
        = match bcast2 xb cb with
          | some l => .ok [l]
          | none => .error .valueError) ∧
    ((W.unwrap self).cond_shape = none → ∀ c : Option (Arr C), (logProb W self x c).map (fun b => [b.loop]) = .ok [xb]) := by
  constructor
  · intro cs cb c hcs hc
    rw [log_prob_cond_eq W self cs hcs, ← outShape_logProb_cond_link (W.unwrap self).shape cs [], hx, hc]
    exact outShape_logProb_cond _ cs [] xb cb
  · intro hcs c
    rw [log_prob_uncond_eq W self hcs, ← outShape_logProb_uncond_link (W.unwrap self).shape [] _ _ x c none, hx]
    exact outShape_logProb_uncond _ [] xb none

/-- `out_shape_sample` / `out_shape_sample_and_log_prob` on the generated code: `sample_shape + condition batch + event`
(log-probs without the event shape), for ALL sample shapes and condition batches, zero-sized ones included -/
theorem gen_out_shape_sample (W : World X C K L) (self : DistObj X C K L) (key : K) (ss : Shape) :
    (∀ cs cb (c : Arr C), (W.unwrap self).cond_shape = some cs → c.shape = cb ++ cs →
      (GenDist.sample W self key ss (some c)).map (fun b => [b.loop ++ (W.unwrap self).shape])
        = .ok [ss ++ cb ++ (W.unwrap self).shape] ∧
      (sampleAndLogProb W self key ss (some c)).map (fun b => [b.loop ++ (W.unwrap self).shape, b.loop])
        = .ok [ss ++ cb ++ (W.unwrap self).shape, ss ++ cb]) ∧
    ((W.unwrap self).cond_shape = none → ∀ c : Option (Arr C),
      (GenDist.sample W self key ss c).map (fun b => [b.loop ++ (W.unwrap self).shape]) = .ok [ss ++ (W.unwrap self).shape] ∧
      (sampleAndLogProb W self key ss c).map (fun b => [b.loop ++ (W.unwrap self).shape, b.loop])
        = .ok [ss ++ (W.unwrap self).shape, ss]) := by
  constructor
  · intro cs cb c hcs hc
    rw [(sample_eq W self key ss (some c)).1 cs hcs, (sample_lp_eq W self key ss (some c)).1 cs hcs,
      ← outShape_sample_cond_link (W.unwrap self).shape cs ss [], ← outShape_sampleLp_cond_link (W.unwrap self).shape cs ss [], hc]
    exact ⟨outShape_sample_cond _ cs ss [] cb, outShape_sampleLp_cond _ cs ss [] cb⟩
  · intro hcs c
    rw [(sample_eq W self key ss c).2 hcs, (sample_lp_eq W self key ss c).2 hcs,
      ← outShape_sample_uncond_link (W.unwrap self).shape ss [] _ W.split key c none,
      ← outShape_sampleLp_uncond_link (W.unwrap self).shape ss [] _ W.split key c none]
    exact ⟨outShape_sample_uncond _ ss [] none, outShape_sampleLp_uncond _ ss [] none⟩

/-- `zero_size_sample_ok` on the generated code -/
theorem gen_zero_size_sample_ok (W : World X C K L) (self : DistObj X C K L) (key : K) (ss cs cb : Shape) (c : Arr C)
    (hcs : (W.unwrap self).cond_shape = some cs) (hc : c.shape = cb ++ cs) (h : sprod (ss ++ cb) = 0) :
    (GenDist.sample W self key ss (some c)).map (fun b => [b.loop ++ (W.unwrap self).shape])
        = .ok [ss ++ cb ++ (W.unwrap self).shape] ∧
    (sampleAndLogProb W self key ss (some c)).map (fun b => [b.loop ++ (W.unwrap self).shape, b.loop])
        = .ok [ss ++ cb ++ (W.unwrap self).shape, ss ++ cb] ∧
    (∃ keys, getSampleKeys W (W.unwrap self) key ss (some c) = .ok keys ∧ keys.shape = ss ++ cb ++ [2]) ∧
    (∀ i, ¬ ValidIdx (ss ++ cb) i) := by
  refine ⟨((gen_out_shape_sample W self key ss).1 cs cb c hcs hc).1, ((gen_out_shape_sample W self key ss).1 cs cb c hcs hc).2, ?_,
    fun i hi => by have := flatIndex_lt hi; omega⟩
  rw [(sample_keys_eq W (W.unwrap self) key ss).1 cs c hcs, hc, keyShape_cond, sampleKeys_eq]
  exact ⟨_, rfl, rfl⟩

/-- `batched_eq_elementwise_log_prob` on the generated code: an accepted batched `log_prob` has the broadcast loop shape and its
element at every loop index is the SAME generated method called on the single slices NumPy broadcasting pairs there; in closed
form it is `post (_log_prob(x[bIndex xb i], condition[bIndex cb i]))`, `post` = the NaN → −inf line -/
theorem gen_batched_eq_elementwise_log_prob (W : World X C K L) (self : DistObj X C K L) (cs : Shape)
    (hcs : (W.unwrap self).cond_shape = some cs) (x : Arr X) (c : Arr C) (out : Batched L)
    (h : logProb W self x (some c) = .ok out) :
    ∃ xb cb, x.shape = xb ++ (W.unwrap self).shape ∧ c.shape = cb ++ cs ∧ bcast2 xb cb = some out.loop ∧
      ∀ i, ValidIdx out.loop i →
        ValidIdx xb (bIndex xb i) ∧ ValidIdx cb (bIndex cb i) ∧
        out.elem i = post W ((W.unwrap self).logProb (x.slice (bIndex xb i)) (.elem (c.slice (bIndex cb i)))) ∧
        ∃ u, logProb W self ⟨(W.unwrap self).shape, fun _ => x.slice (bIndex xb i)⟩
                (some ⟨cs, fun _ => c.slice (bIndex cb i)⟩) = .ok u ∧
             u.loop = [] ∧ u.elem [] = out.elem i := by
  rw [log_prob_cond_eq W self cs hcs] at h
  obtain ⟨xb, cb, hx, hc, hb, hall⟩ := batched_eq_elementwise_log_prob _ cs _ (post W) x c out h
  refine ⟨xb, cb, hx, hc, hb, fun i hi => ?_⟩
  obtain ⟨h1, h2, u, hu, hl, he⟩ := hall i hi
  refine ⟨h1, h2, ?_, u, ?_, hl, he⟩
  · rw [logProbCond_eq _ cs xb cb _ (post W) x c hx hc, hb] at h
    rw [← Except.ok.inj h]
  · rw [log_prob_cond_eq W self cs hcs]; exact hu

/-- `batched_eq_elementwise_sample` on the generated code (both samplers are the generated text with `m` the private method):
accepted iff the condition ends in `cond_shape`; loop shape `sample_shape ++ cb`; the element at `(s, ci)` is the private method at
the key `_get_sample_keys` put at `(s, ci)` and the condition slice `ci` -/
theorem gen_batched_eq_elementwise_sample (W : World X C K L) (self : DistObj X C K L) (cs ss : Shape)
    (hcs : (W.unwrap self).cond_shape = some cs) (key : K) (c : Arr C) (out : Batched X)
    (h : GenDist.sample W self key ss (some c) = .ok out) :
    ∃ cb keys, c.shape = cb ++ cs ∧ out.loop = ss ++ cb ∧
      getSampleKeys W (W.unwrap self) key ss (some c) = .ok keys ∧ keys.shape = ss ++ cb ++ [2] ∧
      ∀ s ci, s.length = ss.length → ValidIdx (ss ++ cb) (s ++ ci) →
        ValidIdx cb ci ∧ out.elem (s ++ ci) = (W.unwrap self).sample (keys.slice (s ++ ci)) (.elem (c.slice ci)) := by
  rw [(sample_eq W self key ss (some c)).1 cs hcs] at h
  obtain ⟨cb, keys, hc, hl, hk, hks, hall⟩ :=
    batched_eq_elementwise_sample cs ss (fun k c => (W.unwrap self).sample k (.elem c)) W.split key c out h
  exact ⟨cb, keys, hc, hl, by rw [(sample_keys_eq W (W.unwrap self) key ss).1 cs c hcs]; exact hk, hks, hall⟩

/-- `keys_distinct` on the generated `_get_sample_keys`: it always succeeds for an unconditional distribution (and for a conditional one
whose condition ends in `cond_shape`), the array has shape `key_shape + (2,)`, and — `jr.split` being injective in the index — keys at
different positions are different -/
theorem gen_keys_distinct (W : World X C K L)
    (hinj : ∀ k n i j, i < n → j < n → W.split k n i = W.split k n j → i = j)
    (d : DistObj X C K L) (key : K) (ss : Shape) :
    (d.cond_shape = none → ∀ c : Option (Arr C), ∃ keys, getSampleKeys W d key ss c = .ok keys ∧ keys.shape = ss ++ [2] ∧
      ∀ i j, ValidIdx ss i → ValidIdx ss j → keys.slice i = keys.slice j → i = j) ∧
    (∀ cs cb (c : Arr C), d.cond_shape = some cs → c.shape = cb ++ cs →
      ∃ keys, getSampleKeys W d key ss (some c) = .ok keys ∧ keys.shape = ss ++ cb ++ [2] ∧
      ∀ i j, ValidIdx (ss ++ cb) i → ValidIdx (ss ++ cb) j → keys.slice i = keys.slice j → i = j) := by
  constructor
  · intro hcs c
    obtain ⟨keys, hk, hs, -, -, -, hd⟩ := keys_distinct W.split hinj key ss
    exact ⟨keys, by rw [(sample_keys_eq W d key ss).2.1 c hcs, keyShape_uncond]; exact hk, hs, hd⟩
  · intro cs cb c hcs hc
    obtain ⟨keys, hk, hs, -, -, -, hd⟩ := keys_distinct W.split hinj key (ss ++ cb)
    exact ⟨keys, by rw [(sample_keys_eq W d key ss).1 cs c hcs, hc, keyShape_cond]; exact hk, hs, hd⟩

/-- non-vacuity: a concrete world and distribution object (naturals; `jr.split(k, n)[j] = (k, n, j)` coded as a number is not needed —
the split is the triple itself); the generated methods evaluate as expected, incl. a zero-sized sample shape -/
theorem gen_instance :
    let W : World Nat Nat (Nat × Nat × Nat) Nat := ⟨id, fun k n j => (k.1, n, j), fun _ => false, 0, id⟩
    let d : DistObj Nat Nat (Nat × Nat × Nat) Nat :=
      ⟨[], some [], fun x c => match c with | .elem c => 10 * x + c | .raw _ => 0, fun k _ => k.2.2, fun k _ => (k.2.2, 0)⟩
    String.ofList (getUfuncSignature [[3], [2, 3]] [[]]) = "(3),(2,3)->()" ∧
    (∃ out, logProb W d ⟨[2, 1], fun i => flatIndex [2, 1] i⟩ (some ⟨[3], fun i => 5 + flatIndex [3] i⟩) = .ok out ∧
      out.loop = [2, 3] ∧ out.elem [1, 2] = 17) ∧
    (∃ out, GenDist.sample W d (7, 0, 0) [2] (some ⟨[3], fun _ => 0⟩) = .ok out ∧ out.loop = [2, 3] ∧ out.elem [1, 2] = 5) ∧
    (∃ out, GenDist.sample W d (7, 0, 0) [0] (some ⟨[3], fun _ => 0⟩) = .ok out ∧ out.loop = [0, 3]) ∧
    logProb W d ⟨[2], fun _ => 0⟩ none = .error .typeError := by
  refine ⟨by decide, ⟨_, rfl, rfl, by decide⟩, ⟨_, rfl, rfl, by decide⟩, ⟨_, rfl, rfl⟩, rfl⟩

end generated

section Audit
/-! ## Audit (g27): the injectivity hypothesis `hinj` on `jr.split` (which carries the "independent randomness" clause) had no instance; broadcast corner cases through the theorems (not only by evaluation) -/
open Pw GenDist VectorizeGen

/-- the split used by `keys_distinct_instance` / `gen_instance` (`jr.split(k, n)[j] = (k.1, n, j)`) satisfies the injectivity
hypothesis `hinj` that carries the "independent randomness" clause -/
theorem hinj_audit_instance :
    ∀ (k : Nat × Nat × Nat) (n i j : Nat), i < n → j < n →
      (fun (k : Nat × Nat × Nat) n j => (k.1, n, j)) k n i = (fun (k : Nat × Nat × Nat) n j => (k.1, n, j)) k n j → i = j := by
  intro k n i j _ _ h
  simp only [Prod.mk.injEq] at h
  exact h.2.2

/-- `keys_distinct` + `sample_elements_use_distinct_keys` instantiated with that split: sample_shape (2,), a condition of batch
shape (3,1) and scalar cond_shape `()` (rank-0 corner: `-0 or None`), a sampler that returns its key -/
theorem keys_distinct_audit_instance :
    (∃ keys, sampleKeys (Key := Nat × Nat × Nat) (fun k n j => (k.1, n, j)) (7, 0, 0) [2, 3, 1] = .ok keys ∧
      ∀ i j, ValidIdx [2, 3, 1] i → ValidIdx [2, 3, 1] j → keys.slice i = keys.slice j → i = j) ∧
    (∃ (out : Batched (Nat × Nat × Nat)) (keyOf : List Nat → Nat × Nat × Nat),
      sampleWithCond (C := Nat) [] (fun k _ => k) (fun k n j => (k.1, n, j)) (7, 0, 0) [2] (some ⟨[3, 1], fun _ => 0⟩) = .ok out ∧
      out.loop = [2, 3, 1] ∧ out.elem [1, 2, 0] = (7, 6, 5) ∧ (∀ i, ValidIdx out.loop i → out.elem i = keyOf i) ∧
      ∀ i j, ValidIdx out.loop i → ValidIdx out.loop j → keyOf i = keyOf j → i = j) := by
  constructor
  · obtain ⟨keys, hk, -, -, -, -, hd⟩ := keys_distinct (fun (k : Nat × Nat × Nat) n j => (k.1, n, j)) hinj_audit_instance (7, 0, 0) [2, 3, 1]
    exact ⟨keys, hk, hd⟩
  · obtain ⟨out, hout⟩ := (sample_accepts_iff (C := Nat) [] [2] (fun (k : Nat × Nat × Nat) _ => k) (fun k n j => (k.1, n, j)) (7, 0, 0)
      ⟨[3, 1], fun _ => 0⟩).1.2 ⟨[3, 1], rfl⟩
    obtain ⟨keyOf, cb, hc, hl, he, hd⟩ := sample_elements_use_distinct_keys _ hinj_audit_instance [] [2] _ (7, 0, 0) _ out hout
    have hcb : cb = [3, 1] := by simpa using hc.symm
    subst hcb
    refine ⟨out, keyOf, hout, hl, ?_, he, hd⟩
    have h2 := hout
    rw [sampleWithCond_eq [] [2] [3, 1] _ _ _ _ rfl] at h2
    cases h2
    decide

/-- `log_prob_accepts_iff` right-to-left and `batched_eq_elementwise_log_prob` on the accepted call: event shape `()`,
cond_shape `()` (both rank 0), x of batch shape (2,1), condition of batch shape (3,) — a size-1 axis stretched and a missing
axis — any `_log_prob`: the element at `[1,2]` is `_log_prob(x[1,0], condition[2])` -/
theorem log_prob_broadcast_audit_instance (lp : Nat → Nat → Nat) :
    ∃ out, logProbCond (X := Nat) (C := Nat) [] [] lp id ⟨[2, 1], fun i => flatIndex [2, 1] i⟩
        (some ⟨[3], fun i => 5 + flatIndex [3] i⟩) = .ok out ∧ out.loop = [2, 3] ∧ out.elem [1, 2] = lp 1 7
      ∧ out.elem [0, 1] = lp 0 6 := by
  obtain ⟨out, h⟩ := (log_prob_accepts_iff (X := Nat) (C := Nat) [] [] lp id ⟨[2, 1], fun i => flatIndex [2, 1] i⟩
    ⟨[3], fun i => 5 + flatIndex [3] i⟩).1.2 ⟨[2, 1], [3], [2, 3], rfl, rfl, by decide⟩
  obtain ⟨xb, cb, hx, hc, hb, hall⟩ := batched_eq_elementwise_log_prob [] [] lp id _ _ out h
  have hxb : xb = [2, 1] := by simpa using hx.symm
  have hcb : cb = [3] := by simpa using hc.symm
  subst hxb hcb
  have hl : out.loop = [2, 3] := by
    have : bcast2 [2, 1] [3] = some [2, 3] := by decide
    rw [this] at hb; exact (Option.some.inj hb).symm
  refine ⟨out, h, hl, ?_, ?_⟩
  · obtain ⟨-, -, u, hu, -, he⟩ := hall [1, 2] (by rw [hl]; decide)
    rw [logProbCond_eq [] [] [] [] lp id _ _ rfl rfl] at hu
    cases hu
    rw [← he]; rfl
  · obtain ⟨-, -, u, hu, -, he⟩ := hall [0, 1] (by rw [hl]; decide)
    rw [logProbCond_eq [] [] [] [] lp id _ _ rfl rfl] at hu
    cases hu
    rw [← he]; rfl

/-- `gen_keys_distinct` with its `hinj` discharged, on the world / distribution object of `gen_instance` -/
theorem gen_keys_distinct_audit_instance :
    let W : World Nat Nat (Nat × Nat × Nat) Nat := ⟨id, fun k n j => (k.1, n, j), fun _ => false, 0, id⟩
    let d : DistObj Nat Nat (Nat × Nat × Nat) Nat :=
      ⟨[], some [], fun x c => match c with | .elem c => 10 * x + c | .raw _ => 0, fun k _ => k.2.2, fun k _ => (k.2.2, 0)⟩
    ∃ keys, getSampleKeys W d (7, 0, 0) [2] (some (⟨[3, 1], fun _ => 0⟩ : Arr Nat)) = .ok keys ∧ keys.shape = [2, 3, 1, 2] ∧
      ∀ i j, ValidIdx [2, 3, 1] i → ValidIdx [2, 3, 1] j → keys.slice i = keys.slice j → i = j := by
  intro W d
  exact (gen_keys_distinct W hinj_audit_instance d (7, 0, 0) [2]).2 [] [3, 1] ⟨[3, 1], fun _ => 0⟩ rfl rfl

end Audit

end C06
