import Flowjaxv.Proofs.BnafGen
namespace BnafGenPf
open Masks MasksPf NetLawful

theorem combineLds_concat (l : List (Blocks ℝ)) (z : Blocks ℝ) : combineLds (l ++ [z]) = l.reverse.foldl logmatmulexp3 z := by
  simp [combineLds, List.reverse_append]

theorem bnafOK_ne_nil {dim depth bd : ℕ} {Ls : List (BnafLayer ℝ)} {condLinear : Option (List (List ℝ))}
    (hok : BnafOK dim depth bd Ls condLinear) : Ls ≠ [] := by
  intro h
  have := hok.hshapes
  rw [h] at this
  unfold bnafBlockShapes at this
  split at this <;> simp at this

/-- the hidden vector after a non-last layer has the length `_activation_and_log_jacobian_3d` reshapes it to -/
theorem hidden_length {dim depth bd : ℕ} {Ls : List (BnafLayer ℝ)} {condLinear : Option (List (List ℝ))}
    (hok : BnafOK dim depth bd Ls condLinear) (L : BnafLayer ℝ) (hL : L ∈ Ls.dropLast) (v : List ℝ) :
    (L.apply v).length = dim * bd := by
  have hm : L ∈ Ls := List.mem_of_mem_dropLast hL
  rw [bnafApply_length L (hok.hws L hm).1 v, (hok.hws L hm).2, BnafLd.layers_dropLast depth bd Ls hok.hshapes L hL, Nat.mul_comm]

theorem gen_bnaf_fwdld_eq_model (A : ℝ → ℝ × ℝ) (act : ℝ → ℝ) {dim depth bd : ℕ} {Ls : List (BnafLayer ℝ)}
    {condLinear : Option (List (List ℝ))} (hok : BnafOK dim depth bd Ls condLinear)
    (ljf : BnafLayer ℝ → Bw.Linear ℝ → Bw.Blocks ℝ) (hljf : ∀ L ∈ Ls, ljf L (linOf L) = L.logJac)
    (inverter : List ℝ → Option (List ℝ) → List ℝ) (x : List ℝ) (condition : Option (List ℝ))
    (hc : condition.isSome = condLinear.isSome) :
    GenBnaf.transformAndLogDet (netOf A act dim bd Ls ljf condLinear inverter) x condition
      = some (bnafTransformAndLogDet A dim bd Ls condLinear x (condition.getD [])) := by
  have hne := bnafOK_ne_nil hok
  have hl : (netOf A act dim bd Ls ljf condLinear inverter).layers = Ls.map fun L => (linOf L, ljf L) := rfl
  have hcl : (netOf A act dim bd Ls ljf condLinear inverter).cond_linear = condLinear.map fun C => ⟨C⟩ := rfl
  have hA : (netOf A act dim bd Ls ljf condLinear inverter).activation.transform_and_log_det = A := rfl
  have hact := fun h (hh : h.length = dim * bd) =>
    gen_act_logjac_eq_model (netOf A act dim bd Ls ljf condLinear inverter) dim bd rfl rfl h hh
  rw [hA] at hact
  generalize netOf A act dim bd Ls ljf condLinear inverter = N at *
  unfold GenBnaf.transformAndLogDet bnafTransformAndLogDet
  simp only [hl, hcl, ← List.map_dropLast, List.getLast?_map, List.getLast?_eq_some_getLast hne, Option.map_some,
    Option.bind_some]
  have hlast := hljf _ (List.getLast_mem hne)
  cases condition with
  | none =>
    cases condLinear with
    | some C => simp at hc
    | none =>
      rw [foldlM_enumerate_map _ _ (stepL A dim bd none) _ _ (by
        intro s i L hi
        have hmem : L ∈ Ls.dropLast := List.mem_of_getElem? hi
        have hlen := hidden_length hok L hmem s.1
        simp [stepL, linOf_call, hljf L (List.mem_of_mem_dropLast hmem), hact _ hlen])]
      have hfold := bnafFwdLds_eq_fold A dim bd none Ls hne true x []
      simp only [List.nil_append, Prod.mk.injEq] at hfold
      simp only [Option.bind_some, linOf_call, hlast, List.getLast?_concat, List.dropLast_concat, Option.map_none,
        Option.getD_none]
      rw [← hfold.1, ← hfold.2, combineLds_concat]
      rfl
  | some c =>
    cases condLinear with
    | none => simp at hc
    | some C =>
      rw [foldlM_enumerate_map _ _ (stepL A dim bd (some (C.map fun row => Jnp.dot row c))) _ _ (by
        intro s i L hi
        have hmem : L ∈ Ls.dropLast := List.mem_of_getElem? hi
        have hlen := hidden_length hok L hmem s.1
        by_cases hi0 : i = 0
        · subst hi0
          have hhead : L ∈ Ls.head? := by
            have h1 : Ls.dropLast ++ [Ls.getLast hne] = Ls := List.dropLast_concat_getLast hne
            have h2 : 0 < Ls.dropLast.length := by
              rcases List.getElem?_eq_some_iff.mp hi with ⟨h, _⟩; exact h
            rw [List.head?_eq_getElem?, ← h1, List.getElem?_append_left h2]
            exact hi
          have hC : C.length = L.b0 * dim := hok.hcl C rfl L hhead
          have hb0 : L.b0 = bd := BnafLd.layers_dropLast depth bd Ls hok.hshapes L hmem
          have hlen' : (List.zipWith (· + ·) (L.apply s.1) (C.map fun row => Jnp.dot row c)).length = dim * bd := by
            rw [List.length_zipWith, hlen, List.length_map, hC, hb0, Nat.mul_comm bd dim, Nat.min_self]
          simp [stepL, linOf_call, hljf L (List.mem_of_mem_dropLast hmem), hact _ hlen', Bw.addV, Bw.CondLinear.call]
        · simp [stepL, linOf_call, hljf L (List.mem_of_mem_dropLast hmem), hact _ hlen, hi0])]
      have hfold := bnafFwdLds_eq_fold A dim bd (some (C.map fun row => Jnp.dot row c)) Ls hne true x []
      simp only [List.nil_append, Prod.mk.injEq] at hfold
      simp only [Option.bind_some, linOf_call, hlast, List.getLast?_concat, List.dropLast_concat, Option.map_some,
        Option.getD_some]
      rw [← hfold.1, ← hfold.2, combineLds_concat]
      rfl

end BnafGenPf
