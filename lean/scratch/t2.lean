import Flowjaxv.Proofs.BnafGen
namespace BnafGenPf
open Masks
theorem mapIdx_replicate {β γ : Type} (f : Nat → β → γ) (m : Nat) (a : β) :
    (List.replicate m a).mapIdx f = (List.range m).map fun i => f i a := by
  apply List.ext_getElem <;> simp
theorem find_diag (bd r c : Nat) :
    (List.range (Bw.arange bd).length).find? (fun t => (Bw.arange bd)[t]? == some r && (Bw.arange bd)[t]? == some c)
      = if r = c ∧ r < bd then some r else none := by
  sorry

section generic
variable {α : Type} [Add α] [Sub α] [Mul α] [Div α] [Neg α] [LT α] [LE α] [BEq α]
  [OfNat α 0] [OfNat α 1] [OfNat α 2] [OfNat α 4] [OfScientific α]
  [DecidableLT α] [DecidableLE α] [Transc α] [Inhabited α]

theorem atSet_full_eq (n bd : Nat) (lag : List α) (hlen : lag.length = n * bd) :
    Bw.atSet3 (Bw.full3 [n, bd, bd] (none : Jnp.Ext α)) (Bw.arange bd) (Bw.arange bd) (Bw.reshape2 lag n bd)
      = actLogJac n bd lag := by
  unfold Bw.atSet3 Bw.full3 actLogJac reshapeRows Bw.reshape2
  simp only [mapIdx_replicate, find_diag, List.map_map]
  apply List.map_congr_left
  intro k hk
  have hk : k < n := List.mem_range.mp hk
  have hn : 0 < n := by omega
  have hp : lag.length / n = bd := by rw [hlen]; exact Nat.mul_div_cancel_left bd hn
  simp only [Function.comp, hp]
  apply List.map_congr_left
  intro r hr
  have hr : r < bd := List.mem_range.mp hr
  apply List.map_congr_left
  intro c hc
  have hrow : r < (List.take bd (List.drop (k * bd) lag)).length := by
    simp only [List.length_take, List.length_drop, hlen]
    have : (k + 1) * bd ≤ n * bd := Nat.mul_le_mul_right bd hk
    have h2 : (k + 1) * bd = k * bd + bd := by ring_nf
    omega
  by_cases h : r = c
  · subst h
    simp [hr, hk, List.getD_eq_getElem?_getD, List.getElem?_eq_getElem hrow]
  · simp [h]

end generic
end BnafGenPf
