import Flowjaxv.Proofs.BnafGen
namespace BnafGenPf
open Masks MasksPf

section generic
variable {α : Type} [Add α] [Sub α] [Mul α] [Div α] [Neg α] [LT α] [LE α] [BEq α]
  [OfNat α 0] [OfNat α 1] [OfNat α 2] [OfNat α 4] [OfScientific α]
  [DecidableLT α] [DecidableLE α] [Transc α] [Inhabited α]

/-- one pass of the body of the `transform_and_log_det` loop in the hand model: state = (`x`, `log_dets_3ds`) -/
def stepL (A : α → α × α) (n bd : Nat) (ct : Option (List α)) (first : Bool) (s : List α × List (Blocks α)) (L : BnafLayer α) :
    List α × List (Blocks α) :=
  let h := L.apply s.1
  let h := match first, ct with
    | true, some c => List.zipWith (· + ·) h c
    | _, _ => h
  (h.map fun z => (A z).1, s.2 ++ [L.logJac, actLogJac n bd (h.map fun z => (A z).2)])

theorem bnafFwdLds_eq_fold (A : α → α × α) (n bd : Nat) (ct : Option (List α)) :
    ∀ (Ls : List (BnafLayer α)) (hne : Ls ≠ []) (first : Bool) (x : List α) (pre : List (Blocks α)),
      (((Ls.getLast hne).apply (foldFirst (stepL A n bd ct) first (x, pre) Ls.dropLast).1,
        (foldFirst (stepL A n bd ct) first (x, pre) Ls.dropLast).2 ++ [(Ls.getLast hne).logJac]) : List α × List (Blocks α))
      = ((bnafFwdLds A n bd first ct Ls x).1, pre ++ (bnafFwdLds A n bd first ct Ls x).2) := by
  intro Ls
  induction Ls with
  | nil => intro h; exact absurd rfl h
  | cons L Ls ih =>
    intro _ first x pre
    cases Ls with
    | nil => simp [bnafFwdLds, foldFirst]
    | cons L' Ls =>
      have := ih (by simp) false (stepL A n bd ct first (x, pre) L).1 (stepL A n bd ct first (x, pre) L).2
      rw [List.dropLast_cons₂, foldFirst, List.getLast_cons (by simp), this]
      cases first <;> cases ct <;> simp [bnafFwdLds, stepL]
end generic
end BnafGenPf
