import Flowjaxv.Proofs.BnafGen
namespace BnafGenPf
open Masks MasksPf

section generic
variable {α : Type} [Add α] [Sub α] [Mul α] [Div α] [Neg α] [LT α] [LE α] [BEq α]
  [OfNat α 0] [OfNat α 1] [OfNat α 2] [OfNat α 4] [OfScientific α]
  [DecidableLT α] [DecidableLE α] [Transc α] [Inhabited α]

theorem zipWith_self' {β γ : Type} (f : β → β → γ) (l : List β) : List.zipWith f l l = l.map fun v => f v v := by
  induction l with
  | nil => rfl
  | cons a l ih => simp [ih]

theorem wn_unwrap_eq (f : α → α) : ∀ (w : List (List α)) (s : List α),
    (⟨w, s.map f⟩ : Gen.Wr.WeightNormalization α).unwrap
      = List.zipWith (fun row s =>
          let nrm := Transc.sqrt (Jnp.sum (row.map fun v => v * v))
          row.map fun v => f s * v / nrm) w s := by
  intro w
  induction w with
  | nil => intro s; simp [Gen.Wr.WeightNormalization.unwrap]
  | cons r w ih =>
    intro s
    cases s with
    | nil => simp [Gen.Wr.WeightNormalization.unwrap]
    | cons a s =>
      have := ih s
      simp only [Gen.Wr.WeightNormalization.unwrap, Jnp.dot, zipWith_self'] at this ⊢
      simp only [List.map_cons, List.zipWith_cons_cons, this, List.map_map]
      rfl

/-- the hand layer whose raw arrays are the ones the world allocates for `block_autoregressive_linear(key, n_blocks, block_shape)` -/
def layerOfWorld {K : Type} (W : Bw.World K α) (key : K) (n b0 b1 : Nat) : BnafLayer α :=
  let lin := W.linearInit key (b1 * n) (b0 * n)
  { b0 := b0, b1 := b1, n := n, weight := lin.weight, bias := lin.bias,
    scaleRaw := W.wnScaleRaw
      (Bw.WNest.whereN (Gen.blockDiagMask (b0, b1) n)
        (Bw.WNest.reparam (Bw.WNest.whereZ (Gen.blockTrilMask (b0, b1) n 0) (Bw.WNest.raw lin.weight) 0) Bw.softplusBij)
        (Bw.WNest.whereZ (Gen.blockTrilMask (b0, b1) n 0) (Bw.WNest.raw lin.weight) 0)) }

/-- **generated `block_autoregressive_linear` = hand model (the linear layer)**: `unwrap` of the `eqx.nn.Linear` it returns —
the nest `WeightNormalization(Where(block_diag_mask, BijectionReparam(Where(block_tril_mask, W, 0), SoftPlus()),
Where(block_tril_mask, W, 0)))` evaluated node by node with the GENERATED `.unwrap()` bodies over the GENERATED masks — is the
hand model's `BnafLayer.unwrapW` with the same bias, for every key, world (= all weight / bias / raw scale values), `n_blocks` and
block shape, every scalar type. -/
theorem gen_block_linear_eq_model {K : Type} (W : Bw.World K α) (key : K) (n b0 b1 : Nat) :
    (GenBnaf.blockAutoregressiveLinear W key n (b0, b1)).1.unwrap = linOf (layerOfWorld W key n b0 b1) := by
  unfold GenBnaf.blockAutoregressiveLinear linOf layerOfWorld Bw.LinearW.unwrap BnafLayer.unwrapW BnafLayer.preNorm
  simp only [Bw.WNest.unwrap, wn_unwrap_eq, MasksGenPf.gen_blockDiagMask, MasksGenPf.gen_blockTrilMask]
  rfl

end generic
end BnafGenPf
