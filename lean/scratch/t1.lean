import Flowjaxv.Proofs.BnafGen
namespace BnafGenPf
open Masks

theorem mapIdx_replicate {β γ : Type} (f : Nat → β → γ) (m : Nat) (a : β) :
    (List.replicate m a).mapIdx f = (List.range m).map fun i => f i a := by
  apply List.ext_getElem <;> simp

theorem find_diag_aux (r c : Nat) : ∀ n, (List.range n).find? (fun t => t == r && t == c) = if r = c ∧ r < n then some r else none := by
  intro n
  induction n with
  | zero => simp
  | succ n ih =>
    rw [List.range_succ, List.find?_append, ih]
    by_cases h1 : r = c
    · subst h1
      by_cases h2 : r < n
      · simp [h2, Nat.lt_succ_of_lt h2]
      · by_cases h3 : r = n
        · subst h3; simp
        · have : ¬ r < n + 1 := by omega
          simp [h2, this, Ne.symm h3]
    · have : ∀ t : Nat, (t == r && t == c) = false := by
        intro t; by_cases ht : t = r <;> simp [ht]; intro h; exact h1 (by omega)
      simp [h1, this]

theorem find_diag (bd r c : Nat) :
    (List.range (Bw.arange bd).length).find? (fun t => (Bw.arange bd)[t]? == some r && (Bw.arange bd)[t]? == some c)
      = if r = c ∧ r < bd then some r else none := by
  rw [← find_diag_aux r c bd]
  simp only [Bw.arange, List.length_range]
  apply List.find?_congr
  intro t ht
  have : t < bd := List.mem_range.mp ht
  simp [this]

end BnafGenPf
