/-! Hand transcription (for the probe) of flowjax/bisection_search.py loop bodies; generic scalar. -/
namespace Bis
variable {α : Type} [Add α] [Sub α] [Mul α] [Div α] [Neg α] [LT α] [LE α] [OfNat α 0] [OfNat α 1] [OfNat α 2]
  [DecidableLT α] [DecidableLE α] [BEq α]

def sign (x : α) : α := if x < 0 then -1 else if 0 < x then 1 else 0
@[inline] def sel {β} (c : Bool) (a b : β) : β := if c then a else b

def whileLoop {σ : Type} (cond : σ → Bool) (body : σ → σ) : Nat → σ → Option σ
  | 0, s => if cond s then none else some s
  | n+1, s => if cond s then whileLoop cond body n (body s) else some s

structure AState (α : Type) where
  lower : α
  upper : α
  expand_by : α
  lower_fn_sign : α
  upper_fn_sign : α
  iteration : Nat

def adaptCond (s : AState α) : Bool := s.lower_fn_sign == s.upper_fn_sign
def adaptBody (func : α → α) (expand_factor : α) (s : AState α) : AState α :=
  let sign' := s.lower_fn_sign
  let lower_update := sel (sign' == 1) (s.lower - s.expand_by) s.upper
  let upper_update := sel (sign' == 1) s.lower (s.upper + s.expand_by)
  { lower := lower_update, upper := upper_update, expand_by := s.expand_by * expand_factor,
    lower_fn_sign := sign (func lower_update), upper_fn_sign := sign (func upper_update),
    iteration := s.iteration + 1 }
def adaptInit (func : α → α) (lower upper : α) : AState α :=
  { lower, upper, expand_by := upper - lower, lower_fn_sign := sign (func lower),
    upper_fn_sign := sign (func upper), iteration := 0 }
def adaptFinish (s : AState α) : α × α × Nat :=
  let lower := s.lower
  let upper := s.upper
  let lower := sel (s.upper_fn_sign == 0) upper lower
  let upper := sel (s.lower_fn_sign == 0) lower upper
  (lower, upper, s.iteration)

structure BState (α : Type) where
  lower : α
  upper : α
  iterations : Nat
def bisCond (tol : α) (max_iter : Nat) (s : BState α) : Bool :=
  decide (s.upper - s.lower > 2 * tol) && decide (s.iterations < max_iter)
def bisBody (func : α → α) (s : BState α) : BState α :=
  let midpoint := (s.lower + s.upper) / 2
  let sg := sign (func midpoint)
  let lower := sel (sg == 1) s.lower midpoint
  let upper := sel (sg == 1) midpoint s.upper
  let lower := sel (sg == 0) midpoint lower
  let upper := sel (sg == 0) midpoint upper
  { lower, upper, iterations := s.iterations + 1 }
def bisRoot (s : BState α) : α := (s.lower + s.upper) / 2
end Bis
