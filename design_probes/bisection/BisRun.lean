import BisModel
open Bis
def f (x : Rat) : Rat := 2 * x - 75/2
def main : IO Unit := do
  let some a := whileLoop adaptCond (adaptBody f 2) 100 (adaptInit f (-10) 10) | IO.println "nofuel"
  let (lo, hi, it) := adaptFinish a
  IO.println s!"adapt {lo} {hi} {it}"
  let some b := whileLoop (bisCond (1/1000 : Rat) 200) (bisBody f) 201 ⟨lo, hi, 0⟩ | IO.println "nofuel"
  IO.println s!"root {bisRoot b} iters {b.iterations}"
