import Mathlib.Tactic
import Mathlib.Analysis.SpecificLimits.Basic
import BisModel
open Bis

section sign
theorem sign_eq_one {v : ℝ} : (sign v == 1) = decide (0 < v) := by
  unfold sign; by_cases h : v < 0
  · simp [h, not_lt.mpr h.le]; norm_num
  · by_cases h2 : 0 < v <;> simp [h, h2]
theorem sign_eq_zero {v : ℝ} : (sign v == 0) = decide (v = 0) := by
  unfold sign; by_cases h : v < 0
  · simp [h, h.ne]
  · by_cases h2 : 0 < v
    · simp [h, h2, h2.ne']
    · have : v = 0 := le_antisymm (not_lt.mp h2) (not_lt.mp h); simp [this]
end sign

variable (f : ℝ → ℝ) (hf : StrictMono f) (r : ℝ) (hr : f r = 0)
include hf hr

theorem f_pos_iff (x : ℝ) : 0 < f x ↔ r < x := by rw [← hr]; exact hf.lt_iff_lt
theorem f_zero_iff (x : ℝ) : f x = 0 ↔ x = r := by rw [← hr]; exact hf.injective.eq_iff

/-- one bisection step keeps the root bracketed and at least halves the width -/
theorem bisBody_inv (s : BState ℝ) (h : s.lower ≤ r ∧ r ≤ s.upper) :
    let s' := bisBody f s
    (s'.lower ≤ r ∧ r ≤ s'.upper) ∧ s'.upper - s'.lower ≤ (s.upper - s.lower) / 2 ∧
      s'.lower ≤ s'.upper ∧ s'.iterations = s.iterations + 1 := by
  intro s'
  obtain ⟨h1, h2⟩ := h
  simp only [s', bisBody, sel, sign_eq_one, sign_eq_zero, f_pos_iff f hf r hr, f_zero_iff f hf r hr]
  set m := (s.lower + s.upper) / 2 with hm
  rcases lt_trichotomy r m with hlt | heq | hgt
  · have : ¬ m = r := hlt.ne'
    simp [hlt, this]; refine ⟨⟨h1, hlt.le⟩, by rw [hm]; linarith, by rw [hm]; linarith⟩
  · simp [heq.symm, hm ▸ heq]; linarith
  · have h3 : ¬ r < m := not_lt.mpr hgt.le
    have : ¬ m = r := hgt.ne
    simp [h3, this]; refine ⟨⟨hgt.le, h2⟩, by rw [hm]; linarith, by rw [hm]; linarith⟩

/-- the loop with enough fuel returns, the root stays bracketed, width ≤ w₀/2^k after k steps -/
theorem bis_loop (tol : ℝ) (max_iter : ℕ) :
    ∀ (fuel : ℕ) (s : BState ℝ), s.lower ≤ r ∧ r ≤ s.upper → max_iter - s.iterations ≤ fuel →
    ∃ s', whileLoop (bisCond tol max_iter) (bisBody f) fuel s = some s' ∧
      (s'.lower ≤ r ∧ r ≤ s'.upper) ∧ bisCond tol max_iter s' = false ∧
      s'.upper - s'.lower ≤ (s.upper - s.lower) / 2 ^ (s'.iterations - s.iterations) ∧
      s.iterations ≤ s'.iterations ∧ s'.iterations ≤ max s.iterations max_iter := by
  intro fuel
  induction fuel with
  | zero =>
    intro s hs hfuel
    have hc : bisCond tol max_iter s = false := by
      unfold bisCond; have : ¬ s.iterations < max_iter := by omega
      simp [this]
    exact ⟨s, by simp [whileLoop, hc], hs, hc, by simp, le_refl _, le_max_left _ _⟩
  | succ n ih =>
    intro s hs hfuel
    by_cases hc : bisCond tol max_iter s = true
    · have hlt : s.iterations < max_iter := by
        unfold bisCond at hc; simp at hc; exact hc.2
      obtain ⟨hinv, hw, hle, hit⟩ := bisBody_inv f hf r hr s hs
      obtain ⟨s', e, hb, hcf, hw', hit', hmax⟩ := ih (bisBody f s) hinv (by rw [hit]; omega)
      refine ⟨s', by simp [whileLoop, hc, e], hb, hcf, ?_, by omega, by rw [hit] at hmax; omega⟩
      have hk : s'.iterations - s.iterations = (s'.iterations - (bisBody f s).iterations) + 1 := by omega
      rw [hk, pow_succ]
      have hpos : (0:ℝ) < 2 ^ (s'.iterations - (bisBody f s).iterations) := by positivity
      calc s'.upper - s'.lower ≤ ((bisBody f s).upper - (bisBody f s).lower) / 2 ^ (s'.iterations - (bisBody f s).iterations) := hw'
        _ ≤ ((s.upper - s.lower) / 2) / 2 ^ (s'.iterations - (bisBody f s).iterations) := by
              apply div_le_div_of_nonneg_right hw hpos.le
        _ = (s.upper - s.lower) / (2 ^ (s'.iterations - (bisBody f s).iterations) * 2) := by
              field_simp
    · have hc' : bisCond tol max_iter s = false := by simpa using hc
      exact ⟨s, by simp [whileLoop, hc'], hs, hc', by simp, le_refl _, le_max_left _ _⟩

/-- C10 `bisect_result`: the returned midpoint is within max(tol, w₀/2^(max_iter+1)) of the root -/
theorem bis_result (tol : ℝ) (htol : 0 < tol) (max_iter : ℕ) (lo hi : ℝ) (h : lo ≤ r ∧ r ≤ hi) :
    ∃ s', whileLoop (bisCond tol max_iter) (bisBody f) max_iter ⟨lo, hi, 0⟩ = some s' ∧
      s'.iterations ≤ max_iter ∧
      |bisRoot s' - r| ≤ max tol ((hi - lo) / 2 ^ (max_iter + 1)) := by
  obtain ⟨s', e, hb, hcf, hw, _, hmax⟩ := bis_loop f hf r hr tol max_iter max_iter ⟨lo, hi, 0⟩ h (by simp)
  have hdist : |bisRoot s' - r| ≤ (s'.upper - s'.lower) / 2 := by
    unfold bisRoot; rw [abs_le]; constructor <;> linarith [hb.1, hb.2]
  have hcases : s'.upper - s'.lower ≤ 2 * tol ∨ max_iter ≤ s'.iterations := by
    unfold bisCond at hcf; simp at hcf
    by_cases hh : 2 * tol < s'.upper - s'.lower
    · right; exact hcf hh
    · left; exact not_lt.mp hh
  have hitle : s'.iterations ≤ max_iter := by
    simpa using hmax
  refine ⟨s', e, hitle, ?_⟩
  rcases hcases with h1 | h2
  · exact le_trans hdist (le_trans (by linarith) (le_max_left _ _))
  · have : s'.iterations = max_iter := le_antisymm hitle h2
    simp only [this, Nat.sub_zero] at hw
    refine le_trans hdist (le_trans ?_ (le_max_right _ _))
    rw [pow_succ]; rw [div_le_iff₀ (by norm_num : (0:ℝ) < 2)]
    calc s'.upper - s'.lower ≤ (hi - lo) / 2 ^ max_iter := hw
      _ = (hi - lo) / (2 ^ max_iter * 2) * 2 := by field_simp

#print axioms bis_result
