import Mathlib.Tactic
import BisModel
open Bis

theorem sign_val (v : ℝ) : sign v = if v < 0 then -1 else if 0 < v then 1 else 0 := rfl
theorem sign_neg' {v : ℝ} (h : v < 0) : sign v = -1 := by simp [sign, h]
theorem sign_pos' {v : ℝ} (h : 0 < v) : sign v = 1 := by simp [sign, h, not_lt.mpr h.le]
theorem sign_zero' : sign (0:ℝ) = 0 := by simp [sign]
theorem sign_cases (v : ℝ) : (v < 0 ∧ sign v = -1) ∨ (v = 0 ∧ sign v = 0) ∨ (0 < v ∧ sign v = 1) := by
  rcases lt_trichotomy v 0 with h | h | h
  · exact Or.inl ⟨h, sign_neg' h⟩
  · exact Or.inr (Or.inl ⟨h, by rw [h]; exact sign_zero'⟩)
  · exact Or.inr (Or.inr ⟨h, sign_pos' h⟩)

variable (f : ℝ → ℝ) (hf : StrictMono f) (r : ℝ) (hr : f r = 0)

def AInv (s : AState ℝ) : Prop :=
  s.lower < s.upper ∧ 0 < s.expand_by ∧ s.lower_fn_sign = sign (f s.lower) ∧ s.upper_fn_sign = sign (f s.upper)

/-- distance still to travel while both ends are on the same side of the root -/
noncomputable def adist (s : AState ℝ) : ℝ := if s.lower_fn_sign = 1 then s.lower - r else r - s.upper

include hf hr
theorem fx_lt (x : ℝ) : f x < 0 ↔ x < r := by rw [← hr]; exact hf.lt_iff_lt
theorem fx_gt (x : ℝ) : 0 < f x ↔ r < x := by rw [← hr]; exact hf.lt_iff_lt
theorem fx_eq (x : ℝ) : f x = 0 ↔ x = r := by rw [← hr]; exact hf.injective.eq_iff

/-- when the loop condition is false the root is bracketed -/
theorem bracket_of_exit (s : AState ℝ) (hi : AInv f s) (hc : adaptCond s = false) :
    s.lower ≤ r ∧ r ≤ s.upper := by
  obtain ⟨hlt, _, hl, hu⟩ := hi
  have hne : s.lower_fn_sign ≠ s.upper_fn_sign := by simpa [adaptCond] using hc
  rw [hl, hu] at hne
  have hmono : f s.lower < f s.upper := hf hlt
  rcases sign_cases (f s.lower) with ⟨a, sa⟩ | ⟨a, sa⟩ | ⟨a, sa⟩ <;>
  rcases sign_cases (f s.upper) with ⟨b, sb⟩ | ⟨b, sb⟩ | ⟨b, sb⟩ <;>
  simp only [sa, sb] at hne <;> first
    | exact absurd rfl hne
    | (exfalso; linarith)
    | (constructor
       · first | exact ((fx_lt f hf r hr _).mp a).le | exact ((fx_eq f hf r hr _).mp a).le
       · first | exact ((fx_gt f hf r hr _).mp b).le | exact ((fx_eq f hf r hr _).mp b).ge)

theorem adapt_loop (e0 : ℝ) (he0 : 0 < e0) :
    ∀ (fuel : ℕ) (s : AState ℝ), AInv f s → e0 ≤ s.expand_by →
      (adaptCond s = true → adist r s ≤ fuel * e0) →
      ∃ s', whileLoop adaptCond (adaptBody f 2) fuel s = some s' ∧ AInv f s' ∧ adaptCond s' = false := by
  intro fuel
  induction fuel with
  | zero =>
    intro s hi he hd
    by_cases hc : adaptCond s = true
    · exfalso
      have hd := hd hc; simp at hd
      obtain ⟨hlt, _, hl, hu⟩ := hi
      have heq : s.lower_fn_sign = s.upper_fn_sign := by simpa [adaptCond] using hc
      unfold adist at hd
      rcases sign_cases (f s.lower) with ⟨a, sa⟩ | ⟨a, sa⟩ | ⟨a, sa⟩
      · -- both negative: upper < r so dist > 0
        have : sign (f s.upper) = -1 := by rw [← hu, ← heq, hl, sa]
        rcases sign_cases (f s.upper) with ⟨b, sb⟩ | ⟨b, sb⟩ | ⟨b, sb⟩ <;> rw [sb] at this <;> try norm_num at this
        have := (fx_lt f hf r hr _).mp b
        rw [hl, sa] at hd; norm_num at hd; linarith
      · have : sign (f s.upper) = 0 := by rw [← hu, ← heq, hl, sa]
        rcases sign_cases (f s.upper) with ⟨b, sb⟩ | ⟨b, sb⟩ | ⟨b, sb⟩ <;> rw [sb] at this <;> try norm_num at this
        have h1 := (fx_eq f hf r hr _).mp a; have h2 := (fx_eq f hf r hr _).mp b; linarith
      · rw [hl, sa] at hd; simp at hd
        have := (fx_gt f hf r hr _).mp a; linarith
    · have hc' : adaptCond s = false := by simpa using hc
      exact ⟨s, by simp [whileLoop, hc'], hi, hc'⟩
  | succ n ih =>
    intro s hi he hd
    by_cases hc : adaptCond s = true
    · have hd := hd hc
      obtain ⟨hlt, hepos, hl, hu⟩ := hi
      have heq : s.lower_fn_sign = s.upper_fn_sign := by simpa [adaptCond] using hc
      simp only [whileLoop, hc, if_true]
      apply ih
      · -- invariant preserved
        unfold adaptBody AInv sel; simp only
        by_cases h1 : s.lower_fn_sign = 1
        · simp [h1]; exact hepos
        · simp [h1]; exact hepos
      · unfold adaptBody; simp only; linarith
      · intro hc2
        have hc2' : (adaptBody f 2 s).lower_fn_sign = (adaptBody f 2 s).upper_fn_sign := by
          simpa [adaptCond] using hc2
        push_cast at hd
        by_cases h1 : s.lower_fn_sign = 1
        · -- root below: new upper end is the old lower end, whose sign is 1
          have hnu : (adaptBody f 2 s).upper_fn_sign = 1 := by
            simp [adaptBody, sel, h1]; rw [← hl]; exact h1
          have hnl : (adaptBody f 2 s).lower_fn_sign = 1 := by rw [hc2', hnu]
          have hlow : (adaptBody f 2 s).lower = s.lower - s.expand_by := by simp [adaptBody, sel, h1]
          have hd0 : adist r s = s.lower - r := by simp [adist, h1]
          simp only [adist, hnl, if_true, hlow]; rw [hd0] at hd; nlinarith
        · -- root above (sign 0 on both ends is impossible)
          have hneg : s.lower_fn_sign = -1 := by
            rcases sign_cases (f s.lower) with ⟨a, sa⟩ | ⟨a, sa⟩ | ⟨a, sa⟩
            · rw [hl, sa]
            · exfalso
              have hz : sign (f s.upper) = 0 := by rw [← hu, ← heq, hl, sa]
              rcases sign_cases (f s.upper) with ⟨b, sb⟩ | ⟨b, sb⟩ | ⟨b, sb⟩ <;> rw [sb] at hz <;> try norm_num at hz
              have h1' := (fx_eq f hf r hr _).mp a; have h2' := (fx_eq f hf r hr _).mp b; linarith
            · exfalso; exact h1 (by rw [hl, sa])
          have hnl : (adaptBody f 2 s).lower_fn_sign = -1 := by
            simp [adaptBody, sel, h1]; rw [← hu, ← heq]; exact hneg
          have hne1 : ¬ (adaptBody f 2 s).lower_fn_sign = 1 := by rw [hnl]; norm_num
          have hup : (adaptBody f 2 s).upper = s.upper + s.expand_by := by simp [adaptBody, sel, h1]
          have hd0 : adist r s = r - s.upper := by simp [adist, h1]
          simp only [adist, hne1, if_false, hup]; rw [hd0] at hd; nlinarith
    · have hc' : adaptCond s = false := by simpa using hc
      exact ⟨s, by simp [whileLoop, hc'], ⟨hi.1, hi.2.1, hi.2.2.1, hi.2.2.2⟩, hc'⟩

#print axioms adapt_loop
#print axioms bracket_of_exit
