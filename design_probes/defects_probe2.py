import jax, jax.numpy as jnp, equinox as eqx, jax.random as jr, optax
jax.config.update("jax_enable_x64", True)
from flowjax.bijections import *
from flowjax.wrappers import unwrap
from flowjax.distributions import *
from flowjax.train import fit_to_variational_target, fit_to_data
s = RationalQuadraticSpline(knots=3, interval=2)
for v in [-2.0, 2.0, 0.0, -2.5]:
    g = eqx.filter_grad(lambda sp, x: sp.inverse_and_log_det(x)[1])(s, jnp.array(v))
    gx = jax.grad(lambda x: s.inverse_and_log_det(x)[1])(jnp.array(v))
    print("spline inv param grads at", v, [l.tolist() for l in jax.tree_util.tree_leaves(g)], "gx", gx)
d = Transformed(StandardNormal(()), Invert(s))
print("lp grads", jax.tree_util.tree_leaves(eqx.filter_grad(lambda d,x: d.log_prob(x))(d, jnp.array(-2.0))))
d = Transformed(StandardNormal(()), s)
print("lp grads (noninv)", jax.tree_util.tree_leaves(eqx.filter_grad(lambda d,x: d.log_prob(x))(d, jnp.array(-2.0))))
# C16 variational defect
class Quad(eqx.Module):
    p: jax.Array
def loss_fn(params, static, key):
    m = eqx.combine(params, static)
    return 4.0 ** m.p
opt = optax.sgd(1.0)
# counting optimiser: p -> p+1 each step
import optax
count_opt = optax.GradientTransformation(lambda p: (), lambda g, s, params=None: (jax.tree_util.tree_map(lambda x: jnp.ones_like(x), g), s))
m, losses = fit_to_variational_target(jr.PRNGKey(0), Quad(jnp.array(0.0)), loss_fn, steps=4, optimizer=count_opt, show_progress=False)
print("losses", losses, "returned p", m.p)
