inductive Kind | nonTrainable | reparam | whereK | weightNorm | lambda
deriving DecidableEq, Repr

inductive Tree where
  | arr (tag : Nat) : Tree
  | static (tag : Nat) : Tree
  | node (cs : List Tree) : Tree
  | wrap (k : Kind) (tag : Nat) (cs : List Tree) : Tree
deriving Repr

/-- what a wrapper's own `.unwrap()` returns, given already-unwrapped children -/
def applyW (k : Kind) (tag : Nat) (cs : List Tree) : Tree :=
  match k with
  | .nonTrainable => .node cs          -- returns the (stop-gradient'ed) subtree
  | _ => .arr (1000 + tag)             -- an array computed from the children

mutual
def unwrap : Tree → Tree
  | .arr t => .arr t
  | .static t => .static t
  | .node cs => .node (unwrapL cs)
  | .wrap k t cs => applyW k t (unwrapL cs)
def unwrapL : List Tree → List Tree
  | [] => []
  | c :: cs => unwrap c :: unwrapL cs
end

mutual
def noWrap : Tree → Bool
  | .arr _ => true
  | .static _ => true
  | .node cs => noWrapL cs
  | .wrap _ _ _ => false
def noWrapL : List Tree → Bool
  | [] => true
  | c :: cs => noWrap c && noWrapL cs
end

mutual
theorem unwrap_noWrap : ∀ t, noWrap (unwrap t) = true
  | .arr _ => by simp [unwrap, noWrap]
  | .static _ => by simp [unwrap, noWrap]
  | .node cs => by simp [unwrap, noWrap, unwrapL_noWrap cs]
  | .wrap k t cs => by
      cases k <;> simp [unwrap, applyW, noWrap, unwrapL_noWrap cs]
theorem unwrapL_noWrap : ∀ cs, noWrapL (unwrapL cs) = true
  | [] => by simp [unwrapL, noWrapL]
  | c :: cs => by simp [unwrapL, noWrapL, unwrap_noWrap c, unwrapL_noWrap cs]
end

mutual
theorem unwrap_id_of_noWrap : ∀ t, noWrap t = true → unwrap t = t
  | .arr _, _ => by simp [unwrap]
  | .static _, _ => by simp [unwrap]
  | .node cs, h => by simp [unwrap, unwrapL_id_of_noWrap cs (by simpa [noWrap] using h)]
  | .wrap _ _ _, h => by simp [noWrap] at h
theorem unwrapL_id_of_noWrap : ∀ cs, noWrapL cs = true → unwrapL cs = cs
  | [], _ => by simp [unwrapL]
  | c :: cs, h => by
      simp [noWrapL] at h
      simp [unwrapL, unwrap_id_of_noWrap c h.1, unwrapL_id_of_noWrap cs h.2]
end

theorem unwrap_idempotent (t : Tree) : unwrap (unwrap t) = unwrap t :=
  unwrap_id_of_noWrap _ (unwrap_noWrap t)
#print axioms unwrap_idempotent
#eval unwrap (.node [.wrap .nonTrainable 1 [.wrap .reparam 2 [.arr 3]], .wrap .whereK 4 [.arr 5, .wrap .lambda 6 [.arr 7]]])
