import Mathlib.Tactic
import Mathlib.Analysis.SpecialFunctions.Sqrt

open Real

/-- core algebra of the RQS inverse inside one bin -/
theorem rqs_root (xi s d0 d1 D : ℝ) (hs : 0 < s) (h0 : 0 < d0) (h1 : 0 < d1) (hD : 0 < D)
    (hx0 : 0 ≤ xi) (hx1 : xi ≤ 1) :
    let den := s + (d1 + d0 - 2*s) * xi * (1 - xi)
    let u := D * (s * xi^2 + d0 * xi * (1 - xi)) / den
    let T := u * (d1 + d0 - 2*s)
    let a := D * (s - d0) + T
    let b := D * d0 - T
    let c := -s * u
    (2 * c) / (-b - sqrt (b^2 - 4*a*c)) = xi := by
  intro den u T a b c
  have hden : 0 < den := by
    have : den = s * (xi^2 + (1-xi)^2) + (d1 + d0) * (xi * (1 - xi)) := by simp only [den]; ring
    rw [this]
    have h1x : 0 ≤ 1 - xi := by linarith
    have : 0 < xi^2 + (1-xi)^2 := by nlinarith [sq_nonneg xi, sq_nonneg (1-xi)]
    have := mul_pos hs this
    have := mul_nonneg (by linarith : 0 ≤ d1 + d0) (mul_nonneg hx0 h1x)
    linarith
  have hroot : a * xi^2 + b * xi + c = 0 := by
    simp only [a, b, c, T, u]; field_simp; ring
  have h2 : (2*a*xi + b) * den = D * (s * (d0*(1-xi)^2 + d1*xi^2 + 2*s*xi*(1-xi))) := by
    simp only [a, b, T, u]; field_simp; ring
  have h3 : (a*xi + b) * den = D * (s * (d0*(1-xi) + s*xi)) := by
    simp only [a, b, T, u]; field_simp; ring
  have h1x : 0 ≤ 1 - xi := by linarith
  have p2 : 0 < 2*a*xi + b := by
    have : 0 < (2*a*xi + b) * den := by
      rw [h2]; apply mul_pos hD; apply mul_pos hs
      have := mul_nonneg h0.le (sq_nonneg (1-xi))
      have := mul_nonneg h1.le (sq_nonneg xi)
      have := mul_nonneg (mul_nonneg (by linarith : (0:ℝ) ≤ 2*s) hx0) h1x
      rcases eq_or_lt_of_le hx0 with h | h
      · subst h; simp; positivity
      · have := mul_pos h1 (pow_pos h 2); linarith
    exact (pos_iff_pos_of_mul_pos this).mpr hden
  have p3 : 0 < a*xi + b := by
    have : 0 < (a*xi + b) * den := by
      rw [h3]; apply mul_pos hD; apply mul_pos hs
      rcases eq_or_lt_of_le hx0 with h | h
      · subst h; simp; exact h0
      · have := mul_pos hs h; have := mul_nonneg h0.le h1x; linarith
    exact (pos_iff_pos_of_mul_pos this).mpr hden
  have hdisc : b^2 - 4*a*c = (2*a*xi + b)^2 := by
    have : c = -(a*xi^2 + b*xi) := by linarith
    rw [this]; ring
  rw [hdisc, sqrt_sq p2.le]
  have hc : c = -(xi * (a*xi + b)) := by
    have h : c = -(a*xi^2 + b*xi) := by linarith
    rw [h]; ring
  have e : -b - (2*a*xi + b) = -2 * (a*xi + b) := by ring
  rw [e, hc]
  have hne : xi * a + b ≠ 0 := by rw [mul_comm]; exact p3.ne'
  field_simp

#print axioms rqs_root
