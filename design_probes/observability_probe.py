import jax, jax.numpy as jnp, jax.random as jr, equinox as eqx, optax
jax.config.update("jax_enable_x64", True)
from flowjax.bisection_search import _bisection_search, _autoregressive_bisection_search
from flowjax.train import fit_to_data
pts=[]
def f(x):
    pts.append(float(x)); return 2.0*x - 37.5
with jax.disable_jit():
    root, ad, it = _bisection_search(f, lower=jnp.array(-10.), upper=jnp.array(10.), tol=1e-3, max_iter=200)
print("root", root, "adapt", ad, "iters", it, "npts", len(pts)); print(pts[:12])
# fit_to_data observation
import numpy as np
n=11
x=jnp.arange(n, dtype=float)[:,None]; c=100+jnp.arange(n,dtype=float)[:,None]
calls=[]
class P(eqx.Module):
    p: jax.Array
def loss_fn(params, static, x, condition=None, key=None):
    calls.append((np.asarray(x).ravel().tolist(), np.asarray(condition).ravel().tolist(), np.asarray(jr.key_data(key) if hasattr(key,'dtype') and jnp.issubdtype(key.dtype, jax.dtypes.prng_key) else key).tolist()))
    return (params.p**2).sum()
with jax.disable_jit():
    m, losses = fit_to_data(jr.PRNGKey(1), P(jnp.array(1.0)), x, condition=c, loss_fn=loss_fn, max_epochs=2, batch_size=4, val_prop=0.3, show_progress=False)
for cl in calls: print(cl)
print(losses)
