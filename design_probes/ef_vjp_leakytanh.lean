import Mathlib.Tactic
import Mathlib.Analysis.SpecialFunctions.Artanh
noncomputable section
open Classical

/-- IEEE special values over exact reals (no rounding, no overflow, no signed zero). -/
inductive EF | fin (r : ℝ) | pinf | ninf | nan

namespace EF
def isFin : EF → Prop | fin _ => True | _ => False
def neg : EF → EF | fin r => fin (-r) | pinf => ninf | ninf => pinf | nan => nan
def add : EF → EF → EF
  | fin a, fin b => fin (a + b)
  | nan, _ | _, nan => nan
  | pinf, ninf | ninf, pinf => nan
  | pinf, _ | _, pinf => pinf
  | ninf, _ | _, ninf => ninf
def mul : EF → EF → EF
  | fin a, fin b => fin (a * b)
  | nan, _ | _, nan => nan
  | fin a, pinf | pinf, fin a => if a = 0 then nan else if 0 < a then pinf else ninf
  | fin a, ninf | ninf, fin a => if a = 0 then nan else if 0 < a then ninf else pinf
  | pinf, pinf | ninf, ninf => pinf
  | pinf, ninf | ninf, pinf => ninf
def recip : EF → EF
  | fin a => if a = 0 then pinf else fin a⁻¹
  | pinf | ninf => fin 0
  | nan => nan
def artanh : EF → EF
  | fin a => if |a| < 1 then fin (Real.artanh a) else if a = 1 then pinf else if a = -1 then ninf else nan
  | _ => nan
instance : Add EF := ⟨add⟩
instance : Mul EF := ⟨mul⟩
instance : Neg EF := ⟨neg⟩
end EF
open EF

inductive Expr
  | var | const (c : ℝ)
  | add (a b : Expr) | mul (a b : Expr) | recip (a : Expr) | neg (a : Expr)
  | sel (c : ℝ → Bool) (a b : Expr)   -- mask computed from the (finite) input, not differentiated
  | artanh (a : Expr)

def eval (y : ℝ) : Expr → EF
  | .var => fin y | .const c => fin c
  | .add a b => eval y a + eval y b | .mul a b => eval y a * eval y b
  | .recip a => EF.recip (eval y a) | .neg a => -(eval y a)
  | .sel c a b => if c y then eval y a else eval y b
  | .artanh a => EF.artanh (eval y a)

/-- reverse mode: cotangent `ct` arriving at node `e`; returns the contribution to d/dy. JAX rules. -/
def vjp (y : ℝ) : Expr → EF → EF
  | .var, ct => ct
  | .const _, _ => fin 0
  | .add a b, ct => vjp y a ct + vjp y b ct
  | .mul a b, ct => vjp y a (ct * eval y b) + vjp y b (ct * eval y a)
  | .neg a, ct => vjp y a (-ct)
  | .recip a, ct => vjp y a (ct * -(EF.recip (eval y a * eval y a)))
  | .sel c a b, ct => vjp y a (if c y then ct else fin 0) + vjp y b (if c y then fin 0 else ct)
  | .artanh a, ct => vjp y a (ct * EF.recip (fin 1 + -(eval y a * eval y a)))

/-- LeakyTanh.inverse as written on the pinned tree (g, c, t are the constructor's constants) -/
def leakyInv (g c t : ℝ) : Expr :=
  .sel (fun y => decide (|y| ≥ t)) (.mul (.add .var (.neg (.const c))) (.recip (.const g))) (.artanh .var)
/-- with the double-where guard -/
def leakyInvGuarded (g c t : ℝ) : Expr :=
  .sel (fun y => decide (|y| ≥ t)) (.mul (.add .var (.neg (.const c))) (.recip (.const g)))
       (.artanh (.sel (fun y => decide (|y| ≥ t)) (.const 0) .var))

@[simp] theorem fin_add (a b : ℝ) : (fin a + fin b : EF) = fin (a + b) := rfl
@[simp] theorem fin_mul (a b : ℝ) : (fin a * fin b : EF) = fin (a * b) := rfl
@[simp] theorem fin_neg (a : ℝ) : (-(fin a) : EF) = fin (-a) := rfl
@[simp] theorem zero_mul_pinf : (fin 0 * pinf : EF) = nan := by show EF.mul _ _ = _; simp [EF.mul]
@[simp] theorem add_nan (a : EF) : a + nan = nan := by cases a <;> rfl
theorem recip_fin {a : ℝ} (h : a ≠ 0) : EF.recip (fin a) = fin a⁻¹ := by simp [EF.recip, h]

/-- the defect: NaN input-gradient at y = 1 whenever t < 1 -/
theorem leakyInv_grad_nan (g c t : ℝ) (hg : g ≠ 0) (ht : t ≤ 1) :
    vjp 1 (leakyInv g c t) (fin 1) = nan := by
  have h1 : decide (|(1:ℝ)| ≥ t) = true := by simp [ht]
  simp [leakyInv, vjp, eval, hg, ht, EF.recip]

/-- the guarded form has a finite gradient at every real input -/
theorem leakyInvGuarded_grad_fin (g c t : ℝ) (hg : g ≠ 0) (ht0 : 0 < t) (ht : t ≤ 1) (y : ℝ) :
    (vjp y (leakyInvGuarded g c t) (fin 1)).isFin := by
  by_cases h : |y| ≥ t
  · have hd : decide (|y| ≥ t) = true := by simp [h]
    simp [leakyInvGuarded, vjp, eval, hd, hg, h, EF.recip, EF.isFin]
  · have hd : decide (|y| ≥ t) = false := by simp [h]
    have hy : y * y ≠ 1 := by
      have : |y| < 1 := lt_of_lt_of_le (not_le.mp h) ht
      have := abs_lt.mp this
      nlinarith
    have hne : (1:ℝ) + -(y*y) ≠ 0 := by intro e; apply hy; linarith
    simp [leakyInvGuarded, vjp, eval, hd, hg, h, hne, EF.recip, EF.isFin]
#print axioms leakyInv_grad_nan
#print axioms leakyInvGuarded_grad_fin
