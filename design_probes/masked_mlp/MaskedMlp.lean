import Mathlib.Tactic
import Mathlib.Algebra.BigOperators.Group.Finset.Basic
open Finset BigOperators

/-- A masked MLP with arbitrary real weights/biases/activation.
 `rank 0` = input ranks, `rank (l+1)` for `l < depth` = hidden ranks (the same vector in flowjax,
 but the theorem does not need that), `outRank` = output ranks; widths `n l`. -/
structure MaskedMLP where
  depth : ℕ
  n : ℕ → ℕ                 -- width of layer l (l = 0 input, 1..depth hidden)
  nOut : ℕ
  rank : ℕ → ℕ → ℤ          -- rank l i
  outRank : ℕ → ℤ
  W : ℕ → ℕ → ℕ → ℝ         -- raw (unmasked, trainable) weights  W l out in
  b : ℕ → ℕ → ℝ
  Wlast : ℕ → ℕ → ℝ
  blast : ℕ → ℝ
  act : ℝ → ℝ

namespace MaskedMLP
variable (m : MaskedMLP)
/-- `rank_based_mask(in, out, eq=True)` applied at unwrap: `Where(mask, weight, 0)` -/
def hiddenW (l o i : ℕ) : ℝ := if m.rank (l+1) o ≥ m.rank l i then m.W l o i else 0
/-- last layer: strict comparison -/
def lastW (o i : ℕ) : ℝ := if m.outRank o > m.rank m.depth i then m.Wlast o i else 0

def layer (x : ℕ → ℝ) : ℕ → ℕ → ℝ
  | 0 => x
  | l+1 => fun o => m.act (∑ i ∈ range (m.n l), m.hiddenW l o i * layer x l i + m.b l o)
def out (x : ℕ → ℝ) (o : ℕ) : ℝ := ∑ i ∈ range (m.n m.depth), m.lastW o i * m.layer x m.depth i + m.blast o

/-- ranks are non-decreasing along every unmasked hidden edge, so a unit of rank ρ only sees inputs of rank ≤ ρ -/
theorem layer_dep (x x' : ℕ → ℝ) : ∀ (l u : ℕ), 1 ≤ l →
    (∀ i, i < m.n 0 → m.rank 0 i ≤ m.rank l u → x i = x' i) → m.layer x l u = m.layer x' l u := by
  intro l
  induction l with
  | zero => intro u h; omega
  | succ l ih =>
    intro u _ hagree
    simp only [layer]
    congr 1; congr 1
    apply Finset.sum_congr rfl
    intro i hi
    unfold hiddenW
    split_ifs with hmask
    · congr 1
      rcases Nat.eq_zero_or_pos l with h0 | hpos
      · subst h0; simp only [layer]; exact hagree i (mem_range.mp hi) hmask
      · exact ih i hpos (fun j hj hr => hagree j hj (le_trans hr hmask))
    · simp

/-- C09 `masked_mlp_dependency`: for ALL weights, biases, activation, depth and widths, output `o` is
 unchanged by any change of the inputs whose rank is ≥ rank of `o`. -/
theorem out_dep (x x' : ℕ → ℝ) (o : ℕ)
    (hagree : ∀ i, i < m.n 0 → m.rank 0 i < m.outRank o → x i = x' i) : m.out x o = m.out x' o := by
  unfold out
  congr 1
  apply Finset.sum_congr rfl
  intro i hi
  unfold lastW
  split_ifs with hmask
  · congr 1
    rcases Nat.eq_zero_or_pos m.depth with h0 | hpos
    · rw [h0] at hi hmask ⊢; simp only [layer]; exact hagree i (mem_range.mp hi) hmask
    · exact m.layer_dep x x' m.depth i hpos (fun j hj hr => hagree j hj (lt_of_le_of_lt hr hmask))
  · simp
end MaskedMLP
#print axioms MaskedMLP.out_dep
