from sympy import *
xi,s,d0,d1,D=symbols('xi s d0 d1 D',positive=True)
P=d1+d0-2*s; q=xi*(1-xi); den=s+P*q; N=s*xi**2+d0*q; u=D*N/den; T=u*P
a=D*(s-d0)+T; b=D*d0-T; c=-s*u
print(simplify(a*xi**2+b*xi+c))
e=factor(simplify((2*a*xi+b)*den/D)); print(e)
print(factor(simplify((a*xi+b)*den/D)))
print(factor(expand((2*a*xi+b)*den/D - (d1*xi**2*s + 2*s*s*q*0 + d0*(1-xi)**2*s))))
