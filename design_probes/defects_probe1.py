import jax, jax.numpy as jnp, equinox as eqx, jax.random as jr
jax.config.update("jax_enable_x64", True)
from flowjax.bijections import *
from flowjax.wrappers import unwrap
import flowjax
# C01 spline endpoint defect
s = RationalQuadraticSpline(knots=3, interval=2)
d = unwrap(s.derivatives)
s2 = eqx.tree_at(lambda s: s.derivatives, s, jnp.array([2.0,1.5,0.7,1.2,3.0]))
for name, sp in [("init", s), ("d0=2", s2)]:
    for v in [-2.0, 2.0]:
        print(name, v, "fwd", sp.transform(jnp.array(v)), "inv", sp.inverse(jnp.array(v)), "deriv", unwrap(sp).derivative(jnp.array(v)))
# C08 Stack negative axis
b = [Affine(jnp.zeros((2,3))), Affine(jnp.ones((2,3)))]
st = Stack(b, axis=-1); print("Stack axis=-1 shape", st.shape)
try: print(st.transform(jnp.zeros(st.shape)).shape)
except Exception as e: print("ERR", type(e).__name__, str(e)[:100])
try: print(st.transform(jnp.zeros((2,3,2))).shape)
except Exception as e: print("ERR", type(e).__name__, str(e)[:100])
# Vmap cond axis -1
ac = AdditiveCondition(lambda c: c.sum(), (), (3,))
v = Vmap(ac, axis_size=4, in_axes_condition=-1); print("vmap cond shape", v.cond_shape)
for cs in [v.cond_shape, (3,4)]:
    try: print(cs, v.transform(jnp.zeros(4), jnp.ones(cs)))
    except Exception as e: print(cs, "ERR", type(e).__name__, str(e)[:100])
# C18 NaN grads
lt = LeakyTanh(3.0)
print("leaky inv grad at 1:", jax.grad(lambda y: lt.inverse(y))(1.0), jax.grad(lambda y: lt.inverse(y))(1.5), jax.grad(lambda y: lt.inverse(y))(0.5))
print("leaky fwd grad at 3:", jax.grad(lambda y: lt.transform(y))(3.0))
g = eqx.filter_grad(lambda sp, x: sp.transform_and_log_det(x)[1])(s, jnp.array(-2.0))
print("spline param grads at x=-2:", jax.tree_util.tree_leaves(g))
g = eqx.filter_grad(lambda sp, x: sp.transform_and_log_det(x)[1])(s, jnp.array(2.0))
print("spline param grads at x=2:", jax.tree_util.tree_leaves(g))
print(jnp.arange(5) % 0, jnp.searchsorted(jnp.array([1.,2,3]), jnp.array(1.0)), jnp.array([1.,2,3])[jnp.array(5)], jnp.array([1.,2,3])[jnp.array(-1)], jnp.array([1.,2,3])[jnp.array(-5)])
