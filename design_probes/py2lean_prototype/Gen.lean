import Prelude
namespace Gen
variable {α : Type} [Add α] [Sub α] [Mul α] [Div α] [Neg α] [LT α] [LE α] [OfNat α 0] [OfNat α 1] [OfNat α 2] [OfNat α 4] [OfScientific α]
  [DecidableLT α] [DecidableLE α] [Transc α] [Inhabited α]

structure RationalQuadraticSpline (α : Type) where
  interval : α × α
  x_pos : List α
  y_pos : List α
  derivatives : List α

def RationalQuadraticSpline.transform (self : RationalQuadraticSpline α) (x : α) : α :=
  let x_pos := self.x_pos
  let y_pos := self.y_pos
  let derivatives := self.derivatives
  let in_bounds := (Jnp.logicalAnd (decide (x ≥ self.interval.1)) (decide (x ≤ self.interval.2)))
  let x_robust := (Jnp.where in_bounds x 0)
  let k : Int := ((Jnp.searchsorted x_pos x_robust) - 1)
  let xi := ((x_robust - (Jnp.getItem x_pos k)) / ((Jnp.getItem x_pos (k + 1)) - (Jnp.getItem x_pos k)))
  let sk := (((Jnp.getItem y_pos (k + 1)) - (Jnp.getItem y_pos k)) / ((Jnp.getItem x_pos (k + 1)) - (Jnp.getItem x_pos k)))
  let dk := (Jnp.getItem derivatives k)
  let dk1 := (Jnp.getItem derivatives (k + 1))
  let yk := (Jnp.getItem y_pos k)
  let yk1 := (Jnp.getItem y_pos (k + 1))
  let num := ((yk1 - yk) * ((sk * (xi * xi)) + ((dk * xi) * (1 - xi))))
  let den := (sk + ((((dk1 + dk) - (2 * sk)) * xi) * (1 - xi)))
  let y := (yk + (num / den))
  let y := (Jnp.clip y self.interval.1 self.interval.2)
  (Jnp.where in_bounds y x)

def RationalQuadraticSpline.derivative (self : RationalQuadraticSpline α) (x : α) : α :=
  let x_pos := self.x_pos
  let y_pos := self.y_pos
  let derivatives := self.derivatives
  let in_bounds := (Jnp.logicalAnd (decide (x ≥ self.interval.1)) (decide (x ≤ self.interval.2)))
  let x_robust := (Jnp.where in_bounds x 0)
  let k : Int := ((Jnp.searchsorted x_pos x_robust) - 1)
  let xi := ((x_robust - (Jnp.getItem x_pos k)) / ((Jnp.getItem x_pos (k + 1)) - (Jnp.getItem x_pos k)))
  let sk := (((Jnp.getItem y_pos (k + 1)) - (Jnp.getItem y_pos k)) / ((Jnp.getItem x_pos (k + 1)) - (Jnp.getItem x_pos k)))
  let dk := (Jnp.getItem derivatives k)
  let dk1 := (Jnp.getItem derivatives (k + 1))
  let num := ((sk * sk) * (((dk1 * (xi * xi)) + (((2 * sk) * xi) * (1 - xi))) + (dk * ((1 - xi) * (1 - xi)))))
  let den := ((sk + ((((dk1 + dk) - (2 * sk)) * xi) * (1 - xi))) * (sk + ((((dk1 + dk) - (2 * sk)) * xi) * (1 - xi))))
  let derivative := (num / den)
  (Jnp.where in_bounds derivative (1.0 : α))

def RationalQuadraticSpline.inverse (self : RationalQuadraticSpline α) (y : α) : α :=
  let x_pos := self.x_pos
  let y_pos := self.y_pos
  let derivatives := self.derivatives
  let in_bounds := (Jnp.logicalAnd (decide (y ≥ self.interval.1)) (decide (y ≤ self.interval.2)))
  let y_robust := (Jnp.where in_bounds y 0)
  let k : Int := ((Jnp.searchsorted y_pos y_robust) - 1)
  let xk := (Jnp.getItem x_pos k)
  let xk1 := (Jnp.getItem x_pos (k + 1))
  let yk := (Jnp.getItem y_pos k)
  let yk1 := (Jnp.getItem y_pos (k + 1))
  let sk := ((yk1 - yk) / (xk1 - xk))
  let y_delta_s_term := ((y_robust - yk) * (((Jnp.getItem derivatives (k + 1)) + (Jnp.getItem derivatives k)) - (2 * sk)))
  let a := (((yk1 - yk) * (sk - (Jnp.getItem derivatives k))) + y_delta_s_term)
  let b := (((yk1 - yk) * (Jnp.getItem derivatives k)) - y_delta_s_term)
  let c := ((-sk) * (y_robust - yk))
  let sqrt_term := (Transc.sqrt ((b * b) - ((4 * a) * c)))
  let xi := ((2 * c) / ((-b) - sqrt_term))
  let x := ((xi * (xk1 - xk)) + xk)
  let x := (Jnp.clip x self.interval.1 self.interval.2)
  (Jnp.where in_bounds x y)

def tanhLogGrad (x : α) : α :=
  ((-2) * ((x + (Transc.softplus ((-2) * x))) - (Transc.log (2.0 : α))))

structure LeakyTanh (α : Type) where
  max_val : α
  intercept : α
  linear_grad : α

def LeakyTanh.transform (self : LeakyTanh α) (x : α) : α :=
  let is_linear := (decide ((Jnp.abs x) ≥ self.max_val))
  let linear_y := ((self.linear_grad * x) + ((Jnp.sign x) * self.intercept))
  let tanh_y := (Transc.tanh x)
  (Jnp.where is_linear linear_y tanh_y)

def LeakyTanh.inverse (self : LeakyTanh α) (y : α) : α :=
  let is_linear := (decide ((Jnp.abs y) ≥ (Transc.tanh self.max_val)))
  let x_linear := ((y - ((Jnp.sign y) * self.intercept)) / self.linear_grad)
  let x_arctan := (Transc.artanh y)
  (Jnp.where is_linear x_linear x_arctan)

end Gen