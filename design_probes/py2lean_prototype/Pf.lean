import Mathlib.Tactic
import Mathlib.Analysis.SpecialFunctions.Artanh
import Mathlib.Analysis.SpecialFunctions.Log.Basic
import Mathlib.Analysis.SpecialFunctions.Sqrt
import Gen
open Gen
noncomputable instance : Transc ℝ where
  exp := Real.exp; log := Real.log; tanh := Real.tanh; artanh := Real.artanh; sqrt := Real.sqrt
  softplus x := Real.log (1 + Real.exp x)

theorem rqs_identity_outside (s : RationalQuadraticSpline ℝ) (x : ℝ) (h : s.interval.2 < x) :
    s.transform x = x := by
  unfold RationalQuadraticSpline.transform
  simp only [Jnp.where, Jnp.logicalAnd]
  have : ¬ (x ≤ s.interval.2) := not_le.mpr h
  simp [this]

theorem leaky_linear_roundtrip (l : LeakyTanh ℝ) (x : ℝ) (hm : 0 < l.max_val) (hg : 0 < l.linear_grad)
    (hi : l.intercept = Real.tanh l.max_val - l.linear_grad * l.max_val) (hx : l.max_val ≤ x) :
    l.inverse (l.transform x) = x := by
  have hx0 : 0 < x := lt_of_lt_of_le hm hx
  have habs : Jnp.abs x = x := by unfold Jnp.abs; simp [not_lt.mpr hx0.le]
  have hsign : Jnp.sign x = 1 := by unfold Jnp.sign; simp [not_lt.mpr hx0.le, hx0]
  have ht : 0 < Real.tanh l.max_val := by rw [Real.tanh_eq_sinh_div_cosh]; exact div_pos (Real.sinh_pos_iff.mpr hm) (Real.cosh_pos _)
  have hy : l.transform x = Real.tanh l.max_val + l.linear_grad * (x - l.max_val) := by
    unfold LeakyTanh.transform; simp only [Jnp.where, habs, hsign, hi, decide_eq_true hx]; simp; ring
  have hyge : Real.tanh l.max_val ≤ l.transform x := by
    rw [hy]; nlinarith [mul_nonneg hg.le (sub_nonneg.mpr hx)]
  have hy0 : 0 < l.transform x := lt_of_lt_of_le ht hyge
  have habsy : Jnp.abs (l.transform x) = l.transform x := by unfold Jnp.abs; simp [not_lt.mpr hy0.le]
  have hsigny : Jnp.sign (l.transform x) = 1 := by unfold Jnp.sign; simp [not_lt.mpr hy0.le, hy0]
  unfold LeakyTanh.inverse
  simp only [Jnp.where, habsy, hsigny]
  have : (Transc.tanh l.max_val : ℝ) = Real.tanh l.max_val := rfl
  rw [this, decide_eq_true hyge]; simp only [if_true]
  rw [hy, hi]; field_simp; ring
#print axioms leaky_linear_roundtrip
