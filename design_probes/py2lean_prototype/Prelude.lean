class Transc (α : Type) where
  exp : α → α
  log : α → α
  tanh : α → α
  artanh : α → α
  sqrt : α → α
  softplus : α → α

namespace Jnp
variable {α : Type} [Add α] [Sub α] [Mul α] [Div α] [Neg α] [LT α] [LE α] [OfNat α 0] [OfNat α 1]
  [DecidableLT α] [DecidableLE α]
@[inline] def «where» {β : Type} (c : Bool) (a b : β) : β := if c then a else b
@[inline] def logicalAnd (a b : Bool) : Bool := a && b
def abs (x : α) : α := if x < 0 then -x else x
def sign (x : α) : α := if x < 0 then -1 else if 0 < x then 1 else 0
def clip (x lo hi : α) : α := if x < lo then lo else if hi < x then hi else x
/-- side='left': number of elements strictly below v (array assumed sorted) -/
def searchsorted (xs : List α) (v : α) : Int := ((xs.takeWhile (fun a => decide (a < v))).length : Int)
/-- JAX x[i]: negative wraps once, then clamps into range -/
def getItem [Inhabited α] (xs : List α) (i : Int) : α :=
  let n : Int := xs.length
  let j := if i < 0 then i + n else i
  let j := if j < 0 then 0 else if j ≥ n then n - 1 else j
  xs.getD j.toNat default
def sum0 (x : α) : α := x
end Jnp
instance : Inhabited Float := ⟨0⟩
instance : Transc Float where
  exp := Float.exp; log := Float.log; tanh := Float.tanh; artanh := Float.atanh; sqrt := Float.sqrt
  softplus x := (if x > 0 then x else 0) + Float.log (1 + Float.exp (-(Float.abs x)))
