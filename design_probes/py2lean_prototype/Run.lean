import Gen
open Gen
def s : RationalQuadraticSpline Float := { interval := (-2, 2), x_pos := [-2, -1, 0.5, 1.2, 2], y_pos := [-2, -0.3, 0.1, 1.5, 2], derivatives := [2, 1.5, 0.7, 1.2, 3] }
def main : IO Unit := do
  for x in [-2.0, -1.5, -1.0, 0.0, 0.5, 1.9, 2.0, 2.5] do
    let y := s.transform x
    IO.println s!"{x} {y} {s.inverse y} {s.derivative x}"
  let l : LeakyTanh Float := { max_val := 3, linear_grad := Float.exp (tanhLogGrad 3), intercept := Float.tanh 3 - Float.exp (tanhLogGrad 3) * 3 }
  for x in [-4.0, -3.0, 0.3, 3.0, 5.0] do
    IO.println s!"{x} {l.transform x} {l.inverse (l.transform x)}"
