"""Scratch prototype: translate straight-line jnp methods to Lean (generic scalar)."""
import ast, sys, textwrap
SRC = {'rqs': '/repo/flowjax/bijections/rational_quadratic_spline.py', 'tanh': '/repo/flowjax/bijections/tanh.py'}
CALLS = {'jnp.where':'Jnp.where','jnp.logical_and':'Jnp.logicalAnd','jnp.searchsorted':'Jnp.searchsorted','jnp.clip':'Jnp.clip',
 'jnp.abs':'Jnp.abs','jnp.sign':'Jnp.sign','jnp.tanh':'Transc.tanh','jnp.arctanh':'Transc.artanh','jnp.sqrt':'Transc.sqrt','jnp.log':'Transc.log',
 'jnp.exp':'Transc.exp','softplus':'Transc.softplus','jnp.sum':'Jnp.sum0', 'math.exp':'Transc.exp','math.tanh':'Transc.tanh','_tanh_log_grad':'tanhLogGrad'}
class T(ast.NodeVisitor):
    def __init__(s, fields, idxvars): s.fields=fields; s.idx=idxvars
    def e(s,n):
        if isinstance(n,ast.BinOp):
            if isinstance(n.op,ast.Pow):
                assert isinstance(n.right,ast.Constant) and n.right.value==2; a=s.e(n.left); return f"({a} * {a})"
            op={ast.Add:'+',ast.Sub:'-',ast.Mult:'*',ast.Div:'/'}[type(n.op)]
            return f"({s.e(n.left)} {op} {s.e(n.right)})"
        if isinstance(n,ast.UnaryOp) and isinstance(n.op,ast.USub): return f"(-{s.e(n.operand)})"
        if isinstance(n,ast.Compare):
            op={ast.GtE:'≥',ast.LtE:'≤',ast.Lt:'<',ast.Gt:'>'}[type(n.ops[0])]
            return f"(decide ({s.e(n.left)} {op} {s.e(n.comparators[0])}))"
        if isinstance(n,ast.Constant):
            v=n.value
            return f"({v} : α)" if isinstance(v,float) else str(v)
        if isinstance(n,ast.Name): return n.id
        if isinstance(n,ast.Attribute):
            if isinstance(n.value,ast.Name) and n.value.id=='self': return f"self.{n.attr}"
            return ast.unparse(n)
        if isinstance(n,ast.Subscript):
            base=s.e(n.value)
            if isinstance(n.slice,ast.Constant): return f"{base}.{n.slice.value+1}"   # tuple index
            return f"(Jnp.getItem {base} {s.e(n.slice)})"
        if isinstance(n,ast.Call):
            fn=ast.unparse(n.func)
            if isinstance(n.func,ast.Attribute) and n.func.attr=='sum' and not n.args: return f"(Jnp.sum0 {s.e(n.func.value)})"
            if fn.startswith('self.'): return "("+fn+" "+" ".join(s.e(a) for a in n.args)+")"
            return "("+CALLS[fn]+" "+" ".join(s.e(a) for a in n.args)+")"
        if isinstance(n,ast.Tuple): return "("+", ".join(s.e(x) for x in n.elts)+")"
        raise NotImplementedError(ast.dump(n))
    def body(s, stmts):
        out=[]
        for st in stmts:
            if isinstance(st,ast.Expr) and isinstance(st.value,ast.Constant): continue
            if isinstance(st,ast.Assign):
                t=st.targets[0]
                if isinstance(t,ast.Tuple):
                    for nm,v in zip(t.elts, st.value.elts): out.append(f"let {nm.id} := {s.e(v)}")
                else:
                    ty=" : Int" if t.id in s.idx else ""
                    out.append(f"let {t.id}{ty} := {s.e(st.value)}")
            elif isinstance(st,ast.Return): out.append(s.e(st.value))
            else: raise NotImplementedError(ast.dump(st))
        return "\n  ".join(out)
def cls_methods(path, cname):
    tree=ast.parse(open(path).read())
    for n in tree.body:
        if isinstance(n,ast.ClassDef) and n.name==cname: return {m.name:m for m in n.body if isinstance(m,ast.FunctionDef)}
def funcs(path): return {n.name:n for n in ast.parse(open(path).read()).body if isinstance(n,ast.FunctionDef)}
out=["import Prelude","namespace Gen","variable {α : Type} [Add α] [Sub α] [Mul α] [Div α] [Neg α] [LT α] [LE α] [OfNat α 0] [OfNat α 1] [OfNat α 2] [OfNat α 4] [OfScientific α]","  [DecidableLT α] [DecidableLE α] [Transc α]",""]
out.append("structure RationalQuadraticSpline (α : Type) where\n  interval : α × α\n  x_pos : List α\n  y_pos : List α\n  derivatives : List α\n")
t=T({}, {'k'})
ms=cls_methods(SRC['rqs'],'RationalQuadraticSpline')
for m in ['transform','derivative','inverse']:
    arg=ms[m].args.args[1].arg
    out.append(f"def RationalQuadraticSpline.{m} (self : RationalQuadraticSpline α) ({arg} : α) : α :=\n  {t.body(ms[m].body)}\n")
f=funcs(SRC['tanh'])['_tanh_log_grad']
out.append(f"def tanhLogGrad (x : α) : α :=\n  {t.body(f.body)}\n")
out.append("structure LeakyTanh (α : Type) where\n  max_val : α\n  intercept : α\n  linear_grad : α\n")
ms=cls_methods(SRC['tanh'],'LeakyTanh')
for m in ['transform','inverse']:
    arg=ms[m].args.args[1].arg
    out.append(f"def LeakyTanh.{m} (self : LeakyTanh α) ({arg} : α) : α :=\n  {t.body(ms[m].body)}\n")
out.append("end Gen")
open('Gen.lean','w').write("\n".join(out))
print("\n".join(out))
