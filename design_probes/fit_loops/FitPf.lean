import FitModel
open Fit

theorem foldl_min_le_init (xs : List Int) (a : Int) : xs.foldl min a ≤ a := by
  induction xs generalizing a with
  | nil => simp
  | cons x xs ih => simp only [List.foldl]; exact Int.le_trans (ih _) (Int.min_le_left _ _)
theorem foldl_min_le_mem (xs : List Int) (a : Int) : ∀ y ∈ xs, xs.foldl min a ≤ y := by
  induction xs generalizing a with
  | nil => simp
  | cons x xs ih =>
    intro y hy; simp only [List.foldl]
    rcases List.mem_cons.mp hy with h | h
    · subst h; exact Int.le_trans (foldl_min_le_init _ _) (Int.min_le_right _ _)
    · exact ih _ y h
theorem foldl_min_mem (xs : List Int) (a : Int) : xs.foldl min a = a ∨ xs.foldl min a ∈ xs := by
  induction xs generalizing a with
  | nil => simp
  | cons x xs ih =>
    simp only [List.foldl]
    rcases ih (min a x) with h | h
    · rw [h]; rcases Int.le_total a x with hle | hle
      · left; exact Int.min_eq_left hle
      · right; rw [Int.min_eq_right hle]; exact List.mem_cons_self
    · right; exact List.mem_cons_of_mem _ h

/-- `l == min(losses ++ [l])` holds exactly when `l` is ≤ every earlier loss -/
theorem last_is_min_iff (ls : List Int) (l : Int) : (l == listMin (ls ++ [l])) = true ↔ ∀ y ∈ ls, l ≤ y := by
  rw [beq_iff_eq]
  cases ls with
  | nil => simp [listMin]
  | cons x xs =>
    simp only [List.cons_append, listMin]
    constructor
    · intro h y hy
      rw [h]
      rcases List.mem_cons.mp hy with e | e
      · subst e; exact foldl_min_le_init _ _
      · exact foldl_min_le_mem _ _ y (List.mem_append_left _ e)
    · intro h
      apply Int.le_antisymm
      · rcases foldl_min_mem (xs ++ [l]) x with e | e
        · rw [e]; exact h x List.mem_cons_self
        · rcases List.mem_append.mp e with e' | e'
          · exact h _ (List.mem_cons_of_mem _ e')
          · rw [List.mem_singleton.mp e']; exact Int.le_refl _
      · exact foldl_min_le_mem _ _ l (by simp)

/-- invariant of the repaired variational loop -/
def VInv (loss : Nat → Int) (s : St) : Prop :=
  s.losses = (List.range s.epochs).map loss ∧
  (s.epochs = 0 → s.best = 0) ∧ (0 < s.epochs → s.best < s.epochs ∧ ∀ j, j < s.epochs → loss s.best ≤ loss j)

theorem viFixed_inv (loss : Nat → Int) : ∀ (fuel : Nat) (s : St), VInv loss s →
    VInv loss (viLoopFixed loss fuel s) ∧ (viLoopFixed loss fuel s).epochs = s.epochs + fuel := by
  intro fuel
  induction fuel with
  | zero => intro s h; exact ⟨h, rfl⟩
  | succ n ih =>
    intro s ⟨hl, h0, hpos⟩
    simp only [viLoopFixed]
    have hstep : VInv loss ⟨s.epochs + 1, s.losses ++ [loss s.epochs],
        if (loss s.epochs == listMin (s.losses ++ [loss s.epochs])) then s.epochs else s.best⟩ := by
      refine ⟨by simp [hl, List.range_succ], by simp, fun _ => ?_⟩
      have hmem : (∀ y ∈ s.losses, loss s.epochs ≤ y) ↔ ∀ j, j < s.epochs → loss s.epochs ≤ loss j := by
        rw [hl]; simp
      by_cases hmin : (loss s.epochs == listMin (s.losses ++ [loss s.epochs])) = true
      · simp only [hmin, if_true]
        refine ⟨Nat.lt_succ_self _, fun j hj => ?_⟩
        rcases Nat.lt_succ_iff_lt_or_eq.mp hj with h | h
        · exact (hmem.mp ((last_is_min_iff _ _).mp hmin)) j h
        · rw [h]; exact Int.le_refl _
      · have hmin' : (loss s.epochs == listMin (s.losses ++ [loss s.epochs])) = false := by simpa using hmin
        simp only [hmin', Bool.false_eq_true, if_false]
        rcases Nat.eq_zero_or_pos s.epochs with hz | hp
        · exfalso; apply hmin; rw [last_is_min_iff, hl, hz]; simp
        · obtain ⟨hb, hle⟩ := hpos hp
          refine ⟨Nat.lt_succ_of_lt hb, fun j hj => ?_⟩
          rcases Nat.lt_succ_iff_lt_or_eq.mp hj with h | h
          · exact hle j h
          · rw [h]
            -- new loss is not ≤ all earlier ones, so some earlier loss is smaller, hence the old best is
            have : ¬ ∀ j, j < s.epochs → loss s.epochs ≤ loss j := fun hh => hmin ((last_is_min_iff _ _).mpr (hmem.mpr hh))
            have ⟨j, hj1, hj2⟩ : ∃ j, j < s.epochs ∧ loss j < loss s.epochs := by
              apply Classical.byContradiction; intro hne; apply this; intro j hj
              exact Int.not_lt.mp (fun hlt => hne ⟨j, hj, hlt⟩)
            exact Int.le_of_lt (Int.lt_of_le_of_lt (hle j hj1) hj2)
    obtain ⟨hi, he⟩ := ih _ hstep
    exact ⟨hi, by rw [he]; simp; omega⟩

/-- C16 `vi_returns_best` (repaired loop): for EVERY loss script and EVERY number of steps n ≥ 1 the returned
 parameters are ones at which the minimum recorded loss was evaluated; exactly n losses are recorded. -/
theorem vi_returns_best (loss : Nat → Int) (n : Nat) (hn : 0 < n) :
    let s := viLoopFixed loss n ⟨0, [], 0⟩
    s.losses = (List.range n).map loss ∧ s.best < n ∧ ∀ j, j < n → loss s.best ≤ loss j := by
  have hinit : VInv loss ⟨0, [], 0⟩ := ⟨by simp, fun _ => rfl, fun h => absurd h (Nat.lt_irrefl 0)⟩
  obtain ⟨⟨hl, _, hp⟩, he⟩ := viFixed_inv loss n ⟨0, [], 0⟩ hinit
  simp only [Nat.zero_add] at he
  intro s
  rw [he] at hl hp
  exact ⟨hl, hp hn⟩

/-- the pinned loop violates the property: a concrete history -/
theorem vi_pinned_violates :
    let loss : Nat → Int := fun i => 4 ^ i
    let s := viLoopPinned loss 4 ⟨0, [], 0⟩
    ¬ (∀ j, j < 4 → loss s.best ≤ loss j) := by decide
#print axioms vi_returns_best
#print axioms vi_pinned_violates
