/-! Control skeleton of fit_to_data / fit_to_variational_target as folds over a scripted loss. -/
namespace Fit
/-- first index of the minimum (jnp.argmin), on a non-empty list given as head :: tail -/
def argminAux : List Int → (best : Int) → (bestIdx cur : Nat) → Nat
  | [], _, bi, _ => bi
  | x :: xs, b, bi, cur => if x < b then argminAux xs x cur (cur+1) else argminAux xs b bi (cur+1)
def argmin : List Int → Nat
  | [] => 0
  | x :: xs => argminAux xs x 0 1
def listMin : List Int → Int
  | [] => 0
  | x :: xs => xs.foldl min x
def countFruitless (losses : List Int) : Nat := losses.length - argmin losses - 1

structure St where
  epochs : Nat          -- epochs run = number of parameter updates-epochs; current params index
  losses : List Int     -- validation losses so far
  best : Nat            -- index of best_params
  deriving Repr

/-- `for _ in range(max_epochs)` with `break`; `val e` = validation loss measured after epoch e (params index e+1) -/
def fitLoop (val : Nat → Int) (patience : Nat) : Nat → St → St
  | 0, s => s
  | fuel+1, s =>
    let params := s.epochs + 1
    let losses := s.losses ++ [val s.epochs]
    if val s.epochs == listMin losses then fitLoop val patience fuel ⟨params, losses, params⟩
    else if countFruitless losses > patience then ⟨params, losses, s.best⟩
    else fitLoop val patience fuel ⟨params, losses, s.best⟩
def fitToData (val : Nat → Int) (maxEpochs patience : Nat) (returnBest : Bool) : Nat × List Int :=
  let s := fitLoop val patience maxEpochs ⟨0, [], 0⟩
  (if returnBest then s.best else s.epochs, s.losses)

/-- variational loop on the pinned tree: loss i is evaluated at params i, then params := i+1; best := params (post-update) -/
def viLoopPinned (loss : Nat → Int) : Nat → St → St
  | 0, s => s
  | fuel+1, s =>
    let l := loss s.epochs
    let params := s.epochs + 1
    let losses := s.losses ++ [l]
    viLoopPinned loss fuel ⟨params, losses, if l == listMin losses then params else s.best⟩
/-- with the repair: best := pre-update params -/
def viLoopFixed (loss : Nat → Int) : Nat → St → St
  | 0, s => s
  | fuel+1, s =>
    let l := loss s.epochs
    let losses := s.losses ++ [l]
    viLoopFixed loss fuel ⟨s.epochs + 1, losses, if l == listMin losses then s.epochs else s.best⟩
end Fit
open Fit
#eval (viLoopPinned (fun i => 4 ^ i) 4 ⟨0, [], 0⟩).best   -- 1  (the defect: loss 4)
#eval (viLoopFixed (fun i => 4 ^ i) 4 ⟨0, [], 0⟩).best    -- 0
#eval fitToData (fun e => [5, 3, 4, 6, 7, 1].getD e 0) 6 1 true   -- stops after epoch index 3: (2, [5,3,4,6])
