import Mathlib.MeasureTheory.Function.Jacobian
open MeasureTheory Set

variable {E : Type*} [NormedAddCommGroup E] [NormedSpace ℝ E] [FiniteDimensional ℝ E]
  [MeasurableSpace E] [BorelSpace E] (μ : Measure E) [μ.IsAddHaarMeasure]

/-- total mass is preserved by the change-of-variables density -/
theorem mass_preserved (T Tinv : E → E) (T' : E → E →L[ℝ] E)
    (hT : ∀ x, HasFDerivAt T (T' x) x) (hdet : ∀ x, (T' x).det ≠ 0)
    (hl : Function.LeftInverse Tinv T) (hr : Function.RightInverse Tinv T) (p : E → ℝ) :
    ∫ y, p (Tinv y) * |(T' (Tinv y)).det|⁻¹ ∂μ = ∫ z, p z ∂μ := by
  have hinj : InjOn T univ := fun a _ b _ h => hl.injective h
  have himg : T '' univ = univ := by
    rw [image_univ]; exact hr.surjective.range_eq
  have h := integral_image_eq_integral_abs_det_fderiv_smul μ MeasurableSet.univ
    (fun x _ => (hT x).hasFDerivWithinAt) hinj (fun y => p (Tinv y) * |(T' (Tinv y)).det|⁻¹)
  rw [himg, setIntegral_univ, setIntegral_univ] at h
  rw [h]
  congr 1; funext x
  have : |(T' x).det| ≠ 0 := abs_ne_zero.mpr (hdet x)
  simp only [hl x, smul_eq_mul]; field_simp
#print axioms mass_preserved
