import Flowjaxv.Props.C01
open Gen Set
namespace C01
section Audit
open Masks MasksPf Nw GenNet

/-- `planar_get_planar_lawful`'s hypothesis set is satisfiable from a RAW parameter vector (n = 2, `w = (1, -2)`, `u = (4, 3)`,
`b = 7`, slope `1/2`); here `w·u = -2 < 0`, so `get_act_scale` really has to correct `u`. -/
theorem planar_get_planar_audit_instance :
    (Planar.lreluBij (Planar.getPlanar 2 [1, -2, 4, 3, (7 : ℝ)]) (1 / 2) : Bij (List ℝ) Unit ℝ).Lawful
      {x | x.length = 2} {y | y.length = 2} :=
  planar_get_planar_lawful (n := 2) [1, -2, 4, 3, 7] rfl (by simp [ParamsPf.jdot_eq]; norm_num) (by norm_num) (by norm_num)

/-- `TriPf.LowerTri` is inhabited by a non-diagonal matrix with a negative diagonal entry, and `triangular_solve_lower` applies. -/
theorem lowerTri_audit_instance :
    TriPf.LowerTri 2 [[2, 0], [1, -3]] ∧
    Tri.matVec [[2, 0], [1, -3]] (Tri.solveLower [[2, 0], [1, -3]] [4, (5 : ℝ)]) = [4, 5] := by
  have h : TriPf.LowerTri 2 [[2, 0], [1, -3]] := by
    refine ⟨⟨rfl, by intro r hr; simp at hr; rcases hr with rfl | rfl <;> rfl⟩, ?_, ?_⟩
    · intro i j hij hj
      have : i = 0 ∧ j = 1 := by omega
      obtain ⟨rfl, rfl⟩ := this
      simp [TriPf.entry]
    · intro i hi
      have : i = 0 ∨ i = 1 := by omega
      rcases this with rfl | rfl <;> simp [TriPf.entry]
  exact ⟨h, (triangular_solve_lower h [4, 5] rfl).1⟩

/-- `TriPf.UpperTri` likewise. -/
theorem upperTri_audit_instance :
    TriPf.UpperTri 2 [[2, 1], [0, -3]] ∧
    Tri.solveUpper [[2, 1], [0, -3]] (Tri.matVec [[2, 1], [0, -3]] [4, (5 : ℝ)]) = [4, 5] := by
  have h : TriPf.UpperTri 2 [[2, 1], [0, -3]] := by
    refine ⟨⟨rfl, by intro r hr; simp at hr; rcases hr with rfl | rfl <;> rfl⟩, ?_, ?_⟩
    · intro i j hji hi
      have : i = 1 ∧ j = 0 := by omega
      obtain ⟨rfl, rfl⟩ := this
      simp [TriPf.entry]
    · intro i hi
      have : i = 0 ∨ i = 1 := by omega
      rcases this with rfl | rfl <;> simp [TriPf.entry]
  exact ⟨h, (triangular_solve_upper h [4, 5] rfl).2⟩

/-- `triangular_of_raw_lawful` / `gen_triangular_of_raw_lawful`: `Square`, `raw.length`, `loc.length` jointly satisfiable with a
full (non-triangular) raw array and negative raw diagonal parameters. -/
theorem triangular_of_raw_audit_instance :
    ((Tri.ofRaw true [-1, 2] [[5, 6], [7, 8]] [1, -1]).toBij : Bij (List ℝ) Unit ℝ).Lawful {x | x.length = 2} {y | y.length = 2} ∧
    (TriGen.toBij (TriGen.unwrap (TriGen.ofRaw false [-1, 2] [[5, 6], [7, 8]] [1, -1])) : Bij (List ℝ) Unit ℝ).Lawful
      {x | x.length = 2} {y | y.length = 2} := by
  have hsq : TriPf.Square 2 [[5, 6], [7, (8 : ℝ)]] := by constructor <;> simp
  exact ⟨triangular_of_raw_lawful true _ _ _ hsq rfl rfl, gen_triangular_of_raw_lawful false _ _ _ hsq rfl rfl⟩

/-- `gen_triangular_init_lawful`: the hypothesis `init … = .ok s` is inhabited (2 × 2, broadcast `loc` of size 1). -/
theorem gen_triangular_init_audit_instance :
    ∃ s, TriangularAffine.init [3] (.mat [[1, 2], [3, (-4 : ℝ)]]) true = .ok s ∧
      (TriGen.toBij (TriGen.unwrap s) : Bij (List ℝ) Unit ℝ).Lawful {x | x.length = 2} {y | y.length = 2} := by
  obtain ⟨s, hs⟩ : ∃ s, TriangularAffine.init [3] (.mat [[1, 2], [3, (-4 : ℝ)]]) true = .ok s :=
    (TriGenPf.gen_init_accepts_iff _ _ _).mpr (by simp [TriPrims.NdArr.ndim, TriPrims.NdArr.shapeGet, TriPrims.NdArr.shape])
  have hsq : TriPf.Square 2 [[1, 2], [3, (-4 : ℝ)]] := by constructor <;> simp
  exact ⟨s, hs, gen_triangular_init_lawful _ _ _ hsq hs⟩

/-- `gen_coupling_lawful` at `ℝ` (the pre-existing `gen_net_instance` evaluates at `ℤ` only): a conditional coupling object on
`ℝ³` with a non-linear conditioner and the affine family of scale 2. -/
theorem gen_coupling_audit_instance :
    (Coupling.toBij (CouplingObj.mk' 1 3 (some 1) (fun l => l.map fun a => a * a + 1) NetLawful.exampleFamily)).Lawful
      {x | x.length = 3 ∧ ∀ t ∈ x.drop 1, t ∈ univ} {y | y.length = 3 ∧ ∀ t ∈ y.drop 1, t ∈ univ} :=
  gen_coupling_lawful (CouplingObj.mk' 1 3 (some 1) _ NetLawful.exampleFamily) univ univ NetLawful.exampleFamily_lawful

/-- `gen_maf_lawful` on a concrete well-shaped net. -/
theorem gen_maf_audit_instance :
    (Maf.toBij (MafObj.ofNet mafExample NetLawful.exampleFamily)).Lawful
      {x | x.length = 2 ∧ ∀ t ∈ x, t ∈ univ} {y | y.length = 2 ∧ ∀ t ∈ y, t ∈ univ} :=
  gen_maf_lawful mafExample FlowsPf.mafExample_wellShaped NetLawful.exampleFamily univ univ NetLawful.exampleFamily_lawful

end Audit
end C01
#print axioms C01.planar_get_planar_audit_instance
#print axioms C01.gen_triangular_init_audit_instance
#print axioms C01.gen_maf_audit_instance
