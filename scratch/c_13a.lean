import Flowjaxv.Props.C13
open PyShape ArgCheck Gen.Structure
namespace C13

/-- the spec predicates on the right-hand sides of the `…_rejects_iff` theorems are inhabited AND refutable by concrete
non-trivial objects, independently of the constructor models -/
theorem compat_audit_instances :
    ConcatCompatible [[2, 3], [2, 4]] (-1) ∧ ¬ ConcatCompatible [[2, 3], [1, 3]] 1 ∧ ¬ ConcatCompatible [[2, 3], [2]] 1
    ∧ ¬ ConcatCompatible [[], []] 0
    ∧ StackCompatible [[2, 3], [2, 3]] (-3) ∧ StackCompatible [[], []] (-1) ∧ ¬ StackCompatible [[3], [1]] 0
    ∧ ¬ StackCompatible [[2, 3], [2, 3]] 3
    ∧ CondCompatible [some [2], none, some [2]] ∧ ¬ CondCompatible [some [], some [1]] ∧ ¬ CondCompatible [] := by
  refine ⟨⟨[2, 3], [[2, 4]], rfl, by decide, by decide, ?_⟩, ?_, ?_, ?_, ⟨[2, 3], [[2, 3]], rfl, by decide, by decide, ?_⟩,
    ⟨[], [[]], rfl, by decide, by decide, ?_⟩, ?_, ?_, ⟨by decide, by decide⟩, ?_, fun h => h.1 rfl⟩
  · intro s hs
    simp only [List.mem_cons, List.not_mem_nil, or_false] at hs
    rcases hs with rfl | rfl
    · exact ⟨rfl, fun _ _ _ => rfl⟩
    · refine ⟨rfl, fun i hi hne => ?_⟩
      have h1 : normIdx [2, 3].length (-1) = 1 := by decide
      rw [h1] at hne
      have : i = 0 := by simp at hi; omega
      subst this; rfl
  · rintro ⟨s0, rest, hs, -, -, h⟩
    simp only [List.cons.injEq] at hs
    obtain ⟨rfl, rfl⟩ := hs
    have := (h [1, 3] (by simp)).2 0 (by decide) (by decide)
    simp at this
  · rintro ⟨s0, rest, hs, -, -, h⟩
    simp only [List.cons.injEq] at hs
    obtain ⟨rfl, rfl⟩ := hs
    have := (h [2] (by simp)).1
    simp at this
  · rintro ⟨s0, rest, hs, h1, h2, -⟩
    simp only [List.cons.injEq] at hs
    obtain ⟨rfl, rfl⟩ := hs
    simp at h2
  · intro s hs; simp at hs; rcases hs with rfl | rfl <;> rfl
  · intro s hs; simp at hs; rcases hs with rfl | rfl <;> rfl
  · rintro ⟨s0, rest, hs, -, -, h⟩
    simp only [List.cons.injEq] at hs
    obtain ⟨rfl, rfl⟩ := hs
    have := h [1] (by simp)
    simp at this
  · rintro ⟨s0, rest, hs, -, h2, -⟩
    simp only [List.cons.injEq] at hs
    obtain ⟨rfl, rfl⟩ := hs
    simp at h2
  · rintro ⟨-, h⟩
    have := h (some []) (by simp) (some [1]) (by simp)
    simp at this

end C13
