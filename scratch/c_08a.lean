import Flowjaxv.Props.C08
open Gen Set Arr ArrComb ArrJnp
namespace C08

/-- lawful elementwise affine child of a given shape -/
theorem audit_aff_lawful (l s : ℝ) (hs : s ≠ 0) (shape : List Nat) (n : Nat) (hn : n = Arr.prod shape) :
    (elementwise (List.replicate n ((Affine.mk l s : Affine ℝ).toBij : Bij ℝ Unit ℝ))).Lawful (WS shape) (WS shape) :=
  ArrComb.elementwise_lawful (shape := shape)
    (fun b hb => by rw [List.eq_of_mem_replicate hb]; exact Leaves.affine_lawful _ hs) (by simp [hn])

-- D2 case: Stack([b(2,3), b(2,3)], axis=-1)
theorem gen_stack_ctor_audit_instance :
    let kids : List (SBij (Arr ℝ) Unit ℝ) :=
      [SBij.ofBij (elementwise (List.replicate 6 ((Affine.mk 1 2 : Affine ℝ).toBij : Bij ℝ Unit ℝ))) [2, 3] none,
       SBij.ofBij (elementwise (List.replicate 6 ((Affine.mk (-1) (-3) : Affine ℝ).toBij : Bij ℝ Unit ℝ))) [2, 3] none]
    (Stack.init kids (-1)).shape = [2, 3, 2] ∧ (Stack.init kids (-1)).toBij.Lawful (WS [2, 3, 2]) (WS [2, 3, 2]) := by
  intro kids
  have h := gen_stack_ctor_lawful kids (-1) [2, 3, 2] none (by decide) (by
    intro b hb
    simp only [kids, List.mem_cons, List.not_mem_nil, or_false] at hb
    rcases hb with rfl | rfl
    · exact audit_aff_lawful 1 2 (by norm_num) [2, 3] 6 (by decide)
    · exact audit_aff_lawful (-1) (-3) (by norm_num) [2, 3] 6 (by decide))
  exact ⟨h.1, h.2.2.2.2⟩

#eval (ArgCheck.stackCtor [[2,3],[2,3]] [none,none] (-1))
#eval (ArgCheck.stackCtor [[2,3],[2,3]] [none,none] (-4))
#eval (ArgCheck.stackCtor [[2,3],[2,3]] [none,none] (3))
#eval (ArgCheck.stackCtor [[],[]] [none,none] (-1))
#eval (ArgCheck.concatenateCtor [[],[]] [none,none] (0))
#eval (ArgCheck.reshapeCtor [2,3] none (some [3,2]) none)
#eval (ArgCheck.reshapeCtor [2,3] (some [2]) (some [6]) (some [1,2]))
end C08
