import Flowjaxv.Props.C08
open Gen Set Arr ArrComb ArrJnp
namespace C08
/-- totalisation made visible -/
theorem totalisation_audit_instance :
    let sh (k : Nat) : Bij Nat Unit Nat := ⟨fun x _ => x + k, fun y _ => y - k, fun x _ => (x + k, 0), fun y _ => (y - k, 0)⟩
    -- duplicate positions: accepted by the model (and by the real constructor); last write wins
    ((partialB [4] [2] [1, 1] (elementwise [sh 10, sh 20])).fwd ⟨[4], [1, 2, 3, 4]⟩ ()).data = [1, 22, 3, 4]
    -- out-of-range position: the model reads `default` and drops the write
    ∧ ((partialB [4] [2] [1, 7] (elementwise [sh 10, sh 20])).fwd ⟨[4], [1, 2, 3, 4]⟩ ()).data = [1, 12, 3, 4]
    -- a wrong-shaped input still comes back with the declared shape
    ∧ ((concatenate ⟨[2, 3], 1, [1, 2]⟩ [elementwise (List.replicate 2 (sh 10)), elementwise (List.replicate 4 (sh 20))]).fwd
        ⟨[5], [1, 2, 3, 4, 5]⟩ ()).shape = [2, 3]
    ∧ ((concatenate ⟨[2, 3], 1, [1, 2]⟩ [elementwise (List.replicate 2 (sh 10)), elementwise (List.replicate 4 (sh 20))]).fwd
        ⟨[5], [1, 2, 3, 4, 5]⟩ ()).data = [11, 22, 23, 14, 25]
    -- `c[3:]` of a 3-chain is the empty chain in the model (the real `Chain(())` raises IndexError)
    ∧ ((Chain.mk [sh 1, sh 2, sh 3]).getSlice 3 3).len = 0 := by decide
end C08
