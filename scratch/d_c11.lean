import Flowjaxv.Props.C11
open Gen Set Params
namespace C11
section Audit

/-- AUDIT: `rqs_params_wf_core` instantiated at a NON-trivial point (K = 2 knots, raw values of both signs, the library's
`softmax_adjust = 1e-2`, `min_derivative = 1e-3`, interval (−3, 3)) — the pre-existing `knots_instance` is K = 1, raw 0, adjust 0. -/
theorem rqs_params_wf_audit_instance :
    let xs := realToIncreasingOnInterval [(1 : ℝ), -2] (-3, 3) (1 / 100)
    let ys := realToIncreasingOnInterval [(0 : ℝ), 5] (-3, 3) (1 / 100)
    let ds := rqsDerivatives (1 / 1000) [(0 : ℝ), 1, -1, 40]
    xs.length = 4 ∧ ys.length = 4 ∧ ds.length = 4 ∧ xs.Pairwise (· < ·) ∧ ys.Pairwise (· < ·) ∧
      xs.head? = some (-3) ∧ xs.getLast? = some 3 ∧ ∀ d ∈ ds, 0 < d := by
  have h := rqs_params_wf_core (rawX := [(1 : ℝ), -2]) (rawY := [(0 : ℝ), 5]) (rawD := [(0 : ℝ), 1, -1, 40])
    (lo := -3) (hi := 3) (adj := 1 / 100) (δ := 1 / 1000) (by simp) rfl rfl (by norm_num) (by norm_num) (by norm_num)
  simp only at h ⊢
  obtain ⟨h1, h2, h3, h4, h5, h6, h7, _, _, h10⟩ := h
  exact ⟨h1, h2.trans h1, h3.trans h1, h4, h5, h6, h7, h10⟩

/-- AUDIT: `tri_diag_pos` at an UPPER-triangular 2 × 2 with negative raw diagonal parameters. -/
theorem tri_diag_pos_audit_instance :
    ∃ d : List ℝ, diagEntries (triangularOfRaw false [(-5 : ℝ), -40] [[1, 2], [3, 4]]) = d.map some ∧ d.length = 2 ∧
      ∀ x ∈ d, 0 < x :=
  tri_diag_pos false [-5, -40] [[1, 2], [3, 4]] (by intro r hr; simp at hr; rcases hr with rfl | rfl <;> rfl) rfl

/-- AUDIT (excluded input of `weightnorm_row_norm` / `gen_weightnorm_row_norm`): a ZERO row.  The ℝ model totalises `0/0 = 0`: the
unwrapped row is the zero row, of norm `0 ≠ softplus raw`, so "weight-normalised rows keep their norm parameter" is FALSE there and the
hypothesis `w·w ≠ 0` is necessary (the real code returns NaN).  A zero row is a finite value of the trainable array. -/
theorem weightnorm_zero_row_audit (raw : ℝ) :
    (⟨[0, 0], (softplusRaw raw).unwrap⟩ : WeightNormRow ℝ).unwrap = [0, 0] ∧
    Real.sqrt (Jnp.dot ([0, 0] : List ℝ) [0, 0]) ≠ (softplusRaw raw).unwrap := by
  refine ⟨by simp [WeightNormRow.unwrap], ?_⟩
  have := ParamsPf.softplusRaw_pos raw
  simp [ParamsPf.jdot_eq]
  exact this.ne

/-- AUDIT (excluded input of `planar_constraint`): `w = 0`.  The ℝ model's `get_act_scale` divides by `‖w‖² = 0` (`x/0 = 0`) and
returns `u` unchanged; `wᵀû = 0`, which is NOT the value `−1 + log(1 + softplus(wᵀu))` of the theorem — the hypothesis `w·w ≠ 0` is
necessary for the equation (the real code returns NaN at `w = 0`, a finite value of the trainable array). -/
theorem planar_zero_weight_audit (u0 u1 b : ℝ) :
    (UnconditionalPlanar.get_act_scale ⟨[0, 0], [u0, u1], b⟩ : List ℝ) = [u0, u1] := by
  simp [UnconditionalPlanar.get_act_scale, ParamsPf.jdot_eq]

/-- AUDIT: `gen_weightnorm_row_norm` applied (hypotheses `hlen`, `hw` jointly satisfiable; 2 × 2, a negative scale entry). -/
theorem gen_weightnorm_row_norm_audit_instance :
    ∀ hi : 1 < (⟨[[3, 4], [0, -2]], [2, -3]⟩ : Wr.WeightNormalization ℝ).unwrap.length,
      Real.sqrt (Jnp.dot ((⟨[[3, 4], [0, -2]], [2, -3]⟩ : Wr.WeightNormalization ℝ).unwrap[1])
        ((⟨[[3, 4], [0, -2]], [2, -3]⟩ : Wr.WeightNormalization ℝ).unwrap[1])) = |(-3 : ℝ)| := by
  intro hi
  have h := gen_weightnorm_row_norm (⟨[[3, 4], [0, -2]], [2, -3]⟩ : Wr.WeightNormalization ℝ) rfl
    (by intro row hrow; simp at hrow; rcases hrow with rfl | rfl <;> simp [ParamsPf.jdot_eq] <;> norm_num)
  exact (h.2 1 hi (by simp) (by simp)).2

/-- AUDIT: `mixture_weights_normalised` applied to raw log-weights of both signs. -/
theorem mixture_weights_audit_instance :
    ((mixtureLogNormalizedWeights [(3 : ℝ), -7, 0]).map Real.exp).sum = 1 :=
  (mixture_weights_normalised (by simp)).1

end Audit
end C11
