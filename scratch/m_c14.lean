import Flowjaxv.Props.C14
open Trace
namespace C14
section Audit
/-- the hypothesis set of `every_method_noninterferent` is satisfiable on a GENERATED method with a non-degenerate
semantics, and the conclusion is not the `none, none => True` arm: for `Chain.transform` of the regenerated table under the
toy semantics (A1/A2 hold for it at every staging environment), both runs FINISH with fuel 20. -/
theorem every_method_audit_instance :
    ∃ m ∈ GenTrace.methods, m.cls = "Chain" ∧ m.name = "transform" ∧
      EvOK Toy.sem (stageEnv m.tracedParams m.body) ∧
      (exec Toy.sem 20 Toy.σa m.body).isSome = true ∧ (exec Toy.sem 20 Toy.σb m.body).isSome = true ∧
      (exec Toy.sem 20 Toy.σa m.body).map (·.path) = (exec Toy.sem 20 Toy.σb m.body).map (·.path) := by
  have hf : (GenTrace.methods.find? (fun m => m.cls == "Chain" && m.name == "transform")).isSome = true := by decide +kernel
  obtain ⟨m, hm⟩ := Option.isSome_iff_exists.mp hf
  have hmem := List.mem_of_find?_eq_some hm
  have hp := List.find?_some hm
  simp only [Bool.and_eq_true, beq_iff_eq] at hp
  refine ⟨m, hmem, hp.1, hp.2, Toy.toy_evOK _, ?_⟩
  have key : ∀ m' ∈ GenTrace.methods.find? (fun m => m.cls == "Chain" && m.name == "transform"),
      (exec Toy.sem 20 Toy.σa m'.body).isSome = true ∧ (exec Toy.sem 20 Toy.σb m'.body).isSome = true ∧
      (exec Toy.sem 20 Toy.σa m'.body).map (·.path) = (exec Toy.sem 20 Toy.σb m'.body).map (·.path) := by
    decide +kernel
  exact key m hm
end Audit
end C14
