import Flowjaxv.Props.C17
namespace C17
section Audit
open Losses GenLosses LossesGen

/-- the world of `gen_instance` (non-constant `split`, `choice` = prefix of the candidates) -/
noncomputable def auditW : Lw.World ℕ Unit ℕ Unit Unit Unit ℝ :=
  ⟨fun _ _ => (), id, fun _ => ⟨fun x _ => -(x : ℝ), fun k _ => k + 1, fun k _ => (k + 1, -((k + 1 : ℕ) : ℝ))⟩, fun k _ i => k + i, (),
    fun _ a => a, fun _ a n => a.take n⟩


/-- hypotheses `hd` (`Consistent`) and `hW` (`ChoiceIsPerm`) of the generated-code theorems discharged for a concrete world whose
distribution has a NON-constant log-density (`log q(x) = −x`, sample = key + 1), and the theorems applied: equal ELBO values, 3 valid
index rows for `b = 3, n = 2`, a non-negative contrastive loss. -/
theorem gen_hyps_audit_instance :
    (auditW.methods (auditW.combine () ())).Consistent ∧ auditW.ChoiceIsPerm ∧
    elboCall auditW (ElboLoss.init (fun x => (x : ℝ)) 3 true) () () 5 = elboCall auditW (ElboLoss.init (fun x => (x : ℝ)) 3 false) () () 5 ∧
    (∃ rows, getContrastiveIdxs auditW 0 3 2 = some rows ∧ rows.length = 3) ∧
    ∃ v, contrastiveCall auditW (ContrastiveLoss.init (fun _ => 0) 2) () () ((List.range 3).map id) ((List.range 3).map fun _ => ()) 0
        = some v ∧ 0 ≤ v := by
  have hd : (auditW.methods (auditW.combine () ())).Consistent := fun _ _ => rfl
  have hW : auditW.ChoiceIsPerm := fun _ _ => List.Perm.refl _
  refine ⟨hd, hW, gen_elbo_stl_same_value auditW _ 3 () () 5 hd, ?_, ?_⟩
  · obtain ⟨rows, h1, h2, _⟩ := gen_contrastive_idxs_valid auditW hW 0 3 2 (by omega)
    exact ⟨rows, h1, h2⟩
  · exact (gen_contrastive_nonneg auditW hW (fun _ => 0) () () 0 2).1 3 id (fun _ => ()) (by omega)
end Audit
end C17
