import Flowjaxv.Props.C16
open Train
namespace C16
section Audit
/-- `fit_stops_exactly` and `fit_returns_best` applied to a concrete script with pairwise-distinct losses (`hd` discharged, not assumed):
the run of `fit_instance` stops after 4 < 6 epochs, so the middle conjunct's premise holds and the conclusion `Stops … 3` is obtained
FROM the theorem. -/
theorem fit_stops_audit_instance :
    Stops (fun e => [5, 3, 4, 6, 7, 1].getD e (0 : Loss)) 1 3 ∧ ¬ Stops (fun e => [5, 3, 4, 6, 7, 1].getD e (0 : Loss)) 1 2 ∧
    ∃ m, m < 4 ∧ (fitToData (fun e => e) (fun e => [5, 3, 4, 6, 7, 1].getD e 0) 6 1 true).returned = m + 1 := by
  have hd : ∀ i j, i < 6 → j < 6 → [5, 3, 4, 6, 7, 1].getD i (0 : Loss) = [5, 3, 4, 6, 7, 1].getD j 0 → i = j := by
    intro i j hi hj; exact fit_instance.1 i hi j hj
  have he : (fitToData (fun e => e) (fun e => [5, 3, 4, 6, 7, 1].getD e 0) 6 1 true).epochs = 4 := by rw [fit_instance.2.1]
  obtain ⟨h1, h2, _⟩ := fit_stops_exactly (fun e => e) (fun e => [5, 3, 4, 6, 7, 1].getD e 0) 6 1 true hd
  obtain ⟨m, hm, hr, _⟩ := fit_returns_best (fun e => e) (fun e => [5, 3, 4, 6, 7, 1].getD e 0) 6 1 (by omega) hd
  rw [he] at h1 h2 hm
  exact ⟨(h2 (by omega)).2, h1 2 (by omega), m, hm, hr⟩

/-- `vi_returns_best` with `hd` discharged on `[3,2,1,5]`: the returned index is the strict minimiser 2 -/
theorem vi_best_audit_instance :
    (fitToVariationalTarget (fun i => [3, 2, 1, 5].getD i 0) 4 true).returned = 2 ∧
    ∀ j, j < 4 → j ≠ 2 → [3, 2, 1, 5].getD 2 (0 : Loss) < [3, 2, 1, 5].getD j 0 := by
  have hd : ∀ i j, i < 4 → j < 4 → [3, 2, 1, 5].getD i (0 : Loss) = [3, 2, 1, 5].getD j 0 → i = j := by
    have h : ∀ i, i < 4 → ∀ j, j < 4 → [3, 2, 1, 5].getD i (0 : Loss) = [3, 2, 1, 5].getD j 0 → i = j := by decide
    intro i j hi hj; exact h i hi j hj
  have h := (vi_returns_best (fun i => [3, 2, 1, 5].getD i 0) 4 hd).1 (by omega)
  have e : (fitToVariationalTarget (fun i => [3, 2, 1, 5].getD i 0) 4 true).returned = 2 := by rw [vi_instance.2]
  rw [e] at h
  exact ⟨e, h.2⟩
end Audit
end C16
