import Flowjaxv.Props.C10
