import Flowjaxv.Props.C07
open Gen Set
namespace C07
section Audit
/-- joint satisfiability of the spline hypotheses: the 3-bin `Rqs.exampleSpline` is `RqsWF`; the four spline theorems
instantiated on it (interior knot 1, a point outside, a point inside). -/
theorem rqs_audit_instance :
    Rqs.exampleSpline.transform (-1) = -1/2 ∧ Rqs.exampleSpline.transform 5 = 5 ∧
    StrictMono Rqs.exampleSpline.transform ∧
    Rqs.exampleSpline.transform 0 ∈ Icc (-2 : ℝ) 2 := by
  have h := Rqs.rqsWF_instance
  refine ⟨?_, ?_, rqs_strictMono h, ?_⟩
  · have := rqs_knots h 1 (by simp [Rqs.exampleSpline])
    simpa [Rqs.exampleSpline] using this
  · exact (rqs_identity_outside h (x := 5) (Or.inr (by simp [Rqs.exampleSpline]; norm_num))).1
  · have := rqs_mem_interval h (x := 0) (by simp [Rqs.exampleSpline])
    simpa [Rqs.exampleSpline] using this

/-- the hypotheses of `Rqs.rqs_identity_at_init` (`RqsWF`, `y_pos = x_pos`, all derivatives 1) are jointly satisfiable
by a 2-bin spline, and the clause "identity at initialisation" then holds at every real `x`. -/
noncomputable def auditInitSpline : RationalQuadraticSpline ℝ where
  interval := (-3, 3)
  x_pos := [-3, 0, 3]
  y_pos := [-3, 0, 3]
  derivatives := [1, 1, 1]

theorem rqs_init_audit_instance : Rqs.RqsWF auditInitSpline ∧ ∀ x : ℝ, auditInitSpline.transform x = x := by
  have h : Rqs.RqsWF auditInitSpline := by
    refine ⟨?_, ?_, ?_, ?_, ?_, ?_, ?_, ?_, ?_, ?_⟩ <;> simp [auditInitSpline]
  exact ⟨h, Rqs.rqs_identity_at_init h rfl (by simp [auditInitSpline])⟩

/-- planar hypotheses (`weight`/`_act_scale` of length `n`, `w·w ≠ 0`) are satisfiable by a non-trivial 2-d layer -/
noncomputable def auditPlanar : UnconditionalPlanar ℝ := { weight := [1, -2], _act_scale := [1/2, 3], bias := 1/4 }

theorem planar_audit_instance (x : Fin 2 → ℝ) :
    auditPlanar.transform_tanh (List.ofFn x) = List.ofFn (fun i =>
      x i + VecLd.toVec 2 auditPlanar.get_act_scale i * Real.tanh (VecLd.toVec 2 auditPlanar.weight ⬝ᵥ x + auditPlanar.bias)) :=
  planar_doc auditPlanar rfl rfl (by simp [auditPlanar, Jnp.dot, Jnp.sum]; norm_num) x

/-- `gen_triangular_init_doc`'s hypothesis `init … = .ok s` is inhabited by a 2×2 matrix with positive diagonal, and the
stored triangle is the requested one (entry (1,0) = 3 kept, entry (0,1) = 2 dropped, diagonal reproduced). -/
theorem gen_triangular_init_audit_instance :
    ∃ s, TriangularAffine.init [0, 0] (.mat [[1, 2], [3, (4 : ℝ)]]) true = .ok s ∧
      TriPf.entry (TriGen.unwrap s).triangular 1 0 = 3 ∧ TriPf.entry (TriGen.unwrap s).triangular 0 1 = 0 ∧
      TriPf.entry (TriGen.unwrap s).triangular 1 1 = 4 := by
  obtain ⟨s, hs⟩ : ∃ s, TriangularAffine.init [0, 0] (.mat [[1, 2], [3, (4 : ℝ)]]) true = .ok s :=
    (TriGenPf.gen_init_accepts_iff _ _ _).mpr (by simp [TriPrims.NdArr.ndim, TriPrims.NdArr.shapeGet, TriPrims.NdArr.shape])
  have hsq : TriPf.Square 2 [[1, 2], [3, (4 : ℝ)]] := by constructor <;> simp
  have hpos : ∀ i, i < 2 → 0 < TriPf.entry [[1, 2], [3, (4 : ℝ)]] i i := by
    intro i hi; interval_cases i <;> simp [TriPf.entry]
  refine ⟨s, hs, ?_, ?_, ?_⟩
  · rw [gen_triangular_init_doc _ _ _ hsq hpos hs 1 0 (by omega) (by omega)]; simp [TriPf.entry]
  · rw [gen_triangular_init_doc _ _ _ hsq hpos hs 0 1 (by omega) (by omega)]; simp
  · rw [gen_triangular_init_doc _ _ _ hsq hpos hs 1 1 (by omega) (by omega)]; simp [TriPf.entry]

/-- LeakyTanh: the three branches at a concrete `max_val = 3` -/
example : (LeakyTanh.init 3 : LeakyTanh ℝ).transform 3 = Real.tanh 3 + (1 - Real.tanh 3 ^ 2) * (3 - 3) :=
  leakytanh_doc_above 3 3 (by norm_num) le_rfl
end Audit
end C07
