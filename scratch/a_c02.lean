import Flowjaxv.Props.C02
open Gen Set
namespace C02
section Audit
open Masks MasksPf

/-- `Rqs.RqsWF` hypothesis of the three spline theorems is jointly satisfiable with the interior / outside side conditions:
the 3-bin spline `Rqs.exampleSpline` on `[-2, 2]` (boundary derivatives 2 and 3) at the interior KNOT `x = -1`, and at `x = 5`. -/
theorem rqs_ld_audit_instance :
    (HasDerivAt Rqs.exampleSpline.transform (Rqs.exampleSpline.derivative (-1)) (-1) ∧
      (Rqs.exampleSpline.transform_and_log_det (-1)).2 = Real.log |Rqs.exampleSpline.derivative (-1)|) ∧
    (HasDerivAt Rqs.exampleSpline.transform 1 5 ∧ (Rqs.exampleSpline.transform_and_log_det 5).2 = 0) ∧
    (Rqs.exampleSpline.toBij : Bij ℝ Unit ℝ).LdAntisym Set.univ := by
  have h := Rqs.rqsWF_instance
  obtain ⟨h1, _, h3⟩ := rqs_ld_interior h (-1) (by simp [Rqs.exampleSpline]) (by simp [Rqs.exampleSpline]; norm_num)
  exact ⟨⟨h1, h3⟩, rqs_ld_outside h (Or.inr (by simp [Rqs.exampleSpline]; norm_num)), rqs_ld_antisym h⟩

/-- `planar_tanh_ld` and `planar_ld_antisym`: hypotheses satisfiable with `w·u < 0` (so `get_act_scale` corrects `u`). -/
theorem planar_tanh_audit_instance (v : Fin 2 → ℝ) :
    (0 < (1 + Matrix.replicateCol Unit (VecLd.toVec 2 (⟨[1, -2], [4, 3], (7 : ℝ)⟩ : UnconditionalPlanar ℝ).get_act_scale) *
        Matrix.replicateRow Unit ((1 - Real.tanh (VecLd.toVec 2 [1, -2] ⬝ᵥ v + 7) ^ 2) • VecLd.toVec 2 [1, -2])).det) ∧
    (Planar.lreluBij (⟨[1, -2], [4, 3], (7 : ℝ)⟩ : UnconditionalPlanar ℝ) (1 / 2) : Bij (List ℝ) Unit ℝ).LdAntisym {x | x.length = 2} := by
  have hne : Jnp.dot [1, -2] [1, (-2 : ℝ)] ≠ 0 := by simp [ParamsPf.jdot_eq]; norm_num
  exact ⟨(planar_tanh_ld (n := 2) ⟨[1, -2], [4, 3], (7 : ℝ)⟩ rfl rfl hne v).2.2.1,
    planar_ld_antisym (n := 2) ⟨[1, -2], [4, 3], (7 : ℝ)⟩ rfl rfl hne (by norm_num) (by norm_num)⟩

/-- `triangular_of_raw_ld`, `gen_triangular_init_ld`: satisfiable (`Square 2`, negative raw diagonal parameter, broadcast `loc`). -/
theorem triangular_raw_ld_audit_instance :
    ((Tri.ofRaw true [-1, 2] [[5, 6], [7, 8]] [1, -1]).toBij : Bij (List ℝ) Unit ℝ).LdCorrectVec 2 Set.univ ∧
    ∃ s, TriangularAffine.init [3] (.mat [[1, 2], [3, (-4 : ℝ)]]) false = .ok s ∧
      (TriGen.toBij (TriGen.unwrap s) : Bij (List ℝ) Unit ℝ).LdCorrectVec 2 Set.univ := by
  have hsq : TriPf.Square 2 [[5, 6], [7, (8 : ℝ)]] := by constructor <;> simp
  have hsq' : TriPf.Square 2 [[1, 2], [3, (-4 : ℝ)]] := by constructor <;> simp
  obtain ⟨s, hs⟩ : ∃ s, TriangularAffine.init [3] (.mat [[1, 2], [3, (-4 : ℝ)]]) false = .ok s :=
    (TriGenPf.gen_init_accepts_iff _ _ _).mpr (by simp [TriPrims.NdArr.ndim, TriPrims.NdArr.shapeGet, TriPrims.NdArr.shape])
  exact ⟨triangular_of_raw_ld true _ _ _ hsq rfl rfl, s, hs, gen_triangular_init_ld _ _ _ hsq' hs⟩

/-- `coupling_affine_logdet`: `NetLogDet.CondDiff` is inhabited by a NON-LINEAR conditioner (`a ↦ a² + 1`), scale 2:
at every point the Jacobian exists and the returned log-det is `log |det J|` — no differentiability hypothesis left. -/
theorem coupling_affine_audit_instance (c : List ℝ) (v : Fin 2 → ℝ) :
    ∃ J : (Fin 2 → ℝ) →L[ℝ] (Fin 2 → ℝ),
      HasFDerivAt (NetLogDet.coords 2 fun x => (couplingBij 1 (fun l => l.map fun a => a * a + 1)
        (NetLogDet.affineFamily (fun ps => ps.getD 0 0) (fun _ => 2))).fwd x c) J v ∧ J.det ≠ 0 ∧
      ((couplingBij 1 (fun l => l.map fun a => a * a + 1)
        (NetLogDet.affineFamily (fun ps => ps.getD 0 0) (fun _ => 2))).fwdLd (List.ofFn v) c).2 = Real.log |J.det| := by
  have hc : NetLogDet.CondDiff 1 2 (fun l => l.map fun a => a * a + 1) (fun ps => ps.getD 0 0) (fun _ => 2) c := by
    intro k hk
    have hk0 : k = 0 := by omega
    subst hk0
    refine ⟨?_, differentiable_const _⟩
    have e : (fun w : Fin 2 → ℝ => (NetLogDet.rowAt 1 2 (fun l => l.map fun a => a * a + 1) c w 0).getD 0 0)
        = fun w => w 0 * w 0 + 1 := by
      funext w
      simp [NetLogDet.rowAt, reshapeRows, List.ofFn_succ, List.range_succ]
    rw [e]
    fun_prop
  obtain ⟨J, h1, _, h3, h4⟩ := coupling_affine_logdet 1 2 (by norm_num) _ _ _ (fun _ => by norm_num) c hc v
  exact ⟨J, h1, h3, h4⟩

/-- `logmatmulexp_spec`: hypotheses satisfiable with a `-inf` entry present (`k = 2`, one `none`), and the result is finite. -/
example :
    Gen.logmatmulexp (BnafLd.mkMat 1 2 fun _ _ => some (Real.log 3))
        (BnafLd.mkMat 2 1 fun l _ => if l = 0 then none else some 0)
      = BnafLd.mkMat 1 1 fun _ _ => some (Real.log (∑ l ∈ Finset.range 2, (3 : ℝ) * Jnp.Ext.exp (if l = 0 then none else some 0))) :=
  logmatmulexp_spec 1 2 1 (by norm_num) (fun _ _ => 3) (fun _ _ _ _ => by norm_num) _
    (fun j _ => ⟨1, by norm_num, by simp⟩)

/-- `bnaf_inverse_logdet`: `hinv` is satisfiable for any inverter returning a length-`dim` vector (here the identity). -/
theorem bnaf_inverse_logdet_audit_instance :
    ∃ J : (Fin 2 → ℝ) →L[ℝ] (Fin 2 → ℝ), 0 < J.det ∧
      bnafInverseAndLogDet (fun z => LeakyTanh.transform_and_log_det (LeakyTanh.init (3 : ℝ)) z) 2 1 bnafExample none
        (fun y _ => y) [1, -4] [] = (List.ofFn ![1, -4], some (-(Real.log |J.det|))) := by
  have hA := BnafLd.leakyTanh_actOK (m := 3) (by norm_num)
  obtain ⟨J, _, h2, h3, _⟩ := bnaf_inverse_logdet _ _ hA.1 hA.2 hA.3 NetLawful.bnafExample_ok (fun y _ => y) [1, -4] []
    ![1, -4] (by simp [List.ofFn_succ])
  exact ⟨J, h2, h3⟩

end Audit
end C02
#print axioms C02.coupling_affine_audit_instance
#print axioms C02.bnaf_inverse_logdet_audit_instance
