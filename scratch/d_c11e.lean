import Flowjaxv.Model.Params
open Gen Params
#eval (softplusRaw (-800.0 : Float)).unwrap
#eval (softplusRaw (-50.0 : Float)).unwrap
#eval decide ((0:Float) < (softplusRaw (-800.0 : Float)).unwrap)
#eval (⟨[0.0, 0.0], 2.0⟩ : WeightNormRow Float).unwrap
#eval (UnconditionalPlanar.get_act_scale ⟨[0.0, 0.0], [1.0, 2.0], (0.0:Float)⟩)
#eval realToIncreasingOnInterval [(800.0 : Float), 0.0, 0.0] (-3.0, 3.0) 0.0
#eval realToIncreasingOnInterval [(800.0 : Float), 0.0, 0.0] (-3.0, 3.0) 0.01
#eval rqsDerivatives (0.001 : Float) [-50.0, -800.0]
