import Flowjaxv.Props.C09
open Masks MasksPf
namespace C09
section Audit

/-- AUDIT non-vacuity of `RankChain` / `masked_mlp_dependency_chain`: a two-layer chain with different rank vectors per layer,
weights of both signs; output 0 (rank 1) ignores the rank-1 and rank-2 inputs. -/
theorem rankChain_audit_instance :
    RankChain [0, 1, 2] [⟨rankBasedMask [0, 1, 2] [0, 1] true, [[1, -2, 3], [4, 5, -6]], [1, -1]⟩,
      ⟨rankBasedMask [0, 1] [1, 2] false, [[7, -8], [9, 10]], [0, 2]⟩] [1, 2] :=
  RankChain.cons _ _ _ _ _ _ (RankChain.last _ _ _ _)

theorem masked_mlp_chain_audit_instance (a b c b' c' : ℝ) :
    (mlpForward (fun z => z) [⟨rankBasedMask [0, 1, 2] [0, 1] true, [[1, -2, 3], [4, 5, -6]], [1, -1]⟩,
      ⟨rankBasedMask [0, 1] [1, 2] false, [[7, -8], [9, 10]], [0, 2]⟩] [a, b, c])[0]? =
    (mlpForward (fun z => z) [⟨rankBasedMask [0, 1, 2] [0, 1] true, [[1, -2, 3], [4, 5, -6]], [1, -1]⟩,
      ⟨rankBasedMask [0, 1] [1, 2] false, [[7, -8], [9, 10]], [0, 2]⟩] [a, b', c'])[0]? := by
  refine masked_mlp_dependency_chain rankChain_audit_instance _ 0 (by simp) _ _ rfl ?_
  intro j hj hj' hr hlt
  have : j = 0 := by
    simp at hr
    interval_cases j <;> simp_all
  subst this; rfl

/-- AUDIT: `maf_complete` instantiated (dim 3, cond_dim 2, width 3, depth 2, 2 params per dim): x₀ reaches parameter 1 of coordinate 2,
and condition input 4 reaches parameter 0 of coordinate 0. -/
theorem maf_complete_audit_instance :
    (∃ path : List Nat, path.head? = some 0 ∧ path.getLast? = some 5 ∧ path.length = 4 ∧
      PathOpen (mlpMasks (mafInRanks 3 (some 2)) (mafHiddenRanks 3 3 (some 2)) (mafOutRanks 3 2) 2) path) ∧
    (∃ path : List Nat, path.head? = some 4 ∧ path.getLast? = some 0 ∧ path.length = 4 ∧
      PathOpen (mlpMasks (mafInRanks 3 (some 2)) (mafHiddenRanks 3 3 (some 2)) (mafOutRanks 3 2) 2) path) :=
  ⟨maf_complete 3 3 2 2 (some 2) (by norm_num) 2 1 (by norm_num) (by norm_num) 0 (Or.inl (by norm_num)),
   maf_complete 3 3 2 2 (some 2) (by norm_num) 0 0 (by norm_num) (by norm_num) 4 (Or.inr (by simp))⟩

/-- AUDIT: width < dim really loses a permitted dependency (so `dim ≤ width` in `maf_complete` is not decorative):
dim 3, unconditional, width 1, depth 1 — x₁ never reaches the parameters of coordinate 2. -/
theorem maf_incomplete_audit_instance :
    entry (reachMask 3 (mlpMasks (mafInRanks 3 none) (mafHiddenRanks 3 1 none) (mafOutRanks 3 1) 1)) 2 1 = false ∧
    entry (reachMask 3 (mlpMasks (mafInRanks 3 none) (mafHiddenRanks 3 1 none) (mafOutRanks 3 1) 1)) 2 0 = true := by
  constructor <;> decide

end Audit
end C09
