import Flowjaxv.Props.C10
open Gen Model
namespace C10
section Audit
/-- AUDIT: the library DEFAULTS (`lower, upper = -10, 10`, `tol = 1e-7`, `max_iter = 200`) do reach the requested tolerance for every
strictly increasing `f` whose root is anywhere within `10⁶` of the origin (the property's "1e6 away on either side"): `search_tol`'s
side condition `W / 2^(max_iter+1) ≤ tol` holds, and fuel 200 covers the ≤ 16 adaptation steps. -/
theorem search_tol_defaults_audit (f : ℝ → ℝ) (hf : StrictMono f) (r : ℝ) (hr : f r = 0) (hbox : |r| ≤ 1000000)
    (fuel : ℕ) (hfuel : 200 ≤ fuel) :
    ∃ root ai it, bisectionSearch f (-10) 10 (1 / 10000000) 200 fuel = some (root, ai, it) ∧ |root - r| ≤ 1 / 10000000 := by
  obtain ⟨h1, h2⟩ := abs_le.mp hbox
  have hm : max ((-10 : ℝ) - r) (r - 10) ≤ 1000000 := max_le (by linarith) (by linarith)
  have hclog : Nat.clog 2 (⌈max ((-10 : ℝ) - r) (r - 10) / (10 - -10)⌉₊ + 1) ≤ 16 := by
    apply Nat.clog_le_of_le_pow
    have : ⌈max ((-10 : ℝ) - r) (r - 10) / (10 - -10)⌉₊ ≤ 50000 := by
      rw [Nat.ceil_le]
      have : max ((-10 : ℝ) - r) (r - 10) / (10 - -10) ≤ 1000000 / 20 := by
        rw [show ((10 : ℝ) - -10) = 20 by norm_num]; exact div_le_div_of_nonneg_right hm (by norm_num)
      norm_num at this ⊢; linarith
    omega
  apply search_tol f hf r hr (by norm_num : (-10 : ℝ) < 10) (1 / 10000000) 200
    (by rw [Bisection.searchArgsOk_iff]; norm_num) _ fuel (le_trans hclog (by omega)) (by simpa using hfuel)
  have hp : (0 : ℝ) < 2 ^ ((200 : Int).toNat + 1) := by positivity
  rw [div_le_iff₀ hp]
  have h2 : (2 : ℝ) ^ 50 ≤ 2 ^ ((200 : Int).toNat + 1) := pow_le_pow_right₀ (by norm_num) (by simp)
  have h3 : max (0 : ℝ) (max ((-10 : ℝ) - r) (r - 10)) ≤ 1000000 := max_le (by norm_num) hm
  norm_num at h2 ⊢
  nlinarith
end Audit
end C10
