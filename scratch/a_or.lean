import Flowjaxv.Props.C03
open Gen Set Masks Flows FlowsPf
example (tf : List ℝ → Bij ℝ Unit ℝ) (dim : ℕ) (key : ℕ → MafNet ℝ × List ℕ) (n : ℕ) :
    (mafFlowBij tf dim key n true).invLd = (mafFlowBij tf dim key n false).fwdLd := rfl
example (dim : ℕ) (s : ℝ) (key : ℕ → (List ℝ → List ℝ) × List ℕ) (n : ℕ) :
    (planarFlowBij dim s key n true).fwd = (planarFlowBij dim s key n false).inv := rfl
example (dim : ℕ) (m : ℝ) (key : ℕ → TriSplineNet ℝ × List ℕ) (n : ℕ) :
    (triSplineFlowBij dim m key n true).invLd = (triSplineFlowBij dim m key n false).fwdLd := rfl
