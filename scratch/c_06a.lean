import Flowjaxv.Props.C06
open Vec
namespace C06

/-- the split used by `keys_distinct_instance` / `gen_instance` (`jr.split(k, n)[j] = (k.1, n, j)`) satisfies the injectivity
hypothesis `hinj` that carries the "independent randomness" clause -/
theorem hinj_audit_instance :
    ∀ (k : Nat × Nat × Nat) (n i j : Nat), i < n → j < n →
      (fun (k : Nat × Nat × Nat) n j => (k.1, n, j)) k n i = (fun (k : Nat × Nat × Nat) n j => (k.1, n, j)) k n j → i = j := by
  intro k n i j _ _ h
  simp only [Prod.mk.injEq] at h
  exact h.2.2

/-- `keys_distinct` + `sample_elements_use_distinct_keys` instantiated with that split: sample_shape (2,), a condition of batch
shape (3,1) and scalar cond_shape `()` (rank-0 corner: `-0 or None`), a sampler that returns its key -/
theorem keys_distinct_audit_instance :
    (∃ keys, sampleKeys (Key := Nat × Nat × Nat) (fun k n j => (k.1, n, j)) (7, 0, 0) [2, 3, 1] = .ok keys ∧
      ∀ i j, ValidIdx [2, 3, 1] i → ValidIdx [2, 3, 1] j → keys.slice i = keys.slice j → i = j) ∧
    (∃ (out : Batched (Nat × Nat × Nat)) (keyOf : List Nat → Nat × Nat × Nat),
      sampleWithCond (C := Nat) [] (fun k _ => k) (fun k n j => (k.1, n, j)) (7, 0, 0) [2] (some ⟨[3, 1], fun _ => 0⟩) = .ok out ∧
      out.loop = [2, 3, 1] ∧ out.elem [1, 2, 0] = (7, 6, 5) ∧ (∀ i, ValidIdx out.loop i → out.elem i = keyOf i) ∧
      ∀ i j, ValidIdx out.loop i → ValidIdx out.loop j → keyOf i = keyOf j → i = j) := by
  constructor
  · obtain ⟨keys, hk, -, -, -, -, hd⟩ := keys_distinct (fun (k : Nat × Nat × Nat) n j => (k.1, n, j)) hinj_audit_instance (7, 0, 0) [2, 3, 1]
    exact ⟨keys, hk, hd⟩
  · obtain ⟨out, hout⟩ := (sample_accepts_iff (C := Nat) [] [2] (fun (k : Nat × Nat × Nat) _ => k) (fun k n j => (k.1, n, j)) (7, 0, 0)
      ⟨[3, 1], fun _ => 0⟩).1.2 ⟨[3, 1], rfl⟩
    obtain ⟨keyOf, cb, hc, hl, he, hd⟩ := sample_elements_use_distinct_keys _ hinj_audit_instance [] [2] _ (7, 0, 0) _ out hout
    have hcb : cb = [3, 1] := by simpa using hc.symm
    subst hcb
    refine ⟨out, keyOf, hout, hl, ?_, he, hd⟩
    have h2 := hout
    rw [sampleWithCond_eq [] [2] [3, 1] _ _ _ _ rfl] at h2
    cases h2
    decide

end C06
