import Flowjaxv.Props.C08
open Gen Set Arr ArrComb ArrJnp
namespace C08

theorem audit_aff_lawful (l s : ℝ) (hs : s ≠ 0) (shape : List Nat) (n : Nat) (hn : n = Arr.prod shape) :
    (elementwise (List.replicate n ((Affine.mk l s : Affine ℝ).toBij : Bij ℝ Unit ℝ))).Lawful (WS shape) (WS shape) :=
  ArrComb.elementwise_lawful (shape := shape)
    (fun b hb => by rw [List.eq_of_mem_replicate hb]; exact Leaves.affine_lawful _ hs) (by simp [hn])

/-- Reshape((2,3)-bijection, shape=(3,2)) -/
theorem gen_reshape_ctor_audit_instance :
    let b : SBij (Arr ℝ) (Arr ℝ) ℝ :=
      SBij.ofBij (elementwise (List.replicate 6 ((Affine.mk 1 2 : Affine ℝ).toBij : Bij ℝ (Arr ℝ) ℝ))) [2, 3] none
    (Reshape.init b (some [3, 2]) none).shape = [3, 2]
    ∧ (Reshape.init b (some [3, 2]) none).toBij.Lawful (WS [3, 2]) (WS [3, 2]) := by
  intro b
  have h := gen_reshape_ctor_lawful b (some [3, 2]) none [3, 2] none (by decide)
    (ArrComb.elementwise_lawful (shape := [2, 3])
      (fun b hb => by rw [List.eq_of_mem_replicate hb]; exact Leaves.affine_lawful _ (by norm_num)) (by decide))
  exact ⟨h.1, h.2.2.2.2⟩

/-- generated Partial: shape (2,3), idxs = column 1 (`[:, 1]`: sub-shape (2,), flat positions 1, 4) -/
theorem gen_partial_audit_instance :
    let g : Partial ℝ Unit ℝ :=
      ⟨SBij.ofBij (elementwise (List.replicate 2 ((Affine.mk 1 2 : Affine ℝ).toBij : Bij ℝ Unit ℝ))) [2] none, ⟨[2], [1, 4]⟩, [2, 3]⟩
    g.toBij.Lawful (WS [2, 3]) (WS [2, 3])
    ∧ ∀ x ∈ WS [2, 3], getIdx (g.transform x ()) g.idxs = g.bijection.fwd (getIdx x g.idxs) () := by
  intro g
  have hb : g.bijection.toBij.Lawful (WS g.idxs.sub) (WS g.idxs.sub) := audit_aff_lawful 1 2 (by norm_num) [2] 2 (by decide)
  exact ⟨gen_partial_lawful g hb (by decide) (by decide) (by decide),
    fun x hx => (gen_partial_indexed g hb (by decide) (by decide) (by decide) hx ()).1⟩

/-- chain_lawful / ChainLawful with two different non-identity leaves and a domain change: exp : ℝ → (0,∞), then ×2 on (0,∞) -/
theorem chain_lawful_audit_instance :
    (Chain.mk [((Affine.mk 1 2 : Affine ℝ).toBij : Bij ℝ Unit ℝ), ((Affine.mk 0 (-3) : Affine ℝ).toBij : Bij ℝ Unit ℝ)]).toBij.Lawful univ univ :=
  chain_lawful (.cons (Leaves.affine_lawful _ (by norm_num)) (.cons (Leaves.affine_lawful _ (by norm_num)) (.nil _)))

end C08
