import Flowjaxv.Props.C12
open PyTree
namespace C12
section Audit

/-- AUDIT: a bijection table for the generated bodies at `Rat` (negation as a stand-in for `transform`) -/
def auditBij : Nat → Bij Rat Unit Rat :=
  fun _ => ⟨fun x _ => -x, fun y _ => -y, fun x _ => (-x, 0), fun y _ => (-y, 0)⟩

/-- AUDIT: `BijectionReparam(Where(mask, W, B), b)` built under one `filter_vmap` of size 2 — every array leaf batched, `_dummy.shape = (2,)` -/
def auditVmapWhere : Tree Rat :=
  .wrap .reparam 1 [2] [
    .wrap .whereK 4 [] [.arr 11 false (.batch [.base [1, 0], .base [0, 1]]), .arr 12 true (.batch [.base [5, -3], .base [2, 7]]),
      .arr 13 true (.batch [.base [0, 0], .base [9, 9]])],
    .static 3]

/-- AUDIT non-vacuity of `WBgs` (hypothesis of `unwrap_vmapped_uniform`, `gen_unwrap_vmapped`, `gen_traversal_gen_bodies`; it had NO instance
anywhere) for the GENERATED bodies `genWrapFn`, on a tree that contains a `Where` node — the node kind whose `WBg` clause is itself a
slice/apply commutation — and `gen_unwrap_vmapped` applied to it; the generated bodies are really evaluated (kernel, `Rat`). -/
theorem WBgs_audit_instance :
    WBgs (genWrapFn auditBij fun _ cs => .node cs) [2] auditVmapWhere ∧
    unwrap (genWrapFn auditBij fun _ cs => .node cs) auditVmapWhere
      = .arr 12 true (.batch [.base [-5, 0], .base [-9, -7]]) ∧
    sliceTs [1] (unwrap (genWrapFn auditBij fun _ cs => .node cs) auditVmapWhere)
      = unwrap (genWrapFn auditBij fun _ cs => .node cs) (sliceTs [1] auditVmapWhere) := by
  have hW : WBgs (genWrapFn auditBij fun _ cs => .node cs) [2] auditVmapWhere := by
    simp only [WBgs, auditVmapWhere, WBg, WBgL, and_true]
    refine ⟨⟨⟨⟨⟨_, rfl, rfl⟩, ⟨_, rfl, rfl⟩, ⟨_, rfl, rfl⟩⟩, forall_lt_two rfl rfl⟩, ⟨_, rfl⟩⟩, fun _ _ => trivial⟩
  refine ⟨hW, rfl, ?_⟩
  exact gen_unwrap_vmapped auditBij _ (fun _ cs cs' h => by simpa [Sk] using h) [2] [1] auditVmapWhere (by simp [IdxLt]) hW

end Audit
end C12
