import Flowjaxv.Props.C05
open Gen Families
namespace C05
open EF

theorem ef_aux_sub_self_ninf : (ninf - ninf : EF) = nan := rfl
theorem ef_aux_nan_le (x : EF) : ¬ (nan ≤ x) := by
  show ¬ EF.le nan x = true; cases x <;> simp [EF.le]
theorem ef_aux_exp_ninf : (Transc.exp ninf : EF) = fin 0 := rfl
theorem ef_aux_fin_le (a b : ℝ) : (fin a ≤ fin b) ↔ a ≤ b := by
  show EF.le (fin a) (fin b) = true ↔ _; simp [EF.le]

/-- every component outside its support (component log-probs `−∞`), any finite log-weights: the mixture's private
`_log_prob` is exactly `−∞` — the max-shift falls back to `0`, no `∞ − ∞` NaN reaches the result -/
theorem mixture_all_outside_ext (a b : ℝ) :
    logsumexp [EF.ninf + EF.fin a, EF.ninf + EF.fin b] = EF.ninf := by
  simp [logsumexp, listMax, Jnp.maximum, Jnp.sum, ef_aux_sub_self_ninf, ef_aux_nan_le, ef_aux_exp_ninf]

/-- one component outside (`−∞`), one inside with log-prob `l`: finite, `l + log-weight` -/
theorem mixture_one_outside_ext (a l b : ℝ) :
    logsumexp [EF.ninf + EF.fin a, EF.fin l + EF.fin b] = EF.fin (l + b) := by
  simp [logsumexp, listMax, Jnp.maximum, Jnp.sum, ef_aux_exp_ninf, ef_aux_fin_le, tlog_fin]

end C05
