import sys,re
cid, scratch = sys.argv[1], sys.argv[2]
src = open(scratch).read()
m = re.search(r"(section Audit\n.*?\nend Audit\n)", src, re.S)
blk = m.group(1)
p = f"lean/Flowjaxv/Props/{cid}.lean"
t = open(p).read()
assert "section Audit" not in t
i = t.rindex(f"end {cid}")
t = t[:i] + "/-! ## Audit (g27): non-vacuity of the hypothesis sets used above -/\n" + blk + "\n" + t[i:]
open(p,"w").write(t)
