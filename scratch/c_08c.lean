import Flowjaxv.Props.C08
open Gen Set Arr ArrComb ArrJnp GenJaxTr
namespace C08

/-- a conditional scalar leaf: shift by the first entry of the condition, scale 2 -/
noncomputable def auditCondLeaf : Bij ℝ (Arr ℝ) ℝ :=
  ⟨fun x c => 2 * x + c.data.headD 0, fun y c => (y - c.data.headD 0) / 2,
   fun x c => (2 * x + c.data.headD 0, 7), fun y c => ((y - c.data.headD 0) / 2, -7)⟩

theorem auditCondLeaf_lawful : auditCondLeaf.Lawful univ univ :=
  ⟨fun _ _ _ => trivial, fun _ _ _ => trivial, fun x _ c => by simp [auditCondLeaf],
   fun y _ c => by simp [auditCondLeaf]; ring, fun _ _ => rfl, fun _ _ => rfl⟩

/-- Vmap with the CONDITION MAPPED along axis −1 -/
theorem gen_vmap_mapped_cond_audit_instance :
    let child : SBij (Arr ℝ) (Arr ℝ) ℝ := SBij.ofBij (ArrComb.elementwise [auditCondLeaf]) [1] (some [1])
    let v : JaxTr.Vmap ℝ ℝ := ⟨⟨child, []⟩, (none, 0, some (-1)), 2, some [1, 2]⟩
    let c : Arr ℝ := ⟨[1, 2], [10, 20]⟩
    let x : Arr ℝ := ⟨[2, 1], [1, 2]⟩
    Vmap.inverse v (Vmap.transform v x c) c = x := by
  intro child v c x
  have hb : ∀ b ∈ JaxTr.mapModule v.in_axes.1 v.bijection v.axis_size, b.toBij.Lawful (WS [1]) (WS [1]) := by
    intro b hb
    simp only [v, JaxTr.mapModule, List.mem_replicate] at hb
    rw [hb.2]
    exact ArrComb.elementwise_lawful (shape := [1]) (by intro b hb; simp at hb; subst hb; exact auditCondLeaf_lawful) (by simp [Arr.prod])
  have hx : x ∈ WS (v.axis_size :: [1]) := by constructor <;> rfl
  have h := gen_vmap_roundtrip v [1] c rfl rfl (by decide) hb hx
  exact h.2.2.1

/-- evaluated over ℕ: slice `i` of x is paired with slice `i` of the condition taken along axis −1 (x = [[1],[2]], condition = [[10,20]]) -/
theorem gen_vmap_mapped_cond_eval_audit_instance :
    let leaf : Bij Nat (Arr Nat) Nat := ⟨fun x c => 2 * x + c.data.headD 0, fun y c => (y - c.data.headD 0) / 2,
        fun x c => (2 * x + c.data.headD 0, 7), fun y c => ((y - c.data.headD 0) / 2, 3)⟩
    let child : SBij (Arr Nat) (Arr Nat) Nat := SBij.ofBij (ArrComb.elementwise [leaf]) [1] (some [1])
    let v : JaxTr.Vmap Nat Nat := ⟨⟨child, []⟩, (none, 0, some (-1)), 2, some [1, 2]⟩
    (Vmap.transform v ⟨[2, 1], [1, 2]⟩ ⟨[1, 2], [10, 20]⟩).data = [12, 24]
    ∧ (Vmap.transform v ⟨[2, 1], [1, 2]⟩ ⟨[1, 2], [10, 20]⟩).shape = [2, 1]
    ∧ (Vmap.inverse_and_log_det v ⟨[2, 1], [12, 24]⟩ ⟨[1, 2], [10, 20]⟩).1.data = [1, 2]
    ∧ (Vmap.inverse_and_log_det v ⟨[2, 1], [12, 24]⟩ ⟨[1, 2], [10, 20]⟩).2 = 6 := by decide
end C08
