import Flowjaxv.Props.C18
open Ad EF AdT GenAst AdK
namespace C18
/-- negative control: the predicate bites -/
theorem gradFinite_audit_negative_control : ¬ GradFinite (envOf 0 [] []) (Expr.prim Prim.sqrt (Expr.var 0)) := by
  intro h
  have h1 := h.2 (fin 1) trivial
  simp [Expr.vjp, Expr.eval, envOf, dPrim, AllFin] at h1
  have e : (fin 1 * (fin 1 / (fin 2 * Num.sqrt (fin 0))) : EF) = pinf := by
    show EF.mul (fin 1) (EF.div (fin 1) (EF.mul (fin 2) (EF.sqrt (fin 0)))) = pinf
    simp [EF.sqrt, EF.mul, EF.div, EF.recip]
  rw [e] at h1
  exact h1
end C18
