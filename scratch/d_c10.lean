import Flowjaxv.Props.C10
open Gen Model
namespace C10
section Audit

/-- AUDIT helper: a `while_loop` with fuel `n` that returns has advanced the adaptation counter by at most `n`. -/
theorem audit_whileFuel_iter_le (f : ℝ → ℝ) : ∀ (n : ℕ) (s s' : AdaptState ℝ),
    whileFuel adaptCond (adaptBody f 2) n s = some s' → s'.iteration ≤ s.iteration + n := by
  intro n
  induction n with
  | zero =>
    intro s s' h
    simp only [whileFuel] at h
    split at h
    · simp at h
    · simp only [Option.some.injEq] at h; subst h; simp
  | succ n ih =>
    intro s s' h
    simp only [whileFuel] at h
    split at h
    · have := ih _ _ h
      have hb : (adaptBody f 2 s).iteration = s.iteration + 1 := by
        by_cases h1 : s.lower_fn_sign = 1
        · rw [(adapt_step f s).1 h1]
        · rw [(adapt_step f s).2 h1]
      rw [hb] at this
      push_cast; omega
    · simp only [Option.some.injEq] at h; subst h; push_cast; omega

/-- AUDIT (VACUITY of `gen_autoregressive_exact`): its hypothesis `hsolve` — "the generated `_bisection_search` with THESE
`lower < upper`, `tol`, `max_iter`, `fuel` returns the exact root of every strictly increasing function that has one" — is FALSE for
every choice of the parameters: the root `upper + (upper − lower)·2^(fuel+1)` needs `fuel + 2 > fuel` adaptation steps, so the
search runs out of fuel on `x ↦ x − root`.  Hence `gen_autoregressive_exact` (with `lower < upper`) has an unsatisfiable hypothesis set. -/
theorem gen_autoregressive_exact_hsolve_false {lower upper : ℝ} (h : lower < upper) (tol : ℝ) (max_iter : Int) (fuel : ℕ)
    (hsolve : ∀ (g : ℝ → ℝ) (r : ℝ), StrictMono g → g r = 0 →
      ∃ ai it, GenBis.bisectionSearch fuel g lower upper tol max_iter = Bw.Res.ok (r, ai, it)) : False := by
  set r : ℝ := upper + (upper - lower) * 2 ^ (fuel + 1) with hr
  have hw : 0 < upper - lower := by linarith
  have hg : StrictMono (fun x : ℝ => x - r) := fun a b hab => by simp only; linarith
  obtain ⟨ai, it, e⟩ := hsolve (fun x => x - r) r hg (by simp)
  rw [gen_bisection_search_eq_model] at e
  split at e
  · rw [BisectionGen.ofOption_eq_ok] at e
    unfold bisectionSearch at e
    split at e
    · simp at e
    · rename_i lo hi ai' ea
      have hit := adapt_iterations_exact (fun x => x - r) hg r (by simp) h fuel lo hi ai' ea
      -- the counter is bounded by the fuel
      unfold adaptInterval at ea
      obtain ⟨s', hs', hx⟩ := Option.map_eq_some_iff.mp ea
      have hle := audit_whileFuel_iter_le (fun x => x - r) fuel _ s' hs'
      have hai : ai' = s'.iteration := by
        have := congrArg (fun p => p.2.2) hx; simpa [adaptExit] using this.symm
      have h0 : (adaptInit (fun x => x - r) lower upper).iteration = 0 := rfl
      rw [h0] at hle
      -- but the exact count is clog 2 (2^(fuel+1) + 1) = fuel + 2
      have hmax : max (lower - r) (r - upper) / (upper - lower) = 2 ^ (fuel + 1) := by
        have h1 : r - upper = (upper - lower) * 2 ^ (fuel + 1) := by rw [hr]; ring
        have hp : (0 : ℝ) < 2 ^ (fuel + 1) := by positivity
        have h2 : lower - r ≤ r - upper := by rw [h1, hr]; nlinarith [mul_pos hw hp]
        rw [max_eq_right h2, h1]; field_simp
      have hceil : ⌈max (lower - r) (r - upper) / (upper - lower)⌉₊ = 2 ^ (fuel + 1) := by
        rw [hmax]; exact_mod_cast Nat.ceil_natCast (2 ^ (fuel + 1))
      rw [hceil] at hit
      have hclog : fuel + 1 < Nat.clog 2 (2 ^ (fuel + 1) + 1) := by
        apply (Nat.lt_clog_iff_pow_lt (by norm_num)).mpr
        omega
      rw [hai] at hit
      rw [hit] at hle
      have : (Nat.clog 2 (2 ^ (fuel + 1) + 1) : Int) ≤ fuel := by simpa using hle
      omega
  · simp at e

end Audit
end C10
#print axioms C10.gen_autoregressive_exact_hsolve_false
#check @C10.gen_autoregressive_exact_hsolve_false
