import Flowjaxv.Props.C10
open Gen Model
namespace C10
section Audit
/-- AUDIT (scope of "any continuous strictly increasing function"): every theorem of this file ASSUMES a root `f r = 0`.  Without one
the adaptation loop of the model never returns, whatever the fuel: for an everywhere-positive `f` (e.g. `exp`) both cached signs stay
`+1`, so `cond_fn` stays true.  The property's "terminates" is therefore only established for functions that have a root. -/
theorem adapt_never_returns_without_root_audit (f : ℝ → ℝ) (hpos : ∀ x, 0 < f x) (lower upper : ℝ) (fuel : ℕ) :
    adaptInterval f lower upper fuel = none := by
  have key : ∀ (n : ℕ) (s : AdaptState ℝ), s.lower_fn_sign = 1 → s.upper_fn_sign = 1 →
      whileFuel adaptCond (adaptBody f 2) n s = none := by
    intro n
    induction n with
    | zero => intro s h1 h2; simp [whileFuel, adaptCond, h1, h2]
    | succ n ih =>
      intro s h1 h2
      have hc : adaptCond s = true := by simp [adaptCond, h1, h2]
      simp only [whileFuel, hc, if_true]
      apply ih
      · rw [(adapt_step f s).1 h1]; exact RealInst.jsign_pos (hpos _)
      · rw [(adapt_step f s).1 h1]; exact RealInst.jsign_pos (hpos _)
  unfold adaptInterval
  rw [key fuel _ (by simp [adaptInit]; exact RealInst.jsign_pos (hpos _)) (by simp [adaptInit]; exact RealInst.jsign_pos (hpos _))]
  rfl
end Audit
end C10
