import Flowjaxv.Props.C02
open Gen Set
namespace C02
section Audit2
open Masks MasksPf Nw GenNet

/-- `gen_coupling_logdet` (GENERATED `Coupling.transform` / `transform_and_log_det`) at `ℝ`: the hypotheses `hdn`, `hJ`, `hd` are jointly
satisfiable — conditional object on `ℝ²`, `d = 1`, non-linear conditioner `(a, c) ↦ (a²+1, c²+1)` (only row 0 is read), scale 2; at
every point, `condition = some [c₀]`: `det J = 2` and the generated method returns `log |det J|`. -/
theorem gen_coupling_logdet_audit_instance (v : Fin 2 → ℝ) (c0 : ℝ) :
    ∃ J : (Fin 2 → ℝ) →L[ℝ] (Fin 2 → ℝ),
      HasFDerivAt (NetLogDet.coords 2 fun x =>
        Coupling.transform (CouplingObj.mk' 1 2 (some 1) (fun l => l.map fun a => a * a + 1) NetLawful.exampleFamily) x (some [c0])) J v ∧
      J.det = 2 ∧
      (Coupling.transformAndLogDet (CouplingObj.mk' 1 2 (some 1) (fun l => l.map fun a => a * a + 1) NetLawful.exampleFamily)
        (List.ofFn v) (some [c0])).2 = Real.log |J.det| := by
  set self := CouplingObj.mk' 1 2 (some 1) (fun l : List ℝ => l.map fun a => a * a + 1) NetLawful.exampleFamily with hself
  have hF : (NetLogDet.coords 2 fun x => Coupling.transform self x (some [c0]))
      = fun w => ![w 0, w 1 * 2 + (w 0 * w 0 + 1)] := by
    have e := NetGenPf.gen_coupling_coords self (some [c0])
    have e' : (NetLogDet.coords 2 fun x => Coupling.transform self x (some [c0]))
        = NetLogDet.coords 2 (fun x => (couplingBij 1 (fun l : List ℝ => l.map fun a => a * a + 1) NetLawful.exampleFamily).fwd x [c0]) := e
    rw [e']
    funext w i
    fin_cases i <;>
      simp [NetLogDet.coords, nth, couplingBij, couplingTransform, NetLawful.exampleFamily, reshapeRows, Affine.toBij,
        Affine.transform, List.ofFn_succ, List.range_succ]
  have hdiff : DifferentiableAt ℝ (fun w : Fin 2 → ℝ => ![w 0, w 1 * 2 + (w 0 * w 0 + 1)]) v := by
    rw [differentiableAt_pi]
    intro i
    fin_cases i <;> simp <;> fun_prop
  have hJ : HasFDerivAt (NetLogDet.coords self.dim fun x => Coupling.transform self x (some [c0]))
      (fderiv ℝ (fun w : Fin 2 → ℝ => ![w 0, w 1 * 2 + (w 0 * w 0 + 1)]) v) v := by
    show HasFDerivAt (NetLogDet.coords 2 fun x => Coupling.transform self x (some [c0])) _ v
    rw [hF]; exact hdiff.hasFDerivAt
  obtain ⟨h1, _, h3⟩ := gen_coupling_logdet self (by simp [hself, CouplingObj.mk']) (some [c0]) v _ hJ (fun _ => 2)
    (fun i _ ps _ => NetLogDet.exampleFamily_ld ps (v i))
  refine ⟨_, hJ, h1.trans ?_, h3⟩
  show ∏ i : Fin 2, (if (i : ℕ) < 1 then (1 : ℝ) else 2) = 2
  simp [Fin.prod_univ_two]

end Audit2
end C02
