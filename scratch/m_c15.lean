import Flowjaxv.Props.C15
open Train TrainGen
namespace C15
section Audit
/-- a concrete world whose `jr.permutation` reverses (so it is NOT the identity) -/
def auditWorld : World Nat Nat Unit Unit Unit :=
  ⟨fun _ m => (List.range m).reverse, fun p _ => ((p : Int), ()), fun _ _ => 0, fun _ => (), fun _ _ _ => ((), ()),
    fun p _ => p + 1, fun l => l.headD 0, fun l _ => l⟩

/-- `gen_run_main`'s hypothesis set is satisfiable EXCEPT for `hr`, which stays a hypothesis here too: `Py.round (Py.fmul vp n)` is a
`Float` computation (`Float.floor`, `Float.toUInt64`, `*`) that the kernel cannot evaluate, so for no concrete `vp` can `hr` be
proved inside Lean (`decide`/`rfl` get stuck; `native_decide` is forbidden).  All generated-code theorems of C15 that mention `hr`
(`gen_split_sizes_eq`, `gen_fit_dataflow_eq`, `gen_rows_aligned`, `gen_run_main`) are therefore conditional on a fact only the driver
can observe at run time.  Given `hr` for `n = 7`, `r = 2`, the rest is inhabited (`Valid` with a reversing permutation, `b = 2`): -/
theorem gen_run_main_audit_instance (vp : Float) (hr : Py.round (Py.fmul vp ((7 : Nat) : Int)) = ((2 : Nat) : Int)) :
    genRun auditWorld 0 (List.range 7) none vp 2 0 1 = indexRun auditWorld.perm 7 2 2 1 ∧
    (genRun auditWorld 0 (List.range 7) none vp 2 0 1).train = [6, 5, 4, 3, 2] ∧
    (genRun auditWorld 0 (List.range 7) none vp 2 0 1).epochs.map (fun ep => ep.trainCalls.map (·.rows)) = [[[2, 3], [4, 5]]] := by
  have hv : Valid auditWorld.perm 7 2 2 := ⟨fun _ m => List.reverse_perm _, by omega, by omega, by omega⟩
  have h := (gen_run_main auditWorld 0 vp 7 2 2 1 hr hv).1
  rw [h]
  exact ⟨rfl, by decide, by decide⟩
end Audit
end C15
