import Flowjaxv.Props.C09
open Masks MasksPf
namespace C09
section Audit
#check @Leaves.tanh_lt_tanh

/-- AUDIT: the hypotheses of `bnaf_strict_mono` / `bnaf_dependency` are jointly satisfiable WITH a condition (`cond_linear` present) and
with the real activation shape `tanh`: dim 2, depth 1, block_dim 1, weights of both signs. -/
theorem bnaf_cond_tanh_audit_instance (x0 x1 c t t' : ℝ) (htt : t < t') :
    nth (bnafTransform Real.tanh bnafExample (some [[2], [-3]]) ([x0, x1].set 1 t) [c]) 1
      < nth (bnafTransform Real.tanh bnafExample (some [[2], [-3]]) ([x0, x1].set 1 t') [c]) 1 := by
  have hact : StrictMono Real.tanh := fun a b h => Leaves.tanh_lt_tanh.mpr h
  have hws : ∀ L ∈ bnafExample, BnafWellShaped L ∧ L.n = 2 := by
    intro L hL
    simp only [bnafExample, List.mem_cons, List.not_mem_nil, or_false] at hL
    rcases hL with rfl | rfl
    · exact ⟨⟨⟨rfl, by intro row hrow; simp at hrow; rcases hrow with rfl | rfl <;> rfl⟩, rfl, rfl⟩, rfl⟩
    · exact ⟨⟨⟨rfl, by intro row hrow; simp at hrow; rcases hrow with rfl | rfl <;> rfl⟩, rfl, rfl⟩, rfl⟩
  have hsh : bnafExample.map (fun L => (L.b0, L.b1)) = bnafBlockShapes 1 1 := by decide
  exact bnaf_strict_mono _ hact 2 1 1 (by norm_num) bnafExample hsh hws (some [[2], [-3]]) [c]
    (by intro C hC L hL; simp at hC; subst hC; simp [bnafExample] at hL; subst hL; rfl) [x0, x1] rfl 1 (by norm_num) t t' htt

/-- AUDIT: a well-shaped CONDITIONAL MAF net (dim 2, cond_dim 1, width 3, depth 1, two parameters per dimension, weights of both signs):
`maf_autoregressive` applies — the parameters of coordinate 0 ignore x entirely, output 0 of `transform` ignores x₁. -/
def mafCondAudit : MafNet ℝ :=
  { dim := 2, condDim := some 1, width := 3, depth := 1, numParams := 2,
    weights := [[[1, -2, 3], [-1, 2, 5], [4, 0, -1]], [[1, 2, -3], [2, -1, 1], [3, 1, -2], [-4, 1, 1]]],
    biases := [[0, 1, -1], [1, 0, 2, -2]], act := fun z => z * z * z }

theorem mafCond_audit_instance : mafCondAudit.WellShaped ∧
    ∀ a b a' b' c : ℝ, (mafCondAudit.params [a, b] [c])[0]? = (mafCondAudit.params [a', b'] [c])[0]? := by
  have hW : mafCondAudit.WellShaped := by
    refine ⟨rfl, rfl, ?_⟩
    intro l hw hb
    have hl : l < 2 := hw
    interval_cases l
    · exact ⟨3, 3, rfl, rfl, ⟨rfl, by intro row hrow; simp [mafCondAudit] at hrow; rcases hrow with rfl | rfl | rfl <;> rfl⟩, rfl⟩
    · exact ⟨3, 4, rfl, rfl, ⟨rfl, by intro row hrow; simp [mafCondAudit] at hrow; rcases hrow with rfl | rfl | rfl | rfl <;> rfl⟩, rfl⟩
  refine ⟨hW, fun a b a' b' c => ?_⟩
  refine (maf_autoregressive mafCondAudit hW (fun _ z => z) [a, b] [a', b'] [c] rfl rfl 0 (by decide)).1 ?_
  intro j hj hj' hj1
  omega
end Audit
end C09
