import Flowjaxv.Props.C12
open PyTree
namespace C12
section Audit
/-- AUDIT: elementwise `apply_updates` on array leaves -/
def auditAdd : Arr Int → Arr Int → Arr Int
  | .base x, .base y => .base (List.zipWith (· + ·) x y)
  | a, _ => a

/-- AUDIT: `frozen_bit_identical` APPLIED (the pre-existing `bnaf_frozen_instance` only evaluates `train`, with an `add` that ignores the
update, so the parameters never move): two genuine update steps on the frozen BNAF layer move the bias from `[0,0]` to `[13,-16]`;
the hypothesis `train … = some p'` holds, and the theorem gives the frozen leaves (masks AND the frozen float weight) unchanged. -/
theorem frozen_bit_identical_audit_instance :
    train auditAdd (partP bnafFrozen) [.node [.none, .arr 0 true (.base [3, 4]), .none], .node [.none, .arr 0 true (.base [10, -20]), .none]]
      = some (.node [.none, .arr 14 true (.base [13, -16]), .none]) ∧
    frozenLeaves (combine (.node [.none, .arr 14 true (.base [13, -16]), .none]) (partS bnafFrozen)) = frozenLeaves bnafFrozen ∧
    (frozenLeaves bnafFrozen).map (·.1) = [10, 11, 12, 11, 12, 13] ∧
    partP (combine (.node [.none, .arr 14 true (.base [13, -16]), .none]) (partS bnafFrozen))
      = .node [.none, .arr 14 true (.base [13, -16]), .none] := by
  have h : train auditAdd (partP bnafFrozen) [.node [.none, .arr 0 true (.base [3, 4]), .none], .node [.none, .arr 0 true (.base [10, -20]), .none]]
      = some (.node [.none, .arr 14 true (.base [13, -16]), .none]) := rfl
  have r := frozen_bit_identical auditAdd bnafFrozen _ _ h
  exact ⟨h, r.2.1, rfl, r.2.2.2⟩
end Audit
end C12
