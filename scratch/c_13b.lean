import Flowjaxv.Props.C13
open PyShape ArgCheck Gen.Structure
namespace C13

/-- `PartialFits` / `¬ IntOutOfRange` inhabited: negative in-range int, a stepped slice; and the iff used in both directions -/
theorem partial_fits_audit_instances :
    PartialFits [3, 2] (.int (-1)) [2] ∧ ¬ IntOutOfRange [3, 2] (.int (-1)) ∧ IntOutOfRange [3] (.int 5)
    ∧ PartialFits [5] (.slice (some 1) none (some 2)) [2]
    ∧ partialCheck [3, 2] (.int (-1)) [2] = .ok ()
    ∧ ¬ PartialFits [3, 2] (.int (-1)) [3] ∧ partialCheck [3, 2] (.int (-1)) [3] ≠ .ok () := by
  have hno : ¬ IntOutOfRange [3, 2] (.int (-1)) := by
    rintro ⟨i, n, rest, hi, hs, h⟩
    simp only [Idx.int.injEq] at hi
    simp only [List.cons.injEq] at hs
    obtain ⟨rfl, -⟩ := hs
    subst hi
    omega
  have hfit : PartialFits [3, 2] (.int (-1)) [2] := ⟨3, [2], rfl, by decide, by decide, rfl⟩
  have hnfit : ¬ PartialFits [3, 2] (.int (-1)) [3] := by
    rintro ⟨n, rest, hs, -, -, hb⟩
    simp only [List.cons.injEq] at hs
    obtain ⟨-, rfl⟩ := hs
    simp at hb
  refine ⟨hfit, hno, ⟨5, 3, [], rfl, rfl, by decide⟩, ⟨5, [], 2, rfl, by decide, rfl⟩,
    (partial_ctor_rejects_iff_partial _ _ _ hno).2 hfit, hnfit,
    fun h => hnfit ((partial_ctor_rejects_iff_partial _ _ _ hno).1 h)⟩

/-- rank-0 corner cases of the two checks: a scalar bijection rejects a size-1 vector and vice versa; a scalar-event
distribution takes every x as batch; a scalar condition shape `()` with batched conditions broadcasts -/
theorem rank0_audit_instances :
    wrapperCheck [] none [1] none = .error .valueError ∧ wrapperCheck [1] none [] none = .error .valueError ∧
    wrapperCheck [] (some []) [] (some [1]) = .error .valueError ∧ wrapperCheck [] (some []) [] (some []) = .ok () ∧
    distCheck [] none [4, 1] none = .ok [4, 1] ∧
    distCheck [] (some []) [4, 1] (some [5]) = .ok [4, 5] ∧
    distCheck [] (some []) [4] (some [5]) = .error .valueError ∧
    distCheck [3] (some []) [3] (some [5]) = .ok [5] ∧
    distSampleCheck [] (some []) [7] (some [5]) = .ok [7, 5] := by decide

/-- the rejects-iff theorems used in the REJECT direction from the spec predicate alone -/
theorem ctor_rejects_audit_instance :
    (∀ r, concatenateCtor [[2, 3], [2]] [none, none] 1 ≠ .ok r) ∧
    (∀ r, stackCtor [[3], [1]] [none, none] 0 ≠ .ok r) ∧
    (∀ r, GenCtors.Stack.init [⟨[3], some []⟩, ⟨[3], some [1]⟩] 0 ≠ .ok r) := by
  refine ⟨(concatenate_ctor_rejects_iff _ _ _).2 ?_, (stack_ctor_rejects_iff _ _ _).2 ?_,
    (gen_stack_ctor_rejects_iff _ _).2 ?_⟩
  · rintro ⟨⟨s0, rest, hs, -, -, h⟩, -⟩
    simp only [List.cons.injEq] at hs
    obtain ⟨rfl, rfl⟩ := hs
    have := (h [2] (by simp)).1
    simp at this
  · rintro ⟨⟨s0, rest, hs, -, -, h⟩, -⟩
    simp only [List.cons.injEq] at hs
    obtain ⟨rfl, rfl⟩ := hs
    have := h [1] (by simp)
    simp at this
  · rintro ⟨-, -, h⟩
    have := h (some []) (by simp) (some [1]) (by simp)
    simp at this

/-- `gen_vmap_ctor_rejects_iff` from its right-hand side: conditional child (cond (2,)), broadcast parameters, axis_size 4,
condition mapped along axis −1 ⇒ accepted, shape (4,3), cond_shape (2,4) -/
theorem gen_vmap_ctor_audit_instance :
    (GenCtors.Vmap.init ⟨[3], some [2], []⟩ none (some 4) (some (-1))).bind
        (fun r => (GenCtors.Vmap.shape r.axis_size r.bijection).map (fun s => (s, r.cond_shape)))
      = .ok ([4, 3], some [2, 4]) :=
  (gen_vmap_ctor_rejects_iff _ _ _ _ _ _).2
    ⟨4, Or.inl ⟨rfl, rfl⟩, rfl, Or.inr ⟨[2], -1, 1, rfl, rfl, by decide, by decide⟩⟩

end C13
