import Flowjaxv.Props.C04
open Gen Set MeasureTheory
namespace C04

/-- `mass_preserved_1d` / `pushforward_density_1d`: `T x = 2x + 1` -/
theorem mass_preserved_1d_audit_instance (p : ℝ → ℝ) :
    ∫ y, p ((y - 1) / 2) * |(2 : ℝ)|⁻¹ = ∫ z, p z :=
  mass_preserved_1d (fun x => 2 * x + 1) (fun y => (y - 1) / 2) (fun _ => 2)
    (fun x => by simpa using ((hasDerivAt_id x).const_mul (2 : ℝ)).add_const (1 : ℝ))
    (fun _ => by norm_num) (fun x => by simp) (fun y => by simp; ring) p

/-- `mass_preserved_piecewise` with a genuine kink at `a = b = 0`: `T x = x` for `x ≤ 0`, `2x` for `x > 0` -/
theorem mass_preserved_piecewise_audit_instance (p : ℝ → ℝ) :
    ∫ y, p (if y ≤ 0 then y else y / 2) * |(if (if y ≤ 0 then y else y / 2) ≤ 0 then (1 : ℝ) else 2)|⁻¹ = ∫ z, p z := by
  refine mass_preserved_piecewise (fun x => if x ≤ 0 then x else 2 * x) (fun y => if y ≤ 0 then y else y / 2)
    (fun x => if x ≤ 0 then 1 else 2) (a := 0) (b := 0) le_rfl ?_ ?_ ?_ ?_ ?_ ?_ p
  · intro x hx
    have h1 : (if x ≤ 0 then (1 : ℝ) else 2) = 1 := if_pos hx.le
    rw [h1]
    refine (hasDerivWithinAt_id x (Iic 0)).congr (fun y hy => if_pos hy) (if_pos hx.le)
  · intro x hx
    have : x = 0 := le_antisymm hx.2 hx.1
    subst this
    rw [Icc_self]
    exact HasFDerivWithinAt.singleton
  · intro x hx
    have h1 : (if x ≤ 0 then (1 : ℝ) else 2) = 2 := if_neg (not_le.mpr hx)
    rw [h1]
    have h2 : HasDerivWithinAt (fun y : ℝ => 2 * y) 2 (Ici 0) x := by
      simpa using ((hasDerivAt_id x).const_mul (2 : ℝ)).hasDerivWithinAt
    refine h2.congr (fun y hy => ?_) (if_neg (not_le.mpr hx))
    rcases eq_or_lt_of_le (show (0 : ℝ) ≤ y from hy) with h | h
    · subst h; simp
    · exact if_neg (not_le.mpr h)
  · intro x; split <;> norm_num
  · intro x
    by_cases h : x ≤ 0
    · simp [h]
    · have h' : ¬ (2 * x ≤ 0) := by rw [not_le] at h ⊢; linarith
      simp [h, h']
  · intro y
    by_cases h : y ≤ 0
    · simp [h]
    · have h' : ¬ (y / 2 ≤ 0) := by rw [not_le] at h ⊢; linarith
      simp only [h, h', if_false]; ring

end C04
