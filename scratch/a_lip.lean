import Flowjaxv.Props.C01
open Gen Set Masks MasksPf Model

noncomputable def auditBnafL0 : BnafLayer ℝ :=
  { b0 := 1, b1 := 1, n := 2, weight := [[1, 5], [-3, 2]], bias := [0, 1], scaleRaw := [0, -1] }

theorem auditL0_ok : NetLawful.BnafOK 2 0 1 [auditBnafL0] none := by
  refine ⟨by norm_num, by decide, ?_, by simp⟩
  intro L hL
  simp only [List.mem_cons, List.not_mem_nil, or_false] at hL
  subst hL
  exact ⟨⟨⟨rfl, by intro row hrow; simp [auditBnafL0] at hrow; rcases hrow with rfl | rfl <;> rfl⟩, rfl, rfl⟩, rfl⟩


noncomputable def spA : ℝ := Real.log (1 + 1) * Real.log (1 + Real.exp 1) / √(Real.log (1 + Real.exp 1) * Real.log (1 + Real.exp 1))
noncomputable def spN : ℝ := √(3 * 3 + Real.log (1 + Real.exp 2) * Real.log (1 + Real.exp 2))
noncomputable def spC : ℝ := -(Real.log (1 + Real.exp (-1)) * 3) / spN
noncomputable def spD : ℝ := Real.log (1 + Real.exp (-1)) * Real.log (1 + Real.exp 2) / spN

theorem auditL0_form (act : ℝ → ℝ) (a b : ℝ) :
    bnafTransform act [auditBnafL0] none [a, b] [] = [spA * a, spC * a + spD * b + 1] := by
  have hm : blockTrilMask 1 1 2 0 = [[true, false], [true, true]] := by decide
  have hd : blockDiagMask 1 1 2 = [[true, false], [false, true]] := by decide
  simp only [spA, spC, spD, spN]
  simp [bnafTransform, bnafForward, BnafLayer.apply, linearApply, BnafLayer.unwrapW, BnafLayer.preNorm, auditBnafL0, hm, hd,
    whereMask, whereMat, Jnp.dot, Jnp.sum]

theorem spA_pos : 0 < spA := by
  have h1 : 0 < Real.log (1 + Real.exp 1) := Leaves.softplus_pos 1
  have h0 : 0 < Real.log (1 + 1) := Real.log_pos (by norm_num)
  unfold spA
  have : 0 < √(Real.log (1 + Real.exp 1) * Real.log (1 + Real.exp 1)) := Real.sqrt_pos.mpr (by positivity)
  positivity

theorem spD_pos : 0 < spD := by
  have h1 : 0 < Real.log (1 + Real.exp 2) := Leaves.softplus_pos 2
  have h0 : 0 < Real.log (1 + Real.exp (-1)) := Leaves.softplus_pos (-1)
  have : 0 < spN := Real.sqrt_pos.mpr (by positivity)
  unfold spD
  positivity

theorem auditL0_lip (act : ℝ → ℝ) :
    Bisection.LipTriangular (fun x => bnafTransform act [auditBnafL0] none x []) 2 (min spA spD) |spC| where
  m_pos := lt_min spA_pos spD_pos
  L_nonneg := abs_nonneg _
  length_eq := by
    intro x hx
    obtain ⟨a, b, rfl⟩ := List.length_eq_two.mp hx
    simp [auditL0_form]
  slope := by
    intro x i hx hi s t hst
    obtain ⟨a, b, rfl⟩ := List.length_eq_two.mp hx
    have hts : 0 ≤ t - s := sub_nonneg.mpr hst
    interval_cases i
    · simp only [List.set_cons_zero, auditL0_form, List.getD_cons_zero]
      nlinarith [min_le_left spA spD]
    · simp only [List.set_cons_succ, List.set_cons_zero, auditL0_form, List.getD_cons_succ, List.getD_cons_zero]
      nlinarith [min_le_right spA spD]
  cont := by
    intro x i hx hi
    obtain ⟨a, b, rfl⟩ := List.length_eq_two.mp hx
    interval_cases i <;> simp [auditL0_form] <;> fun_prop
  lip := by
    intro x x' i hx hx' hi he
    obtain ⟨a, b, rfl⟩ := List.length_eq_two.mp hx
    obtain ⟨a', b', rfl⟩ := List.length_eq_two.mp hx'
    interval_cases i
    · simp [auditL0_form] at he ⊢; rw [he]; simp
    · simp [auditL0_form] at he ⊢; rw [he]
      have : spC * a + spD * b' - (spC * a' + spD * b') = spC * (a - a') := by ring
      rw [this, abs_mul]

namespace C01
open Masks MasksPf Model

theorem bnaf_inverse_tolerance_audit_instance (act : ℝ → ℝ) :
    ∃ (max_iter : Int) (ε : ℝ) (fuel : ℕ) (out : List ℝ),
      autoregressiveBisection (bnafInvFn act [auditBnafL0] none [] (bnafTransform act [auditBnafL0] none [1, -2] []))
        (-10) 10 (1 / 1000) 2 max_iter fuel = some out ∧ out.length = 2 ∧
      ∀ i, i < 2 → |out.getD i 0 - ([1, -2] : List ℝ).getD i 0| ≤ ε * (1 + |spC| / min spA spD) ^ i := by
  set r : ℝ := (1 + |spC| / min spA spD) ^ 2 with hr
  obtain ⟨k, hk⟩ := pow_unbounded_of_one_lt (20 + r) (one_lt_two (α := ℝ))
  have hk' : 20 + r ≤ (2 : ℝ) ^ (k + 1) := by
    have : (2 : ℝ) ^ k ≤ 2 ^ (k + 1) := pow_le_pow_right₀ (by norm_num) (Nat.le_succ k)
    linarith
  have hargs : inverterArgsOk (-10 : ℝ) 10 (1 / 1000) (k : Int) = true :=
    (Bisection.inverterArgsOk_iff _ _ _ _).mpr ⟨by norm_num, by norm_num, by positivity⟩
  have hε : max (1 / 1000 : ℝ) ((10 - (-10) + 0 + 1 * (1 + |spC| / min spA spD) ^ 2) / 2 ^ ((k : Int).toNat + 1)) ≤ 1 := by
    refine max_le (by norm_num) ?_
    rw [Int.toNat_natCast, div_le_one (by positivity)]
    rw [← hr]; linarith
  obtain ⟨out, h1, h2, h3⟩ := bnaf_inverse_tolerance act auditL0_ok [] [1, -2] rfl (auditL0_lip act) (1 / 1000) (k : Int) hargs
    0 1 le_rfl (by intro i hi; interval_cases i <;> norm_num) hε
    (max (Nat.clog 2 (⌈(0 + 1 * (1 + |spC| / min spA spD) ^ 2) / (10 - (-10))⌉₊ + 1)) (k : Int).toNat)
    (le_max_left _ _) (le_max_right _ _)
  exact ⟨k, 1, _, out, h1, h2, h3⟩

end C01
#print axioms C01.bnaf_inverse_tolerance_audit_instance
