import Flowjaxv.Props.C05
open Gen Families
namespace C05
open EF

/-- two independent dimensions over `EF`: `Uniform([0,0],[1,3])` at `(1/2, 5)` — second coordinate outside — is exactly `−∞` -/
theorem uniform_2d_outside_ext :
    (lifted [uniformComp (EF.fin 0) (EF.fin 1), uniformComp (EF.fin 0) (EF.fin 3)]).logProb [EF.fin (1 / 2), EF.fin 5] () = EF.ninf := by
  have a1 := FamiliesEF.affine_invLd 0 (1 - 0) (by norm_num) (EF.fin (1 / 2))
  have a2 := FamiliesEF.affine_invLd 0 (3 - 0) (by norm_num) (EF.fin 5)
  simp only [lifted, uniformComp, stdVec, Transformed.toDist, Transformed.logProb, DistCore.toDist, Bij.elementwise,
    List.map_cons, List.map_nil, fin_sub]
  simp only [List.zipWith_cons_cons, List.zipWith_nil_left, a1, a2, FamiliesEF.affInv, FamiliesEF.uniformLp_fin, Jnp.sum,
    List.foldl_cons, List.foldl_nil]
  norm_num
  simp
end C05
