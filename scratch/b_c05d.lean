import Flowjaxv.Props.C05
open Gen Families ProbabilityTheory MeasureTheory
namespace C05
open Fw FamGenPf Vec

/-- WITNESS of a totalised guard: with THREE components and ONE weight the model's `zipWith` truncates and the mixture log-prob is
the FIRST component's alone, while `mixture_object_log_prob` / `gen_mixture_log_prob` (no length hypothesis) still "apply".
The real `VmapMixture(3 Normals, weights=[1.0])` is accepted and BROADCASTS the weight instead (total mass 3.0). -/
theorem mixture_length_mismatch_audit_witness (l0 l1 l2 w : ℝ) (hw : 0 < w) :
    mixtureLogProb [l0, l1, l2] [w] = l0 := by
  rw [mixture_density [w] (by simpa using hw) [l0, l1, l2]]
  simp [div_self hw.ne']

/-- `mvn_trained_log_prob`: hypotheses satisfiable (n = 2, raw diagonal of both signs, non-zero strictly-lower entry) -/
theorem mvn_trained_audit_instance : MvnPf.CholFactor 2 (Params.triangularOfRaw true [-1, 2] [[0, 0], [5, 0]]) :=
  (mvn_trained_log_prob [-1, 2] [[0, 0], [5, 0]]
    ⟨rfl, by intro r hr; simp at hr; rcases hr with rfl | rfl <;> rfl⟩ rfl (fun _ => 0) (fun _ => 0)).1

/-- the generated `Normal` constructor + accessors on the genuinely broadcasting pair of shapes `(3,)` × `(2, 1)` -/
theorem gen_normal_broadcast_audit_instance :
    ∃ d, GenFam.Normal.init (⟨[3], [10, 20, 30]⟩ : NArr ℝ) ⟨[2, 1], [1, 2]⟩ = some d ∧
      (GenFam.locScaleLoc d).data = [10, 20, 30, 10, 20, 30] ∧ (GenFam.locScaleScale d).data = [1, 1, 1, 2, 2, 2] := by
  obtain ⟨d, hd, _, _, h1, h2, _⟩ := gen_normal_accessor (⟨[3], [10, 20, 30]⟩ : NArr ℝ) ⟨[2, 1], [1, 2]⟩ (s := [2, 3])
    gen_broadcast_instance.1 (by
      intro σ hσ
      rw [gen_broadcast_instance.2.2] at hσ
      simp at hσ
      rcases hσ with rfl | rfl <;> norm_num)
  exact ⟨d, hd, by rw [h1]; exact gen_broadcast_instance.2.1, by rw [h2]; exact gen_broadcast_instance.2.2⟩

end C05
