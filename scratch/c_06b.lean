import Flowjaxv.Props.C06
open Vec
namespace C06
open Pw GenDist VectorizeGen

theorem hinj_audit_instance :
    ∀ (k : Nat × Nat × Nat) (n i j : Nat), i < n → j < n →
      (fun (k : Nat × Nat × Nat) n j => (k.1, n, j)) k n i = (fun (k : Nat × Nat × Nat) n j => (k.1, n, j)) k n j → i = j := by
  intro k n i j _ _ h
  simp only [Prod.mk.injEq] at h
  exact h.2.2

/-- `log_prob_accepts_iff` right-to-left and `batched_eq_elementwise_log_prob` on the accepted call: event shape `()`,
cond_shape `()` (both rank 0), x of batch shape (2,1), condition of batch shape (3,) — a size-1 axis stretched and a missing
axis — any `_log_prob`: the element at `[1,2]` is `_log_prob(x[1,0], condition[2])` -/
theorem log_prob_broadcast_audit_instance (lp : Nat → Nat → Nat) :
    ∃ out, logProbCond (X := Nat) (C := Nat) [] [] lp id ⟨[2, 1], fun i => flatIndex [2, 1] i⟩
        (some ⟨[3], fun i => 5 + flatIndex [3] i⟩) = .ok out ∧ out.loop = [2, 3] ∧ out.elem [1, 2] = lp 1 7
      ∧ out.elem [0, 1] = lp 0 6 := by
  obtain ⟨out, h⟩ := (log_prob_accepts_iff (X := Nat) (C := Nat) [] [] lp id ⟨[2, 1], fun i => flatIndex [2, 1] i⟩
    ⟨[3], fun i => 5 + flatIndex [3] i⟩).1.2 ⟨[2, 1], [3], [2, 3], rfl, rfl, by decide⟩
  obtain ⟨xb, cb, hx, hc, hb, hall⟩ := batched_eq_elementwise_log_prob [] [] lp id _ _ out h
  have hxb : xb = [2, 1] := by simpa using hx.symm
  have hcb : cb = [3] := by simpa using hc.symm
  subst hxb hcb
  have hl : out.loop = [2, 3] := by
    have : bcast2 [2, 1] [3] = some [2, 3] := by decide
    rw [this] at hb; exact (Option.some.inj hb).symm
  refine ⟨out, h, hl, ?_, ?_⟩
  · obtain ⟨-, -, u, hu, -, he⟩ := hall [1, 2] (by rw [hl]; decide)
    rw [logProbCond_eq [] [] [] [] lp id _ _ rfl rfl] at hu
    cases hu
    rw [← he]; rfl
  · obtain ⟨-, -, u, hu, -, he⟩ := hall [0, 1] (by rw [hl]; decide)
    rw [logProbCond_eq [] [] [] [] lp id _ _ rfl rfl] at hu
    cases hu
    rw [← he]; rfl

/-- `gen_keys_distinct` with its `hinj` discharged, on the world / distribution object of `gen_instance` -/
theorem gen_keys_distinct_audit_instance :
    let W : World Nat Nat (Nat × Nat × Nat) Nat := ⟨id, fun k n j => (k.1, n, j), fun _ => false, 0, id⟩
    let d : DistObj Nat Nat (Nat × Nat × Nat) Nat :=
      ⟨[], some [], fun x c => match c with | .elem c => 10 * x + c | .raw _ => 0, fun k _ => k.2.2, fun k _ => (k.2.2, 0)⟩
    ∃ keys, getSampleKeys W d (7, 0, 0) [2] (some (⟨[3, 1], fun _ => 0⟩ : Arr Nat)) = .ok keys ∧ keys.shape = [2, 3, 1, 2] ∧
      ∀ i j, ValidIdx [2, 3, 1] i → ValidIdx [2, 3, 1] j → keys.slice i = keys.slice j → i = j := by
  intro W d
  exact (gen_keys_distinct W hinj_audit_instance d (7, 0, 0) [2]).2 [] [3, 1] ⟨[3, 1], fun _ => 0⟩ rfl rfl

end C06
#print axioms C06.log_prob_broadcast_audit_instance
