import Flowjaxv.Props.C05
open Gen Families
namespace C05
open EF

theorem ef_aux_sub_self_ninf : (ninf - ninf : EF) = nan := rfl
theorem ef_aux_nan_le (x : EF) : ¬ (nan ≤ x) := by
  show ¬ EF.le nan x = true; cases x <;> simp [EF.le]
theorem ef_aux_exp_ninf : (Transc.exp ninf : EF) = fin 0 := rfl
theorem ef_aux_fin_le (a b : ℝ) : (fin a ≤ fin b) ↔ a ≤ b := by
  show EF.le (fin a) (fin b) = true ↔ _; simp [EF.le]

/-- every component outside its support (component log-probs `−∞`), any finite log-weights: the mixture's private
`_log_prob` is exactly `−∞` — the max-shift falls back to `0`, no `∞ − ∞` NaN reaches the result -/
theorem mixture_all_outside_ext (a b : ℝ) :
    logsumexp [EF.ninf + EF.fin a, EF.ninf + EF.fin b] = EF.ninf := by
  simp [logsumexp, listMax, Jnp.maximum, Jnp.sum, ef_aux_sub_self_ninf, ef_aux_nan_le, ef_aux_exp_ninf]

/-- one component outside (`−∞`), one inside with log-prob `l`: finite, `l + log-weight` -/
theorem mixture_one_outside_ext (a l b : ℝ) :
    logsumexp [EF.ninf + EF.fin a, EF.fin l + EF.fin b] = EF.fin (l + b) := by
  simp [logsumexp, listMax, Jnp.maximum, Jnp.sum, ef_aux_exp_ninf, ef_aux_fin_le, tlog_fin]



theorem ef_aux_fin_le' (a b : ℝ) : (fin a ≤ fin b) ↔ a ≤ b := by
  show EF.le (fin a) (fin b) = true ↔ _; simp [EF.le]

theorem logNormWeights_pair_ext (w1 w2 : ℝ) (h1 : 0 < w1) (h2 : 0 < w2) :
    logNormWeights [EF.fin w1, EF.fin w2] = (logNormWeights [w1, w2] : List ℝ).map EF.fin := by
  have e1 := tlog_fin h1
  have e2 := tlog_fin h2
  by_cases h : Real.log w1 < Real.log w2
  · simp [logNormWeights, logSoftmax, logsumexp, listMax, Jnp.maximum, Jnp.sum, e1, e2, h, ef_aux_fin_le']
    rw [tlog_fin (by positivity : (0 : ℝ) < Real.exp (Real.log w1 - Real.log w2) + 1)]
    simp
  · simp [logNormWeights, logSoftmax, logsumexp, listMax, Jnp.maximum, Jnp.sum, e1, e2, h, ef_aux_fin_le']
    rw [tlog_fin (by positivity : (0 : ℝ) < 1 + Real.exp (Real.log w2 - Real.log w1))]
    simp

/-- **a mixture of two components evaluated outside BOTH supports** (component `_log_prob`s `−∞`, e.g. two Uniforms), any positive
unnormalised weights: private `_log_prob` is exactly `−∞` (not NaN), and so is the public value -/
theorem mixture_outside_ext (w1 w2 : ℝ) (h1 : 0 < w1) (h2 : 0 < w2) :
    mixtureLogProb [EF.ninf, EF.ninf] [EF.fin w1, EF.fin w2] = EF.ninf ∧
    publicLp (mixtureLogProb [EF.ninf, EF.ninf] [EF.fin w1, EF.fin w2]) = EF.ninf := by
  have h : mixtureLogProb [EF.ninf, EF.ninf] [EF.fin w1, EF.fin w2] = EF.ninf := by
    unfold mixtureLogProb
    rw [logNormWeights_pair_ext w1 w2 h1 h2]
    obtain ⟨a, b, hab⟩ : ∃ a b : ℝ, (logNormWeights [w1, w2] : List ℝ) = [a, b] :=
      ⟨_, _, by simp only [logNormWeights, logSoftmax, List.map_cons, List.map_nil]; rfl⟩
    rw [hab]
    exact mixture_all_outside_ext a b
  exact ⟨h, by rw [h]; exact EF.publicLp_ninf⟩
end C05
