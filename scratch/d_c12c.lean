import Flowjaxv.Props.C12
open PyTree
namespace C12
section Audit
def auditBij : Nat → Bij Rat Unit Rat :=
  fun _ => ⟨fun x _ => -x, fun y _ => -y, fun x _ => (-x, 0), fun y _ => (-y, 0)⟩
/-- AUDIT (encoding trap in the lifting `genWrapFn`, Model/WrapGen.lean): the file's own BNAF instance writes `Where(tril_mask, W, 0)` with the
scalar `if_false` as a NON-array leaf `.static 0` (`bnafInner`).  On that shape the generated-body lifting returns the EMPTY array (all of `W`
is dropped), because `Tree.arrOf (.static _) = .base []`; the scalar must be encoded as the array leaf `.base [0]` to get the masked weight.
`WrapFree` / `SkUniform` (the only properties proved of `genWrapFn` for all inputs) cannot see this; the file's BNAF instances use the symbolic
`symF`, never `genWrapFn`. -/
theorem genWrapFn_static_if_false_audit :
    unwrap (genWrapFn auditBij fun _ cs => .node cs)
      (.wrap .whereK 4 [] [.arr 11 false (.base [1, 0, 1, 1]), .arr 12 true (.base [5, -3, 2, 7]), .static 0])
      = .arr 12 true (.base []) ∧
    unwrap (genWrapFn auditBij fun _ cs => .node cs)
      (.wrap .whereK 4 [] [.arr 11 false (.base [1, 0, 1, 1]), .arr 12 true (.base [5, -3, 2, 7]), .arr 13 true (.base [0])])
      = .arr 12 true (.base [5, 0, 2, 7]) := ⟨rfl, rfl⟩
end Audit
end C12
