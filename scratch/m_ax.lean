import Flowjaxv.Props.C07
import Flowjaxv.Props.C14
import Flowjaxv.Props.C15
import Flowjaxv.Props.C16
import Flowjaxv.Props.C17
import Flowjaxv.Props.C18
#print axioms C07.rqs_audit_instance
#print axioms C07.rqs_init_audit_instance
#print axioms C07.planar_audit_instance
#print axioms C07.gen_triangular_init_audit_instance
#print axioms C14.every_method_audit_instance
#print axioms C15.gen_run_main_audit_instance
#print axioms C16.fit_stops_audit_instance
#print axioms C16.vi_best_audit_instance
#print axioms C17.gen_hyps_audit_instance
#print axioms C18.maf_audit_instance
#print axioms C18.maf_spline_audit_instance
#print axioms C18.where_guard_audit_instance
#print axioms C18.gradFinite_audit_negative_control
