import Flowjaxv.Props.C05
open Gen Families ProbabilityTheory MeasureTheory
namespace C05

/-- over `ℝ` the model's Uniform log-prob OUTSIDE the support is the in-support value (`Real.log 0 = 0`): the `ℝ` statements say
nothing outside the support; only the `EF` statements do -/
theorem uniform_real_outside_audit_witness (a b x : ℝ) (h : a < b) (hx : x < a ∨ b < x) :
    (uniform a b).logProb x () = -Real.log (b - a) := by
  rw [uniform_outside_branch a b x h hx]
  show Real.log 0 - Real.log (b - a) = _
  simp

/-- the covariance round trip stated with the trusted Cholesky specification as an explicit hypothesis: if
`chol(Σ)·chol(Σ)ᵀ = Σ` then `.covariance` returns `Σ` -/
theorem mvn_covariance_roundtrip_audit (cholesky : List (List ℝ) → List (List ℝ)) (loc : List ℝ) (cov : List (List ℝ)) {n : ℕ}
    (h : MvnPf.CholFactor n (cholesky cov)) (hl : loc.length = n)
    (hspec : TriPf.toMat n (cholesky cov) * (TriPf.toMat n (cholesky cov)).transpose = TriPf.toMat n cov) :
    ∃ c, Families.mvnCovariance loc (cholesky cov) = some c ∧ TriPf.toMat n c = TriPf.toMat n cov := by
  obtain ⟨c, h1, _, h3⟩ := mvn_accessor_covariance h hl _ hspec
  exact ⟨c, h1, h3⟩

theorem mvn_covariance_roundtrip_audit_instance :
    ∃ c, Families.mvnCovariance [1, -1] [[2, 0], [1, 3]] = some c ∧ TriPf.toMat 2 c = TriPf.toMat 2 [[4, 2], [2, 10]] := by
  refine mvn_covariance_roundtrip_audit (fun _ => [[2, 0], [1, 3]]) [1, -1] [[4, 2], [2, 10]] cholFactor_instance rfl ?_
  rw [mvn_covariance_instance]
  ext i j
  fin_cases i <;> fin_cases j <;> simp [TriPf.toMat, TriPf.entry]

end C05
