import Flowjaxv.Props.C04
open Gen Set MeasureTheory Masks MasksPf Flows FlowsPf
namespace C04

/-- conditional planar: weight block `(1, c₀)` depends on the condition and never vanishes -/
theorem planar_conditional_audit_instance (c : List ℝ) :
    Mass.InvJacN (Gen.Invert.mk (Bij.dep fun c' : List ℝ =>
      (PlanarMass.tanhBij 2 (Planar.getPlanar 2 [1, c'.headD 0, 0, 3, c'.headD 0]) : Bij (Fin 2 → ℝ) (List ℝ) ℝ))).toBij c ∧
    Mass.FwdJacN (Bij.dep fun c' : List ℝ =>
      (PlanarMass.tanhBij 2 (Planar.getPlanar 2 [1, c'.headD 0, 0, 3, c'.headD 0]) : Bij (Fin 2 → ℝ) (List ℝ) ℝ)) c := by
  refine planar_conditional_layer (n := 2) (fun c' : List ℝ => [1, c'.headD 0, 0, 3, c'.headD 0]) (fun c' => ⟨rfl, ?_⟩) c
  have : (1 : ℝ) + c'.headD 0 * c'.headD 0 ≠ 0 := by nlinarith [mul_self_nonneg (c'.headD 0)]
  simpa [ParamsPf.jdot_eq] using this

/-- d-dimensional sampler law: hypotheses jointly satisfiable -/
theorem architecture_sample_law_audit_instance (c : List ℝ) :
    Measure.map (fun k => (nestTransformed (Mass.stdNormalN 2 (C := List ℝ) (fun k _ => k))
      [(Gen.Invert.mk (NetMass.liftBij 2 (mafBij NetMass.mafTanhExample
          (NetLogDet.affineFamily (fun ps => nth ps 0 + 1 / 2) (fun ps => (Transc.softplus (nth ps 1 + -1) : ℝ)))))).toBij,
       NetMass.liftBij 2 PermMass.flipBij,
       (Gen.Invert.mk (BnafMass.bnafBij (fun z => LeakyTanh.transform_and_log_det (LeakyTanh.init (3 : ℝ)) z)
          (LeakyTanh.transform (LeakyTanh.init 3)) 2 1 bnafExample none)).toBij]).sample k c)
      (volume.withDensity fun z => ENNReal.ofReal (Real.exp ((Mass.stdNormalN 2 (C := List ℝ) (K := Fin 2 → ℝ) (fun k _ => k)).logProb z c)))
    = volume.withDensity fun y => ENNReal.ofReal (Real.exp ((nestTransformed (Mass.stdNormalN 2 (C := List ℝ) (fun k _ => k))
      [(Gen.Invert.mk (NetMass.liftBij 2 (mafBij NetMass.mafTanhExample
          (NetLogDet.affineFamily (fun ps => nth ps 0 + 1 / 2) (fun ps => (Transc.softplus (nth ps 1 + -1) : ℝ)))))).toBij,
       NetMass.liftBij 2 PermMass.flipBij,
       (Gen.Invert.mk (BnafMass.bnafBij (fun z => LeakyTanh.transform_and_log_det (LeakyTanh.init (3 : ℝ)) z)
          (LeakyTanh.transform (LeakyTanh.init 3)) 2 1 bnafExample none)).toBij]).logProb y c)) := by
  refine flowNd_architecture_stack_sample_law _ 2 _ c _ ?_ measurable_id Measure.map_id
  intro b hb
  simp only [List.mem_cons, List.not_mem_nil, or_false] at hb
  rcases hb with rfl | rfl | rfl
  · exact Or.inl (maf_affine_instance c).2
  · exact Or.inr (Or.inr (Or.inr (Or.inr (Or.inl rfl))))
  · exact Or.inr (Or.inr (Or.inl bnaf_instance))

/-- default relu / spline layers: sampler law hypotheses jointly satisfiable -/
theorem spline_sample_law_audit_instance (c : List ℝ) :
    Measure.map (fun k => (nestTransformed (Mass.stdNormalN 2 (C := List ℝ) (fun k _ => k))
      [(Gen.Invert.mk (NetMass.liftBij 2 (mafBij mafSplineExample
          (Flows.rqsFamily splineCfgExample splineInitExample)))).toBij,
       NetMass.liftBij 2 (couplingBij 1 (mlpForward (fun z : ℝ => max z 0) couplingReluExample)
          (NetLogDet.affineFamily (fun ps => nth ps 0 + 0) (fun ps => (Transc.softplus (nth ps 1 + 1) : ℝ))))]).sample k c)
      (volume.withDensity fun z => ENNReal.ofReal (Real.exp ((Mass.stdNormalN 2 (C := List ℝ) (K := Fin 2 → ℝ) (fun k _ => k)).logProb z c)))
    = volume.withDensity fun y => ENNReal.ofReal (Real.exp ((nestTransformed (Mass.stdNormalN 2 (C := List ℝ) (fun k _ => k))
      [(Gen.Invert.mk (NetMass.liftBij 2 (mafBij mafSplineExample
          (Flows.rqsFamily splineCfgExample splineInitExample)))).toBij,
       NetMass.liftBij 2 (couplingBij 1 (mlpForward (fun z : ℝ => max z 0) couplingReluExample)
          (NetLogDet.affineFamily (fun ps => nth ps 0 + 0) (fun ps => (Transc.softplus (nth ps 1 + 1) : ℝ))))]).logProb y c)) := by
  refine flowNd_layerOK_stack_sample_law _ 2 _ c _ ?_ measurable_id Measure.map_id
  intro b hb
  simp only [List.mem_cons, List.not_mem_nil, or_false] at hb
  rcases hb with rfl | rfl
  · exact (maf_spline_layer mafSplineExample mafSplineExample_wellShaped relu_continuous splineCfgExample_ok c).2
  · exact (coupling_relu_layer 1 2 2 (by norm_num) couplingReluExample 0 1 c couplingReluExample_length).1

/-- tri-spline sampler law -/
theorem tri_spline_sample_law_audit_instance (c : List ℝ) :
    Measure.map (fun k => (Transformed.mk (Mass.stdNormalN 2 (C := List ℝ) (fun k _ => k))
        (NetMass.liftBij 2 (triSplineFlowBij 2 3 (fun _ => (triSplineNet, [])) 3 true))).toDist.sample k c)
      (volume.withDensity fun z => ENNReal.ofReal (Real.exp ((Mass.stdNormalN 2 (C := List ℝ) (K := Fin 2 → ℝ) (fun k _ => k)).logProb z c)))
    = volume.withDensity fun y => ENNReal.ofReal (Real.exp ((Transformed.mk (Mass.stdNormalN 2 (C := List ℝ) (fun k _ => k))
        (NetMass.liftBij 2 (triSplineFlowBij 2 3 (fun _ => (triSplineNet, [])) 3 true))).toDist.logProb y c)) :=
  flowNd_tri_spline_sample_law _ 2 3 _ 3 true (fun _ _ => triSplineNet_ok) (fun _ _ _ h2 => absurd rfl h2) _ c
    measurable_id Measure.map_id

end C04
#print axioms C04.planar_conditional_audit_instance
#print axioms C04.tri_spline_sample_law_audit_instance
example : (1:ℕ) = 2 := rfl
