import Flowjaxv.Props.C01
open Gen Set
namespace C01
section Audit2
open Masks MasksPf BnafGenPf

/-- `gen_bnaf_inverse_of_exact`: `hy`, `hlen`, `hinv` are jointly satisfiable on the generated network of `bnafExample` (depth 1,
activation `z ↦ z + z`) — with the degenerate inverter that returns the known preimage; the conclusion is then that the generated
`inverse` returns it.  (Any honest inhabitant needs an inverter that already returns a preimage: the theorem adds only uniqueness.) -/
theorem gen_bnaf_inverse_of_exact_audit_instance :
    GenBnaf.inverse (netOf (fun z => (z + z, 0)) (fun z => z + z) 2 1 bnafExample (fun L _ => L.logJac) none (fun _ _ => [1, -4]))
      (bnafTransform (fun z => z + z) bnafExample none [1, -4] []) none = [1, -4] := by
  have hact : StrictMono (fun z : ℝ => z + z) := fun a b h => by simp only; linarith
  have hy := BnafGenPf.gen_bnaf_transform_eq_model (fun z => (z + z, 0)) (fun z : ℝ => z + z) 2 1 bnafExample (by simp [bnafExample])
    (fun L _ => L.logJac) none (fun _ _ => [1, -4]) [1, -4] none rfl
  exact gen_bnaf_inverse_of_exact _ _ hact NetLawful.bnafExample_ok _ _ none rfl [1, -4] _ rfl hy rfl hy

end Audit2
end C01
