import Flowjaxv.Props.C03
open Gen Set
namespace C03
section Audit
open Masks Flows FlowsPf

/-- a concrete (conditional) base: key `k : ℝ`, sample `(k, k + |c|, 2k)` in `ℝ³`, log-density `-(Σ x)` shifted by the condition's
length — neither constant nor condition-independent.  Its `sample_and_log_prob` is the generated default. -/
noncomputable def auditBase3 : VDist ℝ ℝ :=
  (DistCore.mk (fun k c => [k, k + (c.length : ℝ), 2 * k]) (fun x c => -(x.sum) + (c.length : ℝ))).toDist

noncomputable def auditBase2 : VDist ℝ ℝ :=
  (DistCore.mk (fun k c => [k, k + (c.length : ℝ)]) (fun x c => -(x.sum) + (c.length : ℝ))).toDist

theorem auditBase3_ok : auditBase3.Consistent ∧ ∀ k c, auditBase3.sample k c ∈ Vec 3 :=
  ⟨by unfold auditBase3; exact default_sample_and_log_prob_consistent _, fun _ _ => by simp [auditBase3, Vec, DistCore.toDist]⟩

theorem auditBase2_ok : auditBase2.Consistent ∧ ∀ k c, auditBase2.sample k c ∈ Vec 2 :=
  ⟨by unfold auditBase2; exact default_sample_and_log_prob_consistent _, fun _ _ => by simp [auditBase2, Vec, DistCore.toDist]⟩

/-- the pre-existing `coupling_flow_instance` still ASSUMES a consistent base sampling in `Vec 3`; here the whole hypothesis set
(`base.Consistent`, `hD`, `PermKeyOK`, transformer lawful + antisymmetric) is closed on concrete objects, both orientations. -/
theorem coupling_flow_audit_instance (invert : Bool) :
    (couplingFlow defaultTransformer 3 couplingKeys 2 invert auditBase3).Consistent :=
  coupling_flow_instance auditBase3 auditBase3_ok.1 auditBase3_ok.2 invert

/-- the other four factories: every hypothesis of `maf_/planar_/bnaf_/tri_spline_flow_change_of_variables` jointly satisfied by
concrete non-trivial objects (3-layer MAF, 2-layer planar with slope 1/2, 2-layer BNAF with an exact inverter, 3-layer
triangular-spline flow), over the concrete base, both orientations. -/
theorem flows_audit_instance (invert : Bool) :
    (mafFlow defaultTransformer 2 (fun _ => (MasksPf.mafExample, [])) 3 invert auditBase2).Consistent ∧
    (planarFlow 2 (1 / 2) (fun _ => (planarParams, [])) 2 invert auditBase2).Consistent ∧
    (bnafFlow 2 (fun z => z + z) (choiceInverter 2) (fun _ => (bnafNet, [])) 2 invert auditBase2).Consistent ∧
    (triSplineFlow 2 3 (fun _ => (triSplineNet, [])) 3 invert auditBase2).Consistent := by
  have hp : ∀ (n : ℕ), ∀ i < n, PermKeyOK 2 ([] : List ℕ) := fun _ _ _ _ h2 => absurd rfl h2
  have hact : StrictMono (fun z : ℝ => z + z) := fun a b h => by simp only; linarith
  refine ⟨?_, ?_, ?_, ?_⟩
  · exact (maf_flow_change_of_variables defaultTransformer defaultTransformer_lawful 2 (by norm_num) _ 3 invert
      (fun _ _ => ⟨mafExample_wellShaped, rfl⟩) (hp 3) auditBase2).2.2.2 auditBase2_ok.1 auditBase2_ok.2
  · exact (planar_flow_change_of_variables 2 (by norm_num) (by norm_num) _ 2 invert (fun _ _ => planarParams_ok) (hp 2)
      auditBase2).2.2.2 auditBase2_ok.1 auditBase2_ok.2
  · exact (bnaf_flow_change_of_variables 2 1 1 _ hact _ _ 2 invert (fun _ _ => ⟨NetLawful.bnafExample_ok, bnafNet_exact⟩) (hp 2)
      auditBase2).2.2.2 auditBase2_ok.1 auditBase2_ok.2
  · exact (tri_spline_flow_change_of_variables 2 3 _ 3 invert (fun _ _ => triSplineNet_ok) (hp 3) auditBase2).2.2.2
      auditBase2_ok.1 auditBase2_ok.2

/-- `nested_consistent` / `merge_transforms_sem` on a concrete 2-level nesting `Transformed(Transformed(base, Affine(1,-2)), LeakyTanh 3)`
over a concrete scalar base; and the typed single-step theorem on `Exp` (range `(0,∞)`, which `nested_consistent` does NOT cover). -/
noncomputable def auditBase1 : Distn ℝ Unit ℝ ℝ := (DistCore.mk (fun k _ => k) (fun x _ => -(x * x))).toDist

theorem nested_audit_instance :
    (nestTransformed auditBase1 [((Affine.mk 1 (-2) : Affine ℝ).toBij : Bij ℝ Unit ℝ), (LeakyTanh.init 3 : LeakyTanh ℝ).toBij]).Consistent ∧
    (mergeTransforms auditBase1 [((Affine.mk 1 (-2) : Affine ℝ).toBij : Bij ℝ Unit ℝ), (LeakyTanh.init 3 : LeakyTanh ℝ).toBij]).Consistent ∧
    (Transformed.mk auditBase1 (Exp.toBij : Bij ℝ Unit ℝ)).toDist.Consistent := by
  have h1 : (nestTransformed auditBase1 [((Affine.mk 1 (-2) : Affine ℝ).toBij : Bij ℝ Unit ℝ), (LeakyTanh.init 3 : LeakyTanh ℝ).toBij]).Consistent := by
    apply nested_consistent _ (default_sample_and_log_prob_consistent _)
    intro b hb
    simp only [List.mem_cons, List.mem_nil_iff, or_false] at hb
    rcases hb with rfl | rfl
    · exact ⟨Leaves.affine_lawful _ (by norm_num), LogDet.affine_ld_antisym _⟩
    · exact ⟨Leaves.leakytanh_lawful (Leaves.leaky_init_wf (by norm_num)), LogDet.leakytanh_ld_antisym (by norm_num)⟩
  refine ⟨h1, ?_, ?_⟩
  · intro k c
    have e := merge_transforms_sem auditBase1 [((Affine.mk 1 (-2) : Affine ℝ).toBij : Bij ℝ Unit ℝ), (LeakyTanh.init 3 : LeakyTanh ℝ).toBij]
    rw [← e.sampleLp, ← e.sample, ← e.logProb]
    exact h1 k c
  · exact sample_and_log_prob_consistent _ Leaves.exp_lawful LogDet.exp_ld_antisym (default_sample_and_log_prob_consistent _)
      (fun _ _ => trivial)

/-- `gen_scan_transformed_consistent`: `ChainAll LdAntisym`, `hc`, `hD` jointly satisfiable (Scan of two affine layers, one of negative scale). -/
theorem gen_scan_transformed_audit_instance :
    (Transformed.mk auditBase1
      (JaxTr.scanOfLayers [((Affine.mk 1 (-2) : Affine ℝ).toBij : Bij ℝ Unit ℝ), (Affine.mk (1/2) 4 : Affine ℝ).toBij]).toBij).toDist.Consistent :=
  gen_scan_transformed_consistent (D := univ) (E := univ) auditBase1 _
    (.cons (Leaves.affine_lawful _ (by norm_num)) (LogDet.affine_ld_antisym _)
      (.cons (Leaves.affine_lawful _ (by norm_num)) (LogDet.affine_ld_antisym _) (.nil _)))
    (default_sample_and_log_prob_consistent _) (fun _ _ => trivial)

end Audit
end C03
#print axioms C03.flows_audit_instance
#print axioms C03.nested_audit_instance
