import Flowjaxv.Props.C04
open Gen Set MeasureTheory Masks MasksPf Flows FlowsPf
namespace C04

noncomputable def triSplineNet3Audit : TriSplineNet ℝ :=
  ⟨[Rqs.exampleSpline, Rqs.exampleSpline, Rqs.exampleSpline],
   ⟨[[1, 0, 0], [1 / 2, 2, 0], [-1, 1 / 3, -3]], [0, 1, -1], true⟩, some [[1], [-2], [0]]⟩

theorem triSplineNet3Audit_ok : TriSplineOK 3 3 triSplineNet3Audit := by
  refine ⟨by norm_num, rfl, ?_, ?_, ?_⟩
  · intro s hs
    simp only [triSplineNet3Audit, List.mem_cons, List.not_mem_nil, or_false, or_self] at hs
    subst hs; exact Rqs.rqsWF_instance
  · refine ⟨rfl, ?_⟩
    simp only [triSplineNet3Audit, if_true]
    refine ⟨⟨rfl, by intro r hr; simp at hr; rcases hr with rfl | rfl | rfl <;> rfl⟩, ?_, ?_⟩
    · intro i j hij hj
      have : (i = 0 ∧ j = 1) ∨ (i = 0 ∧ j = 2) ∨ (i = 1 ∧ j = 2) := by omega
      rcases this with ⟨rfl, rfl⟩ | ⟨rfl, rfl⟩ | ⟨rfl, rfl⟩ <;> simp [TriPf.entry]
    · intro i hi
      have : i = 0 ∨ i = 1 ∨ i = 2 := by omega
      rcases this with rfl | rfl | rfl <;> simp [TriPf.entry]
  · intro W hW
    simp only [triSplineNet3Audit, Option.some.injEq] at hW
    subst hW; rfl

theorem permKey3Audit_ok : PermKeyOK 3 [2, 0, 1] := by
  intro _ _; decide

/-- dim 3: the `Permute` branch of `_add_default_permute` (a genuine 3-cycle) is exercised; two layers, `invert = true` and `false` -/
theorem tri_spline_flow_dim3_audit_instance {K : Type} (smp : K → List ℝ → Fin 3 → ℝ) (c : List ℝ) (invert : Bool) :
    ∫ y, Real.exp ((Transformed.mk (Mass.stdNormalN 3 smp)
      (NetMass.liftBij 3 (triSplineFlowBij 3 3 (fun _ => (triSplineNet3Audit, [2, 0, 1])) 2 invert))).toDist.logProb y c) = 1 :=
  flowNd_tri_spline_normalised 3 3 _ 2 invert (fun _ _ => triSplineNet3Audit_ok) (fun _ _ => permKey3Audit_ok) _ c
      (Mass.stdNormalN_normalised 3 smp c)

/-- `IsFlowLayer` through the `Permute` disjunct, dim 3 -/
theorem permute_isFlowLayer_audit_instance :
    FlowLayers.IsFlowLayer 3 (NetMass.liftBij 3 (PermMass.permuteBij [2, 0, 1])) :=
  Or.inr (Or.inr (Or.inr (Or.inr (Or.inr (Or.inr (Or.inl ⟨[2, 0, 1], rfl, (PermModel.valid_iff _).mpr (by decide), Or.inl rfl⟩))))))

/-- generated TriangularAffine from raw parameters, n = 2, upper triangle -/
theorem triangular_affine_gen_audit_instance (c : List ℝ) :
    NetMass.VLayer 2 (TriGen.toBij (TriGen.unwrap (TriGen.ofRaw false [-1, 2] [[0, -3], [5, 0]] [1, -1])) : Bij (List ℝ) (List ℝ) ℝ) c :=
  triangular_affine_gen_layer false [-1, 2] [[0, -3], [5, 0]] [1, -1]
    ⟨rfl, by intro r hr; simp at hr; rcases hr with rfl | rfl <;> rfl⟩ rfl rfl c

end C04
