import Flowjaxv.Props.C18
open Ad EF AdT GenAst AdK
namespace C18
section Audit
open AdN AdS AdX Ad.Net

/-- `maf_grad_finite`'s hypotheses (`hnet`, `hx`) discharged for a concrete relu conditioner (same network as `coupling_instance`);
no instance of the masked-autoregressive theorem existed -/
theorem maf_audit_instance :
    GradFinite (envVecs [[0.3, -1.2], [0], [0], [2, -3], [0.5, 0.25]])
      (autoreg (mlp Prim.relu [[(Vec.ofVec 1 1, Expr.get 2 (fun _ => 0))]]
          [(Vec.ofVec 3 1, Expr.get 4 (fun _ => 0)), ([Expr.get 3 (fun _ => 1)], Expr.get 4 (fun _ => 1))])
        (affineTld (Expr.const (fin 0.01)) · · (Expr.const (fin 0)) (Expr.const (fin 0.5)) ·) (Vec.ofVec 0 2)).2 := by
  refine (maf_grad_finite (by norm_num) (fun xs hxs => mlp_vsafe relu_total ?_ ?_ hxs) (vsafeVec_ofVec _ 0 2)).2
  · intro L hL r hr
    simp only [List.mem_singleton] at hL; subst hL
    simp only [List.mem_singleton] at hr; subst hr
    exact ⟨vsafeVec_ofVec _ 1 1, vsafe_param _ _ _⟩
  · intro r hr
    simp only [List.mem_cons, List.not_mem_nil, or_false] at hr
    rcases hr with rfl | rfl
    · exact ⟨vsafeVec_ofVec _ 3 1, vsafe_param _ _ _⟩
    · exact ⟨fun e he => by simp only [List.mem_singleton] at he; subst he; exact vsafe_param _ _ _, vsafe_param _ _ _⟩

/-- `maf_spline_grad_finite`'s hypothesis set discharged (K = 2, input on the interval's lower end) -/
theorem maf_spline_audit_instance :
    GradFiniteX (envVecs [[0.3, -2], [], [0], [0], [2, -3, 0.5, 1, 0, 0, 0, 0], [0.5, 0.25, 0, 0, 0, 0, 0, 0]])
      (autoregV 8 (mlp Prim.relu [[(Vec.ofVec 2 1, Expr.get 3 (fun _ => 0))]]
          ((List.range 8).map (fun i => ([Expr.get 4 (fun _ => Int.ofNat i)], Expr.get 5 (fun _ => Int.ofNat i)))))
        (splineTld { K := 2, lo := fin (-2), hi := fin 2, adj := fin 0.01, md := fin 0.001, init := [0, 0, 0, 0, 0.5, 0.5, 0.5, 0.5].map fin })
        (Vec.ofVec 0 2) []).2 := by
  refine (maf_spline_grad_finite (K := 2) (lo := -2) (hi := 2) (adj := 0.01) (md := 0.001) (inits := [0, 0, 0, 0, 0.5, 0.5, 0.5, 0.5])
    rfl (by norm_num) rfl rfl rfl rfl rfl (by norm_num) (by norm_num) (by norm_num)
    (fun xs hxs => mlp_vsafe relu_total ?_ ?_ hxs) (vsafeVec_ofVec _ 0 2) (fun e he => by simp at he)).2
  · intro L hL r hr
    simp only [List.mem_singleton] at hL; subst hL
    simp only [List.mem_singleton] at hr; subst hr
    exact ⟨vsafeVec_ofVec _ 2 1, vsafe_param _ _ _⟩
  · intro r hr
    obtain ⟨i, _, rfl⟩ := List.mem_map.mp hr
    exact ⟨fun e he => by simp only [List.mem_singleton] at he; subst he; exact vsafe_param _ _ _, vsafe_param _ _ _⟩

/-- `where_guard_sound`'s four hypotheses are jointly satisfiable in the interesting case: the guarded primitive is `log`, the
argument is `x = −1` (where `log` is NOT safe), the mask selects the other branch, the safe constant is 1 -/
theorem where_guard_audit_instance :
    GradFinite (envOf (-1) [] [])
      (Expr.sel (fun _ => true) (Expr.const (fin 0)) (Expr.prim Prim.log (Expr.sel (fun _ => true) (Expr.const (fin 1)) (Expr.var 0)))) :=
  safe_gradFinite (where_guard_sound (fun _ => true) Prim.log 1 (Expr.var 0) (Expr.const (fin 0))
    trivial trivial (by show (0 : ℝ) < 1; norm_num) (fun h => by cases h))
end Audit
end C18
