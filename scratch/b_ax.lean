import Flowjaxv.Props.C05
#print axioms C05.uniform_log_prob_ext
#print axioms C05.mixture_sample_law
#print axioms C05.mvn_log_prob_textbook
