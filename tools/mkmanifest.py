"""Writes MANIFEST.json from the per-property registry below (kept in one place so the manifest is always valid)."""
import json, os, sys
ROOT = os.path.dirname(os.path.dirname(os.path.abspath(__file__)))
BASE = json.load(open("/root/.vp/BASELINE.json"))["cmd"] if os.path.exists("/root/.vp/BASELINE.json") else "cd /repo && /venv/bin/python -m pytest -q"

# property -> (technique, level text, level note, design ref)
CLAIMED = {}
NOT_YET = {}

def claim(pid, technique, text, note, ref):
    CLAIMED[pid] = (technique, text, note, ref)

exec(open(os.path.join(ROOT, "tools", "claims.py")).read())
for _p in list(NOT_YET):
    CLAIMED.pop(_p, None)  # a property listed as not-yet is never claimed

checks = []
for pid in sorted(CLAIMED):
    technique, text, note, ref = CLAIMED[pid]
    checks.append({
        "property_id": pid,
        "quick_cmd": f"./check {pid} --tier quick",
        "thorough_cmd": f"./check {pid} --tier thorough",
        "evidence_file": f"evidence/{pid}.json",
        "replay_cmd_template": "./check --replay {path}",
        "engine": "lean4-proof+correspondence",
        "level_claimed": {"category": "proof", "text": text, "design_ref": ref},
        "level_note": note,
        "technique": technique,
    })
man = {
    "version": 1,
    "setup_cmd": "./check --setup",
    "hooks": {
        "guard": "FLOWJAX_VERIF",
        "enable": "no source hooks: checks observe through public extension points (loss_fn, optimizer) and jax.disable_jit(); FLOWJAX_VERIF=1 is exported by ./check for uniformity",
        "baseline_off_cmd": BASE.replace("--junitxml=<file>", "").strip(),
        "source_commits": [],
        "add_only": True,
    },
    "engines": [{
        "name": "lean4-proof+correspondence",
        "path": "lean/ (Lean 4 project, no Mathlib require), tools/py2lean (translator), tools/props (correspondence + witness search), tools/check.py",
        "serves_properties": sorted(CLAIMED),
        "kind_free_text": "theorems in Lean 4 about a model regenerated from /repo by an AST translator (kernels) or hand-written and tied by differential correspondence (JAX-semantics parts); kernel-checked, axioms audited each run",
    }],
    "checks": checks,
    "not_applicable": [{"property_id": p, "reason": r} for p, r in sorted(NOT_YET.items())],
    "notes": "Every check: regenerate Gen/*.lean from /repo -> lake build Props.Cxx (each theorem an obligation) -> #print axioms audit -> model/implementation correspondence -> on any broken tie, witness search on the real code. See DESIGN.md.",
}
json.dump(man, open(os.path.join(ROOT, "MANIFEST.json"), "w"), indent=1)
print("claimed", sorted(CLAIMED), "not yet", sorted(NOT_YET))
