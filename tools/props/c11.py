"""C11 — constrained parameters stay valid for every unconstrained value.

Tie to the code:
  * the numeric kernels are REGENERATED from /repo (Gen/Params.lean: `_real_to_increasing_on_interval`, the spline-derivative
    lambda and its initial value, `_UnconditionalPlanar.get_act_scale`, one row of `WeightNormalization.unwrap` and its
    `scale_init`, the mixture's `log_softmax` lambda and `log(weights)`; Gen/Leaves.lean: SoftPlus/Loc kernels; Gen/Combinators.lean:
    Chain) and the theorems of Props/C11.lean are about those definitions;
  * the wrappers' `.unwrap()` bodies are REGENERATED too (Gen/Wrappers.lean, typing sheet targets_wrappers.py, translator py2nd.py):
    matrix-level and rank-3 `WeightNormalization.unwrap`, `Where.unwrap`, `BijectionReparam.__init__` / `unwrap`; they are run against the
    real `unwrap` on matrices / batches of many shapes by `tools/props/wrapgen.py` (shared with C12);
  * the hand-written glue (Model/Params.lean: BijectionReparam, how each constructor composes the kernels, `_to_triangular`, the
    `eqx.error_if` predicates) is run here at Float against the REAL objects: every raw array is perturbed inside the ±50 box and read
    back through `unwrap` / the public accessors; constructor round trips over magnitudes 1e-6..1e6; constructor calls at the edge of
    validity (model says "rejects"  <=>  the real constructor raises).

`search` is the property's own oracle on the real code only (float64 and float32).
"""
from __future__ import annotations

import math

import equinox as eqx
import jax
import jax.numpy as jnp
import jax.random as jr
import numpy as np

import flowjax.bijections as B
import flowjax.distributions as D
from flowjax.bijections.planar import _UnconditionalPlanar
from flowjax.bijections.rational_quadratic_spline import _real_to_increasing_on_interval
from flowjax.flows import _affine_with_min_scale
from flowjax.wrappers import WeightNormalization, unwrap

import vlib
from vlib import b2f, b2fs, f2b, fs2b

ID = "C11"
GEN = ["Params", "Leaves", "Combinators", "Wrappers", "FamiliesGen", "TriangularGen", "PermGen"]
RULE = ("real flowjax objects (Affine, Scale, Normal, StudentT, TriangularAffine both orientations, RationalQuadraticSpline over "
        "knots/interval/softmax_adjust/min_derivative, _UnconditionalPlanar and Planar, VmapMixture, WeightNormalization built directly, "
        "_affine_with_min_scale) whose raw trainable arrays are overwritten with values from the ±50 box (all-(+50), all-(-50), "
        "alternating and one-hot corners, mixed corner/random, uniform random, small) and read back through unwrap / public accessors, "
        "compared element by element with the generated kernels + Model/Params.lean glue run at Float (rtol 1e-8, atol 1e-11: the Float "
        "model's softplus is log(1+exp) with absolute accuracy 1e-16, so softplus values below 1e-11 are compared absolutely); constructor "
        "round trips (Normal scale, Exponential rate, StudentT df, MultivariateNormal covariance via its Cholesky factor, Uniform bounds, "
        "mixture weights) over magnitudes 1e-6..1e6; constructor calls at the edge of validity (0, -0.0, ±1e-6, -1, arrays with one bad "
        "entry, maxval==minval and one ulp either side, repeated / out-of-range / negative permutation entries, 2-d permutations) where "
        "the model's guard predicate must equal 'the real constructor raises'.  A case is non-trivial when the raw value differs from the "
        "initialisation (perturbation cases), the argument is not the default (round trips) or the argument is invalid/at the edge "
        "(guards); distinct = distinct (object kind, configuration, raw/argument vector) tuples.  Planar inputs exclude w = 0 and "
        "weight-norm rows exclude 0 (hypotheses of the theorems; the real code returns NaN there).")
TRUSTED = [
    "Lean 4.33 kernel; Mathlib v4.33; axioms propext, Classical.choice, Quot.sound",
    "py2lean translator + typing sheets tools/py2lean/targets_params.py, targets_leaves.py, targets_comb.py (validated by this correspondence)",
    "py2nd translator (nested-array broadcasting, keepdims reductions) + typing sheet targets_wrappers.py: scale of a WeightNormalization has the keepdims "
    "shape of the norms; bijection._vectorize.transform/inverse is the per-element transform/inverse; eqx.error_if returns its value when it does not raise "
    "(validated by tools/props/wrapgen.py on every run)",
    "Prelude/Jnp.lean specs of softmax/logSoftmax/cumsum/setItem/pad1/getItem/dot/sum (validated by this correspondence)",
    "Model/Params.lean: BijectionReparam, constructor composition, _to_triangular, error_if predicates (hand-written, validated here)",
    "jnp.linalg.cholesky returns a lower-triangular factor with positive diagonal and L Lᵀ = covariance (LAPACK, not modelled)",
    "eqx.error_if actually raising when its predicate holds is runtime behaviour (observed here, not proved)",
    "theorems are over ℝ: IEEE rounding / absorption / underflow is measured by the harness, not proved",
]
ASSUMPTIONS = [
    "planar_constraint, weightnorm_row_norm need w ≠ 0: at w = 0 exactly the real code divides 0/0 and returns NaN (get_act_scale, WeightNormalization.unwrap)",
    "knots_strictMono needs at least one knot: RationalQuadraticSpline(knots=0) raises ZeroDivisionError at construction",
    "KNOWN float findings inside the ±50 box (listed in known_findings.json, region keys): planar w·û rounds to <= -1 whenever the exact margin "
    "log(1+softplus(wᵀu)) is below the rounding error of the dot products (always for wᵀu < -36.7 f64 / -16.6 f32, where -1 + log(1 + softplus(·)) absorbs); "
    "spline knots collide (or the last interior knot lands an ulp above interval[1]) when softmax_adjust = 0 and the raw spread >= 36 (f64) / 16 (f32)",
    "float32 underflow inside the box (documented, not flagged): mixture weights exp(log_softmax) of raw log-weights spread >= 88 are exactly 0 in float32 (the sum is still 1)",
    "not in the property's rejection list, observed: Exponential(jnp.array(0.)) does not raise (scale = inf passes the finite-input guard); "
    "RationalQuadraticSpline(softmax_adjust < 0) raises only at unwrap; MultivariateNormal with a non-PD covariance does not raise",
]

TOL = dict(rtol=1e-8, atol=1e-11)
BOX = 50.0


# ------------------------------------------------------------------ inputs
def raw_vector(rng, n, style=None):
    """A raw parameter vector of length n inside the ±50 box."""
    style = style or rng.choice(["pos", "neg", "alt", "onehot", "onecold", "mixed", "uniform", "uniform", "small", "edge"])
    if style == "pos":
        return [BOX] * n
    if style == "neg":
        return [-BOX] * n
    if style == "alt":
        s = rng.choice([1, -1])
        return [s * BOX * (-1) ** i for i in range(n)]
    if style == "onehot":
        k = rng.randrange(n)
        return [BOX if i == k else -BOX for i in range(n)]
    if style == "onecold":
        k = rng.randrange(n)
        return [-BOX if i == k else BOX for i in range(n)]
    if style == "mixed":
        return [rng.choice([BOX, -BOX, 0.0, rng.uniform(-BOX, BOX)]) for _ in range(n)]
    if style == "small":
        return [rng.uniform(-2, 2) for _ in range(n)]
    if style == "edge":
        return [rng.choice([BOX, -BOX]) * (1 - rng.choice([0.0, 1e-12, 1e-3])) for _ in range(n)]
    return [rng.uniform(-BOX, BOX) for _ in range(n)]


def nonzero_vector(rng, n):
    while True:
        v = raw_vector(rng, n)
        if any(abs(x) >= 1e-3 for x in v):
            return v


def magnitude(rng):
    """positive value with magnitude 1e-6 .. 1e6, ends included"""
    r = rng.random()
    if r < 0.15:
        return 1e-6
    if r < 0.3:
        return 1e6
    return 10 ** rng.uniform(-6, 6)


def raises(fn):
    try:
        r = fn()
        for leaf in jax.tree_util.tree_leaves(r):
            if hasattr(leaf, "block_until_ready"):
                leaf.block_until_ready()
        return False
    except Exception:  # eqx.error_if surfaces as EquinoxRuntimeError / XlaRuntimeError / ValueError …: any exception is a rejection
        return True


def flat(x):
    return [float(v) for v in np.ravel(np.asarray(x))]


class Tasks:
    """(driver line, output format, wanted values, info) — run in one batch."""

    def __init__(self, c):
        self.c, self.items = c, []

    def add(self, name, line, fmt, want, nontrivial, sig, **info):
        self.items.append((name, line, fmt, want, info))
        self.c.case((name,) + tuple(sig), nontrivial, sample={"op": line[:160], "impl": want} if len(self.c.samples) < 12 and nontrivial and self.c.dist.get("s:" + name, 0) < 1 else None)
        self.c.count("s:" + name)
        self.c.count(name)

    def run(self):
        outs = vlib.run_model([it[1] for it in self.items])
        for (name, line, fmt, want, info), got in zip(self.items, outs):
            if got.startswith("ERR"):
                self.c.mismatch(name, op=line[:300], model=got, impl=want, **info)
                continue
            toks = got.split(" ")
            if len(toks) != len(fmt):
                self.c.mismatch(name, op=line[:300], model=got, impl=want, **info)
                continue
            ok, vals = True, []
            for t, f, w in zip(toks, fmt, want):
                if f == "B":
                    v = (t == "1")
                    ok = ok and (v == bool(w))
                elif f == "R":  # "REJ" or a float list
                    v = "REJ" if t == "REJ" else b2fs(t)
                    ok = ok and ((v == "REJ") == (w == "REJ")) and (v == "REJ" or vlib.allclose(v, w, **TOL))
                elif f == "F":
                    v = b2f(t)
                    ok = ok and (w is None or vlib.close(v, float(w), **TOL))  # None: output meaningless for a rejected argument
                else:
                    v = b2fs(t)
                    ok = ok and vlib.allclose(v, w, **TOL)
                vals.append(v)
            if not ok:
                self.c.mismatch(name, op=line[:300], model=vals, impl=want, **info)
        for k in [k for k in self.c.dist if k.startswith("s:")]:
            del self.c.dist[k]


# ------------------------------------------------------------------ correspondence
def corr(c, tier, rng):
    q = tier == "quick"
    T = Tasks(c)
    N = (lambda a, b: a if q else b)

    # ---- 1. SoftPlus-reparameterised positives under raw perturbation
    for it in range(N(40, 1200)):
        n = rng.choice([1, 2, 3, 5])
        raw = raw_vector(rng, n)
        kind = rng.choice(["Affine", "Scale", "Normal.scale", "StudentT.df", "StudentT.scale"])
        if kind == "Affine":
            o = eqx.tree_at(lambda t: t.scale.arr, B.Affine(jnp.zeros(n), jnp.ones(n)), jnp.asarray(raw))
            got = unwrap(o).scale
        elif kind == "Scale":
            o = eqx.tree_at(lambda t: t.scale.arr, B.Scale(jnp.ones(n)), jnp.asarray(raw))
            got = unwrap(o).scale
        elif kind == "Normal.scale":
            o = eqx.tree_at(lambda t: t.bijection.scale.arr, D.Normal(jnp.zeros(n), jnp.ones(n)), jnp.asarray(raw))
            got = o.scale
        elif kind == "StudentT.df":
            o = eqx.tree_at(lambda t: t.base_dist.df.arr, D.StudentT(jnp.full(n, 3.0)), jnp.asarray(raw))
            got = o.df
        else:
            o = eqx.tree_at(lambda t: t.bijection.scale.arr, D.StudentT(jnp.full(n, 3.0)), jnp.asarray(raw))
            got = o.scale
        for r, g in zip(raw, flat(got)):
            T.add("softplus-raw", f"par sp {f2b(r)}", "F", [g], True, (kind, r), kind=kind, raw=r)

    # ---- 2. TriangularAffine: raw diagonal + off-diagonal entries, both orientations
    for it in range(N(20, 600)):
        n = rng.choice([1, 2, 3, 4])
        lower = rng.random() < 0.5
        t = B.TriangularAffine(jnp.zeros(n), jnp.eye(n), lower=lower)
        raw = raw_vector(rng, n)
        arr = [[rng.choice([rng.uniform(-BOX, BOX), BOX, -BOX, 0.0]) for _ in range(n)] for _ in range(n)]
        t = eqx.tree_at(lambda t: (t.triangular.kwargs["diag"].arr, t.triangular.kwargs["arr"]), t, (jnp.asarray(raw), jnp.asarray(arr)))
        got = flat(unwrap(t).triangular)
        T.add("to-triangular", f"par tri {int(lower)} {n} {fs2b(raw)} {fs2b(sum(arr, []))}", "V", [got], True,
              (n, lower, tuple(raw), tuple(sum(arr, []))), n=n, lower=lower, raw=raw)

    # ---- 3. spline knots / derivatives
    ivals = [1, 2.0, (-1.0, 3.0), (0.5, 2.5), (-3.0, -1.0), (-1e-3, 1e-3), (-1e3, 2e3), 5]
    for it in range(N(50, 1800)):
        K = rng.choice([1, 2, 3, 5, 8, 16])
        iv = rng.choice(ivals)
        adj = rng.choice([1e-2, 1e-2, 0.0, 1.0, 5.0, 1e-6])
        dmin = rng.choice([1e-3, 1e-3, 0.0, 0.1, 0.9])
        s = B.RationalQuadraticSpline(knots=K, interval=iv, min_derivative=dmin, softmax_adjust=adj)
        lo, hi = (float(iv[0]), float(iv[1])) if isinstance(iv, tuple) else (-float(iv), float(iv))
        if it % 5 == 0:  # the initialisation itself
            rx, ry, rd = [0.0] * K, [0.0] * K, flat(s.derivatives.args[0])
            T.add("rqs-deriv-init", f"par derivinit {f2b(dmin)}", "F", [rd[0]], dmin != 1e-3, (dmin,), min_derivative=dmin)
            nontriv = False
        else:
            rx, ry, rd = raw_vector(rng, K), raw_vector(rng, K), raw_vector(rng, K + 2)
            s = eqx.tree_at(lambda t: (t.x_pos.args[0], t.y_pos.args[0], t.derivatives.args[0]), s,
                            (jnp.asarray(rx), jnp.asarray(ry), jnp.asarray(rd)))
            nontriv = True
        u = unwrap(s)
        info = dict(knots=K, interval=(lo, hi), softmax_adjust=adj, min_derivative=dmin)
        T.add("rqs-knots", f"par knots {fs2b(rx)} {f2b(lo)} {f2b(hi)} {f2b(adj)}", "V", [flat(u.x_pos)], nontriv, (K, lo, hi, adj, tuple(rx)), raw=rx, **info)
        T.add("rqs-knots", f"par knots {fs2b(ry)} {f2b(lo)} {f2b(hi)} {f2b(adj)}", "V", [flat(u.y_pos)], nontriv, (K, lo, hi, adj, tuple(ry)), raw=ry, **info)
        T.add("rqs-derivs", f"par derivs {f2b(dmin)} {fs2b(rd)}", "V", [flat(u.derivatives)], nontriv, (dmin, tuple(rd)), raw=rd, **info)

    # ---- 4. planar
    for it in range(N(40, 1500)):
        d = rng.choice([1, 2, 3, 5])
        w, uu, b = nonzero_vector(rng, d), raw_vector(rng, d), rng.uniform(-BOX, BOX)
        if it % 2 == 0:
            p = _UnconditionalPlanar(jnp.asarray(w), jnp.asarray(uu), jnp.asarray(b), rng.choice([None, 0.3]))
        else:
            pl = B.Planar(jr.key(it), dim=d, negative_slope=rng.choice([None, 0.1]))
            pl = eqx.tree_at(lambda t: t.params, pl, jnp.asarray(w + uu + [b]))
            p = pl.get_planar()
        T.add("planar-act-scale", f"par planar {fs2b(w)} {fs2b(uu)}", "V", [flat(p.get_act_scale())], True, (tuple(w), tuple(uu)), w=w, u=uu)

    # ---- 5. mixture weights
    for it in range(N(25, 900)):
        n = rng.choice([1, 2, 3, 6])
        m = D.VmapMixture(eqx.filter_vmap(D.Normal)(jnp.zeros(n)), jnp.ones(n))
        raw = raw_vector(rng, n)
        m = eqx.tree_at(lambda t: t.log_normalized_weights.args[0], m, jnp.asarray(raw))
        T.add("mixture-log-weights", f"par mixw {fs2b(raw)}", "V", [flat(unwrap(m).log_normalized_weights)], True, (tuple(raw),), raw=raw)

    # ---- 6. weight normalisation (built directly)
    for it in range(N(20, 750)):
        r_, c_ = rng.choice([1, 2, 3]), rng.choice([1, 2, 4])
        W0 = [[rng.uniform(0.5, 2) * rng.choice([-1, 1]) for _ in range(c_)] for _ in range(r_)]
        wn = WeightNormalization(jnp.asarray(W0))
        for i in range(r_):  # constructor: scale_init, its raw value, unwrapped scale
            T.add("weightnorm-init", f"par wninit {fs2b(W0[i])}", "FFF",
                  [1 / math.sqrt(sum(v * v for v in W0[i])), flat(wn.scale.arr)[i], flat(unwrap(wn.scale))[i]], True, (tuple(W0[i]),), row=W0[i])
        W = [nonzero_vector(rng, c_) for _ in range(r_)]
        raw = raw_vector(rng, r_)
        wn = eqx.tree_at(lambda t: (t.weight, t.scale.arr), wn, (jnp.asarray(W), jnp.asarray(raw).reshape(r_, 1)))
        got = np.asarray(unwrap(wn))
        for i in range(r_):
            T.add("weightnorm-row", f"par wnraw {fs2b(W[i])} {f2b(raw[i])}", "V", [flat(got[i])], True, (tuple(W[i]), raw[i]), row=W[i], raw=raw[i])

    # ---- 7. _affine_with_min_scale
    for it in range(N(16, 450)):
        ms = rng.choice([1e-2, 1e-2, 0.0, 0.5, 1e-6, 0.99])
        a = _affine_with_min_scale(ms)
        T.add("min-scale-init", f"par minscaleinit {f2b(ms)}", "FF", [float(a.scale.arr), float(unwrap(a).scale)], ms != 1e-2, (ms,), min_scale=ms)
        raw = raw_vector(rng, 1)[0]
        a = eqx.tree_at(lambda t: t.scale.arr, a, jnp.asarray(raw))
        T.add("min-scale", f"par minscale {f2b(ms)} {f2b(raw)}", "F", [float(unwrap(a).scale)], True, (ms, raw), min_scale=ms, raw=raw)

    # ---- 8. constructor round trips, magnitudes 1e-6 .. 1e6
    for it in range(N(30, 1200)):
        v = magnitude(rng)
        n_ = D.Normal(rng.uniform(-3, 3), v)
        T.add("ctor-normal-scale", f"par spinit {f2b(v)}", "BFF", [False, float(n_.bijection.scale.arr), float(n_.scale)], True, ("N", v), scale=v)
        st = D.StudentT(v)
        T.add("ctor-studentt-df", f"par spinit {f2b(v)}", "BFF", [False, float(st.base_dist.df.arr), float(st.df)], True, ("T", v), df=v)
        e = D.Exponential(v)
        T.add("ctor-exponential-rate", f"par exprate {f2b(v)}", "FF", [float(unwrap(e.bijection).scale), float(e.rate)], True, (v,), rate=v)
        lo = rng.choice([0.0, -v, v, rng.uniform(-5, 5)])
        hi = lo + magnitude(rng)
        if hi > lo:
            un = D.Uniform(lo, hi)
            T.add("ctor-uniform", f"par uniform {f2b(lo)} {f2b(hi)}", "BFF", [False, float(un.minval), float(un.maxval)], True, (lo, hi), lo=lo, hi=hi)
        k = rng.choice([1, 2, 3, 5])
        w = [magnitude(rng) for _ in range(k)]
        m = D.VmapMixture(eqx.filter_vmap(D.Normal)(jnp.zeros(k)), jnp.asarray(w))
        T.add("ctor-mixture-weights", f"par mixinit {fs2b(w)}", "VV", [flat(m.log_normalized_weights.args[0]), flat(unwrap(m).log_normalized_weights)], True, tuple(w), weights=w)
    for it in range(N(12, 360)):
        n = rng.choice([1, 2, 3, 4])
        A = np.asarray([[rng.uniform(-1, 1) for _ in range(n)] for _ in range(n)])
        sc = np.asarray([math.sqrt(magnitude(rng)) if it % 3 else 1.0 for _ in range(n)])
        cov = (A @ A.T + np.eye(n)) * np.outer(sc, sc)
        mvn = D.MultivariateNormal(jnp.zeros(n), jnp.asarray(cov))
        L = jnp.linalg.cholesky(jnp.asarray(cov))
        T.add("ctor-mvn-triangular", f"par triinit 1 {n} {fs2b(flat(L))}", "R", [flat(unwrap(mvn.bijection.triangular))], True, tuple(flat(cov)), n=n)

    # ---- 9. guards at the edge of validity: model predicate == "the real constructor raises"
    edge = [0.0, -0.0, -1e-6, 1e-6, -1.0, 1.0, -1e6, 1e6, 1e-30, -1e-30]
    for v in edge:
        for kind, fn in (("Normal", lambda v=v: D.Normal(0.0, v)), ("Affine", lambda v=v: B.Affine(0.0, v)), ("Scale", lambda v=v: B.Scale(v)),
                         ("Scale[arr]", lambda v=v: B.Scale(jnp.asarray([1.0, v])))):
            T.add("guard-scale", f"par spinit {f2b(v)}", "BFF", [raises(fn), None, None], v <= 0, (kind, repr(v)), kind=kind, value=v)
        T.add("guard-df", f"par studentt {fs2b([v])}", "B", [raises(lambda v=v: D.StudentT(v))], v <= 0, ("df", repr(v)), value=v)
        T.add("guard-df", f"par studentt {fs2b([2.0, v, 5.0])}", "B", [raises(lambda v=v: D.StudentT(jnp.asarray([2.0, v, 5.0])))], v <= 0, ("df3", repr(v)), value=v)
        w = [1.0, v, 2.0]
        T.add("guard-weights", f"par anynonpos {fs2b(w)}", "B", [raises(lambda w=w: D.VmapMixture(eqx.filter_vmap(D.Normal)(jnp.zeros(3)), jnp.asarray(w)))],
              v <= 0, ("w", repr(v)), weights=w)
        arr = [[1.0, 0.0], [3.0, v]]
        T.add("guard-tri-diag", f"par triinit 1 2 {fs2b(sum(arr, []))}", "R", ["REJ" if raises(lambda arr=arr: B.TriangularAffine(jnp.zeros(2), jnp.asarray(arr))) else
                                                                              flat(unwrap(B.TriangularAffine(jnp.zeros(2), jnp.asarray(arr))).triangular)],
              v <= 0, ("tri", repr(v)), diag_entry=v)
    for lo in [0.0, 1.0, -2.5, 1e6, -1e-6]:
        ulp = float(np.spacing(lo)) if lo != 0 else 1e-30  # (denormal bounds are flushed to zero by XLA: outside the property's magnitudes)
        for hi in [lo, lo + ulp, lo - ulp, lo + 1e-6, lo - 1e-6, lo + 1.0, lo - 1.0]:
            bad = raises(lambda: D.Uniform(lo, hi))
            T.add("guard-uniform", f"par uniform {f2b(lo)} {f2b(hi)}", "BFF", [bad, None, None], hi <= lo, (lo, hi), lo=lo, hi=hi)
    for it in range(N(24, 800)):
        n = rng.choice([1, 2, 3, 4, 6])
        p = list(range(n))
        rng.shuffle(p)
        mode = rng.choice(["ok", "ok", "repeat", "oor", "neg", "shift"])
        if mode == "repeat" and n > 1:
            p[rng.randrange(n)] = p[(rng.randrange(n) + 1) % n] if n > 1 else 0
        elif mode == "oor":
            p[rng.randrange(n)] = n
        elif mode == "neg":
            p[rng.randrange(n)] = -1
        elif mode == "shift":
            p = [v + 1 for v in p]
        shape = (2, n // 2) if (n % 2 == 0 and rng.random() < 0.4) else (n,)
        bad = raises(lambda: B.Permute(jnp.asarray(p).reshape(shape)))
        T.add("guard-permute", f"par perm {vlib.ints(p)}", "B", [bad], sorted(p) != list(range(n)), (tuple(p), shape), perm=p, shape=shape)
    # every sequence over 0..n-1 of length n <= 4 (exhaustive: 1 + 4 + 27 + 256), plus crafted multisets that share min, max and
    # sum with a genuine permutation (a sort-free "optimised" validity test accepts those)
    import itertools
    seqs = [list(t) for n in (1, 2, 3, 4) for t in itertools.product(range(n), repeat=n)]
    seqs += [[0, 2, 2, 2, 4], [0, 0, 3, 3, 4], [0, 1, 1, 3, 4, 5, 7, 7, 8], [0, 0, 2, 4, 4], [1, 1, 1, 1, 0, 4, 6, 6, 7][:9]]
    if q:
        rng.shuffle(seqs)
        seqs = seqs[:120] + [[0, 0, 3, 3], [0, 2, 2, 2, 4]]
    for p in seqs:
        n = len(p)
        bad = raises(lambda: B.Permute(jnp.asarray(p)))
        T.add("guard-permute", f"par perm {vlib.ints(p)}", "B", [bad], sorted(p) != list(range(n)), (tuple(p), (n,)), perm=p, shape=(n,))
    T.run()
    # ---- the `.unwrap()` bodies generated from flowjax/wrappers.py (Gen/Wrappers.lean: matrix- and batch-level weight normalisation,
    #      Where, BijectionReparam constructor + unwrap) against the real `unwrap` (shared with C12)
    from props import wrapgen
    wrapgen.corr_generated(c, tier, rng)
    # the REGENERATED constructors Affine / Scale / Loc / _StandardStudentT (Gen/FamiliesGen.lean): shape, raw stored leaves, guards
    from props import famgen
    famgen.corr(c, tier, rng, only_bij=True)
    from props import permgen
    permgen.corr_generated(c, tier, rng, methods=("t",))  # the GENERATED Permute constructor (Gen/PermGen.lean)
    from props import planar_tri
    planar_tri.corr_triangular(c, tier, rng, methods=("t",))  # incl. the GENERATED TriangularAffine (`gtriaff`) and its constructor


# ------------------------------------------------------------------ the property's oracle on the real code
EPS = {"f64": 2.220446049250313e-16, "f32": 1.1920929e-07}
ABSORB_SPREAD = {"f64": 36.0, "f32": 16.0}


class mode:
    """run the real code in float64 (x64 on) or float32 (x64 off)"""

    def __init__(self, dt):
        self.cm = jax.enable_x64(dt == "f64")

    def __enter__(self):
        return self.cm.__enter__()

    def __exit__(self, *a):
        return self.cm.__exit__(*a)


def chk_planar(w, u, dt):
    """invertibility: 1 + (w·û)·slope > 0 for the slopes the code uses (tanh'(0) = 1 is the worst case; leaky slopes 1 and 0.5)."""
    with mode(dt):
        p = _UnconditionalPlanar(jnp.asarray(w), jnp.asarray(u), jnp.asarray(0.0))
        uh = p.get_act_scale()
        wa = jnp.asarray(w)
        vals = [float(1 + uh @ (s * wa)) for s in (1.0, 0.5)]
        wtu = float(jnp.asarray(u) @ wa)
        c = float(wa @ uh)
    bad = [v for v in vals if not v > 0]
    if not bad:
        return None
    # exact arithmetic: 1 + w·û = log(1 + softplus(wᵀu)) > 0 for every finite wᵀu (C11.planar_constraint).  The float result lands at or
    # below 0 only when that exact margin is smaller than the rounding error of the dot products (≈ eps·Σ|wᵢuᵢ|): always once
    # log(1 + softplus(·)) has absorbed (wᵀu < -36.7 f64 / -16.6 f32), earlier for large |w|,|u|.  A deviation beyond rounding size
    # (wrong constant / formula) gets a specific key.
    w64, u64, uh64 = np.asarray(w, np.float64), np.asarray(u, np.float64), np.asarray(uh, np.float64)
    cond = 1 + float(np.sum(np.abs(w64 * u64))) + float(np.sum(np.abs(w64 * uh64)))
    wtu64 = float(w64 @ u64)
    margin = math.log1p(max(wtu64, 0.0) + math.log1p(math.exp(-abs(wtu64))))
    tolr = 16 * EPS[dt] * cond
    if math.isfinite(c) and margin <= tolr and abs(c + 1) <= tolr:
        key = f"planar.get_act_scale|float-absorption|{dt}"
    else:
        key = f"planar.get_act_scale|w={w!r}|u={u!r}|{dt}"
    return dict(key=key, kind="planar", w=w, u=u, dt=dt, w_dot_uhat=c, one_plus=vals, wtu=wtu,
                law="1 + (w·û)·slope > 0 (planar layer invertible)")


def chk_knots(raw, lo, hi, adj, dt):
    with mode(dt):
        pos = np.asarray(_real_to_increasing_on_interval(jnp.asarray(raw), (lo, hi), adj))
        lo_, hi_ = np.asarray(jnp.asarray(lo)), np.asarray(jnp.asarray(hi))
    ok = len(pos) == len(raw) + 2 and bool(np.all(np.diff(pos) > 0)) and pos[0] == lo_ and pos[-1] == hi_
    if ok:
        return None
    spread = max(raw) - min(raw)
    # softmax_adjust = 0 leaves widths ~ exp(-spread): they are absorbed by the cumulative sum (equal knots) and the last interior knot
    # lo + scale*(1 - w0/2) rounds onto (or an ulp above) hi; anything beyond rounding size gets a specific key
    slack = 64 * EPS[dt] * (abs(lo) + abs(hi)) * len(pos)
    if adj == 0 and spread >= ABSORB_SPREAD[dt] and len(pos) == len(raw) + 2 and pos[0] == lo_ and pos[-1] == hi_ and bool(np.all(np.diff(pos) >= -slack)):
        key = f"rqs.knots|softmax_adjust=0|float-absorption|{dt}"
    else:
        key = f"rqs.knots|raw={raw!r}|interval={(lo, hi)!r}|softmax_adjust={adj!r}|{dt}"
    return dict(key=key, kind="knots", raw=raw, lo=lo, hi=hi, adj=adj, dt=dt, pos=pos.tolist(),
                law="padded knots strictly increasing from interval[0] to interval[1]")


def chk_derivs(raw, dmin, dt):
    with mode(dt):
        s = B.RationalQuadraticSpline(knots=len(raw) - 2, interval=1, min_derivative=dmin)
        s = eqx.tree_at(lambda t: t.derivatives.args[0], s, jnp.asarray(raw))
        d = np.asarray(unwrap(s).derivatives)
        dm = np.asarray(jnp.asarray(dmin))
    if bool(np.all(d >= dm)) and bool(np.all(d > 0)) and len(d) == len(raw):
        return None
    return dict(key=f"rqs.derivatives|raw={raw!r}|min={dmin!r}|{dt}", kind="derivs", raw=raw, dmin=dmin, dt=dt, got=d.tolist(),
                law="derivatives >= min_derivative and > 0")


def positive_value(kind, raw, dt, extra=None):
    with mode(dt):
        n = len(raw)
        r = jnp.asarray(raw)
        if kind == "Affine":
            return np.asarray(unwrap(eqx.tree_at(lambda t: t.scale.arr, B.Affine(jnp.zeros(n), jnp.ones(n)), r)).scale)
        if kind == "Scale":
            return np.asarray(unwrap(eqx.tree_at(lambda t: t.scale.arr, B.Scale(jnp.ones(n)), r)).scale)
        if kind == "StudentT.df":
            return np.asarray(eqx.tree_at(lambda t: t.base_dist.df.arr, D.StudentT(jnp.full(n, 3.0)), r).df)
        if kind == "Tri.diag":
            t = B.TriangularAffine(jnp.zeros(n), jnp.eye(n) + jnp.tril(jnp.full((n, n), 7.0), -1), lower=bool(extra))
            t = eqx.tree_at(lambda t: t.triangular.kwargs["diag"].arr, t, r)
            # EVERY trainable array moves: the stored full matrix too, its own diagonal included (entries -r_i - 4, mostly negative)
            t = eqx.tree_at(lambda t: t.triangular.kwargs["arr"], t, jnp.asarray(np.add.outer(np.asarray(r), -2.0 * np.asarray(r)) - 4.0, r.dtype))
            return np.diag(np.asarray(unwrap(t).triangular))
        if kind == "min_scale":
            a = eqx.tree_at(lambda t: t.scale.arr, _affine_with_min_scale(extra), r[0])
            return np.asarray(unwrap(a).scale).reshape(1)
    raise ValueError(kind)


def chk_positive(kind, raw, dt, extra=None):
    v = positive_value(kind, raw, dt, extra)
    ok = bool(np.all(v > 0))
    if kind == "min_scale":
        with mode(dt):
            ok = ok and bool(np.all(v >= np.asarray(jnp.asarray(float(extra)))))
    if ok:
        return None
    return dict(key=f"positive|{kind}|raw={raw!r}|{extra!r}|{dt}", kind="positive", what=kind, raw=raw, dt=dt, extra=extra, got=v.tolist(),
                law="scale / diagonal / df strictly positive (min_scale: scale >= min_scale, > 0)")


def chk_mixture(raw, dt):
    with mode(dt):
        n = len(raw)
        m = D.VmapMixture(eqx.filter_vmap(D.Normal)(jnp.zeros(n)), jnp.ones(n))
        m = eqx.tree_at(lambda t: t.log_normalized_weights.args[0], m, jnp.asarray(raw))
        w = np.asarray(jnp.exp(unwrap(m).log_normalized_weights))
    tot = float(np.sum(w.astype(np.float64)))
    ok = abs(tot - 1) <= 16 * n * EPS[dt] and bool(np.all(w >= 0)) and (dt == "f32" or bool(np.all(w > 0)))
    if ok:
        return None
    return dict(key=f"mixture.weights|raw={raw!r}|{dt}", kind="mixture", raw=raw, dt=dt, got=w.tolist(), total=tot,
                law="mixture weights normalised (and positive in float64)")


def chk_weightnorm(W, raw, dt):
    with mode(dt):
        wn = WeightNormalization(jnp.ones((len(W), len(W[0]))))
        wn = eqx.tree_at(lambda t: (t.weight, t.scale.arr), wn, (jnp.asarray(W), jnp.asarray(raw).reshape(len(W), 1)))
        got = np.linalg.norm(np.asarray(unwrap(wn)).astype(np.float64), axis=-1)
        want = np.asarray(unwrap(wn.scale)).astype(np.float64).reshape(-1)
    ok = bool(np.all(want > 0)) and bool(np.all(np.abs(got - want) <= 32 * EPS[dt] * want * len(W[0])))
    if ok:
        return None
    return dict(key=f"weightnorm|W={W!r}|raw={raw!r}|{dt}", kind="weightnorm", W=W, raw=raw, dt=dt, got=got.tolist(), want=want.tolist(),
                law="row norms of the unwrapped weight equal the positive scale parameter")


def chk_roundtrip(kind, arg, dt):
    try:
        return _chk_roundtrip(kind, arg, dt)
    except Exception as ex:  # a VALID constructor argument (1e-6 .. 1e6, positive definite, minval < maxval) must be accepted
        return dict(key=f"roundtrip|{kind}|{arg!r}|{dt}|raises", kind="roundtrip", what=kind, arg=(list(arg) if isinstance(arg, tuple) else arg), dt=dt,
                    exc=type(ex).__name__ + ": " + str(ex)[:160], law=f"{kind}: a valid constructor argument is accepted and reproduced")


def _chk_roundtrip(kind, arg, dt):
    e = EPS[dt]
    with mode(dt):
        if kind == "Normal.scale":
            got, want, tol = float(D.Normal(0.5, arg).scale), arg, 64 * e * (2 + abs(math.log(arg)))
        elif kind == "StudentT.df":
            got, want, tol = float(D.StudentT(arg).df), arg, 64 * e * (2 + abs(math.log(arg)))
        elif kind == "Exponential.rate":
            got, want, tol = float(D.Exponential(arg).rate), arg, 64 * e * (2 + abs(math.log(arg)))
        elif kind == "Uniform":
            lo, hi = arg
            un = D.Uniform(lo, hi)
            lo_, hi_ = float(jnp.asarray(lo)), float(jnp.asarray(hi))
            err = max(abs(float(un.minval) - lo_), abs(float(un.maxval) - hi_))
            got, want, tol = err, 0.0, None
            ok = err <= 64 * e * (abs(lo_) + abs(hi_)) * (2 + abs(math.log(max(hi_ - lo_, 1e-300))))
            return None if ok else dict(key=f"roundtrip|Uniform|{arg!r}|{dt}", kind="roundtrip", what=kind, arg=list(arg), dt=dt, err=err,
                                        law="Uniform reproduces minval/maxval")
        elif kind == "Mixture":
            w = np.asarray(arg, float)
            m = D.VmapMixture(eqx.filter_vmap(D.Normal)(jnp.zeros(len(arg))), jnp.asarray(arg))
            g = np.asarray(jnp.exp(unwrap(m).log_normalized_weights)).astype(np.float64)
            wn = w / w.sum()
            ok = bool(np.all(np.abs(g - wn) <= 64 * e * wn * (2 + np.abs(np.log(w)).max())))
            return None if ok else dict(key=f"roundtrip|Mixture|{arg!r}|{dt}", kind="roundtrip", what=kind, arg=list(arg), dt=dt, got=g.tolist(),
                                        law="mixture reproduces the normalised weights")
        elif kind == "MVN":
            cov = np.asarray(arg, float)
            g = np.asarray(D.MultivariateNormal(jnp.zeros(len(cov)), jnp.asarray(cov)).covariance).astype(np.float64)
            sd = np.sqrt(np.diag(cov))
            cond = np.linalg.cond(cov / np.outer(sd, sd))
            ok = bool(np.all(np.abs(g - cov) <= 64 * e * len(cov) * cond * np.outer(sd, sd)))
            return None if ok else dict(key=f"roundtrip|MVN|{arg!r}|{dt}", kind="roundtrip", what=kind, arg=cov.tolist(), dt=dt, got=g.tolist(),
                                        law="MultivariateNormal reproduces the covariance")
        else:
            raise ValueError(kind)
    if abs(got - want) <= tol * abs(want):
        return None
    return dict(key=f"roundtrip|{kind}|{arg!r}|{dt}", kind="roundtrip", what=kind, arg=arg, dt=dt, got=got, law=f"{kind} is reproduced up to rounding")


REJECT = {
    "Normal.scale": lambda v: D.Normal(0.0, v),
    "Affine.scale": lambda v: B.Affine(0.0, v),
    "Scale.scale": lambda v: B.Scale(jnp.asarray([1.0, v])),
    "LogNormal.scale": lambda v: D.LogNormal(0.0, v),
    "StudentT.df": lambda v: D.StudentT(v),
    "StudentT.df[arr]": lambda v: D.StudentT(jnp.asarray([3.0, v])),
    "Mixture.weights": lambda v: D.VmapMixture(eqx.filter_vmap(D.Normal)(jnp.zeros(3)), jnp.asarray([1.0, v, 2.0])),
    "Tri.diag": lambda v: B.TriangularAffine(jnp.zeros(2), jnp.asarray([[1.0, 0.0], [0.5, v]])),
    "Uniform": lambda v: D.Uniform(v[0], v[1]),
    "Uniform[arr]": lambda v: D.Uniform(jnp.asarray([0.0, v[0]]), jnp.asarray([1.0, v[1]])),
    "Permute": lambda v: B.Permute(jnp.asarray(v)),
}


def chk_reject(kind, arg, dt):
    with mode(dt):
        bad = raises(lambda: REJECT[kind](arg))
    if bad:
        return None
    return dict(key=f"reject|{kind}|{arg!r}|{dt}", kind="reject", what=kind, arg=arg, dt=dt, law="invalid constructor argument is rejected with an error")


def search(hints, tier, rng):
    """C11's oracle on the real objects, float64 and float32, |raw| <= 50."""
    q = tier == "quick"
    wit, seen = [], set()

    per_kind = {}

    def add(w):
        if w is not None and w["key"] not in seen and per_kind.get((w["kind"], w["dt"]), 0) < 3:
            per_kind[(w["kind"], w["dt"])] = per_kind.get((w["kind"], w["dt"]), 0) + 1
            seen.add(w["key"])
            wit.append(w)

    for dt in ("f64", "f32"):
        # the recorded region representatives first (stable keys)
        add(chk_planar([7.0], [-7.0], dt)); add(chk_planar([4.2], [-4.2], dt)); add(chk_planar([50.0, 0.0], [-50.0, 0.0], dt))
        add(chk_knots([50.0, -50.0], -1.0, 1.0, 0.0, dt))
        # invalid arguments at the edge of validity must raise
        for v in (0.0, -0.0, -1e-6, -1.0, -1e6):
            for kind in ("Normal.scale", "Affine.scale", "Scale.scale", "LogNormal.scale", "StudentT.df", "StudentT.df[arr]", "Mixture.weights", "Tri.diag"):
                add(chk_reject(kind, v, dt))
        for lo in (0.0, 1.0, -2.5):
            for hi in (lo, lo - 1e-6, lo - 1.0, float(np.nextafter(np.float32(lo), np.float32(-np.inf)))):
                add(chk_reject("Uniform", (lo, hi), dt)); add(chk_reject("Uniform[arr]", (lo, hi), dt))
        for p in ([0, 0], [1, 1], [0, 2], [0, 1, 1], [0, 1, 3], [2, 0, -1], [1, 2, 3], [[0, 1], [1, 2]], [[0, 1], [2, 4]]):
            add(chk_reject("Permute", p, dt))
        # every non-permutation sequence over {-1..n} of length <= 4, crafted multisets with a permutation's min/max/sum/product-of-(1+i),
        # and 2-d arrangements: a validity test that is necessary but not sufficient accepts some of them
        import itertools
        for n in (1, 2, 3, 4):
            for p in itertools.product(range(-1, n + 1), repeat=n):
                if sorted(p) != list(range(n)):
                    add(chk_reject("Permute", list(p), dt))
        for p in ([0, 0, 3, 3], [0, 2, 2, 2, 4], [0, 1, 1, 3, 4, 5, 7, 7, 8], [0, 0, 2, 4, 4], [0, 1, 4, 4, 1, 5], [[0, 0], [3, 3]], [[0, 3], [3, 0]],
                  [0, 3, 3, 0], [1, 1, 1, 3, 4, 0, 5, 6, 6, 8, 9]):
            add(chk_reject("Permute", p, dt))
        for v in (100.0, 1e3, 1e4, 1e6, 1e-6):
            for kind in ("Normal.scale", "StudentT.df", "Exponential.rate"):
                add(chk_roundtrip(kind, v, dt))
            add(chk_roundtrip("Uniform", (0.0, v), dt))
        # weight-normalised rows far below machine epsilon (still non-zero): the row norm must stay the scale parameter — a
        # "division guard" `max(norm, eps)` silently breaks it
        tiny = 1e-18 if dt == "f64" else 1e-9
        add(chk_weightnorm([[3 * tiny, -4 * tiny], [1.0, 2.0]], [0.3, -0.2], dt))
        add(chk_weightnorm([[tiny]], [1.5], dt))
        n_it = 60 if q else 600
        for it in range(n_it):
            d = rng.choice([1, 2, 3, 5])
            add(chk_planar(nonzero_vector(rng, d), raw_vector(rng, d), dt))
            K = rng.choice([1, 2, 3, 5, 8, 16])
            lo, hi = rng.choice([(-1.0, 1.0), (-2.0, 2.0), (-1.0, 3.0), (0.5, 2.5), (-3.0, -1.0), (-5.0, 5.0), (-1e3, 2e3)])
            add(chk_knots(raw_vector(rng, K), lo, hi, rng.choice([1e-2, 1e-2, 1e-2, 1.0, 0.0]), dt))
            add(chk_derivs(raw_vector(rng, K + 2), rng.choice([1e-3, 1e-3, 0.0, 0.1]), dt))
            n = rng.choice([1, 2, 4])
            add(chk_positive(rng.choice(["Affine", "Scale", "StudentT.df"]), raw_vector(rng, n), dt))
            add(chk_positive("Tri.diag", raw_vector(rng, n), dt, rng.random() < 0.5))
            add(chk_positive("min_scale", raw_vector(rng, 1), dt, rng.choice([1e-2, 0.0, 0.5])))
            add(chk_mixture(raw_vector(rng, rng.choice([1, 2, 3, 6])), dt))
            r_, c_ = rng.choice([1, 2, 3]), rng.choice([1, 2, 4])
            add(chk_weightnorm([nonzero_vector(rng, c_) for _ in range(r_)], raw_vector(rng, r_), dt))
            if it % 3 == 0:
                v = magnitude(rng)
                add(chk_roundtrip(rng.choice(["Normal.scale", "StudentT.df", "Exponential.rate"]), v, dt))
                lo = rng.choice([0.0, -v, v, rng.uniform(-5, 5)])
                w_ = magnitude(rng)
                if float(np.float32(lo + w_)) > float(np.float32(lo)) and w_ >= 1e-3 * abs(lo):
                    add(chk_roundtrip("Uniform", (lo, lo + w_), dt))
                add(chk_roundtrip("Mixture", [magnitude(rng) for _ in range(rng.choice([1, 2, 4]))], dt))
                n = rng.choice([1, 2, 3])
                A = np.asarray([[rng.uniform(-1, 1) for _ in range(n)] for _ in range(n)])
                sc = np.asarray([math.sqrt(magnitude(rng)) for _ in range(n)])
                add(chk_roundtrip("MVN", ((A @ A.T + np.eye(n)) * np.outer(sc, sc)).tolist(), dt))
            if len(wit) >= 24:
                return wit
    return wit


def replay(w):
    k = w["kind"]
    if k == "planar":
        r = chk_planar(w["w"], w["u"], w["dt"])
    elif k == "knots":
        r = chk_knots(w["raw"], w["lo"], w["hi"], w["adj"], w["dt"])
    elif k == "derivs":
        r = chk_derivs(w["raw"], w["dmin"], w["dt"])
    elif k == "positive":
        r = chk_positive(w["what"], w["raw"], w["dt"], w.get("extra"))
    elif k == "mixture":
        r = chk_mixture(w["raw"], w["dt"])
    elif k == "weightnorm":
        r = chk_weightnorm(w["W"], w["raw"], w["dt"])
    elif k == "roundtrip":
        a = w["arg"]
        r = chk_roundtrip(w["what"], tuple(a) if w["what"] == "Uniform" else a, w["dt"])
    elif k == "reject":
        a = w["arg"]
        r = chk_reject(w["what"], tuple(a) if w["what"].startswith("Uniform") else a, w["dt"])
    else:
        raise ValueError(k)
    return r is not None
