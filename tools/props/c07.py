"""C07 — elementary bijections compute their documented functions.

Tie: generated leaf kernels (Gen/Leaves.lean, Gen/Misc.lean) + hand models of the constructor wiring
(Model/Ctors.lean) and of Permute (Model/Perm.lean), all run against the real objects here.
The witness search uses an independent float64 NumPy transcription of the documentation.
"""
from __future__ import annotations

import itertools
import math

import equinox as eqx
import jax
import jax.numpy as jnp
import numpy as np

import flowjax.bijections as B
from flowjax.wrappers import unwrap

import fj
import vlib
from vlib import f2b, fs2b, b2f, b2fs, ints
from props import c01

ID = "C07"
GEN = ["Leaves", "Misc", "Params", "Planar", "TriangularGen", "PermGen"]
RULE = ("constructor round trips Affine/Scale over magnitudes 1e-6..1e6; every leaf kind's transform/inverse on boundary-directed inputs with "
        "non-default parameters; Permute with permutations of rank 1-3 (all permutations of size<=4 in quick, random up to 12), invalid "
        "permutation arrays; Flip on ranks 1-3; AdditiveCondition with random f; non-trivial = non-default parameters or non-identity permutation; "
        "distinct = distinct (object, method, input)")
TRUSTED = c01.TRUSTED + ["Model/Ctors.lean (softplus reparameterisation wiring) and Model/Perm.lean (flat row-major Permute, argsort) are hand models validated here"]
ASSUMPTIONS = ["Planar: generated from _UnconditionalPlanar (tools/py2lean/targets_planar.py); TriangularAffine: hand model Model/Triangular.lean; both also covered by the NumPy-reference oracle"]
TOL = dict(rtol=1e-8, atol=1e-10)


def corr(c, tier, rng):
    lines, wants, infos = [], [], []

    def add(line, want, info, sig, nontrivial, sample=False):
        lines.append(line); wants.append(want); infos.append(info)
        c.case(sig, nontrivial, sample={"op": line[:160], "impl": want} if sample else None)

    # constructor round trips
    mags = [1e-6, 1e-3, 0.5, 1.0, 3.0, 1e3, 1e6]
    for i, s in enumerate(mags + [rng.uniform(0.01, 50) for _ in range(10)]):
        loc = rng.uniform(-5, 5)
        a = unwrap(B.Affine(loc, s))
        add(f"ctor Affine {f2b(loc)} {f2b(s)}", [float(a.loc), float(a.scale)], dict(ctor="Affine", loc=loc, scale=s), ("ctorA", loc, s), s != 1.0, sample=i < 2)
        sc = unwrap(B.Scale(s))
        add(f"ctor Scale {f2b(s)}", [float(sc.scale)], dict(ctor="Scale", scale=s), ("ctorS", s), s != 1.0)
        c.count("ctor")
    # leaves: transform + inverse via the tree op
    n = 40 if tier == "quick" else 300
    for i in range(n):
        lf = c01.rand_leaf(rng)
        inputs = list(dict.fromkeys([float(v) for v in lf.boundary] + fj.generic_inputs(rng, 4)))
        for x in inputs[: (16 if tier == "quick" else 60)]:
            for m in ("t", "i"):
                add(f"tree {m} {f2b(x)} " + " ".join(lf.tokens), c01.impl_line(lf.obj, m, x), dict(leaf=lf.kind, method=m, x=x),
                    (" ".join(lf.tokens), m, x), lf.nondefault and x in lf.boundary, sample=i < 2 and m == "t")
                c.count("leaf:" + lf.kind)
    # Permute: ranks 1..3
    perms = []
    for size in (1, 2, 3, 4):
        perms += [(p, (size,)) for p in itertools.permutations(range(size))]
    shapes = [(2, 2), (2, 3), (3, 2), (2, 2, 2), (1, 4), (2, 1, 3), (12,), (7,)]
    for _ in range(30 if tier == "quick" else 300):
        shp = rng.choice(shapes)
        size = int(np.prod(shp))
        p = list(range(size)); rng.shuffle(p)
        perms.append((tuple(p), shp))
    for p, shp in perms:
        size = len(p)
        obj = B.Permute(np.asarray(p).reshape(shp))
        xs = [rng.uniform(-3, 3) for _ in range(size)]
        for d, m in (("f", "t"), ("i", "i")):
            want = c01.impl_line(obj, m, np.reshape(xs, shp))
            add(f"permute {d} {ints(p)} {fs2b(xs)}", want, dict(perm=p, shape=shp, method=m), ("perm", p, shp, m), list(p) != sorted(p))
        c.count(f"permute:rank{len(shp)}")
    # invalid permutation arrays are rejected
    for bad in ([0, 0], [1, 2], [0, 2, 2], [3, 1, 0], [0, 1, 3]):
        try:
            jax.block_until_ready(B.Permute(jnp.asarray(bad)).permutation)
            raised = 0
        except Exception:
            raised = 1
        add(f"permvalid {ints(bad)}", ["REJ" if raised else "ACC"], dict(bad=bad), ("badperm", tuple(bad)), True)
    # Flip ranks 1..3, AdditiveCondition
    for shp in [(1,), (3,), (2, 2), (2, 3), (2, 1, 3), (2, 2, 2)]:
        xs = [rng.uniform(-3, 3) for _ in range(int(np.prod(shp)))]
        obj = B.Flip(shp)
        for m in fj.METHODS:
            add(f"flip {m} {fs2b(xs)}", c01.impl_line(obj, m, np.reshape(xs, shp)), dict(flip=shp, method=m), ("flip", shp, m, tuple(xs)), len(xs) > 1)
        c.count("flip")
    for _ in range(10):
        w = np.asarray([rng.uniform(-2, 2) for _ in range(3)])
        cond = np.asarray([rng.uniform(-2, 2) for _ in range(3)])
        f = lambda cnd, w=w: jnp.tanh(jnp.dot(jnp.asarray(w), cnd))
        obj = B.AdditiveCondition(f, (), (3,))
        fc = float(f(jnp.asarray(cond)))
        x = rng.uniform(-3, 3)
        for m in fj.METHODS:
            r = getattr(obj, fj.PYMETH[m])(jnp.asarray(x), jnp.asarray(cond))
            want = [float(r[0]), float(r[1])] if isinstance(r, tuple) else [float(r)]
            add(f"addcond {m} {f2b(x)} {f2b(fc)}", want, dict(additive=True, method=m), ("addcond", x, fc, m), True)
        c.count("additive")
    # spline constructor: non-default min_derivative / softmax_adjust / asymmetric intervals -> the unwrapped parameters
    # (generated parameterisation, Gen/Params.lean) and the documented "identity at initialisation"
    for _ in range(6 if tier == "quick" else 40):
        knots = rng.choice([1, 2, 4, 7])
        iv = rng.choice([1, 2.0, (-1.0, 3.0), (0.5, 2.5)])
        dmin = rng.choice([1e-3, 0.01, 0.1, 0.3])
        adj = rng.choice([1e-2, 0.0, 0.5])
        sp = B.RationalQuadraticSpline(knots=knots, interval=iv, min_derivative=dmin, softmax_adjust=adj)
        u = unwrap(sp)
        lo, hi = (float(iv[0]), float(iv[1])) if isinstance(iv, tuple) else (-float(iv), float(iv))
        zeros = [0.0] * knots
        add(f"par knots {fs2b(zeros)} {f2b(lo)} {f2b(hi)} {f2b(adj)}", [float(v) for v in u.x_pos], dict(ctor="RQS.x_pos", knots=knots, interval=iv, adj=adj), ("rqsx", knots, lo, hi, adj), True)
        add(f"par derivinit {f2b(dmin)}", [float(sp.derivatives.args[0][0])], dict(ctor="RQS.raw-derivative", dmin=dmin), ("rqsd0", dmin), dmin != 1e-3)
        raw = [float(v) for v in sp.derivatives.args[0]]
        add(f"par derivs {f2b(dmin)} {fs2b(raw)}", [float(v) for v in u.derivatives], dict(ctor="RQS.derivatives", dmin=dmin), ("rqsd", knots, dmin), dmin != 1e-3)
        for x in [lo, hi, 0.5 * (lo + hi), lo + 0.3 * (hi - lo), lo - 1.0, hi + 2.0]:
            # documented: the identity at initialisation (model: generated kernel on the model's constructor parameters)
            add(fj.rqs_line(sp, "t", x), [float(sp.transform(jnp.asarray(x)))], dict(ctor="RQS.init-transform", x=x, dmin=dmin), ("rqsinit", knots, lo, hi, dmin, x), dmin != 1e-3)
            if not vlib.close(float(sp.transform(jnp.asarray(x))), x, rtol=1e-9, atol=1e-9):
                c.mismatch("rqs-identity-at-initialisation", knots=knots, interval=iv, min_derivative=dmin, x=x, got=float(sp.transform(jnp.asarray(x))))
        c.count("rqs-ctor")
    # TriangularAffine(loc, arr, lower): A is the requested triangle of the given matrix (model: Params.triangularInit)
    tri_jobs = []
    for _ in range(6 if tier == "quick" else 40):
        n = rng.choice([1, 2, 3, 4])
        lower = rng.random() < 0.5
        arr = [[rng.uniform(-2, 2) if i != j else math.exp(rng.uniform(-1, 1)) for j in range(n)] for i in range(n)]
        loc = [rng.uniform(-1, 1) for _ in range(n)]
        t = B.TriangularAffine(jnp.asarray(loc), jnp.asarray(arr), lower=lower)
        A = np.asarray(unwrap(t).triangular)
        add(f"par triinit {int(lower)} {n} {fs2b(sum(arr, []))}", [float(v) for v in A.ravel()], dict(ctor="TriangularAffine", lower=lower, n=n), ("tri", n, lower, tuple(map(tuple, arr))), True)
        x = np.asarray([rng.uniform(-2, 2) for _ in range(n)])
        ref = (np.tril(np.asarray(arr)) if lower else np.triu(np.asarray(arr))) @ x + np.asarray(loc)
        got = np.asarray(t.transform(jnp.asarray(x)))
        if not np.allclose(got, ref, rtol=1e-9, atol=1e-9):
            c.mismatch("triangular-documented-function", lower=lower, arr=arr, loc=loc, x=x.tolist(), got=got.tolist(), want=ref.tolist())
        c.count("triangular-ctor")
    outs = vlib.run_model(lines)
    for line, got, want, info in zip(lines, outs, wants, infos):
        if want and isinstance(want[0], str) and want[0] in ("REJ", "ACC"):
            if (got == "0") != (want[0] == "REJ"):
                c.mismatch("permute-ctor-check-vs-impl", op=line, model=got, impl=want, **info)
            continue
        c01.compare(c, "generated-kernels-vs-impl", line, got, want, info)
    # --- Planar (generated, both activations, conditional through get_planar) and TriangularAffine (hand model)
    from props import permgen
    permgen.corr_generated(c, tier, rng)  # the GENERATED Permute (Gen/PermGen.lean)
    from props import planar_tri
    planar_tri.corr_planar(c, tier, rng, methods=("t", "i"))
    planar_tri.corr_triangular(c, tier, rng, methods=("t", "i"))


# ------------------------------------------------------------------ NumPy reference from the documentation
def ref_leaky(m, x):
    t = math.tanh(m); g = 1 - t * t
    if abs(x) < m:
        return math.tanh(x)
    return (t + g * (x - m)) if x > 0 else (-t + g * (x + m))


def doc_violations(rng, n):
    out = []

    def chk(desc, got, want, x, tokens=None, tol=1e-9):
        got, want = np.ravel(np.asarray(got, float)), np.ravel(np.asarray(want, float))
        if got.shape != want.shape or not np.allclose(got, want, rtol=tol, atol=tol, equal_nan=True):
            out.append(dict(key=f"{desc}|x={x!r}", desc=desc, x=x, got=got.tolist(), want=want.tolist(), tokens=tokens))

    for _ in range(n):
        loc, s = rng.uniform(-5, 5), math.exp(rng.uniform(-6, 6))
        x = rng.uniform(-4, 4)
        chk(f"Affine({loc!r},{s!r})", B.Affine(loc, s).transform(jnp.asarray(x)), s * x + loc, x, ["Actor", f2b(loc), f2b(s)], tol=1e-8)
        chk(f"Scale({s!r})", B.Scale(s).transform(jnp.asarray(x)), s * x, x, ["Sctor", f2b(s)], tol=1e-8)
        chk(f"Loc({loc!r})", B.Loc(loc).transform(jnp.asarray(x)), x + loc, x, ["L", f2b(loc)])
        chk("Exp", B.Exp().transform(jnp.asarray(x)), math.exp(x), x, ["E"])
        chk("SoftPlus", B.SoftPlus().transform(jnp.asarray(x)), math.log1p(math.exp(x)), x, ["P"])
        chk("Tanh", B.Tanh().transform(jnp.asarray(x)), math.tanh(x), x, ["T"])
        m = rng.choice([0.5, 1.0, 3.0, rng.uniform(0.2, 4)])
        for xx in fj.leaky_boundary_inputs(m, rng, 2):
            chk(f"LeakyTanh({m!r})", B.LeakyTanh(m).transform(jnp.asarray(xx)), ref_leaky(m, xx), xx, ["K", f2b(m)])
        # vectors / broadcasting
        locv = np.asarray([rng.uniform(-2, 2) for _ in range(3)]); sv = math.exp(rng.uniform(-1, 1))
        xv = np.asarray([rng.uniform(-2, 2) for _ in range(3)])
        chk("Affine(vec,scalar)", B.Affine(locv, sv).transform(jnp.asarray(xv)), sv * xv + locv, xv.tolist(), None, tol=1e-8)
        # permutation, flip
        shp = rng.choice([(4,), (2, 3), (2, 2, 2)])
        size = int(np.prod(shp)); p = list(range(size)); rng.shuffle(p)
        xa = np.asarray([rng.uniform(-2, 2) for _ in range(size)]).reshape(shp)
        chk(f"Permute{shp}", B.Permute(np.asarray(p).reshape(shp)).transform(jnp.asarray(xa)), xa.ravel()[p].reshape(shp), xa.tolist(), ["PERM", ints(p), ints(shp)])
        chk(f"Flip{shp}", B.Flip(shp).transform(jnp.asarray(xa)), xa.ravel()[::-1].reshape(shp), xa.tolist(), ["FLIP", ints(shp)])
        # TriangularAffine: A the requested triangle of a NON-symmetric matrix
        n_ = rng.choice([2, 3, 4]); low_ = rng.random() < 0.5
        arr_ = np.asarray([[rng.uniform(-2, 2) if i != j else math.exp(rng.uniform(-1, 1)) for j in range(n_)] for i in range(n_)])
        loc_ = np.asarray([rng.uniform(-1, 1) for _ in range(n_)]); xv_ = np.asarray([rng.uniform(-2, 2) for _ in range(n_)])
        chk(f"TriangularAffine(lower={low_})", B.TriangularAffine(jnp.asarray(loc_), jnp.asarray(arr_), lower=low_).transform(jnp.asarray(xv_)),
            (np.tril(arr_) if low_ else np.triu(arr_)) @ xv_ + loc_, xv_.tolist(), None, tol=1e-8)
        # spline: knots, identity outside, identity at init, monotone
        s_ = fj.rqs(rng, rng.choice([2, 4, 7]), rng.choice([1, 2.0, (-1.0, 3.0)]), perturb=2.0)
        lo, hi, xs, ys, ds = fj.rqs_params(s_)
        toks = ["Q", f2b(lo), f2b(hi), fs2b(xs), fs2b(ys), fs2b(ds)]
        for xk, yk in zip(xs, ys):
            chk("RQS knot", s_.transform(jnp.asarray(xk)), yk, xk, toks, tol=1e-9)
        for xo in (lo - 0.7, hi + 1.3, lo - 1e3, hi + 1e3):
            chk("RQS outside", s_.transform(jnp.asarray(xo)), xo, xo, toks)
        grid = np.linspace(lo, hi, 41)
        vals = np.asarray([float(s_.transform(jnp.asarray(g))) for g in grid])
        if not np.all(np.diff(vals) > 0):
            out.append(dict(key=f"RQS monotone|{toks[3][:40]}", desc="RQS monotone", x=None, tokens=toks))
        s0 = B.RationalQuadraticSpline(knots=rng.choice([2, 5]), interval=rng.choice([1, 3.0]), min_derivative=rng.choice([1e-3, 0.01, 0.3]))
        for g in np.linspace(-3.5, 3.5, 15):
            chk("RQS identity at init", s0.transform(jnp.asarray(g)), g, float(g), None, tol=1e-9)
        if len(out) >= 5:
            break
    return out


def search(hints, tier, rng):
    from props import oracles
    # Planar computes x + u_hat*act(w.x+b) for every positive leaky-relu slope (also > 1) and for tanh
    wit = [w for w in oracles.planar_violations(rng, 36 if tier == "quick" else 300) if w["law"].startswith("Planar computes")]
    return (wit + doc_violations(rng, 20 if tier == "quick" else 200))[:5]


def replay(w):
    import random
    if w.get("kind") == "planar":
        from props import oracles
        return bool(oracles.replay_witness(w))
    # re-run the reference comparison for the recorded description on fresh draws plus the recorded input
    toks = w.get("tokens")
    if toks and toks[0] in ("A", "L", "S", "E", "P", "T", "K", "Q"):
        obj = c01.rebuild(toks)
        x = w["x"]
        got = float(obj.transform(jnp.asarray(x)))
        want = np.ravel(np.asarray(w["want"], float))[0] if w.get("want") else None
        return want is not None and not np.isclose(got, want, rtol=1e-8, atol=1e-9)
    return bool(doc_violations(random.Random(0), 5))
