"""C15 — fit_to_data never loses, duplicates or misaligns data.

Two ties to the code.  (1) REGENERATION: `tools/py2lean/py2loop.py` translates `_add_batch`, `get_batches`, `train_val_split`, `step`
and `fit_to_data` from the source into `lean/Flowjaxv/Gen/TrainGen.lean` on every run (a refusal is a broken tie); `Props/C15.lean`
proves the generated functions equal to the hand model for all inputs (`gen_*` theorems); and the generated definitions are RUN
here against the real ones: `gaddbatch` / `gbatches` / `gsplit` (all n <= 40 x val_prop grid x batch sizes incl. > n, real
permutations) and `gfitdata` (the generated `fit_to_data` in a recording world: every loss value is an injective code of the call
that produced it, so the returned loss lists spell out every call — compared call by call with the real run).
(2) CORRESPONDENCE of the hand-written model `lean/Flowjaxv/Model/Train.lean`: `fitData`, `trainValSplit`, `addBatch`,
`epochLoop`, key paths): the REAL `fit_to_data` is run with index-tagged rows (`x[i] = i`, `condition[i] = i + 1000`)
and a recording `loss_fn` that stores, for every call, the concrete rows of both arrays, the key, and whether the call
happens inside `step` (gradient update) or is a plain validation evaluation.  The model's key schedule (paths in the
split tree) is turned into real keys with `jr.split`, the permutations JAX draws for the schedule's shuffle keys are
recomputed with `jr.permutation`, the model is run on exactly those permutations, and every call of the real run is
compared with the model's (rows, order, key, train/val, count).  Two observation modes: jit enabled
(`jax.debug.callback(ordered=True)` inside `step`) and `jax.disable_jit()`.
"""
from __future__ import annotations

import equinox as eqx
import jax
import jax.numpy as jnp
import jax.random as jr
import numpy as np
import optax

from flowjax.train import fit_to_data
from flowjax.train.train_utils import get_batches, train_val_split

import vlib
from vlib import f2b, ints

ID = "C15"
GEN = ["TrainGen"]
RULE = ("configs = n in {2..12,17,31,60} x batch_size in {1,2,3,n//2,n,n+5} x val_prop in {0.1,0.25,0.5,0.9} (both parts non-empty) "
        "x with/without condition x 1..4 epochs x row shape in {(n,),(n,1),(n,2)} x key flavour (typed / raw uint32), quick = a "
        "seeded sample of the grid, thorough = the whole grid plus 300 random (n in 2..60, batch_size in 1..n+5, val_prop) points; every call of loss_fn compared (rows of x, rows of condition, key, "
        "train-step vs validation, order) with the model run on the permutations JAX drew for the model's key paths; plus the "
        "degenerate configs (empty part, batch_size 0: ZeroDivisionError <-> model `none`), the n_val rounding "
        "(half-to-even on the float product) and _add_batch/train_val_split alone; a case is non-trivial when a remainder is "
        "dropped, or there are >= 2 batches, or >= 2 epochs; distinct = distinct (n, batch, val_prop, condition, epochs, shape, seed, mode); "
        "the GENERATED definitions (Gen/TrainGen.lean) are evaluated against the real ones on n in 1..40 x 11 batch sizes (one and two arrays), "
        "n in 1..40 x 18 val_prop values incl. out-of-range (rows, sizes, ValueError), and on every whole run (all calls, recording world)")
TRUSTED = [
    "Lean 4.33 kernel; axioms propext, Classical.choice, Quot.sound (core Lean only)",
    "tools/py2lean/py2loop.py + typing sheet targets_train.py (statement-by-statement translation of flowjax/train/*.py; refuses what it "
    "does not understand) and the library primitives of Model/TrainWorld.lean (Python int = Int with floor division and negative slices, "
    "reshape = chunks, zip(*…, strict=True) = transpose, jr.split = child paths, jr.permutation(key, a) = a[perm(key, len a)], "
    "round = half-to-even on the float product) — validated on every run by evaluating the generated definitions against the real ones",
    "Model/Train.lean (fitData, trainValSplit, addBatch, epochLoop, key paths) is hand-written; this correspondence is its tie to "
    "flowjax/train/data_fit.py and train_utils.py",
    "jr.permutation(key, a) == a[jr.permutation(key, len(a))] for every array a (observed on every run: both data arrays and the "
    "recomputed index permutation agree), jr.split / jr.permutation are deterministic functions of the key",
    "freshness of keys is proved for paths and transferred to keys for any `split` that is injective in (parent, index) and never "
    "returns the root; that threefry has this property is not proved (collisions have probability ~2^-64 and are checked per run)",
]
ASSUMPTIONS = ["0 < round(val_prop*n) < n and batch_size >= 1 (otherwise the real call raises ZeroDivisionError, which the model mirrors as `none`)",
               "early stopping does not change the data flow of the epochs that are run (the harness uses a constant loss and max_patience > epochs)"]


class P(eqx.Module):
    p: jax.Array


def _init(g):
    return optax.EmptyState()


def _update(grads, state, params=None):
    return jax.tree_util.tree_map(jnp.ones_like, grads), state


COUNTING = optax.GradientTransformation(_init, _update)
CALLS: list = []


def _keydata(key):
    if jnp.issubdtype(key.dtype, jax.dtypes.prng_key):
        return jr.key_data(key)
    return key


def _rec_train(x, c, k):
    CALLS.append((True, np.asarray(x), np.asarray(c), tuple(int(v) for v in np.asarray(k).ravel())))


def recording_loss(params, static, x, condition=None, key=None):
    """records every call; inside `step` (params is a tracer under value_and_grad) through an ordered callback so that it also
    works when `step` is jit-compiled"""
    c = condition if condition is not None else jnp.zeros((0,))
    if isinstance(params.p, jax.core.Tracer):
        jax.debug.callback(_rec_train, x, c, _keydata(key), ordered=True)
    else:
        CALLS.append((False, np.asarray(x), np.asarray(c), tuple(int(v) for v in np.asarray(_keydata(key)).ravel())))
    return 1.0 + 0.0 * jnp.sum(params.p)


def make_data(n, shape_kind, cond):
    i = jnp.arange(float(n))
    if shape_kind == 0:
        x = i
    elif shape_kind == 1:
        x = i[:, None]
    else:
        x = jnp.stack([i, i + 0.5], axis=1)
    c = (i + 1000.0)[:, None] if cond else None
    return x, c


def tags(a):
    """row tags of a recorded batch (first column)"""
    a = np.asarray(a)
    if a.ndim == 1:
        return [int(v) for v in a]
    return [int(v) for v in a.reshape(a.shape[0], -1)[:, 0]]


def root_key(seed, raw):
    return jr.PRNGKey(seed) if raw else jr.key(seed)


def run_real(n, b, vp, cond, epochs, shape_kind, seed, raw, eager):
    """returns (calls, updates) or ('EXC', class name)"""
    CALLS.clear()
    x, c = make_data(n, shape_kind, cond)
    kw = dict(condition=c, loss_fn=recording_loss, max_epochs=epochs, max_patience=epochs + 1, batch_size=b, val_prop=vp,
              optimizer=COUNTING, show_progress=False)
    try:
        if eager:
            with jax.disable_jit():
                m, losses = fit_to_data(root_key(seed, raw), P(jnp.array(0.0)), x, **kw)
        else:
            m, losses = fit_to_data(root_key(seed, raw), P(jnp.array(0.0)), x, **kw)
        jax.effects_barrier()
    except Exception as ex:  # noqa: BLE001
        jax.effects_barrier()
        return "EXC", type(ex).__name__
    return list(CALLS), float(m.p)


# ------------------------------------------------------------------ model side
def parse_key(s):
    """'r/2.0/3.1' -> [(2,0),(3,1)]"""
    return [tuple(int(v) for v in t.split(".")) for t in s.split("/")[1:]]


def parse_ints(s):
    return [] if s == "-" else [int(v) for v in s.split(",")]


def parse_calls(s):
    if s == "-":
        return []
    out = []
    for t in s.split(";"):
        k, rows = t.split(":")
        out.append((k, parse_ints(rows)))
    return out


def parse_run(out):
    if out == "NONE":
        return None
    toks = out.split(" ")
    assert toks[0] == "OK", out
    kv = lambda t: t.split("=", 1)[1]
    run = dict(split=kv(toks[1]), train=parse_ints(kv(toks[2])), val=parse_ints(kv(toks[3])), epochs=[])
    i = 4
    while i < len(toks):
        assert toks[i] == "E"
        run["epochs"].append(dict(tk=kv(toks[i + 1]), vk=kv(toks[i + 2]), to=parse_ints(kv(toks[i + 3])), vo=parse_ints(kv(toks[i + 4])),
                                  T=parse_calls(kv(toks[i + 5])), V=parse_calls(kv(toks[i + 6]))))
        i += 7
    return run


class KeyTree:
    """real keys for model paths: path step (a, i) = jr.split(parent, a)[i]"""

    def __init__(self, root):
        self.cache = {"r": root}

    def get(self, s):
        if s in self.cache:
            return self.cache[s]
        parent, step = s.rsplit("/", 1)
        a, i = (int(v) for v in step.split("."))
        k = jr.split(self.get(parent), a)[i]
        self.cache[s] = k
        return k

    def data(self, s):
        return tuple(int(v) for v in np.asarray(_keydata(self.get(s))).ravel())


def model_trace(n, b, n_val, epochs, seed, raw):
    """key schedule from the model -> real keys -> the permutations JAX draws -> the model's trace on them"""
    sched = parse_run(vlib.run_model([f"fitdata {n} {b} {n_val} {epochs}"])[0])
    model_trace.perms = None
    if sched is None:
        return None, None
    kt = KeyTree(root_key(seed, raw))
    perms = [[int(v) for v in jr.permutation(kt.get(sched["split"]), n)]]
    for ep in sched["epochs"]:
        perms.append([int(v) for v in jr.permutation(kt.get(ep["tk"]), n - n_val)])
        perms.append([int(v) for v in jr.permutation(kt.get(ep["vk"]), n_val)])
    run = parse_run(vlib.run_model([f"fitdata {n} {b} {n_val} {epochs} " + " ".join(ints(p) for p in perms)])[0])
    model_trace.perms = perms
    return run, kt


ENC_BASE = 1 << 20
if hasattr(__import__("sys"), "set_int_max_str_digits"):
    __import__("sys").set_int_max_str_digits(0)   # the codes of the recording world are integers with thousands of digits


def dec_digits(n):
    out = []
    while n:
        out.append(n % ENC_BASE - 1)
        n //= ENC_BASE
    return out


def dec_call(d):
    """[tag, params, 2|key|, key…, #arrays, |a0|, a0…, …] -> (is_train, params, key path string, [rows of each array])"""
    tag, params, k2 = d[0], d[1], d[2]
    key = d[3:3 + k2]
    j = 3 + k2
    narr = d[j]
    j += 1
    arrays = []
    for _ in range(narr):
        ln = d[j]
        arrays.append(d[j + 1:j + 1 + ln])
        j += 1 + ln
    assert j == len(d), (d, j)
    path = "/".join(["r"] + [f"{key[i]}.{key[i + 1]}" for i in range(0, k2, 2)])
    return bool(tag), params, path, arrays


def dec_epoch(code):
    d, i, calls = dec_digits(code), 0, []
    while i < len(d):
        ln = d[i]
        calls.append(dec_call(d[i + 1:i + 1 + ln]))
        i += 1 + ln
    return calls


def generated_calls(n, b, vp, epochs, cond, perms, kt):
    """every call the GENERATED fit_to_data makes (recording world), as the flat list the real loss_fn should see;
    also checks the parameter version of every call (train call j overall: j updates; validation calls: all updates of the epoch)"""
    out = vlib.run_model([f"gfitdata {n} {b} {f2b(vp)} {epochs} {int(cond)} " + " ".join(ints(p) for p in perms)])[0]
    if not out.startswith("OK"):
        return None, out
    toks = out.split(" ")
    tr = [] if toks[2] == "-" else [int(v) for v in toks[2].split(",")]
    va = [] if toks[3] == "-" else [int(v) for v in toks[3].split(",")]
    if len(tr) != epochs or len(va) != epochs:
        return None, f"{len(tr)} train / {len(va)} validation losses for {epochs} epochs"
    flat, updates = [], 0
    for e in range(epochs):
        for is_tr, params, path, arrays in dec_epoch(tr[e]):
            if not is_tr or params != updates:
                return None, f"epoch {e}: step call with parameters {params}, expected {updates} (train={is_tr})"
            updates += 1
            flat.append((True, arrays, kt.data(path)))
        for is_tr, params, path, arrays in dec_epoch(va[e]):
            if is_tr or params != updates:
                return None, f"epoch {e}: validation call with parameters {params}, expected {updates} (train={is_tr})"
            flat.append((False, arrays, kt.data(path)))
    if int(toks[1]) != updates:
        return None, f"returned parameters after {toks[1]} updates, {updates} step calls"
    return flat, updates


def compare_gen_calls(calls, gen, cond):
    if len(calls) != len(gen):
        return f"{len(calls)} calls, generated {len(gen)}"
    for j, ((is_tr, xa, ca, kd), (g_tr, arrays, g_key)) in enumerate(zip(calls, gen)):
        if is_tr != g_tr:
            return f"call {j}: train-step={is_tr}, generated {g_tr}"
        if len(arrays) != (2 if cond else 1):
            return f"call {j}: generated passes {len(arrays)} arrays"
        if tags(xa) != arrays[0]:
            return f"call {j}: x rows {tags(xa)}, generated {arrays[0]}"
        if cond and tags(ca) != arrays[1]:
            return f"call {j}: condition rows {tags(ca)}, generated {arrays[1]}"
        if kd != g_key:
            return f"call {j}: key {kd}, generated path gives {g_key}"
    return None


def expected_calls(run, kt):
    """the model's trace as the flat list of calls the real loss_fn should see"""
    out = []
    for ep in run["epochs"]:
        for k, rows in ep["T"]:
            out.append((True, rows, kt.data(k)))
        for k, rows in ep["V"]:
            out.append((False, rows, kt.data(k)))
    return out


def compare_calls(calls, exp, cond):
    """None if identical, else a description of the first difference"""
    if len(calls) != len(exp):
        return f"{len(calls)} calls, model {len(exp)}"
    for j, ((is_tr, xa, ca, kd), (m_tr, m_rows, m_key)) in enumerate(zip(calls, exp)):
        if is_tr != m_tr:
            return f"call {j}: train-step={is_tr}, model {m_tr}"
        if tags(xa) != m_rows:
            return f"call {j}: x rows {tags(xa)}, model {m_rows}"
        if cond and tags(ca) != [r + 1000 for r in m_rows]:
            return f"call {j}: condition rows {tags(ca)}, model {[r + 1000 for r in m_rows]}"
        if kd != m_key:
            return f"call {j}: key {kd}, model path gives {m_key}"
    return None


def same_calls(a, b):
    return len(a) == len(b) and all(
        p[0] == q[0] and np.array_equal(p[1], q[1]) and np.array_equal(p[2], q[2]) and p[3] == q[3] for p, q in zip(a, b))


# ------------------------------------------------------------------ config grid
NS = list(range(2, 13)) + [17, 31, 60]
VPS = [0.1, 0.25, 0.5, 0.9]


def grid():
    for n in NS:
        for b in sorted({1, 2, 3, max(n // 2, 1), n, n + 5}):
            for vp in VPS:
                nv = round(vp * n)
                if 0 < nv < n:
                    for cond in (True, False):
                        yield n, b, vp, cond


def corr(c, tier, rng):
    quick = tier == "quick"
    # ---- 1. n_val rounding: round(val_prop * n) on the float product, ties to even
    lines, wants = [], []
    for n in list(range(0, 41)) + [60, 101, 1000]:
        for vp in VPS + [0.0, 1.0, 0.05, 0.15, 0.35, 0.45, 0.55, 0.3, 0.7, 0.125, 0.375, 0.65]:
            lines.append(f"nval {n} {f2b(vp)}")
            wants.append(round(vp * n))
            c.case(("nval", n, vp), (vp * n) % 1 == 0.5)
            c.count("nval:tie" if (vp * n) % 1 == 0.5 else "nval")
    for line, out, want in zip(lines, vlib.run_model(lines), wants):
        if out != str(want):
            c.mismatch("n_val-rounding", op=line, model=out, impl=want)

    # ---- 2. _add_batch / get_batches and train_val_split alone
    lines, wants = [], []
    for n in range(1, 14):
        for b in range(1, n + 6):
            got = get_batches((jnp.arange(n),), b)[0]
            lines.append(f"addbatch {b} {n}")
            wants.append("|".join(ints(r) for r in np.asarray(got).tolist()))
            c.case(("addbatch", n, b), n % min(b, n) != 0)
            c.count("addbatch")
    for line, out, want in zip(lines, vlib.run_model(lines), wants):
        if out != want:
            c.mismatch("add_batch", op=line, model=out, impl=want)
    for n, b in [(0, 3), (5, 0)]:
        try:
            get_batches((jnp.arange(n),), b)
            impl = "ok"
        except ZeroDivisionError:
            impl = "NONE"
        out, gout = vlib.run_model([f"addbatch {b} {n}", f"gaddbatch {b} {n}"])
        c.case(("addbatch-degenerate", n, b), True)
        c.count("addbatch:degenerate")
        if out != impl:
            c.mismatch("add_batch", op=f"addbatch {b} {n}", model=out, impl=impl)
        if gout != impl:
            c.mismatch("gen:add_batch", op=f"gaddbatch {b} {n}", model=gout, impl=impl)
    # ---- 2b. the GENERATED _add_batch / get_batches: all n <= 40 x batch sizes (incl. batch_size > n), one and two arrays
    lines, wants = [], []
    for n in range(1, 41):
        for b in sorted({1, 2, 3, 5, 7, max(n // 2, 1), max(n - 1, 1), n, n + 1, n + 5, 2 * n}):
            x, cnd = jnp.arange(n), jnp.arange(n) + 1000
            gx, gc = get_batches((x, cnd), b)
            lines.append(f"gaddbatch {b} {n}")
            wants.append("|".join(ints(r) for r in np.asarray(gx).tolist()))
            lines.append(f"gbatches {b} {n}")
            wants.append("0 " + " / ".join("|".join(ints(r) for r in np.asarray(g).tolist()) for g in (gx, gc)))
            c.case(("gen-addbatch", n, b), n % min(b, n) != 0)
            c.count("generated:add_batch")
    for line, out, want in zip(lines, vlib.run_model(lines), wants):
        if out != want:
            c.mismatch("gen:add_batch", op=line, model=out, impl=want)
    # ---- 2c. the GENERATED train_val_split: all n <= 40 x val_prop grid, both arrays, the permutation JAX draws; sizes and rows
    lines, wants = [], []
    for n in range(1, 41):
        for vp in VPS + [0.0, 1.0, 0.05, 0.15, 0.35, 0.45, 0.55, 0.3, 0.7, 0.125, 0.375, 0.65, -0.1, 1.5]:
            key = jr.key(1000 + n)
            x, cnd = jnp.arange(n), jnp.arange(n) + 1000
            pi = [int(v) for v in jr.permutation(key, n)]
            try:
                (tx, tc), (vx, vc) = train_val_split(key, (x, cnd), val_prop=vp)
                want = "0 " + " ".join(ints([int(v) for v in a]) for a in (tx, vx, tc, vc))
                sizes = (len(tx), len(vx))
            except ValueError:
                want, sizes = "1", None
            lines.append(f"gsplit {n} {f2b(vp)} {ints(pi)}")
            wants.append((want, sizes, n, vp))
            c.case(("gen-split", n, vp), (vp * n) % 1 == 0.5 or sizes is None)
            c.count("generated:train_val_split")
    for line, out, (want, sizes, n, vp) in zip(lines, vlib.run_model(lines), wants):
        ok = out.startswith("1 ") if want == "1" else out == want
        if ok and sizes is not None and sizes != (n - round(vp * n), round(vp * n)):
            ok = False
        if not ok:
            c.mismatch("gen:train_val_split", op=line[:60], model=out[:200], impl=want[:200], n=n, val_prop=vp)
    for n in (2, 5, 10, 11):
        for vp in VPS + [0.0, 1.0]:
            key = jr.key(n)
            x, cnd = jnp.arange(n), jnp.arange(n) + 1000
            (tx, tc), (vx, vc) = train_val_split(key, (x, cnd), val_prop=vp)
            nv = round(vp * n)
            pi = [int(v) for v in jr.permutation(key, n)]
            run = parse_run(vlib.run_model([f"fitdata {n} 1 {nv} 0 {ints(pi)}"])[0])
            c.case(("split", n, vp), 0 < nv < n)
            c.count("train_val_split")
            if run is None or run["train"] != [int(v) for v in tx] or run["val"] != [int(v) for v in vx] \
                    or [int(v) - 1000 for v in tc] != run["train"] or [int(v) - 1000 for v in vc] != run["val"]:
                c.mismatch("train_val_split", n=n, val_prop=vp, model=run, impl=dict(train=np.asarray(tx).tolist(), val=np.asarray(vx).tolist()))

    # ---- 3. whole runs
    cfgs = list(grid())
    if quick:
        rng.shuffle(cfgs)
        small = [g for g in cfgs if g[0] <= 12][:140]
        big = [g for g in cfgs if g[0] > 12][:24]
        cfgs = small + big
    else:   # thorough: the whole grid plus random (n, batch_size) points of the property's full range
        for _ in range(300):
            n = rng.randrange(2, 61)
            b = rng.randrange(1, n + 6)
            vp = rng.choice(VPS + [0.05, 0.3, 0.7, 0.95])
            if 0 < round(vp * n) < n:
                cfgs.append((n, b, vp, rng.random() < 0.5))
    n_eager = 0
    eager_budget = 10 if quick else 150
    for ci, (n, b, vp, cond) in enumerate(cfgs):
        nv = round(vp * n)
        shape_kind = ci % 3
        raw = ci % 5 == 0
        for epochs in ((rng.choice([3, 4]), rng.choice([1, 2])) if quick else (1, 2, 3, 4)):
            seed = rng.randrange(0, 10**6)
            eager = n_eager < eager_budget and n <= 12 and epochs <= 2 and ci % 9 == 0
            n_eager += int(eager)
            real = run_real(n, b, vp, cond, epochs, shape_kind, seed, raw, eager)
            run, kt = model_trace(n, b, nv, epochs, seed, raw)
            nt = n - nv
            bt = min(b, nt)
            nontrivial = (nt % bt != 0) or (nt // bt >= 2) or epochs >= 2
            info = dict(n=n, batch_size=b, val_prop=vp, condition=cond, epochs=epochs, shape=shape_kind, seed=seed, raw_key=raw,
                        mode="eager" if eager else "jit")
            c.case((n, b, vp, cond, epochs, shape_kind, seed, raw, eager), nontrivial,
                   sample=dict(cfg=info, model_epoch0=run["epochs"][0] if run and run["epochs"] else None) if ci < 2 and epochs >= 3 else None)
            c.count(f"run:{'eager' if eager else 'jit'}:{'cond' if cond else 'nocond'}")
            c.count("run:drops-remainder" if nt % bt else "run:no-remainder")
            if real[0] == "EXC" or run is None:
                c.mismatch("fit_to_data-dataflow", model="NONE" if run is None else "some", impl=real, **info)
                continue
            calls, updates = real
            d = compare_calls(calls, expected_calls(run, kt), cond)
            if d is None and updates != float(sum(len(ep["T"]) for ep in run["epochs"])):
                d = f"{updates} parameter updates, model has {sum(len(ep['T']) for ep in run['epochs'])} train calls"
            if d is not None:
                c.mismatch("fit_to_data-dataflow", diff=d, **info)
            # the GENERATED fit_to_data (recording world) on the same permutations: every call, in order
            gen, gupd = generated_calls(n, b, vp, epochs, cond, model_trace.perms, kt)
            c.count("generated:fit_to_data-runs")
            if gen is None:
                c.mismatch("gen:fit_to_data-dataflow", diff=gupd, **info)
            else:
                gd = compare_gen_calls(calls, gen, cond)
                if gd is None and updates != float(gupd):
                    gd = f"{updates} parameter updates, generated run has {gupd} step calls"
                if gd is not None:
                    c.mismatch("gen:fit_to_data-dataflow", diff=gd, **info)
                c.count("generated:calls-compared", len(gen))
            c.count("calls-compared", len(calls))
            # determinism of the real run (same key -> same trace), on a subset
            if epochs >= 3 and ci % 4 == 0:
                again = run_real(n, b, vp, cond, epochs, shape_kind, seed, raw, False)
                c.count("determinism-reruns")
                if again[0] == "EXC" or not same_calls(again[0], calls):
                    c.mismatch("fit_to_data-determinism", **info)

    # ---- 4. degenerate configs: the model's `none` <-> ZeroDivisionError of the real call
    for n, b, vp, epochs in [(2, 1, 0.1, 1), (3, 2, 0.9, 1), (5, 2, 0.0, 2), (5, 2, 1.0, 1), (6, 0, 0.5, 1), (2, 1, 0.1, 0), (6, 0, 0.5, 0)]:
        nv = round(vp * n)
        real = run_real(n, b, vp, True, epochs, 1, 7, False, False)
        out = vlib.run_model([f"fitdata {n} {b} {nv} {epochs}"])[0]
        impl = "NONE" if real == ("EXC", "ZeroDivisionError") else ("OK" if real[0] != "EXC" else real)
        c.case(("degenerate", n, b, vp, epochs), True)
        c.count("run:degenerate")
        if (out == "NONE") != (impl == "NONE") or impl not in ("NONE", "OK"):
            c.mismatch("fit_to_data-guards", n=n, batch_size=b, val_prop=vp, epochs=epochs, model=out[:40], impl=impl)
    c.notes.append(f"{len(cfgs)} grid configs ({n_eager} runs under jax.disable_jit(), the rest with jit enabled and an ordered debug callback)")


# ------------------------------------------------------------------ the property's oracle on the real code only
def oracle(n, b, vp, cond, epochs, shape_kind, seed, raw, eager=False):
    real = run_real(n, b, vp, cond, epochs, shape_kind, seed, raw, eager)
    if real[0] == "EXC":
        return [f"raised {real[1]}"]
    calls, updates = real
    bad = []
    nv = round(vp * n)
    nt = n - nv
    bt, bv = min(b, nt), min(b, nv)
    nbt, nbv = nt // bt, nv // bv
    per_epoch = nbt + nbv
    if len(calls) != epochs * per_epoch:
        return [f"{len(calls)} loss calls, expected {epochs * per_epoch}"]
    train_seen, val_seen, keys = set(), set(), []
    for e in range(epochs):
        ec = calls[e * per_epoch:(e + 1) * per_epoch]
        tr, va = ec[:nbt], ec[nbt:]
        if not all(cl[0] for cl in tr) or any(cl[0] for cl in va):
            bad.append(f"epoch {e}: train-step / validation calls out of order")
        rows_t = [r for cl in tr for r in tags(cl[1])]
        rows_v = [r for cl in va for r in tags(cl[1])]
        if any(len(tags(cl[1])) != bt for cl in tr) or any(len(tags(cl[1])) != bv for cl in va):
            bad.append(f"epoch {e}: batch shapes")
        if len(set(rows_t)) != len(rows_t) or len(set(rows_v)) != len(rows_v):
            bad.append(f"epoch {e}: a row is used twice")
        if len(rows_t) != nt - nt % bt or not (nt % bt < bt):
            bad.append(f"epoch {e}: {nt - len(rows_t)} train rows skipped, expected {nt % bt}")
        if cond:
            for cl in ec:
                if tags(cl[2]) != [r + 1000 for r in tags(cl[1])]:
                    bad.append(f"epoch {e}: x row paired with another row's condition")
                    break
        train_seen |= set(rows_t)
        val_seen |= set(rows_v)
        keys += [cl[3] for cl in ec]
    if train_seen & val_seen:
        bad.append(f"rows {sorted(train_seen & val_seen)} seen both in a gradient step and in validation")
    if not (train_seen | val_seen) <= set(range(n)) or len(train_seen) > nt or len(val_seen) > nv:
        bad.append("train/validation sets do not partition the dataset")
    if len(set(keys)) != len(keys):
        bad.append("a key is reused")
    if updates != float(epochs * nbt):
        bad.append(f"{updates} updates for {epochs * nbt} train batches")
    again = run_real(n, b, vp, cond, epochs, shape_kind, seed, raw, eager)
    if again[0] == "EXC" or not same_calls(again[0], calls):
        bad.append("same key, different run")
    return bad


def search(hints, tier, rng):
    wit = []
    cfgs = list(grid())
    rng.shuffle(cfgs)
    for ci, (n, b, vp, cond) in enumerate(cfgs[: (60 if tier == "quick" else 400)]):
        epochs, shape_kind, seed, raw = 1 + ci % 3, ci % 3, rng.randrange(10**6), ci % 5 == 0
        bad = oracle(n, b, vp, cond, epochs, shape_kind, seed, raw)
        if bad:
            wit.append(dict(key=f"fit_to_data|n={n}|b={b}|vp={vp}|cond={cond}|E={epochs}|shape={shape_kind}", n=n, b=b, vp=vp, cond=cond,
                            epochs=epochs, shape=shape_kind, seed=seed, raw=raw, violated=bad[:5]))
            if len(wit) >= 5:
                break
    return wit


def replay(w):
    return bool(oracle(w["n"], w["b"], w["vp"], w["cond"], w["epochs"], w["shape"], w["seed"], w["raw"]))
