"""C06 — log_prob / sample / sample_and_log_prob accept leading batch dimensions that broadcast like NumPy.

Tie: the batching layer (`AbstractDistribution._vectorize`, `_check_shapes`, `_get_sample_keys`,
`utils._get_ufunc_signature`, and the part of `jnp.vectorize` it relies on) is a HAND model
(`lean/Flowjaxv/Model/Vectorize.lean`); the theorems of `Props/C06.lean` are about that model.  This harness runs
the model (driver ops sig / parsesig / bshape / outshape / outshapef / keyshape / pair) against the real code:

 (a) `ufuncSignature` vs `flowjax.utils._get_ufunc_signature` (exhaustive small lattice + random multi-digit sizes),
     and the model's parser vs `jax._src.numpy.vectorize._parse_gufunc_signature` (real signatures + fuzzed strings);
 (b) output shapes / exception class of the real public methods vs `outShape`;
 (c) every element of every batched result vs the UNBATCHED public/private call on the slices the model's `pair` names;
 (d) `_get_sample_keys` shape/size vs `keyshape`, keys = row-major reshape of `jr.split`, all keys distinct,
     batched sample elements pairwise distinct and equal to `_sample(key at that position, condition slice)`,
     and same key => identical result.
"""
from __future__ import annotations

import math
import os
import random

import equinox as eqx
import jax
import jax.numpy as jnp
import jax.random as jr
import numpy as np

import flowjax.bijections as B
from flowjax import flows
from flowjax.distributions import AbstractDistribution, Normal, StandardNormal, Transformed
from flowjax.utils import _get_ufunc_signature
from flowjax.wrappers import unwrap

import vlib

jax.config.update("jax_enable_x64", True)          # worker processes import this module directly
jax.config.update("jax_disable_most_optimizations", True)  # hundreds of tiny programs: compile time dominates

ID = "C06"
GEN = []
RULE = ("(a) all lists of 1-2 input shapes x {[()],[s],[s,()]} output shapes over shapes of rank 0-3 with sizes 1-3, plus random lists "
        "(0-4 shapes, rank 0-5, multi-digit sizes) and fuzzed signature strings; (b,c,d) Transformed(StandardNormal(event), "
        "AdditiveCondition(f, event, cond)) and a user-defined conditional distribution (only guarded by _check_shapes) for every event and "
        "condition shape of rank 0-2 (sizes 1-3; quick tier: every event shape x >=4 condition shapes), Normal(loc array) and StandardNormal "
        "(unconditional, with and without a passed condition), conditional coupling flows; sample_shape in {(),(2,),(2,3)}; leading batch "
        "shapes on x and condition from {(),(1,),(2,),(3,),(1,1),(2,1),(1,3),(2,3),(3,1),(2,1,3)} incl. non-broadcastable pairs, "
        "wrong trailing dimensions, too-small rank, condition=None, zero-sized sample shapes and batches ((0,), (2,0), (0,1), (3,0)); every element of every accepted result is compared. "
        "non-trivial = batch shapes are not both () ; distinct = distinct (family, event, cond, method, sample_shape, x batch, cond batch)")
TRUSTED = [
    "Lean 4.33 kernel; axioms propext, Classical.choice, Quot.sound",
    "Model/Vectorize.lean is a hand model of flowjax's batching layer and of jnp.vectorize's signature parsing, broadcasting and "
    "element pairing (validated by this correspondence on every run)",
    "jr.split is abstract in the theorems (assumed injective in the index); its distinctness is measured here",
]
ASSUMPTIONS = [
    "keys are legacy uint32[2] PRNG keys (a typed jr.key(...) makes _get_sample_keys' reshape raise TypeError)",
    "zero-sized sample_shape / condition batch: accepted since /repo commit 2d206ec (key_size = prod(key_shape)); they are part of the "
    "correspondence and of the search oracle; the previous max(1, prod) rule is kept as a model variant (max1_variant_rejects_zero_size)",
    "the unbatched _log_prob/_sample/_sample_and_log_prob are arbitrary functions returning arrays of the declared shapes",
]

METHODS = ("log_prob", "sample", "sample_and_log_prob")
SHAPES2 = [()] + [(a,) for a in (1, 2, 3)] + [(a, b) for a in (1, 2, 3) for b in (1, 2, 3)]
SHAPES3 = SHAPES2 + [(a, b, c) for a in (1, 2, 3) for b in (1, 2, 3) for c in (1, 2, 3)]
BATCHES = [(), (1,), (2,), (3,), (1, 1), (2, 1), (1, 3), (2, 3), (3, 1), (2, 1, 3)]
SAMPLE_SHAPES = [(), (2,), (2, 3)]
TOL = dict(rtol=1e-9, atol=1e-11)


def sh(s):
    return vlib.ints(s)


def osh(s):
    return "none" if s is None else vlib.ints(s)


def psh(tok):
    return () if tok == "-" else tuple(int(t) for t in tok.split(","))


# ------------------------------------------------------------------ real distributions
class CustomCond(AbstractDistribution):
    """A user-defined conditional distribution written by the documented recipe (shape, cond_shape, _log_prob, _sample).
    Its unbatched methods broadcast silently, so `_vectorize`/`_check_shapes` is the ONLY shape check on the path
    (Transformed distributions are also guarded by the bijections' own argument checks)."""

    shape: tuple
    cond_shape: tuple

    def _shift(self, condition):
        return jnp.sum(jnp.sin(0.7 * condition + 0.2))

    def _log_prob(self, x, condition=None):
        n = int(np.prod(self.shape)) if self.shape else 1
        w = 1.0 + 0.1 * jnp.arange(n, dtype=float).reshape(self.shape)
        return -0.5 * jnp.sum(w * (x - self._shift(condition)) ** 2)

    def _sample(self, key, condition=None):
        return jr.normal(key, self.shape) + self._shift(condition)


def make_dist(fam, event, cond, seed=0):
    """A real distribution whose log-density depends on x and on the condition."""
    n = int(np.prod(event)) if event else 1
    offs = jnp.asarray(0.1 * np.arange(1, n + 1, dtype=float).reshape(event))
    if fam == "addcond":
        m = int(np.prod(cond)) if cond else 1
        w = jnp.asarray(0.37 + 0.11 * np.arange(m, dtype=float).reshape(cond))

        def f(c, w=w, offs=offs):
            return jnp.sum(jnp.sin(c * w)) + offs

        return Transformed(StandardNormal(event), B.AdditiveCondition(f, event, cond))
    if fam == "normal":
        return Normal(loc=offs, scale=1.5 + offs)
    if fam == "stdnormal":
        return StandardNormal(event)
    if fam == "lognormal":
        # support (0, inf): about half of the generated points lie outside, where the raw log-density is NaN and the public one -inf
        from flowjax.distributions import LogNormal
        return LogNormal(loc=offs, scale=0.5 + offs)
    if fam == "expcond":
        m = int(np.prod(cond)) if cond else 1
        w = jnp.asarray(0.37 + 0.11 * np.arange(m, dtype=float).reshape(cond))

        def g(c, w=w, offs=offs):
            return jnp.sum(jnp.cos(c * w)) - offs

        return Transformed(Transformed(StandardNormal(event), B.AdditiveCondition(g, event, cond)), B.Exp(event))
    if fam == "custom":
        return CustomCond(tuple(event), tuple(cond))
    if fam == "coupling":
        return flows.coupling_flow(jr.PRNGKey(seed), base_dist=StandardNormal(event), cond_dim=cond[0], flow_layers=1, nn_width=4)
    if fam == "maf":
        return flows.masked_autoregressive_flow(jr.PRNGKey(seed), base_dist=StandardNormal(event), cond_dim=cond[0], flow_layers=1, nn_width=4)
    raise ValueError(fam)


def data(shape, seed):
    rs = np.random.RandomState(seed % (2 ** 31))
    return jnp.asarray(rs.uniform(-1.5, 1.5, size=shape))


class Case:
    """one public call; holds the real outcome"""

    def __init__(self, fam, event, cond, method, ss, xfull, cfull, seed, tag):
        self.fam, self.event, self.cond, self.method = fam, tuple(event), (None if cond is None else tuple(cond)), method
        self.ss, self.xfull, self.cfull, self.seed, self.tag = tuple(ss), tuple(xfull), (None if cfull is None else tuple(cfull)), seed, tag

    def sig(self):
        return (self.fam, self.event, self.cond, self.method, self.ss, self.xfull, self.cfull)

    def desc(self):
        return f"{self.fam}|event={self.event}|cond={self.cond}|{self.method}|ss={self.ss}|x={self.xfull}|c={self.cfull}"

    def inputs(self):
        x = data(self.xfull, self.seed * 7 + 1)
        c = None if self.cfull is None else data(self.cfull, self.seed * 7 + 2)
        key = jr.PRNGKey(self.seed % 100003)
        return x, c, key

    def call(self, dist):
        x, c, key = self.inputs()
        try:
            if self.method == "log_prob":
                out = (dist.log_prob(x, c),)
            elif self.method == "sample":
                out = (dist.sample(key, self.ss, c),)
            else:
                out = tuple(dist.sample_and_log_prob(key, self.ss, c))
            return [np.asarray(o) for o in out], None
        except Exception as ex:  # noqa: BLE001
            return None, type(ex).__name__

    def model_line(self):
        return (f"outshapef {self.method} {sh(self.event)} {osh(self.cond)} {sh(self.ss)} {sh(self.xfull)} {osh(self.cfull)}")


def cases_for(fam, event, cond, rng, tier, full):
    """structured batch inputs for one distribution"""
    ev, cs = tuple(event), (None if cond is None else tuple(cond))
    out = []
    seed = rng.randrange(10 ** 6)
    pairs_ok = [(a, b) for a in BATCHES for b in BATCHES if _broadcasts(a, b)]
    pairs_bad = [(a, b) for a in BATCHES for b in BATCHES if not _broadcasts(a, b)]
    if cs is not None:
        if full:
            lp_pairs = pairs_ok + pairs_bad
        else:
            lp_pairs = [((), ())] + rng.sample([p for p in pairs_ok if 1 in p[0] + p[1] and p[0] != p[1]], 2) + rng.sample(pairs_ok, 2) + rng.sample(pairs_bad, 1)
        for xb, cb in lp_pairs:
            out.append(Case(fam, ev, cs, "log_prob", (), xb + ev, cb + cs, seed, "lattice"))
        # wrong trailing dims / too small rank / None condition / zero-sized batch
        bad_ev = tuple(d + 1 for d in ev) if ev else (2,)
        bad_cs = tuple(d + 1 for d in cs) if cs else (2,)
        extra = [((2,) + bad_ev, (2,) + cs, "x-trailing"), ((2,) + ev, (2,) + bad_cs, "cond-trailing"), ((2,) + ev, None, "cond-none"),
                 ((0,) + ev, (1,) + cs, "zero-batch")]
        if ev:
            extra.append((ev[1:], cs, "x-rank"))
        if cs:
            extra.append((ev, cs[1:], "cond-rank"))
        if len(ev) == 2 and ev[0] != ev[1]:
            extra.append(((2,) + ev[::-1], cs, "x-transposed"))
        if not full:
            extra = rng.sample(extra, 3)
        for xf, cf, tag in extra:
            # scalar event: (2,)+bad_ev is just a batch of scalars — still a legitimate case, the model decides
            out.append(Case(fam, ev, cs, "log_prob", (), xf, cf, seed, tag))
        combos = [(ss, cb) for ss in SAMPLE_SHAPES for cb in [(), (1,), (2,), (2, 1), (1, 3)]]
        if not full:
            combos = [((), ())] + rng.sample(combos[1:], 2)
        for ss, cb in combos:
            for m in ("sample", "sample_and_log_prob"):
                out.append(Case(fam, ev, cs, m, ss, (), cb + cs, seed, "lattice"))
        sx = [((2,), (2,) + bad_cs, "cond-trailing"), ((2,), None, "cond-none"), ((0,), (2,) + cs, "zero-sample-shape"), ((2,), (0,) + cs, "zero-cond-batch"),
              ((2, 0), cs, "zero-sample-shape"), ((), (0, 1) + cs, "zero-cond-batch"), ((0,), (3, 0) + cs, "zero-both"), ((0,), (2,) + bad_cs, "zero-and-cond-trailing")]
        if cs:
            sx.append(((2,), cs[1:], "cond-rank"))
        if not full:
            sx = rng.sample(sx, 4)
        for ss, cf, tag in sx:
            out.append(Case(fam, ev, cs, rng.choice(["sample", "sample_and_log_prob"]), ss, (), cf, seed, tag))
    else:
        xbs = BATCHES if full else [()] + rng.sample(BATCHES[1:], 3)
        for xb in xbs:
            out.append(Case(fam, ev, None, "log_prob", (), xb + ev, None, seed, "lattice"))
        # a passed condition is ignored by an unconditional distribution
        out.append(Case(fam, ev, None, "log_prob", (), (2,) + ev, (5, 4), seed, "ignored-cond"))
        bad_ev = tuple(d + 1 for d in ev) if ev else (2,)
        if ev:
            out.append(Case(fam, ev, None, "log_prob", (), (2,) + bad_ev, None, seed, "x-trailing"))
            out.append(Case(fam, ev, None, "log_prob", (), ev[1:], None, seed, "x-rank"))
        for ss in SAMPLE_SHAPES + [(0,), (2, 0)]:
            for m in ("sample", "sample_and_log_prob"):
                out.append(Case(fam, ev, None, m, ss, (), None if ss != (2,) else (5, 4), seed, "lattice" if 0 not in ss else "zero-sample-shape"))
    return out


def _broadcasts(a, b):
    try:
        np.broadcast_shapes(a, b)
        return True
    except ValueError:
        return False


def dist_grid(tier, rng):
    """(family, event, cond, full lattice?).  thorough: every (event, cond) pair of rank 0-2, sizes 1-3; quick: every event
    shape with four condition shapes (one of each rank + one more), every unconditional event shape."""
    grid = []
    full = tier != "quick"
    by_rank = {r: [s for s in SHAPES2 if len(s) == r] for r in (0, 1, 2)}
    for ev in SHAPES2:
        conds = SHAPES2 if full else [(), rng.choice(by_rank[1]), rng.choice(by_rank[2]), rng.choice(SHAPES2[1:])]
        for j, cs in enumerate(dict.fromkeys(conds)):
            grid.append(("addcond", ev, cs, full))
            if full or j % 2 == 1:
                grid.append(("custom", ev, cs, full and j % 3 == 0))
        grid.append(("normal", ev, None, full))
        grid.append(("stdnormal", ev, None, full))
        grid.append(("lognormal", ev, None, False))
        grid.append(("expcond", ev, rng.choice(SHAPES2), False))
    for d, k in ([(2, 1), (3, 2)] if not full else [(2, 1), (2, 3), (3, 2), (3, 1)]):
        grid.append(("coupling", (d,), (k,), full))
    if full:
        grid.append(("maf", (3,), (2,), True))
    return grid


def unbatched_fns(dist):
    """UNBATCHED reference calls: the public log_prob on one slice, the private samplers on one key and one condition slice
    (not jitted: compiling three functions per distribution costs more than the op-by-op calls)"""
    u = unwrap(dist)
    return (lambda x, c: dist.log_prob(x, c)), (lambda k, c: u._sample(k, c)), (lambda k, c: u._sample_and_log_prob(k, c))


# ------------------------------------------------------------------ (a) signatures
def corr_signature(c, tier, rng):
    lines, wants, infos = [], [], []
    full = tier != "quick"
    ins_all = [[s] for s in SHAPES3] + [[s, t] for s in SHAPES3 for t in SHAPES3]
    for ins in ins_all:
        outs_all = [[()], [ins[0]], [ins[0], ()]]
        if full:
            outs_all = [[()]] + [[s] for s in SHAPES3] + [[s, ()] for s in SHAPES3]
        for outs in outs_all:
            lines.append("sig " + " ".join(sh(s) for s in ins) + " -> " + " ".join(sh(s) for s in outs))
            wants.append(_get_ufunc_signature(ins, outs)); infos.append((ins, outs))
            c.case(("sig", tuple(ins), tuple(outs)), any(len(s) >= 1 for s in ins))
            c.count("sig:lattice")
    sizes = [0, 1, 2, 7, 9, 10, 11, 12, 99, 100, 101, 999, 1000, 65536, 123456, 10 ** 9]
    for _ in range(1500 if not full else 20000):
        ins = [tuple(rng.choice(sizes) for _ in range(rng.choice([0, 1, 1, 2, 3, 4, 5]))) for _ in range(rng.choice([0, 1, 1, 2, 2, 3, 4]))]
        outs = [tuple(rng.choice(sizes) for _ in range(rng.choice([0, 0, 1, 2, 3]))) for _ in range(rng.choice([0, 1, 1, 2, 3]))]
        lines.append("sig " + " ".join(sh(s) for s in ins) + " -> " + " ".join(sh(s) for s in outs))
        wants.append(_get_ufunc_signature(ins, outs)); infos.append((ins, outs))
        c.case(("sig", tuple(ins), tuple(outs)), True)
        c.count("sig:random")
    got = vlib.run_model(lines)
    for line, g, w, (ins, outs) in zip(lines, got, wants, infos):
        if g != w:
            c.mismatch("ufuncSignature-vs-_get_ufunc_signature", op=line, model=g, impl=w)
    c.samples.append({"op": lines[1], "impl": wants[1], "model": got[1]})
    # ---- parser
    try:
        from jax._src.numpy.vectorize import _parse_gufunc_signature
    except Exception as ex:  # noqa: BLE001
        c.notes.append("jax._src.numpy.vectorize._parse_gufunc_signature not importable: " + repr(ex)[:100])
        return
    strs = list(dict.fromkeys(wants))
    rng.shuffle(strs)
    strs = strs[: (3000 if not full else 30000)]
    alphabet = "()0123456789,->"
    fuzz = []
    for s in strs[:1500]:
        t = list(s)
        for _ in range(rng.choice([1, 1, 2])):
            op = rng.choice("idr")
            pos = rng.randrange(len(t) + 1)
            if op == "i":
                t.insert(pos, rng.choice(alphabet))
            elif op == "d" and t:
                t.pop(min(pos, len(t) - 1))
            elif t:
                t[min(pos, len(t) - 1)] = rng.choice(alphabet)
        fuzz.append("".join(t))
    for _ in range(1500):
        fuzz.append("".join(rng.choice("()01,->") for _ in range(rng.randrange(1, 12))))
    fuzz = [f for f in dict.fromkeys(fuzz) if f and " " not in f]
    plines, pw = [], []
    for s in strs + fuzz:
        try:
            a, b = _parse_gufunc_signature(s)
            want = " ".join(sh(int(n) for n in arg) for arg in a) + " -> " + " ".join(sh(int(n) for n in arg) for arg in b)
        except ValueError:
            want = "none"
        plines.append("parsesig " + s); pw.append(want)
        c.case(("parsesig", s), want != "none")
        c.count("parsesig:" + ("accepted" if want != "none" else "rejected"))
    pg = vlib.run_model(plines)
    for line, g, w in zip(plines, pg, pw):
        if g != w:
            c.mismatch("parseSignature-vs-_parse_gufunc_signature", op=line, model=g, impl=w)
    # bshape vs numpy on all pairs/triples of batch shapes
    blines, bw = [], []
    pool = BATCHES + [(0,), (0, 1), (4, 1, 1), (1, 1, 1)]
    combos = [(a, b) for a in pool for b in pool] + [tuple(rng.choice(pool) for _ in range(3)) for _ in range(300)] + [(), (pool[3],)]
    for shapes in combos:
        try:
            want = sh(np.broadcast_shapes(*shapes))
            if len(shapes) == 2 and sh(jax.lax.broadcast_shapes(*shapes)) != want:
                c.mismatch("numpy-vs-lax-broadcast_shapes", shapes=shapes)
        except ValueError:
            want = "ValueError"
        blines.append("bshape " + " ".join(sh(s) for s in shapes)); bw.append(want)
        c.case(("bshape", shapes), want != "ValueError" and len(set(shapes)) > 1)
        c.count("bshape")
    for line, g, w in zip(blines, vlib.run_model(blines), bw):
        if g != w:
            c.mismatch("broadcastShapes-vs-numpy", op=line, model=g, impl=w)


# ------------------------------------------------------------------ (b)(c)(d)
def _worker(args):
    chunk, tier, seed = args
    c = vlib.Corr(ID, seed, tier)
    corr_dists(c, tier, random.Random(seed), chunk)
    r = c.result()
    r["nontrivial_sigs"] = list(c.nontrivial)
    return r


def corr(c, tier, rng):
    corr_signature(c, tier, rng)
    grid = dist_grid(tier, rng)
    rng.shuffle(grid)
    jobs = int(os.environ.get("VERIF_JOBS", "0") or 0) or max(1, min(8 if tier != "quick" else 6, (os.cpu_count() or 2) // 2))
    chunks = [(grid[i::jobs * 3], tier, rng.randrange(2 ** 31)) for i in range(jobs * 3)]
    chunks = [ch for ch in chunks if ch[0]]
    if jobs == 1:
        results = [_worker(ch) for ch in chunks]
    else:
        import multiprocessing as mp
        with mp.get_context("spawn").Pool(jobs) as pool:
            results = pool.map(_worker, chunks, chunksize=1)
    for r in results:
        c.evaluations += r["evaluations"]
        c.nontrivial |= {_freeze(sg) for sg in r["nontrivial_sigs"]}
        for m in r["mismatches"]:
            c.mismatch(m.pop("correspondence"), **m)
        for k, v in r["distribution"].items():
            if not k.startswith("mismatch:"):
                c.count(k, v)
        for smp in r["samples"]:
            if len(c.samples) < 12:
                c.samples.append(smp)
    c.count("worker_processes", jobs)
    c.notes.append("zero-sized sample_shape/condition batch are accepted by model and implementation (repaired in /repo 2d206ec); typed jr.key keys are outside the model")


def _freeze(x):
    return tuple(_freeze(v) for v in x) if isinstance(x, (list, tuple)) else x


def _check_elements(c, case, dist, outs, plist, key_line, fns_):
    """(c) element-wise equality with the unbatched call on the model's pair, (d) keys / distinct draws / determinism"""
    lp, smp, slp = fns_
    x, cnd, key = case.inputs()
    ev = case.event
    cflat = None if case.cond is None else np.asarray(cnd).reshape((-1,) + case.cond)
    bad = None
    if case.method == "log_prob":
        xflat = np.asarray(x).reshape((-1,) + ev)
        oflat = outs[0].reshape(-1)
        for k, o in plist:
            idx = psh(o) if o != "ValueError" else None
            if idx is None:
                bad = dict(k=k, model=o); break
            ref = float(lp(jnp.asarray(xflat[idx[0]]), None if case.cond is None else jnp.asarray(cflat[idx[1]])))
            c.count("elementwise:log_prob")
            if not vlib.close(float(oflat[k]), ref, **TOL):
                bad = dict(k=k, pair=idx, batched=float(oflat[k]), unbatched=ref); break
    else:
        keys = np.asarray(dist._get_sample_keys(key, case.ss, cnd))
        # ---- (d) keys
        ks_model, size_model = key_line.split(" ")
        size = int(np.prod(keys.shape[:-1]))
        if keys.shape != psh(ks_model) + (2,) or int(size_model) != size:
            c.mismatch("keyShape-vs-_get_sample_keys", case=case.desc(), model=key_line, impl=list(keys.shape))
        kflat = keys.reshape(-1, 2)
        if not np.array_equal(kflat, np.asarray(jr.split(key, size)).reshape(-1, 2)):
            c.mismatch("keys-are-row-major-reshape-of-split", case=case.desc())
        if len({tuple(r) for r in kflat.tolist()}) != len(kflat):
            c.mismatch("keys-distinct", case=case.desc())
        c.count("keys")
        sflat = outs[0].reshape((-1,) + ev)
        lflat = outs[1].reshape(-1) if case.method == "sample_and_log_prob" else None
        for k, o in plist:
            idx = psh(o) if o != "ValueError" else None
            if idx is None:
                bad = dict(k=k, model=o); break
            kk = jnp.asarray(kflat[idx[0]])
            cc = None if case.cond is None else jnp.asarray(cflat[idx[1]])
            c.count("elementwise:" + case.method)
            if case.method == "sample":
                ref = np.asarray(smp(kk, cc))
                ok = ref.shape == ev and np.allclose(sflat[k], ref, **TOL)
            else:
                r1, r2 = slp(kk, cc)
                ok = np.asarray(r1).shape == ev and np.allclose(sflat[k], np.asarray(r1), **TOL) and vlib.close(float(lflat[k]), float(r2), **TOL)
            if not ok:
                bad = dict(k=k, pair=idx); break
        # no repeated draws; same key => same result
        rows = {tuple(np.round(r.reshape(-1), 14).tolist()) for r in sflat}
        if len(rows) != len(sflat):
            c.mismatch("batched-sample-elements-distinct", case=case.desc(), n=len(sflat), distinct=len(rows))
        outs2, exc2 = case.call(dist)
        if outs2 is None or not all(np.array_equal(a, b) for a, b in zip(outs, outs2)):
            c.mismatch("same-key-same-result", case=case.desc())
    if bad is not None:
        c.mismatch("element-vs-unbatched-call-on-model-pair", case=case.desc(), **bad)


def corr_dists(c, tier, rng, grid):
    """(b)(c)(d) for the distributions of `grid` (runs in a worker process)"""
    records = []  # (case, dist index, real outputs, real exception)
    dists = []
    for fam, ev, cs, full in grid:
        dist = make_dist(fam, ev, cs, seed=rng.randrange(1000))
        dists.append(dist)
        for case in cases_for(fam, ev, cs, rng, tier, full):
            outs, exc = case.call(dist)
            records.append((case, len(dists) - 1, outs, exc))
    # ---- (b) shapes / exception classes
    lines = [r[0].model_line() for r in records]
    got = vlib.run_model(lines)
    pair_lines, pair_owner = [], []
    key_lines, key_owner = [], []
    accepted = []
    for ri, ((case, di, outs, exc), g, line) in enumerate(zip(records, got, lines)):
        want = exc if outs is None else " ".join(sh(o.shape) for o in outs)
        nontriv = case.tag != "lattice" or case.ss != () or (case.xfull != case.event) or (case.cfull is not None and case.cfull != case.cond)
        c.case(case.sig(), nontriv, sample={"op": line, "impl": want, "model": g} if ri % 997 == 3 else None)
        c.count(f"{case.method}:{case.tag}:" + ("raises" if outs is None else "ok"))
        if g != want:
            c.mismatch("outShape-vs-impl", op=line, model=g, impl=want, case=case.desc())
            continue
        if outs is None:
            continue
        # ---- (c) pairing: which flat element of each argument feeds output element k
        ev_n = len(case.event)
        if case.method == "log_prob":
            xb = case.xfull[: len(case.xfull) - ev_n]
            leads = [xb] + ([] if case.cond is None else [case.cfull[: len(case.cfull) - len(case.cond)]])
        else:
            cb = () if case.cond is None else case.cfull[: len(case.cfull) - len(case.cond)]
            leads = [case.ss + cb] + ([] if case.cond is None else [cb])
            key_lines.append(f"keyshape {osh(case.cond)} {sh(case.ss)} {osh(case.cfull)}"); key_owner.append(ri)
        loop = outs[-1].shape if case.method != "sample" else outs[0].shape[: outs[0].ndim - ev_n]
        n = int(np.prod(loop))
        accepted.append(ri)
        for k in range(n):
            pair_lines.append("pair " + " ".join(sh(l) for l in leads) + f" {k}"); pair_owner.append((ri, k))
    pair_out = vlib.run_model(pair_lines)
    by_rec = {ri: [] for ri in accepted}
    for (ri, k), o in zip(pair_owner, pair_out):
        by_rec.setdefault(ri, []).append((k, o))
    key_out = dict(zip(key_owner, vlib.run_model(key_lines)))
    fns = {}
    for ri, plist in by_rec.items():
        case, di, outs, exc = records[ri]
        if di not in fns:
            fns[di] = unbatched_fns(dists[di])
        try:
            _check_elements(c, case, dists[di], outs, plist, key_out.get(ri), fns[di])
        except Exception as ex:  # noqa: BLE001  (an index/shape error here means the real arrays do not have the model's layout)
            c.mismatch("element-check-raised", case=case.desc(), exc=f"{type(ex).__name__}: {str(ex)[:160]}")
    c.count("distributions", len(dists))


# ------------------------------------------------------------------ oracle on the real code only
def oracle_case(fam, event, cond, method, ss, xb, cb, seed):
    """C06's own statement evaluated with NumPy as the reference for broadcasting; returns a list of violation strings."""
    ev, cs = tuple(event), (None if cond is None else tuple(cond))
    dist = make_dist(fam, ev, cs, seed=seed % 1000)
    u = unwrap(dist)
    xb, cb, ss = tuple(xb), tuple(cb), tuple(ss)
    if method == "reject":
        # arguments whose trailing dimensions are not the declared shapes have no batch shape at all: the call must raise
        v = []
        trials = []
        if ev:
            trials.append(("x", lambda: dist.log_prob(data((2,) + tuple(d + 1 for d in ev), seed), None if cs is None else data((2,) + cs, seed + 1))))
        if cs:
            bad_c = data((2,) + tuple(d + 1 for d in cs), seed + 1)
            trials.append(("condition", lambda: dist.log_prob(data((2,) + ev, seed), bad_c)))
            trials.append(("condition(sample)", lambda: dist.sample(jr.PRNGKey(seed % 1000), (2,), bad_c)))
        for name, f in trials:
            try:
                r = f()
                v.append(f"accepted {name} with wrong trailing dimensions (returned shape {tuple(r.shape)})")
            except Exception:  # noqa: BLE001
                pass
        return v
    x = data(xb + ev, seed * 7 + 1)
    c = None if cs is None else data(cb + cs, seed * 7 + 2)
    key = jr.PRNGKey(seed % 100003)
    v = []
    if method == "log_prob":
        try:
            loop = np.broadcast_shapes(xb, cb) if cs is not None else xb
        except ValueError:
            loop = None
        try:
            out = np.asarray(dist.log_prob(x, c))
        except Exception as ex:  # noqa: BLE001
            return [] if loop is None else [f"raised {type(ex).__name__} on broadcastable batch shapes"]
        if loop is None:
            return ["accepted non-broadcastable batch shapes"]
        if out.shape != tuple(loop):
            return [f"shape {out.shape} != broadcast {tuple(loop)}"]
        xbr = np.broadcast_to(np.asarray(x), tuple(loop) + ev)
        cbr = None if cs is None else np.broadcast_to(np.asarray(c), tuple(loop) + cs)
        for i in np.ndindex(*loop):
            ref = float(dist.log_prob(jnp.asarray(xbr[i]), None if cs is None else jnp.asarray(cbr[i])))
            if not vlib.close(float(out[i]), ref, rtol=1e-8, atol=1e-10):
                v.append(f"element {i}: batched {float(out[i])!r} != unbatched {ref!r}")
                break
        return v
    cbb = cb if cs is not None else ()
    want = ss + cbb
    try:
        if method == "sample":
            s, lp = np.asarray(dist.sample(key, ss, c)), None
        else:
            s, lp = (np.asarray(a) for a in dist.sample_and_log_prob(key, ss, c))
    except Exception as ex:  # noqa: BLE001
        return [f"raised {type(ex).__name__}"]
    if s.shape != want + ev or (lp is not None and lp.shape != want):
        return [f"shape {s.shape} != sample_shape + cond batch + event {want + ev}"]
    keys = np.asarray(dist._get_sample_keys(key, ss, c))
    if keys.shape != want + (2,):
        return [f"key shape {keys.shape} != sample_shape + cond batch + (2,) {want + (2,)}"]
    flatk = keys.reshape(-1, 2)
    if len({tuple(r) for r in flatk.tolist()}) != len(flatk):
        v.append("repeated keys")
    flat = s.reshape((-1,) + ev)
    if len({tuple(np.round(r.reshape(-1), 14).tolist()) for r in flat}) != len(flat):
        v.append("repeated draws in one batched sample")
    for i in np.ndindex(*want):
        ci = None if cs is None else jnp.asarray(np.asarray(c)[i[len(ss):]])
        if method == "sample":
            ref = np.asarray(u._sample(jnp.asarray(keys[i]), ci))
            ok = np.allclose(s[i], ref, rtol=1e-8, atol=1e-10)
        else:
            r1, r2 = u._sample_and_log_prob(jnp.asarray(keys[i]), ci)
            ok = np.allclose(s[i], np.asarray(r1), rtol=1e-8, atol=1e-10) and vlib.close(float(lp[i]), float(r2), rtol=1e-8, atol=1e-10)
        if not ok:
            v.append(f"element {i} differs from the unbatched call with its own key and condition slice")
            break
    again = np.asarray(dist.sample(key, ss, c)) if method == "sample" else np.asarray(dist.sample_and_log_prob(key, ss, c)[0])
    if not np.array_equal(again, s):
        v.append("same key gave a different result")
    return v


def safe_oracle(*a):
    try:
        return oracle_case(*a)
    except Exception as ex:  # noqa: BLE001  (never happens on the unmodified repository)
        return [f"oracle raised {type(ex).__name__}: {str(ex)[:120]}"]


def search(hints, tier, rng):
    wit = []
    full = tier != "quick"
    fams = ([(f, ev, cs) for ev in SHAPES2 for cs in SHAPES2 for f in ("addcond", "custom")] + [(f, ev, None) for ev in SHAPES2 for f in ("normal", "stdnormal")]
            + [("coupling", (2,), (1,)), ("coupling", (3,), (2,))])
    # batches that mix in-support and out-of-support points (raw NaN -> public -inf, element by element)
    edge = [("lognormal", ev, None) for ev in SHAPES2[:4]] + [("expcond", ev, cs) for ev in SHAPES2[:3] for cs in SHAPES2[1:3]]
    if not full:
        fams = rng.sample(edge, 4) + rng.sample(fams[:-2], 40) + fams[-2:]
    else:
        fams = edge + fams
    for fam, ev, cs in fams:
        seed = rng.randrange(10 ** 6)
        trials = []
        pairs = [(a, b) for a in BATCHES for b in BATCHES]
        for xb, cb in rng.sample(pairs, 12 if full else 4):
            trials.append(("log_prob", (), xb, cb))
        for ss in SAMPLE_SHAPES:
            for cb in rng.sample([(), (2,), (2, 1), (1, 3)], 2 if full else 1):
                trials.append((rng.choice(["sample", "sample_and_log_prob"]), ss, (), cb))
        # zero-sized sample shapes / condition batches / x batches: accepted, shapes as usual, no element
        zs = [((0,), (2,)), ((2,), (0,)), ((2, 0), ()), ((), (0, 1)), ((0,), (3, 0))]
        for ss, cb in (zs if full else rng.sample(zs, 2)):
            trials.append((rng.choice(["sample", "sample_and_log_prob"]), ss, (), cb))
        trials.append(("log_prob", (), (0,), (1,)))
        if fam in ("custom", "stdnormal"):
            trials.append(("reject", (), (), ()))
        for method, ss, xb, cb in trials:
            for msg in safe_oracle(fam, ev, cs, method, ss, xb, cb, seed):
                wit.append(dict(key=f"{fam}|{ev}|{cs}|{method}|ss={ss}|xb={xb}|cb={cb}|{msg.split(':')[0][:40]}", fam=fam, event=list(ev),
                                cond=None if cs is None else list(cs), method=method, ss=list(ss), xb=list(xb), cb=list(cb), seed=seed, what=msg))
                if len(wit) >= 5:
                    return wit
    return wit


def replay(w):
    return bool(safe_oracle(w["fam"], w["event"], w["cond"], w["method"], w["ss"], w["xb"], w["cb"], w["seed"]))
