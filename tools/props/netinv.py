"""Correspondence for `lean/Flowjaxv/Model/NetInverse.lean` (inverse passes and `…_and_log_det` of the NETWORK bijections).

The model's `mafBij` / `couplingBij` (four methods, Affine transformer) and the bisection inverter applied to the BNAF
model (`autoregressiveBisection (bnafInvFn …)`) are run at Float on the RAW arrays of real objects whose leaves were
overwritten with arbitrary values, and compared with the real `transform_and_log_det`, `inverse_and_log_det`
(MaskedAutoregressive: the `dim`-pass `lax.scan`; Coupling; BlockAutoregressiveNetwork: `AutoregressiveBisectionInverter`).

Usage from a property harness (C01 / C02):   import netinv;  netinv.corr_net(c, tier, rng)
The same run also evaluates the property's own oracle on the real code: round trips and `slogdet(jacfwd)`.
"""
from __future__ import annotations

import jax
import jax.numpy as jnp
import numpy as np

import flowjax.bijections as B
from flowjax.bisection_search import AutoregressiveBisectionInverter

import vlib
from vlib import fs2b, f2b, b2fs, b2f

try:                      # imported as `props.netinv` by the harnesses, as `netinv` from a scratch script
    from props import c09 as S   # builders / extractors shared with the structural correspondence
except ImportError:
    import c09 as S

TOL = dict(rtol=1e-8, atol=1e-10)


def _configs(tier):
    if tier == "quick":
        maf = [(1, None, 3, 1), (1, 2, 2, 2), (2, None, 1, 1), (3, 1, 3, 0), (3, None, 2, 2), (4, 3, 5, 1), (5, None, 7, 3)]
        coup = [(1, 2, None, 3, 1), (2, 5, 2, 4, 0), (3, 4, 1, 2, 2), (0, 3, None, 2, 1), (3, 3, 1, 2, 1)]
        bn = [(1, None, 0, 1), (3, 2, 0, 2), (2, None, 1, 3), (3, 1, 2, 2)]
    else:
        maf = [(d, cd, w, dep) for d in range(1, 6) for cd in (None, 1, 3) for w in (1, 3, 7) for dep in range(0, 4)]
        coup = [(u, d, cd, w, dep) for d in range(1, 6) for u in range(0, d + 1) for cd in (None, 2) for w in (1, 4) for dep in (0, 2)]
        bn = [(d, cd, dep, bd) for d in range(1, 5) for cd in (None, 2) for dep in range(0, 3) for bd in (1, 3)]
    return maf, coup, bn


def corr_net(c, tier, rng):
    maf, coup, bn = _configs(tier)
    init = S.affine_init()
    lines, checks = [], []
    acts = list(S.ACTS)
    for ci, (dim, cd, w, depth) in enumerate(maf):
        for mode in ("rand", "pos"):
            act = acts[(ci + (mode == "pos")) % 3]
            bij = S.overwrite(B.MaskedAutoregressive(S.KEY, transformer=B.Affine(), dim=dim, cond_dim=cd, nn_width=w, nn_depth=depth,
                                                     nn_activation=S.ACTS[act]), rng, mode, mag=2.0)
            x = jnp.asarray([rng.uniform(-2.0, 2.0) for _ in range(dim)])
            y_in = jnp.asarray([rng.uniform(-2.0, 2.0) for _ in range(dim)])     # an arbitrary point, not an image
            cond = None if cd is None else jnp.asarray([rng.uniform(-1.0, 1.0) for _ in range(cd)])
            yt, ld = bij.transform_and_log_det(x, cond)
            xi, ldi = bij.inverse_and_log_det(y_in, cond)
            line = (f"mafbij {act} {dim} {S.cd_tok(cd)} {w} {depth} 2 {fs2b(x)} {fs2b(y_in)} {fs2b(cond) if cond is not None else '-'} {fs2b(init)} "
                    + " ".join(S.maf_layer_fields(bij)))
            lines.append(line)
            info = dict(kind="maf", dim=dim, cond_dim=cd, width=w, depth=depth, mode=mode, act=act)
            checks.append(("four", (list(np.asarray(yt)), float(ld), list(np.asarray(xi)), float(ldi)), info))
            c.case(("maf-bij", dim, cd, w, depth, mode), True, sample={"op": line[:160], "impl_inverse": list(np.asarray(xi))} if ci == 4 and mode == "rand" else None)
            c.count("net:maf:" + mode)
            _oracle(c, bij, x, y_in, cond, info)
    for ci, (ud, dim, cd, w, depth) in enumerate(coup):
        if ud == 0 and cd is None:
            continue   # eqx.nn.MLP(in_size=0) — not constructible
        for mode in ("rand", "pos"):
            act = acts[(ci + (mode == "pos")) % 3]
            try:
                cp0 = B.Coupling(S.KEY, transformer=B.Affine(), untransformed_dim=ud, dim=dim, cond_dim=cd, nn_width=w, nn_depth=depth, nn_activation=S.ACTS[act])
            except Exception as e:  # degenerate sizes the constructor refuses
                c.count("net:coupling:ctor-refused")
                continue
            cp = S.overwrite(cp0, rng, mode, mag=2.0)
            x = jnp.asarray([rng.uniform(-2.0, 2.0) for _ in range(dim)])
            y_in = jnp.asarray([rng.uniform(-2.0, 2.0) for _ in range(dim)])
            cond = None if cd is None else jnp.asarray([rng.uniform(-1.0, 1.0) for _ in range(cd)])
            if ud >= dim:
                # nothing is transformed: the constructor accepts, every method raises (reshape to (0, -1)); the model
                # (total) returns x unchanged.  Outside the guard `untransformed_dim < dim` of the theorems' reading.
                try:
                    cp.transform(x, cond)
                    c.mismatch("net-coupling-untransformed_dim>=dim-did-not-raise", untransformed_dim=ud, dim=dim)
                except ZeroDivisionError:
                    c.count("net:coupling:untransformed_dim>=dim raises ZeroDivisionError")
                continue
            yt, ld = cp.transform_and_log_det(x, cond)
            xi, ldi = cp.inverse_and_log_det(y_in, cond)
            fields = []
            for l in cp.conditioner.layers:
                fields += [fs2b(np.ravel(np.asarray(l.weight))), fs2b(np.ravel(np.asarray(l.bias)))]
            line = f"couplingbij {act} {ud} {dim} {S.cd_tok(cd)} {w} {depth} {fs2b(x)} {fs2b(y_in)} {fs2b(cond) if cond is not None else '-'} {fs2b(init)} " + " ".join(fields)
            lines.append(line)
            info = dict(kind="coupling", untransformed_dim=ud, dim=dim, cond_dim=cd, width=w, depth=depth, mode=mode, act=act)
            checks.append(("four", (list(np.asarray(yt)), float(ld), list(np.asarray(xi)), float(ldi)), info))
            c.case(("coupling-bij", ud, dim, cd, w, depth, mode), True)
            c.count("net:coupling:" + mode)
            _oracle(c, cp, x, y_in, cond, info)
    for ci, (dim, cd, depth, bd) in enumerate(bn):
        for mode in ("rand", "pos"):
            inv = AutoregressiveBisectionInverter(lower=-3.0, upper=2.0, tol=1e-9, max_iter=200)
            net = S.overwrite(B.BlockAutoregressiveNetwork(S.KEY, dim=dim, cond_dim=cd, depth=depth, block_dim=bd, activation=jnp.tanh, inverter=inv), rng, mode, mag=1.5)
            # the inverter's own fields are inexact arrays too: restore them after the overwrite
            net = jax.tree_util.tree_map(lambda a: a, net)
            import equinox as eqx
            net = eqx.tree_at(lambda n: n.inverter, net, inv)
            x = jnp.asarray([rng.uniform(-1.5, 1.5) for _ in range(dim)])
            cond = None if cd is None else jnp.asarray([rng.uniform(0.1, 1.0) for _ in range(cd)])
            y = net.transform(x, cond)                         # an image, so the roots exist (tanh is not onto)
            xi = np.asarray(net.inverse(y, cond))
            fields = []
            for raw, b, s in S.bnaf_raw(net):
                fields += [fs2b(np.ravel(raw)), fs2b(b), fs2b(s)]
            cmat = fs2b(np.ravel(np.asarray(net.cond_linear.weight))) if cd is not None else "-"
            line = (f"bnafinv tanh {dim} {S.cd_tok(cd)} {depth} {bd} {fs2b(np.asarray(y))} {fs2b(cond) if cond is not None else '-'} {cmat} "
                    f"{f2b(-3.0)} {f2b(2.0)} {f2b(1e-9)} 200 400 " + " ".join(fields))
            lines.append(line)
            info = dict(kind="bnaf", dim=dim, cond_dim=cd, depth=depth, block_dim=bd, mode=mode)
            checks.append(("bnafinv", (list(xi), list(np.asarray(x))), info))
            c.case(("bnaf-inverse", dim, cd, depth, bd, mode), True)
            c.count("net:bnaf:" + mode)
    outs = vlib.run_model(lines)
    for line, got, (kind, want, info) in zip(lines, outs, checks):
        if got.startswith("ERR"):
            c.mismatch("net-model-rejected-op", op=line[:300], model=got, **info)
            continue
        if kind == "four":
            a, b, cc, d = got.split(" ")
            names = ("transform", "forward-log-det", "inverse", "inverse-log-det")
            vals = (b2fs(a), [b2f(b)], b2fs(cc), [b2f(d)])
            wants = (want[0], [want[1]], want[2], [want[3]])
            # Lean's Float has no log1p: the driver's softplus substitute is only ABSOLUTELY accurate below 1e-11
            # (DESIGN §10), so where a scale softplus(raw) is tiny (|log-det| large / a huge inverse coordinate) the
            # quotient (y - loc)/scale is not comparable at rtol 1e-8; those cases are counted, not compared.
            ok_f = np.isfinite(want[1]) and abs(want[1]) <= 12.0 and np.all(np.isfinite(want[0]))
            ok_i = (np.isfinite(want[3]) and abs(want[3]) <= 12.0 and np.all(np.isfinite(want[2]))
                    and (max([abs(t) for t in want[2]] or [0.0]) <= 1e3))
            for nm, v, wv, ok in zip(names, vals, wants, (ok_f, ok_f, ok_i, ok_i)):
                if not ok:
                    c.count(f"net:{info['kind']}:{nm} ill-conditioned (tiny softplus scale), not compared")
                    continue
                if not vlib.allclose(v, wv, **TOL):
                    c.mismatch(f"net-{info['kind']}-{nm}-vs-impl", op=line[:300], model=v, impl=wv, **info)
        elif kind == "bnafinv":
            if got in ("nofuel", "valueerror"):
                c.mismatch("net-bnaf-inverse-model-" + got, op=line[:300], **info)
                continue
            m = b2fs(got)
            impl, truth = want
            # both run the same bisection; tanh differs by an ulp between libm and XLA, so compare at the search tolerance scale
            if not vlib.allclose(m, impl, rtol=0.0, atol=1e-6):
                c.mismatch("net-bnaf-inverse-vs-impl", op=line[:300], model=m, impl=impl, **info)


def _oracle(c, bij, x, y_in, cond, info):
    """the properties' own oracles on the real object (C01 round trips, C02 slogdet of the autodiff Jacobian);
    tolerances scale with the conditioning exp|log-det|·max|point|; float under/overflow of softplus(raw scale)
    (an `inf` coordinate) is counted and skipped — over ℝ the scale is > 0 (C11), the theorems are over ℝ"""
    def cnd(pt, ld):
        return max(1.0, float(np.exp(min(abs(ld), 50.0)))) * max(1.0, float(np.max(np.abs(np.asarray(pt)))) if len(pt) else 1.0)
    y, ld = bij.transform_and_log_det(x, cond)
    ld = float(ld)
    k = cnd(x, ld) * cnd(y, ld)
    if not (np.all(np.isfinite(np.asarray(y))) and np.isfinite(ld)) or k > 1e5:
        c.count("net:oracle:forward ill-conditioned, skipped")
    else:
        if not vlib.allclose(list(np.asarray(bij.inverse(y, cond))), list(np.asarray(x)), rtol=1e-9 * k, atol=1e-10 * k):
            c.mismatch("net-oracle-inverse-of-transform", x=list(np.asarray(x)), **info)
        J = jax.jacfwd(lambda z: bij.transform(z, cond))(x)
        _, logabs = np.linalg.slogdet(np.asarray(J))
        if not vlib.close(ld, float(logabs), rtol=1e-8, atol=1e-9 * k):
            c.mismatch("net-oracle-logdet-vs-slogdet", x=list(np.asarray(x)), returned=ld, slogdet=float(logabs), **info)
        if not vlib.close(float(bij.inverse_and_log_det(y, cond)[1]), -ld, rtol=1e-8, atol=1e-9 * k):
            c.mismatch("net-oracle-inverse-logdet-antisym", x=list(np.asarray(x)), **info)
    xi, ldi = bij.inverse_and_log_det(y_in, cond)
    ldi = float(ldi)
    if not (np.all(np.isfinite(np.asarray(xi))) and np.isfinite(ldi)):
        c.count("net:oracle:inverse overflowed (softplus(raw scale) underflows to 0), skipped")
        return
    k = cnd(xi, ldi) * cnd(y_in, ldi)
    if k > 1e5:
        c.count("net:oracle:inverse ill-conditioned, skipped")
        return
    if not vlib.allclose(list(np.asarray(bij.transform(xi, cond))), list(np.asarray(y_in)), rtol=1e-9 * k, atol=1e-10 * k):
        c.mismatch("net-oracle-transform-of-inverse", y=list(np.asarray(y_in)), **info)
