"""Real-code-only oracles shared by several properties' `search` functions (no model involved).

Each function returns a list of witness dicts with a stable `key`, a `kind` understood by `replay_witness`, and the data needed to
rebuild the object.  Tolerances scale with conditioning; regions recorded as known findings (planar float absorption, leaky slopes
> 1 for the inverse) are avoided.  None of them fires on the unmodified repository (checked with several seeds).
"""
from __future__ import annotations

import math
import random

import equinox as eqx
import jax
import jax.numpy as jnp
import jax.random as jr
import numpy as np

import flowjax.bijections as B
from flowjax.bijections.planar import _UnconditionalPlanar
from flowjax.distributions import StandardNormal, Transformed

import vlib


def _np(a):
    return np.asarray(a, dtype=float)


def _perturb(obj, seed, scale):
    leaves, td = jax.tree_util.tree_flatten(obj)
    r = np.random.RandomState(seed % (2 ** 31))
    return jax.tree_util.tree_unflatten(td, [l + jnp.asarray(scale * r.standard_normal(l.shape), l.dtype) if eqx.is_inexact_array(l) else l for l in leaves])


# ------------------------------------------------------------------ Planar
def _planar(w, u, b, slope):
    return _UnconditionalPlanar(jnp.asarray(w, float), jnp.asarray(u, float), jnp.asarray(b, float), slope)


def _leaky(z, s):
    return np.where(z >= 0, z, s * z)


def planar_case(w, u, b, slope, x):
    """-> list of (law, detail) violated by the real _UnconditionalPlanar at x"""
    out = []
    p = _planar(w, u, b, slope)
    w_, x_ = _np(w), _np(x)
    uh = _np(p.get_act_scale())
    c = float(w_ @ uh)
    # the constraint the layer's invertibility rests on (exact value is > -1; stay out of the float-absorption region)
    wu = float(w_ @ _np(u))
    if wu > -30 and not c > -1:
        out.append(("planar layers stay invertible: w.u_hat > -1", dict(wu_hat=c)))
    z = float(w_ @ x_ + b)
    act = math.tanh(z) if slope is None else float(_leaky(z, slope))
    ref = x_ + uh * act
    y = _np(p.transform(jnp.asarray(x_)))
    scale = 1.0 + float(np.sum(np.abs(w_ * x_))) + abs(b)
    if not np.allclose(y, ref, rtol=1e-9, atol=1e-12 * scale * (1 + float(np.max(np.abs(uh))))):
        out.append(("Planar computes x + u_hat*act(w.x+b)", dict(got=y.tolist(), want=ref.tolist())))
    y2 = _np(p.transform_and_log_det(jnp.asarray(x_))[0])
    if not np.array_equal(y, y2) and not np.allclose(y, y2, rtol=1e-12, atol=1e-14):
        out.append(("transform_and_log_det returns transform's point", dict(got=y2.tolist(), want=y.tolist())))
    if slope is not None and slope <= 1.0:
        den = min(abs(1 + c), abs(1 + slope * c))
        k = (1.0 + float(np.sum(np.abs(w_ * uh)))) / max(den, 1e-300)
        if k < 1e6:
            xb = _np(p.inverse(jnp.asarray(y)))
            tol = 1e-9 * k * (1 + scale)
            if not np.allclose(xb, x_, rtol=0, atol=tol):
                out.append(("inverse(transform(x)) == x", dict(got=xb.tolist(), want=x_.tolist(), tol=tol)))
            xi, _ = p.inverse_and_log_det(jnp.asarray(x_))
            yb = _np(p.transform(xi))
            if np.all(np.isfinite(_np(xi))) and not np.allclose(yb, x_, rtol=0, atol=tol * (1 + float(np.max(np.abs(_np(xi)))))):
                out.append(("transform(inverse(y)) == y", dict(got=yb.tolist(), want=x_.tolist(), tol=tol)))
    return out


def planar_violations(rng, n_cases, slopes=(None, 0.1, 0.5, 1.0, 2.0, 5.0)):
    wit = []
    for it in range(n_cases):
        n = rng.choice([1, 2, 2, 3])
        style = it % 4
        if style == 0:      # the seeded-defect shapes: |w| != 1, w.u of either sign
            w = [rng.choice([-1, 1]) * rng.uniform(1.5, 3.0)] + [0.0] * (n - 1)
            u = [rng.choice([-1, 1]) * rng.uniform(0.5, 10.0)] + [0.0] * (n - 1)
        elif style == 1:    # small weights, u anti-parallel
            w = [rng.uniform(-0.6, 0.6) or 0.3 for _ in range(n)]
            u = [-rng.uniform(2, 12) * v for v in w]
        else:
            w = [rng.uniform(-3, 3) for _ in range(n)]
            u = [rng.uniform(-3, 3) for _ in range(n)]
        if not any(abs(v) > 1e-3 for v in w):
            continue
        b = rng.choice([0.0, rng.uniform(-2, 2)])
        slope = slopes[it % len(slopes)]
        for x in ([rng.uniform(-2, 2) for _ in range(n)], [1.0] + [0.5] * (n - 1), [-1.0] + [0.25] * (n - 1)):
            for law, det in planar_case(w, u, b, slope, x):
                wit.append(dict(kind="planar", key=f"planar|{law}|s={slope}|w={[round(v, 3) for v in w]}|u={[round(v, 3) for v in u]}",
                                law=law, w=w, u=u, b=b, slope=slope, x=x, **det))
        if len(wit) >= 4:
            break
    return wit


# ------------------------------------------------------------------ conditioner-network bijections: the four methods agree with each other
def _net_objects(rng, tier):
    quick = tier == "quick"
    out = []
    for dim, cd, depth in ([(2, None, 1), (3, 2, 2), (1, 1, 2), (2, 2, 3), (2, 2, 0), (1, 1, 0)] if quick else [(d, c, k) for d in (1, 2, 3) for c in (None, 1, 2) for k in (0, 1, 2, 3)]):
        out.append((f"BlockAutoregressiveNetwork(dim={dim},cond={cd},depth={depth})", "bnaf", dict(dim=dim, cd=cd, depth=depth)))
    for dim, cd, depth in ([(3, None, 1), (2, 2, 0), (3, 1, 2)] if quick else [(d, c, k) for d in (1, 2, 4) for c in (None, 2) for k in (0, 1, 2)]):
        out.append((f"MaskedAutoregressive(dim={dim},cond={cd},depth={depth})", "maf", dict(dim=dim, cd=cd, depth=depth)))
        if dim >= 2:
            out.append((f"Coupling[RQS](dim={dim},cond={cd},depth={depth})", "coupling", dict(dim=dim, cd=cd, depth=depth)))
    return out


def _build_net(kind, dim, cd, depth, seed):
    k = jr.PRNGKey(seed % 100003)
    if kind == "bnaf":
        obj = B.BlockAutoregressiveNetwork(k, dim=dim, cond_dim=cd, depth=depth, block_dim=2)
    elif kind == "maf":
        obj = B.MaskedAutoregressive(k, transformer=B.Affine(), dim=dim, cond_dim=cd, nn_width=4, nn_depth=depth)
    else:
        obj = B.Coupling(k, transformer=B.RationalQuadraticSpline(knots=4, interval=3), untransformed_dim=1, dim=dim, cond_dim=cd, nn_width=4, nn_depth=depth)
    return _perturb(obj, seed, 0.4)


def net_case(kind, dim, cd, depth, seed):
    out = []
    obj = _build_net(kind, dim, cd, depth, seed)
    r = np.random.RandomState(seed % (2 ** 31))
    x = jnp.asarray(r.uniform(-2, 2, size=(dim,)))
    cond = None if cd is None else jnp.asarray(r.uniform(-2, 2, size=(cd,)))
    y = _np(obj.transform(x, cond))
    y2, ld = obj.transform_and_log_det(x, cond)
    if not np.allclose(y, _np(y2), rtol=1e-10, atol=1e-12):
        out.append(("transform_and_log_det returns transform's point", dict(got=_np(y2).tolist(), want=y.tolist())))
    J = _np(jax.jacfwd(lambda z: obj.transform(z, cond))(x))
    sign, logabs = np.linalg.slogdet(J)
    k = max(1.0, float(np.exp(min(abs(float(ld)), 30.0))))
    if np.isfinite(float(ld)) and not vlib.close(float(ld), float(logabs), rtol=1e-7, atol=1e-8 * k):
        out.append(("forward log-det == log|det J| of transform", dict(got=float(ld), want=float(logabs))))
    if kind != "bnaf":
        xb = _np(obj.inverse(jnp.asarray(y), cond))
        if not np.allclose(xb, _np(x), rtol=0, atol=1e-8 * k * (1 + float(np.max(np.abs(_np(x)))))):
            out.append(("inverse(transform(x)) == x", dict(got=xb.tolist(), want=_np(x).tolist())))
        xi, ldi = obj.inverse_and_log_det(jnp.asarray(y), cond)
        if not np.allclose(_np(xi), xb, rtol=1e-10, atol=1e-12):
            out.append(("inverse_and_log_det returns inverse's point", dict(got=_np(xi).tolist(), want=xb.tolist())))
        if np.isfinite(float(ldi)) and not vlib.close(float(ldi), -float(ld), rtol=1e-7, atol=1e-8 * k):
            out.append(("inverse log-det == -forward log-det at the preimage", dict(got=float(ldi), want=-float(ld))))
    return out


def net_violations(rng, tier):
    wit = []
    for desc, kind, cf in _net_objects(rng, tier):
        seed = rng.randrange(2 ** 30)
        for law, det in net_case(kind, cf["dim"], cf["cd"], cf["depth"], seed):
            wit.append(dict(kind="net", key=f"net|{desc}|{law}", law=law, net=kind, seed=seed, desc=desc, **cf, **det))
        if len(wit) >= 4:
            break
    return wit


# ------------------------------------------------------------------ Invert nested inside other bijections (both directions of every method)
def nested_invert_case(seed):
    """Chain / Invert nests whose *plain* inverse and transform are reached through an outer Invert or Chain"""
    out = []
    r = random.Random(seed)
    a1 = eqx.tree_at(lambda t: (t.loc, t.scale), B.Affine(jnp.zeros(()), jnp.ones(())), (jnp.asarray(r.uniform(-1, 1)), jnp.asarray(math.exp(r.uniform(-0.7, 0.7)))))
    a2 = eqx.tree_at(lambda t: (t.loc, t.scale), B.Affine(jnp.zeros(()), jnp.ones(())), (jnp.asarray(r.uniform(-1, 1)), jnp.asarray(math.exp(r.uniform(-0.7, 0.7)))))
    lk = B.LeakyTanh(r.choice([1.0, 2.0, 3.0]))
    inner = B.Chain([a1, B.Invert(lk), a2])                      # x -> a2(lk^{-1}(a1 x))
    ref_f = lambda x: a2.transform(lk.inverse(a1.transform(x)))
    ref_i = lambda y: a1.inverse(lk.transform(a2.inverse(y)))
    x = jnp.asarray(r.uniform(-2, 2))
    for name, obj, f, g in (("Chain[A,Invert(LeakyTanh),A]", inner, ref_f, ref_i), ("Invert(Chain[A,Invert(LeakyTanh),A])", B.Invert(inner), ref_i, ref_f),
                            ("Invert(Invert(Chain[..]))", B.Invert(B.Invert(inner)), ref_f, ref_i)):
        for meth, want in (("transform", f(x)), ("inverse", g(x))):
            got = getattr(obj, meth)(x)
            got2 = getattr(obj, meth + "_and_log_det")(x)[0]
            for tag, v in ((meth, got), (meth + "_and_log_det", got2)):
                if not vlib.close(float(v), float(want), rtol=1e-9, atol=1e-10):
                    out.append((f"{name}.{tag} equals the composition of its parts", dict(got=float(v), want=float(want), x=float(x))))
        # sampling path of a distribution in inverted orientation: sample(key) = bijection.transform(base sample)
        d = Transformed(StandardNormal(()), obj)
        key = jr.PRNGKey(seed % 1000)
        z = StandardNormal(()).sample(key)
        if not vlib.close(float(d.sample(key)), float(f(z)), rtol=1e-9, atol=1e-10):
            out.append((f"Transformed(N, {name}).sample(key) is the bijection applied to the base sample", dict(got=float(d.sample(key)), want=float(f(z)))))
    return out


def nested_invert_violations(rng, n):
    wit = []
    for _ in range(n):
        seed = rng.randrange(2 ** 30)
        for law, det in nested_invert_case(seed):
            wit.append(dict(kind="nested_invert", key=f"nested_invert|{law}", law=law, seed=seed, **det))
        if len(wit) >= 3:
            break
    return wit


def corr_method_agreement(c, tier, rng, nested=True):
    """real-code consistency run as part of a correspondence: the four methods of the conditioner-network bijections agree with each
    other (point of `…_and_log_det` = plain point, log-det = log|det J|, inverse undoes transform) and nested Invert/Chain objects
    equal the composition of their parts"""
    for desc, kind, cf in _net_objects(rng, tier):
        seed = rng.randrange(2 ** 30)
        viol = net_case(kind, cf["dim"], cf["cd"], cf["depth"], seed)
        c.case(("method-agreement", desc), True)
        c.count("method-agreement:" + kind)
        for law, det in viol:
            c.mismatch("real-method-agreement", object=desc, law=law, seed=seed, **{k: v for k, v in det.items() if k in ("got", "want")})
    if nested:
        for _ in range(2 if tier == "quick" else 10):
            seed = rng.randrange(2 ** 30)
            c.case(("nested-invert", seed), True)
            c.count("method-agreement:nested-invert")
            for law, det in nested_invert_case(seed):
                c.mismatch("real-method-agreement", object="nested Invert/Chain", law=law, seed=seed, **det)


# ------------------------------------------------------------------ replay
def replay_witness(w):
    k = w.get("kind")
    if k == "planar":
        return any(law == w["law"] for law, _ in planar_case(w["w"], w["u"], w["b"], w["slope"], w["x"]))
    if k == "net":
        return any(law == w["law"] for law, _ in net_case(w["net"], w["dim"], w["cd"], w["depth"], w["seed"]))
    if k == "nested_invert":
        return any(law == w["law"] for law, _ in nested_invert_case(w["seed"]))
    return None
