"""C02 — the log-determinant returned with the forward map is log|det dy/dx| of the forward map
actually computed, the one returned with the inverse is minus the forward one at the preimage, and
it is a scalar whatever the bijection's shape.

Tie to the code:
  * the leaf kernels and Chain/Invert are REGENERATED from /repo (Gen/Leaves.lean, Gen/Combinators.lean);
    the theorems of Props/C02.lean are about those generated definitions and use Mathlib's `HasDerivAt`
    of the generated *forward map* as the oracle (never the hand-written log-det formulas);
  * `corr` runs the generated `transform_and_log_det` / `inverse_and_log_det` at Float against the real
    methods (log-det component compared separately, shape () checked), for scalar expression trees and
    for vectors (elementwise liftings, `Stack`s of scalar trees) of ranks 1-3;
  * `search` is the property's own oracle on the REAL code only: slogdet(jax.jacfwd(transform)) in
    float64 vs the returned log-det for every bijection class of the library, ranks 0-3, plus
    inverse log-det == -forward log-det at the preimage, plus shape () of every returned log-det.
"""
from __future__ import annotations

import math
import random

import equinox as eqx
import jax
import jax.numpy as jnp
import jax.random as jr
import numpy as np

import flowjax.bijections as B

import fj
import vlib
from vlib import f2b, fs2b, b2fs
from props import c01

ID = "C02"
GEN = ["Leaves", "Combinators", "Planar", "Bnaf", "JaxTransforms", "BnafGen", "TriangularGen", "NetGen", "BnafInitGen"]
RULE = ("log-det outputs (methods transform_and_log_det / inverse_and_log_det) of expression trees over generated leaves "
        "(Affine/Loc/Scale with both signs, Exp, SoftPlus, Tanh, LeakyTanh, RationalQuadraticSpline with perturbed raw parameters) "
        "under generated Chain/Invert, depth<=3, on boundary-directed inputs (interval ends, knots, ±max_val, tanh(max_val), ±1, 0, "
        "float neighbours, large magnitudes), and of vectors of ranks 1-3 (elementwise liftings incl. negative scales, Stack of scalar "
        "trees incl. splines); point and log-det compared separately and the real log-det's shape must be (); a case is non-trivial when "
        "its parameters differ from the initialisation and the input is a boundary value or the object is a vector lifting with "
        "non-default parameters; distinct = distinct (tree, method, input) triples")
TRUSTED = [
    "Coupling / MaskedAutoregressive methods: GENERATED Gen/NetGen.lean (translator tools/py2lean/py2meth.py, typing sheet targets_net.py) over "
    "the hand-written meanings of the library calls in Model/NetWorld.lean (hstack/concatenate = ++, slices = take/drop, reshape(…, (dim, -1)) = reshapeRows, "
    "filter_vmap(transformer_constructor) + Vmap(in_axes=if_array(0)) = one scalar bijection per coordinate with SUMMED log-dets, lax.scan(f, init, None, length=n) "
    "= n-fold iteration, traced x[i] clamps, .at[i].set drops out of range, conditioner / masked MLP = an abstract function) — proved equal to the hand models "
    "(gen_coupling_eq_model, gen_maf_eq_model) and run against real objects by tools/props/netgen.py",
    "Lean 4.33 kernel; Mathlib v4.33 (HasDerivAt/HasFDerivAt, Real.log, Matrix.det); axioms propext, Classical.choice, Quot.sound",
    "py2lean translator + typing sheets tools/py2lean/targets_leaves.py, targets_comb.py (validated by this correspondence)",
    "Prelude/Jnp.lean specs of where/abs/sign/clip/searchsorted/getItem/sumElem (validated by this correspondence)",
    "Model/ToBij.lean elementwise lifting (hand-written; validated here against real arrays of ranks 1-3 and against Stack)",
    "theorems are over ℝ: IEEE rounding/overflow is measured (rtol 1e-8) not proved",
    "BlockAutoregressiveNetwork.transform_and_log_det: hand-written Model/BnafLd.lean (layer log block-diagonals, activation -inf matrices, "
    "batched chain, final sum) + GENERATED Gen/Bnaf.lean `logmatmulexp` (typing sheet tools/py2lean/targets_bnaf.py) + Prelude/JnpExt.lean "
    "(`Option α` encoding of -inf and the matrix primitives); tied by tools/props/bnafld.py (whole method, inverse_and_log_det, each piece "
    "separately, logmatmulexp with -inf entries incl. the excluded all -inf row/column) at rtol 1e-9",
]
ASSUMPTIONS = [
    "every run also evaluates a bounded sample of the float64 autodiff-Jacobian oracle on real objects of every bijection class (recorded under "
    "input_distribution 'jacobian-oracle:*'); a disagreement there is a broken tie and triggers the witness search",
    "Planar with negative_slope > 1 is outside the oracle zoo's random draws: it is a separately reported defect (not a bijection when "
    "1 + negative_slope * w.u < 0; known_findings.json), probed by one fixed witness",
    "theorems cover Affine/Loc/Scale/Exp/SoftPlus/Tanh/LeakyTanh (all parameters, all inputs, switch points included), Chain, Invert and "
    "elementwise liftings of any length; RationalQuadraticSpline's log-det is tied by the correspondence and the Jacobian oracle only",
    "TriangularAffine/Planar/Permute/Flip/Concatenate/Stack/Partial/Reshape/Scan/Vmap/Coupling/MaskedAutoregressive/"
    "BlockAutoregressiveNetwork log-dets are covered by the autodiff-Jacobian oracle (search) and by the correspondence where they reduce to "
    "Stack/elementwise, not by theorems yet",
]

TOL = dict(rtol=1e-8, atol=1e-10)
LDM = ("tl", "il")


# ================================================================== correspondence
def impl_ld(obj, m, x, cond=None):
    """real method -> (point floats, log-det float, log-det shape) or ('EXC', name)"""
    try:
        r = getattr(obj, fj.PYMETH[m])(jnp.asarray(x, dtype=float), cond)
        pt = [float(v) for v in np.ravel(np.asarray(r[0]))]
        shp = tuple(np.shape(r[1]))
        ld = [float(v) for v in np.ravel(np.asarray(r[1]))]
        return pt, ld, shp
    except Exception as ex:  # the public methods never raise on a correctly shaped input
        return "EXC", type(ex).__name__, None


def diff(got, want):
    """-> list of broken-tie names (empty = agree)"""
    pt, ld, shp = want
    if pt == "EXC":
        return ["logdet:impl-raised"]
    if shp != ():
        return ["logdet:not-scalar"]
    if got.startswith("ERR"):
        return ["logdet:model-rejected"]
    vals = []
    for t in got.split(" "):
        vals += b2fs(t)
    mpt, mld = vals[:-1], vals[-1]
    bad = []
    if not vlib.allclose(mpt, pt, **TOL):
        bad.append("logdet:point-vs-impl")
    if not vlib.close(mld, ld[0], **TOL):
        bad.append("logdet:value-vs-impl")
    return bad


def report(c, line, got, want, info, bad):
    info = {k: v for k, v in info.items() if k != "struct"}
    for name in bad:
        c.mismatch(name, op=line[:300], model=got[:200], impl=[want[0], want[1], want[2]], **info)


VSHAPES = {1: [(1,)], 2: [(2,), (1, 2), (2, 1)], 3: [(3,), (1, 3, 1)], 4: [(4,), (2, 2), (2, 1, 2)], 6: [(6,), (2, 3), (3, 1, 2)]}


def corr(c, tier, rng):
    from props import c01 as _c01
    _c01.scan_correspondence(c, tier, rng)
    quick = tier == "quick"
    n_trees = 90 if quick else 700
    n_vec = 30 if quick else 200
    n_stack = 12 if quick else 80
    lines, wants, infos = [], [], []
    # --- scalar trees: Chain / Invert over all leaves
    for ti in range(n_trees):
        toks, obj, bnd, desc, nd = c01.rand_tree(rng, rng.choice([0, 0, 1, 2, 3]))
        inputs = list(dict.fromkeys([float(v) for v in bnd] + fj.generic_inputs(rng, 3)))
        rng.shuffle(inputs)
        inputs = inputs[: (16 if quick else 40)]
        for x in inputs:
            for m in LDM:
                line = f"tree {m} {f2b(x)} " + " ".join(toks)
                want = impl_ld(obj, m, x)
                lines.append(line); wants.append(want)
                infos.append(dict(tree=desc, method=m, x=x, struct=(lambda mm, t=toks, o=obj, xx=x: [(parse(t)[0], o, mm, xx)])))
                isb = x in bnd
                c.case((desc, " ".join(toks), m, x), nd and isb,
                       sample={"op": line[:200], "impl_logdet": want[1]} if ti < 4 and m == "tl" and isb else None)
                c.count("tree:" + ("boundary" if isb else "random"))
        c.count("trees")
    # --- elementwise liftings, ranks 1-3 (the model flattens in C order)
    for vi in range(n_vec):
        n = rng.choice([1, 2, 3, 4, 6])
        shape = rng.choice(VSHAPES[n])
        kind = rng.choice(["A", "A", "S", "L", "E", "P", "T", "K", "AE", "AT", "IA"])
        locs = [rng.uniform(-2, 2) for _ in range(n)]
        scs = [rng.choice([-1, 1]) * math.exp(rng.uniform(-1.5, 1.5)) for _ in range(n)]
        R = lambda v: np.reshape(v, shape)
        if kind == "A":
            obj = fj.affine(R(locs), R(scs)); toks = [["A", f2b(l), f2b(s)] for l, s in zip(locs, scs)]
        elif kind == "S":
            obj = fj.scale_b(R(scs)); toks = [["S", f2b(s)] for s in scs]
        elif kind == "L":
            obj = B.Loc(R(locs)); toks = [["L", f2b(l)] for l in locs]
        elif kind == "E":
            obj = B.Exp(shape); toks = [["E"]] * n
        elif kind == "P":
            obj = B.SoftPlus(shape); toks = [["P"]] * n
        elif kind == "T":
            obj = B.Tanh(shape); toks = [["T"]] * n
        elif kind == "K":
            mv = rng.choice([0.5, 2.0, 3.0])
            obj = B.LeakyTanh(mv, shape); toks = [["K", f2b(mv)]] * n
        elif kind == "AE":
            obj = B.Chain([fj.affine(R(locs), R(scs)), B.Exp(shape)])
            toks = [["C", "2", "A", f2b(l), f2b(s), "E"] for l, s in zip(locs, scs)]
        elif kind == "AT":
            obj = B.Chain([fj.affine(R(locs), R(scs)), B.Tanh(shape), fj.scale_b(R(scs))])
            toks = [["C", "3", "A", f2b(l), f2b(s), "T", "S", f2b(s)] for l, s in zip(locs, scs)]
        else:
            obj = B.Invert(fj.affine(R(locs), R(scs))); toks = [["I", "A", f2b(l), f2b(s)] for l, s in zip(locs, scs)]
        c.count(f"vector:rank{len(shape)}")
        for rep in range(3):
            special = [0.0, 1.0, -1.0, 2.0, -2.0, 0.5, 3.0, -3.0]
            xs = [rng.choice(special + [rng.uniform(-3, 3)] * 4) for _ in range(n)]
            for m in LDM:
                line = f"vtree {m} {n} {fs2b(xs)} " + " ".join(" ".join(t) for t in toks)
                want = impl_ld(obj, m, R(xs))
                lines.append(line); wants.append(want); infos.append(dict(tree=f"vec:{kind}{shape}", method=m, x=xs))
                c.case((kind, shape, tuple(xs), m, tuple(scs)), kind in ("A", "S", "L", "K", "AE", "AT", "IA"))
                c.count("vector")
    # --- Stack of arbitrary scalar trees (incl. perturbed splines) == lifting of the trees
    for si in range(n_stack):
        n = rng.choice([1, 2, 3])
        subs = [c01.rand_tree(rng, rng.choice([0, 0, 1, 2])) for _ in range(n)]
        obj = B.Stack([s[1] for s in subs])
        desc = "Stack[" + ",".join(s[3] for s in subs) + "]"
        for rep in range(4):
            xs = []
            for s in subs:
                pool = [float(v) for v in s[2]] + fj.generic_inputs(rng, 3)
                xs.append(rng.choice(pool))
            for m in LDM:
                line = f"vtree {m} {n} {fs2b(xs)} " + " ".join(" ".join(s[0]) for s in subs)
                want = impl_ld(obj, m, np.asarray(xs))
                lines.append(line); wants.append(want)
                infos.append(dict(tree=desc, method=m, x=xs, struct=(lambda mm, ss=subs, v=tuple(xs): [(parse(s_[0])[0], s_[1], mm, xv) for s_, xv in zip(ss, v)])))
                # the real Stack must itself be the concatenation / sum of its real children (same NaN/inf classes)
                if want[0] != "EXC":
                    kids = [impl_ld(s_[1], m, xv) for s_, xv in zip(subs, xs)]
                    if all(k_[0] != "EXC" for k_ in kids):
                        if not (vlib.allclose([k_[0][0] for k_ in kids], want[0], **TOL) and vlib.close(sum(k_[1][0] for k_ in kids), want[1][0], **TOL)):
                            c.mismatch("logdet:stack-vs-children", tree=desc, method=m, x=xs, impl=[want[0], want[1]], children=[[k_[0], k_[1]] for k_ in kids])
                c.case((desc, " ".join(" ".join(s[0]) for s in subs), tuple(xs), m), any(s[4] for s in subs))
                c.count("stack")
    outs = vlib.run_model(lines)
    pending = []  # failing composite cases, to be decomposed along the implementation's own evaluation path
    for line, got, want, info in zip(lines, outs, wants, infos):
        bad = diff(got, want)
        if not bad:
            continue
        if want[0] != "EXC" and want[2] == () and "struct" in info:
            pending.append((line, got, want, info, bad))
        else:
            report(c, line, got, want, info, bad)
    resolve_pending(c, pending)
    # --- Planar (generated, both activations, conditional through get_planar) and TriangularAffine (hand model):
    #     points and log-dets of transform_and_log_det / inverse_and_log_det (and the plain methods)
    from props import planar_tri
    planar_tri.corr_planar(c, tier, rng)
    planar_tri.corr_triangular(c, tier, rng)
    # --- BlockAutoregressiveNetwork.transform_and_log_det AS THE CODE COMPUTES IT (Model/BnafLd.lean + generated logmatmulexp)
    from props import bnafld
    bnafld.corr_bnafld(c, tier, rng)
    # --- the GENERATED transform_and_log_det / inverse_and_log_det of Coupling / MaskedAutoregressive (Gen/NetGen.lean) against real objects
    from props import netgen
    netgen.corr_gen(c, tier, rng, light=(tier == "quick"))
    oracle_ties(c, tier, rng)


def oracle_ties(c, tier, rng):
    """Classes that have no generated model / theorem yet (TriangularAffine, Planar, Permute, Concatenate, Stack, Partial, Reshape,
    Scan, Vmap, Coupling, MaskedAutoregressive, BlockAutoregressiveNetwork, conditional wrappers, RQS) are tied on every run by a
    bounded sample of the property's own oracle: returned log-det vs slogdet(jacfwd(transform)), inverse log-det vs -forward,
    shape ().  Not counted as model-vs-implementation evaluations."""
    base = rng.randrange(1, 10 ** 6)
    again = {"stack", "scan", "partial", "chain", "triangular", "leakytanh"}
    for rep in range(2 if tier == "quick" else 6):
        for ki, kind in enumerate(dict.fromkeys(KINDS)):
            if tier == "quick" and rep == 1 and kind not in again:
                continue  # quick tier: a second object only for the size-sensitive combinators
            seed = base + 1000 * rep + ki
            try:
                wit, stats = violations_of(kind, seed, n_random=1 if tier == "quick" else 3)
            except Exception as ex:
                c.count("jacobian-oracle:build-error:" + kind)
                continue
            for k, v in stats.items():
                c.count("jacobian-oracle:" + k, v)
            c.count("jacobian-oracle:objects")
            for w in wit[:2]:
                c.mismatch("jacobian-oracle:" + w["cls"], **{k: v for k, v in w.items() if k != "key"})


ARITY = {"A": 3, "L": 2, "S": 2, "E": 1, "P": 1, "T": 1, "K": 2, "Q": 6}


def parse(toks, i=0):
    """prefix tokens -> nested node aligned with the real object (Chain.bijections / Invert.bijection)"""
    k = toks[i]
    if k in ARITY:
        return dict(k=k, toks=toks[i:i + ARITY[k]], ch=[]), i + ARITY[k]
    if k == "I":
        ch, j = parse(toks, i + 1)
        return dict(k="I", toks=toks[i:j], ch=[ch]), j
    if k == "C":
        n, j, chs = int(toks[i + 1]), i + 2, []
        for _ in range(n):
            ch, j = parse(toks, j)
            chs.append(ch)
        return dict(k="C", toks=toks[i:j], ch=chs), j
    raise ValueError(k)


def leaf_path(node, obj, m, x, acc):
    """evaluate the REAL object node by node; record every leaf evaluation (tokens, method, input); returns the real output point"""
    if node["k"] == "I":
        return leaf_path(node["ch"][0], obj.bijection, {"tl": "il", "il": "tl"}[m], x, acc)
    if node["k"] == "C":
        pairs = list(zip(node["ch"], obj.bijections))
        for ch, sub in (pairs if m == "tl" else reversed(pairs)):
            x = leaf_path(ch, sub, m, x, acc)
        return x
    acc.append((node["toks"], obj, m, float(x)))
    r = getattr(obj, fj.PYMETH[m])(jnp.asarray(x, dtype=float), None)
    return float(np.asarray(r[0]))


def neighbours(x):
    out = []
    for d in (-math.inf, math.inf):
        v = x
        for k in range(4):
            v = float(np.nextafter(v, d))
            if k in (0, 1, 3):
                out.append(v)
    if abs(x) < 2.3e-308:
        out.append(0.0)  # XLA flushes denormals to zero
    return out


def _within(v, vals):
    vals = [u for u in vals]
    if any(vlib.close(v, u, **TOL) for u in vals):
        return True
    fin = [u for u in vals if math.isfinite(u)]
    return math.isfinite(v) and len(fin) >= 2 and min(fin) <= v <= max(fin)


def resolve_pending(c, pending):
    """A composite (Chain/Invert/Stack) disagreement is accepted as floating-point ill-conditioning ONLY IF every leaf
    evaluation along the implementation's own evaluation path agrees with the generated leaf at that exact input (or
    within the leaf's values over a <=4-ulp neighbourhood of it / the denormal flushed to zero); otherwise it is reported."""
    if not pending:
        return
    jobs = []  # (pending index, leaf toks, obj, m, x)
    for pi, (line, got, want, info, bad) in enumerate(pending):
        for node, obj, m, x in info["struct"](info["method"]):
            acc = []
            try:
                leaf_path(node, obj, m, x, acc)
            except Exception as ex:
                acc = []
                jobs.append((pi, None, None, m, x))
            for lt, lo, lm, lx in acc:
                jobs.append((pi, lt, lo, lm, lx))
    lines, meta = [], []
    for ji, (pi, lt, lo, lm, lx) in enumerate(jobs):
        if lt is None or not math.isfinite(lx):
            continue
        for xx in [lx] + neighbours(lx):
            lines.append(f"tree {lm} {f2b(xx)} " + " ".join(lt)); meta.append(ji)
    outs = vlib.run_model(lines)
    by_job = {}
    for o, ji in zip(outs, meta):
        by_job.setdefault(ji, []).append(o)
    failed = set()
    for ji, (pi, lt, lo, lm, lx) in enumerate(jobs):
        if lt is None:
            failed.add(pi); continue
        if not math.isfinite(lx):
            continue  # a NaN/inf already reached this leaf in the implementation: nothing left to compare
        want = impl_ld(lo, lm, lx)
        res = by_job[ji]
        if not diff(res[0], want):
            c.count("leaf-on-impl-path:agree")
            continue
        pts, lds = [], []
        for o in res:
            if o.startswith("ERR"):
                continue
            vals = sum((b2fs(t) for t in o.split(" ")), [])
            pts.append(vals[0]); lds.append(vals[-1])
        if want[0] != "EXC" and _within(want[0][0], pts) and _within(want[1][0], lds):
            c.count("leaf-on-impl-path:agree-within-4ulp-input")
            continue
        failed.add(pi)
        line, got, w0, info, bad = pending[pi]
        c.mismatch("logdet:leaf-vs-impl", op=f"tree {lm} {f2b(lx)} " + " ".join(lt)[:200], model=res[0], impl=[want[0], want[1]],
                   inside=info.get("tree"), method=lm, x=lx)
    for pi, (line, got, want, info, bad) in enumerate(pending):
        if pi in failed:
            report(c, line, got, want, info, bad)
        else:
            c.count("composite:ill-conditioned-accepted")
    n_acc = sum(1 for pi in range(len(pending)) if pi not in failed)
    if n_acc:
        c.notes.append(f"{n_acc} composite evaluations differed beyond rtol 1e-8 because of floating-point ill-conditioning (artanh near ±1, "
                       "branch tests one ulp apart, denormals flushed by XLA); each was accepted only after every leaf evaluation along the "
                       "implementation's own evaluation path matched the generated leaf")


# ================================================================== the property's oracle on the real code
def _finite(a):
    return bool(np.all(np.isfinite(np.asarray(a))))


def _jac(obj, x, cond):
    shape = tuple(obj.shape)
    n = int(np.prod(shape)) if shape else 1
    f = lambda v: jnp.ravel(obj.transform(jnp.reshape(v, shape), cond))
    J = np.asarray(jax.jacfwd(f)(jnp.ravel(x))).reshape(n, n)
    return J


def _slogdet(J):
    if not _finite(J):
        return 0.0, math.nan
    s, l = np.linalg.slogdet(J)
    return float(s), float(l)


def check_point(obj, x, cond=None, has_inv=True, inv_rtol=1e-8, kink_eps=1e-8):
    """Returns (status, violations).  status: 'ok' | 'skip:<why>'.  violations: list of dicts(law=..., ...)."""
    x = jnp.asarray(x, float)
    cond = None if cond is None else jnp.asarray(cond, float)
    out = []
    try:
        y0 = obj.transform(x, cond)
    except NotImplementedError:
        return "skip:not-implemented", out
    if not _finite(y0):
        return "skip:out-of-domain", out
    y, ld = obj.transform_and_log_det(x, cond)
    if tuple(np.shape(ld)) != ():
        out.append(dict(law="forward log-det has shape ()", got_shape=list(np.shape(ld))))
        ld = jnp.sum(ld)
    ld = float(ld)
    if not np.allclose(np.asarray(y), np.asarray(y0), rtol=1e-12, atol=1e-300, equal_nan=True):
        out.append(dict(law="transform_and_log_det point == transform"))
    J = _jac(obj, x, cond)
    s, lad = _slogdet(J)
    n = J.shape[0]
    status = "ok"
    if not math.isfinite(lad) or s == 0.0:
        status = "skip:singular-or-nonfinite-jacobian"
    else:
        kappa = float(np.linalg.cond(J))
        # kink guard: a point sitting on a kink of the forward map (where autodiff's tie-breaking convention, not the
        # map, decides the Jacobian) shows as a jump of log|det J| across a step of relative size kink_eps; a smooth
        # map would need |d log|det J|/dx| > 1e3 to trigger it.  Depends on the forward map only, never on the
        # returned log-det.  Explicit guards for known kinks (leaky-relu hyperplane, spline interval ends: 1e-6)
        # are applied by the caller.
        rs = np.random.RandomState(n * 7919 + 13)
        u = rs.standard_normal(np.shape(x)) if np.shape(x) else np.asarray(1.0)
        u = u / (float(np.linalg.norm(np.ravel(u))) or 1.0)
        near_kink = False
        for sg in (1.0, -1.0):
            xp = x + sg * kink_eps * (1.0 + float(np.max(np.abs(np.asarray(x))))) * jnp.asarray(u)
            s2, lad2 = _slogdet(_jac(obj, xp, cond))
            if not math.isfinite(lad2) or s2 != s or abs(lad2 - lad) > 1e-5 * (1.0 + abs(lad)):
                near_kink = True
        if near_kink:
            status = "skip:kink"
        elif not math.isfinite(kappa) or kappa > 1e11:
            status = "skip:ill-conditioned"
        else:
            tol = 2e-8 * (1.0 + abs(lad)) + 1e-13 * n * kappa
            if not (math.isfinite(ld) and abs(ld - lad) <= tol):
                out.append(dict(law="forward log-det == log|det jacobian(transform)|", returned=ld, oracle=lad, tol=tol,
                                err=(abs(ld - lad) if math.isfinite(ld) else "nonfinite")))
    if has_inv and _finite(y):
        try:
            x2, ild = obj.inverse_and_log_det(y, cond)
        except NotImplementedError:
            return status, out
        if tuple(np.shape(ild)) != ():
            out.append(dict(law="inverse log-det has shape ()", got_shape=list(np.shape(ild))))
            ild = jnp.sum(ild)
        ild = float(ild)
        if _finite(x2) and math.isfinite(ld) and status in ("ok", "skip:kink"):
            kap = float(np.linalg.cond(J)) if _finite(J) else math.inf
            if math.isfinite(kap) and kap < 1e11:
                # the inverse log-det is evaluated at inverse(y) ~ x: allow the round-trip error amplified by conditioning
                rt = float(np.max(np.abs(np.asarray(x2) - np.asarray(x)))) if np.size(x) else 0.0
                tol = max(inv_rtol, 2e-8) * (1.0 + abs(ld)) + 1e-12 * n * kap + 50.0 * min(rt, 1e-6) * n
                if status == "skip:kink" and 0 < rt < 1e-6:
                    pass  # the preimage may land on the other side of the kink
                elif not (math.isfinite(ild) and abs(ild + ld) <= tol):
                    out.append(dict(law="inverse log-det at y == -(forward log-det at x)", forward=ld, inverse=ild, tol=tol,
                                    err=(abs(ild + ld) if math.isfinite(ild) else "nonfinite")))
    return status, out


# ------------------------------------------------------------------ deterministic object zoo: build(kind, seed)
RANK_SHAPES = [(), (3,), (2, 3), (2, 1, 2)]


def _arr(r, shape, lo=-2.0, hi=2.0):
    n = int(np.prod(shape)) if shape else 1
    return np.reshape([r.uniform(lo, hi) for _ in range(n)], shape)


def _signed(r, shape):
    n = int(np.prod(shape)) if shape else 1
    return np.reshape([r.choice([-1, 1]) * math.exp(r.uniform(-1.5, 1.5)) for _ in range(n)], shape)


def _stack_modules(objs):
    parts = [eqx.partition(o, eqx.is_array) for o in objs]
    arrs = jax.tree_util.tree_map(lambda *a: jnp.stack(a), *[p[0] for p in parts])
    return eqx.combine(arrs, parts[0][1])


def _tri(r, dim, explicit=None):
    lower = r.random() < 0.5
    arr = _arr(r, (dim, dim))
    arr[np.arange(dim), np.arange(dim)] = np.abs(arr[np.arange(dim), np.arange(dim)]) + 0.05  # constructor requires a positive diagonal
    t = B.TriangularAffine(_arr(r, (dim,)), jnp.asarray(arr), lower=lower)
    if (r.random() < 0.6) if explicit is None else explicit:  # explicit triangular matrix, diagonal entries of both signs
        M = np.tril(arr) if lower else np.triu(arr)
        d = _signed(r, (dim,))
        if explicit:
            d[r.randrange(dim)] = -abs(d[0])  # at least one negative diagonal entry
        M[np.arange(dim), np.arange(dim)] = d
        t = eqx.tree_at(lambda b: b.triangular, t, jnp.asarray(M))
    return t


def _planar(r, seed, dim, slope=None, cond_dim=None):
    p = B.Planar(jr.PRNGKey(seed), dim=dim, negative_slope=slope, cond_dim=cond_dim, **({} if cond_dim is None else dict(width_size=5, depth=1)))
    if cond_dim is None:
        p = eqx.tree_at(lambda b: b.params, p, jnp.asarray(_arr(r, (2 * dim + 1,), -1.5, 1.5)))
    return p


def leaf_bij(r, shape, kinds=None):
    """elementwise bijection of the given shape with non-default parameters (ℝ -> ℝ unless Exp/SoftPlus/Tanh)"""
    k = r.choice(kinds or ["affine", "affine", "loc", "scale", "exp", "softplus", "tanh", "leakytanh", "identity"])
    if k == "affine":
        return fj.affine(_arr(r, shape), _signed(r, shape))
    if k == "loc":
        return B.Loc(_arr(r, shape))
    if k == "scale":
        return fj.scale_b(_signed(r, shape))
    if k == "exp":
        return B.Exp(shape)
    if k == "softplus":
        return B.SoftPlus(shape)
    if k == "tanh":
        return B.Tanh(shape)
    if k == "leakytanh":
        return B.LeakyTanh(r.choice([0.5, 1.0, 3.0, r.uniform(0.3, 3)]), shape)
    return B.Identity(shape)


def _rqs(r):
    return fj.rqs(r, r.choice([1, 2, 3, 5, 8]), r.choice([1, 2.0, (-1.0, 3.0), (0.5, 2.5), (-3.0, -1.0), 4]),
                  perturb=r.choice([0.5, 1.0, 3.0]))


def any_bij(r, seed, shape, depth=1, total=True):
    """a random bijection of the given shape; total=True restricts to maps ℝ^n -> ℝ^n onto (safe to compose/invert)"""
    rank = len(shape)
    opts = ["leaf", "leaf"]
    if rank == 0:
        opts += ["rqs"]
    if rank == 1 and shape[0] >= 1:
        opts += ["tri", "permute", "flip"] + (["planar_lrelu"] if shape[0] >= 2 else [])
    if rank >= 2:
        opts += ["permute", "flip"]
    if depth > 0:
        opts += ["chain", "invert"] + (["vmap", "stack"] if rank >= 1 else [])
    k = r.choice(opts)
    tk = ["affine", "loc", "scale", "leakytanh", "identity"] if total else None
    if k == "leaf":
        return leaf_bij(r, shape, tk)
    if k == "rqs":
        return _rqs(r)
    if k == "tri":
        return _tri(r, shape[0])
    if k == "permute":
        n = int(np.prod(shape))
        perm = list(range(n)); r.shuffle(perm)
        return B.Permute(np.reshape(perm, shape))
    if k == "flip":
        return B.Flip(shape)
    if k == "planar_lrelu":
        return _planar(r, seed, shape[0], slope=r.choice([0.1, 0.5, 1.0]))
    if k == "chain":
        return B.Chain([any_bij(r, seed + i + 1, shape, depth - 1, total) for i in range(r.choice([1, 2, 3]))])
    if k == "invert":
        return B.Invert(any_bij(r, seed + 1, shape, depth - 1, True))
    if k == "vmap":
        return B.Vmap(any_bij(r, seed + 1, shape[1:], depth - 1, total), axis_size=shape[0])
    if k == "stack":
        ax = r.choice(list(range(rank)) + [-1])
        axn = range(rank)[ax]
        sub = shape[:axn] + shape[axn + 1:]
        return B.Stack([any_bij(r, seed + i + 1, sub, depth - 1, total) for i in range(shape[axn])], axis=ax)
    raise AssertionError(k)


STEEP_PARAMS = [0.74552756, 1.31360927, -1.44228794, -1.48538143, -0.29740508]
STEEP_SEED = 912068
LEAFK = ["affine", "loc", "scale", "exp", "softplus", "tanh", "leakytanh", "identity"]
NZ = ["affine", "scale", "leakytanh", "softplus", "exp"]  # leaves whose log-det is not identically zero


def nz_bij(r, seed, shape, depth=1):
    """a bijection of the given shape whose log-det is certainly not identically zero (so that dropped / mis-accumulated terms show)"""
    first = leaf_bij(r, shape, ["affine", "scale", "leakytanh"])
    if r.random() < 0.35:
        return first
    return B.Chain([first, any_bij(r, seed, shape, depth, total=False)])


KINDS = LEAFK + ["rqs", "vmap_rqs", "triangular", "triangular_default", "planar_tanh", "planar_lrelu", "planar_cond", "permute", "flip",
         "chain", "chain", "invert", "concatenate", "stack", "partial", "reshape", "scan", "vmap", "vmap_params", "vmap_cond",
         "coupling", "coupling", "maf", "maf", "bnaf", "bnaf", "additive_cond", "embed_cond", "deep"]


def build(kind, seed):
    """-> dict(obj, cond (array or None), has_inv, inv_rtol, special (list of extra inputs), planar (list of planar objs for the kink distance))"""
    r = random.Random(seed * 7919 + sum(map(ord, kind)))
    key = jr.PRNGKey(seed)
    o = dict(cond=None, has_inv=True, inv_rtol=1e-8, special=[])
    shape = r.choice(RANK_SHAPES)
    if kind in LEAFK:
        b = leaf_bij(r, shape, [kind])
        if isinstance(b, B.LeakyTanh):
            m = float(b.max_val)
            o["special"] = [np.full(shape, m), np.full(shape, -m), np.reshape([r.choice([m, -m, 0.3 * m, 2 * m]) for _ in range(int(np.prod(shape)) if shape else 1)], shape)]
        o["obj"] = b
    elif kind == "rqs":
        b = _rqs(r)
        lo, hi, xs, ys, ds = fj.rqs_params(b)
        o["special"] = [v for v in xs[1:-1]] + [lo - 0.7, hi + 0.7, lo + 1e-3, hi - 1e-3, lo, hi]
        o["obj"] = b
    elif kind == "vmap_rqs":
        n = r.choice([1, 2, 3])
        if r.random() < 0.5:
            b = B.Vmap(_rqs(r), axis_size=n)
        else:
            kn, iv = r.choice([2, 4]), r.choice([2.0, (-1.0, 3.0)])
            b = B.Vmap(_stack_modules([fj.rqs(r, kn, iv, perturb=2.0) for _ in range(n)]), in_axes=eqx.if_array(0))
        if r.random() < 0.4:
            b = B.Vmap(b, axis_size=2)
        o["obj"] = b
    elif kind == "triangular":
        o["obj"] = _tri(r, r.choice([1, 2, 3, 4]), explicit=True)
    elif kind == "triangular_default":
        o["obj"] = _tri(r, r.choice([1, 2, 3, 4]), explicit=False)
    elif kind == "planar_tanh":
        o["obj"] = _planar(r, seed, r.choice([1, 2, 3, 5])); o["has_inv"] = False
    elif kind == "planar_lrelu":
        o["obj"] = _planar(r, seed, r.choice([1, 2, 3, 5]), slope=r.choice([0.01, 0.3, 0.7, 1.0]))
    elif kind == "planar_steep":
        # FINDING (reported, listed in known_findings.json): negative_slope > 1 is accepted by the constructor ("a positive
        # float") but get_act_scale only guarantees w.u >= -1, so 1 + slope*w.u can be negative: the map is then not
        # injective, inverse(transform(x)) != x and the inverse log-det is not minus the forward one.  Fixed parameters.
        p = B.Planar(jr.PRNGKey(0), dim=2, negative_slope=2.5)
        o["obj"] = eqx.tree_at(lambda b: b.params, p, jnp.asarray(STEEP_PARAMS))
    elif kind == "planar_cond":
        sl = r.choice([None, 0.2])
        o["obj"] = _planar(r, seed, r.choice([2, 3]), slope=sl, cond_dim=2); o["has_inv"] = sl is not None
        o["cond"] = _arr(r, (2,))
    elif kind == "permute":
        shape = r.choice([(4,), (2, 3), (2, 1, 2), (1,)])
        n = int(np.prod(shape)); perm = list(range(n)); r.shuffle(perm)
        o["obj"] = B.Permute(np.reshape(perm, shape))
    elif kind == "flip":
        o["obj"] = B.Flip(shape)
    elif kind == "chain":
        nz = ["affine", "scale", "leakytanh"]  # children whose log-det is not identically zero, at both ends
        o["obj"] = B.Chain([leaf_bij(r, shape, nz)] + [any_bij(r, seed + 10 * i, shape, 1, total=True) for i in range(r.choice([0, 0, 1, 2]))]
                           + [leaf_bij(r, shape, nz + ["exp", "softplus", "tanh"])])
    elif kind == "invert":
        o["obj"] = B.Invert(any_bij(r, seed, shape, 1, total=True))
    elif kind == "concatenate":
        rank = r.choice([1, 2, 3])
        base = {1: (2,), 2: (2, 2), 3: (2, 1, 2)}[rank]
        ax = r.choice(list(range(rank)) + [-1])
        axn = range(rank)[ax]
        parts = []
        for i in range(r.choice([1, 2, 2, 3])):
            s = list(base); s[axn] = r.choice([1, 2])
            parts.append(nz_bij(r, seed + 5 * i, tuple(s)))
        o["obj"] = B.Concatenate(parts, axis=ax)
    elif kind == "stack":
        sub = r.choice([(), (2,), (2, 2)])
        ax = r.choice(list(range(len(sub) + 1)) + [-1])
        o["obj"] = B.Stack([nz_bij(r, seed + 5 * i, sub) for i in range(r.choice([1, 2, 2, 3]))], axis=ax)
    elif kind == "partial":
        v = r.choice(["int", "slice", "array", "bool", "tuple"])
        if v == "int":
            o["obj"] = B.Partial(nz_bij(r, seed, ()), r.choice([0, 2, -1]), (4,))
        elif v == "slice":
            o["obj"] = B.Partial(nz_bij(r, seed, (2,)), slice(1, 3), (4,))
        elif v == "array":
            o["obj"] = B.Partial(nz_bij(r, seed, (2,)), jnp.asarray([3, 0]), (4,))
        elif v == "bool":
            o["obj"] = B.Partial(nz_bij(r, seed, (2,)), jnp.asarray([True, False, False, True]), (4,))
        else:
            o["obj"] = B.Partial(nz_bij(r, seed, (2,)), (1, slice(None)), (3, 2))
    elif kind == "reshape":
        v = r.choice([((6,), (2, 3)), ((2, 3), (3, 2)), ((1,), ()), ((2, 3), (1, 6, 1)), ((4,), (2, 1, 2))])
        o["obj"] = B.Reshape(nz_bij(r, seed, v[0]), v[1])
    elif kind == "scan":
        L = r.choice([1, 2, 3, 4, 4])
        if r.random() < 0.5:
            inner = eqx.filter_vmap(B.Affine)(jnp.asarray(_arr(r, (L, 3))), jnp.exp(jnp.asarray(_arr(r, (L, 3), -1, 1))))
        else:
            dim = r.choice([2, 3])
            inner = _stack_modules([_planar(r, seed + i, dim, slope=0.3) for i in range(L)])
        o["obj"] = B.Scan(inner)
    elif kind == "vmap":
        sub = r.choice([(), (3,), (1, 2)])
        o["obj"] = B.Vmap(nz_bij(r, seed, sub), axis_size=r.choice([1, 2, 3]))
    elif kind == "vmap_params":
        n = r.choice([2, 3])
        sub = r.choice([(), (2,)])
        objs = [fj.affine(_arr(r, sub), _signed(r, sub)) for _ in range(n)]
        o["obj"] = B.Vmap(_stack_modules(objs), in_axes=eqx.if_array(0))
    elif kind == "vmap_cond":
        n = r.choice([2, 3])
        inner = _planar(r, seed, 2, slope=0.5, cond_dim=2)
        ax = r.choice([None, 0, -1])
        b = B.Vmap(inner, axis_size=n, in_axes_condition=ax)
        o["obj"] = b; o["cond"] = _arr(r, b.cond_shape)
    elif kind in ("coupling", "maf"):
        dim = r.choice([2, 3, 4])
        cd = r.choice([None, None, 2])
        tr = r.choice(["affine", "rqs", "chain", "scale_neg"])
        if tr == "affine":
            t = B.Affine()
        elif tr == "rqs":
            t = B.RationalQuadraticSpline(knots=r.choice([2, 4]), interval=r.choice([3, (-2.0, 4.0)]))
        elif tr == "chain":
            t = B.Chain([B.Affine(0.3, 1.5), B.LeakyTanh(1.0), B.Loc(0.5)])
        else:
            t = fj.affine(0.2, -1.3)  # unconstrained scale parameter: the conditioner produces either sign
        if kind == "coupling":
            b = B.Coupling(key, transformer=t, untransformed_dim=r.choice(list(range(1, dim))), dim=dim, cond_dim=cd, nn_width=6, nn_depth=r.choice([0, 1, 2]))
        else:
            b = B.MaskedAutoregressive(key, transformer=t, dim=dim, cond_dim=cd, nn_width=7, nn_depth=r.choice([1, 2]))
        o["obj"] = b
        if cd is not None:
            o["cond"] = _arr(r, (cd,))
    elif kind == "bnaf":
        dim = r.choice([1, 2, 2, 3, 3])
        cd = r.choice([None, None, 2])
        act = r.choice([None, None, "tanh", "callable", "leaky05"])
        activation = None if act is None else B.Tanh() if act == "tanh" else B.LeakyTanh(0.5) if act == "leaky05" else (lambda v: v + 0.5 * jnp.tanh(v))
        b = B.BlockAutoregressiveNetwork(key, dim=dim, cond_dim=cd, depth=r.choice([0, 1, 1, 2, 2, 3]), block_dim=r.choice([1, 2, 3, 4]), activation=activation)
        o["obj"] = b; o["inv_rtol"] = 1e-4
        if act == "tanh":
            o["has_inv"] = False  # codomain is not ℝ^n: the bisection inverter's bracket search is outside the contract
        if cd is not None:
            o["cond"] = _arr(r, (cd,))
    elif kind == "additive_cond":
        shape = r.choice([(3,), (2, 3)])
        lin = eqx.nn.Linear(2, 3, key=key)
        o["obj"] = B.AdditiveCondition(lin, shape, (2,)); o["cond"] = _arr(r, (2,))
    elif kind == "embed_cond":
        inner = B.Coupling(key, transformer=B.Affine(), untransformed_dim=1, dim=3, cond_dim=2, nn_width=5, nn_depth=1)
        o["obj"] = B.EmbedCondition(inner, eqx.nn.Linear(4, 2, key=jr.PRNGKey(seed + 1)), (4,)); o["cond"] = _arr(r, (4,))
    elif kind == "deep":
        shape = r.choice([(3,), (2, 2)])
        o["obj"] = any_bij(r, seed, shape, 3, total=False)
    else:
        raise ValueError(kind)
    return o


def _planar_kink_far(obj, x, cond):
    """explicit guard for the leaky-relu kink of a top-level Planar: |w.x + b| must exceed 1e-6"""
    if isinstance(obj, B.Planar) and obj.negative_slope is not None:
        pl = obj.get_planar(None if cond is None else jnp.asarray(cond, float))
        return abs(float(pl.weight @ jnp.asarray(x, float) + pl.bias)) > 1e-6
    return True


def _rqs_end_far(obj, x):
    if isinstance(obj, B.RationalQuadraticSpline):
        lo, hi = float(obj.interval[0]), float(obj.interval[1])
        return min(abs(float(x) - lo), abs(float(x) - hi)) > 1e-6
    return True


def inputs_for(o, seed, n_random):
    r = random.Random(seed * 31 + 7)
    obj = o["obj"]
    shape = tuple(obj.shape)
    xs = [np.asarray(v, float).reshape(shape) for v in o["special"]]
    if n_random <= 1 and len(xs) > 6:  # quick tier: a random half-dozen of the boundary-directed points
        xs = r.sample(xs, 6)
    xs += [np.zeros(shape), np.ones(shape) * 0.5]
    xs += [_arr(r, shape, -3, 3) for _ in range(n_random)]
    if isinstance(obj, B.Invert) or type(obj).__name__ in ("Chain", "Stack", "Concatenate", "Vmap", "Partial", "Reshape"):
        # also probe points of the (possibly restricted) domain: images of random points under the inverse
        for _ in range(2):
            try:
                z = obj.inverse(jnp.asarray(_arr(r, shape, -2, 2)), None if o["cond"] is None else jnp.asarray(o["cond"]))
                if _finite(z):
                    xs.append(np.asarray(z))
            except Exception:
                pass
    return xs


def violations_of(kind, seed, xs=None, n_random=2):
    o = build(kind, seed)
    obj, cond = o["obj"], o["cond"]
    wit, stats = [], {}
    for x in (inputs_for(o, seed, n_random) if xs is None else xs):
        x = np.asarray(x, float).reshape(tuple(obj.shape))
        try:
            status, vs = check_point(obj, x, cond, o["has_inv"], o["inv_rtol"])
        except Exception as ex:
            status, vs = "exception", [dict(law="public methods do not raise on a well-shaped input", exc=repr(ex)[:300])]
        if status == "ok" and not (_planar_kink_far(obj, x, cond) and _rqs_end_far(obj, x)):
            status = "skip:kink"
            vs = [v for v in vs if not v["law"].startswith("forward log-det ==")]
        if status == "skip:kink":
            vs = [v for v in vs if not v["law"].startswith("forward log-det ==")]
        stats[status] = stats.get(status, 0) + 1
        for v in vs:
            wit.append(dict(key=f"{kind}#{seed}|{v['law']}|x={np.asarray(x).tolist()!r}", kind=kind, seed=seed,
                            cls=type(obj).__name__, shape=list(obj.shape), x=np.asarray(x).tolist(),
                            cond=None if cond is None else np.asarray(cond).tolist(), **v))
    return wit, stats


def affine_broadcast_violations():
    """`Affine(loc, scale)` whose scale has a SMALLER broadcastable shape than loc (a scalar scale for a vector loc, a row for a matrix):
    the log-det must still be log|det J| of the broadcast map — the sum runs over the event shape, not over the stored scale"""
    wit = []
    cases = [((3,), ()), ((2, 3), (3,)), ((2, 3), (2, 1)), ((4,), (1,))]
    for ls, ss in cases:
        loc = jnp.asarray(np.linspace(-1.0, 1.0, int(np.prod(ls)) or 1).reshape(ls))
        scale = jnp.asarray(np.linspace(1.7, 2.9, int(np.prod(ss)) or 1).reshape(ss))
        b = B.Affine(loc, scale)
        x = jnp.asarray(np.linspace(0.3, 1.9, int(np.prod(b.shape)) or 1).reshape(b.shape))
        J = np.asarray(jax.jacfwd(lambda v: b.transform(v).ravel())(x)).reshape(x.size, x.size)
        want = float(np.linalg.slogdet(J)[1])
        got = float(b.transform_and_log_det(x)[1])
        goti = float(b.inverse_and_log_det(b.transform(x))[1])
        if not (abs(got - want) <= 1e-9 * (1 + abs(want)) and abs(goti + want) <= 1e-9 * (1 + abs(want))):
            wit.append(dict(key=f"affine-broadcast|loc{ls}|scale{ss}", kind="affine_broadcast", law="forward log-det == log|det jacobian(transform)| (scale broadcast against loc)",
                            got=got, got_inverse=goti, want=want))
    return wit


def search(hints, tier, rng):
    """Jacobian oracle on real objects of every class, ranks 0-3."""
    quick = tier == "quick"
    per_kind = 2 if quick else 14
    base = rng.randrange(1, 10 ** 6)
    wit, stats = [], {}
    wit += affine_broadcast_violations()
    if wit:
        return wit[:8]
    from props import oracles
    wit += [w for w in oracles.net_violations(rng, tier) if "log-det" in w["law"]]
    kinds = list(dict.fromkeys(KINDS))
    for rep in range(per_kind):
        for ki, kind in enumerate(kinds):
            seed = base + 1000 * rep + ki
            try:
                w, st = violations_of(kind, seed, n_random=(2 if quick else 3))
            except Exception as ex:  # a constructor refusing a documented configuration is not a C02 matter
                stats["build-error:" + kind] = stats.get("build-error:" + kind, 0) + 1
                continue
            for k, v in st.items():
                stats[k] = stats.get(k, 0) + v
            wit += w
            if len(wit) >= 5:
                return wit[:8]
    # BlockAutoregressiveNetwork with every weight array overwritten: returned log-det vs slogdet(jacfwd), inverse log-det
    from props import bnafld
    wit += bnafld.search_bnafld(hints, tier, rng)
    if len(wit) >= 5:
        return wit[:8]
    # fixed probe of the known Planar(negative_slope > 1) defect (deterministic key, see known_findings.json)
    w, st = violations_of("planar_steep", STEEP_SEED, xs=[np.zeros(2)])
    wit += w
    search.stats = stats
    return wit


def replay(w):
    if w.get("kind") in ("net", "planar", "nested_invert"):
        from props import oracles
        return bool(oracles.replay_witness(w))
    if w.get("kind") == "bnafld":
        from props import bnafld
        return bnafld.replay_bnafld(w)
    if w.get("kind") == "affine_broadcast":
        return any(v["key"] == w["key"] for v in affine_broadcast_violations())
    wit, _ = violations_of(w["kind"], int(w["seed"]), xs=[np.asarray(w["x"], float)])
    return any(v["law"] == w["law"] for v in wit)
