"""Correspondence for the GENERATED `Permute` (Gen/PermGen.lean, translator tools/py2lean/py2perm.py; driver ops `gpermute`,
`gpermctor`) against the real class — shared by C01 / C07 / C11.

Cases: every permutation of sizes 1–4 as a 1-d array, random permutations on 2-d / 3-d shapes (also with size-1 axes), all four
methods (result shape, data, log-det), the stored index tuples (`permutation`, `inverse_permutation`: one index array per axis) and
the declared shape; invalid arrays (repeated, out-of-range, negative entries, 1-d and 2-d) must be rejected by both."""
from __future__ import annotations

import itertools

import jax
import jax.numpy as jnp
import numpy as np

import flowjax.bijections as B

import vlib
from vlib import fs2b, b2fs, ints

METHODS = {"t": "transform", "i": "inverse", "tl": "transform_and_log_det", "il": "inverse_and_log_det"}


def _tup(t):
    return ";".join(ints([int(v) for v in np.ravel(np.asarray(a))]) for a in t) if len(t) else "E"


def corr_generated(c, tier, rng, methods=("t", "i", "tl", "il")):
    quick = tier == "quick"
    perms = [([0], ())]  # rank 0
    for size in (1, 2, 3, 4):
        perms += [(list(p), (size,)) for p in itertools.permutations(range(size))]
    shapes = [(2, 2), (2, 3), (3, 2), (2, 2, 2), (1, 4), (4, 1), (2, 1, 3), (12,), (7,), (1, 1)]
    for _ in range(30 if quick else 300):
        shp = rng.choice(shapes)
        p = list(range(int(np.prod(shp)))); rng.shuffle(p)
        perms.append((p, shp))
    lines, wants, infos = [], [], []
    for p, shp in perms:
        obj = B.Permute(np.asarray(p).reshape(shp))
        lines.append(f"gpermctor {ints(shp)} {ints(p)}")
        wants.append(f"OK {ints(obj.shape)} {_tup(obj.permutation)} {_tup(obj.inverse_permutation)}")
        infos.append(dict(perm=p, shape=list(shp), what="ctor"))
        c.case(("gperm-ctor", tuple(p), shp), p != sorted(p))
        xs = [rng.uniform(-3, 3) for _ in range(len(p))]
        for m in methods:
            r = getattr(obj, METHODS[m])(jnp.asarray(np.reshape(xs, shp)))
            y, ld = (r if isinstance(r, tuple) else (r, None))
            lines.append(f"gpermute {m} {ints(shp)} {ints(p)} {fs2b(xs)}")
            wants.append((list(np.shape(y)), [float(v) for v in np.ravel(np.asarray(y))], None if ld is None else float(ld)))
            infos.append(dict(perm=p, shape=list(shp), method=m))
            c.case(("gperm", tuple(p), shp, m), p != sorted(p))
        c.count(f"permute-generated:rank{len(shp)}")
    bads = [([0, 0], (2,)), ([1, 2], (2,)), ([0, 2, 2], (3,)), ([3, 1, 0], (3,)), ([0, 1, 3], (3,)), ([0, -1, 2], (3,)),
            ([0, 1, 1, 2], (2, 2)), ([4, 1, 0, 2], (2, 2)), ([0, 1, 2, 3, 4, 4], (2, 3)), ([1, 2, 3, 4], (4,)), ([1], ())]
    for bad, shp in bads:
        try:
            jax.block_until_ready(B.Permute(jnp.asarray(bad).reshape(shp)).permutation)
            real = "ACC"
        except Exception:  # noqa: BLE001
            real = "REJ"
        lines.append(f"gpermctor {ints(shp)} {ints(bad)}")
        wants.append(real)
        infos.append(dict(perm=bad, shape=list(shp), what="invalid"))
        c.case(("gperm-bad", tuple(bad), shp), True)
        c.count("permute-generated:invalid")
    outs = vlib.run_model(lines)
    for line, got, want, info in zip(lines, outs, wants, infos):
        if isinstance(want, str):
            if want in ("ACC", "REJ"):
                ok = got.startswith("REJ") == (want == "REJ")
            else:
                ok = got == want
            if not ok:
                c.mismatch("permute-generated-ctor-vs-impl", op=line[:300], generated=got[:300], impl=want[:300], **info)
            continue
        toks = got.split(" ")
        shp, data, ld = want
        ok = len(toks) == (2 if ld is None else 3) and not got.startswith(("REJ", "ERR"))
        if ok:
            gshape = [int(v) for v in toks[0].split(",")] if toks[0] != "-" else []
            ok = gshape == shp and vlib.allclose(b2fs(toks[1]), data, rtol=0, atol=0) and (ld is None or b2fs(toks[2]) == [ld])
        if not ok:
            c.mismatch("permute-generated-vs-impl", op=line[:300], generated=got[:300], impl=[shp, data, ld], **info)
