"""C05 — the provided parametric families compute their textbook log-densities.

Tie to the code:
  * the standard log-densities and `AbstractTransformed._log_prob/_sample/_sample_and_log_prob` are REGENERATED
    from /repo (Gen/Dist.lean), the bijections too (Gen/Leaves.lean, Gen/Combinators.lean);
  * WHICH pieces each constructor plugs together, the lifting to n dimensions, the accessors and the mixture
    (log_softmax / logsumexp) are hand models (Model/Families.lean) — `corr` runs them at Float against the real
    objects (private `_log_prob`, public `log_prob`, accessors, `_sample`, `_sample_and_log_prob`, constructor guards);
  * MultivariateNormal: the hand model `Families.mvn` (generated `Transformed` over the hand model of `TriangularAffine`'s
    constructor) is fed with `jnp.linalg.cholesky(covariance)` and compared with the real `MultivariateNormal(loc, covariance)`
    (`_log_prob`, public `log_prob`, `.loc`, `.covariance`, `_sample`, `_sample_and_log_prob`, constructor guard on `loc`);
  * VmapMixture sampling: the harness recomputes `jr.split` / `jr.categorical` / the selected component's base sample and the
    model (`Families.vmapMixture`) must reproduce `_sample(key)` and `_sample_and_log_prob(key)` of the real mixture;
  * `search` is the property's own oracle on the real code only: scipy.stats in float64.

Points of discontinuity of the density (Uniform at maxval, where `(x - minval) / softplus(softplus_inv(maxval - minval))`
may round to 1 + ulp): the model and the reference are compared with an *input* tolerance (4 ulps or 4e-11 of the width) there (a value
tolerance is meaningless at a jump); strictly inside / outside the support the special-value class must agree exactly.
"""
from __future__ import annotations

import math

import equinox as eqx
import jax
import jax.numpy as jnp
import jax.random as jr
import numpy as np

import flowjax.distributions as D
from flowjax.wrappers import unwrap

import vlib
from vlib import f2b, fs2b, b2f, b2fs

ID = "C05"
GEN = ["Dist", "Leaves", "Combinators", "Params", "FamiliesGen", "Wrappers"]
RULE = ("9 families (Normal, LogNormal, Uniform, Gumbel, Cauchy, StudentT, Laplace, Exponential, Logistic) x parameter arrays of every "
        "broadcastable shape (scalar / vector / matrix, parameters broadcasting against each other) x points inside, on the edge of and "
        "outside the support, +-inf and batched points: model `_log_prob` and public `log_prob` (NaN -> -inf) vs the real ones, special-value "
        "classes exactly; accessors vs the model and vs the constructor's arguments; `_sample`/`_sample_and_log_prob` vs the model on the base "
        "sample; constructor guards; VmapMixture of 2-4 Normal / StudentT / Uniform components (scalar and vector) with unnormalised and "
        "rescaled weights; MultivariateNormal in dimensions 1-4 (thorough: 1-6) with random / diagonal / ill-conditioned / strongly "
        "correlated / tiny- and huge-scale SPD covariances, vector, scalar and shape-(1,) loc, points near the mean, in the far tails "
        "and with an infinite coordinate; VmapMixture `_sample` / `_sample_and_log_prob` on real keys. non-trivial = edge / outside / "
        "non-finite point, or parameters that broadcast, or any MultivariateNormal / mixture-sampling case; distinct = distinct "
        "(family, parameter shapes, parameters, point)")
TRUSTED = [
    "Lean 4.33 kernel; Mathlib v4.33; axioms propext, Classical.choice, Quot.sound",
    "py2lean translator + typing sheets targets_dist.py / targets_leaves.py / targets_comb.py (validated by this correspondence)",
    "Prelude/Stats.lean specs of jax.scipy.stats.{norm,uniform,cauchy,laplace,expon,logistic,t}.logpdf and Prelude/Jnp.lean primitives (validated here at Float)",
    "HasLgamma Float = Lanczos approximation (validated here against jax gammaln through StudentT)",
    "Model/Families.lean (constructor wiring, lifting to n dimensions, accessors, logsumexp/log_softmax/mixture, MultivariateNormal wiring, "
    "mixture component selection: hand models validated here); Model/Ctors.lean; Model/Triangular.lean + Model/Params.lean (TriangularAffine and its constructor)",
    "jnp.linalg.cholesky is a numerical primitive: the model takes its output as the parameter (theorems assume a lower-triangular factor with positive diagonal)",
    "the laws of the jax.random primitives (normal, uniform, gumbel, cauchy, t, laplace, exponential, logistic, categorical; independence of the halves of jr.split): "
    "every _Standard*._sample is exactly one such call; the sample-law theorems push these laws through the code's bijections",
    "theorems are over the reals (log Gamma = Real.log (Real.Gamma x)) and over EF (reals + +-inf + NaN with IEEE special-value rules, exact finite arithmetic) for "
    "'-inf outside the support, never NaN'; IEEE rounding, overflow and underflow are measured by the correspondence, not proved",
]
ASSUMPTIONS = [
    "the PRNG is JAX's: the model's key is the base sample (mixtures: categorical draw + base sample); 'samples follow the density' is proved as a push-forward "
    "of the primitive's law for every family, MultivariateNormal and mixtures, and measured by a KS statistic in the witness search",
    "MultivariateNormal: the model's parameter is the Cholesky factor (the factorisation itself is JAX's); model-vs-implementation tolerance is scaled by cond(L)",
    "over the reals the theorems are stated on the support (Real.log 0 = 0 is not -inf); -inf outside the support and the NaN -> -inf line are proved for the EF "
    "instantiation of the same definitions and checked at Float here",
    "at the upper edge of Uniform the comparison uses an input tolerance of max(16 ulps, 4e-11 * width) (the scale's softplus round trip is not exact in floating point, and Prelude's Float expm1 is less accurate than libm's)",
]
TOL = dict(rtol=1e-8, atol=1e-9)

FAMS = {
    # name: (constructor, parameter kinds)
    "Normal": (D.Normal, ("loc", "pos")),
    "LogNormal": (D.LogNormal, ("loc", "pos")),
    "Uniform": (D.Uniform, ("lo", "hi")),
    "Gumbel": (D.Gumbel, ("loc", "pos")),
    "Cauchy": (D.Cauchy, ("loc", "pos")),
    "Laplace": (D.Laplace, ("loc", "pos")),
    "Logistic": (D.Logistic, ("loc", "pos")),
    "Exponential": (D.Exponential, ("pos",)),
    "StudentT": (D.StudentT, ("df", "loc", "pos")),
}
SHAPES = {
    1: [((),), ((3,),), ((2, 3),), ((1,),)],
    2: [((), ()), ((3,), ()), ((), (3,)), ((3,), (3,)), ((2, 1), (3,)), ((3,), (2, 3)), ((2, 2), ()), ((1,), (1,)), ((1, 3), (2, 1))],
    3: [((), (), ()), ((3,), (), ()), ((), (3,), (1,)), ((2, 1), (3,), ()), ((3,), (2, 1), (2, 3)), ((), (), (2, 2)), ((2,), (2,), (2,))],
}


def ulps(v, k):
    for _ in range(abs(k)):
        v = float(np.nextafter(v, math.inf if k > 0 else -math.inf))
    return v


# ------------------------------------------------------------------ building real objects and their flat parameters
def rand_params(rng, kinds, shapes):
    """numpy parameter arrays (float64) for the given kinds/shapes; Uniform: every maxval above every minval"""
    out = []
    for kind, shp in zip(kinds, shapes):
        n = int(np.prod(shp)) if shp else 1
        if kind == "loc" or kind == "lo":
            v = [rng.uniform(-3, 3) for _ in range(n)]
        elif kind == "pos":
            v = [rng.choice([math.exp(rng.uniform(-2, 2)), math.exp(rng.uniform(-2, 2)), 1e-3, 1e3, 1.0, 0.5]) for _ in range(n)]
        elif kind == "df":
            v = [rng.choice([math.exp(rng.uniform(-1.5, 3.5)), 1.0, 2.0, 0.3, 30.0]) for _ in range(n)]
        elif kind == "hi":
            lo_max = float(np.max(out[0]))
            v = [lo_max + rng.choice([math.exp(rng.uniform(-3, 3)), 1.0, 1e-3, 100.0]) for _ in range(n)]
        else:
            raise AssertionError(kind)
        out.append(np.asarray(v, float).reshape(shp))
    return out


def build(name, params):
    return FAMS[name][0](*[jnp.asarray(p) for p in params])


def flat_params(params, shape):
    return [np.broadcast_to(p, shape).ravel().tolist() for p in params]


def std_points(name, fp, rng, n):
    """one interior point per element (from the parameters, not from the implementation)"""
    xs = []
    for i in range(n):
        t = rng.uniform(-2.5, 2.5)
        if name == "Uniform":
            a, b = fp[0][i], fp[1][i]
            xs.append(a + (b - a) * rng.uniform(0.02, 0.98))
        elif name == "Exponential":
            xs.append(rng.choice([rng.expovariate(1.0), 1e-12, 5.0]) / fp[0][i])
        elif name == "LogNormal":
            xs.append(math.exp(fp[0][i] + min(fp[1][i], 50.0) * t * (0.2 if fp[1][i] > 10 else 1.0)))
        elif name == "StudentT":
            xs.append(fp[1][i] + fp[2][i] * t * rng.choice([1.0, 1.0, 20.0]))
        else:
            xs.append(fp[0][i] + fp[1][i] * t)
    return xs


def special_points(name, fp, i):
    """[(label, value, exact_class)] for element i: edges / outside the support / non-finite.
    exact_class False = discontinuity reached through inexact arithmetic: compare with an input tolerance."""
    pts = [("+inf", math.inf, True), ("-inf", -math.inf, True)]
    if name == "Uniform":
        a, b = fp[0][i], fp[1][i]
        w = b - a
        pts += [("edge:minval", a, True), ("out:minval-1ulp", ulps(a, -1), True), ("out:below", a - 0.1 * w - 1e-9, True),
                ("edge:maxval", b, False), ("near:maxval+1ulp", ulps(b, 1), False), ("near:maxval-1ulp", ulps(b, -1), False),
                ("out:above", b + 0.1 * w + 1e-6 * (abs(b) + 1), True), ("in:just-below-maxval", b - 1e-6 * w, True)]
    elif name == "Exponential":
        pts += [("edge:0", 0.0, True), ("edge:-0", -0.0, True), ("out:-1e-300", -1e-300, True), ("out:-1", -1.0, True)]
    elif name == "LogNormal":
        pts += [("edge:0", 0.0, True), ("out:-1", -1.0, True), ("out:-1e-300", -1e-300, True), ("in:1e-300", 1e-300, True)]
    return pts


def real_lps(dist, x):
    """(private, public) log-probs of the real distribution at one unbatched point"""
    xa = jnp.asarray(x, float)
    try:
        priv = float(unwrap(dist)._log_prob(xa))
    except Exception as ex:
        priv = "EXC:" + type(ex).__name__
    try:
        pub = float(dist.log_prob(xa))
    except Exception as ex:
        pub = "EXC:" + type(ex).__name__
    return [priv, pub]


def parse_out(got):
    if got.startswith("ERR") or got == "REJ":
        return got
    vals = []
    for t in got.split(" "):
        vals += b2fs(t)
    return vals


def same(vals, want):
    return (isinstance(vals, list) and len(vals) == len(want) and not any(isinstance(w, str) for w in want)
            and vlib.allclose(vals, want, **TOL))


# ------------------------------------------------------------------ correspondence
def corr(c, tier, rng):
    quick = tier == "quick"
    lines, checks = [], []   # checks[i] = (name, want, info, alts) ; alts = indices of alternative model lines (input tolerance)

    def add(line, name, want, info, sig, nontrivial, sample=False, alts=()):
        lines.append(line)
        checks.append((name, want, info, list(alts)))
        c.case(sig, nontrivial, sample={"op": line[:200], "impl": want} if sample else None)
        return len(lines) - 1

    def aux(line):
        lines.append(line)
        checks.append(None)
        return len(lines) - 1

    reps = 1 if quick else 10
    edge_real = {"n": 0, "neg_inf": 0, "examples": []}
    spec_note = False
    for name, (ctor, kinds) in FAMS.items():
        for shapes in SHAPES[len(kinds)]:
            for rep in range(reps):
                params = rand_params(rng, kinds, shapes)
                dist = build(name, params)
                shape = tuple(np.broadcast_shapes(*shapes))
                if tuple(dist.shape) != shape:
                    c.mismatch("family-shape", family=name, shapes=shapes, impl=tuple(dist.shape), want=shape)
                    continue
                n = int(np.prod(shape)) if shape else 1
                fp = flat_params(params, shape)
                broadcasts = len(set(shapes)) > 1
                ptxt = " ".join(fs2b(p) for p in fp)
                psc = lambda i: " ".join(f2b(p[i]) for p in fp)
                sigp = (name, shapes, tuple(map(tuple, fp)))

                def lp_line(xs):
                    return f"family {name} {psc(0)} {f2b(xs[0])}" if shape == () else f"familyv {name} {ptxt} {fs2b(xs)}"

                # ---- interior points
                for k in range(2 if quick else 4):
                    xs = std_points(name, fp, rng, n)
                    add(lp_line(xs), "family-log_prob-vs-impl", real_lps(dist, np.reshape(xs, shape)), dict(family=name, shapes=shapes, params=fp, x=xs, kind="inside"),
                        sigp + (tuple(xs),), broadcasts, sample=(rep == 0 and k == 0 and shapes == SHAPES[len(kinds)][4 if len(kinds) > 1 else 1]))
                    c.count(f"{name}:inside")
                # ---- edge / outside / non-finite at one element, the others inside
                base_xs = std_points(name, fp, rng, n)
                j = rng.randrange(n)
                for label, v, exact in special_points(name, fp, j):
                    xs = list(base_xs)
                    xs[j] = v
                    want = real_lps(dist, np.reshape(xs, shape))
                    if name in ("Logistic", "Exponential") and label == "-inf":
                        # Prelude/Stats.lean at x = -inf: logisticLogpdf = -x - 2 softplus(-x) and exponLogpdf = -x + log(if x < 0 then 0 else 1)
                        # are inf - inf = NaN, whereas jax computes -2 logaddexp(x/2, -x/2) = -inf resp. where(x < 0, -inf, ...) = -inf.
                        # The specs agree with jax on every finite input and publicly (NaN -> -inf): only the public value is compared here.
                        want = [None, want[1]]
                        spec_note = True
                    alts = []
                    if not exact:
                        # input tolerance at the jump: the Float model's softplus round trip of the scale (Prelude's expm1 is `exp x - 1` beyond
                        # 1e-5) and JAX's differ by up to ~1e-13 relative, i.e. the two jumps sit within ~1e-13 * (maxval - minval) of each other
                        dx = max(4 * float(np.spacing(abs(v))), 1e-11 * (fp[1][j] - fp[0][j]))
                        for du in (-4, -1, 1, 4):
                            xs2 = list(xs)
                            xs2[j] = v + du * dx
                            alts.append(aux(lp_line(xs2)))
                        if label == "edge:maxval":
                            edge_real["n"] += 1
                            if want[1] == -math.inf:
                                edge_real["neg_inf"] += 1
                                if len(edge_real["examples"]) < 3:
                                    edge_real["examples"].append(dict(minval=fp[0][j], maxval=fp[1][j], log_prob_at_maxval=want[1]))
                    add(lp_line(xs), "family-log_prob-vs-impl", want, dict(family=name, shapes=shapes, params=fp, x=xs, kind=label),
                        sigp + (tuple(xs), label), True, sample=(rep == 0 and label in ("edge:maxval", "edge:0") and shape == ()), alts=alts)
                    c.count(f"{name}:{label.split(':')[0]}")
                # ---- batched public log_prob (leading dimensions broadcast by jnp.vectorize)
                if rep == 0:
                    xb = [std_points(name, fp, rng, n) for _ in range(3)]
                    pub = np.asarray(dist.log_prob(jnp.asarray(np.reshape(xb, (3,) + shape))))
                    if pub.shape != (3,):
                        c.mismatch("batched-log_prob-shape", family=name, shapes=shapes, impl=pub.shape)
                    else:
                        for r in range(3):
                            add(lp_line(xb[r]), "batched-log_prob-vs-model", [None, float(pub[r])], dict(family=name, shapes=shapes, params=fp, x=xb[r], kind="batched"),
                                sigp + (tuple(xb[r]), "batched"), broadcasts)
                            c.count(f"{name}:batched")
                # ---- accessors: model vs impl, and impl vs the constructor's arguments
                acc = accessors(name, dist)
                want_args = accessor_args(name, params, shape)
                for an, av in acc.items():
                    if av.shape != shape or not np.allclose(av, want_args[an], rtol=1e-12, atol=0):
                        c.mismatch("accessor-vs-constructor-argument", family=name, shapes=shapes, accessor=an, impl=av.tolist(), want=np.asarray(want_args[an]).tolist())
                if acc:
                    for i in range(n):
                        add(f"accessor {name} {psc(i)}", "accessor-vs-impl", [float(av.ravel()[i]) for av in acc.values()], dict(family=name, shapes=shapes, params=fp, elem=i),
                            sigp + ("acc", i), broadcasts)
                        c.count(f"{name}:accessor")
                # ---- samplers on the base sample (elementwise)
                u = unwrap(dist)
                key = jr.PRNGKey(rng.randrange(2 ** 31))
                z = np.asarray(u.base_dist._sample(key)).ravel()
                s = np.asarray(u._sample(key)).ravel()
                s2, lp2 = u._sample_and_log_prob(key)
                s2 = np.asarray(s2).ravel()
                tot = 0.0
                idx = []
                for i in range(n):
                    idx.append(add(f"familys {name} {psc(i)} {f2b(z[i])}", "sampler-vs-impl", [float(s[i]), float(s2[i]), None], dict(family=name, shapes=shapes, params=fp, elem=i, z=float(z[i])),
                                   sigp + ("s", i, float(z[i])), broadcasts))
                    c.count(f"{name}:sample")
                checks.append(("sample_and_log_prob-sum", float(lp2), dict(family=name, shapes=shapes, params=fp, z=z.tolist()), idx))
                lines.append("mixweights " + f2b(1.0))  # placeholder op keeping lines/checks aligned
        # ---- constructor guards
        if name == "Uniform":
            for a, b in [(1.0, 1.0), (2.0, 1.0), (0.0, -1e-9)]:
                add(f"family Uniform {f2b(a)} {f2b(b)} {f2b(0.5)}", "constructor-guard", ["REJ" if raises(lambda: D.Uniform(a, b).bijection.loc) else "ACC"], dict(family=name, minval=a, maxval=b), ("guardU", a, b), True)
        if name == "StudentT":
            for df in [0.0, -1.0]:
                add(f"family StudentT {f2b(df)} {f2b(0.0)} {f2b(1.0)} {f2b(0.5)}", "constructor-guard", ["REJ" if raises(lambda: D.StudentT(df).base_dist.df) else "ACC"], dict(family=name, df=df), ("guardT", df), True)
    outs = vlib.run_model(lines)
    parsed = [parse_out(o) for o in outs]
    for i, ch in enumerate(checks):
        if ch is None:
            continue
        name, want, info, alts = ch
        got = parsed[i]
        if name == "sample_and_log_prob-sum":
            vals = [parsed[k] for k in alts]
            if all(isinstance(v, list) and len(v) == 3 for v in vals):
                tot = sum(v[2] for v in vals)
                if not vlib.close(tot, want, rtol=1e-8, atol=1e-8):
                    c.mismatch("sample_and_log_prob-vs-impl", model_sum=tot, impl=want, **info)
            continue
        if name == "constructor-guard":
            if (got == "REJ") != (want[0] == "REJ"):
                c.mismatch(name, op=lines[i], model=got, impl=want, **info)
            continue
        if isinstance(got, str):
            c.mismatch(name, op=lines[i][:300], model=got, impl=want, **info)
            continue
        # None in `want` = not compared for this line
        ok = len(got) == len(want) and all(w is None or (not isinstance(w, str) and vlib.close(g, w, **TOL)) for g, w in zip(got, want))
        if not ok and alts:
            for k in alts:
                g2 = parsed[k]
                if isinstance(g2, list) and len(g2) == len(want) and all(w is None or (not isinstance(w, str) and vlib.close(g, w, **TOL)) for g, w in zip(g2, want)):
                    ok = True
                    c.count("input-tolerance-used")
                    break
        if not ok:
            c.mismatch(name, op=lines[i][:300], model=got, impl=want, **info)
        # public = private with NaN -> -inf, never NaN (real code)
        if name == "family-log_prob-vs-impl" and want[1] is not None and not isinstance(want[1], str):
            if math.isnan(want[1]):
                c.mismatch("public-log_prob-is-never-nan", op=lines[i][:300], impl=want, **info)
    if spec_note:
        c.notes.append("Logistic / Exponential at x = -inf: the private _log_prob is not compared (the Prelude/Stats.lean specs give inf - inf = NaN where "
                       "jax's -2 logaddexp(x/2, -x/2) resp. where(x < 0, -inf, ..) give -inf); the public log_prob (-inf in both) is compared")
    if edge_real["n"]:
        c.notes.append(f"real Uniform.log_prob at x == maxval exactly: -inf in {edge_real['neg_inf']} of {edge_real['n']} parameter draws "
                       f"(floating-point rounding of (x - minval) / softplus(softplus_inv(maxval - minval)); scipy gives -log(maxval - minval)); examples: {edge_real['examples']}")
    mixture_corr(c, tier, rng)
    mvn_corr(c, tier, rng)
    mixsample_corr(c, tier, rng)
    # the REGENERATED constructors / accessors (Gen/FamiliesGen.lean) at Float vs the real constructors
    import sys
    from props import famgen
    famgen.corr(c, tier, rng, sys.modules[__name__])


def raises(f):
    try:
        jax.block_until_ready(f())
        return False
    except Exception:
        return True


def accessors(name, dist):
    if name in ("Normal", "Gumbel", "Cauchy", "Laplace", "Logistic"):
        return {"loc": np.asarray(dist.loc), "scale": np.asarray(dist.scale)}
    if name == "Uniform":
        return {"minval": np.asarray(dist.minval), "maxval": np.asarray(dist.maxval)}
    if name == "Exponential":
        return {"rate": np.asarray(dist.rate)}
    if name == "StudentT":
        return {"df": np.asarray(dist.df), "loc": np.asarray(dist.loc), "scale": np.asarray(dist.scale)}
    return {}


def accessor_args(name, params, shape):
    bc = [np.broadcast_to(p, shape) for p in params]
    if name in ("Normal", "Gumbel", "Cauchy", "Laplace", "Logistic"):
        return {"loc": bc[0], "scale": bc[1]}
    if name == "Uniform":
        return {"minval": bc[0], "maxval": bc[1]}
    if name == "Exponential":
        return {"rate": bc[0]}
    if name == "StudentT":
        return {"df": bc[0], "loc": bc[1], "scale": bc[2]}
    return {}


# ------------------------------------------------------------------ mixtures
def rand_mixture(rng, comp=None, k=None, d=None):
    comp = comp or rng.choice(["Normal", "Normal", "StudentT", "Uniform"])
    k = k or rng.choice([2, 3, 4])
    d = rng.choice([None, None, 1, 3]) if d is None else (d or None)
    shp = (k,) if d is None else (k, d)
    kinds = FAMS[comp][1]
    params = rand_params(rng, kinds, [shp] * len(kinds))
    if comp == "Uniform":   # overlapping but different supports
        params[1] = params[0] + np.asarray([math.exp(rng.uniform(-1, 1.5)) for _ in range(int(np.prod(shp)))]).reshape(shp)
    ws = np.asarray([rng.choice([math.exp(rng.uniform(-3, 3)), 1.0, 1e-4, 50.0]) for _ in range(k)])
    return comp, k, d, params, ws


def build_mixture(comp, params, ws):
    return D.VmapMixture(eqx.filter_vmap(FAMS[comp][0])(*[jnp.asarray(p) for p in params]), jnp.asarray(ws))


def mixture_points(comp, k, d, params, rng):
    n = d or 1
    pts = []
    for _ in range(3):
        j = rng.randrange(k)
        fp = [np.asarray(p[j]).ravel().tolist() for p in params]
        pts.append(std_points(comp, fp, rng, n))
    lo = float(np.min(params[0])) - 30.0
    pts.append([lo] * n)                      # far in the tail / outside every Uniform component
    if comp == "Uniform":
        pts.append([float(np.asarray(params[0][0]).ravel()[0])] * n)  # a component's minval edge
    return pts


def mixture_corr(c, tier, rng):
    nmix = 14 if tier == "quick" else 200
    cases = []
    lines1 = []
    for mi in range(nmix):
        comp, k, d, params, ws = rand_mixture(rng)
        for scale_w in (1.0, rng.choice([1e-3, 7.5, 1e4])):
            w2 = ws * scale_w
            m = build_mixture(comp, params, w2)
            um = unwrap(m)
            lw = np.asarray(um.log_normalized_weights).tolist()
            for xs in mixture_points(comp, k, d, params, rng):
                x = np.reshape(xs, () if d is None else (d,))
                want = real_lps(m, x)
                comp_lps = np.asarray(eqx.filter_vmap(lambda dd: dd._log_prob(jnp.asarray(x, float), None))(um.dist)).tolist()
                idx = []
                for j in range(k):
                    fp = [np.asarray(p[j]).ravel().tolist() for p in params]
                    if d is None:
                        lines1.append(f"family {comp} " + " ".join(f2b(p[0]) for p in fp) + f" {f2b(xs[0])}")
                    else:
                        lines1.append(f"familyv {comp} " + " ".join(fs2b(p) for p in fp) + f" {fs2b(xs)}")
                    idx.append(len(lines1) - 1)
                cases.append(dict(comp=comp, k=k, d=d, params=[p.tolist() for p in params], ws=w2.tolist(), x=xs, want=want, comp_lps=comp_lps, idx=idx, lw=lw, rescaled=scale_w != 1.0))
    out1 = [parse_out(o) for o in vlib.run_model(lines1)]
    lines2 = []
    for cs in cases:
        vals = [out1[i] for i in cs["idx"]]
        cs["model_comp"] = [v[0] if isinstance(v, list) else math.nan for v in vals]
        for g, w in zip(cs["model_comp"], cs["comp_lps"]):
            if not vlib.close(g, w, **TOL):
                c.mismatch("mixture-component-log_prob-vs-impl", model=cs["model_comp"], impl=cs["comp_lps"], **{k: cs[k] for k in ("comp", "params", "x")})
                break
        lines2.append(f"mixture {fs2b(cs['model_comp'])} {fs2b(cs['ws'])}")
        lines2.append(f"mixweights {fs2b(cs['ws'])}")
    out2 = [parse_out(o) for o in vlib.run_model(lines2)]
    for i, cs in enumerate(cases):
        info = {k: cs[k] for k in ("comp", "k", "d", "params", "ws", "x")}
        got, gw = out2[2 * i], out2[2 * i + 1]
        sig = ("mix", cs["comp"], cs["k"], cs["d"], tuple(cs["ws"]), tuple(cs["x"]), str(cs["params"]))
        c.case(sig, True, sample={"op": lines2[2 * i][:200], "impl": cs["want"]} if i < 2 else None)
        c.count(f"mixture:{cs['comp']}:k={cs['k']}:" + ("vector" if cs["d"] else "scalar") + (":rescaled" if cs["rescaled"] else ""))
        if not same(got, cs["want"]):
            c.mismatch("mixture-log_prob-vs-impl", op=lines2[2 * i][:300], model=got, impl=cs["want"], **info)
        if not same(gw, cs["lw"]):
            c.mismatch("mixture-log_normalized_weights-vs-impl", model=gw, impl=cs["lw"], **info)
    # guard: non-positive weights are rejected
    for ws in ([1.0, 0.0], [1.0, -2.0, 3.0]):
        k = len(ws)
        r = raises(lambda: D.VmapMixture(eqx.filter_vmap(D.Normal)(jnp.zeros(k), jnp.ones(k)), jnp.asarray(ws)).log_normalized_weights)
        got = vlib.run_model([f"mixture {fs2b([0.0] * k)} {fs2b(ws)}"])[0]
        c.case(("mixguard", tuple(ws)), True)
        if (got == "REJ") != r:
            c.mismatch("constructor-guard", family="VmapMixture", weights=ws, model=got, impl="REJ" if r else "ACC")



# ------------------------------------------------------------------ MultivariateNormal (model fed with jnp.linalg.cholesky(cov))
COV_KINDS = ["random", "diagonal", "illcond", "correlated", "tiny", "huge", "identity"]


def rand_orth(rng, dim):
    a = np.asarray([[rng.gauss(0, 1) for _ in range(dim)] for _ in range(dim)])
    q, r = np.linalg.qr(a)
    return q * np.sign(np.diag(r))


def rand_cov(rng, dim, kind):
    """symmetric positive-definite matrix of the requested kind (float64, exactly symmetric)"""
    if kind == "random":
        cov = rand_spd(rng, dim)
    elif kind == "diagonal":
        cov = np.diag([math.exp(rng.uniform(-4, 4)) for _ in range(dim)])
    elif kind == "illcond":
        q = rand_orth(rng, dim)
        ev = np.geomspace(1.0, 10.0 ** (-rng.choice([4, 6, 8, 10])), dim) if dim > 1 else np.asarray([1e-8])
        cov = (q * ev) @ q.T
    elif kind == "correlated":
        rho = rng.choice([0.99, 0.999, -0.995])
        sd = np.asarray([math.exp(rng.uniform(-1, 1)) for _ in range(dim)])
        corr = np.full((dim, dim), rho if rho > 0 else 0.0) + (1 - (rho if rho > 0 else 0.0)) * np.eye(dim)
        if rho < 0 and dim >= 2:
            corr[0, 1] = corr[1, 0] = rho
        cov = corr * np.outer(sd, sd)
    elif kind == "tiny":
        cov = rand_spd(rng, dim) * 1e-8
    elif kind == "huge":
        cov = rand_spd(rng, dim) * 1e8
    elif kind == "identity":
        cov = np.eye(dim)
    else:
        raise AssertionError(kind)
    return (cov + cov.T) / 2


def rand_mvn_loc(rng, dim):
    """(constructor argument, broadcast vector, label)"""
    r = rng.random()
    if r < 0.65:
        v = [rng.uniform(-3, 3) for _ in range(dim)]
        return np.asarray(v), np.asarray(v), "vector"
    if r < 0.85:
        l = rng.uniform(-3, 3)
        return np.asarray(l), np.full(dim, l), "scalar"
    l = rng.uniform(-3, 3)
    return np.asarray([l]), np.full(dim, l), "shape(1,)"


def mvn_points(rng, locv, L):
    """[(label, x, compare_private)]: near the mean, far tails, on an axis, with an infinite coordinate"""
    dim = len(locv)
    pts = [("mean", locv.copy(), True)]
    for lab, r in (("near", 1.0), ("near", 2.5), ("tail", 40.0), ("far-tail", 1e3), ("far-tail", 1e6)):
        z = np.asarray([rng.gauss(0, 1) for _ in range(dim)]) * r
        pts.append((lab, locv + L @ z, True))
    e = np.zeros(dim)
    e[rng.randrange(dim)] = rng.choice([-1.0, 1.0]) * 50.0 * math.sqrt(float(np.max(np.diag(L @ L.T))))
    pts.append(("axis", locv + e, True))
    pts.append(("raw", np.asarray([rng.gauss(0, 3) for _ in range(dim)]), True))
    xi = locv.copy()
    xi[rng.randrange(dim)] = rng.choice([math.inf, -math.inf])
    pts.append(("inf-coordinate", xi, False))
    return pts


def mvn_corr(c, tier, rng):
    quick = tier == "quick"
    dims = [1, 2, 3, 4] if quick else [1, 2, 3, 4, 5, 6]
    reps = 1 if quick else 6
    lines, checks = [], []
    worst = 0.0
    for dim in dims:
        for kind in COV_KINDS:
            for rep in range(reps):
                cov = rand_cov(rng, dim, kind)
                loc_arg, locv, loclab = rand_mvn_loc(rng, dim)
                L = np.asarray(jnp.linalg.cholesky(jnp.asarray(cov)))
                if not np.all(np.isfinite(L)):
                    c.count("mvn:cholesky-not-finite (skipped)")
                    continue
                condL = float(np.linalg.cond(L))
                mv = D.MultivariateNormal(jnp.asarray(loc_arg), jnp.asarray(cov))
                um = unwrap(mv)
                tol = dict(rtol=1e-9 + 4e-14 * condL, atol=1e-9 + 4e-14 * condL)
                loc_txt = fs2b(np.atleast_1d(loc_arg))
                ltxt = fs2b(L.ravel())
                base = dict(dim=dim, kind=kind, loc=np.atleast_1d(loc_arg).tolist(), loc_kind=loclab, cov=cov.tolist(), chol=L.tolist(), cond_chol=condL)
                sigp = ("mvn", dim, kind, tuple(np.atleast_1d(loc_arg).tolist()), tuple(cov.ravel().tolist()))
                # ---- log_prob
                for label, x, cmp_priv in mvn_points(rng, locv, L):
                    want = real_lps(mv, x)
                    if not cmp_priv:
                        want = [None, want[1]]
                    lines.append(f"mvn lp {dim} {loc_txt} {ltxt} {fs2b(x)}")
                    checks.append(("mvn-log_prob-vs-impl", want, dict(base, x=x.tolist(), point=label), tol))
                    c.case(sigp + (tuple(x.tolist()),), True, sample={"op": lines[-1][:200], "impl": want} if (rep == 0 and label == "tail" and kind == "illcond") else None)
                    c.count(f"mvn:dim={dim}:{kind}:{label}")
                    if isinstance(want[1], float) and math.isnan(want[1]):
                        c.mismatch("public-log_prob-is-never-nan", impl=want, **base)
                # ---- accessors: vs the model, and vs the constructor's arguments
                got_loc = np.asarray(mv.loc)
                got_cov = np.asarray(mv.covariance)
                kappa = float(np.linalg.cond(cov))
                if got_loc.shape != (dim,) or not np.array_equal(got_loc, locv):
                    c.mismatch("accessor-vs-constructor-argument", accessor="loc", impl=got_loc.tolist(), want=locv.tolist(), **base)
                if got_cov.shape != (dim, dim) or not np.allclose(got_cov, cov, rtol=1e-13 * max(kappa, 1.0) + 1e-12, atol=1e-14 * float(np.max(np.abs(cov))) * max(kappa, 1.0)):
                    c.mismatch("accessor-vs-constructor-argument", accessor="covariance", impl=got_cov.tolist(), want=cov.tolist(), **base)
                lines.append(f"mvn acc {dim} {loc_txt} {ltxt}")
                checks.append(("mvn-accessor-vs-impl", [got_loc.tolist(), got_cov.ravel().tolist()], base, dict(rtol=1e-11, atol=1e-13 * float(np.max(np.abs(cov))))))
                c.case(sigp + ("acc",), True)
                c.count(f"mvn:dim={dim}:{kind}:accessor")
                # ---- the stored triangular matrix is the Cholesky factor
                tri = np.asarray(um.bijection.triangular)
                if not np.allclose(tri, L, rtol=1e-12, atol=0):
                    c.mismatch("mvn-stored-triangular-vs-cholesky", impl=tri.tolist(), **base)
                # ---- samplers on the base sample
                key = jr.PRNGKey(rng.randrange(2 ** 31))
                z = np.asarray(um.base_dist._sample(key))
                s = np.asarray(um._sample(key))
                s2, lp2 = um._sample_and_log_prob(key)
                lines.append(f"mvn s {dim} {loc_txt} {ltxt} {fs2b(z)}")
                checks.append(("mvn-sampler-vs-impl", [s.tolist(), np.asarray(s2).tolist(), float(lp2)], dict(base, z=z.tolist()), tol))
                c.case(sigp + ("s", tuple(z.tolist())), True)
                c.count(f"mvn:dim={dim}:{kind}:sample")
    # ---- constructor guard: loc must broadcast to (dim,)
    for loc, dim in (([1.0, 2.0, 3.0], 2), ([1.0, 2.0], 3), ([0.5], 3), ([0.5, 0.25], 2)):
        r = raises(lambda: D.MultivariateNormal(jnp.asarray(loc), jnp.eye(dim) * 2.0).loc)
        lines.append(f"mvn lp {dim} {fs2b(loc)} {fs2b((math.sqrt(2.0) * np.eye(dim)).ravel())} {fs2b([0.1] * dim)}")
        checks.append(("constructor-guard", "REJ" if r else "ACC", dict(family="MultivariateNormal", loc=loc, dim=dim), None))
        c.case(("mvnguard", tuple(loc), dim), True)
    outs = vlib.run_model(lines)
    for line, out, (name, want, info, tol) in zip(lines, outs, checks):
        if name == "constructor-guard":
            if (out == "REJ") != (want == "REJ"):
                c.mismatch(name, op=line[:300], model=out, impl=want, **info)
            continue
        if out.startswith("ERR") or out == "REJ":
            c.mismatch(name, op=line[:300], model=out, impl=want, **info)
            continue
        got = [b2fs(t) for t in out.split(" ")]
        if name == "mvn-log_prob-vs-impl":
            g = [got[0][0], got[1][0]]
            ok = all(w is None or (not isinstance(w, str) and vlib.close(a, w, **tol)) for a, w in zip(g, want))
            if ok and want[0] is not None and math.isfinite(want[0]) and math.isfinite(g[0]):
                worst = max(worst, abs(g[0] - want[0]) / (1 + abs(want[0])) / max(1.0, info["cond_chol"]))
        elif name == "mvn-accessor-vs-impl":
            ok = len(got) == 2 and vlib.allclose(got[0], want[0], rtol=1e-15, atol=0) and vlib.allclose(got[1], want[1], **tol)
            g = got
        else:
            g = [got[0], got[1], got[2][0]]
            ok = vlib.allclose(g[0], want[0], **tol) and vlib.allclose(g[1], want[1], **tol) and vlib.close(g[2], want[2], **tol)
        if not ok:
            c.mismatch(name, op=line[:300], model=g, impl=want, **info)
    c.notes.append(f"MultivariateNormal: largest model-vs-implementation discrepancy of a finite log_prob, relative to (1 + |log_prob|) * cond(cholesky): {worst:.3e}")


# ------------------------------------------------------------------ VmapMixture._sample / _sample_and_log_prob on real keys
def mixsample_corr(c, tier, rng):
    from jax.tree_util import tree_map
    nmix = 10 if tier == "quick" else 60
    nkeys = 4 if tier == "quick" else 6
    lines, checks = [], []
    seen_components = set()
    for mi in range(nmix):
        comp, k, d, params, ws = rand_mixture(rng)
        m = build_mixture(comp, params, ws)
        um = unwrap(m)
        mdim = d or 1
        ptxt = " ".join(fs2b(np.asarray(p).ravel()) for p in params)
        for ki in range(nkeys):
            key = jr.PRNGKey(rng.randrange(2 ** 31))
            # what the code's formula does, recomputed here from the primitives
            key1, key2 = jr.split(key)
            component = int(jr.categorical(key1, um.log_normalized_weights))
            cdist = tree_map(lambda leaf: leaf[component] if isinstance(leaf, jax.Array) else leaf, um.dist)
            z = np.asarray(cdist.base_dist._sample(key2)).ravel()
            s = np.asarray(um._sample(key)).ravel()
            s2, lp2 = um._sample_and_log_prob(key)
            # independent reading of the selected component: constructed from its own parameters
            direct = build(comp, [np.asarray(p[component]) for p in params])
            sd = np.asarray(unwrap(direct)._sample(key2)).ravel()
            info = dict(comp=comp, k=k, d=d, params=[np.asarray(p).tolist() for p in params], ws=ws.tolist(), component=component, z=z.tolist())
            if not vlib.allclose(s.tolist(), sd.tolist(), rtol=1e-12, atol=0):
                c.mismatch("mixture-sample-vs-selected-component", impl=s.tolist(), component_sample=sd.tolist(), **info)
            lines.append(f"mixsample {comp} {k} {d or 0} {fs2b(ws)} {ptxt} {component} {fs2b(z)}")
            checks.append(([s.tolist(), np.asarray(s2).ravel().tolist(), float(lp2)], info))
            c.case(("mixsample", comp, k, d, tuple(ws.tolist()), str(info["params"]), component, tuple(z.tolist())), True,
                   sample={"op": lines[-1][:200], "impl": checks[-1][0]} if (mi == 0 and ki == 0) else None)
            c.count(f"mixsample:{comp}:k={k}:" + ("vector" if d else "scalar"))
            seen_components.add((mi, component))
        # public sample_and_log_prob agrees with public log_prob at the sample (real code)
        xs, lps = m.sample_and_log_prob(jr.PRNGKey(rng.randrange(2 ** 31)), (5,))
        if not np.allclose(np.asarray(m.log_prob(xs)), np.asarray(lps), rtol=1e-9, atol=1e-9):
            c.mismatch("mixture-sample_and_log_prob-vs-log_prob", impl=np.asarray(lps).tolist(), log_prob=np.asarray(m.log_prob(xs)).tolist(), comp=comp, k=k, d=d)
    outs = vlib.run_model(lines)
    for line, out, (want, info) in zip(lines, outs, checks):
        if out.startswith("ERR") or out == "REJ":
            c.mismatch("mixture-sampler-vs-impl", op=line[:300], model=out, impl=want, **info)
            continue
        got = [b2fs(t) for t in out.split(" ")]
        if not (vlib.allclose(got[0], want[0], **TOL) and vlib.allclose(got[1], want[1], **TOL) and vlib.close(got[2][0], want[2], **TOL)):
            c.mismatch("mixture-sampler-vs-impl", op=line[:300], model=[got[0], got[1], got[2][0]], impl=want, **info)
    c.notes.append(f"VmapMixture sampling: {len(lines)} real keys over {nmix} mixtures, {len(seen_components)} distinct (mixture, selected component) pairs")


# ------------------------------------------------------------------ scipy oracle (real code only)
def scipy_dist(name, fp_i):
    import scipy.stats as st
    if name == "Normal":
        return st.norm(fp_i[0], fp_i[1])
    if name == "LogNormal":
        return st.lognorm(s=fp_i[1], scale=math.exp(fp_i[0]))
    if name == "Uniform":
        return st.uniform(loc=fp_i[0], scale=fp_i[1] - fp_i[0])
    if name == "Gumbel":
        return st.gumbel_r(fp_i[0], fp_i[1])
    if name == "Cauchy":
        return st.cauchy(fp_i[0], fp_i[1])
    if name == "Laplace":
        return st.laplace(fp_i[0], fp_i[1])
    if name == "Logistic":
        return st.logistic(fp_i[0], fp_i[1])
    if name == "Exponential":
        return st.expon(scale=1.0 / fp_i[0])
    if name == "StudentT":
        return st.t(fp_i[0], fp_i[1], fp_i[2])
    raise AssertionError(name)


def ref_logpdf(name, fp, xs):
    """sum over the independent dimensions of scipy's float64 log-density"""
    with np.errstate(all="ignore"):
        return float(sum(float(scipy_dist(name, [p[i] for p in fp]).logpdf(x)) for i, x in enumerate(xs)))


def in_support_margin(name, fp, xs):
    """'in' / 'out' / 'edge' (within 1e-9 relative of a jump of the density in some element)"""
    state = "in"
    for i, x in enumerate(xs):
        if name == "Uniform":
            a, b = fp[0][i], fp[1][i]
            w = b - a
            if abs(x - a) <= 1e-9 * (w + abs(a)) or abs(x - b) <= 1e-9 * (w + abs(b)):
                return "edge"
            if x < a or x > b:
                state = "out"
        elif name in ("Exponential", "LogNormal"):
            if x == 0 and name == "Exponential":
                continue      # x / scale == 0 exactly: no rounding at this edge
            if abs(x) < 1e-305 and x != 0:
                return "edge"
            if x < 0 or (name == "LogNormal" and x == 0):
                state = "out"
    return state


def logpdf_witness(name, shapes, params, xs, label):
    """None when the real log_prob agrees with scipy at xs, else a witness dict"""
    dist = build(name, params)
    shape = tuple(np.broadcast_shapes(*shapes))
    fp = flat_params(params, shape)
    x = np.reshape(xs, shape)
    w = dict(check="logpdf", family=name, shapes=[list(s) for s in shapes], params=[np.asarray(p).tolist() for p in params], x=[float(v) for v in xs], label=label,
             key=f"logpdf|{name}|{shapes}|{label}")
    try:
        got = float(dist.log_prob(jnp.asarray(x, float)))
    except Exception as ex:
        return dict(w, exc=repr(ex)[:200], law="log_prob does not raise on a well-shaped point")
    if math.isnan(got):
        return dict(w, got="nan", law="log_prob is never NaN")
    if any(math.isnan(v) for v in xs):
        return None
    ref = ref_logpdf(name, fp, xs)
    where = in_support_margin(name, fp, xs)
    if where == "edge":
        # a jump of the density within rounding distance: either side's value is acceptable
        refs = [ref]
        for du in (-3, -2, -1, 1, 2, 3):
            refs.append(ref_logpdf(name, fp, [ulps(v, du) for v in xs]))
        if got == -math.inf or any(vlib.close(got, r, rtol=1e-8, atol=1e-8) for r in refs):
            return None
        return dict(w, got=got, want=ref, law="log_prob equals the textbook log-density (edge, input tolerance)")
    if where == "out":
        return None if got == -math.inf else dict(w, got=got, want="-inf", law="log_prob is -inf outside the support")
    if math.isnan(ref):
        return None
    # conditioning: the standardised residual amplifies the relative rounding of the stored scale
    zmax = 1.0
    for i, xv in enumerate(xs):
        if name in ("Normal", "Gumbel", "Cauchy", "Laplace", "Logistic") and math.isfinite(xv):
            zmax = max(zmax, abs((xv - fp[0][i]) / fp[1][i]))
    tol = 1e-9 * (1.0 + abs(ref)) * len(xs) * (1.0 + zmax * zmax * 1e-3) if math.isfinite(ref) else 0.0
    if vlib.fclass(got) != vlib.fclass(ref) or (math.isfinite(ref) and abs(got - ref) > tol):
        return dict(w, got=got, want=ref, tol=tol, law="log_prob equals the textbook log-density summed over independent dimensions")
    return None


def accessor_witness(name, shapes, params):
    dist = build(name, params)
    shape = tuple(np.broadcast_shapes(*shapes))
    want = accessor_args(name, params, shape)
    for an, av in accessors(name, dist).items():
        if av.shape != shape or not np.allclose(av, want[an], rtol=1e-12, atol=0):
            return dict(check="accessor", key=f"accessor|{name}|{shapes}|{an}", family=name, shapes=[list(s) for s in shapes], params=[np.asarray(p).tolist() for p in params],
                        accessor=an, got=av.tolist(), want=np.asarray(want[an]).tolist(), law="the accessor returns the constructor's value")
    return None


def rand_spd(rng, dim):
    a = np.asarray([[rng.gauss(0, 1) for _ in range(dim)] for _ in range(dim)])
    return a @ a.T + dim * 0.3 * np.eye(dim)


def mvn_witness(loc, cov, xs, kind="random"):
    """exact-rational oracle for MultivariateNormal on the real code: accessors, log_prob at the given points (tolerance scaled by
    the condition number of the covariance: the Cholesky factorisation of a float64 matrix is only backward stable), never NaN,
    -inf at points with an infinite coordinate"""
    loc, cov = np.asarray(loc, float), np.asarray(cov, float)
    dim = cov.shape[0]
    w = dict(check="mvn", key=f"mvn|dim={dim}|{kind}", kind=kind, loc=loc.tolist(), cov=cov.tolist(), x=[list(map(float, x)) for x in xs])
    mv = D.MultivariateNormal(jnp.asarray(loc), jnp.asarray(cov))
    kappa = float(np.linalg.cond(cov))
    got_cov = np.asarray(mv.covariance)
    if got_cov.shape != (dim, dim) or not np.allclose(got_cov, cov, rtol=1e-10 * kappa, atol=1e-12 * kappa * float(np.max(np.abs(cov)))):
        return dict(w, law="covariance accessor returns the constructor's matrix", got=got_cov.tolist())
    locv = np.broadcast_to(loc, (dim,))
    if np.asarray(mv.loc).shape != (dim,) or not np.allclose(np.asarray(mv.loc), locv, rtol=1e-13, atol=0):
        return dict(w, law="loc accessor returns the constructor's vector", got=np.asarray(mv.loc).tolist())
    for x in xs:
        x = np.asarray(x, float)
        got = float(mv.log_prob(jnp.asarray(x)))
        if math.isnan(got):
            return dict(w, law="log_prob is never NaN", got="nan", at=list(map(float, x)))
        if not np.all(np.isfinite(x)):
            if got != -math.inf:
                return dict(w, law="log_prob is -inf at a point with an infinite coordinate", got=got, at=list(map(float, x)))
            continue
        want, quad = mvn_exact_logpdf(locv, cov, x)
        # Cholesky of a float64 matrix is backward stable only: quadratic form and log-determinant carry a relative error ~ n eps cond(cov)
        tol = 2e-14 * dim * kappa * (abs(quad) + dim) + 1e-9 * (1 + abs(want))
        if vlib.fclass(got) != vlib.fclass(want) or (math.isfinite(want) and abs(got - want) > tol):
            return dict(w, law="MultivariateNormal.log_prob equals the textbook log-density", got=got, want=want, tol=tol, at=list(map(float, x)))
    return None


def mvn_exact_logpdf(locv, cov, x):
    """(-n/2 log 2pi - 1/2 log det S - 1/2 q, q) with q = (x-m)' S^-1 (x-m): the float64 inputs are exact rationals, the LDL'
    factorisation, the triangular solve and q are computed in exact rational arithmetic; only the final logarithms are rounded"""
    from fractions import Fraction as Fr
    n = len(locv)
    a = [[Fr(float(cov[i][j])) for j in range(n)] for i in range(n)]
    r = [Fr(float(x[i])) - Fr(float(locv[i])) for i in range(n)]
    l = [[Fr(0)] * n for _ in range(n)]
    dd = [Fr(0)] * n
    for j in range(n):
        dd[j] = a[j][j] - sum(l[j][k] * l[j][k] * dd[k] for k in range(j))
        if dd[j] <= 0:
            return math.nan, math.nan     # not positive definite as an exact matrix
        for i in range(j + 1, n):
            l[i][j] = (a[i][j] - sum(l[i][k] * l[j][k] * dd[k] for k in range(j))) / dd[j]
    y = [Fr(0)] * n
    for i in range(n):
        y[i] = r[i] - sum(l[i][k] * y[k] for k in range(i))
    q = sum(y[i] * y[i] / dd[i] for i in range(n))
    logdet = sum(math.log(d.numerator) - math.log(d.denominator) for d in dd)
    qf = q.numerator / q.denominator if q != 0 else 0.0
    return -0.5 * n * math.log(2 * math.pi) - 0.5 * logdet - 0.5 * qf, qf


def mvn_ks_witness(loc, cov, seed):
    """samples follow the density: every whitened coordinate L^-1 (x - loc) and a random projection are N(0,1) / N(a.loc, a'Sa)
    (KS statistic against the DKW bound), and sample_and_log_prob returns log_prob at the sample"""
    import scipy.stats as st
    loc, cov = np.asarray(loc, float), np.asarray(cov, float)
    dim = cov.shape[0]
    w = dict(check="mvnks", key=f"ks|MultivariateNormal|dim={dim}", loc=loc.tolist(), cov=cov.tolist(), seed=seed)
    mv = D.MultivariateNormal(jnp.asarray(loc), jnp.asarray(cov))
    s = np.asarray(mv.sample(jr.PRNGKey(seed), (KS_N,)))
    thr = math.sqrt(math.log(2 / KS_ALPHA) / (2 * KS_N))
    if s.shape != (KS_N, dim) or not np.all(np.isfinite(s)):
        return dict(w, law="samples are finite with the requested shape", shape=list(s.shape))
    locv = np.broadcast_to(loc, (dim,))
    white = np.linalg.solve(np.linalg.cholesky(cov), (s - locv).T).T
    for j in range(dim):
        stat = float(st.kstest(white[:, j], st.norm(0, 1).cdf).statistic)
        if stat > thr:
            return dict(w, law="samples follow the density (whitened coordinate is standard normal; KS above the DKW bound at 1e-9)", coordinate=j, D=stat, threshold=thr)
    a = np.cos(np.arange(1, dim + 1) * 1.7) + 0.3
    stat = float(st.kstest(s @ a, st.norm(float(a @ locv), math.sqrt(float(a @ cov @ a))).cdf).statistic)
    if stat > thr:
        return dict(w, law="samples follow the density (projection; KS above the DKW bound at 1e-9)", D=stat, threshold=thr)
    if dim >= 2:
        r = float(np.corrcoef(white[:, 0], white[:, 1])[0, 1])
        if abs(r) > 6.5 / math.sqrt(KS_N):
            return dict(w, law="whitened coordinates of the samples are uncorrelated", corr=r)
    s2, lp2 = mv.sample_and_log_prob(jr.PRNGKey(seed + 1), (16,))
    lp = np.asarray(mv.log_prob(s2))
    kappa = float(np.linalg.cond(cov))
    if not np.allclose(np.asarray(lp2), lp, rtol=1e-9 * kappa, atol=1e-9 * kappa):
        return dict(w, law="log-prob returned with a sample equals log_prob at the sample")
    return None


def mix_sample_witness(comp, k, d, params, ws, seed):
    """real code only: the log-prob returned with a mixture sample is log_prob at that sample; the sample has the shape of a component"""
    params = [np.asarray(p, float) for p in params]
    ws = np.asarray(ws, float)
    w = dict(check="mixsample", key=f"mixsample|{comp}|k={k}|d={d}", comp=comp, k=k, d=d, params=[p.tolist() for p in params], ws=ws.tolist(), seed=seed)
    m = build_mixture(comp, params, ws)
    xs, lps = m.sample_and_log_prob(jr.PRNGKey(seed), (24,))
    xs, lps = np.asarray(xs), np.asarray(lps)
    if xs.shape != (24,) + (() if d is None else (d,)) or not np.all(np.isfinite(xs)):
        return dict(w, law="mixture samples are finite with the shape of a component", shape=list(xs.shape))
    if np.any(np.isnan(lps)) or not np.allclose(np.asarray(m.log_prob(jnp.asarray(xs))), lps, rtol=1e-9, atol=1e-9):
        return dict(w, law="log-prob returned with a mixture sample equals log_prob at the sample")
    return None


def mixture_witness(comp, k, d, params, ws, pts, c_scale):
    from scipy.special import logsumexp
    params = [np.asarray(p, float) for p in params]
    ws = np.asarray(ws, float)
    w = dict(check="mixture", key=f"mixture|{comp}|k={k}|d={d}", comp=comp, k=k, d=d, params=[p.tolist() for p in params], ws=ws.tolist(), pts=[list(map(float, p)) for p in pts], c_scale=c_scale)
    m = build_mixture(comp, params, ws)
    m2 = build_mixture(comp, params, ws * c_scale)
    for xs in pts:
        x = np.reshape(xs, () if d is None else (d,))
        got = float(m.log_prob(jnp.asarray(x, float)))
        got2 = float(m2.log_prob(jnp.asarray(x, float)))
        if math.isnan(got) or math.isnan(got2):
            return dict(w, law="log_prob is never NaN", at=list(map(float, xs)))
        comp_ref = [ref_logpdf(comp, [np.asarray(p[j]).ravel().tolist() for p in params], xs) for j in range(k)]
        with np.errstate(all="ignore"):
            ref = float(logsumexp(np.asarray(comp_ref) + np.log(ws / ws.sum())))
        edge = any(in_support_margin(comp, [np.asarray(p[j]).ravel().tolist() for p in params], xs) == "edge" for j in range(k))
        if not edge and (vlib.fclass(got) != vlib.fclass(ref) or (math.isfinite(ref) and abs(got - ref) > 1e-8 * (1 + abs(ref)) * max(1, len(xs)))):
            return dict(w, law="mixture log-density = log of the weight-normalised sum of component densities", got=got, want=ref, at=list(map(float, xs)))
        if vlib.fclass(got) != vlib.fclass(got2) or (math.isfinite(got) and abs(got - got2) > 1e-10 * (1 + abs(got))):
            return dict(w, law="mixture log-density is invariant to rescaling the weights", got=got, rescaled=got2, at=list(map(float, xs)))
    return None


KS_N = 4000
KS_ALPHA = 1e-9


def ks_witness(name, fp_i, seed):
    """Kolmogorov-Smirnov statistic of KS_N samples against scipy's cdf; DKW: P(D > sqrt(ln(2/alpha)/(2n))) <= alpha"""
    import scipy.stats as st
    dist = build(name, [np.asarray(v) for v in fp_i])
    s = np.asarray(dist.sample(jr.PRNGKey(seed), (KS_N,)))
    thr = math.sqrt(math.log(2 / KS_ALPHA) / (2 * KS_N))
    w = dict(check="ks", key=f"ks|{name}", family=name, params=list(map(float, fp_i)), seed=seed)
    if s.shape != (KS_N,) or not np.all(np.isfinite(s)):
        return dict(w, law="samples are finite with the requested shape", shape=list(s.shape))
    stat = float(st.kstest(s, scipy_dist(name, fp_i).cdf).statistic)
    if stat > thr:
        return dict(w, law="samples follow the density (KS statistic above the DKW bound at 1e-9)", D=stat, threshold=thr)
    # sample_and_log_prob agrees with log_prob at the sample
    s2, lp2 = dist.sample_and_log_prob(jr.PRNGKey(seed + 1), (16,))
    lp = np.asarray(dist.log_prob(s2))
    if not np.allclose(np.asarray(lp2), lp, rtol=1e-6, atol=1e-6):
        return dict(w, law="log-prob returned with a sample equals log_prob at the sample")
    return None


def ks_mixture_witness(locs, scales, ws, seed):
    import scipy.stats as st
    locs, scales, ws = (np.asarray(v, float) for v in (locs, scales, ws))
    m = build_mixture("Normal", [locs, scales], ws)
    s = np.asarray(m.sample(jr.PRNGKey(seed), (KS_N,)))
    pw = ws / ws.sum()
    cdf = lambda x: sum(p * st.norm(l, sc).cdf(x) for p, l, sc in zip(pw, locs, scales))
    stat = float(st.kstest(s, cdf).statistic)
    thr = math.sqrt(math.log(2 / KS_ALPHA) / (2 * KS_N))
    if stat > thr:
        return dict(check="ksmix", key="ks|VmapMixture", locs=locs.tolist(), scales=scales.tolist(), ws=ws.tolist(), seed=seed, D=stat, threshold=thr,
                    law="mixture samples follow the weight-normalised mixture density")
    return None


UNIFORM_EDGE_PAIRS = [(1.0, 3.0), (0.0, 1.0), (0.0, 2.0), (-1.0, 1.0), (2.0, 4.0), (0.0, 0.5), (-3.0, 5.0), (0.25, 0.75), (10.0, 12.0), (-2.0, -1.0)]


def uniform_closed_edge_witness(a, b):
    """The support is the CLOSED interval: whenever the standardised point z = bijection.inverse(x) computed by the object's own
    (public) bijection lies in [0, 1], log_prob(x) is finite.  (The recorded known finding is the other case: z rounds above 1.)"""
    d = D.Uniform(a, b)
    for x in (b, a):
        z = float(d.bijection.inverse(jnp.asarray(x, float)))
        lp = float(d.log_prob(jnp.asarray(x, float)))
        if 0.0 <= z <= 1.0 and not math.isfinite(lp):
            return dict(check="uniform_closed_edge", key=f"uniform_closed_edge|{a}|{b}|{x}", minval=a, maxval=b, x=x, z=z, got=lp,
                        law="Uniform.log_prob is -log(maxval - minval) on the closed support, including the end points (standardised point in [0, 1])")
    return None


def mixture_after_update_witness(seed):
    """two steps: build a mixture, then MOVE every inexact leaf (what an optimiser step does); the density must still be the
    weight-normalised sum of the component densities — in particular integrate to one"""
    import equinox as eqx, jax
    r = np.random.RandomState(seed)
    k = 3
    m = D.VmapMixture(eqx.filter_vmap(D.Normal)(jnp.asarray(r.uniform(-2, 2, k)), jnp.asarray(r.uniform(0.5, 1.5, k))), jnp.asarray(r.uniform(0.5, 3.0, k)))
    leaves, td = jax.tree_util.tree_flatten(m)
    moved = jax.tree_util.tree_unflatten(td, [l + jnp.asarray(r.uniform(-0.7, 0.7, np.shape(l))) if eqx.is_inexact_array(l) else l for l in leaves])
    xs = jnp.linspace(-40.0, 40.0, 40001)
    lp = np.asarray(moved.log_prob(xs))
    mass = float(np.sum(np.exp(lp)) * (xs[1] - xs[0]))
    if not abs(mass - 1.0) <= 1e-6:
        return dict(key=f"mixture-after-update|seed={seed}", check="mixture_after_update", seed=seed, mass=mass,
                    law="after its leaves have been updated the mixture density is still weight-normalised (integrates to one)")
    return None


def search(hints, tier, rng):
    quick = tier == "quick"
    wit = []

    def push(w):
        if w is not None and all(w["key"] != v["key"] for v in wit):
            wit.append(w)
        return len(wit) >= 6

    for a, b in UNIFORM_EDGE_PAIRS:
        if push(uniform_closed_edge_witness(a, b)):
            return wit
    for sd in (1, 2, 3):
        if push(mixture_after_update_witness(sd)):
            return wit
    reps = 1 if quick else 8
    for name, (ctor, kinds) in FAMS.items():
        for shapes in SHAPES[len(kinds)]:
            for rep in range(reps):
                params = rand_params(rng, kinds, shapes)
                shape = tuple(np.broadcast_shapes(*shapes))
                n = int(np.prod(shape)) if shape else 1
                fp = flat_params(params, shape)
                try:
                    if push(accessor_witness(name, shapes, params)):
                        return wit
                    for k in range(2):
                        if push(logpdf_witness(name, shapes, params, std_points(name, fp, rng, n), "inside")):
                            return wit
                    base = std_points(name, fp, rng, n)
                    j = rng.randrange(n)
                    for label, v, exact in special_points(name, fp, j) + [("nan", math.nan, True)]:
                        xs = list(base)
                        xs[j] = v
                        if push(logpdf_witness(name, shapes, params, xs, label)):
                            return wit
                except Exception as ex:
                    if push(dict(check="exception", key=f"exception|{name}|{shapes}", family=name, shapes=[list(s) for s in shapes], exc=repr(ex)[:300])):
                        return wit
    # MultivariateNormal
    for dim in ([1, 2, 3, 4] if quick else [1, 2, 3, 4, 5, 8, 12]):
        for kind in COV_KINDS:
            for rep in range(reps):
                cov = rand_cov(rng, dim, kind)
                loc_arg, locv, _ = rand_mvn_loc(rng, dim)
                L = np.linalg.cholesky(cov)
                xs = [x for _, x, _ in mvn_points(rng, locv, L)]
                try:
                    if push(mvn_witness(loc_arg.tolist(), cov, xs, kind)):
                        return wit
                except Exception as ex:
                    if push(dict(check="exception", key=f"exception|mvn|dim={dim}|{kind}", exc=repr(ex)[:300])):
                        return wit
    for dim in ([1, 3] if quick else [1, 2, 3, 5]):
        cov = rand_cov(rng, dim, "random")
        if push(mvn_ks_witness([rng.uniform(-2, 2) for _ in range(dim)], cov, 97 + dim)):
            return wit
    # mixtures
    for mi in range(10 if quick else 80):
        comp, k, d, params, ws = rand_mixture(rng)
        if push(mixture_witness(comp, k, d, params, ws, mixture_points(comp, k, d, params, rng), rng.choice([1e-3, 3.0, 1e4]))):
            return wit
        if mi < (4 if quick else 20) and push(mix_sample_witness(comp, k, d, params, ws, 700 + mi)):
            return wit
    # samplers
    for name, (ctor, kinds) in FAMS.items():
        fp_i = [float(p) for p in rand_params(rng, kinds, [()] * len(kinds))]
        if name == "StudentT":
            fp_i[0] = max(fp_i[0], 0.5)
        if push(ks_witness(name, fp_i, 1234)):
            return wit
    if push(ks_mixture_witness([-2.0, 0.5, 3.0], [0.5, 1.0, 2.0], [2.0, 1.0, 5.0], 4321)):
        return wit
    return wit


def replay(w):
    ch = w.get("check")
    if ch == "uniform_edge":
        return float(D.Uniform(w["minval"], w["maxval"]).log_prob(w["maxval"])) == -math.inf
    if ch == "uniform_closed_edge":
        return uniform_closed_edge_witness(w["minval"], w["maxval"]) is not None
    if ch == "mixture_after_update":
        return mixture_after_update_witness(w["seed"]) is not None
    if ch == "logpdf":
        shapes = [tuple(s) for s in w["shapes"]]
        params = [np.asarray(p, float).reshape(s) for p, s in zip(w["params"], shapes)]
        return logpdf_witness(w["family"], shapes, params, [float(v) if not isinstance(v, str) else float(v.strip("'")) for v in w["x"]], w.get("label", "")) is not None
    if ch == "accessor":
        shapes = [tuple(s) for s in w["shapes"]]
        params = [np.asarray(p, float).reshape(s) for p, s in zip(w["params"], shapes)]
        return accessor_witness(w["family"], shapes, params) is not None
    if ch == "mvn":
        return mvn_witness(w["loc"], w["cov"], w["x"], w.get("kind", "random")) is not None
    if ch == "mvnks":
        return mvn_ks_witness(w["loc"], w["cov"], w["seed"]) is not None
    if ch == "mixsample":
        return mix_sample_witness(w["comp"], w["k"], w["d"], w["params"], w["ws"], w["seed"]) is not None
    if ch == "mixture":
        return mixture_witness(w["comp"], w["k"], w["d"], w["params"], w["ws"], w["pts"], w["c_scale"]) is not None
    if ch == "ks":
        return ks_witness(w["family"], w["params"], w["seed"]) is not None
    if ch == "ksmix":
        return ks_mixture_witness(w["locs"], w["scales"], w["ws"], w["seed"]) is not None
    import random
    return bool(search({}, "quick", random.Random(0)))


def edge_rounding_findings(n=400, seed=0):
    """Not part of `search` (rounding-level, at a single point of the support's boundary): parameter pairs for which the real
    `Uniform(minval, maxval).log_prob(maxval)` is -inf although `maxval` is in the (closed) support."""
    import random
    rng = random.Random(seed)
    out = []
    for _ in range(n):
        a = rng.uniform(-5, 5)
        b = a + math.exp(rng.uniform(-3, 3))
        if float(D.Uniform(a, b).log_prob(b)) == -math.inf:
            out.append((a, b))
    return out
