"""Correspondence cases for Planar and TriangularAffine (called from c01 / c02 / c07's `corr`).

Tie to the code:
  * the four methods of `_UnconditionalPlanar` are REGENERATED from /repo once per value of the static field
    `activation` (Gen/Planar.lean; typing sheet tools/py2lean/targets_planar.py); `corr_planar` runs the generated
    definitions at Float (driver op `planar`) against the real `_UnconditionalPlanar`, the real unconditional
    `Planar` (stored `params` replaced) and the real conditional `Planar` (the conditioner's output is taken from the
    real MLP; `get_planar`'s split is the hand model `Planar.getPlanar`);
  * `TriangularAffine` is the hand model Model/Triangular.lean (matVec, diag, forward / back substitution) with the
    constructor wiring of Model/Params.lean; `corr_triangular` runs it (driver op `triaff`) against the real class:
    as constructed, with replaced raw parameters, and with `triangular` replaced by an explicit matrix whose
    diagonal has entries of both signs.
All four methods are compared (points and log-dets; the real log-det must have shape ()).
"""
from __future__ import annotations

import math
from fractions import Fraction

import equinox as eqx
import jax
import jax.numpy as jnp
import jax.random as jr
import numpy as np

import flowjax.bijections as B
from flowjax.bijections.planar import _UnconditionalPlanar
from flowjax.wrappers import unwrap

import fj
import vlib
from vlib import f2b, fs2b, b2fs

GEN = ["Planar", "Params"]
TRUSTED = [
    "py2lean translator + typing sheet tools/py2lean/targets_planar.py: one specialisation per value of the static field `activation`, "
    "`activation_fn` read from the matching block of `__init__` (validated by the Planar correspondence)",
    "Prelude/Jnp.lean specs of dot/leakyRelu/where/abs (validated by the Planar correspondence)",
    "Model/Planar.lean `getPlanar` (hand-written split of the parameter vector) and Model/Triangular.lean (hand-written matVec, diag, "
    "forward/back substitution standing for jax.scipy.linalg.solve_triangular) — validated by these correspondences",
]
RULE = ("Planar: real _UnconditionalPlanar / Planar (unconditional with replaced params, conditional through get_planar) with w, u, b of both "
        "signs and magnitudes 1e-3..30, dims 1-5, tanh and leaky_relu (slopes 0.01..1 and one slope > 1), all four methods, inputs on the kink "
        "w.x+b = 0, near it and far from it; TriangularAffine: lower/upper, dims 1-5, as constructed / replaced raw parameters / explicit "
        "triangular matrix with diagonal entries of both signs (and a few non-triangular replacements: solve_triangular reads one triangle only), "
        "all four methods; non-trivial = parameters away from the initialisation; distinct = distinct (object, method, input)")

TOL = dict(rtol=1e-8, atol=1e-10)
METHODS = fj.METHODS


# ------------------------------------------------------------------ helpers
def _call(obj, m, x, cond=None):
    """real method -> flat list of floats (+ log-det), or ['EXC:<name>'];  also returns the log-det's shape"""
    try:
        r = getattr(obj, fj.PYMETH[m])(jnp.asarray(x, dtype=float), cond)
    except NotImplementedError:
        return ["NOTIMPL"], None
    except Exception as ex:
        return ["EXC:" + type(ex).__name__], None
    if isinstance(r, tuple):
        return [float(v) for v in np.ravel(np.asarray(r[0]))] + [float(np.asarray(r[1]).reshape(-1)[0])], tuple(np.shape(r[1]))
    return [float(v) for v in np.ravel(np.asarray(r))], None


def _compare(c, name, line, got, want, shp, info, tol):
    if want and isinstance(want[0], str):
        if want[0] == "NOTIMPL" and got == "NOTIMPL":
            return True
        c.mismatch(name, op=line[:300], model=got[:200], impl=want, **info)
        return False
    if shp is not None and shp != ():
        c.mismatch(name + ":logdet-not-scalar", op=line[:300], shape=list(shp), **info)
        return False
    if got.startswith("ERR") or got in ("NOTIMPL", "REJ"):
        c.mismatch(name, op=line[:300], model=got[:200], impl=want, **info)
        return False
    vals = []
    for t in got.split(" "):
        vals += b2fs(t)
    if not vlib.allclose(vals, want, **tol):
        c.mismatch(name, op=line[:300], model=vals, impl=want, **info)
        return False
    return True


def _mag(rng):
    return rng.choice([rng.uniform(-3, 3)] * 6 + [30.0, -30.0, 1e-3, -1e-3, 7.0, -7.0, 0.0, 1.0, -1.0])


def _planar_vectors(rng, n):
    """w, u, b of both signs / several magnitudes, with w != 0; returns also an input lying EXACTLY on the kink w.x+b = 0
    (or None): every product and partial sum is exactly representable, so the real code and the model see the same sign
    of w.x+b whatever the summation order"""
    dyadic = rng.random() < 0.4
    while True:
        w = [rng.randrange(-16, 17) / 4.0 for _ in range(n)] if dyadic else [_mag(rng) for _ in range(n)]
        if any(v != 0.0 for v in w):
            break
    style = rng.random()
    if style < 0.25:      # u anti-parallel to w: the constraint is active (w.u << 0)
        k = rng.choice([0.3, 1.0, 3.0])
        u = [-k * v for v in w]
    elif style < 0.4:     # u parallel to w
        u = [rng.choice([0.5, 2.0]) * v for v in w]
    else:
        u = [_mag(rng) for _ in range(n)]
    if dyadic:
        kink = [float(rng.randrange(-3, 4)) for _ in range(n)]
        b = -sum(wi * xi for wi, xi in zip(w, kink))
    else:
        b = rng.choice([rng.uniform(-5, 5)] * 4 + [0.0, 0.0, 50.0, -50.0])
        kink = [0.0] * n if b == 0.0 else None
    return w, u, b, kink


def _planar_inputs(rng, w, b, n, kink=None):
    """(input, tag): generic inputs, inputs exactly on the kink w.x+b = 0, inputs next to it on either side"""
    xs = [([rng.uniform(-3, 3) for _ in range(n)], "generic") for _ in range(2)]
    xs.append(([rng.choice([0.0, 1.0, -1.0, 30.0, -30.0, 1e-8]) for _ in range(n)], "generic"))
    ww = sum(v * v for v in w)
    on = [-b * v / ww for v in w]                     # w.x + b ~ 0
    if kink is not None:
        xs.append((list(kink), "exact-kink"))
        on = list(kink)
        # x orthogonal to w: w0*w1 + w1*(-w0) = 0 exactly — only when the product itself is exact (an FMA-based dot
        # product otherwise returns the rounding error of the first product, with either sign)
        if (n >= 2 and b == 0.0 and all(k == 0.0 for k in kink)
                and Fraction(w[0]) * Fraction(w[1]) == Fraction(w[0] * w[1])):
            orth = [0.0] * n
            orth[0], orth[1] = w[1], -w[0]
            xs.append((orth, "exact-kink"))
    for eps in (rng.choice([1e-9, 1e-6, 1e-3]), -rng.choice([1e-9, 1e-6, 1e-3])):
        xs.append(([o + eps * v for o, v in zip(on, w)], "near-kink"))   # just off the kink, either side
    out = []
    for x, tag in xs:
        terms = [wi * xi for wi, xi in zip(w, x)]
        z, scale = sum(terms) + b, sum(abs(t) for t in terms) + abs(b)
        if tag != "exact-kink" and abs(z) <= 1e-11 * scale:
            continue  # the SIGN of w.x+b depends on the summation order in floating point: not a model-vs-code question
        out.append((x, tag))
    return out


def _planar_cond(w, uhat, slope):
    """conditioning of the divisions / logs: (1 + sum|w_i û_i|) / min_s |1 + s w.û| over the slopes the code can use"""
    c = float(np.dot(w, uhat))
    scale = 1.0 + float(np.sum(np.abs(np.asarray(w) * np.asarray(uhat))))
    slopes = [1.0] + ([] if slope is None else [float(slope)])
    den = min(abs(1.0 + s * c) for s in slopes)
    return math.inf if den == 0.0 else scale / den


# ------------------------------------------------------------------ Planar
def corr_planar(c, tier, rng, methods=METHODS):
    quick = tier == "quick"
    lines, wants, shps, infos, tols = [], [], [], [], []

    def add(line, obj, m, x, cond, info, sig, nontrivial, tol, sample=False):
        want, shp = _call(obj, m, x, cond)
        lines.append(line); wants.append(want); shps.append(shp); infos.append(info); tols.append(tol)
        c.case(sig, nontrivial, sample={"op": line[:200], "impl": want} if sample else None)

    # ---- 1. _UnconditionalPlanar built directly
    for it in range(40 if quick else 400):
        n = rng.choice([1, 2, 2, 3, 4, 5])
        w, u, b, kink = _planar_vectors(rng, n)
        slope = rng.choice([None, None, 0.01, 0.1, 0.5, 0.9, 1.0, 1.0, rng.uniform(0.02, 1.0), 2.5])
        obj = _UnconditionalPlanar(jnp.asarray(w), jnp.asarray(u), jnp.asarray(b), slope)
        uhat = np.asarray(obj.get_act_scale())
        k = _planar_cond(w, uhat, slope)
        if not (k < 1e9):
            c.count("planar:skipped-float-absorption (1 + w.û rounds to 0; C11 known finding)")
            continue
        tol = dict(rtol=max(1e-8, 1e-13 * k), atol=1e-10)  # k = conditioning of the divisions; the dot products w.x+b add their own cancellation
        kind = "tanh" if slope is None else "lrelu"
        c.count(f"planar:direct:{kind}:dim{n}")
        if k >= 1e5:
            c.count("planar:ill-conditioned (tolerance scaled)")
        if slope is not None and slope > 1:
            c.count("planar:slope>1 (model-vs-code only; outside the theorems' hypothesis)")
        for xi, (x, tag) in enumerate(_planar_inputs(rng, w, b, n, kink)):
            c.count("planar:input:" + tag)
            for m in methods:
                if slope is None:
                    line = f"planar tanh {m} {fs2b(w)} {fs2b(u)} {f2b(b)} {fs2b(x)}"
                else:
                    line = f"planar lrelu {m} {fs2b(w)} {fs2b(u)} {f2b(b)} {f2b(slope)} {fs2b(x)}"
                add(line, obj, m, x, None, dict(cls="_UnconditionalPlanar", activation=kind, slope=slope, w=w, u=u, b=b, x=x, method=m),
                    ("uplanar", tuple(w), tuple(u), b, slope, tuple(x), m), True, tol, sample=it < 4 and tag == "exact-kink" and m == "tl")
    # ---- 2. unconditional Planar: stored params replaced, through get_planar
    for it in range(12 if quick else 120):
        n = rng.choice([1, 2, 3, 5])
        slope = rng.choice([None, 0.1, 0.7, 1.0])
        w, u, b, kink = _planar_vectors(rng, n)
        P = B.Planar(jr.PRNGKey(rng.randrange(10 ** 6)), dim=n, negative_slope=slope)
        default = it % 4 == 0
        if not default:
            P = eqx.tree_at(lambda p: p.params, P, jnp.asarray(w + u + [b]))
        params = [float(v) for v in np.asarray(P.params)]
        up = P.get_planar(None)
        k = _planar_cond(np.asarray(up.weight), np.asarray(up.get_act_scale()), slope)
        if not (k < 1e9):
            c.count("planar:skipped-float-absorption (1 + w.û rounds to 0; C11 known finding)")
            continue
        tol = dict(rtol=max(1e-8, 1e-13 * k), atol=1e-10)  # k = conditioning of the divisions; the dot products w.x+b add their own cancellation
        # the split itself
        lines.append(f"planar get {n} {fs2b(params)}")
        wants.append([float(v) for v in np.asarray(up.weight)] + [float(v) for v in np.asarray(up._act_scale)] + [float(up.bias)])
        shps.append(None); infos.append(dict(cls="Planar.get_planar", dim=n)); tols.append(dict(rtol=0.0, atol=0.0))
        c.case(("get_planar", n, tuple(params)), not default)
        kind = "tanh" if slope is None else "lrelu"
        c.count(f"planar:params:{kind}:dim{n}")
        for x, tag in _planar_inputs(rng, params[:n], params[-1], n, None if default else kink):
            c.count("planar:input:" + tag)
            for m in methods:
                line = (f"planar ptanh {m} {n} {fs2b(params)} {fs2b(x)}" if slope is None
                        else f"planar plrelu {m} {n} {fs2b(params)} {f2b(slope)} {fs2b(x)}")
                add(line, P, m, x, None, dict(cls="Planar", activation=kind, slope=slope, params=params, x=x, method=m),
                    ("planar", tuple(params), slope, tuple(x), m), not default, tol)
    # ---- 3. conditional Planar: params = conditioner(condition) (real MLP, weights scaled away from the initialisation)
    for it in range(8 if quick else 80):
        n = rng.choice([1, 2, 3, 4])
        cd = rng.choice([1, 2, 3])
        slope = rng.choice([None, 0.2, 1.0])
        P = B.Planar(jr.PRNGKey(rng.randrange(10 ** 6)), dim=n, cond_dim=cd, negative_slope=slope, width_size=4, depth=1)
        g = rng.choice([1.0, 3.0, 6.0])
        P = eqx.tree_at(lambda p: p.conditioner, P, jax.tree_util.tree_map(lambda a: a * g if eqx.is_array(a) else a, P.conditioner))
        kind = "tanh" if slope is None else "lrelu"
        for rep in range(2):
            cond = jnp.asarray([rng.uniform(-2, 2) for _ in range(cd)])
            params = [float(v) for v in np.asarray(P.conditioner(cond))]
            up = P.get_planar(cond)
            k = _planar_cond(np.asarray(up.weight), np.asarray(up.get_act_scale()), slope)
            if not (k < 1e9) or not any(v != 0.0 for v in params[:n]):
                c.count("planar:skipped-float-absorption (1 + w.û rounds to 0; C11 known finding)")
                continue
            tol = dict(rtol=max(1e-8, 1e-13 * k), atol=1e-10)  # k = conditioning of the divisions; the dot products w.x+b add their own cancellation
            c.count(f"planar:conditional:{kind}:dim{n}")
            for x, tag in _planar_inputs(rng, params[:n], params[-1], n)[1:]:
                c.count("planar:input:" + tag)
                for m in methods:
                    line = (f"planar ptanh {m} {n} {fs2b(params)} {fs2b(x)}" if slope is None
                            else f"planar plrelu {m} {n} {fs2b(params)} {f2b(slope)} {fs2b(x)}")
                    add(line, P, m, x, cond, dict(cls="Planar(cond)", activation=kind, slope=slope, params=params, x=x, method=m, gain=g),
                        ("cplanar", tuple(params), slope, tuple(x), m), True, tol)
    outs = vlib.run_model(lines)
    for line, got, want, shp, info, tol in zip(lines, outs, wants, shps, infos, tols):
        _compare(c, "planar-generated-vs-impl", line, got, want, shp, info, tol)


# ------------------------------------------------------------------ TriangularAffine
def _tri_matrix(rng, n, lower, signs=True):
    """a well-conditioned triangular matrix in the requested orientation, diagonal entries of both signs"""
    M = [[0.0] * n for _ in range(n)]
    for i in range(n):
        for j in range(n):
            if i == j:
                d = math.exp(rng.uniform(-1.2, 1.2))
                M[i][j] = -d if (signs and rng.random() < 0.5) else d
            elif (j < i) == lower:
                M[i][j] = rng.choice([rng.uniform(-2, 2), rng.uniform(-2, 2), 0.0, 1.0, -1.0])
    return M


def corr_triangular(c, tier, rng, methods=METHODS):
    quick = tier == "quick"
    lines, wants, shps, infos = [], [], [], []

    def add(line, obj, m, x, info, sig, nontrivial, sample=False):
        want, shp = _call(obj, m, x, None)
        lines.append(line); wants.append(want); shps.append(shp); infos.append(info)
        c.case(sig, nontrivial, sample={"op": line[:200], "impl": want} if sample else None)

    def inputs(n):
        xs = [[rng.uniform(-3, 3) for _ in range(n)] for _ in range(2)]
        xs.append([rng.choice([0.0, 1.0, -1.0, 30.0, -30.0]) for _ in range(n)])
        return xs

    for it in range(60 if quick else 600):
        n = rng.choice([1, 2, 2, 3, 3, 4, 5])
        lower = rng.random() < 0.5
        loc = [rng.choice([rng.uniform(-3, 3), 0.0, 10.0]) for _ in range(n)]
        mode = rng.choice(["init", "raw", "mat", "mat", "mat+", "full"]) if it % 9 else "default"
        if mode == "default":      # identity matrix, zero loc: the test-suite instance
            arr = [[1.0 if i == j else 0.0 for j in range(n)] for i in range(n)]
            loc = [0.0] * n
            t = B.TriangularAffine(jnp.asarray(loc), jnp.asarray(arr), lower=lower)
            head = f"triaff init {{m}} {int(lower)} {n} {fs2b(sum(arr, []))} {fs2b(loc)}"
        elif mode == "init":       # as constructed from a full matrix with positive diagonal (other triangle ignored)
            arr = [[(math.exp(rng.uniform(-1.2, 1.2)) if i == j else rng.uniform(-2, 2)) for j in range(n)] for i in range(n)]
            t = B.TriangularAffine(jnp.asarray(loc), jnp.asarray(arr), lower=lower)
            head = f"triaff init {{m}} {int(lower)} {n} {fs2b(sum(arr, []))} {fs2b(loc)}"
        elif mode == "raw":        # raw (trainable) parameters replaced
            raw = [rng.uniform(-3, 3) for _ in range(n)]
            arr = [[rng.uniform(-2, 2) for _ in range(n)] for _ in range(n)]
            t = B.TriangularAffine(jnp.asarray(loc), jnp.eye(n), lower=lower)
            t = eqx.tree_at(lambda t: (t.triangular.kwargs["diag"].arr, t.triangular.kwargs["arr"]), t, (jnp.asarray(raw), jnp.asarray(arr)))
            head = f"triaff raw {{m}} {int(lower)} {n} {fs2b(raw)} {fs2b(sum(arr, []))} {fs2b(loc)}"
        else:                      # `triangular` replaced by an explicit matrix (documented: "replacing self.triangular after construction")
            M = _tri_matrix(rng, n, lower, signs=(mode != "mat") or True)
            if mode == "full":     # not triangular: transform uses the whole matrix, solve_triangular only the `lower` triangle
                M = [[(M[i][j] if (i == j or (j < i) == lower) else rng.uniform(-1, 1)) for j in range(n)] for i in range(n)]
            t = B.TriangularAffine(jnp.asarray(loc), jnp.eye(n), lower=lower)
            t = eqx.tree_at(lambda t: t.triangular, t, jnp.asarray(M))
            head = f"triaff mat {{m}} {int(lower)} {n} {fs2b(sum(M, []))} {fs2b(loc)}"
            if any(M[i][i] < 0 for i in range(n)):
                c.count("triangular:negative-diagonal-entry")
        t = unwrap(t)
        c.count(f"triangular:{mode}:{'lower' if lower else 'upper'}:dim{n}")
        for xi, x in enumerate(inputs(n)):
            for m in methods:
                line = head.format(m=m) + " " + fs2b(x)
                add(line, t, m, x, dict(cls="TriangularAffine", mode=mode, lower=lower, n=n, x=x, method=m),
                    ("tri", head, tuple(x), m), mode != "default", sample=it < 3 and xi == 0 and m == "il")
    outs = vlib.run_model(lines)
    for line, got, want, shp, info in zip(lines, outs, wants, shps, infos):
        _compare(c, "triangular-model-vs-impl", line, got, want, shp, info, TOL)
    # the same cases through the GENERATED definitions (Gen/TriangularGen.lean: `__init__`, `_to_triangular`, the four methods;
    # `unwrap` = TriGen.unwrap over the generated wrapper bodies), driver op `gtriaff`
    glines = ["g" + ln for ln in lines]
    gouts = vlib.run_model(glines)
    for line, got, want, shp, info in zip(glines, gouts, wants, shps, infos):
        c.case(("gtri", line), info.get("mode") != "default")
        c.count(f"triangular-generated:{info.get('mode')}:{'lower' if info.get('lower') else 'upper'}:dim{info.get('n')}")
        _compare(c, "triangular-generated-vs-impl", line, got, want, shp, info, TOL)
    corr_triangular_ctor(c, tier, rng)


def corr_triangular_ctor(c, tier, rng):
    """the GENERATED exception-valued `TriangularAffine.__init__` against the real constructor: arrays of rank 0 … 3, square and
    non-square matrices (also 0 x 0), `loc` a scalar / of size 1 / n / a wrong size; verdict, exception class, declared shape,
    stored (broadcast) `loc`, and the unwrapped `triangular`."""
    quick = tier == "quick"
    jobs = []

    def arr_of(dims):
        size = int(np.prod(dims)) if dims else 1
        flat = [rng.uniform(-2, 2) for _ in range(size)]
        if len(dims) == 2:   # positive diagonal so that the SoftPlus reparameterisation accepts it
            for i in range(min(dims)):
                flat[i * dims[1] + i] = math.exp(rng.uniform(-1.2, 1.2))
        return flat

    shapes = [(), (1,), (3,), (1, 1), (2, 2), (3, 3), (4, 4), (5, 5), (2, 3), (3, 2), (1, 2), (0, 0), (1, 1, 1), (2, 2, 2), (2, 3, 3)]
    for dims in shapes:
        n = dims[0] if dims else 0
        locs = [("scalar", None), ("one", 1), ("n", n), ("n+1", n + 1)] + ([("2", 2)] if n not in (1, 2, 3) else [])
        for lkind, ln in locs:
            for lower in (True, False):
                if quick and len(dims) != 2 and not lower:
                    continue
                jobs.append((dims, lkind, ln, lower))
    lines, reals, infos = [], [], []
    for dims, lkind, ln, lower in jobs:
        flat = arr_of(dims)
        locv = [rng.uniform(-3, 3)] if ln is None else [rng.uniform(-3, 3) for _ in range(ln)]
        loc_real = jnp.asarray(locv[0]) if ln is None else jnp.asarray(locv, dtype=float)
        arr_real = jnp.asarray(np.asarray(flat, dtype=float).reshape(dims))
        try:
            t = B.TriangularAffine(loc_real, arr_real, lower=lower)
            u = unwrap(t)
            real = ("OK", list(t.shape), [float(v) for v in np.ravel(np.asarray(u.loc))], [float(v) for v in np.ravel(np.asarray(u.triangular))])
        except Exception as ex:  # noqa: BLE001
            real = ("REJ", type(ex).__name__)
        lines.append(f"gtriaff ctor {int(lower)} {len(dims)} {vlib.ints(list(dims))} {fs2b(flat)} {fs2b(locv)}")
        reals.append(real)
        infos.append(dict(cls="TriangularAffine", dims=list(dims), loc=lkind, lower=lower))
    outs = vlib.run_model(lines)
    for line, got, real, info in zip(lines, outs, reals, infos):
        c.case(("gtri-ctor", tuple(info["dims"]), info["loc"], info["lower"]), True)
        c.count(f"triangular-generated-ctor:rank{len(info['dims'])}:{real[0]}")
        toks = got.split(" ")
        if real[0] == "REJ":
            ok = toks[0] == "REJ" and toks[1:] == [real[1]]
        else:
            ok = toks[0] == "OK" and len(toks) == 4 and [int(v) for v in toks[1].split(",") if v not in ("", "-")] == real[1] \
                and vlib.allclose(b2fs(toks[2]), real[2], **TOL) and vlib.allclose(b2fs(toks[3]), real[3], **TOL)
        if not ok:
            c.mismatch("triangular-generated-ctor-vs-impl", op=line[:300], model=got[:300], impl=[str(x)[:200] for x in real], **info)
