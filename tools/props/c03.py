"""C03 — transformed densities obey change of variables on both evaluation paths.

Tie: `AbstractTransformed._log_prob/_sample/_sample_and_log_prob` and the default
`_sample_and_log_prob` are REGENERATED (Gen/Dist.lean); `merge_transforms`/nesting are hand models
(Model/ToDist.lean).  Here the model (Float) runs against real nested `Transformed` objects, their
`merge_transforms()` form, and the premade flows' orientation.
"""
from __future__ import annotations

import math

import equinox as eqx
import jax
import jax.numpy as jnp
import jax.random as jr
import numpy as np

import flowjax.bijections as B
from flowjax import flows
from flowjax.distributions import StandardNormal, Normal, Transformed

import fj
import vlib
from vlib import f2b, fs2b, b2f, b2fs
from props import c01

ID = "C03"
GEN = ["Dist", "Combinators", "Leaves", "Misc", "Params", "Flows", "JaxTransforms", "MergeGen"]
RULE = ("nested Transformed(StandardNormal, tree) of depth 1-3 over random scalar bijection trees (conditional via AdditiveCondition, "
        "and unconditional), private methods _log_prob/_sample/_sample_and_log_prob and public log_prob, plus merge_transforms(); "
        "premade flows (coupling, MAF, planar) x invert x conditional: orientation by structural introspection, and — against the GENERATED "
        "factory bodies (Gen/Flows.lean) — log_prob, sample(key), sample_and_log_prob(key) of real factory-built flows (dims 1-5, 1-4 layers, "
        "all parameters perturbed) and of hand-stacked triangular-spline stacks. non-trivial = tree has "
        "non-default parameters; distinct = distinct (nesting, method, argument, condition)")
TRUSTED = c01.TRUSTED + ["Model/ToDist.lean nestTransformed/mergeTransforms (hand models validated here)",
                         "Gen/MergeGen.lean: AbstractTransformed.merge_transforms / shape / cond_shape are REGENERATED from distributions.py (py2meth.py, sheet targets_merge.py) and proved equal to mergeTransforms (Props/C03 section MergeGen); trusted are the sheet's typing and the meanings of Model/MergeWorld.lean (objects as base | Transformed and leaf | Chain, isinstance = constructor test, list operations, `while` = fuel-bounded iteration proved never to exhaust, calling a class = the regenerated constructor of Gen/CtorsGen.lean) — validated here on real nested Transformed objects (op mgmt)",
                         "Prelude/Stats.lean normLogpdf spec (validated here against StandardNormal._log_prob)"]
ASSUMPTIONS = ["base distributions enter the theorems as abstract records; the PRNG is JAX's (the model's key is the base sample itself)",
               "block_neural_autoregressive_flow / triangular_spline_flow cannot be constructed in this environment (WeightNormalization under filter_vmap fails)"]
TOL = dict(rtol=1e-8, atol=1e-9)


def cond_tree(rng, depth):
    """(tokens, real object, nondefault, conditional?)"""
    toks, obj, bnd, desc, nd = c01.rand_tree(rng, depth)
    if rng.random() < 0.5:
        w, b = rng.uniform(-2, 2), rng.uniform(-1, 1)
        ac = B.AdditiveCondition(lambda c, w=w, b=b: jnp.tanh(w * c + b), (), ())
        order = rng.random() < 0.5
        objs = [obj, ac] if order else [ac, obj]
        t = (toks + ["AC", f2b(w), f2b(b)]) if order else (["AC", f2b(w), f2b(b)] + toks)
        return ["C", "2"] + t, B.Chain(objs), True, True, desc + "+AC"
    return toks, obj, nd, False, desc


def corr(c, tier, rng):
    corr_nested(c, tier, rng)
    # the REGENERATED merge_transforms / shape / cond_shape (Gen/MergeGen.lean, driver op `mgmt`) against real nested Transformed objects
    from props import mergegen
    mergegen.corr_transformed(c, tier, rng)
    corr_factories(c, tier, rng)
    scan_correspondence_hook(c, tier, rng)


def corr_nested(c, tier, rng, n=None):
    """nested Transformed (1-3 levels) and their merge_transforms() form: generated model vs real objects"""
    n = n if n is not None else (50 if tier == "quick" else 400)
    lines, wants, infos = [], [], []
    base = StandardNormal()
    for i in range(n):
        depth = rng.choice([1, 1, 2, 3])
        trees = [cond_tree(rng, rng.choice([0, 1, 2])) for _ in range(depth)]
        conditional = any(t[3] for t in trees)
        d = base
        for t in trees:
            d = Transformed(d, t[1])
        merged = d.merge_transforms()
        toks = " ".join(" ".join(t[0]) for t in trees)
        cond = rng.uniform(-2, 2)
        cj = jnp.asarray(cond) if conditional else None
        nd = any(t[2] for t in trees)
        key = jr.PRNGKey(rng.randrange(2 ** 31))
        z = float(base._sample(key))
        for x in [rng.uniform(-3, 3), 0.0, rng.choice([1.0, -1.0, 2.0, 0.5])]:
            for form, dist in (("nest", d), ("merge", merged)):
                try:
                    want = [float(dist._log_prob(jnp.asarray(x), cj))]
                    pub = float(dist.log_prob(jnp.asarray(x), cj))
                except Exception as ex:
                    want, pub = ["EXC:" + type(ex).__name__], None
                line = f"tdist {form} lp {f2b(cond)} {f2b(x)} {depth} {toks}"
                lines.append(line); wants.append(want); infos.append(dict(form=form, what="lp", x=x, cond=cond, public=pub))
                c.case((toks, form, "lp", x, cond), nd, sample={"op": line[:200], "impl": want} if i < 2 and form == "nest" else None)
        for form, dist in (("nest", d), ("merge", merged)):
            want = [float(dist._sample(key, cj))]
            lines.append(f"tdist {form} s {f2b(cond)} {f2b(z)} {depth} {toks}"); wants.append(want); infos.append(dict(form=form, what="s", z=z, cond=cond))
            s, lp = dist._sample_and_log_prob(key, cj)
            lines.append(f"tdist {form} slp {f2b(cond)} {f2b(z)} {depth} {toks}"); wants.append([float(s), float(lp)]); infos.append(dict(form=form, what="slp", z=z, cond=cond))
            c.case((toks, form, "s", z, cond), nd)
            c.case((toks, form, "slp", z, cond), nd)
        c.count(f"depth{depth}:" + ("cond" if conditional else "uncond"))
    outs = vlib.run_model(lines)
    for line, got, want, info in zip(lines, outs, wants, infos):
        ok = c01.compare(c, "generated-transformed-vs-impl", line, got, want, {k: v for k, v in info.items() if k != "public"})
        # the public log_prob is the private one with NaN mapped to -inf
        if ok and info.get("what") == "lp" and info.get("public") is not None and isinstance(want[0], float):
            priv = want[0]
            exp_pub = -math.inf if math.isnan(priv) else priv
            if not vlib.close(info["public"], exp_pub, **TOL):
                c.mismatch("public-log_prob-vs-private", op=line, impl_public=info["public"], impl_private=priv)


def scan_correspondence_hook(c, tier, rng):
    # ---- the layer stack of every premade flow is a Scan: C08.scan_eq_chain on the real side
    c01.scan_correspondence(c, tier, rng)


def corr_factories(c, tier, rng):
    # ---- factories: orientation by structural introspection
    for name, mk in factories():
        for invert in (True, False):
            for cd in (None, 2):
                try:
                    fl = mk(jr.PRNGKey(rng.randrange(1000)), cd, invert)
                except Exception as ex:
                    c.mismatch("factory-constructs", factory=name, exc=repr(ex)[:200])
                    continue
                isinv = isinstance(fl.bijection, B.Invert)
                inner = fl.bijection.bijection if isinv else fl.bijection
                if isinv != invert or not isinstance(inner, B.Scan):
                    c.mismatch("factory-orientation", factory=name, invert=invert, got=type(fl.bijection).__name__, inner=type(inner).__name__)
                c.case(("factory", name, invert, cd), True)
                c.count("factory")
    # ---- whole premade flows: the generated `Transformed(base_dist, Invert(Scan(layers)) if invert else Scan(layers))` of every factory
    #      against log_prob / sample / sample_and_log_prob of real factory-built flows (the model gets the real base sample)
    from props import flows as pflows
    # (quick tier: the hand-built triangular-spline stacks are run under C01 only — one property pays their compile time;
    #  the thorough tier also compares their log_prob / sample / sample_and_log_prob here)
    pflows.corr_flows(c, tier, rng, parts=("factories", "gentrispline") if tier == "quick" else ("factories", "trispline", "gentrispline"), methods=("lp", "s", "slp"))


def factories():
    base = lambda: StandardNormal((3,))
    yield "coupling_flow", lambda k, cd, inv: flows.coupling_flow(k, base_dist=base(), cond_dim=cd, flow_layers=2, nn_width=8, invert=inv)
    yield "masked_autoregressive_flow", lambda k, cd, inv: flows.masked_autoregressive_flow(k, base_dist=base(), cond_dim=cd, flow_layers=2, nn_width=8, invert=inv)
    yield "planar_flow", lambda k, cd, inv: flows.planar_flow(k, base_dist=base(), cond_dim=cd, flow_layers=2, invert=inv, negative_slope=0.1, **({"width_size": 8, "depth": 1} if cd else {}))
    yield "coupling_flow_spline", lambda k, cd, inv: flows.coupling_flow(k, base_dist=base(), cond_dim=cd, flow_layers=2, nn_width=8, invert=inv,
                                                                          transformer=B.RationalQuadraticSpline(knots=4, interval=3))


def perturb(tree, rng, scale=0.3):
    leaves, treedef = jax.tree_util.tree_flatten(tree)
    new = []
    for l in leaves:
        if eqx.is_inexact_array(l):
            noise = np.asarray([rng.gauss(0, scale) for _ in range(int(np.prod(l.shape)) or 1)]).reshape(l.shape)
            new.append(l + jnp.asarray(noise, l.dtype))
        else:
            new.append(l)
    return jax.tree_util.tree_unflatten(treedef, new)


def identities_violations(dist, desc, rng, cond_dim):
    """the three C03 identities on a real distribution (float64)"""
    out = []
    from flowjax.wrappers import unwrap
    u = unwrap(dist)
    dim = dist.shape[0] if dist.shape else None
    for trial in range(3):
        key = jr.PRNGKey(rng.randrange(2 ** 31))
        cond = jnp.asarray([rng.uniform(-1, 1) for _ in range(cond_dim)]) if cond_dim else None
        x = jnp.asarray([rng.uniform(-1.5, 1.5) for _ in range(dim)]) if dim else jnp.asarray(rng.uniform(-1.5, 1.5))
        z, ld = u.bijection.inverse_and_log_det(x, cond)
        lp_ref = float(u.base_dist._log_prob(z, cond) + ld)
        lp = float(dist.log_prob(x, cond))
        if not vlib.close(lp, lp_ref, rtol=1e-9, atol=1e-9):
            out.append(dict(key=f"{desc}|log_prob|trial{trial}", desc=desc, law="log_prob = base(inv x) + inv log-det", got=lp, want=lp_ref))
        s = dist.sample(key, condition=cond)
        base_cond = cond if u.base_dist.cond_shape is not None else None
        s_ref = u.bijection.transform(u.base_dist.sample(key, condition=base_cond), cond)
        if not np.allclose(np.asarray(s), np.asarray(s_ref), rtol=1e-9, atol=1e-9):
            out.append(dict(key=f"{desc}|sample|trial{trial}", desc=desc, law="sample(key) = bijection(base sample(key))"))
        s2, lp2 = dist.sample_and_log_prob(key, condition=cond)
        lp_at = float(dist.log_prob(s2, cond))
        tol = 1e-6 * (1 + abs(lp_at))
        if not np.allclose(np.asarray(s2), np.asarray(s), rtol=1e-9, atol=1e-9) or not (abs(float(lp2) - lp_at) <= tol):
            out.append(dict(key=f"{desc}|sample_and_log_prob|trial{trial}", desc=desc, law="log-prob returned with a sample = log_prob(sample)", got=float(lp2), want=lp_at))
    return out


def out_of_support_violations():
    """change of variables where the inverse image leaves the base support: base log-density is minus infinity there, so log_prob must be
    EXACTLY -inf (reference: the support, not the library's own wrapper)"""
    from flowjax.distributions import Uniform, Exponential
    wit = []
    cases = [("Transformed(Uniform(0,1), Affine(0.3, 2))", Transformed(Uniform(0.0, 1.0), B.Affine(0.3, 2.0)), [-1.0, 0.29, 2.31, 5.0], [0.5, 1.0, 2.0]),
             ("Transformed(Exponential(1.5), Affine(-1, 0.5))", Transformed(Exponential(1.5), B.Affine(-1.0, 0.5)), [-1.5, -1.01, -30.0], [-0.5, 0.0, 3.0]),
             ("Transformed(Uniform(0,1), Exp)", Transformed(Uniform(0.0, 1.0), B.Exp()), [0.5, 0.99, 2.8, 10.0], [1.5, 2.0])]
    for name, d, outside, inside in cases:
        for x in outside:
            v = float(d.log_prob(jnp.asarray(x)))
            if not (np.isinf(v) and v < 0):
                wit.append(dict(key=f"{name}|outside|x={x}", kind="outside", name=name, x=x, law="log_prob is minus infinity where the inverse image is outside the base support", got=v, want="-inf"))
        for x in inside:
            v = float(d.log_prob(jnp.asarray(x)))
            if not np.isfinite(v):
                wit.append(dict(key=f"{name}|inside|x={x}", kind="outside", name=name, x=x, law="log_prob is finite inside the support", got=v, want="finite"))
    return wit


def search(hints, tier, rng):
    wit = []
    wit += out_of_support_violations()
    if wit:
        return wit[:5]
    from props import flows as pflows
    wit += pflows.search_flows(tier, rng)
    if len(wit) >= 5:
        return wit[:5]
    from props import oracles
    # Invert nested inside Chain / Invert: every method and the sampling path equal the composition of the parts
    wit += oracles.nested_invert_violations(rng, 3)
    for name, mk in factories():
        for invert in (True, False):
            for cd in (None, 2):
                fl = perturb(mk(jr.PRNGKey(rng.randrange(1000)), cd, invert), rng)
                wit += identities_violations(fl, f"{name}|invert={invert}|cond={cd}", rng, cd)
    wit += nested_merge_violations(tier, rng)
    return wit[:5]


def nested_merge_violations(tier, rng):
    wit = []
    # hand-built nested transformed distributions, 2 and 3 levels (merge_transforms must not change any method)
    for i in range(20 if tier == "quick" else 100):
        ts = [cond_tree(rng, 1) for _ in range(rng.choice([2, 3, 3]))]
        t1, t2 = ts[0], ts[1]
        d = StandardNormal()
        for t in ts:
            d = Transformed(d, t[1])
        cdim = 0
        desc = "nested:" + "|".join(t[4] for t in ts)
        # scalar distributions: reuse the identity checker with cond as scalar
        try:
            key = jr.PRNGKey(i)
            cond = jnp.asarray(rng.uniform(-1, 1)) if any(t[3] for t in ts) else None
            s, lp = d.sample_and_log_prob(key, condition=cond)
            lp_at = float(d.log_prob(s, cond))
            if np.isfinite(lp_at) and abs(float(lp) - lp_at) > 1e-6 * (1 + abs(lp_at)) * 100:
                wit.append(dict(key=f"{desc}|slp", desc=desc, law="log-prob returned with a sample = log_prob(sample)", got=float(lp), want=lp_at))
            m = d.merge_transforms()
            x = jnp.asarray(float(s))
            a, b = float(d.log_prob(x, cond)), float(m.log_prob(x, cond))
            if not vlib.close(a, b, rtol=1e-8, atol=1e-8):
                wit.append(dict(key=f"{desc}|merge", desc=desc, law="merge_transforms preserves log_prob", got=b, want=a))
            sm = m.sample(key, condition=cond)
            if np.isfinite(float(s)) and not vlib.close(float(sm), float(s), rtol=1e-8, atol=1e-8):
                wit.append(dict(key=f"{desc}|merge-sample", desc=desc, law="merge_transforms preserves sample(key)", got=float(sm), want=float(s)))
        except Exception as ex:
            wit.append(dict(key=f"{desc}|exception", desc=desc, exc=repr(ex)[:200]))
        if len(wit) >= 5:
            break
    return wit[:5]


def replay(w):
    import random
    if w.get("kind") == "nested_invert":
        from props import oracles
        return bool(oracles.replay_witness(w))
    if w.get("kind") == "outside":
        return any(x["key"] == w["key"] for x in out_of_support_violations())
    return bool(search({}, "quick", random.Random(0)))
