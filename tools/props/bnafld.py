"""Correspondence for `lean/Flowjaxv/Model/BnafLd.lean`: `BlockAutoregressiveNetwork.transform_and_log_det` AS THE CODE
COMPUTES IT (per-layer log block-diagonals, the activation's `full(-inf)` matrices, `logmatmulexp` chain, final sum) and
`inverse_and_log_det` (= minus the forward log-det at what the inverter returned).

  corr_bnafld(c, tier, rng)   model (driver ops `bnafld`, `bnafild`, `bnaflj`, `actlj`, `lmme`) vs the real methods on real
                              `BlockAutoregressiveNetwork(key, dim=…, cond_dim=…, depth=…, block_dim=…, activation=…)` objects whose
                              weight arrays (raw weights - both Where copies -, biases, raw weight-norm scales, cond_linear) were ALL
                              overwritten (both signs, magnitudes up to 3, an all-positive assignment, a large-magnitude one);
                              `logmatmulexp` (generated) vs the real function on matrices with `-inf` entries, incl. the excluded
                              all-`-inf` row / column (NaN on both sides).
  search_bnafld(hints, tier, rng)   the property's own oracle on the REAL code only: returned log-det vs
                              slogdet(jax.jacfwd(transform)); point vs transform; inverse log-det == -forward at the returned x.
  replay_bnafld(w)
"""
from __future__ import annotations

import math
import random

import equinox as eqx
import jax
import jax.numpy as jnp
import jax.random as jr
import numpy as np

import flowjax.bijections as B
from flowjax.bijections.block_autoregressive_network import logmatmulexp
from flowjax.wrappers import unwrap

import vlib
from vlib import fs2b, f2b, b2fs, b2f

try:
    from props import c09 as S
except ImportError:
    import c09 as S

TOL = dict(rtol=1e-9, atol=1e-11)

# activation token (driver) -> constructor argument
ACTS = {
    "default": lambda: None,                                   # LeakyTanh(3)
    "leaky05": lambda: B.LeakyTanh(0.5),
    "leaky1": lambda: B.LeakyTanh(1.0),
    "Tanh": lambda: B.Tanh(),
    "ctanh": lambda: jnp.tanh,                                 # _CallableToBijection
    "cmix": lambda: (lambda v: v + jnp.tanh(v) / 2),           # _CallableToBijection, onto ℝ
}
CUBE = lambda v: v ** 3   # a bijection of ℝ with act'(0) = 0: only used for the excluded-point probe
ACT_TOK = {"default": "K:" + f2b(3.0), "leaky05": "K:" + f2b(0.5), "leaky1": "K:" + f2b(1.0), "Tanh": "T", "ctanh": "ctanh", "cmix": "cmix"}


def build(dim, cd, depth, bd, act, rng, mode):
    """a real network with every weight array overwritten; the activation (whose LeakyTanh constants are array leaves too) restored"""
    net0 = B.BlockAutoregressiveNetwork(S.KEY, dim=dim, cond_dim=cd, depth=depth, block_dim=bd, activation=ACTS[act]())
    mag = {"rand": 1.5, "pos": 1.5, "big": 3.0}[mode]
    net = S.overwrite(net0, rng, "pos" if mode == "pos" else "rand", mag=mag)
    net = eqx.tree_at(lambda n: n.activation, net, net0.activation)
    net = eqx.tree_at(lambda n: n.inverter, net, net0.inverter)
    return net


def fields(net, cd):
    out = []
    for raw, b, s in S.bnaf_raw(net):
        out += [fs2b(np.ravel(raw)), fs2b(b), fs2b(s)]
    cmat = fs2b(np.ravel(np.asarray(net.cond_linear.weight))) if cd is not None else "-"
    return cmat, out


def configs(tier, rng):
    full = [(d, cd, dep, bd) for d in range(1, 5) for cd in (None, 2) for dep in range(0, 4) for bd in range(1, 5)]
    if tier != "quick":
        return full
    keep = [(1, None, 0, 1), (1, 2, 1, 1), (2, None, 1, 3), (3, 2, 2, 2), (4, None, 3, 4), (2, 2, 3, 1), (4, 2, 1, 2), (3, None, 0, 4),
            (1, None, 2, 4), (2, None, 2, 2)]
    rest = [cf for cf in full if cf not in keep]
    return keep + rng.sample(rest, 8)


def _inputs(rng, dim, mode):
    m = 3.5 if mode == "big" else 2.0
    return jnp.asarray([rng.choice([-1, 1]) * rng.uniform(0.0, m) for _ in range(dim)])


def corr_bnafld(c, tier, rng):
    quick = tier == "quick"
    lines, checks = [], []
    acts = list(ACTS)
    for ci, (dim, cd, depth, bd) in enumerate(configs(tier, rng)):
        for mi, mode in enumerate(("rand", "pos", "big")):
            act = "default" if (mode == "rand" or depth == 0) else acts[(ci + mi) % len(acts)]
            net = build(dim, cd, depth, bd, act, rng, mode)
            x = _inputs(rng, dim, mode)
            cond = None if cd is None else jnp.asarray([rng.uniform(-1.5, 1.5) for _ in range(cd)])
            cmat, lf = fields(net, cd)
            ctok = fs2b(cond) if cond is not None else "-"
            info = dict(dim=dim, cond_dim=cd, depth=depth, block_dim=bd, activation=act, mode=mode, x=[float(v) for v in x])
            # ---- transform_and_log_det
            y, ld = net.transform_and_log_det(x, cond)
            if tuple(np.shape(ld)) != ():
                c.mismatch("bnafld-logdet-not-scalar", shape=list(np.shape(ld)), **info)
            head = f"{ACT_TOK[act]} {dim} {S.cd_tok(cd)} {depth} {bd}"
            line = f"bnafld {head} {fs2b(x)} {ctok} {cmat} " + " ".join(lf)
            lines.append(line)
            checks.append(("fwd", (list(np.asarray(y)), float(ld)), info))
            c.case(("bnafld", dim, cd, depth, bd, act, mode), True,
                   sample={"op": line[:160], "impl_log_det": float(ld)} if ci in (2, 3) and mode == "rand" else None)
            c.count(f"bnafld:depth{depth}"); c.count(f"bnafld:act:{act}"); c.count("bnafld:" + ("cond" if cd else "nocond"))
            # the point returned with the log-det is `transform`'s
            if not vlib.allclose(list(np.asarray(y)), list(np.asarray(net.transform(x, cond))), rtol=1e-12, atol=1e-14):
                c.mismatch("bnafld-point-vs-transform", **info)
            # ---- per-layer pieces on the same object: linear_to_log_block_diagonal, _activation_and_log_jacobian_3d
            un = unwrap(net)
            shapes = [(1, 1)] if depth == 0 else [(bd, 1)] + [(bd, bd)] * (depth - 1) + [(1, bd)]
            if mode != "pos":
                for li, ((lin, fn), (b0, b1)) in enumerate(zip(un.layers, shapes)):
                    want = np.ravel(np.asarray(fn(lin)))
                    lines.append(f"bnaflj {b0} {b1} {dim} " + " ".join(lf[3 * li: 3 * li + 3]))
                    checks.append(("flat", list(want), dict(piece="linear_to_log_block_diagonal", layer=li, **info)))
                    c.case(("bnaflj", dim, depth, bd, li, mode), True)
                    c.count("bnaflj")
                if depth > 0:
                    h = jnp.asarray([rng.uniform(-4, 4) for _ in range(dim * bd)])
                    _, lag = eqx.filter_vmap(un.activation.transform_and_log_det)(h)
                    _, l3 = un._activation_and_log_jacobian_3d(h)
                    lines.append(f"actlj {dim} {bd} {fs2b(np.asarray(lag))}")
                    checks.append(("flat", list(np.ravel(np.asarray(l3))), dict(piece="_activation_and_log_jacobian_3d", **info)))
                    c.case(("actlj", dim, bd, act, mode), True)
                    c.count("actlj")
            # ---- inverse_and_log_det: x' = inverter(y'), log-det = -forward(x')
            if mode == "rand" and act in ("default", "leaky05", "leaky1", "cmix") and (quick is False or ci % 3 == 0):
                try:
                    xi, ldi = net.inverse_and_log_det(y, cond)
                except Exception as ex:
                    c.mismatch("bnafld-inverse-raised", exc=repr(ex)[:200], **info)
                    continue
                if np.all(np.isfinite(np.asarray(xi))):
                    line = f"bnafild {head} {fs2b(np.asarray(xi))} {ctok} {cmat} " + " ".join(lf)
                    lines.append(line)
                    checks.append(("inv", (list(np.asarray(xi)), float(ldi)), info))
                    c.case(("bnafild", dim, cd, depth, bd, act), True)
                    c.count("bnafild")
    # ---- the excluded point of `bnaf_logdet` (hypothesis act' > 0): activation z**3, first-layer bias 0, x = 0, so every
    #      pre-activation is 0 and act' = 0 there: det J = 0, log|det J| = -inf; the code's A-matrix has an all -inf column and
    #      logmatmulexp's `y - amax(y)` is -inf - -inf = nan.  The model must reproduce the real value's class.
    for dim, bd in ((1, 1), (2, 2), (3, 1)):
        net0 = B.BlockAutoregressiveNetwork(S.KEY, dim=dim, depth=1, block_dim=bd, activation=CUBE)
        net = S.overwrite(net0, rng, "rand", mag=1.5)
        net = eqx.tree_at(lambda n: n.inverter, net, net0.inverter)
        net = eqx.tree_at(lambda n: n.layers[0][0].bias, net, jnp.zeros(dim * bd))
        x = jnp.zeros(dim)
        y, ld = net.transform_and_log_det(x)
        cmat, lf = fields(net, None)
        lines.append(f"bnafld ccube {dim} -1 1 {bd} {fs2b(x)} - - " + " ".join(lf))
        checks.append(("fwd", (list(np.asarray(y)), float(ld)), dict(dim=dim, block_dim=bd, activation="z**3", excluded="act'(0)=0")))
        c.case(("bnafld-excluded", dim, bd), True)
        c.count("bnafld:excluded act'=0: impl returns " + vlib.fclass(float(ld)))
    # ---- logmatmulexp (generated) on its own, with -inf entries
    nl = 30 if quick else 200
    for li in range(nl):
        n, k, m = rng.choice([1, 1, 2, 3]), rng.choice([1, 2, 3, 4]), rng.choice([1, 2, 3, 4])
        kind = rng.choice(["finite", "diag", "sparse", "excluded"])
        X = np.asarray([[rng.uniform(-30, 30) if kind != "finite" else rng.uniform(-3, 3) for _ in range(k)] for _ in range(n)])
        Y = np.asarray([[rng.uniform(-3, 3) for _ in range(m)] for _ in range(k)])
        if kind == "diag":
            m = k
            Y = np.full((k, k), -np.inf); Y[np.arange(k), np.arange(k)] = [rng.uniform(-20, 5) for _ in range(k)]
        elif kind == "sparse":       # -inf entries, every row of X and every column of Y keeps a finite one
            for i in range(n):
                for j in range(k):
                    if rng.random() < 0.4 and np.sum(np.isfinite(X[i])) > 1:
                        X[i, j] = -np.inf
            for j in range(m):
                for i in range(k):
                    if rng.random() < 0.4 and np.sum(np.isfinite(Y[:, j])) > 1:
                        Y[i, j] = -np.inf
        elif kind == "excluded":     # an all -inf row of x / column of y: -inf - -inf = NaN in the real code
            if rng.random() < 0.5:
                X[rng.randrange(n), :] = -np.inf
            else:
                Y[:, rng.randrange(m)] = -np.inf
        want = np.ravel(np.asarray(logmatmulexp(jnp.asarray(X), jnp.asarray(Y))))
        lines.append(f"lmme {n} {k} {m} {fs2b(np.ravel(X))} {fs2b(np.ravel(Y))}")
        checks.append(("flat", list(want), dict(piece="logmatmulexp", kind=kind, x=X.tolist(), y=Y.tolist())))
        c.case(("lmme", n, k, m, kind, li), True)
        c.count("lmme:" + kind)
        if kind == "excluded":
            c.count("lmme:excluded:impl-" + ("nan" if np.any(np.isnan(want)) else "no-nan"))
    # ---- the GENERATED network (Gen/BnafGen.lean: `transform`, `transform_and_log_det`, `inverse_and_log_det`,
    #      `_activation_and_log_jacobian_3d`, `block_autoregressive_linear` + its closure, the wrapper nest unwrapped through the generated
    #      `.unwrap()` bodies and generated masks) on the SAME inputs, against the SAME values of the real object (driver ops `g…`)
    glines, gchecks = [], []
    for line, (kind, want, info) in zip(lines, checks):
        op = line.split(" ", 1)[0]
        if op in ("bnafld", "bnafild", "bnaflj", "actlj"):
            glines.append("g" + line)
            gchecks.append((kind, want, dict(info, generated=True)))
            c.case(("g" + op,) + tuple(str(info.get(k)) for k in ("dim", "cond_dim", "depth", "block_dim", "activation", "mode", "layer", "excluded")), True)
            c.count("generated:" + op)
        if op == "bnafld":
            glines.append("gbnaft" + line[len("bnafld"):])
            gchecks.append(("pt", want[0], dict(info, generated=True)))
            c.count("generated:transform")
    lines, checks = lines + glines, checks + gchecks
    outs = vlib.run_model(lines)
    for line, got, (kind, want, info) in zip(lines, outs, checks):
        if kind == "pt":
            if got.startswith("ERR") or not vlib.allclose(b2fs(got), want, **TOL):
                c.mismatch("bnafgen-transform-point-vs-impl", op=line[:300], model=got[:200], impl=want, **info)
            continue
        if got.startswith("ERR"):
            c.mismatch("bnafld-model-rejected-op", op=line[:300], model=got, **info)
            continue
        if kind in ("fwd", "inv"):
            a, b = got.split(" ")
            pt, ld = b2fs(a), b2f(b)
            nm = "transform_and_log_det" if kind == "fwd" else "inverse_and_log_det"
            if not vlib.allclose(pt, want[0], **TOL):
                c.mismatch(f"bnafld-{nm}-point-vs-impl", op=line[:300], model=pt, impl=want[0], **info)
            if not vlib.close(ld, want[1], rtol=1e-9, atol=1e-10):
                c.mismatch(f"bnafld-{nm}-logdet-vs-impl", op=line[:300], model=ld, impl=want[1], **info)
        else:
            m = b2fs(got)
            if not vlib.allclose(m, want, rtol=1e-9, atol=1e-10):
                c.mismatch(f"bnafld-{info['piece']}-vs-impl", op=line[:300], model=m, impl=want, **{k: v for k, v in info.items() if k != "piece"})


# ================================================================== the property's own oracle, real code only
def _violations(dim, cd, depth, bd, act, mode, seed):
    r = random.Random(seed)
    net = build(dim, cd, depth, bd, act, r, mode)
    out = []
    for rep in range(2):
        x = _inputs(r, dim, mode)
        cond = None if cd is None else jnp.asarray([r.uniform(-1.5, 1.5) for _ in range(cd)])
        y, ld = net.transform_and_log_det(x, cond)
        ld = float(ld)
        base = dict(kind="bnafld", dim=dim, cond_dim=cd, depth=depth, block_dim=bd, activation=act, mode=mode, seed=seed, rep=rep,
                    x=[float(v) for v in x], cond=None if cond is None else [float(v) for v in cond])
        if tuple(np.shape(ld)) != ():
            out.append(dict(law="forward log-det has shape ()", **base))
        if not np.allclose(np.asarray(y), np.asarray(net.transform(x, cond)), rtol=1e-12, atol=1e-300):
            out.append(dict(law="transform_and_log_det point == transform", **base))
        J = np.asarray(jax.jacfwd(lambda z: net.transform(z, cond))(x)).reshape(dim, dim)
        if not np.all(np.isfinite(J)) or not math.isfinite(ld):
            continue
        s, lad = np.linalg.slogdet(J)
        if s == 0 or not math.isfinite(lad):
            continue  # underflowed Jacobian (a float matter; over ℝ det J > 0, C09 / bnaf_logdet)
        # LeakyTanh has kinks of the SECOND derivative only: the Jacobian is continuous, no kink guard needed
        kappa = float(np.linalg.cond(J))
        tol = 1e-8 + 1e-13 * min(kappa, 1e8) + 1e-9 * abs(lad)
        if s <= 0 or abs(ld - lad) > tol:
            out.append(dict(law="forward log-det == log|det jacfwd(transform)| (and det > 0)", returned=ld, slogdet=float(lad), sign=float(s), **base))
        if mode == "rand" and act in ("default", "leaky05", "leaky1", "cmix") and rep == 0:
            xi, ldi = net.inverse_and_log_det(y, cond)
            if np.all(np.isfinite(np.asarray(xi))):
                _, ldf = net.transform_and_log_det(xi, cond)
                if not vlib.close(float(ldi), -float(ldf), rtol=1e-10, atol=1e-12):
                    out.append(dict(law="inverse log-det == -forward log-det at the returned point", returned=float(ldi), forward=float(ldf), **base))
    for w in out:
        w["key"] = f"bnafld#{dim},{cd},{depth},{bd},{act},{mode},{seed}#{w['rep']}|{w['law']}"
    return out


def search_bnafld(hints, tier, rng):
    wit = []
    acts = list(ACTS)
    base = rng.randrange(1, 10 ** 6)
    cfs = configs(tier, rng)
    for ci, (dim, cd, depth, bd) in enumerate(cfs):
        for mi, mode in enumerate(("rand", "pos", "big")):
            act = "default" if (mode == "rand" or depth == 0) else acts[(ci + mi) % len(acts)]
            wit += _violations(dim, cd, depth, bd, act, mode, base + 31 * ci + mi)
            if len(wit) >= 5:
                return wit[:8]
    return wit


def replay_bnafld(w):
    out = _violations(int(w["dim"]), None if w["cond_dim"] is None else int(w["cond_dim"]), int(w["depth"]), int(w["block_dim"]),
                      w["activation"], w["mode"], int(w["seed"]))
    return any(v["law"] == w["law"] and v["rep"] == w.get("rep", v["rep"]) for v in out)


# ------------------------------------------------------------------ the GENERATED constructor (Gen/BnafInitGen.lean, driver op `gbnafinit`)
def _init_acts():
    """token for the driver -> (constructor argument, kind)"""
    return {
        "none": (lambda: None, "default"),
        "bij:-:N": (lambda: B.LeakyTanh(2.0), "LeakyTanh(2)"),
        "bij:-:N ": (lambda: B.Tanh(), "Tanh()"),
        "callable": (lambda: jnp.tanh, "callable"),
        "bij:2:N": (lambda: B.Affine(jnp.zeros(2), jnp.ones(2)), "invalid shape (2,)"),
        "bij:-:1": (lambda: B.AdditiveCondition(lambda c_: jnp.sum(c_), (), (1,)), "invalid conditional scalar"),
        "bij:1:2": (lambda: B.AdditiveCondition(lambda c_: jnp.zeros(1) + jnp.sum(c_), (1,), (2,)), "invalid shape (1,) and conditional"),
    }


def _sh(s):
    return "N" if s is None else (",".join(str(int(v)) for v in s) or "-")


def describe_real(net):
    layers = []
    for lin, ljf in net.layers:
        u = unwrap(lin)
        blk = ljf(u)
        w = np.asarray(u.weight)
        assert (lin.out_features, lin.in_features) == w.shape
        layers.append(f"{w.shape[0]}x{w.shape[1]}x{np.asarray(u.bias).shape[0]}/" + "x".join(str(int(v)) for v in blk.shape))
    cl = "N" if net.cond_linear is None else "x".join(str(int(v)) for v in np.asarray(net.cond_linear.weight).shape)
    if net.cond_linear is not None:
        assert net.cond_linear.bias is None
    return (f"OK {len(net.layers)} {_sh(net.shape)} {_sh(net.cond_shape)} {net.depth} {net.block_dim} {';'.join(layers)} {cl} "
            f"{_sh(net.activation.shape)}:{_sh(net.activation.cond_shape)}")


def init_configs(tier, rng):
    acts = list(_init_acts())
    full = [(d, cd, dep, bd, a) for d in range(1, 5) for cd in (None, 1, 2) for dep in range(0, 4) for bd in range(1, 4) for a in acts]
    if tier != "quick":
        return full
    keep = [(1, None, 0, 1, "none"), (2, 1, 1, 3, "none"), (3, 2, 2, 2, "callable"), (4, None, 3, 3, "bij:-:N"), (2, 2, 0, 3, "bij:-:N "),
            (3, None, 1, 2, "bij:2:N"), (2, 1, 2, 1, "bij:-:1"), (4, 2, 3, 2, "bij:1:2"), (1, 2, 3, 3, "callable"), (4, 1, 0, 2, "none"),
            (2, None, 2, 3, "none"), (3, 1, 3, 1, "bij:-:N"), (1, None, 1, 1, "bij:-:1"), (2, 2, 0, 1, "bij:2:N")]
    rest = [cf for cf in full if cf not in keep]
    return keep + rng.sample(rest, 34)


def corr_init(c, tier, rng):
    """the GENERATED `BlockAutoregressiveNetwork.__init__` (driver op `gbnafinit`) against real constructions: layer count, every layer's
    unwrapped weight / bias shape and the shape its log-Jacobian closure returns (= `(dim, *block_shape)`), declared `shape`,
    `cond_shape`, `depth`, `block_dim`, the `cond_linear` weight shape, the selected activation's declared shapes — or the ValueError"""
    acts = _init_acts()
    cfgs = init_configs(tier, rng)
    lines = [f"gbnafinit {d} {-1 if cd is None else cd} {dep} {bd} {a.strip()}" for d, cd, dep, bd, a in cfgs]
    outs = vlib.run_model(lines)
    for (d, cd, dep, bd, a), line, got in zip(cfgs, lines, outs):
        mk, kind = acts[a]
        try:
            net = B.BlockAutoregressiveNetwork(S.KEY, dim=d, cond_dim=cd, depth=dep, block_dim=bd, activation=mk())
            want = describe_real(net)
            # the hand model of the block shapes (what the C09 / C02 theorems assume) against the same object
            shapes = [(1, 1)] if dep == 0 else [(bd, 1)] + [(bd, bd)] * (dep - 1) + [(1, bd)]
            if [tuple(int(v) // d for v in np.asarray(unwrap(lin).weight).shape) for lin, _ in net.layers] != shapes:
                c.mismatch("bnafinit-hand-block-shapes-vs-impl", op=line, want=shapes)
        except ValueError as ex:
            want = "RAISE valueError"
            if "Bijection must be unconditional with shape ()" not in str(ex):
                want = "RAISE other ValueError: " + str(ex)[:80]
        c.count("bnafinit:" + kind + (":raise" if want.startswith("RAISE") else ":ok"))
        c.case(f"bnafinit {kind} dep{min(dep, 2)} cd{cd is not None}", True, sample=dict(op=line, model=got, impl=want))
        if got != want:
            c.mismatch("bnafinit-generated-ctor-vs-impl", op=line, model=got, impl=want)
