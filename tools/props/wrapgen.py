"""Correspondence of the `.unwrap()` bodies GENERATED from flowjax/wrappers.py (`lean/Flowjaxv/Gen/Wrappers.lean`, typing sheet
`tools/py2lean/targets_wrappers.py`, driver op `gwrap`) with the real `flowjax.wrappers.unwrap` — shared by C11 and C12.

Covers: `WeightNormalization.unwrap` on matrices of many shapes (1x1 … ) and on rank-3 batches, with the constructor's scale, with
arbitrary raw scale parameters and with plain scale columns of both signs; each row additionally against the per-row generated
kernel; `Where.unwrap` elementwise and with a matrix condition / scalar `if_false`; `BijectionReparam.__init__` + `unwrap`
(SoftPlus, Exp); whole nests through `PyTree.genWrapFn` (`Model/WrapGen.lean`): the BNAF weight nest, masked MAF layers,
`NonTrainable` subtrees, a `Lambda`, a reparameterised `Where`.
"""
from __future__ import annotations

import dataclasses

import equinox as eqx
import jax
import jax.numpy as jnp
import jax.random as jr
import numpy as np

import flowjax.bijections as B
from flowjax.wrappers import (AbstractUnwrappable, BijectionReparam, Lambda, NonTrainable, WeightNormalization, Where,
                              non_trainable, unwrap)

import vlib
from vlib import f2b, fs2b, b2fs

KIND = [(NonTrainable, "NT"), (BijectionReparam, "BR"), (Where, "WH"), (WeightNormalization, "WN"), (Lambda, "LA")]


def is_wrapper(x):
    return isinstance(x, AbstractUnwrappable)


def is_arr(x):
    return isinstance(x, (jax.Array, np.ndarray))


GW_TOL = dict(rtol=1e-9, atol=1e-12)


def enc_full(x, st):
    """a real pytree in the notation of the driver op `gwrap tree`: arrays fully nested (last axis `D`, higher axes `B`), Python
    numbers as scalar arrays, the bijection of a BijectionReparam as `S 9101` (SoftPlus) / `S 9102` (Exp)"""
    def arr(a):
        a = np.asarray(a)
        if a.ndim <= 1:
            return ["D", fs2b(np.ravel(a).astype(float))]
        out = ["B", str(a.shape[0])]
        for i in range(a.shape[0]):
            out += arr(a[i])
        return out
    if x is None:
        return ["N"]
    if is_wrapper(x):
        kind = next(k for cls, k in KIND if isinstance(x, cls))
        names = [f.name for f in dataclasses.fields(x) if not f.metadata.get("static", False) and f.name != "_dummy"]
        st["tag"] += 1
        toks = ["W", kind, str(st["tag"]), "-", str(len(names))]
        for n in names:
            v = getattr(x, n)
            if kind == "BR" and n == "bijection":
                if type(v) not in (B.SoftPlus, B.Exp):
                    raise ValueError("enc_full: only SoftPlus / Exp reparameterisations")
                toks += ["S", "9101" if isinstance(v, B.SoftPlus) else "9102"]
            else:
                toks += enc_full(v, st)
        return toks
    if is_arr(x) or isinstance(x, (bool, int, float)):
        st["id"] += 1
        return ["A", str(st["id"]), "1" if eqx.is_inexact_array(x) or isinstance(x, float) else "0"] + arr(x)
    if jax.tree_util.all_leaves([x]):
        st["id"] += 1
        return ["S", str(st["id"])]
    kids, _ = eqx.tree_flatten_one_level(x)
    toks = ["C", str(len(kids))]
    for k in kids:
        toks += enc_full(k, st)
    return toks


def real_value_leaves(t):
    return [np.ravel(np.asarray(l)).astype(float).tolist() for l in jax.tree_util.tree_leaves(t) if is_arr(l) or isinstance(l, (bool, int, float))]


def rnd(rng, shape, lo=0.05, hi=2.0, signs=True):
    n = int(np.prod(shape)) if shape else 1
    vals = [(rng.choice([-1, 1]) if signs else 1) * rng.uniform(lo, hi) for _ in range(n)]
    return np.reshape(vals, shape)


def corr_generated(c, tier, rng):
    """the bodies generated from flowjax/wrappers.py (driver op `gwrap`, Gen/Wrappers.lean at Float) against the real `unwrap`"""
    lines, checks = [], []

    def add(line, kind, want, nontrivial=True, sample=False, **info):
        lines.append(line)
        checks.append((kind, want, info))
        c.case(("generated", info.get("what"), line[:200]), nontrivial, sample={"op": line[:200], "impl": want} if sample else None)
        c.count("generated:" + str(info.get("what")))

    quick = tier == "quick"
    # --- WeightNormalization on matrices of every small shape, scale = the constructor's reparameterised column and plain columns of both signs
    shapes2 = [(1, 1), (1, 3), (3, 1), (2, 2), (2, 3), (4, 2), (3, 5)] + [(rng.randint(1, 6), rng.randint(1, 6)) for _ in range(4 if quick else 40)]
    for (r, k) in shapes2:
        for mode in ("ctor", "raw", "plain"):
            W = rnd(rng, (r, k))
            wn = WeightNormalization(jnp.asarray(W))
            if mode == "raw":    # arbitrary raw (pre-softplus) scale parameters
                wn = eqx.tree_at(lambda w: w.scale.arr, wn, jnp.asarray(rnd(rng, (r, 1), 0.1, 3.0)))
            elif mode == "plain":  # a plain array column, both signs
                wn = eqx.tree_at(lambda w: w.scale, wn, jnp.asarray(rnd(rng, (r, 1), 0.1, 3.0)))
            scale = np.asarray(unwrap(wn.scale)).reshape(r)
            got = np.asarray(unwrap(wn))
            if got.shape != (r, k):
                c.mismatch("weightnorm-shape", shape=(r, k), impl=got.shape)
            add(f"gwrap wn {r} {k} {fs2b(np.ravel(W))} {fs2b(scale)}", "floats", np.ravel(got).tolist(), sample=(r, k, mode) == (2, 3, "raw"),
                what="weightnorm-matrix", shape=(r, k), mode=mode)
            # the per-row generated kernel, row by row (what `gen_weightnorm_eq_rows` proves)
            for i in range(r):
                add(f"par wn {fs2b(W[i])} {f2b(scale[i])}", "floats", got[i].tolist(), what="weightnorm-row-of-matrix", shape=(r, k), row=i)
    shapes3 = [(1, 1, 1), (2, 1, 3), (1, 3, 2), (2, 3, 4), (3, 2, 2)] + [(rng.randint(1, 4), rng.randint(1, 4), rng.randint(1, 5)) for _ in range(3 if quick else 30)]
    for (bsz, r, k) in shapes3:
        for mode in ("ctor", "raw", "plain"):
            W = rnd(rng, (bsz, r, k))
            wn = WeightNormalization(jnp.asarray(W))
            if mode == "raw":
                wn = eqx.tree_at(lambda w: w.scale.arr, wn, jnp.asarray(rnd(rng, (bsz, r, 1), 0.1, 3.0)))
            elif mode == "plain":
                wn = eqx.tree_at(lambda w: w.scale, wn, jnp.asarray(rnd(rng, (bsz, r, 1), 0.1, 3.0)))
            scale = np.asarray(unwrap(wn.scale)).reshape(bsz * r)
            got = np.asarray(unwrap(wn))
            if got.shape != (bsz, r, k):
                c.mismatch("weightnorm-shape", shape=(bsz, r, k), impl=got.shape)
            add(f"gwrap wn3 {bsz} {r} {k} {fs2b(np.ravel(W))} {fs2b(scale)}", "floats", np.ravel(got).tolist(), sample=(bsz, r, k, mode) == (2, 3, 4, "plain"),
                what="weightnorm-batch", shape=(bsz, r, k), mode=mode)
            # the same nest through the tree-level instantiation (`genWrapFn`)
            add("gwrap tree " + " ".join(enc_full(wn, {"tag": 0, "id": 0})), "tree", real_value_leaves(unwrap(wn)), what="weightnorm-batch-tree", shape=(bsz, r, k), mode=mode)
    # --- Where: elementwise, and a matrix condition with a scalar if_false
    for n in [1, 2, 5] + [rng.randint(1, 8) for _ in range(3 if quick else 30)]:
        cond = [rng.random() < 0.5 for _ in range(n)]
        a, b_ = rnd(rng, (n,)), rnd(rng, (n,))
        got = np.asarray(unwrap(Where(jnp.asarray(cond), jnp.asarray(a), jnp.asarray(b_))))
        add(f"gwrap where {vlib.ints(cond)} {fs2b(a)} {fs2b(b_)}", "floats", got.tolist(), sample=n == 5, what="where-elementwise", n=n)
    for (r, k) in [(1, 1), (2, 3), (3, 2)] + [(rng.randint(1, 5), rng.randint(1, 5)) for _ in range(3 if quick else 30)]:
        for v in (0, 0.0, -1.5):
            mask = np.reshape([rng.random() < 0.5 for _ in range(r * k)], (r, k))
            W = rnd(rng, (r, k))
            wh = Where(jnp.asarray(mask), jnp.asarray(W), v)
            got = np.asarray(unwrap(wh))
            add(f"gwrap wheremat {r} {k} {vlib.ints(np.ravel(mask))} {fs2b(np.ravel(W))} {f2b(v)}", "floats", np.ravel(got).tolist(),
                what="where-matrix", shape=(r, k), if_false=v)
            add("gwrap tree " + " ".join(enc_full(wh, {"tag": 0, "id": 0})), "tree", real_value_leaves(unwrap(wh)), what="where-matrix-tree", shape=(r, k), if_false=v)
    # --- BijectionReparam: constructor (stores the inverse) and unwrap, SoftPlus and Exp
    for name, bij in (("softplus", B.SoftPlus()), ("exp", B.Exp())):
        vals = [1e-3, 0.5, 1.0, 2.0, 30.0] + [rng.uniform(0.01, 5.0) for _ in range(3 if quick else 30)]
        br = BijectionReparam(jnp.asarray(vals), bij)
        add(f"gwrap reparam {name} {fs2b(vals)}", "floats2", (np.asarray(br.arr).tolist(), np.asarray(unwrap(br)).tolist()), sample=name == "softplus",
            what="reparam-ctor-" + name)
        raws = [-30.0, -2.0, 0.0, 0.7, 5.0] + [rng.uniform(-4, 4) for _ in range(3 if quick else 30)]
        br = BijectionReparam(jnp.asarray(raws), bij, invert_on_init=False)
        add(f"gwrap unwrapraw {name} {fs2b(raws)}", "floats", np.asarray(unwrap(br)).tolist(), what="reparam-unwrap-" + name)
    # --- whole nests through `genWrapFn`: the BNAF weight (WeightNormalization(Where(diag, BijectionReparam(Where(tril, W, 0)), Where(tril, W, 0))),
    #     masked MAF weights, NonTrainable subtrees, a Lambda returning its arguments — every array leaf overwritten
    def overwrite(tree):
        return jax.tree_util.tree_map(lambda l: jnp.asarray(rnd(rng, l.shape, 0.1, 1.5), l.dtype) if eqx.is_inexact_array(l) else l, tree)
    for (dim, depth, bd) in [(1, 0, 1), (2, 1, 2), (3, 2, 2), (2, 1, 3)]:
        net = overwrite(B.BlockAutoregressiveNetwork(jr.key(1), dim=dim, depth=depth, block_dim=bd, activation=jnp.tanh))
        for li, (lin, _) in enumerate(net.layers):
            add("gwrap tree " + " ".join(enc_full(lin.weight, {"tag": 0, "id": 0})), "tree", real_value_leaves(unwrap(lin.weight)), sample=(dim, li) == (2, 0),
                what="bnaf-weight-nest", dim=dim, depth=depth, block_dim=bd, layer=li)
    for (dim, cd, w, depth) in [(1, None, 2, 1), (3, 2, 4, 2), (2, None, 3, 0)]:
        maf = overwrite(B.MaskedAutoregressive(jr.key(2), transformer=B.Affine(), dim=dim, cond_dim=cd, nn_width=w, nn_depth=depth))
        layers = maf.masked_autoregressive_mlp.layers
        add("gwrap tree " + " ".join(enc_full(layers, {"tag": 0, "id": 0})), "tree", real_value_leaves(unwrap(layers)), what="maf-masked-layers", dim=dim, cond_dim=cd, width=w, depth=depth)
    x, y = jnp.asarray(rnd(rng, (2, 3))), jnp.asarray(rnd(rng, (3,)))
    nests = {
        "nontrainable-of-wrappers": NonTrainable((Where(jnp.asarray([True, False, True]), y, 0.0), x)),
        "nontrainable-leafwise": non_trainable({"a": x, "b": (y, 3)}),
        "lambda-returning-arguments": Lambda(lambda a, b: (a, b), x, BijectionReparam(jnp.abs(y), B.SoftPlus())),
        "reparam-of-where": BijectionReparam(Where(jnp.asarray([True, True, False]), y, 0.5), B.Exp(), invert_on_init=False),
    }
    for name, t in nests.items():
        want = real_value_leaves(unwrap(t))
        if name.startswith("nontrainable"):  # identity on values: bitwise the wrapped leaves
            inner = t.tree if isinstance(t, NonTrainable) else jax.tree_util.tree_map(lambda l: l.tree if isinstance(l, NonTrainable) else l, t, is_leaf=lambda l: isinstance(l, NonTrainable))
            if want != real_value_leaves(unwrap(inner)):
                c.mismatch("nontrainable-unwrap-is-not-the-identity-on-values", nest=name)
        add("gwrap tree " + " ".join(enc_full(t, {"tag": 0, "id": 0})), "tree", want, what="nest:" + name)
    outs = vlib.run_model(lines)
    for line, got, (kind, want, info) in zip(lines, outs, checks):
        if got.startswith("ERR"):
            c.mismatch("generated-body-op-rejected", op=line[:300], model=got, **info)
        elif kind == "floats":
            if not vlib.allclose(b2fs(got), want, **GW_TOL):
                c.mismatch("generated-" + info["what"] + "-vs-real-unwrap", op=line[:300], model=b2fs(got), impl=want, **info)
        elif kind == "floats2":
            a, b_ = got.split(" ")
            if not (vlib.allclose(b2fs(a), want[0], **GW_TOL) and vlib.allclose(b2fs(b_), want[1], **GW_TOL)):
                c.mismatch("generated-" + info["what"] + "-vs-real", op=line[:300], model=[b2fs(a), b2fs(b_)], impl=want, **info)
        else:
            leaves_s, nowrap = [t.strip() for t in got.split("|")]
            model = [] if leaves_s == "-" else [b2fs(l.split(":")[1]) for l in leaves_s.split(";")]
            ok = nowrap == "1" and len(model) == len(want) and all(vlib.allclose(m, w, **GW_TOL) for m, w in zip(model, want))
            if not ok:
                c.mismatch("generated-" + info["what"] + "-vs-real-unwrap", op=line[:300], model=model, impl=want, **info)


