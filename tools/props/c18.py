"""C18 — finite log-probabilities have finite gradients; log_prob is never NaN.

Tie: the scalar kernels are REGENERATED as deep `Ad.Expr` ASTs (Gen/LeavesAst.lean, tools/py2lean/py2ast.py);
the reverse-mode interpreter `Expr.vjp` (Model/Ad.lean) with JAX's cotangent rules is a hand model of
JAX autodiff.  Here the SAME interpreter runs at IEEE Float and is compared with `jax.grad` on the real
methods: value, d/dx, d/dparameters — numerically and by special-value class (fin / ±inf / nan) — on the
boundary-directed set.  The theorems (Props/C18.lean) are about the EF instance of the same interpreter.
"""
from __future__ import annotations

import math

import equinox as eqx
import jax
import jax.numpy as jnp
import jax.random as jr
import numpy as np

import flowjax.bijections as B
from flowjax import flows
from flowjax.distributions import StandardNormal, Transformed
from flowjax.wrappers import unwrap

import fj
import vlib
from vlib import f2b, fs2b, b2f, b2fs
from props import c01

ID = "C18"
GEN = ["LeavesAst", "Leaves", "DistAst", "VecAst", "SplineAst", "TriAst"]
RULE = ("[families] every family (Normal, LogNormal, Uniform, Gumbel, Cauchy, StudentT, Laplace, Exponential, Logistic and the eight standard bases) x "
        "private `_log_prob` and public `log_prob` x trainable leaves far from their initial values (loc up to 1e3, raw scale/df from -20 to 40) x inputs on the "
        "support ends, at loc (|.| at 0), outside the support, at magnitudes 1e3..1e300: value and d/dx, d/d(every trainable leaf) from the Float instance "
        "of the generated ASTs vs jax.value_and_grad; [planar] dims 1-5, tanh and leaky-relu (both directions), pre-activation exactly 0 (dyadic data), "
        "w = 0, magnitudes to 1e150: every output's value and Jacobian w.r.t. x, weight, act_scale, bias vs jax.jacrev; [mixture] 1-5 components, tied maxima, "
        "-inf / +inf / NaN components; [networks] Coupling (both directions) and MaskedAutoregressive with the default affine transformer, relu and tanh "
        "conditioners of depth 0-2 with perturbed weights, relu pre-activations exactly 0: value and Jacobian w.r.t. x and EVERY weight and bias; "
        "[leaves] every generated leaf kernel (Affine both signs, Loc, Scale, Exp, SoftPlus, Tanh, LeakyTanh, RationalQuadraticSpline with perturbed "
        "parameters and intervals not containing 0) x all methods x boundary-directed inputs (interval ends, knots, outside the interval, at and "
        "beyond ±max_val, tanh(max_val), ±1, 0, float neighbours, ±1e4): value, d/dx and d/d(every parameter) of each output component from the "
        "Float instance of the reverse-mode model vs jax.grad; non-trivial = boundary input with non-default parameters; distinct = distinct "
        "(kernel, method, parameters, input)")
TRUSTED = [
    "py2ast reads the bodies of jax.scipy.stats.{norm,uniform,cauchy,laplace,expon,logistic,t}.logpdf and jax.nn.leaky_relu from the INSTALLED JAX package (regenerated every run); jax.scipy.special.logsumexp, jax.nn.log_softmax, jnp.logaddexp (custom_jvp), jax.nn.relu (custom_jvp), eqx.nn.MLP, Coupling/MaskedAutoregressive wiring, Chain's loop and the families' constructor wiring are hand-transcribed (Model/Ad.lean, AdVec.lean, AdNet.lean, AdFamilies.lean) and validated here",
    "EF.lgamma / EF.digamma: log Gamma and its derivative are Mathlib's Real.Gamma and `deriv`; the model ASSUMES JAX's lgamma/digamma return finite floats for representable positive arguments (trusted primitive)",
    "Lean 4.33 kernel; Mathlib v4.33; axioms propext, Classical.choice, Quot.sound",
    "py2ast translator (tools/py2lean/py2ast.py, targets_ast.py): deep AST of the kernels, regenerated every run; validated here at Float",
    "Model/Ad.lean: cotangent rules per primitive transcribed from JAX (select sends a zero cotangent to the unselected branch; cotangent x partial uses IEEE multiplication) — a model of JAX autodiff, validated here against jax.grad",
    "EF (Proofs/EF.lean): IEEE special-value rules over exact reals — rounding, overflow (exp of large arguments) and signed zeros are outside the model and covered by this correspondence only",
]
ASSUMPTIONS = ["flows inherit finiteness from their layers by composition of `Safe` expressions (theorem safe_vjp_fin); conditioner MLPs, coupling and masked-autoregressive layers with the default affine transformer are proved (mlp/coupling/maf_grad_finite), as are spline-transformer couplings (both directions), the MAF forward pass with splines and MultivariateNormal (coupling_spline/maf_spline/mvn_grad_finite); the MAF inverse scan, BNAF and whole factories are covered by the oracle only",
               "adjoints are compared only where the real value is finite (the property's scope): at non-finite values the per-output model and JAX's shared backward pass may place NaN differently; values are compared everywhere by special-value class",
               "planar leaky-relu theorems need 0 < negative_slope <= 1 (steeper slopes: recorded C02 finding); planar theorems need w != 0 (at w = 0 the real code returns NaN from get_act_scale, public log_prob = -inf)",
               "block_neural_autoregressive_flow / triangular_spline_flow cannot be constructed in this environment"]
TOL = dict(rtol=1e-7, atol=1e-9)


# ------------------------------------------------------------------ real-side functions of (x, scalars, vectors)
def build(cls, ss, vs):
    if cls == "Affine":
        return eqx.tree_at(lambda t: (t.loc, t.scale), B.Affine(), (ss[0], ss[1]))
    if cls == "Loc":
        return eqx.tree_at(lambda t: t.loc, B.Loc(0.0), ss[0])
    if cls == "Scale":
        return eqx.tree_at(lambda t: t.scale, B.Scale(1.0), ss[0])
    if cls == "Exp":
        return B.Exp()
    if cls == "SoftPlus":
        return B.SoftPlus()
    if cls == "Tanh":
        return B.Tanh()
    raise KeyError(cls)


def real_eval(cls, m, x, ss, vs, static=None):
    """returns list per output component of (value, dx, dss, dvs) using jax.grad on the real method
    (deliberately NOT jitted: inputs within an ulp of a spline's interval end make `max/min` ties depend on XLA's fusion)"""
    meth = fj.PYMETH.get(m, "derivative")
    ss_j = [jnp.asarray(s, float) for s in ss]
    vs_j = [jnp.asarray(v, float) for v in vs]

    def f(x, ss, vs, comp):
        if cls == "LeakyTanh":
            b = B.LeakyTanh(static)
        elif cls == "RQS":
            b0 = B.RationalQuadraticSpline(knots=len(vs[0]) - 2, interval=static)
            b = eqx.tree_at(lambda t: (t.x_pos, t.y_pos, t.derivatives), b0, (vs[0], vs[1], vs[2]))
            if m == "d":
                return b.derivative(x)
        else:
            b = build(cls, ss, vs)
        r = getattr(b, meth)(x)
        return r[comp] if isinstance(r, tuple) else r

    ncomp = 2 if m in ("tl", "il") else 1
    out = []
    for comp in range(ncomp):
        val = f(jnp.asarray(x, float), ss_j, vs_j, comp)
        g = jax.grad(f, argnums=(0, 1, 2))(jnp.asarray(x, float), ss_j, vs_j, comp)
        out.append((float(val), float(g[0]), [float(v) for v in g[1]], [[float(e) for e in v] for v in g[2]]))
    return out


def parse_model(got, nss, nvs):
    comps = []
    for part in got.split(" | "):
        t = [u for u in part.split(" ") if u != ""]
        val, dx = b2f(t[0]), b2f(t[1])
        dss = b2fs(t[2])
        dvs = [b2fs(v) for v in t[3:]]
        comps.append((val, dx, dss, dvs))
    return comps


def cases(rng, tier):
    """yield (cls, method list, x list, scalars (model order), vectors, static, differentiable scalar idxs, nondefault)"""
    nrep = 6 if tier == "quick" else 40
    for _ in range(nrep):
        loc, sc = rng.uniform(-3, 3), rng.choice([-1, 1]) * math.exp(rng.uniform(-2, 2))
        yield "Affine", ["t", "i", "tl", "il"], [0.0, -loc / sc, 1e4, -1e4] + fj.generic_inputs(rng, 3), [loc, sc], [], None, [0, 1], True
        yield "Loc", ["t", "i", "tl", "il"], fj.generic_inputs(rng, 2), [loc], [], None, [0], True
        yield "Scale", ["t", "i", "tl", "il"], [0.0] + fj.generic_inputs(rng, 2), [sc], [], None, [0], True
        yield "Exp", ["t", "tl"], [0.0, 1.0, -30.0, 30.0] + fj.generic_inputs(rng, 2), [], [], None, [], False
        yield "Exp", ["i", "il"], [1.0, 1e-8, 1e4, 0.5, math.exp(rng.uniform(-3, 3))], [], [], None, [], False
        yield "SoftPlus", ["t", "tl"], [0.0, 30.0, -30.0, 1e-8] + fj.generic_inputs(rng, 2), [], [], None, [], False
        yield "SoftPlus", ["i", "il"], [1.0, 1e-6, 30.0, math.exp(rng.uniform(-3, 3))], [], [], None, [], False
        yield "Tanh", ["t", "tl"], [0.0, 1.0, -1.0, 5.0, -5.0] + fj.generic_inputs(rng, 2), [], [], None, [], False
        yield "Tanh", ["i", "il"], [0.0, 0.5, -0.5, 0.999, -0.999, rng.uniform(-0.99, 0.99)], [], [], None, [], False
        m = rng.choice([0.5, 1.0, 3.0, rng.uniform(0.2, 4)])
        lk = B.LeakyTanh(m)
        yield "LeakyTanh", ["t", "i", "tl", "il"], fj.leaky_boundary_inputs(m, rng, 3), [lk.max_val, lk.intercept, lk.linear_grad], [], m, [], True
        knots = rng.choice([1, 2, 3, 5])
        iv = rng.choice([1, 2.0, (-1.0, 3.0), (0.5, 2.5), (-3.0, -1.0), (1.0, 3.0)])
        s = fj.rqs(rng, knots, iv, perturb=rng.choice([0.0, 1.0, 3.0]))
        lo, hi, xs, ys, ds = fj.rqs_params(s)
        yield "RQS", ["t", "i", "d", "tl", "il"], fj.rqs_boundary_inputs(s, rng, 3), [lo, hi], [xs, ys, ds], (lo, hi), [], True


def corr(c, tier, rng):
    corr_leaves(c, tier, rng)
    corr_families(c, tier, rng)
    corr_planar(c, tier, rng)
    corr_mixture(c, tier, rng)
    corr_nets(c, tier, rng)
    corr_spline_nets(c, tier, rng)
    corr_mvn(c, tier, rng)


def cmp_pairs(c, name, pairs, **info):
    ok = True
    for q, a, b in pairs:
        if not vlib.close(a, b, **TOL):
            ok = False
            c.mismatch(name, quantity=q, model=a, impl=b, model_class=vlib.fclass(a), impl_class=vlib.fclass(b), **info)
    return ok


# ------------------------------------------------------------------ distribution families (Gen/DistAst.lean + Model/AdFamilies.lean)
import flowjax.distributions as D

FAMILIES = ["Normal", "Uniform", "Gumbel", "Cauchy", "Laplace", "Logistic", "StudentT", "Exponential", "LogNormal",
            "StandardNormal", "StandardUniform", "StandardGumbel", "StandardCauchy", "StandardLaplace", "StandardLogistic",
            "StandardExponential", "StandardStudentT"]
# which of the model's leaf slots (loc, raw scale, raw df) a family has, in the order `fam_build`'s getter returns them
FAM_SLOTS = {"Normal": [0, 1], "Gumbel": [0, 1], "Cauchy": [0, 1], "Laplace": [0, 1], "Logistic": [0, 1], "LogNormal": [0, 1], "Uniform": [0, 1],
             "StudentT": [0, 1, 2], "Exponential": [1], "StandardStudentT": [2]}


def softplus(w):
    return math.log1p(math.exp(w)) if w < 30 else w + math.log1p(math.exp(-w))


def inv_softplus(s):
    return math.log(math.expm1(s)) if s < 30 else s + math.log1p(-math.exp(-s))


def fam_build(fam, loc, raw, rawdf):
    """the real object with its trainable leaves set to the given values; returns (object, getter of the leaves)"""
    if fam in ("Normal", "Gumbel", "Cauchy", "Laplace", "Logistic"):
        d, get = getattr(D, fam)(0.0, 1.0), (lambda t: (t.bijection.loc, t.bijection.scale.arr))
        return eqx.tree_at(get, d, (jnp.asarray(loc), jnp.asarray(raw))), get
    if fam == "LogNormal":
        d, get = D.LogNormal(0.0, 1.0), (lambda t: (t.bijection.bijections[0].loc, t.bijection.bijections[0].scale.arr))
        return eqx.tree_at(get, d, (jnp.asarray(loc), jnp.asarray(raw))), get
    if fam == "Uniform":
        d, get = D.Uniform(0.0, 1.0), (lambda t: (t.bijection.loc, t.bijection.scale.arr))
        return eqx.tree_at(get, d, (jnp.asarray(loc), jnp.asarray(raw))), get
    if fam == "StudentT":
        d, get = D.StudentT(2.0, 0.0, 1.0), (lambda t: (t.bijection.loc, t.bijection.scale.arr, t.base_dist.df.arr))
        return eqx.tree_at(get, d, (jnp.asarray(loc), jnp.asarray(raw), jnp.asarray(rawdf))), get
    if fam == "Exponential":
        d, get = D.Exponential(1.0), (lambda t: (t.bijection.scale.arr,))
        return eqx.tree_at(get, d, (jnp.asarray(raw),)), get
    if fam == "StandardStudentT":
        d, get = D._StandardStudentT(2.0), (lambda t: (t.df.arr,))
        return eqx.tree_at(get, d, (jnp.asarray(rawdf),)), get
    cls = {"StandardNormal": D.StandardNormal, "StandardUniform": D._StandardUniform, "StandardGumbel": D._StandardGumbel,
           "StandardCauchy": D._StandardCauchy, "StandardLaplace": D._StandardLaplace, "StandardLogistic": D._StandardLogistic,
           "StandardExponential": D._StandardExponential}[fam]
    return cls(), (lambda t: ())


_FAM_JIT = {}


def fam_real(fam, mode, x, loc, raw, rawdf):
    d, get = fam_build(fam, loc, raw, rawdf)
    leaves = tuple(jnp.asarray(l, float) for l in get(d))
    if (fam, mode) not in _FAM_JIT:
        def f(x, leaves):
            dd = eqx.tree_at(get, d, leaves) if leaves else d
            return dd.log_prob(x) if mode == "pub" else unwrap(dd)._log_prob(x)
        _FAM_JIT[(fam, mode)] = jax.jit(jax.value_and_grad(f, argnums=(0, 1)))
    v, (gx, gl) = _FAM_JIT[(fam, mode)](jnp.asarray(x, float), leaves)
    return float(v), float(gx), [float(l) for l in gl]


def fam_inputs(fam, loc, raw, rng, n):
    s = softplus(raw)
    if fam.startswith("Standard"):
        pts = [0.0, 1.0, -1.0, 0.5]
        for v in (0.0, 1.0):
            pts += fj.nextafter_set(v)
    elif fam == "Exponential":
        pts = [0.0, s, 1.0, -1.0] + fj.nextafter_set(0.0)
    elif fam == "LogNormal":
        pts = [0.0, 1.0, math.exp(loc) if abs(loc) < 300 else 1.0, -1.0, 1e-300]
    else:
        pts = [loc, loc + s, loc + s / 2, loc - s, 0.0, 1.0]
        for v in (loc, loc + s):
            pts += fj.nextafter_set(v)
    pts += [1e3, -1e3, 1e10, -1e10, 1e100, -1e100, 1e300, -1e300]
    pts += [loc + s * rng.uniform(-3, 3) for _ in range(n)]
    # denormals are excluded from gradient-class comparisons (XLA flushes them)
    return [float(v) for v in dict.fromkeys(pts) if v == 0.0 or abs(v) > 1e-300 or fam == "LogNormal" and v == 1e-300]


def corr_families(c, tier, rng):
    nrep = 2 if tier == "quick" else 8
    psets = [(0.0, inv_softplus(1.0), inv_softplus(2.0)), (1.5, -2.0, 3.0), (-3.0, 4.0, -1.0), (0.25, 40.0, 50.0), (1e3, -20.0, -20.0)]
    psets += [(rng.uniform(-5, 5), rng.uniform(-6, 6), rng.uniform(-6, 6)) for _ in range(nrep)]
    lines, metas = [], []
    for fam in FAMILIES:
        for k, (loc, raw, rawdf) in enumerate(psets):
            if fam.startswith("Standard") and fam != "StandardStudentT" and k > 0:
                continue
            for x in fam_inputs(fam, loc, raw, rng, 2 if tier == "quick" else 6):
                for mode in ("priv", "pub"):
                    lines.append(f"adfam {fam} {mode} {f2b(x)} {f2b(loc)} {f2b(raw)} {f2b(rawdf)}")
                    metas.append((fam, mode, x, loc, raw, rawdf, k > 0))
        c.count("family:" + fam)
    outs = vlib.run_model(lines)
    for i, (line, got, (fam, mode, x, loc, raw, rawdf, nd)) in enumerate(zip(lines, outs, metas)):
        if got.startswith("ERR"):
            c.mismatch("family-ast-vs-jax.grad", op=line, model=got)
            continue
        t = [b2f(u) for u in got.split()]
        if fam == "Uniform" and abs((x - loc) / softplus(raw) - 1.0) < 1e-14 and x != loc:
            # x within a few ulps of loc + softplus(raw): which side of the closed support it falls on depends on the last bit of
            # softplus (libm here, XLA there) — the recorded C05 finding `Uniform.log_prob|x == maxval`; z == 1 exactly is proved
            c.count("skipped:ulp-neighbour of Uniform's upper end")
            continue
        try:
            v, gx, gl = fam_real(fam, mode, x, loc, raw, rawdf)
        except Exception as ex:
            c.mismatch("family-ast-vs-jax.grad", op=line, impl="EXC:" + repr(ex)[:200])
            continue
        pairs = [("value", t[0], v)]
        if math.isfinite(v):
            pairs += [("dx", t[1], gx)] + [(f"dleaf{k}", t[2 + k], g) for k, g in zip(FAM_SLOTS.get(fam, []), gl)]
            c.count("family:finite-value (adjoints compared)")
        else:
            c.count("family:non-finite value (value class compared only)")
        cmp_pairs(c, "family-ast-vs-jax.grad", pairs, family=fam, mode=mode, x=x, loc=loc, raw_scale=raw, raw_df=rawdf)
        c.case(("family", fam, mode, x, loc, raw, rawdf), nd or not fam.startswith("Standard"), sample={"op": line, "model": got} if i % 400 == 0 else None)


# ------------------------------------------------------------------ planar (Gen/VecAst.lean)
from flowjax.bijections.planar import _UnconditionalPlanar


_PL_JIT = {}


def planar_real(act, m, x, w, u, b, slope):
    key = (act, m, len(w), slope)
    if key not in _PL_JIT:
        def f(x, w, u, b):
            p = _UnconditionalPlanar(w, u, b, negative_slope=(slope if act == "lrelu" else None))
            y, ld = p.transform_and_log_det(x) if m == "tl" else p.inverse_and_log_det(x)
            return jnp.concatenate([y, ld[None]])
        _PL_JIT[key] = (jax.jit(f), jax.jit(jax.jacrev(f, argnums=(0, 1, 2, 3))))
    f, jf = _PL_JIT[key]
    args = (jnp.asarray(x, float), jnp.asarray(w, float), jnp.asarray(u, float), jnp.asarray(b, float))
    return np.asarray(f(*args)), [np.asarray(j) for j in jf(*args)]


def planar_cases(rng, tier):
    nrep = 2 if tier == "quick" else 8
    for d in (1, 2, 3, 5):
        for rep in range(nrep):
            w = [rng.uniform(-2, 2) for _ in range(d)]
            u = [rng.uniform(-3, 3) * rng.choice([1, 10]) for _ in range(d)]  # far from the 0.01 N(0,1) initialisation
            if sum(a * c for a, c in zip(w, u)) < -3:
                # w.u << 0 makes 1 + w.u_hat = log(1 + softplus(w.u)) cancel (and, below -36.7, absorb: the recorded C11 finding
                # `planar.get_act_scale|float-absorption`); there the comparison measures rounding, not the rules
                u = [-c for c in u]
            b = rng.uniform(-1, 1)
            for x in ([rng.uniform(-3, 3) for _ in range(d)], [0.0] * d, [1e3] * d, [-1e6] * d, [1e150] * d):
                yield d, x, w, u, b, False
        # pre-activation EXACTLY zero with dyadic data (every partial sum is exact in any order): the leaky-relu kink
        w = [rng.choice([-2.0, -1.0, -0.5, 0.5, 1.0, 2.0]) for _ in range(d)]
        x = [rng.choice([-1.5, -0.5, 0.25, 1.0, 2.0]) for _ in range(d)]
        b = -sum(a * c for a, c in zip(w, x))
        yield d, x, w, [rng.choice([-3.0, 0.5, 4.0]) for _ in range(d)], b, True
    yield 2, [0.3, 0.2], [0.0, 0.0], [0.5, -0.5], 0.1, True  # w = 0: get_act_scale divides by 0


def corr_planar(c, tier, rng):
    cases = []
    for d, x, w, u, b, tie in planar_cases(rng, tier):
        cases.append(("tanh", "tl", x, w, u, b, 0.0, tie))
        for slope in (0.1, 0.5, 1.0):
            cases.append(("lrelu", "tl", x, w, u, b, slope, tie))
            cases.append(("lrelu", "il", x, w, u, b, slope, tie))
    lines = [f"adplanar {act} {m} {fs2b(x)} {fs2b(w)} {fs2b(u)} {f2b(b)} {f2b(slope)}" for act, m, x, w, u, b, slope, _ in cases]
    outs = vlib.run_model(lines)
    for i, (case, line, got) in enumerate(zip(cases, lines, outs)):
        act, m, x, w, u, b, slope, tie = case
        if got.startswith("ERR"):
            c.mismatch("planar-ast-vs-jax.jacrev", op=line[:300], model=got)
            continue
        val, (jx, jw, ju, jb) = planar_real(act, m, x, w, u, b, slope)
        allfinite = bool(np.all(np.isfinite(val)))
        c.count("planar:" + ("all outputs finite (Jacobians compared)" if allfinite else "non-finite output (value classes compared only)"))
        for k, part in enumerate(got.split(" | ")):
            t = part.split()
            pairs = [("value", b2f(t[0]), float(val[k]))]
            if allfinite:
                mds, mdw, mdu, mdx = b2fs(t[1]), b2fs(t[2]), b2fs(t[3]), b2fs(t[4])
                pairs += [("dbias", mds[0], float(jb[k]))]
                pairs += [(f"dw{j}", mdw[j], float(jw[k][j])) for j in range(len(w))]
                pairs += [(f"du{j}", mdu[j], float(ju[k][j])) for j in range(len(w))]
                pairs += [(f"dx{j}", mdx[j], float(jx[k][j])) for j in range(len(w))]
            cmp_pairs(c, "planar-ast-vs-jax.jacrev", pairs, activation=act, method=m, output=k, x=x, w=w, u=u, b=b, slope=slope)
        c.case(("planar", act, m, tuple(x), tuple(w), tuple(u), b, slope), True, sample={"op": line[:200], "model": got[:200]} if i % 100 == 0 else None)


# ------------------------------------------------------------------ mixtures (Gen/VecAst.lean + Vec.logsumexp / Vec.logSoftmax)
_MIX_JIT = []


def mix_real(ws, lps):
    from jax.nn import log_softmax
    from jax.scipy.special import logsumexp
    if not _MIX_JIT:
        _MIX_JIT.append(jax.jit(jax.value_and_grad(lambda w, l: logsumexp(l + log_softmax(w)), argnums=(0, 1))))
    v, (gw, gl) = _MIX_JIT[0](jnp.asarray(ws, float), jnp.asarray(lps, float))
    return float(v), np.asarray(gw).tolist(), np.asarray(gl).tolist()


def corr_mixture(c, tier, rng):
    inf, nan = math.inf, math.nan
    cases = []
    for k in (1, 2, 3, 5):
        for _ in range(3 if tier == "quick" else 12):
            ws = [rng.uniform(-3, 3) * rng.choice([1, 30]) for _ in range(k)]
            for lps in ([rng.uniform(-5, 2) for _ in range(k)], [0.0] * k, [-1e3] * k, [-1e300] * k, [1e3] + [-1e3] * (k - 1), [2.0] * k,
                        [-inf] * k, [-inf] + [0.5] * (k - 1), [inf] + [0.0] * (k - 1), [nan] + [0.0] * (k - 1)):
                cases.append((ws, lps))
        cases.append(([700.0] + [-700.0] * (k - 1), [0.1] * k))
        cases.append(([5.0] * k, [rng.choice([-1.0, 0.25])] * k))  # tied maxima in log_softmax and in logsumexp
    lines = [f"admix {fs2b(w)} {fs2b(l)}" for w, l in cases]
    outs = vlib.run_model(lines)
    for i, ((w, l), line, got) in enumerate(zip(cases, lines, outs)):
        if got.startswith("ERR"):
            c.mismatch("mixture-ast-vs-jax.grad", op=line[:300], model=got)
            continue
        t = got.split()
        v, gw, gl = mix_real(w, l)
        pairs = [("value", b2f(t[0]), v)]
        if math.isfinite(v):
            pairs += [(f"dw{j}", a, b) for j, (a, b) in enumerate(zip(b2fs(t[2]), gw))] + [(f"dlp{j}", a, b) for j, (a, b) in enumerate(zip(b2fs(t[3]), gl))]
        c.count("mixture:" + ("finite" if math.isfinite(v) else vlib.fclass(v)))
        cmp_pairs(c, "mixture-ast-vs-jax.grad", pairs, weights=w, log_probs=l)
        c.case(("mixture", tuple(w), tuple(map(str, l))), True, sample={"op": line[:200], "model": got[:200]} if i % 60 == 0 else None)
    # the wiring `logsumexp(log_probs + log_softmax(stored))` against the real VmapMixture object (public and private value)
    for _ in range(3 if tier == "quick" else 10):
        k = rng.choice([1, 2, 4])
        locs = [rng.uniform(-3, 3) for _ in range(k)]
        weights = [math.exp(rng.uniform(-3, 3)) for _ in range(k)]
        mix = D.VmapMixture(eqx.filter_vmap(D.Normal)(jnp.asarray(locs)), jnp.asarray(weights))
        for x in (0.0, locs[0], 1e3, -1e10):
            comp = [float(D.Normal(lc).log_prob(x)) for lc in locs]
            got = vlib.run_model([f"admix {fs2b([math.log(wt) for wt in weights])} {fs2b(comp)}"])[0]
            real_v = float(unwrap(mix)._log_prob(jnp.asarray(x)))
            cmp_pairs(c, "mixture-object-vs-ast", [("value", b2f(got.split()[0]), real_v)], x=x, locs=locs, weights=weights)
            c.case(("mixture-object", x, tuple(locs), tuple(weights)), True)


# ------------------------------------------------------------------ conditioner networks, coupling, MAF (Model/AdNet.lean)
from flowjax.flows import _affine_with_min_scale


def net_perturb(tree, rng, scale):
    leaves, td = jax.tree_util.tree_flatten(tree)
    new = [jnp.asarray(np.asarray(l) + scale * np.array([rng.gauss(0, 1) for _ in range(np.asarray(l).size)]).reshape(np.asarray(l).shape))
           if eqx.is_inexact_array(l) else l for l in leaves]
    return jax.tree_util.tree_unflatten(td, new)


def net_mlp(b):
    return b.conditioner if isinstance(b, B.Coupling) else b.masked_autoregressive_mlp


def net_layers(b):
    out = []
    for lin in net_mlp(b).layers:
        w = lin.weight
        if hasattr(w, "cond"):  # wrappers.Where(mask, w, 0)
            out.append((np.asarray(w.if_true), np.asarray(w.cond), np.asarray(lin.bias)))
        else:
            out.append((np.asarray(w), None, np.asarray(lin.bias)))
    return out


def net_set(b, ws, bs):
    def get(t):
        ls = net_mlp(t).layers
        return tuple((l.weight.if_true if hasattr(l.weight, "cond") else l.weight) for l in ls) + tuple(l.bias for l in ls)
    return eqx.tree_at(get, b, tuple(jnp.asarray(a) for a in ws) + tuple(jnp.asarray(a) for a in bs))


_NET_JIT = {}


def net_real(b, kind, x, tag):
    arrs = net_layers(b)
    if (tag, kind) not in _NET_JIT:
        def f(x, ws, bs):
            bb = net_set(b, ws, bs)
            y, ld = bb.inverse_and_log_det(x) if kind.endswith("_i") else bb.transform_and_log_det(x)
            return jnp.concatenate([y, ld[None]])
        _NET_JIT[(tag, kind)] = (jax.jit(f), jax.jit(jax.jacrev(f, argnums=(0, 1, 2))))
    f, jf = _NET_JIT[(tag, kind)]
    args = (jnp.asarray(x, float), [jnp.asarray(a[0]) for a in arrs], [jnp.asarray(a[2]) for a in arrs])
    return np.asarray(f(*args)), jf(*args)


def net_line(b, kind, act, u, x, ms, il, ir):
    parts = []
    for w, m, bi in net_layers(b):
        parts += [fs2b(w.reshape(-1)), fs2b(m.reshape(-1).astype(float)) if m is not None else "-", fs2b(bi)]
    return f"adnet {kind} {act} {u} {fs2b(x)} {f2b(ms)} {f2b(il)} {f2b(ir)} " + " ".join(parts)


def corr_nets(c, tier, rng):
    ms = 1e-2
    il, ir = 0.0, float(np.asarray(_affine_with_min_scale(ms).scale.arr))
    shapes = [(2, 1, 3, 1), (3, 1, 4, 2), (4, 2, 5, 1), (3, 2, 2, 0)] if tier == "quick" else [(2, 1, 3, 1), (3, 1, 4, 2), (4, 2, 5, 1), (3, 2, 2, 0), (5, 2, 6, 2), (2, 1, 1, 3)]
    jobs = []
    for dim, u, width, depth in shapes:
        for act, actf in (("relu", jax.nn.relu), ("tanh", jnp.tanh)):
            cp = net_perturb(B.Coupling(jr.key(rng.randrange(1000)), transformer=_affine_with_min_scale(ms), untransformed_dim=u, dim=dim,
                                        nn_width=width, nn_depth=depth, nn_activation=actf), rng, rng.choice([0.3, 1.5]))
            maf = net_perturb(B.MaskedAutoregressive(jr.key(rng.randrange(1000)), transformer=_affine_with_min_scale(ms), dim=dim,
                                                     nn_width=max(width, dim), nn_depth=max(depth, 1), nn_activation=actf), rng, rng.choice([0.3, 1.5]))
            # all biases 0 and input 0: every relu pre-activation is EXACTLY 0 (jax.nn.relu's rule gives derivative 0 there)
            cp0 = net_set(cp, [a[0] for a in net_layers(cp)], [np.zeros_like(a[2]) for a in net_layers(cp)])
            tag = (dim, u, width, depth, act)
            for x in ([rng.uniform(-2, 2) for _ in range(dim)], [0.0] * dim, [1e3] * dim, [-1e6] * dim, [1.0] + [0.0] * (dim - 1)):
                jobs += [(cp, "coupling_t", act, u, x, tag), (cp, "coupling_i", act, u, x, tag), (maf, "maf_t", act, 0, x, tag)]
            jobs += [(cp0, "coupling_t", act, u, [0.0] * dim, tag), (cp0, "coupling_i", act, u, [0.0] * dim, tag)]
    lines = [net_line(b, kind, act, u, x, ms, il, ir) for b, kind, act, u, x, _ in jobs]
    outs = vlib.run_model(lines)
    for i, ((b, kind, act, u, x, tag), line, got) in enumerate(zip(jobs, lines, outs)):
        if got.startswith("ERR"):
            c.mismatch("network-ast-vs-jax.jacrev", op=line[:300], model=got)
            continue
        val, (jx, jw, jb) = net_real(b, kind, x, tag)
        allfinite = bool(np.all(np.isfinite(val)))
        c.count("network:" + kind + ":" + act)
        for k, part in enumerate(got.split(" | ")):
            t = part.split()
            pairs = [("value", b2f(t[0]), float(val[k]))]
            if allfinite:
                pairs += [(f"dx{j}", a, float(jx[k][j])) for j, a in enumerate(b2fs(t[2]))]
                for l in range(len(jw)):
                    pairs += [(f"dW{l}[{j}]", a, float(np.asarray(jw[l][k]).reshape(-1)[j])) for j, a in enumerate(b2fs(t[3 + 2 * l]))]
                    pairs += [(f"db{l}[{j}]", a, float(np.asarray(jb[l][k])[j])) for j, a in enumerate(b2fs(t[4 + 2 * l]))]
            cmp_pairs(c, "network-ast-vs-jax.jacrev", pairs, kind=kind, activation=act, output=k, x=x)
        c.case(("network", kind, act, tuple(x), i), True, sample={"op": line[:200], "model": got[:200]} if i % 80 == 0 else None)


# ------------------------------------------------------------------ coupling / MAF with the rational-quadratic-spline transformer
from flowjax.bijections.rational_quadratic_spline import RationalQuadraticSpline as _RQS
from flowjax.utils import get_ravelled_pytree_constructor as _ravel_ctor

_SNET_JIT = {}


def snet_real(b, kind, x, cond, tag):
    arrs = net_layers(b)
    if (tag, kind) not in _SNET_JIT:
        def f(x, cond, ws, bs):
            bb = net_set(b, ws, bs)
            cc = cond if cond.shape[0] else None
            y, ld = bb.inverse_and_log_det(x, cc) if kind.endswith("_i") else bb.transform_and_log_det(x, cc)
            return jnp.concatenate([y, ld[None]])
        _SNET_JIT[(tag, kind)] = (jax.jit(f), jax.jit(jax.jacrev(f, argnums=(0, 1, 2, 3))))
    f, jf = _SNET_JIT[(tag, kind)]
    args = (jnp.asarray(x, float), jnp.asarray(cond, float), [jnp.asarray(a[0]) for a in arrs], [jnp.asarray(a[2]) for a in arrs])
    return np.asarray(f(*args)), jf(*args)


def snet_line(b, kind, act, u, x, cond, tr, init):
    parts = []
    for w, m, bi in net_layers(b):
        parts += [fs2b(w.reshape(-1)), fs2b(m.reshape(-1).astype(float)) if m is not None else "-", fs2b(bi)]
    lo, hi = tr.interval
    return (f"adspline {kind} {act} {u} {fs2b(x)} {fs2b(cond)} {tr.knots} {f2b(float(lo))} {f2b(float(hi))} {f2b(float(tr.softmax_adjust))} "
            f"{f2b(float(tr.min_derivative))} {fs2b(init)} " + " ".join(parts))


def snet_knots(b, kind, x, cond, u):
    """x-knots (forward) / y-knots (inverse) the real layer uses for every transformed dimension at this input"""
    cc = jnp.asarray(cond, float) if len(cond) else None
    xin = jnp.asarray(x, float)
    if isinstance(b, B.Coupling):
        nn_in = xin[:u] if cc is None else jnp.hstack((xin[:u], cc))
        tr = unwrap(b._flat_params_to_transformer(b.conditioner(nn_in)))
    else:
        nn_in = xin if cc is None else jnp.hstack((xin, cc))
        tr = unwrap(b._flat_params_to_transformer(unwrap(b.masked_autoregressive_mlp)(nn_in)))
    inner = tr.bijection
    return np.asarray(inner.y_pos if kind.endswith("_i") else inner.x_pos)


def corr_spline_nets(c, tier, rng):
    # (dim, untransformed, width, depth, cond_dim, knots, interval, min_derivative, softmax_adjust)
    shapes = [(2, 1, 3, 1, 0, 3, (-2, 2), 1e-3, 1e-2), (3, 1, 3, 1, 2, 2, (1.0, 3.0), 0.05, 0.5), (3, 2, 2, 0, 0, 1, (-1, 1), 1e-3, 0.0)]
    if tier != "quick":
        shapes += [(4, 2, 4, 2, 1, 4, (-3, 3), 1e-3, 1e-2), (2, 1, 1, 2, 0, 5, (-0.5, 4.0), 0.2, 1.0)]
    jobs = []
    for dim, u, width, depth, cd, K, iv, md, adj in shapes:
        for act, actf in (("relu", jax.nn.relu), ("tanh", jnp.tanh)):
            tr = net_perturb(_RQS(knots=K, interval=iv, min_derivative=md, softmax_adjust=adj), rng, rng.choice([0.0, 0.7]))
            init = [float(v) for v in np.asarray(jax.flatten_util.ravel_pytree(eqx.filter(tr, eqx.is_inexact_array))[0])]
            assert len(init) == 3 * K + 2
            kw = dict(cond_dim=cd) if cd else {}
            cp = net_perturb(B.Coupling(jr.key(rng.randrange(1000)), transformer=tr, untransformed_dim=u, dim=dim, nn_width=width,
                                        nn_depth=depth, nn_activation=actf, **kw), rng, rng.choice([0.3, 1.2]))
            maf = net_perturb(B.MaskedAutoregressive(jr.key(rng.randrange(1000)), transformer=tr, dim=dim, nn_width=max(width, dim),
                                                     nn_depth=max(depth, 1), nn_activation=actf, **kw), rng, rng.choice([0.3, 1.2]))
            cp0 = net_set(cp, [a[0] for a in net_layers(cp)], [np.zeros_like(a[2]) for a in net_layers(cp)])
            lo, hi = float(iv[0]), float(iv[1])
            tag = (dim, u, width, depth, cd, K, iv, act)
            cond = [rng.uniform(-1, 1) for _ in range(cd)]
            mid = [rng.uniform(lo, hi) for _ in range(dim)]
            pts = [mid, [lo] * dim, [hi] * dim, [lo - 1.5] * dim, [hi + 2.0] * dim, [np.nextafter(lo, -np.inf)] * dim, [np.nextafter(hi, np.inf)] * dim,
                   [0.0] * dim, [lo] + [hi] * (dim - 1), [1e6] * dim]
            for b, kinds, uu in ((cp, ("coupling_t", "coupling_i"), u), (maf, ("maf_t",), 0)):
                for kind in kinds:
                    for x in pts:
                        jobs.append((b, kind, act, uu, list(map(float, x)), cond, tr, init, tag, "grid"))
                    # just beside interior knots of the bins this very input selects (exact ties on computed knots would depend on the last
                    # bit of softmax/cumsum; the interval ends above ARE exact: they are padded constants)
                    base = list(mid)
                    for side in (-1e-9, 1e-9):
                        x = list(base)
                        for rep in range(2):  # MAF: knots of dimension i depend on x[:i]; one refinement pass
                            kn = snet_knots(b, kind, x, cond, uu)
                            for i in range(kn.shape[0]):
                                j = 1 + (i % max(1, kn.shape[1] - 2))
                                x[uu + i] = float(kn[i][j]) + side
                        jobs.append((b, kind, act, uu, x, cond, tr, init, tag, "knot"))
            if cd == 0:
                jobs += [(cp0, "coupling_t", act, u, [0.0] * dim, [], tr, init, tag, "relu0"), (cp0, "coupling_i", act, u, [0.0] * dim, [], tr, init, tag, "relu0")]
    lines = [snet_line(b, kind, act, u, x, cond, tr, init) for b, kind, act, u, x, cond, tr, init, _, _ in jobs]
    outs = vlib.run_model(lines)
    for i, ((b, kind, act, u, x, cond, tr, init, tag, what), line, got) in enumerate(zip(jobs, lines, outs)):
        if got.startswith("ERR"):
            c.mismatch("spline-network-ast-vs-jax.jacrev", op=line[:300], model=got)
            continue
        val, (jx, jc, jw, jb) = snet_real(b, kind, x, cond, tag)
        allfinite = bool(np.all(np.isfinite(val)))
        # inverse direction with an input EXACTLY on a knot / interval end: the computed pre-image lands within an ulp of a knot, where
        # `clip`'s tie rule and the bin looked up by `derivative(x)` (second derivative jumps there) depend on the last bit —
        # there the adjoints are compared by special-value class only (finite vs finite), values numerically
        tie = False
        if kind.endswith("_i"):
            kn = snet_knots(b, kind, x, cond, u)
            tie = any(float(x[u + i]) in set(map(float, kn[i])) for i in range(kn.shape[0]))
        c.count("spline-network:" + kind + ":" + act + ":" + what + (":tie-class-only" if tie else ""))
        for k, part in enumerate(got.split(" | ")):
            t = part.split()
            pairs = [("value", b2f(t[0]), float(val[k]))]
            if allfinite:
                pairs += [(f"dx{j}", a, float(jx[k][j])) for j, a in enumerate(b2fs(t[2]))]
                pairs += [(f"dcond{j}", a, float(jc[k][j])) for j, a in enumerate(b2fs(t[3]))]
                for l in range(len(jw)):
                    pairs += [(f"dW{l}[{j}]", a, float(np.asarray(jw[l][k]).reshape(-1)[j])) for j, a in enumerate(b2fs(t[4 + 2 * l]))]
                    pairs += [(f"db{l}[{j}]", a, float(np.asarray(jb[l][k])[j])) for j, a in enumerate(b2fs(t[5 + 2 * l]))]
            if tie:
                for q, a_, b_ in pairs[1:]:
                    if vlib.fclass(a_) != vlib.fclass(b_):
                        c.mismatch("spline-network-ast-vs-jax.jacrev", quantity=q, model=a_, impl=b_, model_class=vlib.fclass(a_), impl_class=vlib.fclass(b_),
                                   kind=kind, activation=act, output=k, x=x, what=what + ":class")
                pairs = pairs[:1]
            cmp_pairs(c, "spline-network-ast-vs-jax.jacrev", pairs, kind=kind, activation=act, output=k, x=x, what=what)
        c.case(("spline-network", kind, act, tuple(x), i), True, sample={"op": line[:200], "model": got[:200]} if i % 80 == 0 else None)


# ------------------------------------------------------------------ MultivariateNormal / TriangularAffine (Gen/TriAst.lean + Model/AdMvn.lean)
_MVN_JIT = {}


def mvn_build(loc, raw, arr):
    n = len(loc)
    d = D.MultivariateNormal(jnp.zeros(n), jnp.eye(n))
    get = lambda t: (t.bijection.loc, t.bijection.triangular.kwargs["diag"].arr, t.bijection.triangular.kwargs["arr"])
    return eqx.tree_at(get, d, (jnp.asarray(loc, float), jnp.asarray(raw, float), jnp.asarray(arr, float).reshape(n, n)))


def mvn_real(mode, x, loc, raw, arr):
    n = len(x)
    if (mode, n) not in _MVN_JIT:
        def f(x, loc, raw, arr):
            d = mvn_build(loc, raw, arr)
            if mode == "lp":
                return d._log_prob(x)[None]
            b = unwrap(d.bijection)
            y, ld = b.inverse_and_log_det(x) if mode == "il" else b.transform_and_log_det(x)
            return jnp.concatenate([y, ld[None]])
        _MVN_JIT[(mode, n)] = (jax.jit(f), jax.jit(jax.jacrev(f, argnums=(0, 1, 2, 3))))
    f, jf = _MVN_JIT[(mode, n)]
    args = (jnp.asarray(x, float), jnp.asarray(loc, float), jnp.asarray(raw, float), jnp.asarray(arr, float).reshape(n, n))
    return np.asarray(f(*args)), jf(*args)


def corr_mvn(c, tier, rng):
    jobs = []
    for n in (1, 2, 3) if tier == "quick" else (1, 2, 3, 4, 5):
        for rep in range(3 if tier == "quick" else 6):
            loc = [rng.uniform(-3, 3) for _ in range(n)]
            raw = [rng.choice([-20.0, -3.0, 0.0, 0.5413248546129181, 5.0, 40.0]) if rep else rng.uniform(-2, 2) for _ in range(n)]
            arr = [rng.choice([0.0, -1.5, 2.0, 1e3]) if rep == 1 else rng.uniform(-2, 2) for _ in range(n * n)]
            xs = [[rng.uniform(-3, 3) for _ in range(n)], list(loc), [0.0] * n, [1e6] * n, [-1e3] + [2.0] * (n - 1)]
            for x in xs:
                for mode in ("lp", "il", "tl"):
                    jobs.append((mode, x, loc, raw, arr))
    lines = [f"admvn {m} {fs2b(x)} {fs2b(loc)} {fs2b(raw)} {fs2b(arr)}" for m, x, loc, raw, arr in jobs]
    outs = vlib.run_model(lines)
    for i, ((mode, x, loc, raw, arr), line, got) in enumerate(zip(jobs, lines, outs)):
        if got.startswith("ERR"):
            c.mismatch("mvn-ast-vs-jax.jacrev", op=line[:300], model=got)
            continue
        val, js = mvn_real(mode, x, loc, raw, arr)
        allfinite = bool(np.all(np.isfinite(val)))
        n = len(x)
        c.count(f"mvn:{mode}:n={n}")
        for k, part in enumerate(got.split(" | ")):
            t = part.split()
            pairs = [("value", b2f(t[0]), float(val[k]))]
            if allfinite:
                for nm, col, J in (("dx", 2, js[0]), ("dloc", 3, js[1]), ("draw_diag", 4, js[2]), ("darr", 5, js[3])):
                    pairs += [(f"{nm}[{j}]", a, float(np.asarray(J[k]).reshape(-1)[j])) for j, a in enumerate(b2fs(t[col]))]
            cmp_pairs(c, "mvn-ast-vs-jax.jacrev", pairs, mode=mode, output=k, x=x, loc=loc, raw=raw, arr=arr)
        c.case(("mvn", mode, tuple(x), tuple(raw), tuple(arr)), True, sample={"op": line[:200], "model": got[:200]} if i % 60 == 0 else None)


def corr_leaves(c, tier, rng):
    lines, metas = [], []
    for cls, methods, xs, ss, vs, static, diff_ss, nd in cases(rng, tier):
        xs = list(dict.fromkeys(float(v) for v in xs))[: (18 if tier == "quick" else 60)]
        for x in xs:
            for m in methods:
                if cls == "LeakyTanh" and m in ("i", "il") and abs(abs(x) - math.tanh(static)) < 1e-13:
                    # the switch test compares against tanh(max_val): libm and XLA may differ in the last ulp there
                    c.count("skipped:ulp-neighbour of tanh(max_val)")
                    continue
                lines.append(f"ad {cls} {m} {f2b(x)} {fs2b(ss)} " + " ".join(fs2b(v) for v in vs))
                metas.append((cls, m, x, ss, vs, static, diff_ss, nd))
        c.count("kernel:" + cls)
    outs = vlib.run_model(lines)
    for i, (line, got, meta) in enumerate(zip(lines, outs, metas)):
        cls, m, x, ss, vs, static, diff_ss, nd = meta
        if got.startswith("ERR"):
            c.mismatch("ad-model-vs-jax.grad", op=line[:300], model=got)
            continue
        model = parse_model(got, len(ss), len(vs))
        try:
            real = real_eval(cls, m, x, ss, vs, static)
        except Exception as ex:
            c.mismatch("ad-model-vs-jax.grad", op=line[:300], impl="EXC:" + repr(ex)[:200])
            continue
        ok = True
        for comp, (mo, re) in enumerate(zip(model, real)):
            pairs = [("value", mo[0], re[0]), ("dx", mo[1], re[1])]
            for k in diff_ss:
                pairs.append((f"dscalar{k}", mo[2][k], re[2][k]))
            for j in range(len(vs)):
                for p in range(len(vs[j])):
                    pairs.append((f"dvec{j}[{p}]", mo[3][j][p], re[3][j][p]))
            for name, a, b in pairs:
                if not vlib.close(a, b, **TOL):
                    ok = False
                    c.mismatch("ad-model-vs-jax.grad", kernel=cls, method=m, component=comp, x=x, quantity=name, model=a, impl=b,
                               model_class=vlib.fclass(a), impl_class=vlib.fclass(b), op=line[:200])
        boundary = True
        c.case((cls, m, x, tuple(ss), tuple(map(tuple, vs))), nd, sample={"op": line[:200], "model": got[:200]} if i < 3 else None)


# ------------------------------------------------------------------ oracle on the real code
def grads_finite_violations(dist, desc, xs, cond=None):
    out = []
    params, static = eqx.partition(dist, eqx.is_inexact_array)

    @jax.jit
    def both(p, v):
        f = lambda p, v: eqx.combine(p, static).log_prob(v, cond)
        lp, (gp, gx) = jax.value_and_grad(f, argnums=(0, 1))(p, v)
        return lp, gx, gp
    for x in xs:
        xj = jnp.asarray(x, float)
        lp, gx, gp = both(params, xj)
        lpv = float(lp)
        if math.isnan(lpv):
            out.append(dict(key=f"{desc}|log_prob nan|x={np.asarray(x).tolist()!r}", desc=desc, x=np.asarray(x).tolist(), law="log_prob is never NaN"))
            continue
        if not math.isfinite(lpv):
            continue
        leaves = [np.asarray(l) for l in jax.tree_util.tree_leaves(gp)]
        if not np.all(np.isfinite(np.asarray(gx))):
            out.append(dict(key=f"{desc}|d/dx|x={np.asarray(x).tolist()!r}", desc=desc, x=np.asarray(x).tolist(), law="finite log_prob => finite d/dx", got=np.asarray(gx).tolist()))
        if not all(np.all(np.isfinite(l)) for l in leaves):
            out.append(dict(key=f"{desc}|d/dparams|x={np.asarray(x).tolist()!r}", desc=desc, x=np.asarray(x).tolist(), law="finite log_prob => finite parameter gradients"))
    return out


def leaf_dists(rng):
    # a LARGE max_val first: tanh(20) rounds to exactly 1.0 in float64, so any unselected branch evaluated at the threshold sits on arctanh's pole
    for m in (20.0, 25.0):
        yield f"LeakyTanh({m})", B.LeakyTanh(m), fj.leaky_boundary_inputs(m, rng, 2) + [1.5, -1.5]
    for _ in range(6):
        m = rng.choice([0.5, 1.0, 3.0])
        yield f"LeakyTanh({m})", B.LeakyTanh(m), fj.leaky_boundary_inputs(m, rng, 2)
        s = fj.rqs(rng, rng.choice([1, 3, 5]), rng.choice([1, 2.0, (-1.0, 3.0), (1.0, 3.0)]), perturb=rng.choice([0.0, 2.0]))
        yield "RQS", s, fj.rqs_boundary_inputs(s, rng, 2)
        yield "SoftPlus", B.SoftPlus(), [0.0, 1e-8, 30.0, -30.0, 1e4, -1e4]
        yield "Affine", fj.affine(rng.uniform(-1, 1), rng.choice([-1, 1]) * math.exp(rng.uniform(-1, 1))), [0.0, 1e4, -1e4]
        yield "Tanh", B.Tanh(), [0.0, 0.5, 1.0, -1.0, 5.0, 1e4]
        yield "Exp", B.Exp(), [0.0, 1.0, -1.0, 30.0]


def family_dists(rng):
    """real family objects with trainable leaves far from their initial values + inputs on / next to the support ends, at loc,
    and at magnitudes 1e3..1e300"""
    big = [1e3, -1e3, 1e10, -1e10, 1e100, -1e100, 1e300, -1e300]
    for _ in range(3):
        loc = rng.choice([0.0, rng.uniform(-5, 5), 1e3])
        raw = rng.choice([inv_softplus(1.0), rng.uniform(-6, 6), 40.0, -20.0])
        rawdf = rng.choice([inv_softplus(2.0), rng.uniform(-6, 6), 50.0, -20.0])
        s = softplus(raw)
        for fam in FAMILIES:
            d, _ = fam_build(fam, loc, raw, rawdf)
            if fam.startswith("Standard"):
                pts = [0.0, 1.0, -1.0, 0.5] + fj.nextafter_set(0.0) + fj.nextafter_set(1.0)
            else:
                pts = [loc, loc + s, loc + s / 2, loc - s, 0.0, 1.0] + fj.nextafter_set(loc) + fj.nextafter_set(loc + s)
            yield f"{fam}(loc={loc!r},raw_scale={raw!r},raw_df={rawdf!r})", d, pts + big + [loc + s * rng.uniform(-3, 3) for _ in range(3)]
    # multi-dimensional families: one bad element must not poison the others' gradients
    yield "Normal((3,))", D.Normal(jnp.array([0.0, 1e3, -2.0]), jnp.array([1.0, 1e-3, 50.0])), [[0.0, 1e3, -2.0], [1e10, 0.0, 0.0], [0.0, 0.0, 1e300]]
    yield "Uniform((2,))", D.Uniform(jnp.array([0.0, -1.0]), jnp.array([1.0, 3.0])), [[0.0, -1.0], [1.0, 3.0], [0.5, 5.0], [0.5, 0.5]]
    yield "Laplace((2,))", D.Laplace(jnp.array([0.5, -1.0]), jnp.array([1.0, 3.0])), [[0.5, -1.0], [0.5, 0.0], [1e300, -1.0]]
    yield "StudentT((2,))", D.StudentT(jnp.array([0.5, 30.0]), jnp.array([0.5, -1.0]), jnp.array([1.0, 3.0])), [[0.5, -1.0], [1e10, 0.0], [1e160, -1.0]]


def mixture_dists(rng):
    for _ in range(3):
        k = rng.choice([1, 2, 4])
        locs = jnp.asarray([rng.uniform(-4, 4) for _ in range(k)])
        weights = jnp.asarray([math.exp(rng.uniform(-4, 4)) for _ in range(k)])
        yield f"VmapMixture(Normal x{k})", D.VmapMixture(eqx.filter_vmap(D.Normal)(locs), weights), [0.0, float(locs[0]), 1e3, -1e3, 1e10, 1e154, 1e300]
        yield f"VmapMixture(Laplace x{k})", D.VmapMixture(eqx.filter_vmap(D.Laplace)(locs), weights), [0.0, float(locs[0]), 1e3, -1e10, 1e300]
        los = jnp.asarray([float(j) * 2 for j in range(k)])
        yield (f"VmapMixture(Uniform x{k})", D.VmapMixture(eqx.filter_vmap(D.Uniform)(los, los + 1.0), weights),
               [0.0, 0.5, 1.0, 1.5, 2.0, 2.5, -1.0, 1e10])
        yield (f"VmapMixture(Exponential x{k})", D.VmapMixture(eqx.filter_vmap(D.Exponential)(jnp.asarray([rng.uniform(0.1, 5) for _ in range(k)])), weights),
               [0.0, 1.0, -1.0, 1e3, 1e300])
    # weights very far apart (log_softmax at large magnitude)
    yield "VmapMixture(Normal x2, weights 1e-300/1e300)", D.VmapMixture(eqx.filter_vmap(D.Normal)(jnp.asarray([0.0, 3.0])), jnp.asarray([1e-300, 1e300])), [0.0, 3.0, 1e3]


def planar_dists(rng):
    from flowjax.bijections.planar import Planar
    for d in (1, 2, 4):
        for slope in (None, 0.1, 1.0):
            for scale in (0.01, 1.0, 5.0):
                params = jnp.asarray([rng.gauss(0, 1) * scale for _ in range(2 * d + 1)])
                if float(jnp.dot(params[:d], params[d:2 * d])) < -30:
                    continue  # recorded C11 finding (float absorption)
                p = eqx.tree_at(lambda t: t.params, Planar(jr.key(0), dim=d, negative_slope=slope), params)
                pts = [[0.0] * d, [1.0] * d, [-3.0] * d, [1e3] * d, [-1e6] * d, [1e100] * d]
                w, b = np.asarray(params[:d]), float(params[-1])
                pts.append((-b * w / float(w @ w)).tolist())  # pre-activation (almost) exactly zero
                orients = [("fwd", p)] if slope is None else [("fwd", p), ("inv", B.Invert(p))]
                for orient, bij in orients:
                    # a flow's log_prob uses inverse_and_log_det: only the leaky-relu planar is analytically invertible
                    if orient == "fwd" and slope is None:
                        bij = B.Invert(p)
                    elif orient == "inv":
                        bij = p
                    yield f"Planar(dim={d},slope={slope},scale={scale})|{orient}", Transformed(StandardNormal((d,)), bij), pts


def search(hints, tier, rng):
    wit = []
    for gen in (family_dists, mixture_dists, planar_dists):
        for name, dist, xs in gen(rng):
            try:
                wit += grads_finite_violations(dist, name, xs)
            except Exception as ex:  # a raising log_prob / grad is a violation of "a number or minus infinity"
                wit.append(dict(key=f"{name}|raises|{type(ex).__name__}", desc=name, law="log_prob and its gradients are defined for every real input", error=repr(ex)[:300]))
            if len(wit) >= 5:
                return wit[:5]
    for name, b, xs in leaf_dists(rng):
        for orient, bij in (("fwd", b), ("inv", B.Invert(b))):
            wit += grads_finite_violations(Transformed(StandardNormal(), bij), f"{name}|{orient}", xs)
            if len(wit) >= 5:
                return wit[:5]
    base = StandardNormal((2,))
    facs = {
        "coupling_affine": lambda k, cd, inv: flows.coupling_flow(k, base_dist=base, cond_dim=cd, flow_layers=2, nn_width=6, invert=inv),
        "coupling_spline": lambda k, cd, inv: flows.coupling_flow(k, base_dist=base, cond_dim=cd, flow_layers=2, nn_width=6, invert=inv, transformer=B.RationalQuadraticSpline(knots=3, interval=2)),
        "maf_affine": lambda k, cd, inv: flows.masked_autoregressive_flow(k, base_dist=base, cond_dim=cd, flow_layers=2, nn_width=6, invert=inv),
        "maf_spline": lambda k, cd, inv: flows.masked_autoregressive_flow(k, base_dist=base, cond_dim=cd, flow_layers=1, nn_width=6, invert=inv, transformer=B.RationalQuadraticSpline(knots=3, interval=2)),
        "planar_leaky": lambda k, cd, inv: flows.planar_flow(k, base_dist=base, cond_dim=cd, flow_layers=2, invert=inv, negative_slope=0.1, **({"width_size": 6, "depth": 1} if cd else {})),
    }
    pts = [[0.0, 0.0], [2.0, -2.0], [-2.0, 2.0], [1e4, -1e4], [0.3, 1.0], [2.0, 2.0], [-2.0, 0.0]]
    for name, mk in facs.items():
        for inv in (True, False):
            if not inv and name in ("maf_spline",) and tier == "quick":
                continue
            fl = mk(jr.PRNGKey(rng.randrange(1000)), None, inv)
            from props.c03 import perturb
            for f in (fl, perturb(fl, rng, 0.3)):
                wit += grads_finite_violations(f, f"{name}|invert={inv}", pts)
                if len(wit) >= 5:
                    return wit[:5]
    return wit[:5]


def replay(w):
    import random
    return bool(search({}, "quick", random.Random(0)))
