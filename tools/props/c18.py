"""C18 — finite log-probabilities have finite gradients; log_prob is never NaN.

Tie: the scalar kernels are REGENERATED as deep `Ad.Expr` ASTs (Gen/LeavesAst.lean, tools/py2lean/py2ast.py);
the reverse-mode interpreter `Expr.vjp` (Model/Ad.lean) with JAX's cotangent rules is a hand model of
JAX autodiff.  Here the SAME interpreter runs at IEEE Float and is compared with `jax.grad` on the real
methods: value, d/dx, d/dparameters — numerically and by special-value class (fin / ±inf / nan) — on the
boundary-directed set.  The theorems (Props/C18.lean) are about the EF instance of the same interpreter.
"""
from __future__ import annotations

import math

import equinox as eqx
import jax
import jax.numpy as jnp
import jax.random as jr
import numpy as np

import flowjax.bijections as B
from flowjax import flows
from flowjax.distributions import StandardNormal, Transformed
from flowjax.wrappers import unwrap

import fj
import vlib
from vlib import f2b, fs2b, b2f, b2fs
from props import c01

ID = "C18"
GEN = ["LeavesAst", "Leaves"]
RULE = ("every generated leaf kernel (Affine both signs, Loc, Scale, Exp, SoftPlus, Tanh, LeakyTanh, RationalQuadraticSpline with perturbed "
        "parameters and intervals not containing 0) x all methods x boundary-directed inputs (interval ends, knots, outside the interval, at and "
        "beyond ±max_val, tanh(max_val), ±1, 0, float neighbours, ±1e4): value, d/dx and d/d(every parameter) of each output component from the "
        "Float instance of the reverse-mode model vs jax.grad; non-trivial = boundary input with non-default parameters; distinct = distinct "
        "(kernel, method, parameters, input)")
TRUSTED = [
    "Lean 4.33 kernel; Mathlib v4.33; axioms propext, Classical.choice, Quot.sound",
    "py2ast translator (tools/py2lean/py2ast.py, targets_ast.py): deep AST of the kernels, regenerated every run; validated here at Float",
    "Model/Ad.lean: cotangent rules per primitive transcribed from JAX (select sends a zero cotangent to the unselected branch; cotangent x partial uses IEEE multiplication) — a model of JAX autodiff, validated here against jax.grad",
    "EF (Proofs/EF.lean): IEEE special-value rules over exact reals — rounding, overflow (exp of large arguments) and signed zeros are outside the model and covered by this correspondence only",
]
ASSUMPTIONS = ["flows inherit finiteness from their layers by composition of `Safe` expressions (theorem safe_vjp_fin); network conditioners (MLPs with relu) are piecewise linear with finite partials and are covered by the oracle only",
               "block_neural_autoregressive_flow / triangular_spline_flow cannot be constructed in this environment"]
TOL = dict(rtol=1e-7, atol=1e-9)


# ------------------------------------------------------------------ real-side functions of (x, scalars, vectors)
def build(cls, ss, vs):
    if cls == "Affine":
        return eqx.tree_at(lambda t: (t.loc, t.scale), B.Affine(), (ss[0], ss[1]))
    if cls == "Loc":
        return eqx.tree_at(lambda t: t.loc, B.Loc(0.0), ss[0])
    if cls == "Scale":
        return eqx.tree_at(lambda t: t.scale, B.Scale(1.0), ss[0])
    if cls == "Exp":
        return B.Exp()
    if cls == "SoftPlus":
        return B.SoftPlus()
    if cls == "Tanh":
        return B.Tanh()
    raise KeyError(cls)


def real_eval(cls, m, x, ss, vs, static=None):
    """returns list per output component of (value, dx, dss, dvs) using jax.grad on the real method"""
    meth = fj.PYMETH.get(m, "derivative")
    ss_j = [jnp.asarray(s, float) for s in ss]
    vs_j = [jnp.asarray(v, float) for v in vs]

    def f(x, ss, vs, comp):
        if cls == "LeakyTanh":
            b = B.LeakyTanh(static)
        elif cls == "RQS":
            b0 = B.RationalQuadraticSpline(knots=len(vs[0]) - 2, interval=static)
            b = eqx.tree_at(lambda t: (t.x_pos, t.y_pos, t.derivatives), b0, (vs[0], vs[1], vs[2]))
            if m == "d":
                return b.derivative(x)
        else:
            b = build(cls, ss, vs)
        r = getattr(b, meth)(x)
        return r[comp] if isinstance(r, tuple) else r

    ncomp = 2 if m in ("tl", "il") else 1
    out = []
    for comp in range(ncomp):
        val = f(jnp.asarray(x, float), ss_j, vs_j, comp)
        g = jax.grad(f, argnums=(0, 1, 2))(jnp.asarray(x, float), ss_j, vs_j, comp)
        out.append((float(val), float(g[0]), [float(v) for v in g[1]], [[float(e) for e in v] for v in g[2]]))
    return out


def parse_model(got, nss, nvs):
    comps = []
    for part in got.split(" | "):
        t = [u for u in part.split(" ") if u != ""]
        val, dx = b2f(t[0]), b2f(t[1])
        dss = b2fs(t[2])
        dvs = [b2fs(v) for v in t[3:]]
        comps.append((val, dx, dss, dvs))
    return comps


def cases(rng, tier):
    """yield (cls, method list, x list, scalars (model order), vectors, static, differentiable scalar idxs, nondefault)"""
    nrep = 6 if tier == "quick" else 40
    for _ in range(nrep):
        loc, sc = rng.uniform(-3, 3), rng.choice([-1, 1]) * math.exp(rng.uniform(-2, 2))
        yield "Affine", ["t", "i", "tl", "il"], [0.0, -loc / sc, 1e4, -1e4] + fj.generic_inputs(rng, 3), [loc, sc], [], None, [0, 1], True
        yield "Loc", ["t", "i", "tl", "il"], fj.generic_inputs(rng, 2), [loc], [], None, [0], True
        yield "Scale", ["t", "i", "tl", "il"], [0.0] + fj.generic_inputs(rng, 2), [sc], [], None, [0], True
        yield "Exp", ["t", "tl"], [0.0, 1.0, -30.0, 30.0] + fj.generic_inputs(rng, 2), [], [], None, [], False
        yield "Exp", ["i", "il"], [1.0, 1e-8, 1e4, 0.5, math.exp(rng.uniform(-3, 3))], [], [], None, [], False
        yield "SoftPlus", ["t", "tl"], [0.0, 30.0, -30.0, 1e-8] + fj.generic_inputs(rng, 2), [], [], None, [], False
        yield "SoftPlus", ["i", "il"], [1.0, 1e-6, 30.0, math.exp(rng.uniform(-3, 3))], [], [], None, [], False
        yield "Tanh", ["t", "tl"], [0.0, 1.0, -1.0, 5.0, -5.0] + fj.generic_inputs(rng, 2), [], [], None, [], False
        yield "Tanh", ["i", "il"], [0.0, 0.5, -0.5, 0.999, -0.999, rng.uniform(-0.99, 0.99)], [], [], None, [], False
        m = rng.choice([0.5, 1.0, 3.0, rng.uniform(0.2, 4)])
        lk = B.LeakyTanh(m)
        yield "LeakyTanh", ["t", "i", "tl", "il"], fj.leaky_boundary_inputs(m, rng, 3), [lk.max_val, lk.intercept, lk.linear_grad], [], m, [], True
        knots = rng.choice([1, 2, 3, 5])
        iv = rng.choice([1, 2.0, (-1.0, 3.0), (0.5, 2.5), (-3.0, -1.0), (1.0, 3.0)])
        s = fj.rqs(rng, knots, iv, perturb=rng.choice([0.0, 1.0, 3.0]))
        lo, hi, xs, ys, ds = fj.rqs_params(s)
        yield "RQS", ["t", "i", "d", "tl", "il"], fj.rqs_boundary_inputs(s, rng, 3), [lo, hi], [xs, ys, ds], (lo, hi), [], True


def corr(c, tier, rng):
    lines, metas = [], []
    for cls, methods, xs, ss, vs, static, diff_ss, nd in cases(rng, tier):
        xs = list(dict.fromkeys(float(v) for v in xs))[: (18 if tier == "quick" else 60)]
        for x in xs:
            for m in methods:
                if cls == "LeakyTanh" and m in ("i", "il") and abs(abs(x) - math.tanh(static)) < 1e-13:
                    # the switch test compares against tanh(max_val): libm and XLA may differ in the last ulp there
                    c.count("skipped:ulp-neighbour of tanh(max_val)")
                    continue
                lines.append(f"ad {cls} {m} {f2b(x)} {fs2b(ss)} " + " ".join(fs2b(v) for v in vs))
                metas.append((cls, m, x, ss, vs, static, diff_ss, nd))
        c.count("kernel:" + cls)
    outs = vlib.run_model(lines)
    for i, (line, got, meta) in enumerate(zip(lines, outs, metas)):
        cls, m, x, ss, vs, static, diff_ss, nd = meta
        if got.startswith("ERR"):
            c.mismatch("ad-model-vs-jax.grad", op=line[:300], model=got)
            continue
        model = parse_model(got, len(ss), len(vs))
        try:
            real = real_eval(cls, m, x, ss, vs, static)
        except Exception as ex:
            c.mismatch("ad-model-vs-jax.grad", op=line[:300], impl="EXC:" + repr(ex)[:200])
            continue
        ok = True
        for comp, (mo, re) in enumerate(zip(model, real)):
            pairs = [("value", mo[0], re[0]), ("dx", mo[1], re[1])]
            for k in diff_ss:
                pairs.append((f"dscalar{k}", mo[2][k], re[2][k]))
            for j in range(len(vs)):
                for p in range(len(vs[j])):
                    pairs.append((f"dvec{j}[{p}]", mo[3][j][p], re[3][j][p]))
            for name, a, b in pairs:
                if not vlib.close(a, b, **TOL):
                    ok = False
                    c.mismatch("ad-model-vs-jax.grad", kernel=cls, method=m, component=comp, x=x, quantity=name, model=a, impl=b,
                               model_class=vlib.fclass(a), impl_class=vlib.fclass(b), op=line[:200])
        boundary = True
        c.case((cls, m, x, tuple(ss), tuple(map(tuple, vs))), nd, sample={"op": line[:200], "model": got[:200]} if i < 3 else None)


# ------------------------------------------------------------------ oracle on the real code
def grads_finite_violations(dist, desc, xs, cond=None):
    out = []
    params, static = eqx.partition(dist, eqx.is_inexact_array)
    for x in xs:
        xj = jnp.asarray(x, float)
        lp = dist.log_prob(xj, cond)
        lpv = float(lp)
        if math.isnan(lpv):
            out.append(dict(key=f"{desc}|log_prob nan|x={np.asarray(x).tolist()!r}", desc=desc, x=np.asarray(x).tolist(), law="log_prob is never NaN"))
            continue
        if not math.isfinite(lpv):
            continue
        gx = jax.grad(lambda v: dist.log_prob(v, cond))(xj)
        gp = jax.grad(lambda p: eqx.combine(p, static).log_prob(xj, cond))(params)
        leaves = [np.asarray(l) for l in jax.tree_util.tree_leaves(gp)]
        if not np.all(np.isfinite(np.asarray(gx))):
            out.append(dict(key=f"{desc}|d/dx|x={np.asarray(x).tolist()!r}", desc=desc, x=np.asarray(x).tolist(), law="finite log_prob => finite d/dx", got=np.asarray(gx).tolist()))
        if not all(np.all(np.isfinite(l)) for l in leaves):
            out.append(dict(key=f"{desc}|d/dparams|x={np.asarray(x).tolist()!r}", desc=desc, x=np.asarray(x).tolist(), law="finite log_prob => finite parameter gradients"))
    return out


def leaf_dists(rng):
    for _ in range(6):
        m = rng.choice([0.5, 1.0, 3.0])
        yield f"LeakyTanh({m})", B.LeakyTanh(m), fj.leaky_boundary_inputs(m, rng, 2)
        s = fj.rqs(rng, rng.choice([1, 3, 5]), rng.choice([1, 2.0, (-1.0, 3.0), (1.0, 3.0)]), perturb=rng.choice([0.0, 2.0]))
        yield "RQS", s, fj.rqs_boundary_inputs(s, rng, 2)
        yield "SoftPlus", B.SoftPlus(), [0.0, 1e-8, 30.0, -30.0, 1e4, -1e4]
        yield "Affine", fj.affine(rng.uniform(-1, 1), rng.choice([-1, 1]) * math.exp(rng.uniform(-1, 1))), [0.0, 1e4, -1e4]
        yield "Tanh", B.Tanh(), [0.0, 0.5, 1.0, -1.0, 5.0, 1e4]
        yield "Exp", B.Exp(), [0.0, 1.0, -1.0, 30.0]


def search(hints, tier, rng):
    wit = []
    for name, b, xs in leaf_dists(rng):
        for orient, bij in (("fwd", b), ("inv", B.Invert(b))):
            wit += grads_finite_violations(Transformed(StandardNormal(), bij), f"{name}|{orient}", xs)
            if len(wit) >= 5:
                return wit[:5]
    base = StandardNormal((2,))
    facs = {
        "coupling_affine": lambda k, cd, inv: flows.coupling_flow(k, base_dist=base, cond_dim=cd, flow_layers=2, nn_width=6, invert=inv),
        "coupling_spline": lambda k, cd, inv: flows.coupling_flow(k, base_dist=base, cond_dim=cd, flow_layers=2, nn_width=6, invert=inv, transformer=B.RationalQuadraticSpline(knots=3, interval=2)),
        "maf_affine": lambda k, cd, inv: flows.masked_autoregressive_flow(k, base_dist=base, cond_dim=cd, flow_layers=2, nn_width=6, invert=inv),
        "maf_spline": lambda k, cd, inv: flows.masked_autoregressive_flow(k, base_dist=base, cond_dim=cd, flow_layers=1, nn_width=6, invert=inv, transformer=B.RationalQuadraticSpline(knots=3, interval=2)),
        "planar_leaky": lambda k, cd, inv: flows.planar_flow(k, base_dist=base, cond_dim=cd, flow_layers=2, invert=inv, negative_slope=0.1, **({"width_size": 6, "depth": 1} if cd else {})),
    }
    pts = [[0.0, 0.0], [2.0, -2.0], [-2.0, 2.0], [1e4, -1e4], [0.3, 1.0], [2.0, 2.0], [-2.0, 0.0]]
    for name, mk in facs.items():
        for inv in (True, False):
            if not inv and name in ("maf_spline",) and tier == "quick":
                continue
            fl = mk(jr.PRNGKey(rng.randrange(1000)), None, inv)
            from props.c03 import perturb
            for f in (fl, perturb(fl, rng, 0.3)):
                wit += grads_finite_violations(f, f"{name}|invert={inv}", pts)
                if len(wit) >= 5:
                    return wit[:5]
    return wit[:5]


def replay(w):
    import random
    return bool(search({}, "quick", random.Random(0)))
