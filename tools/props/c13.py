"""C13 — malformed inputs are rejected, never silently broadcast.

Tie to the code:
  * Gen/Structure.lean (class table of every AbstractBijection / AbstractDistribution subclass, the facts about the
    `__init_subclass__` hook, `_unwrap_check_and_cast`, the distribution vectoriser) and Gen/ArgCheckGen.lean (the
    wrapper's `_check_x` / `_check_condition`, translated) are REGENERATED from /repo by tools/py2lean/structure.py;
    the theorems of Props/C13.lean are about them and about Model/ArgCheck.lean;
  * this harness runs the hand-written Model/ArgCheck.lean (through the `ac` driver op) against the REAL behaviour:
      (a) every real concrete bijection class x four methods x wrong-shape lattice x condition variants,
          exception class canonicalised to ok|ValueError|TypeError|IndexError|other; successful calls must return
          exactly the declared shape and a log-det of shape ();
      (b) every modelled constructor check against the real constructors on shape grids (negative / out-of-range
          axes, empty lists, rank mismatches), the reference jnp.concatenate / jnp.stack shape semantics against jnp,
          slice arithmetic against Python's `slice.indices`; the SAME cases through the constructors REGENERATED from the
          source (Gen/CtorsGen.lean by tools/py2lean/py2ctor.py, driver op `gc`): verdict, declared shape / cond_shape,
          Concatenate's split_idxs and stored axis against the real objects and against the hand model; plus
          EmbedCondition, Invert / Scan shape properties and Vmap (in_axes XOR axis_size, unwrappables in in_axes,
          no mapped leaf, condition axis incl. negative / out of range);
      (c) the generated class table and the Lean MRO / attribute resolver against live introspection
          (`__mro__`, `__dict__`, `__wrapped__`) of every subclass reachable from `AbstractBijection.__subclasses__()`;
      (d) `log_prob` / `sample` / `sample_and_log_prob` of real distributions on batch / trailing-dimension lattices.
"""
from __future__ import annotations

import importlib
import itertools
import pkgutil

import equinox as eqx
import jax.numpy as jnp
import jax.random as jr
import numpy as np

import flowjax
import flowjax.bijections as B
import flowjax.distributions as D
from flowjax.bijections.bijection import AbstractBijection

import vlib

ID = "C13"
GEN = ["Structure", "ArgCheckGen", "CtorsGen", "WrapperGen", "BnafInitGen", "PlanarInitGen"]
RULE = ("(a) zoo of real instances of every concrete bijection class (incl. the private _CallableToBijection / "
        "_UnconditionalPlanar, conditional and unconditional variants, shapes with size-1 axes, random generated "
        "compositions) x {transform, transform_and_log_det, inverse, inverse_and_log_det} x x-shape lattice (all 40 shapes "
        "of rank<=3 with sizes in {1,2,3}, the declared shape, its transpose, extra leading / trailing axes, a Python "
        "scalar, None, a list) x condition {missing, exact, every lattice shape, list}; (b) real constructors of "
        "Chain/Concatenate/Stack/Partial/Reshape/Transformed/TriangularAffine/Coupling/MaskedAutoregressive/BNAF on shape "
        "grids with axes in [-4,3], empty lists, rank mismatches, None-mixed condition shapes; (c) live class "
        "introspection; (d) distributions. A case is non-trivial when the offered shape differs from the declared one "
        "but NumPy would broadcast it (or it is a transpose), when the condition is missing/wrong, or for constructors "
        "when the arguments are incompatible or the axis is negative; distinct = distinct (object, method, x, condition) "
        "or (constructor, arguments) tuples")
TRUSTED = [
    "Lean 4.33 kernel; axioms propext, Classical.choice, Quot.sound (C13's theorems need no Mathlib)",
    "tools/py2lean/structure.py (AST -> class table + translated _check_x/_check_condition), validated against live "
    "introspection and against the real wrapper on every run",
    "Model/ArgCheck.lean hand-written models of the constructor checks, of jnp.vectorize's loop/core dimension split and "
    "of JAX static indexing (validated by this correspondence on every run)",
    "CPython semantics of __init_subclass__ / C3 MRO / functools.wraps as modelled by `resolvedIsWrapped` (validated by "
    "live introspection of every class on every run)",
]
ASSUMPTIONS = [
    "KNOWN FINDING (known_findings.json): Partial accepts an out-of-range integer index (JAX clamps static ints); the model is "
    "faithful to that and Props/C13.lean states it as `partial_oob_int_accepted`; `partial_ctor_rejects_iff_partial` excludes it",
    "array index kinds of Partial (integer / boolean ndarray, tuples) are exercised on the real code only; the Lean model "
    "covers int and slice indices on axis 0",
    "third-party base classes (equinox.Module) bind none of the four method names (checked live in (c))",
]

METHODS = ("transform", "transform_and_log_det", "inverse", "inverse_and_log_det")
LATTICE = [()] + [s for r in (1, 2, 3) for s in itertools.product((1, 2, 3), repeat=r)]
# (class, method) pairs that are documented to raise NotImplementedError on well-shaped input
NOT_IMPLEMENTED = {("_CallableToBijection", "inverse"), ("_CallableToBijection", "inverse_and_log_det")}


# ------------------------------------------------------------------ encoders
def sh(s):
    return vlib.ints(s)


def osh(s):
    return "N" if s is None else sh(s)


def lst(xs, enc):
    xs = list(xs)
    return "|".join(enc(x) for x in xs) if xs else "E"


def val_tok(v):
    """argument spec -> driver token: ('arr', shape) | 'none' | 'list' | 'pyfloat'"""
    if v == "none":
        return "N"
    if v == "list":
        return "L"
    if v == "pyfloat":
        return "-"
    return sh(v[1])


def val_real(v):
    if v == "none":
        return None
    if v == "list":
        return [0.3, 0.3]
    if v == "pyfloat":
        return 0.3
    return jnp.full(v[1], 0.3)


def canon(ex) -> str:
    if isinstance(ex, ValueError):
        return "ValueError"
    if isinstance(ex, TypeError):
        return "TypeError"
    if isinstance(ex, IndexError):
        return "IndexError"
    return "other:" + type(ex).__name__


def broadcastable(a, b) -> bool:
    try:
        np.broadcast_shapes(tuple(a), tuple(b))
        return True
    except ValueError:
        return False


# ------------------------------------------------------------------ the zoo
def _addcond(shape, cond_shape):
    return B.AdditiveCondition(lambda c: jnp.zeros(shape) + jnp.sum(c), shape, cond_shape)


def _affine(shape, rng=None):
    loc = np.arange(int(np.prod(shape)) or 1, dtype=float)[: int(np.prod(shape)) or 1].reshape(shape) * 0.5 - 0.3
    return B.Affine(jnp.asarray(loc), jnp.full(shape, 1.7))


def zoo():
    """name -> builder of a real instance (built lazily: replay needs only one)"""
    k = jr.PRNGKey(7)
    z = {}
    z["Affine(3)"] = lambda: _affine((3,))
    z["Affine(2,3)"] = lambda: _affine((2, 3))
    z["Affine()"] = lambda: _affine(())
    z["Affine(1)"] = lambda: _affine((1,))
    z["Affine(3,1)"] = lambda: _affine((3, 1))
    z["Loc(3)"] = lambda: B.Loc(jnp.arange(3.0))
    z["Scale(2)"] = lambda: B.Scale(jnp.array([0.5, 2.0]))
    z["TriangularAffine(3)"] = lambda: B.TriangularAffine(jnp.arange(3.0), jnp.eye(3) * 2 + jnp.tril(jnp.ones((3, 3)), -1))
    z["AdditiveCondition(3|2)"] = lambda: _addcond((3,), (2,))
    z["AdditiveCondition(2,3|)"] = lambda: _addcond((2, 3), ())
    z["AdditiveCondition(2|1,2)"] = lambda: _addcond((2,), (1, 2))
    z["Exp(3)"] = lambda: B.Exp((3,))
    z["SoftPlus(2,1)"] = lambda: B.SoftPlus((2, 1))
    z["Tanh(3)"] = lambda: B.Tanh((3,))
    z["LeakyTanh(2)"] = lambda: B.LeakyTanh(2.0, (2,))
    z["RationalQuadraticSpline()"] = lambda: B.RationalQuadraticSpline(knots=4, interval=2)
    z["Planar(3)"] = lambda: B.Planar(k, dim=3, negative_slope=0.1)
    z["Planar(3|2)"] = lambda: B.Planar(k, dim=3, cond_dim=2, negative_slope=0.1, width_size=4, depth=1)
    z["_UnconditionalPlanar(3)"] = lambda: B.planar._UnconditionalPlanar(jnp.array([0.2, -0.1, 0.3]), jnp.array([0.1, 0.2, -0.2]), jnp.array(0.1), 0.1)
    z["Permute(3)"] = lambda: B.Permute(jnp.array([2, 0, 1]))
    z["Permute(2,2)"] = lambda: B.Permute(jnp.array([[3, 0], [1, 2]]))
    z["Flip(3)"] = lambda: B.Flip((3,))
    z["Identity(2,3)"] = lambda: B.Identity((2, 3))
    z["Identity()"] = lambda: B.Identity(())
    z["Invert(Affine(3))"] = lambda: B.Invert(_affine((3,)))
    z["Invert(AdditiveCondition(3|2))"] = lambda: B.Invert(_addcond((3,), (2,)))
    z["Chain[Affine,Tanh](3)"] = lambda: B.Chain([_affine((3,)), B.Tanh((3,))])
    z["Chain[Affine,AddCond,Exp](3|2)"] = lambda: B.Chain([_affine((3,)), _addcond((3,), (2,)), B.Loc(jnp.ones(3))])
    z["Concatenate[Affine2,Exp1](3)"] = lambda: B.Concatenate([_affine((2,)), B.Exp((1,))])
    z["Concatenate[(2,1),(2,2)]ax-1"] = lambda: B.Concatenate([_affine((2, 1)), B.Tanh((2, 2))], axis=-1)
    z["Stack[Affine3,Exp3]ax-1"] = lambda: B.Stack([_affine((3,)), B.Exp((3,))], axis=-1)
    z["Stack[AddCond,Affine]ax0(2,3|2)"] = lambda: B.Stack([_addcond((3,), (2,)), _affine((3,))], axis=0)
    z["Partial(Affine2,slice,3)"] = lambda: B.Partial(_affine((2,)), slice(0, 2), (3,))
    z["Partial(Affine(),1,3)"] = lambda: B.Partial(_affine(()), 1, (3,))
    z["Partial(AddCond,array,(3|2))"] = lambda: B.Partial(_addcond((2,), (2,)), jnp.array([0, 2]), (3,))
    z["Reshape(Affine6->2,3)"] = lambda: B.Reshape(_affine((6,)), (2, 3))
    z["Reshape(AddCond 3|2,2 -> 3,1|4)"] = lambda: B.Reshape(_addcond((3,), (2, 2)), (3, 1), (4,))
    z["EmbedCondition(3|4)"] = lambda: B.EmbedCondition(_addcond((3,), (2,)), lambda c: c[:2] + c[2:], (4,))
    z["Scan(Affine)(2)"] = lambda: B.Scan(eqx.filter_vmap(B.Affine)(jnp.arange(6.0).reshape(3, 2)))
    z["Vmap(RQS,3)"] = lambda: B.Vmap(B.RationalQuadraticSpline(knots=3, interval=2), axis_size=3)
    z["Vmap(AddCond,ax_cond=-1)(2,3|2,2)"] = lambda: B.Vmap(_addcond((3,), (2,)), axis_size=2, in_axes_condition=-1)
    z["Vmap(Affine params)(2,3)"] = lambda: B.Vmap(eqx.filter_vmap(B.Affine)(jnp.arange(6.0).reshape(2, 3)), in_axes=eqx.if_array(0))
    z["Coupling(3)"] = lambda: B.Coupling(k, transformer=B.Affine(), untransformed_dim=1, dim=3, nn_width=4, nn_depth=1)
    z["Coupling(3|2)"] = lambda: B.Coupling(k, transformer=B.Affine(), untransformed_dim=1, dim=3, cond_dim=2, nn_width=4, nn_depth=1)
    z["MaskedAutoregressive(3)"] = lambda: B.MaskedAutoregressive(k, transformer=B.Affine(), dim=3, nn_width=4, nn_depth=1)
    z["MaskedAutoregressive(3|2)"] = lambda: B.MaskedAutoregressive(k, transformer=B.Affine(), dim=3, cond_dim=2, nn_width=4, nn_depth=1)
    z["BlockAutoregressiveNetwork(2)"] = lambda: B.BlockAutoregressiveNetwork(k, dim=2, depth=1, block_dim=2)
    z["BlockAutoregressiveNetwork(2|2)"] = lambda: B.BlockAutoregressiveNetwork(k, dim=2, cond_dim=2, depth=1, block_dim=2)
    # unconditional flow layers inside a conditional composition: the wrapper must hand them `condition=None`
    z["Chain[Coupling(3),AddCond](3|2)"] = lambda: B.Chain([z["Coupling(3)"](), _addcond((3,), (2,))])
    z["Chain[MAF(3),AddCond](3|2)"] = lambda: B.Chain([z["MaskedAutoregressive(3)"](), _addcond((3,), (2,))])
    z["Chain[AddCond,BNAF(2)](2|2)"] = lambda: B.Chain([_addcond((2,), (2,)), z["BlockAutoregressiveNetwork(2)"]()])
    z["Invert(Chain[Coupling,AddCond,MAF])(3|2)"] = lambda: B.Invert(B.Chain([z["Coupling(3)"](), _addcond((3,), (2,)), z["MaskedAutoregressive(3)"]()]))
    z["_CallableToBijection()"] = lambda: B.block_autoregressive_network._CallableToBijection(jnp.tanh)
    return z


def rand_comp(rng, depth, shape=None, allow_cond=True):
    """random composition of real bijections with a given shape (generated compositions)"""
    shape = shape if shape is not None else rng.choice([(3,), (2,), (2, 3), (1,), ()])
    cond = (2,) if allow_cond and rng.random() < 0.4 else None

    def leaf(s):
        r = rng.random()
        if cond is not None and r < 0.4:
            return _addcond(s, cond), f"AC{s}|{cond}"
        c = rng.choice(["Affine", "Exp", "Tanh", "Identity", "Flip", "Loc"])
        if c == "Affine":
            return _affine(s), f"Affine{s}"
        if c == "Loc":
            return B.Loc(jnp.full(s, 0.5)), f"Loc{s}"
        return getattr(B, c)(s), f"{c}{s}"

    def go(d, s):
        if d == 0:
            return leaf(s)
        r = rng.choice(["chain", "invert", "stack", "concat", "reshape", "partial", "vmap"])
        if r == "chain":
            subs = [go(d - 1, s) for _ in range(rng.choice([1, 2, 3]))]
            return B.Chain([b for b, _ in subs]), "Chain[" + ",".join(n for _, n in subs) + "]"
        if r == "invert":
            b, n = go(d - 1, s)
            return B.Invert(b), f"Invert({n})"
        if r == "stack" and len(s) >= 1:
            ax = rng.randrange(-len(s), len(s))
            inner = s[: ax % len(s)] + s[ax % len(s) + 1:]
            subs = [go(d - 1, inner) for _ in range(s[ax])]
            return B.Stack([b for b, _ in subs], axis=ax if ax >= 0 else ax), f"Stack{ax}[" + ",".join(n for _, n in subs) + "]"
        if r == "concat" and len(s) >= 1 and s[-1] >= 2:
            a = rng.randrange(1, s[-1])
            b1, n1 = go(d - 1, s[:-1] + (a,))
            b2, n2 = go(d - 1, s[:-1] + (s[-1] - a,))
            return B.Concatenate([b1, b2], axis=-1), f"Concat-1[{n1},{n2}]"
        if r == "reshape":
            n_el = int(np.prod(s))
            b, n = go(d - 1, (n_el,))
            return B.Reshape(b, s), f"Reshape({n}->{s})"
        if r == "partial" and len(s) >= 1 and s[0] >= 2:
            b, n = go(d - 1, (s[0] - 1,) + s[1:])
            return B.Partial(b, slice(1, None), s), f"Partial({n},1:,{s})"
        if r == "vmap" and len(s) >= 1 and cond is None:
            b, n = go(d - 1, s[1:])
            return B.Vmap(b, axis_size=s[0]), f"Vmap({n},{s[0]})"
        return go(d - 1, s)

    return go(depth, shape)


# ------------------------------------------------------------------ (a) wrapper vs real methods
def x_variants(shape):
    vs = [("arr", s) for s in LATTICE]
    vs += [("arr", tuple(shape)), ("arr", tuple(reversed(shape))), ("arr", (1,) + tuple(shape)), ("arr", (2,) + tuple(shape)),
           ("arr", tuple(shape) + (1,))]
    vs = list(dict.fromkeys(vs))
    return vs + ["pyfloat", "none", "list"]


def cond_variants(cond_shape, full):
    if cond_shape is None:
        return ["none", ("arr", (2,)), ("arr", ()), "list"] if full else ["none", ("arr", (2,))]
    vs = ["none", ("arr", tuple(cond_shape))]
    if full:
        vs += [("arr", s) for s in LATTICE] + [("arr", tuple(reversed(cond_shape))), ("arr", (1,) + tuple(cond_shape)), "list", "pyfloat"]
    return list(dict.fromkeys(vs))


def call_real(obj, m, xv, cv):
    """-> (verdict, detail)"""
    try:
        r = getattr(obj, m)(val_real(xv), val_real(cv))
    except NotImplementedError:
        return "notimpl", None
    except Exception as ex:  # noqa: BLE001
        return canon(ex), str(ex)[:120]
    if m.endswith("log_det"):
        if not (isinstance(r, tuple) and len(r) == 2):
            return "badresult", repr(type(r))
        y, ld = r
        if tuple(jnp.shape(y)) != tuple(obj.shape) or tuple(jnp.shape(ld)) != ():
            return "badshape", f"y{tuple(jnp.shape(y))} ld{tuple(jnp.shape(ld))}"
        return "ok", None
    if tuple(jnp.shape(r)) != tuple(obj.shape):
        return "badshape", f"y{tuple(jnp.shape(r))}"
    return "ok", None


def is_right(xv, shape):
    return (xv == "pyfloat" and tuple(shape) == ()) or (isinstance(xv, tuple) and tuple(xv[1]) == tuple(shape))


def wrapper_only(obj, xv, cv):
    """the REAL `_unwrap_check_and_cast` around a stub method, on the real object: isolates the check from the body.
    -> `ok <shape of the x the body receives> <shape of the condition it receives | N>` or the exception class"""
    from flowjax.bijections.bijection import _unwrap_check_and_cast
    probe = _unwrap_check_and_cast(lambda b, x, c: (x, c))
    try:
        x, cnd = probe(obj, val_real(xv), val_real(cv))
    except Exception as ex:  # noqa: BLE001
        return canon(ex)
    if not hasattr(x, "dtype") or (cnd is not None and not hasattr(cnd, "dtype")):
        return "badcast"
    return f"ok {sh(jnp.shape(x))} {osh(None if cnd is None else jnp.shape(cnd))}"


def run_generated_wrapper_extras(c, objs):
    """(i) the condition argument OMITTED (the closure's default) on real objects, against the generated wrapper called with its
    generated default (`D`); (ii) the generated `__init_subclass__` against real subclasses of `AbstractBijection` created with
    every subset of the four methods defined plainly / abstractly / not at all, plus an unrelated method."""
    import abc
    from flowjax.bijections.bijection import _unwrap_check_and_cast
    probe = _unwrap_check_and_cast(lambda b, x, cnd: (x, cnd))
    lines, reals, infos = [], [], []
    for name, obj in objs.items():
        shape, cs = tuple(obj.shape), (None if obj.cond_shape is None else tuple(obj.cond_shape))
        for xv in [("arr", shape), ("arr", (1,) + shape), "none", "list"]:
            try:
                x, cnd = probe(obj, val_real(xv))
                real = f"ok {sh(jnp.shape(x))} {osh(None if cnd is None else jnp.shape(cnd))}"
            except Exception as ex:  # noqa: BLE001
                real = canon(ex)
            lines.append(f"gwrapper {sh(shape)} {osh(cs)} {val_tok(xv)} D")
            reals.append(real)
            infos.append(dict(object=name, x=str(xv), declared_shape=shape, declared_cond_shape=cs))
    outs = vlib.run_model(lines)
    for line, got, real, info in zip(lines, outs, reals, infos):
        c.case(("generated-wrapper-default", info["object"], info["x"]), info["declared_cond_shape"] is not None)
        c.count("generated-wrapper-default:" + ("accepted" if real.startswith("ok") else "rejected"))
        if got != real:
            c.mismatch("generated-wrapper-vs-impl", op=line, generated=got, impl=real, **info)
    # (ii) the hook
    four = ["transform", "transform_and_log_det", "inverse", "inverse_and_log_det"]
    lines, reals, infos = [], [], []
    for code in itertools.product("pa-", repeat=4):
        for extra in (False, True):
            ns = {}
            for m, k in zip(four, code):
                if k == "p":
                    ns[m] = (lambda self, x, condition=None: x)
                elif k == "a":
                    ns[m] = abc.abstractmethod(lambda self, x, condition=None: x)
            if extra:
                ns["helper"] = (lambda self, x: x)
            cls = type("Probe_" + "".join(code).replace("-", "n") + ("_x" if extra else ""), (AbstractBijection,), dict(ns))
            wrapped = [k for k, v in cls.__dict__.items() if k in ns and hasattr(v, "__wrapped__")]
            plain = [m for m in ns if not getattr(ns[m], "__isabstractmethod__", False)]
            abstr = [m for m in ns if getattr(ns[m], "__isabstractmethod__", False)]
            lines.append(f"ginitsub {','.join(plain) or '-'} {','.join(abstr) or '-'}")
            reals.append(",".join(sorted(wrapped)) or "-")
            infos.append(dict(plain=plain, abstract=abstr))
    outs = vlib.run_model(lines)
    for line, got, real, info in zip(lines, outs, reals, infos):
        c.case(("generated-hook", line), True)
        c.count("generated-hook:" + str(0 if real == "-" else len(real.split(","))) + "-wrapped")
        g = ",".join(sorted(got.split(","))) if got != "-" else "-"
        if g != real:
            c.mismatch("generated-hook-vs-impl", op=line, generated=got, impl=real, **info)


def wrapper_cases(name, obj, tier, jobs):
    """(x, cond) combinations for one object.  quick: the full x lattice at the exact condition, the full condition lattice
    at the exact x, two wrong x against the short condition list.  thorough: the full x lattice against the full condition
    lattice at the pivot x values (exact, extra leading axis, scalar, transpose, None, list) and against the rank<=1 part
    of the condition lattice elsewhere."""
    shape, cs = tuple(obj.shape), (None if obj.cond_shape is None else tuple(obj.cond_shape))
    xs = x_variants(shape)
    right_c = "none" if cs is None else ("arr", cs)
    right_x = ("arr", shape)
    if tier == "thorough":
        full = cond_variants(cs, True)
        some = list(dict.fromkeys(cond_variants(cs, False) + [cv for cv in full if not isinstance(cv, tuple) or len(cv[1]) <= 1 or cv[1] in ((1,) + (cs or ()), tuple(reversed(cs or ())))]))
        pivots = {right_x, ("arr", (1,) + shape), ("arr", ()), ("arr", tuple(reversed(shape))), "none", "list"}
        combos = [(xv, cv) for xv in xs for cv in (full if xv in pivots else some)]
    else:
        combos = [(xv, right_c) for xv in xs] + [(right_x, cv) for cv in cond_variants(cs, True)]
        combos += [(("arr", s), cv) for s in [(1,) + shape, ()] for cv in cond_variants(cs, False)]
        combos = list(dict.fromkeys(combos))
    for xv, cv in combos:
        jobs.append((name, obj, xv, cv, shape, cs))


def run_wrapper_jobs(c, jobs):
    lines = []
    for name, obj, xv, cv, shape, cs in jobs:
        lines.append(f"ac wrap {sh(shape)} {osh(cs)} {val_tok(xv)} {val_tok(cv)}")
        lines.append(f"ac wrapgen {sh(shape)} {osh(cs)} {val_tok(xv)} {val_tok(cv)}")
    outs = vlib.run_model(lines)
    # the wrapper regenerated AS A WHOLE (Gen/WrapperGen.lean, driver op `gwrapper`) around a recording method
    wouts = vlib.run_model([f"gwrapper {sh(shape)} {osh(cs)} {val_tok(xv)} {val_tok(cv)}" for _, _, xv, cv, shape, cs in jobs])
    for i, (name, obj, xv, cv, shape, cs) in enumerate(jobs):
        model, modelgen = outs[2 * i], outs[2 * i + 1]
        if wouts[i] != model:
            c.mismatch("generated-wrapper-vs-model", op=f"gwrapper {sh(shape)} {osh(cs)} {val_tok(xv)} {val_tok(cv)}", generated=wouts[i], model=model)
        verdict = model.split(" ")[0]
        cls = type(obj).__name__
        x_wrong_bcast = isinstance(xv, tuple) and tuple(xv[1]) != shape and broadcastable(xv[1], shape)
        c_wrong = (cs is not None) and (cv == "none" or (isinstance(cv, tuple) and tuple(cv[1]) != cs))
        uncond_given = cs is None and cv != "none"
        nontrivial = bool(x_wrong_bcast or c_wrong or uncond_given or (isinstance(xv, tuple) and tuple(xv[1]) == tuple(reversed(shape)) != shape))
        if modelgen != model:
            c.mismatch("generated-check-vs-model", op=lines[2 * i + 1], generated=modelgen, model=model)
        # (a1) the real wrapper in isolation: exact tie (verdict AND what the body would receive), every combination
        iso = wrapper_only(obj, xv, cv)
        c.case((name, "wrapper", str(xv), str(cv)), nontrivial)
        c.count("wrapper-only:" + ("accepted" if iso.startswith("ok") else "rejected"))
        if iso != model:
            c.mismatch("wrapper-model-vs-impl", object=name, cls=cls, x=str(xv), condition=str(cv),
                       declared_shape=shape, declared_cond_shape=cs, model=model, impl=iso)
        c.case((name, "generated-wrapper", str(xv), str(cv)), nontrivial)
        c.count("generated-wrapper:" + ("accepted" if iso.startswith("ok") else "rejected"))
        if iso != wouts[i]:
            c.mismatch("generated-wrapper-vs-impl", object=name, cls=cls, x=str(xv), condition=str(cv),
                       declared_shape=shape, declared_cond_shape=cs, generated=wouts[i], impl=iso)
        # (a2) the four real methods: rejected exactly when the model rejects (same exception class); accepted calls
        # return exactly the declared shape and a scalar log-det
        for m in METHODS:
            got, detail = call_real(obj, m, xv, cv)
            if got == "notimpl" and (cls, m) in NOT_IMPLEMENTED:
                got = "ok"  # the check passed; the documented NotImplementedError came from the method body
            c.case((name, m, str(xv), str(cv)), nontrivial,
                   sample={"op": lines[2 * i], "model": model, "impl": got, "object": name, "method": m} if (nontrivial and i % 499 == 0 and m == "inverse") else None)
            c.count("method:" + ("accepted" if got == "ok" else "rejected"))
            if got != verdict:
                c.mismatch("method-model-vs-impl", object=name, cls=cls, method=m, x=str(xv), condition=str(cv),
                           declared_shape=shape, declared_cond_shape=cs, model=model, impl=got, detail=detail)


# ------------------------------------------------------------------ (b) constructors
SHAPE_POOL = [(), (1,), (2,), (3,), (2, 3), (3, 2), (2, 1), (1, 3), (2, 2), (2, 3, 2), (1, 3, 2), (2, 3, 1)]
COND_POOL = [None, None, (2,), (1,), (), (2, 1)]


def _mk(shape, cond):
    return B.Identity(shape) if cond is None else _addcond(shape, cond)


def real_ctor(f):
    try:
        b = f()
        return "ok", b
    except Exception as ex:  # noqa: BLE001
        return canon(ex), str(ex)[:100]


def ctor_jobs(tier, rng):
    """list of (kind, line, thunk, result-encoder, nontrivial, info)"""
    jobs = []
    quick = tier == "quick"

    def pair_enc(b):
        return f"ok {sh(b.shape)} {osh(b.cond_shape)}"

    # ---- Chain / Stack / Concatenate: structured pairs + random lists
    lists = [[], [SHAPE_POOL[3]]]
    pairs = list(itertools.product(SHAPE_POOL, repeat=2))
    if quick:
        pairs = rng.sample(pairs, 60) + [((2, 3), (2,)), ((3,), ()), ((2,), (2, 3)), ((), ()), ((2, 3), (2, 4))]
    lists += [list(p) for p in pairs]
    for _ in range(40 if quick else 400):
        base = rng.choice(SHAPE_POOL)
        n = rng.choice([1, 2, 3, 4])
        l = []
        for _ in range(n):
            s = list(base)
            r = rng.random()
            if s and r < 0.5:
                i = rng.randrange(len(s))
                s[i] = rng.choice([1, 2, 3, 4])  # differs (at most) along one axis: the Concatenate-compatible family
            elif r < 0.6:
                s = list(rng.choice(SHAPE_POOL))
            l.append(tuple(s))
        lists.append(l)
    for shapes in lists:
        conds = [rng.choice(COND_POOL) for _ in shapes]
        if rng.random() < 0.5:
            conds = [None if cc is None else (2,) for cc in conds]  # compatible family
        axes = list(range(-4, 4)) if not quick else rng.sample(range(-4, 4), 3)
        ss, cc = lst(shapes, sh), lst(conds, osh)
        mism = len({tuple(s) for s in shapes}) > 1
        cm = len({c_ for c_ in conds if c_ is not None}) > 1
        mk = lambda shapes=shapes, conds=conds: [_mk(s, c_) for s, c_ in zip(shapes, conds)]
        jobs.append(("chain", f"ac chain {ss} {cc}", lambda mk=mk: B.Chain(mk()), pair_enc, mism or cm or not shapes, dict(shapes=shapes, conds=conds)))
        jobs.append(("match", f"ac match {ss}", lambda shapes=shapes: flowjax.utils.check_shapes_match(shapes), lambda r: "ok", mism, dict(shapes=shapes)))
        jobs.append(("merge", f"ac merge {cc}", lambda conds=conds: flowjax.utils.merge_cond_shapes(conds), lambda r: f"ok {osh(r)}", cm or not conds, dict(conds=conds)))
        for ax in axes:
            jobs.append(("concat", f"ac concat {ss} {cc} {ax}", lambda mk=mk, ax=ax: B.Concatenate(mk(), axis=ax), pair_enc, mism or cm or ax < 0, dict(shapes=shapes, conds=conds, axis=ax)))
            jobs.append(("stack", f"ac stack {ss} {cc} {ax}", lambda mk=mk, ax=ax: B.Stack(mk(), axis=ax), pair_enc, mism or cm or ax < 0, dict(shapes=shapes, conds=conds, axis=ax)))
            if shapes:
                jobs.append(("refconcat", f"ac refconcat {ss} {ax}", lambda shapes=shapes, ax=ax: jnp.concatenate([jnp.zeros(s) for s in shapes], axis=ax), lambda r: f"ok {sh(r.shape)}", ax < 0, dict(shapes=shapes, axis=ax)))
                jobs.append(("refstack", f"ac refstack {ss} {ax}", lambda shapes=shapes, ax=ax: jnp.stack([jnp.zeros(s) for s in shapes], axis=ax), lambda r: f"ok {sh(r.shape)}", ax < 0, dict(shapes=shapes, axis=ax)))
    # ---- Partial / indexing
    bounds = [None, -5, -4, -3, -2, -1, 0, 1, 2, 3, 4, 5]
    steps = [None, 1, 2, 3, -1, -2, -3, 0]
    idxs = [("i", i) for i in range(-5, 6)] + [("s", a, b, st) for a in bounds for b in bounds for st in steps]
    pshapes = [(), (0,), (1,), (2,), (3,), (4,), (3, 2), (1, 3), (2, 2, 2)]
    combos = [(s, ix) for s in pshapes for ix in idxs]
    if quick:
        combos = rng.sample(combos, 250) + [((0,), ("i", 0)), ((0,), ("i", -1)), ((0, 2), ("i", 1)), ((3,), ("i", 5)), ((3,), ("i", -4)), ((), ("i", 0)), ((), ("s", 0, 1, None)), ((3,), ("s", None, None, 0))]
    for s, ix in combos:
        tok = f"i:{ix[1]}" if ix[0] == "i" else "s:" + ":".join("N" if v is None else str(v) for v in ix[1:])
        pyidx = ix[1] if ix[0] == "i" else slice(*ix[1:])
        oob = ix[0] == "i" and s and not (-s[0] <= ix[1] < s[0])
        jobs.append(("index", f"ac index {sh(s)} {tok}", lambda s=s, pyidx=pyidx: jnp.zeros(s)[pyidx], lambda r: f"ok {sh(r.shape)}", bool(oob) or ix[0] == "s", dict(shape=s, idx=str(pyidx))))
        # Partial with the fitting bijection shape and with a perturbed one
        try:
            fit = tuple(np.zeros(s)[pyidx].shape) if not oob else s[1:]
        except Exception:  # noqa: BLE001
            fit = s[1:] if s else ()
        for bs in {fit, fit + (1,), (fit[0] + 1,) + fit[1:] if fit else (1,)}:
            jobs.append(("partial", f"ac partial {sh(s)} {tok} {sh(bs)}", lambda s=s, pyidx=pyidx, bs=bs: B.Partial(B.Identity(bs), pyidx, s), lambda r: "ok", bs != fit or bool(oob), dict(shape=s, idx=str(pyidx), bshape=bs)))
    # ---- Reshape
    rs = [(), (1,), (2,), (6,), (2, 3), (3, 2), (1, 6), (5,), (4,), (2, 2)]
    combos = [(b, bc, s, cc) for b in rs for bc in [None, (2,), (2, 2), (4,)] for s in [None] + rs for cc in [None, (4,), (2, 2), (2,), (3,), ()]]
    if quick:
        combos = rng.sample(combos, 250)
    for b, bc, s, cc in combos:
        bad = (s is not None and np.prod(s) != np.prod(b)) or (cc is not None and (bc is None or np.prod(cc) != np.prod(bc)))
        jobs.append(("reshape", f"ac reshape {sh(b)} {osh(bc)} {osh(s)} {osh(cc)}", lambda b=b, bc=bc, s=s, cc=cc: B.Reshape(_mk(b, bc), s, cc), pair_enc, bool(bad), dict(bshape=b, bcond=bc, shape=s, cond=cc)))
    # ---- Transformed
    for a in [None, (2,), (1,), (2, 1), ()]:
        for b in [None, (2,), (1,), (2, 1), ()]:
            def mk_t(a=a, b=b):
                base = D.StandardNormal((3,)) if a is None else D.Transformed(D.StandardNormal((3,)), _addcond((3,), a))
                return D.Transformed(base, _mk((3,), b))
            jobs.append(("transformed", f"ac transformed {osh(a)} {osh(b)}", mk_t, lambda r: "ok", a is not None and b is not None and a != b, dict(base=a, bij=b)))
    # ---- TriangularAffine
    for loc in [(), (1,), (2,), (3,), (1, 1), (3, 1), (1, 3), (3, 3)]:
        for arr in [(), (3,), (3, 3), (2, 2), (1, 1), (0, 0), (3, 2), (2, 3), (1, 3), (3, 3, 3), (1, 3, 3)]:
            jobs.append(("tri", f"ac tri {sh(loc)} {sh(arr)}", lambda loc=loc, arr=arr: B.TriangularAffine(jnp.zeros(loc), jnp.ones(arr)),
                         lambda r: f"ok {sh(r.shape)}", arr != (3, 3), dict(loc=loc, arr=arr)))
    # ---- transformer / activation must be scalar and unconditional
    k = jr.PRNGKey(0)
    for s in [(), (1,), (2,)]:
        for cc in [None, (2,), ()]:
            t = lambda s=s, cc=cc: _mk(s, cc)
            jobs.append(("scalar", f"ac scalar {sh(s)} {osh(cc)}", lambda t=t: B.Coupling(k, transformer=t(), untransformed_dim=1, dim=2, nn_width=2, nn_depth=1), lambda r: "ok", True, dict(ctor="Coupling", shape=s, cond=cc)))
            jobs.append(("scalar", f"ac scalar {sh(s)} {osh(cc)}", lambda t=t: B.MaskedAutoregressive(k, transformer=t(), dim=2, nn_width=2, nn_depth=1), lambda r: "ok", True, dict(ctor="MaskedAutoregressive", shape=s, cond=cc)))
            jobs.append(("scalar", f"ac scalar {sh(s)} {osh(cc)}", lambda t=t: B.BlockAutoregressiveNetwork(k, dim=2, depth=1, block_dim=2, activation=t()), lambda r: "ok", True, dict(ctor="BlockAutoregressiveNetwork", shape=s, cond=cc)))
    # ---- EmbedCondition, Invert / Scan / Partial.cond_shape (hand model line `gc hembed` / none; generated `gc embed` / `gc wrap`)
    for b in [(), (3,), (2, 3), (1,)]:
        for bc in [None, (2,), (), (2, 2)]:
            for raw in [(), (5,), (2, 1)]:
                jobs.append(("embed", f"gc hembed {sh(b)} {osh(bc)} {sh(raw)}", lambda b=b, bc=bc, raw=raw: B.EmbedCondition(_mk(b, bc), lambda c_: c_, raw),
                             pair_enc, False, dict(bshape=b, bcond=bc, raw=raw)))

            def mk_w(b=b, bc=bc):
                inner = _mk(b, bc)
                part = B.Partial(inner, slice(None), b) if b else B.Invert(inner)
                return B.Invert(inner), B.Scan(inner), part
            jobs.append(("wrap", f"gc wrap {sh(b)} {osh(bc)}", mk_w,
                         lambda r: f"ok {sh(r[0].shape)} {osh(r[0].cond_shape)} {sh(r[1].shape)} {osh(r[1].cond_shape)} {osh(r[2].cond_shape)}",
                         False, dict(bshape=b, bcond=bc)))
    jobs += vmap_jobs(tier, rng, pair_enc)
    return jobs


def vmap_jobs(tier, rng, pair_enc):
    """Vmap(bijection, in_axes=…, axis_size=…, in_axes_condition=…): the pytree side enters the model resolved (shapes of the array
    leaves of unwrap(bijection); one optional axis per leaf from the real `_resolve_vmapped_axes`; whether `in_axes` contains an
    unwrappable), everything else (XOR, inference order, get_cond_shape, shape) is the regenerated constructor."""
    import jax.tree_util as jtu
    from flowjax import wrappers
    from flowjax.bijections.jax_transforms import _resolve_vmapped_axes
    jobs = []
    plain = B.Affine(jnp.zeros(3), jnp.ones(3))
    batched = eqx.filter_vmap(B.Affine)(jnp.zeros((4, 3)), jnp.full((4, 3), 1.5))
    cond_noleaf = _addcond((3,), (2,))
    cond_leaf = B.Chain([B.Affine(jnp.zeros(3), jnp.ones(3)), _addcond((3,), (2, 5))])
    cond_arr = B.EmbedCondition(B.Affine(jnp.zeros((4, 3)), jnp.ones((4, 3))), eqx.nn.Identity(), (2, 5))  # conditional, array leaves only
    bijs = {"plain": plain, "batched": batched, "cond_noleaf": cond_noleaf, "cond_leaf": cond_leaf, "cond_arr": cond_arr,
            "scalar": B.Affine(0.5, 2.0)}
    none_tree = lambda b: jtu.tree_map(lambda _: None, wrappers.unwrap(b))
    in_axes_opts = {
        "None": lambda b: None, "0": lambda b: 0, "1": lambda b: 1, "-1": lambda b: -1, "-2": lambda b: -2, "2": lambda b: 2,
        "if_array0": lambda b: eqx.if_array(0), "if_array1": lambda b: eqx.if_array(1),
        "tree_none": none_tree,
        "tree_wrapped": lambda b: jtu.tree_map(lambda _: 0, b),  # structure of the WRAPPED bijection: contains unwrappables for Affine
    }
    combos = [(bn, an, n, ca) for bn in bijs for an in in_axes_opts for n in (None, 4) for ca in (None, 0, 1, -1, -2, 2, -3, 3, -4)]
    for bn, an, n, ca in combos:
        bij = bijs[bn]
        in_axes = in_axes_opts[an](bij)
        unwrapped = wrappers.unwrap(bij)
        leaves = jtu.tree_leaves(unwrapped)
        if in_axes is None:
            leaves = [l for l in leaves if hasattr(l, "shape")]  # not looked at on the axis_size path
        elif not all(hasattr(l, "shape") for l in leaves):
            continue  # a non-array leaf under an integer in_axes: AttributeError inside the pytree traversal, outside the model
        if in_axes is None:
            ia_tok = "N"
        else:
            has_unw = any(isinstance(l, wrappers.AbstractUnwrappable)
                          for l in jtu.tree_leaves(in_axes, is_leaf=lambda x: isinstance(x, wrappers.AbstractUnwrappable)))
            if has_unw:
                axes = [None] * len(leaves)  # the constructor raises before resolving
            else:
                try:
                    resolved = _resolve_vmapped_axes(unwrapped, in_axes)
                    axes = jtu.tree_leaves(resolved, is_leaf=lambda x: x is None)
                except Exception:  # noqa: BLE001  -- an in_axes that is not a prefix of the tree: outside the model
                    continue
                if len(axes) != len(leaves):
                    continue
            ia_tok = f"u:{1 if has_unw else 0}:" + lst(axes, lambda a: "N" if a is None else str(a))
        line = (f"gc hvmap {sh(bij.shape)} {osh(bij.cond_shape)} {lst([l.shape for l in leaves], sh)} {ia_tok} "
                f"{'N' if n is None else n} {'N' if ca is None else ca}")
        nontrivial = (in_axes is None) == (n is None) or (ca is not None and ca < 0) or an in ("tree_wrapped", "tree_none", "2", "-2")
        jobs.append(("vmap", line, lambda bij=bij, in_axes=in_axes, n=n, ca=ca: B.Vmap(bij, in_axes=in_axes, axis_size=n, in_axes_condition=ca),
                     pair_enc, nontrivial, dict(bijection=bn, in_axes=an, axis_size=n, cond_ax=ca)))
    return jobs


# kinds whose constructor is also REGENERATED from the source: hand-model op line -> generated op line, and what the real object
# must show for the generated result's extra fields
GEN_LINE = {
    "chain": lambda l: "gc" + l[2:], "match": lambda l: "gc" + l[2:], "merge": lambda l: "gc" + l[2:], "concat": lambda l: "gc" + l[2:],
    "stack": lambda l: "gc" + l[2:], "partial": lambda l: "gc" + l[2:], "reshape": lambda l: "gc" + l[2:], "transformed": lambda l: "gc" + l[2:],
    "embed": lambda l: l.replace("gc hembed", "gc embed"), "vmap": lambda l: l.replace("gc hvmap", "gc vmap"), "wrap": lambda l: l,
}
GEN_EXTRA = {
    "concat": lambda b: f" {sh(b.split_idxs)} {b.axis}",
    "stack": lambda b: f" {b.axis}",
}


def run_ctor_jobs(c, jobs):
    outs = vlib.run_model([j[1] for j in jobs])
    gjobs = [j for j in jobs if j[0] in GEN_LINE]
    gouts = dict(zip([id(j) for j in gjobs], vlib.run_model([GEN_LINE[j[0]](j[1]) for j in gjobs])))
    for job, model in zip(jobs, outs):
        kind, line, thunk, enc, nontrivial, info = job
        v, r = real_ctor(thunk)
        got = enc(r) if v == "ok" else v
        if id(job) in gouts:
            # the constructor regenerated from the source: against the real constructor AND against the hand model
            gen = gouts[id(job)]
            want = got + (GEN_EXTRA[kind](r) if v == "ok" and kind in GEN_EXTRA else "")
            c.count("ctor-generated:" + kind)
            if gen != want:
                c.mismatch("ctor-generated-vs-impl:" + kind, op=GEN_LINE[kind](line), generated=gen, impl=want, detail=r if v != "ok" else None,
                           **{k: str(v_) for k, v_ in info.items()})
            gcore = " ".join(gen.split(" ")[:len(model.split(" "))]) if gen.startswith("ok") and model.startswith("ok") else gen
            if gcore != model:
                c.mismatch("ctor-generated-vs-model:" + kind, op=GEN_LINE[kind](line), generated=gen, model=model)
        if kind in ("refconcat", "refstack") and v != "ok":
            got = "none"
        c.case((kind, line), bool(nontrivial), sample={"op": line, "model": model, "impl": got} if nontrivial and len(c.samples) < 10 and kind in ("concat", "stack", "partial") and got != "ok" else None)
        c.count("ctor:" + kind + ":" + ("ok" if got.startswith("ok") else "rejected"))
        if got != model:
            c.mismatch("ctor-model-vs-impl:" + kind, op=line, model=model, impl=got, detail=r if v != "ok" else None, **{k: str(v_) for k, v_ in info.items()})
    # slice arithmetic against CPython, densely (pure Python: cheap)
    lines, wants = [], []
    bnd = [None] + list(range(-8, 9))
    for n in range(0, 7):
        for a in bnd:
            for b in bnd:
                for st in [None, 1, 2, 3, 5, -1, -2, -3, -5]:
                    lines.append(f"ac index {n} s:{'N' if a is None else a}:{'N' if b is None else b}:{'N' if st is None else st}")
                    wants.append(f"ok {len(range(*slice(a, b, st).indices(n)))}")
    outs = vlib.run_model(lines)
    bad = [(l, o, w) for l, o, w in zip(lines, outs, wants) if o != w]
    c.count("slice-arith", len(lines))
    c.evaluations += len(lines)
    for l, o, w in bad[:5]:
        c.mismatch("sliceLen-vs-python", op=l, model=o, impl=w)


# ------------------------------------------------------------------ (c) class table vs live introspection
def all_bijection_classes():
    for m in pkgutil.walk_packages(flowjax.__path__, "flowjax."):
        try:
            importlib.import_module(m.name)
        except Exception:  # noqa: BLE001  optional dependencies (numpyro …)
            pass
    seen, todo = [], [AbstractBijection]
    while todo:
        k = todo.pop()
        if k in seen:
            continue
        seen.append(k)
        todo.extend(k.__subclasses__())
    return [k for k in seen if k.__module__.startswith("flowjax")]


def live_facts(cls, names):
    """definer and wrappedness of every method as Python sees it"""
    out = {}
    for m in METHODS:
        definer = next((k for k in cls.__mro__ if m in k.__dict__), None)
        attr = getattr(cls, m, None)
        wrapped = hasattr(attr, "__wrapped__") and getattr(getattr(attr, "__code__", None), "co_name", "") == "wrapper" \
            and getattr(attr, "__code__").co_filename.endswith("flowjax/bijections/bijection.py")
        out[m] = (definer.__name__ if definer is not None and definer.__name__ in names else "none", bool(wrapped))
    return out


def run_introspection(c):
    table = vlib.run_model(["ac classes"])[0].split(",")
    live = all_bijection_classes()
    live_names = [k.__name__ for k in live]
    for n in table:
        if n not in live_names:
            c.mismatch("class-table-vs-live", cls=n, problem="in the generated table but not a live subclass")
    lines, metas = [], []
    for k in live:
        if k.__name__ not in table:
            c.mismatch("class-table-vs-live", cls=k.__name__, module=k.__module__, problem="live subclass missing from the generated table")
            continue
        lines.append(f"ac mro {k.__name__}")
        metas.append(("mro", k, None))
        for m in METHODS:
            lines.append(f"ac resolve {k.__name__} {m}")
            metas.append(("resolve", k, m))
    outs = vlib.run_model(lines)
    known = set(table) | {"Module"}
    for (kind, k, m), out in zip(metas, outs):
        if kind == "mro":
            want = ",".join(b.__name__ for b in k.__mro__ if b.__name__ in known)
            c.case(("mro", k.__name__), True)
            if out != want:
                c.mismatch("mro-model-vs-live", cls=k.__name__, model=out, impl=want)
            # third-party bases must not bind any of the four names
            for b in k.__mro__:
                if b.__name__ not in table and any(mm in b.__dict__ for mm in METHODS):
                    c.mismatch("external-base-binds-method", cls=k.__name__, base=b.__name__)
        else:
            definer, wrapped = live_facts(k, table)[m]
            want = f"{definer} {1 if wrapped else 0}"
            c.case(("resolve", k.__name__, m), True, sample={"op": f"ac resolve {k.__name__} {m}", "model": out, "impl": want} if k.__name__ == "Reshape" and m == "inverse" else None)
            c.count("introspection")
            if out != want:
                c.mismatch("resolve-model-vs-live", cls=k.__name__, method=m, model=out, impl=want)


# ------------------------------------------------------------------ (d) distributions
def dist_zoo():
    return {
        "StandardNormal(3)": lambda: D.StandardNormal((3,)),
        "Normal(2,3)": lambda: D.Normal(jnp.zeros((2, 3)), jnp.ones((2, 3))),
        "Normal()": lambda: D.Normal(),
        "MultivariateNormal(3)": lambda: D.MultivariateNormal(jnp.zeros(3), jnp.eye(3)),
        "Uniform(1)": lambda: D.Uniform(jnp.zeros(1), jnp.ones(1)),
        "Transformed(N3,AddCond|2)": lambda: D.Transformed(D.StandardNormal((3,)), _addcond((3,), (2,))),
        "Transformed(N2,AddCond|2,1)": lambda: D.Transformed(D.StandardNormal((2,)), _addcond((2,), (2, 1))),
        "Transformed(N(),AddCond|)": lambda: D.Transformed(D.StandardNormal(()), _addcond((), ())),
    }


def dist_real(f, enc):
    try:
        return enc(f())
    except Exception as ex:  # noqa: BLE001
        return canon(ex)


def run_dist(c, tier, rng):
    lines, thunks, metas = [], [], []
    key = jr.PRNGKey(1)
    quick_names = ("StandardNormal(3)", "Normal(2,3)", "Uniform(1)", "Transformed(N3,AddCond|2)", "Transformed(N2,AddCond|2,1)")
    for name, mk in dist_zoo().items():
        if tier == "quick" and name not in quick_names:
            continue
        d = mk()
        shape, cs = tuple(d.shape), (None if d.cond_shape is None else tuple(d.cond_shape))
        lattice = [s_ for s_ in LATTICE if len(s_) <= 2] if tier == "quick" else LATTICE
        xs = list(dict.fromkeys(lattice + [shape, (4,) + shape, (2, 1) + shape, (1,) + shape, tuple(reversed(shape))]))
        if cs is None:
            conds = [None, (2,)]
        else:
            conds = [None, cs, (5,) + cs, (2, 1) + cs, (1,) + cs, (), (1,), (3,), (2, 2), tuple(reversed(cs)), (4,) + cs]
            conds = list(dict.fromkeys(conds))
        combos = [(x, cc) for x in xs for cc in conds]
        if tier == "quick":
            right_c = None if cs is None else cs
            combos = [(x, right_c) for x in xs] + [(x, cc) for x in [shape, (4,) + shape, (2, 1) + shape] for cc in conds]
            combos = list(dict.fromkeys(combos))
        for x, cc in combos:
            lines.append(f"ac dist {sh(shape)} {osh(cs)} {sh(x)} {osh(cc)}")
            thunks.append((lambda d=d, x=x, cc=cc: d.log_prob(jnp.full(x, 0.3), None if cc is None else jnp.full(cc, 0.3)), lambda r: f"ok {sh(r.shape)}"))
            nt = (x[len(x) - len(shape):] != shape if len(shape) else False) or (cs is not None and (cc is None or cc[len(cc) - len(cs):] != cs if len(cs) else cc is None))
            metas.append((name, "log_prob", x, cc, bool(nt)))
        for ss in ([(), (2, 1)] if tier == "quick" else [(), (2,), (2, 1)]):
            for cc in conds:
                lines.append(f"ac sample {sh(shape)} {osh(cs)} {sh(ss)} {osh(cc)}")
                thunks.append((lambda d=d, ss=ss, cc=cc: d.sample(key, ss, None if cc is None else jnp.full(cc, 0.3)), lambda r: f"ok {sh(r.shape)}"))
                metas.append((name, "sample", ss, cc, cs is not None))
                # sample_and_log_prob: same acceptance; shapes (result, result-without-event dims)
                lines.append(f"ac sample {sh(shape)} {osh(cs)} {sh(ss)} {osh(cc)}")
                thunks.append((lambda d=d, ss=ss, cc=cc: d.sample_and_log_prob(key, ss, None if cc is None else jnp.full(cc, 0.3)),
                               lambda r, n=len(shape): f"ok {sh(r[0].shape)}" if tuple(r[1].shape) == tuple(r[0].shape)[: len(r[0].shape) - n] else "badshape"))
                metas.append((name, "sample_and_log_prob", ss, cc, cs is not None))
    outs = vlib.run_model(lines)
    for line, (f, enc), meta, model in zip(lines, thunks, metas, outs):
        got = dist_real(f, enc)
        c.case(("dist",) + tuple(str(v) for v in meta[:4]), meta[4], sample={"op": line, "model": model, "impl": got, "dist": meta[0], "method": meta[1]} if meta[4] and len(c.samples) < 12 and got == "ValueError" and meta[1] == "log_prob" and meta[2] == (4, 1) else None)
        c.count("dist:" + meta[1] + ":" + ("ok" if got.startswith("ok") else "rejected"))
        if got != model:
            c.mismatch("dist-model-vs-impl", op=line, dist=meta[0], method=meta[1], arg=str(meta[2]), condition=str(meta[3]), model=model, impl=got)


# ------------------------------------------------------------------ the GENERATED `_UnconditionalPlanar.__init__` (Gen/PlanarInitGen.lean, op `guplanarinit`)
def corr_uplanar_init(c, tier, rng):
    """generated constructor at Float vs real `_UnconditionalPlanar(weight, act_scale, bias, negative_slope)`: the ValueError verdict, the
    `activation` string, `shape`, the stored arrays and `activation_fn` at probe points (both signs, 0, -0.0, large)"""
    import vlib
    from flowjax.bijections.planar import _UnconditionalPlanar
    slopes = [None, 0.1, 1.0, 2.5, 1e-300, 0.0, -0.0, -0.3, -1e-300, float("inf"), float("-inf"), float("nan")]
    # (a SUBNORMAL slope such as 5e-324 is excluded: XLA on CPU flushes the subnormal products `slope * x` to -0.0, the model keeps them)
    slopes += [rng.choice([-1, 1]) * 10 ** rng.uniform(-3, 2) for _ in range(4 if tier == "quick" else 40)]
    pts = [-2.5, -1.0, -1e-3, -0.0, 0.0, 0.5, 3.0, 40.0]
    for ns in slopes:
        dim = rng.choice([1, 2, 3])
        w = [rng.uniform(-2, 2) for _ in range(dim)]
        u = [rng.uniform(-2, 2) for _ in range(dim)]
        b = rng.uniform(-2, 2)
        line = f"guplanarinit {vlib.fs2b(w)} {vlib.fs2b(u)} {vlib.f2b(b)} {'N' if ns is None else vlib.f2b(ns)} {vlib.fs2b(pts)}"
        got = vlib.run_model([line])[0]
        try:
            o = _UnconditionalPlanar(jnp.asarray(w), jnp.asarray(u), jnp.asarray(b), ns)
            vals = [float(o.activation_fn(jnp.asarray(p))) for p in pts]
            want = ("OK", o.activation, ",".join(str(int(v)) for v in o.shape) or "-", [float(v) for v in np.asarray(o.weight)],
                    [float(v) for v in np.asarray(o._act_scale)], float(o.bias), vals)
        except ValueError as ex:
            want = ("RAISE", "valueError" if "negative slope value should be >0" in str(ex) else str(ex)[:60])
        raises = want[0] == "RAISE"
        c.count("uplanarinit:" + ("None" if ns is None else ("raise" if raises else "slope")))
        c.case(f"uplanarinit {'None' if ns is None else ('nonpos' if raises else 'pos')}", True, sample=dict(op=line, model=got, impl=str(want)[:200]))
        f = got.split(" ")
        if raises:
            ok = got == "RAISE " + want[1]
        else:
            ok = (len(f) == 7 and f[0] == "OK" and f[1] == want[1] and f[2] == want[2] and vlib.b2fs(f[3]) == want[3] and vlib.b2fs(f[4]) == want[4]
                  and vlib.b2f(f[5]) == want[5] and vlib.allclose(vlib.b2fs(f[6]), want[6], rtol=1e-12, atol=0.0))
        if not ok:
            c.mismatch("uplanarinit-generated-ctor-vs-impl", op=line, slope=repr(ns), model=got, impl=str(want)[:300])


# ------------------------------------------------------------------ corr
def corr(c, tier, rng):
    corr_uplanar_init(c, tier, rng)
    # --- the GENERATED `BlockAutoregressiveNetwork.__init__` (Gen/BnafInitGen.lean): guard verdict / built shapes against real constructions
    from props import bnafld
    bnafld.corr_init(c, tier, rng)
    jobs = []
    objs = {}
    for name, mk in zoo().items():
        try:
            objs[name] = mk()
        except Exception as ex:  # noqa: BLE001
            c.mismatch("zoo-construction", object=name, error=repr(ex)[:200])
    for i in range(8 if tier == "quick" else 60):
        try:
            b, n = rand_comp(rng, rng.choice([1, 2, 3]))
            objs[f"gen{i}:{n}"] = b
        except Exception as ex:  # noqa: BLE001
            c.mismatch("zoo-construction", object=f"gen{i}", error=repr(ex)[:200])
    covered = {type(o).__name__ for o in objs.values()}
    c.notes.append("bijection classes instantiated: " + ",".join(sorted(covered)))
    for name, obj in objs.items():
        wrapper_cases(name, obj, tier, jobs)
        c.count("objects")
    import time as _t
    t0 = _t.time()
    run_wrapper_jobs(c, jobs)
    c.notes.append(f"timing: methods {_t.time() - t0:.1f}s")
    # every concrete live class must have been exercised
    for k in all_bijection_classes():
        if k is not AbstractBijection and k.__name__ not in covered:
            c.mismatch("zoo-coverage", cls=k.__name__, problem="no instance of this bijection class in the zoo")
    t0 = _t.time()
    run_ctor_jobs(c, ctor_jobs(tier, rng))
    t1 = _t.time()
    run_introspection(c)
    t2 = _t.time()
    run_dist(c, tier, rng)
    c.notes.append(f"timing: ctors {t1 - t0:.1f}s introspection {t2 - t1:.1f}s dists {_t.time() - t2:.1f}s")
    run_generated_wrapper_extras(c, objs)  # last: it creates probe subclasses of AbstractBijection


# ------------------------------------------------------------------ search: the property's oracle on the real code
def oracle_object(name, obj, full=False):
    """C13 on one real object: wrong x / missing or wrong condition must raise; exact shapes must succeed with the
    declared result shapes.  Returns witnesses."""
    wit = []
    shape, cs = tuple(obj.shape), (None if obj.cond_shape is None else tuple(obj.cond_shape))
    right_c = "none" if cs is None else ("arr", cs)
    cls = type(obj).__name__
    combos = [(xv, right_c) for xv in x_variants(shape) if xv != "list"] + [(("arr", shape), cv) for cv in cond_variants(cs, True) if cv != "list"]
    for xv, cv in dict.fromkeys(combos):
        x_ok = is_right(xv, shape)
        c_ok = cs is None or (isinstance(cv, tuple) and tuple(cv[1]) == cs) or (cv == "pyfloat" and cs == ())
        for m in METHODS:
            got, detail = call_real(obj, m, xv, cv)
            if got == "notimpl" and (cls, m) in NOT_IMPLEMENTED:
                continue
            bad = None
            if x_ok and c_ok and got != "ok":
                bad = f"well-shaped call did not succeed with the declared result shapes: {got} {detail}"
            elif not (x_ok and c_ok) and got in ("ok", "badshape", "badresult", "notimpl"):
                bad = "malformed input was not rejected"
            if bad:
                wit.append(dict(key=f"{name}|{m}|x={xv}|c={cv}", object=name, method=m, x=list(xv) if isinstance(xv, tuple) else xv,
                                condition=list(cv) if isinstance(cv, tuple) else cv, declared_shape=shape, declared_cond_shape=cs, law=bad, kind="method"))
                if len(wit) >= 3:
                    return wit
    return wit


def oracle_classes():
    wit = []
    for k in all_bijection_classes():
        if k is AbstractBijection or getattr(k, "__abstractmethods__", None):
            continue
        names = [kk.__name__ for kk in all_bijection_classes()]
        for m, (definer, wrapped) in live_facts(k, names).items():
            if not wrapped:
                wit.append(dict(key=f"class|{k.__name__}|{m}", kind="class", cls=k.__name__, method=m, definer=definer,
                                law="the resolved method is not wrapped by _unwrap_check_and_cast"))
    return wit


CTOR_ORACLE = [
    # (key, thunk that MUST raise)
    ("Chain shapes", lambda: B.Chain([B.Identity((3,)), B.Identity((1,))])),
    ("Chain shapes scalar", lambda: B.Chain([B.Identity((3,)), B.Identity(())])),
    ("Chain cond", lambda: B.Chain([_addcond((3,), (2,)), _addcond((3,), (1,))])),
    ("Stack shapes", lambda: B.Stack([B.Identity((3,)), B.Identity((1,))])),
    ("Stack cond", lambda: B.Stack([_addcond((3,), (2,)), _addcond((3,), (2, 1))])),
    ("Concatenate off-axis", lambda: B.Concatenate([B.Identity((2, 3)), B.Identity((1, 3))], axis=1)),
    ("Concatenate rank", lambda: B.Concatenate([B.Identity((2, 3)), B.Identity((2,))], axis=1)),
    ("Concatenate cond", lambda: B.Concatenate([_addcond((3,), (2,)), _addcond((3,), ())])),
    ("Partial slice", lambda: B.Partial(B.Identity((1,)), slice(0, 2), (3,))),
    ("Partial int", lambda: B.Partial(B.Identity((1,)), 0, (3,))),
    ("Partial array", lambda: B.Partial(B.Identity((3,)), jnp.array([0, 1]), (3,))),
    ("Reshape count", lambda: B.Reshape(B.Identity((2, 3)), (5,))),
    ("Reshape cond count", lambda: B.Reshape(_addcond((2,), (2, 2)), None, (3,))),
    ("Reshape cond of unconditional", lambda: B.Reshape(B.Identity((2,)), None, (3,))),
    ("Transformed cond", lambda: D.Transformed(D.Transformed(D.StandardNormal((3,)), _addcond((3,), (2,))), _addcond((3,), (1,)))),
    ("TriangularAffine non-square", lambda: B.TriangularAffine(jnp.zeros(3), jnp.ones((3, 1)))),
    ("Coupling transformer", lambda: B.Coupling(jr.PRNGKey(0), transformer=B.Affine(jnp.zeros(2)), untransformed_dim=1, dim=2, nn_width=2, nn_depth=1)),
]

DIST_ORACLE = [
    ("StandardNormal(3).log_prob size-1", lambda: D.StandardNormal((3,)).log_prob(jnp.zeros((4, 1)))),
    ("StandardNormal(3).log_prob scalar", lambda: D.StandardNormal((3,)).log_prob(jnp.zeros(()))),
    ("Normal(2,3).log_prob transposed", lambda: D.Normal(jnp.zeros((2, 3))).log_prob(jnp.zeros((3, 2)))),
    ("Normal(2,3).log_prob row", lambda: D.Normal(jnp.zeros((2, 3))).log_prob(jnp.zeros((3,)))),
    ("cond.log_prob cond size-1", lambda: D.Transformed(D.StandardNormal((3,)), _addcond((3,), (2,))).log_prob(jnp.zeros(3), jnp.zeros((1,)))),
    ("cond.log_prob cond missing", lambda: D.Transformed(D.StandardNormal((3,)), _addcond((3,), (2,))).log_prob(jnp.zeros(3))),
    ("cond.sample cond scalar", lambda: D.Transformed(D.StandardNormal((3,)), _addcond((3,), (2,))).sample(jr.PRNGKey(0), (), jnp.zeros(()))),
]


_GRID_SHAPES = [(), (1,), (2,), (3,), (1, 2), (2, 3), (3, 3), (2, 1), (2, 3, 3), (1, 2, 3), (2, 3, 1)]


def oracle_ctor_grid(limit=6):
    """Concatenate / Stack / Chain on every pair of the shapes above (ranks 0-3, equal and DIFFERENT ranks) and every axis in
    [-3, 3): the constructor must accept exactly when `np.concatenate` / `np.stack` of arrays of the children's shapes does
    (Chain: exactly when the shapes are equal) and then declare NumPy's result shape."""
    out = []

    def ref(fn):
        try:
            return ("ok", tuple(fn().shape))
        except Exception:  # noqa: BLE001
            return ("raise", None)

    for s1 in _GRID_SHAPES:
        for s2 in _GRID_SHAPES:
            jobs = [("Chain", None, ("ok", s1) if s1 == s2 else ("raise", None), lambda: B.Chain([B.Identity(s1), B.Identity(s2)]))]
            for ax in range(-3, 3):
                jobs.append(("Concatenate", ax, ref(lambda: np.concatenate([np.zeros(s1), np.zeros(s2)], axis=ax)),
                             lambda ax=ax: B.Concatenate([B.Identity(s1), B.Identity(s2)], axis=ax)))
                jobs.append(("Stack", ax, ref(lambda: np.stack([np.zeros(s1), np.zeros(s2)], axis=ax)),
                             lambda ax=ax: B.Stack([B.Identity(s1), B.Identity(s2)], axis=ax)))
            for ctor, ax, want, thunk in jobs:
                v, r = real_ctor(thunk)
                got = ("ok", tuple(r.shape)) if v == "ok" else ("raise", None)
                if got != want:
                    law = ("documented incompatibility was accepted" if want[0] == "raise" else
                           "a compatible construction was rejected" if got[0] == "raise" else "declared shape differs from NumPy's")
                    out.append(dict(key=f"ctor-grid|{ctor}|{s1}|{s2}|axis={ax}", kind="ctor-grid", ctor=ctor, s1=list(s1), s2=list(s2), axis=ax,
                                    law=law, want=str(want), got=str(got)))
                    if len(out) >= limit:
                        return out
    return out


def _ctor_grid_one(ctor, s1, s2, ax):
    s1, s2 = tuple(s1), tuple(s2)
    if ctor == "Chain":
        want = ("ok", s1) if s1 == s2 else ("raise", None)
        thunk = lambda: B.Chain([B.Identity(s1), B.Identity(s2)])  # noqa: E731
    else:
        f = np.concatenate if ctor == "Concatenate" else np.stack
        try:
            want = ("ok", tuple(f([np.zeros(s1), np.zeros(s2)], axis=ax).shape))
        except Exception:  # noqa: BLE001
            want = ("raise", None)
        cls = B.Concatenate if ctor == "Concatenate" else B.Stack
        thunk = lambda: cls([B.Identity(s1), B.Identity(s2)], axis=ax)  # noqa: E731
    v, r = real_ctor(thunk)
    got = ("ok", tuple(r.shape)) if v == "ok" else ("raise", None)
    return got != want


KNOWN_PARTIAL_KEY = "Partial.__check_init__|out-of-range integer index accepted"


def partial_accepts(idxs, shape, inner_shape):
    """does the real constructor accept Partial(Identity(inner_shape), idxs, shape)?"""
    return real_ctor(lambda: B.Partial(B.Identity(tuple(inner_shape)), idxs, tuple(shape)))[0] == "ok"


def oracle_partial():
    """strict oracle: an index set that does not fit must raise.  An out-of-range integer index gets the stable region
    key KNOWN_PARTIAL_KEY (one witness); any other acceptance of a non-fitting index set gets its own specific key."""
    wit = []
    for shape, i in [((3,), 5), ((3,), -4), ((3, 2), 3), ((1,), 1)]:
        if partial_accepts(i, shape, shape[1:]):
            wit.append(dict(key=KNOWN_PARTIAL_KEY, kind="partial", law="an integer index outside [-n, n) must be rejected",
                            witness={"ctor": "Partial", "idxs": i, "shape": list(shape), "inner_shape": list(shape[1:])}))
            break
    others = [
        ("slice-selects-2-bijection-has-1", slice(0, 2), (3,), (1,)),
        ("slice-oob-empty-selection-bijection-has-1", slice(5, 9), (3,), (1,)),
        ("int-in-range-bijection-shape-wrong", 1, (3,), (1,)),
        ("int-index-of-0d", 0, (), ()),
        ("bool-mask-selects-2-bijection-has-3", np.array([True, False, True]), (3,), (3,)),
        ("int-array-selects-2-bijection-has-3", np.array([0, 2]), (3,), (3,)),
        ("tuple-index-bijection-shape-wrong", (0, slice(None)), (2, 3), (2,)),
    ]
    for tag, idx, shape, inner in others:
        if partial_accepts(idx, shape, inner):
            wit.append(dict(key=f"Partial.__check_init__|{tag}", kind="partial", law="an index set that does not fit must be rejected",
                            witness={"ctor": "Partial", "idxs": repr(idx), "shape": list(shape), "inner_shape": list(inner), "tag": tag}))
    return wit


def search(hints, tier, rng):
    wit = []
    wit += oracle_partial()
    for w in oracle_classes():
        wit.append(w)
    for name, mk in zoo().items():
        try:
            obj = mk()
        except Exception as ex:  # noqa: BLE001
            wit.append(dict(key=f"zoo|{name}", kind="zoo", object=name, law="a documented-valid construction failed", exc=repr(ex)[:200]))
            continue
        wit += oracle_object(name, obj)
        if len(wit) >= 8:
            return wit
    for key, thunk in CTOR_ORACLE + DIST_ORACLE:
        v, r = real_ctor(thunk)
        if v == "ok":
            wit.append(dict(key=f"must-raise|{key}", kind="must-raise", which=key, law="documented incompatibility was accepted"))
    if len(wit) < 10:
        wit += oracle_ctor_grid()
    return wit[:10]


def replay(w):
    if w.get("ctor") == "Partial":  # payload of the known finding (known_findings.json) / of a "partial" witness
        idxs = w["idxs"]
        if isinstance(idxs, str):
            idxs = eval(idxs, {"slice": slice, "array": np.array, "np": np, "True": True, "False": False})  # noqa: S307 (our own repr)
        return partial_accepts(idxs, w["shape"], w["inner_shape"])
    if w.get("kind") == "partial":
        return replay(w["witness"])
    kind = w.get("kind")
    if kind == "ctor-grid":
        return _ctor_grid_one(w["ctor"], w["s1"], w["s2"], w["axis"])
    if kind == "class":
        return any(x["key"] == w["key"] for x in oracle_classes())
    if kind == "must-raise":
        for key, thunk in CTOR_ORACLE + DIST_ORACLE:
            if key == w["which"]:
                return real_ctor(thunk)[0] == "ok"
        return False
    if kind == "zoo":
        try:
            zoo()[w["object"]]()
            return False
        except Exception:  # noqa: BLE001
            return True
    if kind == "method":
        mk = zoo().get(w["object"])
        if mk is None:
            return False
        obj = mk()
        xv = tuple([w["x"][0], tuple(w["x"][1])]) if isinstance(w["x"], list) else w["x"]
        cv = tuple([w["condition"][0], tuple(w["condition"][1])]) if isinstance(w["condition"], list) else w["condition"]
        shape, cs = tuple(obj.shape), (None if obj.cond_shape is None else tuple(obj.cond_shape))
        got, _ = call_real(obj, w["method"], xv, cv)
        x_ok = is_right(xv, shape)
        c_ok = cs is None or (isinstance(cv, tuple) and tuple(cv[1]) == cs) or (cv == "pyfloat" and cs == ())
        if x_ok and c_ok:
            return got != "ok"
        return got in ("ok", "badshape", "badresult", "notimpl")
    return False
